/-
  Grip.Model.C17Read — MODEL of how the kvgraph READ paths interleave with concurrent WRITE calls
  (last sentence of C17: "concurrent readers only ever observe elements that some client wrote").

  What is modelled, and from which Go code:

  * WRITER calls (kvgraph/graph.go) as the sequence of key-value mutations `W` they issue, in the
    order of the code, cut into ATOMIC GROUPS as the kvi driver commits them:
      insertVertex  : Set(vertex key) ; AddDocTx (entry key, term key, doc key)
      insertEdge    : Set(edge key) ; Set(src key) ; Set(dst key) ; AddDocTx
      AddVertex / AddEdge / BulkAdd : all their inserts inside ONE kv.BulkWrite
      DelEdge       : View (find the edge key) ; then ONE kv.Update: Delete(ekey), Delete(skey), Delete(dkey)
      DelVertex     : View (collect adjacency) ; then ONE kv.Update: Delete(vid), then per edge
                      Delete(skey), Delete(dkey), Delete(ekey)
    What "one BulkWrite / one Update" means is the driver's business (kvi/*/..._store.go), field
    by field of `Driver`:
      bolt   : Update, BulkWrite = one bolt.Update transaction             (atomic, atomic)
      level  : Update, BulkWrite = OpenTransaction … Commit                (atomic, atomic)
      badger : Update = one badger txn (atomic); BulkWrite = badger.WriteBatch, which commits
               and starts a new txn whenever the current one is full: the batch may be CUT between
               any two Sets (not atomic for large calls)
      pebble : BulkWrite = one pebble.Batch (atomic up to 3 GB); Update = one indexed pebble.Batch,
               committed when the callback succeeds (atomic; before the repair — `pebbleOld` — it was
               `pebbleTransaction{db}`: every Set/Delete went straight to the db, each its own group)
  * READER calls as: ONE iterator scan on the snapshot taken when the View opens, followed by
    one `it.Get` per scanned item (`Path`).  Which store the `it.Get` reads (`GetMode`):
      scanSnap : the same snapshot as the iterator (badger, bolt: `tx.Get` of the View's txn)
      ownSnap  : the snapshot of ANOTHER View (GetOutChannel: scan in one View / goroutine,
                 vertex Gets in a second View / goroutine — badger, bolt)
      live     : the store as it is when the Get executes (level: `lit.db.Get` on *leveldb.DB,
                 pebble: `pit.db.Get` on *pebble.DB — the iterator is a snapshot, the Get is not;
                 also VertexLabelScan, whose per-id GetVertex opens a fresh View each time)
    The View stays open while the traversal feeds requests into `reqChan`: the snapshot may be
    arbitrarily old when a Get runs.  Requests are a parameter of the path (the scan of every
    request uses the same iterator snapshot, so when they arrive is immaterial).
  * `run` : an arbitrary interleaving is a `List Event`; no scheduler, no fairness, no bound.

  What a reader emits when the record a scanned key refers to is GONE (`Path.missing`):
      GetOutChannel / GetInChannel / GetVertexChannel : `if err == nil {…}` — nothing (skipped)
      GetOutEdgeChannel / GetInEdgeChannel (load=true), AS REPAIRED: `continue` — nothing (skipped)
        (`pOutE`, `pInE`).  BEFORE the repair (`pOutEOld`, `pInEOld`, kept as the regression
        variant): `e := gdbi.Edge{}` stayed the ZERO edge and `req.Edge = &e; o <- req` ran all the
        same: the EMPTY edge was emitted (`emptyEdge`)
  * `runScenario` : executable entry point for the correspondence driver (calls → events → output).

  Trusted: that the structured keys of Grip.C03 stand for the byte keys (C16), that proto
  Unmarshal(Marshal x) = x, the description of the four drivers above (read off the Go wrappers
  and the documented snapshot semantics of the four libraries), and that the only state shared
  between a reader and the writers is the key-value store.  load=false variants (no Get at all,
  the element is the parsed key) are not modelled.
-/
import Grip.Model.C03

namespace Grip.C17Read
open Grip.C03

/-! ### writes -/

/-- one key-value mutation (`tx.Set` / `tx.Delete`) -/
inductive W where
  | set (k : SKey) (v : Val)
  | del (k : SKey)
  deriving DecidableEq, Repr, Inhabited

def applyW (m : KV) : W → KV
  | .set k v => m.set k v
  | .del k => m.del k

/-- one atomic group: all its mutations become visible together -/
def applyGroup (m : KV) (ws : List W) : KV := ws.foldl applyW m

def applyGroups (m : KV) (gs : List (List W)) : KV := gs.foldl applyGroup m

structure Driver where
  atomicUpdate : Bool
  atomicBulk : Bool
  snapshotGet : Bool
  deriving DecidableEq, Repr

def bolt : Driver := ⟨true, true, true⟩
def badger : Driver := ⟨true, false, true⟩
def level : Driver := ⟨true, true, false⟩
def pebble : Driver := ⟨true, true, false⟩
/-- pebble before `fix:` (pebble Update as one indexed batch): `Update` was `pebbleTransaction{db}`,
    every Set / Delete went straight to the database — each write its own group -/
def pebbleOld : Driver := ⟨false, true, false⟩

/-- how a call's writes reach the store: one group, or (worst case) one group per write -/
def cut (atomic : Bool) (ws : List W) : List (List W) :=
  if atomic then [ws] else ws.map (fun w => [w])

/-- kvindex AddDocTx restricted to the label field (as Grip.C03.addDoc) -/
def docWrites (fields : List String) (g kind label docId : String) : List W :=
  (if fields.contains (labelField g kind) then
      [W.set (.entry (labelField g kind) label docId) .unit, W.set (.term (labelField g kind) label) .unit]
    else []) ++ [W.set (.doc docId) .unit]

def vertexWrites (fields : List String) (g : String) (v : VertexIn) : List W :=
  if !validVertex v then [] else
  W.set (.vertex g v.gid) (.vert v.label v.data) :: docWrites fields g "v" v.label v.gid

def edgeWrites (fields : List String) (g : String) (e : EdgeIn) : List W :=
  if !validEdge e then [] else
  [W.set (.edge g e.gid e.frm e.to e.label) (.edge e.data),
   W.set (.src g e.frm e.to e.gid e.label) .unit,
   W.set (.dst g e.to e.frm e.gid e.label) .unit] ++ docWrites fields g "e" e.label e.gid

def elemWrites (fields : List String) (g : String) : ElemIn → List W
  | .v x => vertexWrites fields g x
  | .e x => edgeWrites fields g x

/-- AddVertex / AddEdge / BulkAdd: the writes of one BulkWrite -/
def bulkWrites (fields : List String) (g : String) (xs : List ElemIn) : List W :=
  xs.flatMap (elemWrites fields g)

/-- DelEdge: `snap` is what its View saw; the Update deletes record, src entry, dst entry. -/
def delEdgeWrites (snap : KV) (g eid : String) : List W :=
  match lastByBytes (edgeRecords snap g eid) with
  | some (.edge _ _ s d l, _) => [W.del (.edge g eid s d l), W.del (.src g s d eid l), W.del (.dst g d s eid l)]
  | _ => []

/-- DelVertex: `snap` is what its View saw. -/
def delVertexWrites (snap : KV) (g id : String) : List W :=
  let outs := snap.filterMap (fun p => match p.1 with
    | .src g' sid did eid l => if g' = g ∧ sid = id then some [SKey.src g sid did eid l, .dst g did sid eid l, .edge g eid sid did l] else none
    | _ => none)
  let ins := snap.filterMap (fun p => match p.1 with
    | .dst g' did sid eid l => if g' = g ∧ did = id then some [SKey.src g sid did eid l, .dst g did sid eid l, .edge g eid sid did l] else none
    | _ => none)
  W.del (.vertex g id) :: (outs.flatten ++ ins.flatten).map W.del

/-- the groups of a call on a driver -/
def addGroups (dr : Driver) (fields : List String) (g : String) (xs : List ElemIn) : List (List W) :=
  cut dr.atomicBulk (bulkWrites fields g xs)
def delEdgeGroups (dr : Driver) (snap : KV) (g eid : String) : List (List W) :=
  cut dr.atomicUpdate (delEdgeWrites snap g eid)
def delVertexGroups (dr : Driver) (snap : KV) (g id : String) : List (List W) :=
  cut dr.atomicUpdate (delVertexWrites snap g id)

/-! ### readers -/

inductive GetMode where
  | scanSnap | ownSnap | live
  deriving DecidableEq, Repr

/-- A read path: scan once (iterator, on the snapshot of the View), then one Get per item. -/
structure Path (ι ε : Type) where
  scan : KV → List ι
  key : ι → SKey
  found : ι → Val → Option ε
  missing : ι → Option ε
  mode : GetMode

/-- one `it.Get` + what the code emits for it -/
def Path.lookup {ι ε : Type} (P : Path ι ε) (m : KV) (i : ι) : Option ε :=
  match m.get (P.key i) with
  | some v => P.found i v
  | none => P.missing i

inductive Event where
  | write (ws : List W)   -- some writer's next atomic group commits
  | openScan              -- the reader's (first) View opens: snapshot, iterator scan
  | openGet               -- the reader's second View opens (GetOutChannel only)
  | get                   -- the reader's next `it.Get` and emission
  deriving DecidableEq, Repr

structure St (ι ε : Type) where
  live : KV
  snapA : Option KV := none
  snapB : Option KV := none
  pending : List ι := []
  out : List ε := []

/-- the store an `it.Get` of the path reads, if the View it belongs to is open -/
def getStore {ι ε : Type} (P : Path ι ε) (s : St ι ε) : Option KV :=
  match P.mode with
  | .scanSnap => s.snapA
  | .ownSnap => s.snapB
  | .live => some s.live

def stepGet {ι ε : Type} (P : Path ι ε) (s : St ι ε) : St ι ε :=
  match s.pending with
  | [] => s
  | i :: rest =>
    match getStore P s with
    | none => s
    | some m => { s with pending := rest, out := s.out ++ (P.lookup m i).toList }

def stepOpenScan {ι ε : Type} (P : Path ι ε) (s : St ι ε) : St ι ε :=
  match s.snapA with
  | none => { s with snapA := some s.live, pending := P.scan s.live }
  | some _ => s

def stepOpenGet {ι ε : Type} (s : St ι ε) : St ι ε :=
  match s.snapB with
  | none => { s with snapB := some s.live }
  | some _ => s

def step {ι ε : Type} (P : Path ι ε) (s : St ι ε) : Event → St ι ε
  | .write ws => { s with live := applyGroup s.live ws }
  | .openScan => stepOpenScan P s
  | .openGet => stepOpenGet s
  | .get => stepGet P s

def run {ι ε : Type} (P : Path ι ε) (s : St ι ε) (evs : List Event) : St ι ε := evs.foldl (step P) s

def start {ι ε : Type} (m : KV) : St ι ε := { live := m }

def writesOf : List Event → List (List W)
  | [] => []
  | .write ws :: es => ws :: writesOf es
  | _ :: es => writesOf es

/-! ### the read paths of kvgraph -/

def getMode (dr : Driver) : GetMode := if dr.snapshotGet then .scanSnap else .live

def emptyEdge : EOut := ⟨"", "", "", "", .obj []⟩

structure Adj where
  s : String
  d : String
  eid : String
  l : String
  deriving DecidableEq, Repr

def vertFound (id : String) : Val → Option VOut
  | .vert l d => some ⟨id, l, d⟩
  | _ => none

/-- GetVertex: one View, one Get. -/
def pGetVertex (g id : String) : Path String VOut :=
  { scan := fun _ => [id], key := fun i => .vertex g i, found := vertFound, missing := fun _ => none,
    mode := .scanSnap }

/-- GetVertexChannel: one View, one Get per requested id. -/
def pVertexBatch (dr : Driver) (g : String) (ids : List String) : Path String VOut :=
  { scan := fun _ => ids, key := fun i => .vertex g i, found := vertFound, missing := fun _ => none,
    mode := getMode dr }

def scanSrc (g : String) (reqs labels : List String) (m : KV) : List Adj :=
  reqs.flatMap (fun id => m.filterMap (fun p => match p.1 with
    | .src g' s d eid l => if g' = g ∧ s = id ∧ labelOk labels l then some ⟨s, d, eid, l⟩ else none
    | _ => none))

def scanDst (g : String) (reqs labels : List String) (m : KV) : List Adj :=
  reqs.flatMap (fun id => m.filterMap (fun p => match p.1 with
    | .dst g' d s eid l => if g' = g ∧ d = id ∧ labelOk labels l then some ⟨s, d, eid, l⟩ else none
    | _ => none))

/-- GetOutChannel: the scan in one View, the vertex Gets in a second one. -/
def pOut (dr : Driver) (g : String) (reqs labels : List String) : Path Adj VOut :=
  { scan := scanSrc g reqs labels, key := fun a => .vertex g a.d, found := fun a => vertFound a.d,
    missing := fun _ => none, mode := if dr.snapshotGet then .ownSnap else .live }

/-- GetInChannel: one View. -/
def pIn (dr : Driver) (g : String) (reqs labels : List String) : Path Adj VOut :=
  { scan := scanDst g reqs labels, key := fun a => .vertex g a.s, found := fun a => vertFound a.s,
    missing := fun _ => none, mode := getMode dr }

/-- The edge built from a scanned adjacency key and the value under its edge key.  A value that
    is not an edge record cannot sit under an edge key (the key space is typed: only insertEdge
    writes edge keys) — UNREACHABLE in the code; the model answers "nothing", so that the
    reads-from theorem can quantify over arbitrary write groups. -/
def edgeFound (a : Adj) : Val → Option EOut
  | .edge data => some ⟨a.eid, a.l, a.s, a.d, data⟩
  | _ => none

/-- as Grip.C03.outE / inE have it (the code before the repair): anything but a record = zero edge -/
def edgeFoundOld (a : Adj) : Val → Option EOut
  | .edge data => some ⟨a.eid, a.l, a.s, a.d, data⟩
  | _ => some emptyEdge

/-- GetOutEdgeChannel, load = true, AS REPAIRED: one View; a failed `it.Get(ekey)` skips the
    adjacency entry (`continue`), as GetOutChannel does for a missing vertex. -/
def pOutE (dr : Driver) (g : String) (reqs labels : List String) : Path Adj EOut :=
  { scan := scanSrc g reqs labels, key := fun a => .edge g a.eid a.s a.d a.l, found := edgeFound,
    missing := fun _ => none, mode := getMode dr }

/-- GetInEdgeChannel, load = true, as repaired. -/
def pInE (dr : Driver) (g : String) (reqs labels : List String) : Path Adj EOut :=
  { scan := scanDst g reqs labels, key := fun a => .edge g a.eid a.s a.d a.l, found := edgeFound,
    missing := fun _ => none, mode := getMode dr }

/-- VARIANT = the code BEFORE the repair (the regression to guard against): a failed Get leaves
    `e := gdbi.Edge{}` and `req.Edge = &e; o <- req` runs all the same — the zero edge is emitted. -/
def pOutEOld (dr : Driver) (g : String) (reqs labels : List String) : Path Adj EOut :=
  { scan := scanSrc g reqs labels, key := fun a => .edge g a.eid a.s a.d a.l, found := edgeFoundOld,
    missing := fun _ => some emptyEdge, mode := getMode dr }

def pInEOld (dr : Driver) (g : String) (reqs labels : List String) : Path Adj EOut :=
  { scan := scanDst g reqs labels, key := fun a => .edge g a.eid a.s a.d a.l, found := edgeFoundOld,
    missing := fun _ => some emptyEdge, mode := getMode dr }

/-- the repaired edge functions on ONE store (Grip.C03.outE / inE still describe the old code) -/
def outEFixed (m : KV) (g id : String) (labels : List String) : List EOut :=
  m.filterMap (fun p => match p.1 with
    | .src g' s d eid l => if g' = g ∧ s = id ∧ labelOk labels l then
        (match m.get (.edge g eid s d l) with
         | some (.edge data) => some ⟨eid, l, s, d, data⟩
         | _ => none)
      else none
    | _ => none)

def inEFixed (m : KV) (g id : String) (labels : List String) : List EOut :=
  m.filterMap (fun p => match p.1 with
    | .dst g' d s eid l => if g' = g ∧ d = id ∧ labelOk labels l then
        (match m.get (.edge g eid s d l) with
         | some (.edge data) => some ⟨eid, l, s, d, data⟩
         | _ => none)
      else none
    | _ => none)

/-- VertexLabelScan: GetTermMatch scans the entry keys in one View; every id is then checked by
    its own GetVertex (a fresh View: the store of that moment); the id is emitted when the
    vertex exists and carries the label. -/
def pLabelScan (g label : String) : Path String String :=
  { scan := fun m => m.filterMap (fun p => match p.1 with
      | .entry f t doc => if f = labelField g "v" ∧ t = label then some doc else none
      | _ => none),
    key := fun i => .vertex g i,
    found := fun i v => match v with
      | .vert l _ => if l = label then some i else none
      | _ => none,
    missing := fun _ => none, mode := .live }

/-- VARIANT (not the code): the edge paths with their record Gets in a second View. -/
def pOutE2 (g : String) (reqs labels : List String) : Path Adj EOut :=
  { pOutE bolt g reqs labels with mode := .ownSnap }

def pOutE2Old (g : String) (reqs labels : List String) : Path Adj EOut :=
  { pOutEOld bolt g reqs labels with mode := .ownSnap }

/-! ### executable entry point for the correspondence driver -/

inductive Call where
  | open                         -- the reader's View(s) open now
  | add (xs : List ElemIn)       -- a complete AddVertex / AddEdge / BulkAdd call
  | delEdge (id : String)        -- a complete DelEdge call (View on the live store, then Update)
  | delVertex (id : String)      -- a complete DelVertex call
  | drain                        -- the reader performs all its pending Gets now
  deriving Repr, Inhabited

inductive Out where
  | vertex (id label : String) (data : JV)
  | edge (id label frm to : String) (data : JV)
  | labelled (id : String)
  deriving DecidableEq, Repr, Inhabited

/-- the events of a scenario; `live` is tracked to compute the deletes' Views and the number of
    Gets a drain needs (at most the length of the scan, which is the length of `pending`). -/
def scenarioEvents (dr : Driver) (fields : List String) (g : String) (twoViews : Bool)
    (pendingLen : KV → Nat) : KV → Nat → List Call → List Event
  | _, _, [] => []
  | live, n, .open :: cs =>
    (if twoViews then [Event.openScan, .openGet] else [Event.openScan]) ++
      scenarioEvents dr fields g twoViews pendingLen live (if n = 0 then pendingLen live else n) cs
  | live, n, .add xs :: cs =>
    let gs := addGroups dr fields g xs
    gs.map Event.write ++ scenarioEvents dr fields g twoViews pendingLen (applyGroups live gs) n cs
  | live, n, .delEdge id :: cs =>
    let gs := delEdgeGroups dr live g id
    gs.map Event.write ++ scenarioEvents dr fields g twoViews pendingLen (applyGroups live gs) n cs
  | live, n, .delVertex id :: cs =>
    let gs := delVertexGroups dr live g id
    gs.map Event.write ++ scenarioEvents dr fields g twoViews pendingLen (applyGroups live gs) n cs
  | live, n, .drain :: cs =>
    List.replicate n Event.get ++ scenarioEvents dr fields g twoViews pendingLen live n cs

def voutOut (v : VOut) : Out := .vertex v.gid v.label v.data
def eoutOut (e : EOut) : Out := .edge e.gid e.label e.frm e.to e.data

def runPath {ι ε : Type} (P : Path ι ε) (conv : ε → Out) (dr : Driver) (fields : List String)
    (g : String) (twoViews : Bool) (m0 : KV) (calls : List Call) : List Out :=
  ((run P (start m0)
    (scenarioEvents dr fields g twoViews (fun m => (P.scan m).length) m0 0 calls)).out).map conv

/-- One scenario: the store is one add of `init` on the empty store; the calls happen in the
    order given; the result is everything the reader emitted, in emission order.
    `path` ∈ "vertexBatch" | "out" | "in" | "outE" | "inE" | "labelScan" (anything else: []);
    for "vertexBatch" `reqs` are the ids looked up; for "labelScan" the label is `labels.head`. -/
def runScenario (dr : Driver) (fields : List String) (g : String) (path : String)
    (reqs labels : List String) (init : List ElemIn) (calls : List Call) : List Out :=
  let m0 := applyGroup [] (bulkWrites fields g init)
  if path = "vertexBatch" then runPath (pVertexBatch dr g reqs) voutOut dr fields g false m0 calls
  else if path = "out" then runPath (pOut dr g reqs labels) voutOut dr fields g true m0 calls
  else if path = "in" then runPath (pIn dr g reqs labels) voutOut dr fields g false m0 calls
  else if path = "outE" then runPath (pOutE dr g reqs labels) eoutOut dr fields g false m0 calls
  else if path = "inE" then runPath (pInE dr g reqs labels) eoutOut dr fields g false m0 calls
  else if path = "labelScan" then
    runPath (pLabelScan g (labels.headD "")) Out.labelled dr fields g false m0 calls
  else []

end Grip.C17Read
