/-
  Grip.Model.C01 — MODEL of `DefaultCompiler.Compile` + `pipeline.Start` as far as C01 needs it:
  every processor is built (typing fold) before any of them runs, and the processors are wired
  back to front by channels (a Kahn network of stream functions).
-/
import Grip.Model.Eval

namespace Grip.C01
open Grip

abbrev Proc := List Traveler → List Traveler

/-- The loop of `Compile`: one processor per statement, or the first error — nothing has run yet. -/
def compileProcs (numOf : String → Option Int) (g : AGraph) (st : TState) :
    List Stmt → Except TypeErr (List Proc × TState)
  | [] => .ok ([], st)
  | s :: rest =>
    match typeStep st s with
    | .error e => .error e
    | .ok st' =>
      match compileProcs numOf g st' rest with
      | .error e => .error e
      | .ok (ps, stf) => .ok (evalStepT numOf g st.last s :: ps, stf)

/-- `pipeline.Start`: `for i := len(procs)-1; i >= 0; i-- { procs[i].Process(in, out); out = in }`.
    Going from the last processor to the first, `k` is the stream function from the channel just
    created to `final`. -/
def startWiring (procs : List Proc) (input : List Traveler) : List Traveler :=
  (procs.reverse.foldl (fun (k : Proc) (p : Proc) => fun inp => k (p inp)) id) input

/-- `Compile` then `Run`: error and no rows, or the converted output of the wired pipeline. -/
def compileAndRun (numOf : String → Option Int) (g : AGraph) (stmts : List Stmt) :
    Except TypeErr (List Row) :=
  match validate stmts with
  | .error e => .error e
  | .ok () =>
    match compileProcs numOf g {} stmts with
    | .error e => .error e
    | .ok (ps, st) =>
      if ps.isEmpty then .ok [] else .ok ((startWiring ps [Traveler.seed]).map (convert st))

end Grip.C01
