/-
  Grip.Model.C05 — MODEL of the authentication / authorization interceptors (accounts/util.go,
  accounts/bulk_write_filter.go, accounts/stream_out_wrapper.go) and of the two ways a call
  reaches them (grpc.Server dispatch by ServiceDesc; the in-process gateway shims of
  gripql.pb.dgw.go).  It is an interpreter over `Tables` (Grip.Model.C05Tables), the value of
  which is regenerated from the source on every run (GripGen.AuthTables.tables), for ARBITRARY
  `validate : MD → Option User` (Authenticate.Validate) and `enforce : User → Graph → Op → Bool`
  (Access.Enforce).  Core Lean only.
-/
import Grip.Model.C05Tables

namespace Grip.C05

abbrev User := String
abbrev Graph := String
/-- request metadata (grpc metadata.MD): header ↦ values -/
abbrev MD := List (String × List String)

/-- A request message as far as the interceptors can see it: its message type, its `Graph` field
    (`none` iff the type has no such field) and a tag identifying the message (so that "the handler
    received this message" can be stated). -/
structure Req where
  ty : String
  graph : Option String
  tag : String
  deriving DecidableEq, Repr, Inhabited

inductive Err where
  | ok | unauthenticated | denied | unknown
  | hang                      -- the caller never gets an answer
  | other (what : String)
  deriving DecidableEq, Repr, Inhabited

def errOfCode : String → Err
  | "Unauthenticated" => .unauthenticated
  | "PermissionDenied" => .denied
  | "Unknown" => .unknown
  | c => .other c

/-- One call as the interceptor sees it. -/
structure Call where
  validate : MD → Option User
  enforce : User → Graph → Op → Bool
  md : MD
  fullMethod : String        -- *ServerInfo.FullMethod
  isServerStream : Bool      -- StreamServerInfo flags (false for unary)
  isClientStream : Bool
  req : Req                  -- the request (unary, server stream)
  elems : List Req           -- the messages of a client stream

structure Result where
  err : Err
  handled : Option (List Req)          -- `some rs`: the wrapped service handler ran and received rs
  log : List (User × Graph × Op)       -- Access.Enforce calls, in order
  deriving DecidableEq, Repr, Inhabited

/-- `req.(*gripql.ty).field` — `none` models the failed type assertion / a field that is not Graph. -/
def fieldOf (r : Req) (ty field : String) : Option String :=
  if r.ty == ty && field == "Graph" then some (r.graph.getD "") else none

/-- getUnaryRequestGraph -/
def unaryGraphOf (T : Tables) (full : String) (r : Req) : Except Err Graph :=
  match T.unaryCases.find? (fun c => c.methods.contains full) with
  | none => .error .unknown
  | some c =>
    match c.src with
    | .const g => .ok g
    | .field ty f => match fieldOf r ty f with
      | some g => .ok g
      | none => .error (.other "panic")
    | _ => .error (.other "opaque")

structure St where
  user : User := ""
  op : Op := .other ""
  graph : Graph := ""
  wrapped : Option Req := none
  log : List (User × Graph × Op) := []
  deriving Repr, Inhabited

def evalG (c : Call) (s : St) : GraphExpr → Option Graph
  | .var => some s.graph
  | .const g => some g
  | .field ty f => fieldOf (s.wrapped.getD c.req) ty f
  | .opaque _ => none

def evalO (s : St) : OpExpr → Op
  | .var => s.op
  | .lit o => o

/-- handler(srv, &BulkWriteFilter{ss, user, access}): the handler pulls every message through
    RecvMsg, which asks Enforce per message and hands on the permitted ones. -/
def bulkRun (T : Tables) (c : Call) (s : St) : Result :=
  let b := T.bulk
  let u := if b.userFromFilter then s.user else ""
  let o := evalO s b.op
  let gOf : Req → Graph := fun e =>
    match b.graph with
    | .field ty f => (fieldOf e ty f).getD ""
    | .const g => g
    | _ => ""
  let log' := s.log ++ c.elems.map (fun e => (u, gOf e, o))
  let passed := match b.deliver with
    | .whenAllowed => c.elems.filter (fun e => c.enforce u (gOf e) o)
    | .other _ => c.elems
  ⟨.ok, some passed, log'⟩

/-- The interpreter of one interceptor path. -/
def run (T : Tables) (c : Call) : List Stmt → St → Result
  | [], s => ⟨.other "fallthrough", none, s.log⟩
  | .validate code :: k, s =>
    match c.validate c.md with
    | none => ⟨errOfCode code, none, s.log⟩
    | some u => run T c k { s with user := u }
  | .validateIgnored :: k, s => run T c k { s with user := (c.validate c.md).getD "" }
  | .lookupOp code :: k, s =>
    match T.methodMap.lookup c.fullMethod with
    | none => ⟨errOfCode code, none, s.log⟩
    | some op => run T c k { s with op := op }
  | .getGraph code :: k, s =>
    match unaryGraphOf T c.fullMethod c.req with
    | .ok g => run T c k { s with graph := g }
    | .error .unknown => ⟨errOfCode code, none, s.log⟩
    | .error e => ⟨e, none, s.log⟩
  | .wrap ty code :: k, s =>
    if c.req.ty == ty then run T c k { s with wrapped := some c.req }
    else ⟨errOfCode code, none, s.log⟩
  | .enforce g o code :: k, s =>
    match evalG c s g with
    | none => ⟨.other "panic", none, s.log⟩
    | some gv =>
      let ov := evalO s o
      let s' := { s with log := s.log ++ [(s.user, gv, ov)] }
      if c.enforce s.user gv ov then run T c k s' else ⟨errOfCode code, none, s'.log⟩
  | .enforceIgnored g o :: k, s =>
    match evalG c s g with
    | none => ⟨.other "panic", none, s.log⟩
    | some gv => run T c k { s with log := s.log ++ [(s.user, gv, evalO s o)] }
  | .handler a :: _, s =>
    match a with
    | .raw => ⟨.ok, some (if c.isClientStream then c.elems else [c.req]), s.log⟩
    | .wrapped => ⟨.ok, some [s.wrapped.getD c.req], s.log⟩
    | .bulkFilter => bulkRun T c s
    | .opaque _ => ⟨.other "opaque", none, s.log⟩
  | .fail code :: _, s => ⟨errOfCode code, none, s.log⟩
  | .opaque _ :: k, s => run T c k s

/-- streamAuthInterceptor: prefix, then the path chosen by the flags and the method name. -/
def streamProg (T : Tables) (full : String) (isServerStream isClientStream : Bool) : List Stmt :=
  T.streamPrefix ++
    (if isServerStream then (T.serverArms.lookup full).getD T.serverDefault
     else if isClientStream then (T.clientArms.lookup full).getD T.clientDefault
     else T.neitherDefault)

inductive Transport where
  | grpc | gateway
  deriving DecidableEq, Repr, Inhabited

/-- The parameters of a call that do not depend on the method or the transport. -/
structure Caller where
  validate : MD → Option User
  enforce : User → Graph → Op → Bool
  md : MD
  req : Req
  elems : List Req

def Caller.call (p : Caller) (full : String) (ss cs : Bool) : Call :=
  { validate := p.validate, enforce := p.enforce, md := p.md, fullMethod := full,
    isServerStream := ss, isClientStream := cs, req := p.req, elems := p.elems }

/-- grpc.Server: `Methods` entries go through the unary interceptor, `Streams` entries through the
    stream interceptor with the descriptor's flags. -/
def interceptGrpc (T : Tables) (m : MethodDesc) (p : Caller) : Result :=
  match m.kind with
  | .unary => run T (p.call m.full false false) T.unaryProg {}
  | .serverStream => run T (p.call m.full true false) (streamProg T m.full true false) {}
  | .clientStream => run T (p.call m.full false true) (streamProg T m.full false true) {}
  | .bidi => run T (p.call m.full true true) (streamProg T m.full true true) {}

def gwFind (T : Tables) (m : MethodDesc) : Option GwMethod :=
  T.gateway.find? (fun g => g.client == m.client && g.name == m.name)

/-- The direct client shim of gripql.pb.dgw.go (built with both interceptor options). A shim
    that calls neither interceptor hands the request straight to the server. -/
def interceptGateway (T : Tables) (m : MethodDesc) (p : Caller) : Result :=
  match gwFind T m with
  | none => ⟨.other "no-shim", none, []⟩
  | some g =>
    if g.viaUnary then run T (p.call g.full false false) T.unaryProg {}
    else if g.viaStream then
      let r := run T (p.call g.full g.isServerStream g.isClientStream) (streamProg T g.full g.isServerStream g.isClientStream) {}
      -- `go shim.streamServerInt(…)`: when the interceptor refuses, its error is discarded and the
      -- caller's CloseAndRecv waits for a SendAndClose that never comes
      if g.dropsError && r.handled.isNone then { r with err := .hang } else r
    else ⟨.ok, some (if m.kind == .clientStream then p.elems else [p.req]), []⟩

def intercept (T : Tables) : Transport → MethodDesc → Caller → Result
  | .grpc => interceptGrpc T
  | .gateway => interceptGateway T

/-- accounts.NullAuth / accounts.NullAccess (no accounts configured). -/
def nullValidate : MD → Option User := fun _ => some ""
def nullEnforce : User → Graph → Op → Bool := fun _ _ _ => true

end Grip.C05
