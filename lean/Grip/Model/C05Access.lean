/-
  Grip.Model.C05Access — MODEL of the repository's own `validate` and `enforce`:

  * accounts.CasbinAccess (accounts/casbin.go) with the policy model the repository ships
    (test/model.conf):
        r = sub, obj, act      p = sub, obj, act      e = some(where (p.eft == allow))
        m = r.sub == p.sub && (r.obj == p.obj || p.obj == "*") && (r.act == p.act || p.act == "*")
            || r.sub == "root"
    over a CSV policy of `p, sub, obj, act` rows (test/users.csv).  `Enforce` loads model and
    policy lazily on the first call (`init`) and then asks casbin's `Enforcer.Enforce`, which
    evaluates the matcher once per row and allows iff some row matches; with NO row it evaluates
    the matcher once with every `p.*` equal to "" (casbin v2 enforcer.go, the `else` branch of
    `policyLen != 0`).
  * accounts.BasicAuth.Validate (accounts/basic.go): header lookup ("Authorization", then
    "authorization"), parseBasicAuth (prefix "Basic ", base64.StdEncoding, first ':'), comparison
    with the configured credential list.  NOTE the code ignores parseBasicAuth's `ok`: a header
    that does not parse is compared as the pair ("", "").
  * accounts.ProxyAuth.Validate (accounts/proxy.go): first value of the configured field.

  The MODEL of a request SEQUENCE on one instance is a fold over the instance state
  (`casbinRun`, `basicRun`): that every output of the fold equals the pure function of
  (configuration, request) is Props.C05 `casbin_decision_stateless` / `basic_decision_stateless`.
  Core Lean only.
-/
import Grip.Model.C05

namespace Grip.C05.Access
open Grip.C05

/-! ## CasbinAccess -/

/-- one `p, sub, obj, act` row of the policy file -/
abbrev Row := String × String × String

/-- The matcher of test/model.conf for one row (govaluate: `&&` binds tighter than `||`). -/
def rowMatches (u g o : String) (r : Row) : Bool :=
  (u == r.1 && (g == r.2.1 || r.2.1 == "*") && (o == r.2.2 || r.2.2 == "*")) || u == "root"

/-- The rows the matcher is evaluated on: the policy, or — when it has no row — one phantom row
    of empty strings (casbin's `parameters.pVals = make([]string, len(pTokens))`). -/
def effRows (policy : List Row) : List Row :=
  if policy.isEmpty then [("", "", "")] else policy

/-- `Enforcer.Enforce(user, graph, op)` with effect `some(where (p.eft == allow))`. -/
def casbinAllows (policy : List Row) (user graph op : String) : Bool :=
  (effRows policy).any (rowMatches user graph op)

/-- State of one `accounts.CasbinAccess` value: the enforcer, `none` until the first call. -/
abbrev CasbinState := Option (List Row)

/-- One `Enforce` call: `init()` (load the policy file unless an enforcer exists), then decide
    with the enforcer held by the instance. -/
def casbinStep (file : List Row) (s : CasbinState) (req : String × String × String) : CasbinState × Bool :=
  let loaded := match s with
    | some p => p
    | none => file
  (some loaded, casbinAllows loaded req.1 req.2.1 req.2.2)

/-- A sequence of `Enforce` calls on one fresh instance: the decisions, in order. -/
def casbinRunFrom (file : List Row) : CasbinState → List (String × String × String) → List Bool
  | _, [] => []
  | s, r :: rs => let (s', d) := casbinStep file s r; d :: casbinRunFrom file s' rs

def casbinRun (file : List Row) (reqs : List (String × String × String)) : List Bool :=
  casbinRunFrom file none reqs

/-- `Access.Enforce` as the interceptors see it (operation classes travel as their wire names). -/
def casbinEnforce (policy : List Row) : User → Graph → Op → Bool :=
  fun u g o => casbinAllows policy u g o.wire

/-! ## BasicAuth -/

abbrev Bytes := List UInt8

/-- the bytes of a Go string -/
def bytesOf (s : String) : Bytes := s.toByteArray.data.toList

/-- value of a character of the standard base64 alphabet -/
def b64Val (c : UInt8) : Option Nat :=
  let n := c.toNat
  if 65 ≤ n && n ≤ 90 then some (n - 65)            -- A–Z
  else if 97 ≤ n && n ≤ 122 then some (n - 97 + 26) -- a–z
  else if 48 ≤ n && n ≤ 57 then some (n - 48 + 52)  -- 0–9
  else if n == 43 then some 62                      -- +
  else if n == 47 then some 63                      -- /
  else none

def b64Pad : UInt8 := 61 -- '='

/-- Quanta of four characters (encoding/base64 `decodeQuantum`, StdEncoding: padded, not strict —
    unused trailing bits are ignored).  Padding is accepted only in the last quantum, as `xx==`
    or `xxx=`; nothing may follow it. -/
def b64Quads : List UInt8 → Option Bytes
  | [] => some []
  | a :: b :: c :: d :: rest =>
    if rest.isEmpty && d == b64Pad then
      if c == b64Pad then do
        let va ← b64Val a; let vb ← b64Val b
        pure [UInt8.ofNat ((va * 4 + vb / 16) % 256)]
      else do
        let va ← b64Val a; let vb ← b64Val b; let vc ← b64Val c
        pure [UInt8.ofNat ((va * 4 + vb / 16) % 256), UInt8.ofNat ((vb * 16 + vc / 4) % 256)]
    else do
      let va ← b64Val a; let vb ← b64Val b; let vc ← b64Val c; let vd ← b64Val d
      let tl ← b64Quads rest
      pure (UInt8.ofNat ((va * 4 + vb / 16) % 256) :: UInt8.ofNat ((vb * 16 + vc / 4) % 256)
              :: UInt8.ofNat ((vc * 64 + vd) % 256) :: tl)
  | _ => none

/-- `base64.StdEncoding.DecodeString`: '\r' and '\n' are skipped wherever they stand. -/
def b64Decode (s : Bytes) : Option Bytes :=
  b64Quads (s.filter (fun c => c != 10 && c != 13))

/-- "Basic " -/
def basicPrefix : Bytes := [66, 97, 115, 105, 99, 32]

/-- cut at the first ':' (strings.IndexByte); `none` when there is none -/
def splitColon : Bytes → Option (Bytes × Bytes)
  | [] => none
  | c :: cs => if c == 58 then some ([], cs) else (splitColon cs).map (fun (u, p) => (c :: u, p))

/-- parseBasicAuth -/
def parseBasic (h : Bytes) : Option (Bytes × Bytes) :=
  if basicPrefix.isPrefixOf h then (b64Decode (h.drop basicPrefix.length)).bind splitColon else none

/-- The (user, password) pair the credential list is searched for: the code does not look at
    parseBasicAuth's `ok`, so a header that does not parse stands for ("", ""). -/
def basicPair (header : String) : Bytes × Bytes := (parseBasic (bytesOf header)).getD ([], [])

/-- `md["Authorization"]`, else `md["authorization"]` (presence of the key decides, not its length). -/
def authValues (md : MD) : Option (List String) :=
  match md.lookup "Authorization" with
  | some v => some v
  | none => md.lookup "authorization"

/-- BasicAuth.Validate: the user of the first configured credential equal to the presented pair. -/
def basicValidate (creds : List (String × String)) (md : MD) : Option User :=
  match authValues md with
  | some (h :: _) =>
    (creds.find? (fun c => (bytesOf c.1, bytesOf c.2) == basicPair h)).map (·.1)
  | _ => none

/-- BasicAuth is a slice value without state: a sequence of calls is a map. The fold is stated
    with a (unit) state so that it has the same shape as `casbinRunFrom`. -/
def basicRunFrom (creds : List (String × String)) : Unit → List MD → List (Option User)
  | _, [] => []
  | s, md :: mds => basicValidate creds md :: basicRunFrom creds s mds

def basicRun (creds : List (String × String)) (mds : List MD) : List (Option User) := basicRunFrom creds () mds

/-! ## ProxyAuth -/

/-- ProxyAuth.Validate: the first value of metadata key `Field` (whatever it is, "" included). -/
def proxyValidate (field : String) (md : MD) : Option User :=
  match md.lookup field with
  | some (v :: _) => some v
  | _ => none

end Grip.C05.Access
