/-
  Grip.Model.C07Loop — MODEL, the CYCLE of a mark/jump loop seen from the buffer capacities
  (property C07: traversals terminate for any data volume).  Core Lean only, executable.

  A loop `mark(a) … body … jump(a, cond, emit)` is a cycle of goroutines
  (engine/pipeline/pipes.go `Start`, engine/logic/jump.go, engine/queue/queue.go):

        upstream ──▶ JumpMark ──ch₀──▶ stage₀ ──ch₁──▶ … ──chₙ──▶ Jump ──▶ downstream
                        ▲                                          │
                        └───────────── engine/queue ◀──────────────┘

    * JumpMark.Process: takes a traveler from the jump's return queue (`s.inputs[i]`) or from its
      upstream input (`in`) and sends it into the first channel of the body (`out <- msg`);
    * every body stage (engine/core/processors.go: `for t := range in { … out <- y … }`) takes one
      traveler from its bounded input channel, computes its results — a stage may FAN OUT: `out()`
      on a hub vertex yields one traveler per edge — and delivers them one by one, blocking while
      the next channel is full: the results not yet delivered are "in its hand";
    * Jump.Process: takes a traveler `t` from its bounded input channel; if the condition holds,
      `s.jumpers <- t` (into the queue); if `Emit`, `out <- t.Copy()` (downstream);
    * engine/queue `New`: `input` (a channel of 50) → a goroutine that ALWAYS appends to a slice →
      a goroutine that moves the head of the slice into `output` (a channel of 50) → JumpMark.  The
      slice is unbounded; the goroutine in front of it never blocks, so the input side of the
      queue always accepts.  The model folds the two channels and the slice into one FIFO
      `queue` whose capacity is `qcap : Option Nat`: `none` = unbounded, as in the code;
      `some K` = a HYPOTHETICAL bounded queue (what the cycle would be with a plain channel).

  The unbounded queue is the only element of the cycle that can always absorb what Jump sends.

  §1  travelers, cells, the state;   §2  the transition system (`BStep`, `Step`);
  §3  the executable successor function (`bsuccs`, `succs`: `Step P s s' ↔ s' ∈ succs P s` is
      proved in GripProofs.Lemmas.C07Loop) and schedule runners;
  §4  potentials: the number of steps a traveler still causes and what it still contributes to
      the result stream (`potv`, `dOf`, `phi`, `psi`; `mu`);   §5  the expected result stream;
  §6  the cycle with the capacities read from the Go source (GripGen.BuffersC07).

  Finite loops.  A traveler carries the number of times it will still jump back (`passes`); the
  condition of the jump is `passes > 0` and the jump decrements it.  This stands for the data
  (a path in an acyclic graph ends; `jump(a, cond)` with a depth counter): the model is about
  capacities, not about why the loop is finite.  An unconditional loop on a cyclic graph never
  ends by its own definition (Grip.Model.C07 `runModel`, family ring).

  The last cell of `cells` is the JUMP (its input channel and the traveler it has taken and not
  yet sent, `fan = 1`); the cells before it are the body stages.  The downstream consumer always
  reads (`out` always accepts: server.Traversal ranges over the result channel to its end).

  The mark is modelled atomically (take from queue / upstream + put into the first channel,
  enabled when that channel has room).  In the code JumpMark first receives (`msg := <-…`, never
  blocking: both receives are `select … default`) and then blocks in `out <- msg` holding `msg`.
  Putting the held traveler back at the head of the queue (or of the upstream input) maps every
  state of the code to a state of the model with the same enabled moves of all other goroutines,
  except that a BOUNDED queue would have one more free place: for the unbounded queue (1) nothing
  changes; for a bounded one (2) the mark's hand is one more place, i.e. `K + 1` instead of `K` —
  immaterial for a statement about every `K`.  Which of its two inputs the mark serves is left
  open (the code polls the jump inputs first, then `in`; either may be found empty).

  Travelers that leave the cycle (passes = 0) are recorded in `out`.  In the Go code they are
  passed downstream only if `Emit` (Jump.Process: `if s.Emit { out <- t.Copy() }`); with
  `Emit = false` they are dropped — for the cycle they have left all the same.  With `emit = true`
  the model also records the copy of every traveler that jumps (every pass is emitted).

  NOT modelled: the closing protocol with signals (property C12: Grip.Model.C12*), cancellation
  (Jump.Process stops sending jumpers once `ctx.Done()`: every traveler then leaves at its next
  arrival at the jump, i.e. `passes := 0`), several jumps to one mark, real time.
-/
import Grip.Model.C07

namespace Grip.C07.Loop
open Grip.C07

/-! ## §1 state -/

/-- a traveler: an identity (copies made by a fanning-out stage keep it) and the number of jumps
    it will still make -/
structure Trav where
  id : Nat
  passes : Nat
  deriving DecidableEq, Repr

/-- A stage with the channel it reads from.  `cap`/`buf`: capacity and content of its input
    channel; `fan`: how many travelers it emits per traveler it takes; `hand`: results computed for
    the current traveler and not yet delivered.  `cap` and `fan` never change. -/
structure Cell where
  cap : Nat
  fan : Nat
  buf : List Trav
  hand : List Trav
  deriving DecidableEq, Repr

/-- `qcap`: capacity of the return queue (`none`: unbounded — engine/queue); `emit`: the jump's
    `Emit` flag -/
structure Params where
  qcap : Option Nat
  emit : Bool
  deriving DecidableEq, Repr

structure State where
  input : List Trav      -- what the mark's upstream still has to deliver
  cells : List Cell      -- body stages, then the jump
  queue : List Trav      -- engine/queue between Jump and JumpMark
  out : List Trav        -- what has been delivered downstream / has left the cycle
  deriving DecidableEq, Repr

def mkCell (st : Nat × Nat) : Cell := { cap := st.1, fan := st.2, buf := [], hand := [] }

/-- `stages`: (capacity of the input channel, fan-out factor) of every body stage, in pipeline
    order; `jcap`: capacity of the jump's input channel -/
def init (stages : List (Nat × Nat)) (jcap : Nat) (input : List Trav) : State :=
  { input := input, cells := stages.map mkCell ++ [mkCell (jcap, 1)], queue := [], out := [] }

/-- all work done: nothing left upstream, in a channel, in a hand, in the queue -/
def Final (s : State) : Prop :=
  s.input = [] ∧ s.queue = [] ∧ ∀ c ∈ s.cells, c.buf = [] ∧ c.hand = []

instance (s : State) : Decidable (Final s) := by unfold Final; exact inferInstance

/-! ## §2 transitions -/

/-- Moves of the stages.  The label is `none` for a move inside the body and `some t` when the last
    cell — the jump — lets go of `t` (the composition below decides where it goes and whether
    there is room). -/
inductive BStep : List Cell → Option Trav → List Cell → Prop
  | take {c : Cell} {x : Trav} {xs : List Trav} {r : List Cell} :
      c.hand = [] → c.buf = x :: xs →
      BStep (c :: r) none ({ c with buf := xs, hand := List.replicate c.fan x } :: r)
  | emit {c d : Cell} {y : Trav} {ys : List Trav} {r : List Cell} :
      c.hand = y :: ys → d.buf.length < d.cap →
      BStep (c :: d :: r) none ({ c with hand := ys } :: { d with buf := d.buf ++ [y] } :: r)
  | offer {c : Cell} {y : Trav} {ys : List Trav} :
      c.hand = y :: ys → BStep [c] (some y) [{ c with hand := ys }]
  | tail {c : Cell} {a : Option Trav} {r r' : List Cell} : BStep r a r' → BStep (c :: r) a (c :: r')

/-- the first channel of the cycle has room -/
def headRoom : List Cell → Prop
  | [] => False
  | c :: _ => c.buf.length < c.cap

instance : (cs : List Cell) → Decidable (headRoom cs)
  | [] => isFalse (fun h => h)
  | c :: _ => inferInstanceAs (Decidable (c.buf.length < c.cap))

def headPut (t : Trav) : List Cell → List Cell
  | [] => []
  | c :: r => { c with buf := c.buf ++ [t] } :: r

/-- the queue accepts one more traveler -/
def qRoom (qcap : Option Nat) (q : List Trav) : Prop :=
  match qcap with
  | none => True
  | some K => q.length < K

instance (qcap : Option Nat) (q : List Trav) : Decidable (qRoom qcap q) := by
  unfold qRoom; cases qcap <;> exact inferInstance

/-- the traveler as the jump sends it back -/
def Trav.back (t : Trav) : Trav := { t with passes := t.passes - 1 }

inductive Step (P : Params) : State → State → Prop
  /-- JumpMark: `case msg := <-in: out <- msg` -/
  | markIn {s : State} {t : Trav} {ts : List Trav} : s.input = t :: ts → headRoom s.cells →
      Step P s { s with input := ts, cells := headPut t s.cells }
  /-- JumpMark: `case msg := <-s.inputs[i]: out <- msg` -/
  | markQ {s : State} {t : Trav} {ts : List Trav} : s.queue = t :: ts → headRoom s.cells →
      Step P s { s with queue := ts, cells := headPut t s.cells }
  /-- a stage (or the jump) takes a traveler, or a stage delivers one into the next channel -/
  | body {s : State} {cs : List Cell} : BStep s.cells none cs → Step P s { s with cells := cs }
  /-- Jump: `s.jumpers <- t` (needs room in the queue), and `out <- t.Copy()` if Emit -/
  | jumpBack {s : State} {t : Trav} {cs : List Cell} : BStep s.cells (some t) cs → 0 < t.passes →
      qRoom P.qcap s.queue →
      Step P s { s with cells := cs, queue := s.queue ++ [t.back],
                        out := if P.emit then s.out ++ [t] else s.out }
  /-- Jump: the condition does not hold, the traveler leaves the cycle -/
  | exit {s : State} {t : Trav} {cs : List Cell} : BStep s.cells (some t) cs → t.passes = 0 →
      Step P s { s with cells := cs, out := s.out ++ [t] }

/-- nothing can move -/
def Stuck (P : Params) (s : State) : Prop := ∀ s', ¬ Step P s s'

/-- a reachable state in which work is left and no goroutine can move -/
def Deadlock (P : Params) (s0 s : State) : Prop := Reach (Step P) s0 s ∧ ¬ Final s ∧ Stuck P s

/-! ## §3 executable successors -/

def bsuccs : List Cell → List (Option Trav × List Cell)
  | [] => []
  | c :: r =>
    (match c.hand, c.buf with
      | [], x :: xs => [(none, { c with buf := xs, hand := List.replicate c.fan x } :: r)]
      | _, _ => []) ++
    (match c.hand, r with
      | y :: ys, [] => [(some y, [{ c with hand := ys }])]
      | y :: ys, d :: r' =>
        if d.buf.length < d.cap then
          [(none, { c with hand := ys } :: { d with buf := d.buf ++ [y] } :: r')]
        else []
      | [], _ => []) ++
    (bsuccs r).map (fun p => (p.1, c :: p.2))

/-- what the composition does with a move of the stages -/
def lift (P : Params) (s : State) (p : Option Trav × List Cell) : Option State :=
  match p.1 with
  | none => some { s with cells := p.2 }
  | some t =>
    if t.passes = 0 then some { s with cells := p.2, out := s.out ++ [t] }
    else if qRoom P.qcap s.queue then
      some { s with cells := p.2, queue := s.queue ++ [t.back],
                    out := if P.emit then s.out ++ [t] else s.out }
    else none

def markSuccs (s : State) : List State :=
  if headRoom s.cells then
    (match s.input with
      | t :: ts => [{ s with input := ts, cells := headPut t s.cells }]
      | [] => []) ++
    (match s.queue with
      | t :: ts => [{ s with queue := ts, cells := headPut t s.cells }]
      | [] => [])
  else []

/-- all successors of a state -/
def succs (P : Params) (s : State) : List State :=
  markSuccs s ++ (bsuccs s.cells).filterMap (lift P s)

/-- follow a schedule: at every step the index of the successor to take -/
def runPicks (P : Params) : List Nat → State → Option State
  | [], s => some s
  | i :: is, s =>
    match (succs P s)[i]? with
    | some s' => runPicks P is s'
    | none => none

/-- the schedule that always takes the first enabled move, `n` times (stops when stuck) -/
def runFirst (P : Params) : Nat → State → State
  | 0, s => s
  | n + 1, s =>
    match succs P s with
    | [] => s
    | s' :: _ => runFirst P n s'

/-- the schedule that always takes the last enabled move (the goroutine furthest down the cycle
    first), `n` times -/
def runLast (P : Params) : Nat → State → State
  | 0, s => s
  | n + 1, s =>
    match (succs P s).getLast? with
    | none => s
    | some s' => runLast P n s'

/-- breadth-first exploration (for tests): the states reachable in at most `n` steps -/
def explore (P : Params) : Nat → List State → List State
  | 0, seen => seen
  | n + 1, seen =>
    let next := (seen.flatMap (succs P)).eraseDups.filter (fun s => !seen.contains s)
    if next.isEmpty then seen else explore P n (seen ++ next)

/-! ## §4 potentials -/

def fansOf (cs : List Cell) : List Nat := cs.map (·.fan)

def prodL : List Nat → Nat
  | [] => 1
  | k :: ks => k * prodL ks

/-- Potential of a traveler waiting in the input channel of a stage, `ks` the fan-out factors from
    that stage to the end of the list, `dv` its potential once the last cell has let go of it, `e`
    the price of one move (`e = 1`: count the moves; `e = 0`: count what reaches the end). -/
def potv (e : Nat) : List Nat → Nat → Nat
  | [], dv => dv
  | k :: ks, dv => e + k * (e + potv e ks dv)

/-- Potential of a traveler with `p` passes left at the moment the jump lets go of it.
    `g`: what one delivery downstream is worth. -/
def dOf (e : Nat) (g : Trav → Nat) (emit : Bool) (fans : List Nat) (id : Nat) : Nat → Nat
  | 0 => g ⟨id, 0⟩
  | p + 1 => (if emit then g ⟨id, p + 1⟩ else 0) + (e + potv e fans (dOf e g emit fans id p))

def dT (e : Nat) (g : Trav → Nat) (emit : Bool) (fans : List Nat) (t : Trav) : Nat :=
  dOf e g emit fans t.id t.passes

/-- potential of the stages: `D t` is the potential of `t` when the last cell lets go of it -/
def phi (e : Nat) (D : Trav → Nat) : List Cell → Nat
  | [] => 0
  | c :: r => sumMap (fun x => potv e (c.fan :: fansOf r) (D x)) c.buf
              + sumMap (fun y => e + potv e (fansOf r) (D y)) c.hand + phi e D r

/-- potential of a traveler waiting in the queue or upstream of the mark -/
def wQ (e : Nat) (g : Trav → Nat) (emit : Bool) (fans : List Nat) (t : Trav) : Nat :=
  e + potv e fans (dT e g emit fans t)

/-- Potential of a state.  Every step lowers it by exactly `e` (Lemmas.C07Loop `step_psi`):
    with `e = 1`, `g = 0` it is the number of steps still to come; with `e = 0` it is the
    `g`-weight of the final result stream. -/
def psi (emit : Bool) (e : Nat) (g : Trav → Nat) (s : State) : Nat :=
  sumMap (wQ e g emit (fansOf s.cells)) s.input + sumMap (wQ e g emit (fansOf s.cells)) s.queue
  + phi e (dT e g emit (fansOf s.cells)) s.cells + sumMap g s.out

/-- remaining work: the number of steps every execution from `s` to a final state takes -/
def mu (s : State) : Nat := psi false 1 (fun _ => 0) s

/-- steps caused by a traveler that the jump has just let go of with `p` passes left -/
def passCost (fans : List Nat) : Nat → Nat
  | 0 => 0
  | p + 1 => 1 + potv 1 fans (passCost fans p)

/-- steps caused by a traveler upstream of the mark -/
def travCost (fans : List Nat) (t : Trav) : Nat := 1 + potv 1 fans (passCost fans t.passes)

/-- the fan-out factors of the cycle: the body stages, then the jump -/
def cycleFans (stages : List (Nat × Nat)) : List Nat := stages.map (·.2) ++ [1]

/-- EXACT number of steps of every complete execution of the loop on `input` -/
def loopBound (stages : List (Nat × Nat)) (input : List Trav) : Nat :=
  sumMap (travCost (cycleFans stages)) input

/-! ## §5 the expected result stream -/

def repeatL {α : Type} : Nat → List α → List α
  | 0, _ => []
  | n + 1, l => l ++ repeatL n l

/-- what one traveler (identity `id`) contributes downstream from the moment the jump lets go of it
    with `p` passes left; `F`: product of the fan-out factors of the cycle.  Iterative definition:
    the traveler of this pass (if emitted or leaving), then `F` times the next pass. -/
def expectFrom (emit : Bool) (F : Nat) (id : Nat) : Nat → List Trav
  | 0 => [⟨id, 0⟩]
  | p + 1 => (if emit then [⟨id, p + 1⟩] else []) ++ repeatL F (expectFrom emit F id p)

/-- the result stream of the loop, up to order -/
def expected (emit : Bool) (stages : List (Nat × Nat)) (input : List Trav) : List Trav :=
  input.flatMap (fun t => repeatL (prodL (cycleFans stages)) (expectFrom emit (prodL (cycleFans stages)) t.id t.passes))

/-- number of results of one traveler from the moment the jump lets go of it with `p` passes left -/
def expectCount (emit : Bool) (F : Nat) : Nat → Nat
  | 0 => 1
  | p + 1 => (if emit then 1 else 0) + F * expectCount emit F p

def expectedCount (emit : Bool) (stages : List (Nat × Nat)) (input : List Trav) : Nat :=
  sumMap (fun t => prodL (cycleFans stages) * expectCount emit (prodL (cycleFans stages)) t.passes) input

/-! ## §6 the cycle with the capacities of the Go source

  `mark(a).<lookup step>().jump(a, …)`: the lookup processors of engine/core/processors.go are two
  goroutines around a backend streaming function, so a traveler crosses, between the mark and the
  jump: the pipeline channel in front of the processor (pipes.go `bufsize`), `queryChan`, the
  channels inside the backend function (kvgraph `Get*Channel`; the fan-out over the edges of a
  vertex happens in its first goroutine), and the pipeline channel in front of the jump. -/

/-- input channels of the goroutines of the body `proc`, in order: pipeline channel, queryChan,
    the backend's channels -/
def sourceBodyCaps (proc : String) : List Nat :=
  match Gen.lookupOf proc with
  | some (q, be) => [GripGen.BuffersC07.runBufsize, q] ++ Gen.backendOf be
  | none => [GripGen.BuffersC07.runBufsize]

/-- the jump's input channel is a pipeline channel -/
def sourceJumpCap : Nat := GripGen.BuffersC07.runBufsize

/-- the body `proc` with fan-out factors `fans` (one per goroutine; 1 where none is given) -/
def sourceStages (proc : String) (fans : List Nat) : List (Nat × Nat) :=
  (sourceBodyCaps proc).zipIdx.map (fun ci => (ci.1, fans.getD ci.2 1))

end Grip.C07.Loop
