/-
  Grip.Model.EvalN — the traversal semantics WITH the four `*Null` moves, end to end (typing,
  steps, conversion to result rows), as the key-value graph executes them.

  `Grip.run` (Eval.lean) leaves `outNull/inNull/outENull/inENull` as the identity ("no C01
  meaning"); `Grip.C02.evalStepN` (C02Null.lean) gives them their meaning: the plain move plus ONE
  row without a current element (`t.AddCurrent(nil)`) for every input row the adjacency channel
  found nothing for.  Two more places of the Go code see such rows and are modelled here:

  * `Selector.Process` (select of several marks): a mark that holds no element (`as` on a row
    without current element) is replaced by the placeholder `&gdbi.DataElement{}` — whose `Loaded`
    flag is false;
  * `pipeline.Convert`, case SelectionData: `if !v.Loaded { ve = graph.GetVertex(v.ID, true).ToVertex() }`
    — the placeholder is looked up under the empty id, found nowhere, and the selection carries a
    nil vertex / edge.

  Everything else is `Grip.evalStepT` / `Grip.convert`.  Core Lean only.
-/
import Grip.Model.C02Null

namespace Grip.EvalN
open Grip

/-- `Selector.Process` with Go's placeholder for a mark without element. -/
def stepSelectN (marks : List String) (t : Traveler) : Traveler :=
  match marks with
  | [m] => t.addCurrent (t.getMark m)
  | ms => { sel := some (ms.eraseDups.map (fun m => (m, (t.getMark m).getD { loaded := false }))) }

def evalStepN (m : C02.NullMiss) (numOf : String → Option Int) (g : AGraph) (from_ : DataType)
    (s : Stmt) (ts : List Traveler) : List Traveler :=
  match s with
  | .select ms => ts.map (stepSelectN ms)
  | s => C02.evalStepN m numOf g from_ s ts

def evalN (m : C02.NullMiss) (numOf : String → Option Int) (g : AGraph) (stmts : List Stmt) :
    List Traveler :=
  C02.evalFromX (fun _ => evalStepN m numOf g) {} 0 [Traveler.seed] stmts

/-- Result rows: `Grip.Row`, except that a selection may carry "no element" for a mark. -/
inductive RowN where
  | plain (r : Row)
  | sel (s : List (String × DataType × Option Elem))
  deriving Repr, Inhabited

/-- `pipeline.Convert` with the lazy reload of selections. -/
def convertN (g : AGraph) (st : TState) (t : Traveler) : RowN :=
  match st.last with
  | .selection =>
    .sel ((t.sel.getD []).filterMap (fun (kv : String × Elem) =>
      match st.marks.get kv.1 with
      | .vertex => some (kv.1, DataType.vertex, C02.reload g .vertex kv.2)
      | .edge => some (kv.1, DataType.edge, C02.reload g .edge kv.2)
      | _ => none))
  | _ => .plain (convert st t)

/-- `Compile` + `pipeline.Run` on the key-value graph. -/
def runN (numOf : String → Option Int) (g : AGraph) (stmts : List Stmt) : Except TypeErr (List RowN) :=
  match typeCheck stmts with
  | .error e => .error e
  | .ok st =>
    if stmts.isEmpty then .ok []
    else .ok ((evalN C02.kvMiss numOf g stmts).map (convertN g st))

end Grip.EvalN
