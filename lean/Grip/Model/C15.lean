/-
  Grip.Model.C15 — MODEL of the gripper driver (gripper/graph.go, sources.go, optimize.go,
  config.go, server.go, driver_cache.go, engine/inspect/haslabel.go) as functions over
  `Tables` (what the table service holds) and a `Mapping` (gripper.GraphConfig).  Core Lean only.

  * table service (SimpleTableServicer over DriverPreLoad): `rows` (GetRows / GetIDs),
    `rowByID` (GetRowsByID → FetchRow), `rowsByField` (GetRowsByField → FetchMatchRows: the field
    must hold that *string*), `searchFields` (GetCollectionInfo: keys holding a string in some row);
  * `configOk`: the checks of NewTabularGraph;
  * the read interface of TabularGraph: `tgVertexList`, `tgGetVertex`, `tgVertexChan`
    (GetVertexChannel: *every* vertex source whose prefix matches is asked), `tgEdgeList`,
    `tgOutEdges/tgInEdges` (Get{Out,In}EdgeChannel), `tgOutVerts/tgInVerts` (Get{Out,In}Channel =
    the edge scan followed by GetVertexChannel on the far end), `tgGetEdge` (ParseEdge + GetEdge),
    with the loop structure of the Go code: `vertexSourceOrder` = the vertex types in the order of
    `Mapping.verts` (sorted prefixes; the driver sorts on decode), `edgeSourceOrder` = `srcOrder`
    (vertex prefixes some edge type starts or ends at), `outEdges[p]`/`inEdges[p]` = `outSources/
    inSources` (inbound sources carry the flipped config and `reverse = true`, as NewTabularGraph
    builds them).  Within `outEdges[p]` Go's order is map-iteration order; the model uses the order
    of `Mapping.edges` — results are compared as multisets.
  * `Reads`: the read interface as a record, `evalStepR/evalFromR`: C01's step semantics with the
    graph reads taken from such a record (`Reads.ofGraph g` gives back C01's `evalStepT g`);
  * `tabularOptimize` (TabularOptimizer + FindVertexHasLabelStart/FindEdgeHasLabelStart) and the
    two scan processors; `runR`: Validate → optimizer → typing fold → pipeline;
  * the write calls (all refused).

  The model is of the code *after* the `fix:` commits recorded in findings/C15.jsonl
  (leading-hasLabel planning; edge label scan; GetEdge).
-/
import Grip.Model.Graph
import Grip.Model.Stmt
import Grip.Model.Typing
import Grip.Model.Eval

namespace Grip.C15
open Grip

/-! ### ids: prefix test and removal (strings.HasPrefix, `s[len(p):]`) -/

def hasPfx (p s : String) : Bool := p.toList.isPrefixOf s.toList
def dropPfx (p s : String) : String := String.ofList (s.toList.drop p.toList.length)

/-! ### tables and the table service -/

structure TRow where
  id : String
  data : JV := .obj []
  deriving Repr, Inhabited

structure Table where
  name : String
  rows : List TRow := []
  deriving Repr, Inhabited

abbrev Tables := List Table

def Tables.rows (t : Tables) (name : String) : List TRow :=
  match t.find? (·.name == name) with
  | some tb => tb.rows
  | none => []

def Tables.has (t : Tables) (name : String) : Bool := t.any (·.name == name)

/-- `getFieldString` / the `v.Value[field].(string)` test of FetchMatchRows. -/
def fieldString (data : JV) (field : String) : Option String :=
  match data.getKey? field with
  | some (.str s) => some s
  | _ => none

/-- FetchRow. -/
def Tables.rowByID (t : Tables) (name id : String) : Option TRow := (t.rows name).find? (·.id == id)

/-- FetchMatchRows. -/
def Tables.rowsByField (t : Tables) (name field value : String) : List TRow :=
  (t.rows name).filter (fun r => fieldString r.data field == some value)

/-- DriverPreLoad.GetFields: keys that hold a string in some row. -/
def Tables.searchFields (t : Tables) (name : String) : List String :=
  (t.rows name).flatMap (fun r => r.data.fields.filterMap (fun kv =>
    match kv.2 with
    | .str _ => some kv.1
    | _ => none))

/-! ### the mapping (gripper.GraphConfig; one source) -/

/-- One entry of `GraphConfig.Vertices`: the map key is the id prefix. -/
structure VType where
  pfx : String
  label : String
  table : String
  deriving Repr, Inhabited

/-- One entry of `GraphConfig.Edges`; `frm`/`to` name vertex types by their prefix. -/
structure EType where
  name : String
  frm : String
  to : String
  label : String
  table : String
  fromField : String
  toField : String
  deriving Repr, Inhabited

structure Mapping where
  verts : List VType := []
  edges : List EType := []
  deriving Repr, Inhabited

/-- The checks of NewTabularGraph (any failure: the graph is not created). -/
def configOk (t : Tables) (m : Mapping) : Bool :=
  m.verts.all (fun v => t.has v.table) &&
  m.edges.all (fun e =>
    m.verts.any (·.pfx == e.to) && m.verts.any (·.pfx == e.frm) &&
    e.table != "" && e.fromField != "" && e.toField != "" && t.has e.table &&
    (t.searchFields e.table).contains e.toField && (t.searchFields e.table).contains e.fromField)

/-! ### vertices -/

def mkVertex (v : VType) (r : TRow) : Elem := { gid := v.pfx ++ r.id, label := v.label, data := r.data }

/-- GetVertexList. -/
def tgVertexList (t : Tables) (m : Mapping) : List Elem :=
  m.verts.flatMap (fun v => (t.rows v.table).map (mkVertex v))

/-- What vertex source `v` answers for the id `key`. -/
def vertexAt (t : Tables) (key : String) (v : VType) : Option Elem :=
  if hasPfx v.pfx key then (t.rowByID v.table (dropPfx v.pfx key)).map (mkVertex v) else none

/-- GetVertex: the first source (in vertexSourceOrder) with a matching prefix *and* a row. -/
def tgGetVertex (t : Tables) (m : Mapping) (key : String) : Option Elem :=
  m.verts.findSome? (vertexAt t key)

/-- GetVertexChannel for one request: every source with a matching prefix is asked. -/
def tgVertexChan (t : Tables) (m : Mapping) (key : String) : List Elem :=
  m.verts.filterMap (vertexAt t key)

/-! ### edge sources -/

/-- gripper.EdgeSource: (possibly flipped) config, the two vertex sources, the direction flag. -/
structure ESource where
  label : String
  table : String
  fromField : String
  toField : String
  cfgFrom : String
  cfgTo : String
  fromPfx : String
  toPfx : String
  reverse : Bool
  deriving Repr, Inhabited

def outSource (e : EType) : ESource :=
  { label := e.label, table := e.table, fromField := e.fromField, toField := e.toField,
    cfgFrom := e.frm, cfgTo := e.to, fromPfx := e.frm, toPfx := e.to, reverse := false }

/-- "copy the edge config, but flip the field requests for the incoming edges". -/
def inSource (e : EType) : ESource :=
  { label := e.label, table := e.table, fromField := e.toField, toField := e.fromField,
    cfgFrom := e.to, cfgTo := e.frm, fromPfx := e.to, toPfx := e.frm, reverse := true }

/-- EdgeSource.GenID. -/
def ESource.genID (es : ESource) (src dst : String) : String :=
  if es.reverse then es.toPfx ++ src ++ "-" ++ es.label ++ "-" ++ es.fromPfx ++ dst
  else es.fromPfx ++ src ++ "-" ++ es.label ++ "-" ++ es.toPfx ++ dst

/-- edgeSourceOrder: the vertex prefixes at which some edge type starts or ends. -/
def srcOrder (m : Mapping) : List String :=
  (m.verts.map (·.pfx)).filter (fun p => m.edges.any (fun e => e.frm == p || e.to == p))

def outSources (m : Mapping) (p : String) : List ESource := (m.edges.filter (·.frm == p)).map outSource
def inSources (m : Mapping) (p : String) : List ESource := (m.edges.filter (·.to == p)).map inSource

/-- The edge GetEdgeList (and the edge label scan) makes of a link row: both link fields must be
    non-empty strings. -/
def listEdge (es : ESource) (r : TRow) : Option Elem :=
  match fieldString r.data es.toField with
  | some dst =>
    if dst != "" then
      match fieldString r.data es.fromField with
      | some src =>
        if src != "" then
          some { gid := es.genID src dst, to := es.toPfx ++ dst, frm := es.fromPfx ++ src,
                 label := es.label, data := r.data }
        else none
      | none => none
    else none
  | none => none

/-- GetEdgeList. -/
def tgEdgeList (t : Tables) (m : Mapping) : List Elem :=
  (srcOrder m).flatMap (fun p => (outSources m p).flatMap (fun es =>
    (t.rows es.table).filterMap (listEdge es)))

/-- GetOutEdgeChannel: the edge made of a row found by `fromField = id`. -/
def outEdgeOf (es : ESource) (id : String) (r : TRow) : Option Elem :=
  match fieldString r.data es.toField with
  | some dst =>
    if dst != "" then
      some { gid := es.genID id dst, frm := es.cfgFrom ++ id, to := es.cfgTo ++ dst,
             label := es.label, data := r.data }
    else none
  | none => none

/-- GetInEdgeChannel (`es` is an inbound source: its `fromField` is the link's to-field). -/
def inEdgeOf (es : ESource) (id : String) (r : TRow) : Option Elem :=
  match fieldString r.data es.toField with
  | some dst =>
    if dst != "" then
      some { gid := es.genID dst id, frm := es.toPfx ++ dst, to := es.fromPfx ++ id,
             label := es.label, data := r.data }
    else none
  | none => none

/-- The common loop of the four adjacency channels. -/
def adjScan (t : Tables) (m : Mapping) (srcs : String → List ESource)
    (mk : ESource → String → TRow → Option Elem) (key : String) (labels : List String) : List Elem :=
  (srcOrder m).flatMap (fun p =>
    if hasPfx p key then
      let id := dropPfx p key
      if id != "" then
        (srcs p).flatMap (fun es =>
          if AGraph.labelOk labels es.label then
            (t.rowsByField es.table es.fromField id).filterMap (mk es id)
          else [])
      else []
    else [])

def tgOutEdges (t : Tables) (m : Mapping) : String → List String → List Elem :=
  adjScan t m (outSources m) outEdgeOf
def tgInEdges (t : Tables) (m : Mapping) : String → List String → List Elem :=
  adjScan t m (inSources m) inEdgeOf

/-- GetOutChannel: the far-end id of every out-edge goes through GetVertexChannel. -/
def tgOutVerts (t : Tables) (m : Mapping) (key : String) (labels : List String) : List Elem :=
  (tgOutEdges t m key labels).flatMap (fun e => tgVertexChan t m e.to)
def tgInVerts (t : Tables) (m : Mapping) (key : String) (labels : List String) : List Elem :=
  (tgInEdges t m key labels).flatMap (fun e => tgVertexChan t m e.frm)

/-- `strings.Split(gid, "-")` on characters. -/
def splitDash : List Char → List (List Char)
  | [] => [[]]
  | c :: cs =>
    match splitDash cs with
    | [] => [[c]]
    | p :: ps => if c == '-' then [] :: p :: ps else (c :: p) :: ps

/-- ParseEdge: exactly three `-`-separated parts (source, label, destination).  An id whose
    source, label or destination part itself contains `-` is "incorrectly formatted" and finds
    nothing (open finding C15-edge-id-dash). -/
def parseEdge (gid : String) : Option (String × String × String) :=
  match splitDash gid.toList with
  | [a, b, c] => some (String.ofList a, String.ofList c, String.ofList b)
  | _ => none

/-- GetEdge: the first outbound source with that label and matching prefixes that has a matching
    row (the last such row); empty row ids on either side never match. -/
def tgGetEdge (t : Tables) (m : Mapping) (key : String) : Option Elem :=
  match parseEdge key with
  | none => none
  | some (src, dst, label) =>
    ((srcOrder m).flatMap (outSources m)).findSome? (fun es =>
      if es.label == label && hasPfx es.fromPfx src && hasPfx es.toPfx dst then
        let srcID := dropPfx es.fromPfx src
        let dstID := dropPfx es.toPfx dst
        if srcID == "" || dstID == "" then none else
        (((t.rowsByField es.table es.fromField srcID).filter
            (fun r => fieldString r.data es.toField == some dstID)).getLast?).map (fun r =>
          { gid := es.genID srcID dstID, to := es.cfgTo ++ dstID, frm := es.cfgFrom ++ srcID,
            label := es.label, data := r.data })
      else none)

/-! ### the scan processors of optimize.go -/

/-- tabularHasLabelProc. -/
def tgVertexLabelScan (t : Tables) (m : Mapping) (ls : List String) : List Elem :=
  m.verts.flatMap (fun v => if ls.contains v.label then (t.rows v.table).map (mkVertex v) else [])

/-- tabularEdgeHasLabelProc. -/
def tgEdgeLabelScan (t : Tables) (m : Mapping) (ls : List String) : List Elem :=
  (srcOrder m).flatMap (fun p => (outSources m p).flatMap (fun es =>
    if ls.contains es.label then (t.rows es.table).filterMap (listEdge es) else []))

/-! ### the read interface as a record; C01's steps over it -/

structure Reads where
  vertexList : List Elem
  edgeList : List Elem
  getVertex : String → Option Elem
  getEdge : String → Option Elem
  vertexChan : String → List Elem
  outEdges : String → List String → List Elem
  inEdges : String → List String → List Elem
  outVerts : String → List String → List Elem
  inVerts : String → List String → List Elem

/-- The reads of an abstract graph (what C01's `evalStepT g` uses). -/
def Reads.ofGraph (g : AGraph) : Reads :=
  { vertexList := g.verts, edgeList := g.edges, getVertex := g.getVertex, getEdge := g.getEdge,
    vertexChan := fun id => (g.getVertex id).toList,
    outEdges := g.outEdges, inEdges := g.inEdges, outVerts := g.outVerts, inVerts := g.inVerts }

/-- The reads of the gripper graph. -/
def tgReads (t : Tables) (m : Mapping) : Reads :=
  { vertexList := tgVertexList t m, edgeList := tgEdgeList t m,
    getVertex := tgGetVertex t m, getEdge := tgGetEdge t m, vertexChan := tgVertexChan t m,
    outEdges := tgOutEdges t m, inEdges := tgInEdges t m,
    outVerts := tgOutVerts t m, inVerts := tgInVerts t m }

def rStepV (rd : Reads) (ids : List String) (t : Traveler) : List Traveler :=
  if ids.isEmpty then rd.vertexList.map (fun v => t.addCurrent (some (vertexElem v)))
  else (ids.filterMap rd.getVertex).map (fun v => t.addCurrent (some (vertexElem v)))

def rStepE (rd : Reads) (ids : List String) (t : Traveler) : List Traveler :=
  if ids.isEmpty then rd.edgeList.map (fun e => t.addCurrent (some (edgeElem e)))
  else (ids.filterMap rd.getEdge).map (fun e => t.addCurrent (some (edgeElem e)))

def rStepOut (rd : Reads) (from_ : DataType) (labels : List String) (t : Traveler) : List Traveler :=
  if from_ == .edge then (rd.vertexChan (curTo t)).map (fun v => t.addCurrent (some (vertexElem v)))
  else (rd.outVerts (curId t) labels).map (fun v => t.addCurrent (some (vertexElem v)))

def rStepIn (rd : Reads) (from_ : DataType) (labels : List String) (t : Traveler) : List Traveler :=
  if from_ == .edge then (rd.vertexChan (curFrom t)).map (fun v => t.addCurrent (some (vertexElem v)))
  else (rd.inVerts (curId t) labels).map (fun v => t.addCurrent (some (vertexElem v)))

def rStepOutE (rd : Reads) (labels : List String) (t : Traveler) : List Traveler :=
  (rd.outEdges (curId t) labels).map (fun e => t.addCurrent (some (edgeElem e)))

def rStepInE (rd : Reads) (labels : List String) (t : Traveler) : List Traveler :=
  (rd.inEdges (curId t) labels).map (fun e => t.addCurrent (some (edgeElem e)))

/-- C01's `evalStepT` with the graph reads taken from `rd`; statements that read no graph are
    C01's (they ignore the graph argument). -/
def evalStepR (numOf : String → Option Int) (rd : Reads) (from_ : DataType) (s : Stmt)
    (ts : List Traveler) : List Traveler :=
  match s with
  | .V ids => ts.flatMap (rStepV rd ids)
  | .E ids => ts.flatMap (rStepE rd ids)
  | .out ls => ts.flatMap (rStepOut rd from_ ls)
  | .in_ ls => ts.flatMap (rStepIn rd from_ ls)
  | .outE ls => ts.flatMap (rStepOutE rd ls)
  | .inE ls => ts.flatMap (rStepInE rd ls)
  | .both ls => ts.flatMap (rStepIn rd from_ ls) ++ ts.flatMap (rStepOut rd from_ ls)
  | .bothE ls => ts.flatMap (rStepInE rd ls) ++ ts.flatMap (rStepOutE rd ls)
  | s => evalStepT numOf AGraph.empty from_ s ts

def evalFromR (numOf : String → Option Int) (rd : Reads) (st : TState) (ts : List Traveler) :
    List Stmt → List Traveler
  | [] => ts
  | s :: rest => match typeStep st s with
    | .ok st' => evalFromR numOf rd st' (evalStepR numOf rd st.last s ts) rest
    | .error _ => []

/-- Compile + run without an optimizer (C01's `run` over a read interface). -/
def runPlainR (numOf : String → Option Int) (rd : Reads) (stmts : List Stmt) :
    Except TypeErr (List Row) :=
  match typeCheck stmts with
  | .error e => .error e
  | .ok st =>
    if stmts.isEmpty then .ok []
    else .ok ((evalFromR numOf rd {} [Traveler.seed] stmts).map (convert st))

/-! ### TabularOptimizer -/

inductive Scan where
  | vertexLabels (ls : List String)
  | edgeLabels (ls : List String)
  deriving Repr, Inhabited

def Scan.type : Scan → DataType
  | .vertexLabels _ => .vertex
  | .edgeLabels _ => .edge

/-- FindVertexHasLabelStart / FindEdgeHasLabelStart + TabularOptimizer: a leading `V()` (`E()`)
    without ids followed by `hasLabel(ls)`, `ls` non-empty, becomes a label scan; the statements
    after that first `hasLabel` are kept. -/
def tabularOptimize : List Stmt → Option (Scan × List Stmt)
  | .V [] :: .hasLabel (l :: ls) :: rest => some (.vertexLabels (l :: ls), rest)
  | .E [] :: .hasLabel (l :: ls) :: rest => some (.edgeLabels (l :: ls), rest)
  | _ => none

/-- The travelers the scan processor emits for the seed traveler. -/
def scanStart (scanV scanE : List String → List Elem) : Scan → List Traveler
  | .vertexLabels ls => (scanV ls).map (fun v => Traveler.seed.addCurrent (some (vertexElem v)))
  | .edgeLabels ls => (scanE ls).map (fun e => Traveler.seed.addCurrent (some (edgeElem e)))

/-- `Compile` of the gripper graph's compiler + `pipeline.Run`: Validate, then TabularOptimizer,
    then the typing fold (the EngineCustom statement types as its processor's `GetType`), then the
    pipeline. -/
def runR (numOf : String → Option Int) (rd : Reads) (scanV scanE : List String → List Elem)
    (stmts : List Stmt) : Except TypeErr (List Row) :=
  match validate stmts with
  | .error e => .error e
  | .ok () =>
    match tabularOptimize stmts with
    | none => runPlainR numOf rd stmts
    | some (scan, rest) =>
      match typeFold { last := scan.type } rest with
      | .error e => .error e
      | .ok st =>
        .ok ((evalFromR numOf rd { last := scan.type } (scanStart scanV scanE scan) rest).map (convert st))

/-- A traversal on the gripper graph. -/
def runT (numOf : String → Option Int) (t : Tables) (m : Mapping) (stmts : List Stmt) :
    Except TypeErr (List Row) :=
  runR numOf (tgReads t m) (tgVertexLabelScan t m) (tgEdgeLabelScan t m) stmts

/-! ### write calls -/

inductive WriteOp where
  | addVertex | addEdge | bulkAdd | delVertex | delEdge | addVertexIndex | deleteVertexIndex
  deriving Repr, DecidableEq, Inhabited

/-- AddVertex/AddEdge/BulkAdd/DelVertex/DelEdge/AddVertexIndex/DeleteVertexIndex: each is a bare
    `return fmt.Errorf(…)`: refused (`true`), the tables and the mapping are what they were. -/
def tgWrite (s : Tables × Mapping) (_op : WriteOp) : Bool × (Tables × Mapping) := (true, s)

end Grip.C15
