/-
  Grip.Model.C14T — the typing discipline shared by the two compilers, as an interpreter over a
  *generated* table (GripGen.MongoTyping from mongo/compile.go, GripGen.CoreTypingC14 from
  engine/core/compile.go): per statement kind and last DataType a decision tree over the few
  argument conditions the compilers look at.
-/
namespace Grip.C14T

/-- gdbi.DataType. -/
inductive DT where
  | noData | vertex | edge | count | aggregation | selection | render | path
  deriving DecidableEq, Repr, Inhabited

/-- Statement kinds the Mongo compiler supports natively. -/
inductive Kind where
  | v | e | in_ | inNull | out | outNull | both | inE | inENull | outE | outENull | bothE
  | has | hasLabel | hasKey | hasId | limit | skip | range | count | distinct
  | as_ | select | render | path | unwind | fields | aggregate
  deriving DecidableEq, Repr, Inhabited

/-- Argument conditions that guard a typing effect somewhere in either compiler. -/
inductive Chk where
  | emptyList      -- len(labels/ids/keys) == 0
  | emptyName      -- stmt.As == ""
  | badName        -- gripql.ValidateFieldName(stmt.As) != nil
  | reservedName   -- stmt.As == jsonpath.Current
  | dupAgg         -- an aggregation name occurs twice (only when the uniqueness map is ever filled)
  | unknownAgg     -- an aggregation whose type oneof is not set
  | marks0 | marks1   -- len(stmt.Select.Marks)
  | markIs (t : DT)   -- markTypes[stmt.Select.Marks[0]] == t
  deriving DecidableEq, Repr

/-- Outcome of one statement: rejected, or accepted with the resulting type (`none`: the type of
    the selected mark) and, for `as`, the type stored under the mark name. -/
inductive Out where
  | reject
  | ok (t : Option DT) (mark : Option DT)
  deriving DecidableEq, Repr

inductive Tree where
  | leaf (o : Out)
  | ite (c : Chk) (t e : Tree)
  deriving Repr

inductive NM where
  | zero | one | many
  deriving DecidableEq, Repr

/-- What a statement's arguments look like to the typing switch. -/
inductive Arg where
  | plain
  | list (empty : Bool)
  | name (empty bad reserved : Bool)
  | marks (n : NM) (mt : DT)
  | aggs (dup unk : Bool)
  deriving DecidableEq, Repr

def Arg.holds : Arg → Chk → Bool
  | .list e, .emptyList => e
  | .name e _ _, .emptyName => e
  | .name _ b _, .badName => b
  | .name _ _ r, .reservedName => r
  | .aggs d _, .dupAgg => d
  | .aggs _ u, .unknownAgg => u
  | .marks n _, .marks0 => n == .zero
  | .marks n _, .marks1 => n == .one
  | .marks _ mt, .markIs t => mt == t
  | _, _ => false

def Tree.eval : Tree → Arg → Out
  | .leaf o, _ => o
  | .ite c t e, a => if a.holds c then t.eval a else e.eval a

structure Table where
  tree : Kind → DT → Tree
  validatesFirst : Bool
  firstKinds : List Kind

/-- A statement as far as typing is concerned: kind, its list of strings (labels, ids, keys,
    mark names, aggregation names), its name (`as`), whether some aggregation has no type. -/
structure TStmt where
  kind : Kind
  list : List String := []
  name : String := ""
  unk : Bool := false
  deriving Repr, DecidableEq

structure St where
  t : DT
  marks : List (String × DT)      -- newest first; lookup takes the first hit (map overwrite)
  deriving Repr, DecidableEq

def lookupM (marks : List (String × DT)) (n : String) : DT :=
  match marks.find? (fun p => p.1 == n) with
  | some p => p.2
  | none => .noData               -- Go's zero value for a missing map key

def hasDup : List String → Bool
  | [] => false
  | x :: xs => xs.contains x || hasDup xs

/-- The string predicates both compilers call (same functions on both sides). -/
structure Names where
  bad : String → Bool             -- gripql.ValidateFieldName fails
  reserved : String → Bool        -- == jsonpath.Current

def argOf (nm : Names) (st : St) (s : TStmt) : Arg :=
  match s.kind with
  | .hasLabel | .hasKey | .hasId => .list s.list.isEmpty
  | .as_ => .name (s.name == "") (nm.bad s.name) (nm.reserved s.name)
  | .select =>
    match s.list with
    | [] => .marks .zero .noData
    | [m] => .marks .one (lookupM st.marks m)
    | m :: _ => .marks .many (lookupM st.marks m)
  | .aggregate => .aggs (hasDup s.list) s.unk
  | _ => .plain

def Arg.markT : Arg → DT
  | .marks _ mt => mt
  | _ => .noData

/-- The outcome with "the type of the selected mark" resolved. -/
def Out.resolve (a : Arg) : Out → Out
  | .ok none mk => .ok (some a.markT) mk
  | o => o

def Tree.evalR (t : Tree) (a : Arg) : Out := (t.eval a).resolve a

/-- One iteration of the compile loop. -/
def stepT (tb : Table) (nm : Names) (st : St) (s : TStmt) : Option St :=
  match (tb.tree s.kind st.t).evalR (argOf nm st s) with
  | .reject => none
  | .ok t mk =>
    let marks' := match mk with
      | some mt => (s.name, mt) :: st.marks
      | none => st.marks
    some ⟨t.getD .noData, marks'⟩

def runT (tb : Table) (nm : Names) : St → List TStmt → Option St
  | st, [] => some st
  | st, s :: ss => match stepT tb nm st s with
    | some st' => runT tb nm st' ss
    | none => none

/-- `Validate`: the first statement must be of one of the listed kinds. -/
def firstOk (tb : Table) : List TStmt → Bool
  | [] => true
  | s :: _ => !tb.validatesFirst || tb.firstKinds.contains s.kind

/-- Compile on an empty extension: validation, then the typing fold from (NoData, no marks). -/
def typeOf (tb : Table) (nm : Names) (ss : List TStmt) : Option St :=
  if firstOk tb ss then runT tb nm ⟨.noData, []⟩ ss else none

/-- "Marks defined before use": every mark a `select` names was introduced by an earlier `as`. -/
def definedFrom : List String → List TStmt → Bool
  | _, [] => true
  | names, s :: ss =>
    (if s.kind == .select then s.list.all (fun m => names.contains m) else true) &&
    definedFrom (if s.kind == .as_ then s.name :: names else names) ss

/-- Well-formed aggregations: every aggregation carries a type. -/
def aggsTyped (ss : List TStmt) : Bool := ss.all (fun s => !s.unk)

end Grip.C14T
