/-
  Grip.Model.C09KV — the key-value view used by the C09 model: byte keys as `kvindex/keys.go`
  builds them (`bytes.Join(parts, {0})`), byte-lexicographic order (the order every kvi driver
  iterates in), a small insertion sort, and the IEEE-754 binary64 bit pattern of a protocol
  number (n/1024) as `math.Float64bits` produces it.  Core Lean only; self-contained.
-/
import Grip.Basic

namespace Grip.C09

/-- `bytes.Join(parts, []byte{0})`. -/
def join0 : List Bytes → Bytes
  | [] => []
  | [p] => p
  | p :: ps => p ++ (0 : UInt8) :: join0 ps

/-- `bytes.Compare(a, b) < 0`. -/
def bytesLt : Bytes → Bytes → Bool
  | [], [] => false
  | [], _ :: _ => true
  | _ :: _, [] => false
  | a :: as, b :: bs => if a < b then true else if b < a then false else bytesLt as bs

def bytesLe (a b : Bytes) : Bool := !bytesLt b a

/-- `bytes.HasPrefix(k, p)`. -/
def hasPrefix : Bytes → Bytes → Bool
  | _, [] => true
  | [], _ :: _ => false
  | a :: as, b :: bs => a == b && hasPrefix as bs

def strBytes (s : String) : Bytes := s.toUTF8.toList

/-- Insertion sort (stable) by a Boolean `le`. -/
def insertBy {α} (le : α → α → Bool) (x : α) : List α → List α
  | [] => [x]
  | y :: ys => if le x y then x :: y :: ys else y :: insertBy le x ys

def sortBy {α} (le : α → α → Bool) : List α → List α
  | [] => []
  | x :: xs => insertBy le x (sortBy le xs)

/-- Big-endian 8 bytes of a 64-bit word (`binary.BigEndian.PutUint64`). -/
def be8 (w : Nat) : Bytes :=
  [7, 6, 5, 4, 3, 2, 1, 0].map fun i => UInt8.ofNat ((w / 2 ^ (8 * i)) % 256)

/-- Number of binary digits of a positive natural. -/
def bitLen (m : Nat) : Nat := if m = 0 then 0 else Nat.log2 m + 1

/-- `math.Float64bits(float64(n)/1024)` for a scaled protocol number `n` with |n| < 2^53:
    sign bit, biased exponent 1023 + (bitLen |n| - 1) - 10, and the 52 fraction bits below the
    leading one.  (0 ↦ +0; such values are never subnormal.) -/
def bitsOfScaled (n : Int) : Nat :=
  if n = 0 then 0 else
  let m := n.natAbs
  let l := bitLen m
  let frac := if l ≤ 53 then m * 2 ^ (53 - l) - 2 ^ 52 else m / 2 ^ (l - 53) - 2 ^ 52
  (if n < 0 then 2 ^ 63 else 0) + (1012 + l) * 2 ^ 52 + frac

def posInfBits : Nat := 0x7FF0000000000000
def negInfBits : Nat := 0xFFF0000000000000
def negZeroBits : Nat := 0x8000000000000000

end Grip.C09
