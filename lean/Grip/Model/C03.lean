/-
  Grip.Model.C03 — MODEL of kvgraph (graph.go, graphdb.go, index.go) and the part of kvindex it
  uses, over *structured* keys (layer 3 of DESIGN.md §4.3).

  The key-value store is an association list `SKey ↦ Val`; every function below lists the same
  writes, in the same order, as the Go code.  Prefix scans of the Go code appear as filters on
  the structured key (sound for NUL-free components: that is C16's theorem about `encode`).
  `encode` follows kvgraph/keys.go and kvindex/keys.go and is used where byte order matters
  (which of several records a "last one wins" scan returns).
-/
import Grip.Basic

namespace Grip.C03

inductive SKey where
  | vertex (g id : String)
  | edge (g eid s d l : String)
  | src (g s d eid l : String)
  | dst (g d s eid l : String)
  | graph (g : String)
  | field (f : String)
  | term (f t : String)
  | entry (f t doc : String)
  | doc (d : String)
  deriving DecidableEq, Repr, Inhabited

inductive Val where
  | vert (label : String) (data : JV)
  | edge (data : JV)
  | unit
  deriving DecidableEq, Repr, Inhabited

/-- An element as the write API receives it. -/
structure VertexIn where
  gid : String
  label : String
  data : JV
  deriving DecidableEq, Repr, Inhabited

structure EdgeIn where
  gid : String
  label : String
  frm : String
  to : String
  data : JV
  deriving DecidableEq, Repr, Inhabited

inductive ElemIn where
  | v (x : VertexIn)
  | e (x : EdgeIn)
  deriving DecidableEq, Repr, Inhabited

/-! ### byte encoding (kvgraph/keys.go, kvindex/keys.go): prefix, components joined by NUL -/

def bytesOf (s : String) : Bytes := s.toUTF8.toList

def joinNul : List Bytes → Bytes
  | [] => []
  | [x] => x
  | x :: xs => x ++ (0 :: joinNul xs)

def encode : SKey → Bytes
  | .vertex g id => joinNul [bytesOf "v", bytesOf g, bytesOf id]
  | .edge g eid s d l => joinNul [bytesOf "e", bytesOf g, bytesOf eid, bytesOf s, bytesOf d, bytesOf l, [1]]
  | .src g s d eid l => joinNul [bytesOf "s", bytesOf g, bytesOf s, bytesOf d, bytesOf eid, bytesOf l, [1]]
  | .dst g d s eid l => joinNul [bytesOf "d", bytesOf g, bytesOf d, bytesOf s, bytesOf eid, bytesOf l, [1]]
  | .graph g => joinNul [bytesOf "g", bytesOf g]
  | .field f => joinNul [bytesOf "f", bytesOf f]
  | .term f t => joinNul [bytesOf "t", bytesOf f, [1], bytesOf t]
  | .entry f t doc => joinNul [bytesOf "i", bytesOf f, [1], bytesOf t, bytesOf doc]
  | .doc d => joinNul [bytesOf "D", bytesOf d]

def bytesLt : Bytes → Bytes → Bool
  | [], [] => false
  | [], _ :: _ => true
  | _ :: _, [] => false
  | a :: as, b :: bs => if a < b then true else if b < a then false else bytesLt as bs

/-! ### the key-value map -/

abbrev KV := List (SKey × Val)

def KV.get (m : KV) (k : SKey) : Option Val := (m.find? (fun p => p.1 = k)).map (·.2)
def KV.has (m : KV) (k : SKey) : Bool := m.any (fun p => p.1 = k)
def KV.del (m : KV) (k : SKey) : KV := m.filter (fun p => ¬ p.1 = k)
def KV.set (m : KV) (k : SKey) (v : Val) : KV := (k, v) :: m.del k
def KV.delWhere (m : KV) (p : SKey → Bool) : KV := m.filter (fun q => !p q.1)

/-- kvgraph + kvindex + timestamp state. `fields` is KVIndex.Fields (in memory only). -/
structure KState where
  kv : KV := []
  fields : List String := []
  stamps : List (String × Nat) := []
  clock : Nat := 0
  deriving Repr, Inhabited

def KState.touch (s : KState) (g : String) : KState :=
  { s with clock := s.clock + 1, stamps := (g, s.clock + 1) :: s.stamps.filter (fun p => p.1 ≠ g) }

def KState.stamp (s : KState) (g : String) : Option Nat :=
  (s.stamps.find? (fun p => p.1 = g)).map (·.2)

/-! ### validation (gripql/util.go) -/

def badChars : List Char := "!@#$%^&*()+={}[] :;\"',.<>?/\\|~".toList

/-- gripql.validate -/
def validName (k : String) : Bool :=
  !(k.toList.any (fun c => badChars.contains c)) && !(k.startsWith "_") && !(k.startsWith "-")

def reservedFields : List String := ["_gid", "_label", "_to", "_from", "_data"]

def validFieldName (k : String) : Bool := !(reservedFields.contains k) && validName k

def dataKeys : JV → List String
  | .obj kvs => kvs.map (·.1)
  | _ => []

def validVertex (v : VertexIn) : Bool :=
  v.gid != "" && v.label != "" && (dataKeys v.data).all validFieldName

def validEdge (e : EdgeIn) : Bool :=
  e.gid != "" && e.label != "" && e.frm != "" && e.to != "" && (dataKeys e.data).all validFieldName

/-! ### kvindex: AddField / AddDocTx / RemoveField restricted to the two label fields of a graph -/

def labelField (g kind : String) : String := g ++ "." ++ kind ++ ".label"

/-- AddDocTx for the document `{g: {kind: {"label": label, label: data}}}`: for every registered
    field whose path digs to a string, write the entry key, the (invalidated) term key; then the
    doc key.  Only `g.kind.label` fields exist in this model (user indexes are out of scope). -/
def addDoc (fields : List String) (m : KV) (g kind label docId : String) : KV :=
  let m := if fields.contains (labelField g kind) then
      (m.set (.entry (labelField g kind) label docId) .unit).set (.term (labelField g kind) label) .unit
    else m
  m.set (.doc docId) .unit

/-- insertVertex: validate, Set(vertex key), AddDocTx.  Returns the error flag. -/
def insertVertex (fields : List String) (m : KV) (g : String) (v : VertexIn) : KV × Bool :=
  if !validVertex v then (m, false) else
  (addDoc fields (m.set (.vertex g v.gid) (.vert v.label v.data)) g "v" v.label v.gid, true)

/-- insertEdge: validate, Set(edge key), Set(src key), Set(dst key), AddDocTx. -/
def insertEdge (fields : List String) (m : KV) (g : String) (e : EdgeIn) : KV × Bool :=
  if !validEdge e then (m, false) else
  let m := m.set (.edge g e.gid e.frm e.to e.label) (.edge e.data)
  let m := m.set (.src g e.frm e.to e.gid e.label) .unit
  let m := m.set (.dst g e.to e.frm e.gid e.label) .unit
  (addDoc fields m g "e" e.label e.gid, true)

def insertElem (fields : List String) (m : KV) (g : String) : ElemIn → KV × Bool
  | .v x => insertVertex fields m g x
  | .e x => insertEdge fields m g x

/-- The loop of AddVertex/AddEdge/BulkAdd: returns the map, whether any element was inserted and
    whether any was rejected. -/
def insertAll (fields : List String) (g : String) : KV → List ElemIn → KV × Bool × Bool
  | m, [] => (m, false, false)
  | m, x :: xs =>
    let (m1, ok) := insertElem fields m g x
    let (m2, anyOk, anyErr) := insertAll fields g m1 xs
    (m2, ok || anyOk, !ok || anyErr)

/-! ### operations -/

inductive Op where
  | addGraph (g : String)
  | delGraph (g : String)
  | addV (g : String) (vs : List VertexIn)
  | addE (g : String) (es : List EdgeIn)
  | bulk (g : String) (xs : List ElemIn)
  | delV (g id : String)
  | delE (g eid : String)
  deriving Repr, Inhabited

inductive Res where
  | ok | err
  deriving DecidableEq, Repr, Inhabited

def graphs (m : KV) : List String :=
  m.filterMap (fun p => match p.1 with | .graph g => some g | _ => none)

def hasGraph (s : KState) (g : String) : Bool := s.kv.has (.graph g)

/-- All edge records stored under edge id `eid` (normally at most one). -/
def edgeRecords (m : KV) (g eid : String) : List (SKey × Val) :=
  m.filter (fun p => match p.1 with | .edge g' e' _ _ _ => g' = g ∧ e' = eid | _ => false)

/-- The record a forward prefix scan ends on: the greatest key in byte order. -/
def lastByBytes : List (SKey × Val) → Option (SKey × Val)
  | [] => none
  | x :: xs => match lastByBytes xs with
    | none => some x
    | some y => if bytesLt (encode x.1) (encode y.1) then some y else some x

/-- first dot-component of a field path: `strings.Split(f, ".")[0]` in deleteGraphIndex — the
    characters before the first '.', the whole string when there is none. -/
def fieldGraph (f : String) : String := String.ofList (f.toList.takeWhile (· != '.'))

def addElems (s : KState) (g : String) (xs : List ElemIn) : KState × Res :=
  if !hasGraph s g then (s, .err) else
  let (m, anyOk, anyErr) := insertAll s.fields g s.kv xs
  let s1 := { s with kv := m }
  let s2 := if anyOk then s1.touch g else s1
  (s2, if anyErr then .err else .ok)

/-- `deleteGraphData`: the four prefix deletes (edges, vertices, by-source, by-destination) and
    deleteGraphIndex (every persisted field whose first component is the graph name: term prefix,
    entry prefix, field key; and the in-memory registration).  DeleteGraph runs it after deleting the
    graph key; AddGraph runs it for a name that is not listed, so that a new graph does not inherit
    what an interrupted DeleteGraph left behind. -/
def sweepGraph (s : KState) (g : String) : KState :=
  let m := s.kv.delWhere (fun k => match k with | .edge g' _ _ _ _ => g' = g | _ => false)
  let m := m.delWhere (fun k => match k with | .vertex g' _ => g' = g | _ => false)
  let m := m.delWhere (fun k => match k with | .src g' _ _ _ _ => g' = g | _ => false)
  let m := m.delWhere (fun k => match k with | .dst g' _ _ _ _ => g' = g | _ => false)
  let fs := (m.filterMap (fun p => match p.1 with | .field f => some f | _ => none)).filter (fun f => fieldGraph f = g)
  let m := fs.foldl (fun m f =>
    ((m.delWhere (fun k => match k with | .term f' _ => f' = f | _ => false)).delWhere
      (fun k => match k with | .entry f' _ _ => f' = f | _ => false)).del (.field f)) m
  { s with kv := m, fields := s.fields.filter (fun f => !fs.contains f) }

def step (s : KState) : Op → KState × Res
  | .addGraph g =>
    if !validName g then (s, .err) else
    -- not listed: deleteGraphData first (after `fix: AddGraph starts from an empty graph`);
    -- then Touch, setupGraphIndex (two AddField: memory + field key), Set(graph key)
    let s := if hasGraph s g then s else sweepGraph s g
    let s := s.touch g
    let fs := [labelField g "v", labelField g "e"]
    let s := { s with fields := fs ++ s.fields.filter (fun f => !fs.contains f),
                      kv := (s.kv.set (.field (labelField g "v")) .unit).set (.field (labelField g "e")) .unit }
    ({ s with kv := s.kv.set (.graph g) .unit }, .ok)
  | .delGraph g =>
    -- DeleteGraph never fails (an absent graph: nothing to delete)
    let s := s.touch g
    let m := s.kv.delWhere (fun k => match k with | .edge g' _ _ _ _ => g' = g | _ => false)
    let m := m.delWhere (fun k => match k with | .vertex g' _ => g' = g | _ => false)
    let m := m.delWhere (fun k => match k with | .src g' _ _ _ _ => g' = g | _ => false)
    let m := m.delWhere (fun k => match k with | .dst g' _ _ _ _ => g' = g | _ => false)
    let m := m.del (.graph g)
    -- deleteGraphIndex: every persisted field whose first component is the graph name
    let fs := (m.filterMap (fun p => match p.1 with | .field f => some f | _ => none)).filter (fun f => fieldGraph f = g)
    let m := fs.foldl (fun m f =>
      ((m.delWhere (fun k => match k with | .term f' _ => f' = f | _ => false)).delWhere
        (fun k => match k with | .entry f' _ _ => f' = f | _ => false)).del (.field f)) m
    ({ s with kv := m, fields := s.fields.filter (fun f => !fs.contains f) }, .ok)
  | .addV g vs => addElems s g (vs.map .v)
  | .addE g es => addElems s g (es.map .e)
  | .bulk g xs => addElems s g xs
  | .delV g id =>
    if !hasGraph s g then (s, .err) else
    -- View: collect (src, dst, edge) keys of every entry in the two adjacency prefixes; Update: delete
    let outs := s.kv.filterMap (fun p => match p.1 with
      | .src g' sid did eid l => if g' = g ∧ sid = id then some [SKey.src g sid did eid l, .dst g did sid eid l, .edge g eid sid did l] else none
      | _ => none)
    let ins := s.kv.filterMap (fun p => match p.1 with
      | .dst g' did sid eid l => if g' = g ∧ did = id then some [SKey.src g sid did eid l, .dst g did sid eid l, .edge g eid sid did l] else none
      | _ => none)
    let m := (outs.flatten ++ ins.flatten).foldl (fun m k => m.del k) (s.kv.del (.vertex g id))
    (({ s with kv := m }).touch g, .ok)
  | .delE g eid =>
    if !hasGraph s g then (s, .err) else
    match lastByBytes (edgeRecords s.kv g eid) with
    | none => (s, .err)
    | some (.edge _ _ sid did l, _) =>
      let m := ((s.kv.del (.edge g eid sid did l)).del (.src g sid did eid l)).del (.dst g did sid eid l)
      (({ s with kv := m }).touch g, .ok)
    | some _ => (s, .err)

def run (s : KState) (ops : List Op) : KState := ops.foldl (fun s o => (step s o).1) s

/-! ### reads (graph.go Get*, ListGraphs, index.go VertexLabelScan, List*Labels) -/

structure VOut where
  gid : String
  label : String
  data : JV
  deriving DecidableEq, Repr

structure EOut where
  gid : String
  label : String
  frm : String
  to : String
  data : JV
  deriving DecidableEq, Repr

def getVertex (m : KV) (g id : String) : Option VOut :=
  match m.get (.vertex g id) with
  | some (.vert l d) => some ⟨id, l, d⟩
  | _ => none

def getEdge (m : KV) (g eid : String) : Option EOut :=
  match lastByBytes (edgeRecords m g eid) with
  | some (.edge _ _ s d l, .edge data) => some ⟨eid, l, s, d, data⟩
  | _ => none

def vertexList (m : KV) (g : String) : List VOut :=
  m.filterMap (fun p => match p with | (.vertex g' id, .vert l d) => if g' = g then some ⟨id, l, d⟩ else none | _ => none)

def edgeList (m : KV) (g : String) : List EOut :=
  m.filterMap (fun p => match p with | (.edge g' eid s d l, .edge data) => if g' = g then some ⟨eid, l, s, d, data⟩ else none | _ => none)

def labelOk (labels : List String) (l : String) : Bool := labels.isEmpty || labels.contains l

/-- GetOutChannel: src entries of `id`, label filter, then Get(vertex key of dst) — absent targets are skipped. -/
def outV (m : KV) (g id : String) (labels : List String) : List VOut :=
  m.filterMap (fun p => match p.1 with
    | .src g' s d _ l => if g' = g ∧ s = id ∧ labelOk labels l then getVertex m g d else none
    | _ => none)

def inV (m : KV) (g id : String) (labels : List String) : List VOut :=
  m.filterMap (fun p => match p.1 with
    | .dst g' d s _ l => if g' = g ∧ d = id ∧ labelOk labels l then getVertex m g s else none
    | _ => none)

/-- GetOutEdgeChannel (load = true): src entries, then Get(edge key); a missing record yields an empty edge. -/
def outE (m : KV) (g id : String) (labels : List String) : List EOut :=
  m.filterMap (fun p => match p.1 with
    | .src g' s d eid l => if g' = g ∧ s = id ∧ labelOk labels l then
        (match m.get (.edge g eid s d l) with
         | some (.edge data) => some ⟨eid, l, s, d, data⟩
         | _ => some ⟨"", "", "", "", .obj []⟩)
      else none
    | _ => none)

def inE (m : KV) (g id : String) (labels : List String) : List EOut :=
  m.filterMap (fun p => match p.1 with
    | .dst g' d s eid l => if g' = g ∧ d = id ∧ labelOk labels l then
        (match m.get (.edge g eid s d l) with
         | some (.edge data) => some ⟨eid, l, s, d, data⟩
         | _ => some ⟨"", "", "", "", .obj []⟩)
      else none
    | _ => none)

/-- VertexLabelScan + fetch: ids from the label index whose current vertex carries the label. -/
def verticesWithLabel (m : KV) (g label : String) : List VOut :=
  m.filterMap (fun p => match p.1 with
    | .entry f t doc => if f = labelField g "v" ∧ t = label then
        (match getVertex m g doc with
         | some v => if v.label = label then some v else none
         | none => none)
      else none
    | _ => none)

def listVertexLabels (m : KV) (g : String) : List String :=
  m.filterMap (fun p => match p.1 with
    | .term f t => if f = labelField g "v" ∧ !(verticesWithLabel m g t).isEmpty then some t else none
    | _ => none)

def edgesWithLabelIdx (m : KV) (g label : String) : List EOut :=
  m.filterMap (fun p => match p.1 with
    | .entry f t doc => if f = labelField g "e" ∧ t = label then
        (match getEdge m g doc with
         | some e => if e.label = label then some e else none
         | none => none)
      else none
    | _ => none)

def listEdgeLabels (m : KV) (g : String) : List String :=
  m.filterMap (fun p => match p.1 with
    | .term f t => if f = labelField g "e" ∧ !(edgesWithLabelIdx m g t).isEmpty then some t else none
    | _ => none)

end Grip.C03
