/-
  MODEL for the percentile clause of C19: the *processed* t-digest of
  github.com/influxdata/tdigest v0.0.1 (tdigest.go) and `TDigest.Quantile`, over exact rationals.

  engine/core/processors.go (`case *gripql.Aggregate_Percentile`) does
      td := tdigest.New(); td.Add(fval, 1) per numeric value; td.Quantile(p/100) per percent.

  What is modelled, line by line: `updateCumulative`, `Quantile`, `weightedAverage`,
  `weightedAverageSorted` (with its clamp).  What is NOT modelled: `process()` (the merging of
  centroids; its scale functions use sin/asin).  The theorems quantify over every well-formed
  digest (`WF`), and the correspondence run checks on every case that the digest the real code
  built is well-formed, and that the real `Quantile` agrees with `quantile` on it.

  `processedWeight` is the sum of the processed weights (true after `process()`; with
  `Add(v, 1)` every weight is a whole number, so the float sum is exact).  Core Lean only.
-/
namespace Grip.C19.Digest

/-- `tdigest.Centroid`. -/
structure Centroid where
  mean : Rat
  weight : Rat
  deriving Repr, DecidableEq, Inhabited

/-- the fields of `TDigest` that `Quantile` reads after `process()`:
    `processed`, `min`, `max` (`cumulative` and `processedWeight` are functions of `processed`). -/
structure Digest where
  cs : List Centroid
  min : Rat
  max : Rat
  deriving Repr

/-- `t.processedWeight`. -/
def total : List Centroid → Rat
  | [] => 0
  | c :: cs => c.weight + total cs

/-- the loop of `updateCumulative`:
    `cumulative[i] = prev + cur/2; prev = prev + cur`, and `cumulative[len] = prev` at the end. -/
def cumulativeFrom (prev : Rat) : List Centroid → List Rat
  | [] => [prev]
  | c :: cs => (prev + c.weight / 2) :: cumulativeFrom (prev + c.weight) cs

/-- `t.cumulative` (length = number of centroids + 1). -/
def cumulative (cs : List Centroid) : List Rat := cumulativeFrom 0 cs

/-- `math.Max` / `math.Min` on finite values. -/
def rmax (a b : Rat) : Rat := if a ≤ b then b else a
def rmin (a b : Rat) : Rat := if a ≤ b then a else b

/-- `weightedAverageSorted`: `x := (x1*w1 + x2*w2)/(w1+w2); return max(x1, min(x, x2))`. -/
def weightedAverageSorted (x1 w1 x2 w2 : Rat) : Rat :=
  rmax x1 (rmin ((x1 * w1 + x2 * w2) / (w1 + w2)) x2)

/-- `weightedAverage`. -/
def weightedAverage (x1 w1 x2 w2 : Rat) : Rat :=
  if x1 ≤ x2 then weightedAverageSorted x1 w1 x2 w2 else weightedAverageSorted x2 w2 x1 w1

/-- `sort.Search(len(cum), func(i) bool { return cum[i] >= index })`: on a non-decreasing slice the
    binary search returns the first index whose entry is `>= index`, or the length.  (`cumulative`
    is strictly increasing for positive weights: `Lemmas.cum_strictMono`.) -/
def search (cum : List Rat) (index : Rat) : Nat := cum.findIdx (fun c => decide (index ≤ c))

def meanAt (cs : List Centroid) (i : Nat) : Rat := (cs.getD i default).mean
def weightAt (cs : List Centroid) (i : Nat) : Rat := (cs.getD i default).weight

/-- `TDigest.Quantile(q)` after `process()`.  `none` = NaN. -/
def quantile (d : Digest) (q : Rat) : Option Rat :=
  -- if q < 0 || q > 1 || t.processed.Len() == 0 { return math.NaN() }
  if q < 0 ∨ q > 1 ∨ d.cs.length = 0 then none
  -- if t.processed.Len() == 1 { return t.processed[0].Mean }
  else if d.cs.length = 1 then some (meanAt d.cs 0)
  else
    -- index := q * t.processedWeight
    let index := q * total d.cs
    -- if index <= t.processed[0].Weight/2.0 { return t.min + 2.0*index/t.processed[0].Weight*(t.processed[0].Mean-t.min) }
    if index ≤ weightAt d.cs 0 / 2 then
      some (d.min + 2 * index / weightAt d.cs 0 * (meanAt d.cs 0 - d.min))
    else
      let cum := cumulative d.cs
      let lower := search cum index
      if lower + 1 ≠ cum.length then
        -- z1 := index - t.cumulative[lower-1]; z2 := t.cumulative[lower] - index
        let z1 := index - cum.getD (lower - 1) 0
        let z2 := cum.getD lower 0 - index
        -- return weightedAverage(t.processed[lower-1].Mean, z2, t.processed[lower].Mean, z1)
        some (weightedAverage (meanAt d.cs (lower - 1)) z2 (meanAt d.cs lower) z1)
      else
        -- z1 := index - t.processedWeight - t.processed[lower-1].Weight/2.0   (as written)
        let z1 := index - total d.cs - weightAt d.cs (lower - 1) / 2
        -- z2 := (t.processed[lower-1].Weight / 2.0) - z1
        let z2 := weightAt d.cs (lower - 1) / 2 - z1
        -- return weightedAverage(t.processed[t.processed.Len()-1].Mean, z1, t.max, z2)
        some (weightedAverage (meanAt d.cs (d.cs.length - 1)) z1 d.max z2)

/-- means sorted non-decreasing (what `sort.Sort(&t.unprocessed)` + merging neighbours leaves). -/
def sortedMeans : List Centroid → Bool
  | a :: b :: r => decide (a.mean ≤ b.mean) && sortedMeans (b :: r)
  | _ => true

/-- Well-formedness of a processed digest, decidable (the driver evaluates it on every dump):
    weights positive, means non-decreasing, `min ≤` first mean, last mean `≤ max`. -/
def wf (d : Digest) : Bool :=
  d.cs.all (fun c => decide (0 < c.weight)) && sortedMeans d.cs &&
  (match d.cs.head? with | some c => decide (d.min ≤ c.mean) | none => true) &&
  (match d.cs.getLast? with | some c => decide (c.mean ≤ d.max) | none => true)

end Grip.C19.Digest
