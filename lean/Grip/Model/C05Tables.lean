/-
  Grip.Model.C05Tables — the *shape* of the tables that tools/extract/c05_auth.go regenerates
  into GripGen/AuthTables.lean from accounts/*.go, gripql/gripql_grpc.pb.go, gripql/gripql.pb.go,
  gripql/gripql.pb.dgw.go and server/server.go.  Core Lean only (linked into gripdriver).

  The two interceptors of accounts/util.go are straight-line code with early exits; the
  translator renders each path as a list of `Stmt`.  Grip.Model.C05 interprets such lists.
-/
namespace Grip.C05

/-- accounts.Operation (the constant's identifier; `other` = an identifier the translator does not know). -/
inductive Op where
  | query | write | read | exec | admin | queryRepeat
  | other (name : String)
  deriving DecidableEq, Repr, Inhabited

def Op.wire : Op → String
  | .query => "query" | .write => "write" | .read => "read" | .exec => "exec"
  | .admin => "admin" | .queryRepeat => "query_repeat" | .other n => "other:" ++ n

/-- What grpc's ServiceDesc says about a method. -/
inductive Kind where
  | unary | serverStream | clientStream | bidi
  deriving DecidableEq, Repr, Inhabited

/-- One method of one service descriptor (`X_ServiceDesc` in gripql_grpc.pb.go). -/
structure MethodDesc where
  service : String          -- "gripql.Query"
  name : String             -- "GetVertex"
  full : String             -- "/gripql.Query/GetVertex" (how grpc names it in *ServerInfo.FullMethod)
  kind : Kind
  reqType : String          -- message type the generated handler decodes ("ElementID"); element type for client streams
  client : String           -- the service's direct client type ("QueryDirectClient": `Query` of Query_ServiceDesc)
  handler : String          -- the descriptor's Handler ("_Query_GetVertex_Handler")
  deriving DecidableEq, Repr, Inhabited

/-- Where an interceptor takes the graph name from. -/
inductive GraphExpr where
  | var                                   -- the variable set by getUnaryRequestGraph
  | field (ty : String) (field : String)  -- <request of message type ty>.<field>
  | const (g : String)                    -- a string literal ("*")
  | opaque (src : String)
  deriving DecidableEq, Repr, Inhabited

inductive OpExpr where
  | var                 -- the variable set by the MethodMap lookup
  | lit (op : Op)
  deriving DecidableEq, Repr, Inhabited

/-- What the wrapped handler is given as its stream / request. -/
inductive HandlerArg where
  | raw          -- the incoming request / stream unchanged
  | wrapped      -- the StreamOutWrapper that replays the request read for the check
  | bulkFilter   -- &BulkWriteFilter{ss, user, access}
  | opaque (src : String)
  deriving DecidableEq, Repr, Inhabited

/-- One recognised statement of an interceptor path.  `code` is the grpc status code of the
    early return guarding the statement ("Unauthenticated", "PermissionDenied", "Unknown"). -/
inductive Stmt where
  | validate (code : String)                          -- user, err := auth.Validate(md); if err != nil { return code }
  | validateIgnored                                    -- … result not checked
  | lookupOp (code : String)                           -- if op, ok := MethodMap[FullMethod]; ok { … }  else → return code
  | getGraph (code : String)                           -- graph, err := getUnaryRequestGraph(req, info); if err != nil { return code }
  | wrap (ty : String) (code : String)                 -- w, err := NewStreamOutWrapper[gripql.ty](ss); if err != nil { return code }
  | enforce (g : GraphExpr) (op : OpExpr) (code : String)   -- err = access.Enforce(user, g, op); if err != nil { return code }
  | enforceIgnored (g : GraphExpr) (op : OpExpr)       -- … result not checked
  | handler (arg : HandlerArg)                         -- return handler(…, arg)
  | fail (code : String)                               -- return status.Error(codes.code, …)
  | opaque (src : String)                              -- anything the translator does not recognise
  deriving DecidableEq, Repr, Inhabited

/-- One `case` of getUnaryRequestGraph. -/
structure UnaryCase where
  methods : List String
  src : GraphExpr
  deriving DecidableEq, Repr, Inhabited

/-- BulkWriteFilter.RecvMsg: which elements it hands on. -/
inductive BulkDeliver where
  | whenAllowed                -- `if err == nil { *mPtr = ge; return nil }` and nothing else delivers
  | other (src : String)
  deriving DecidableEq, Repr, Inhabited

structure BulkFilter where
  elemType : String            -- "GraphElement"
  graph : GraphExpr            -- field "GraphElement" "Graph"
  op : OpExpr                  -- lit write
  userFromFilter : Bool        -- first Enforce argument is bw.User
  deliver : BulkDeliver
  deriving DecidableEq, Repr, Inhabited

/-- One method shim of a direct (in-process gateway) client in gripql.pb.dgw.go. -/
structure GwMethod where
  client : String              -- "QueryDirectClient"
  name : String                -- "GetVertex"
  full : String                -- FullMethod literal put into the *ServerInfo
  viaUnary : Bool              -- calls shim.unaryServerInt
  viaStream : Bool             -- calls shim.streamServerInt
  isServerStream : Bool
  isClientStream : Bool
  handler : String             -- 4th argument of the stream interceptor call ("_Query_Traversal_Handler"), "" for unary
  dropsError : Bool            -- `go shim.streamServerInt(…)`: the interceptor's error return is discarded
  deriving DecidableEq, Repr, Inhabited

/-- One `gripql.New<Svc>DirectClient(impl, opts…)` call in server.Serve. -/
structure DirectClient where
  ctor : String                -- "NewQueryDirectClient"
  impl : String                -- source text of the server argument
  unaryOpt : Option String     -- x of gripql.DirectUnaryInterceptor(x)
  streamOpt : Option String    -- y of gripql.DirectStreamInterceptor(y)
  deriving DecidableEq, Repr, Inhabited

/-- What server.Serve wires together. -/
structure ServeWiring where
  authUnaryVar : String        -- variable assigned from `….Accounts.UnaryInterceptor()`
  authStreamVar : String
  unaryChain : List String     -- arguments of grpc_middleware.ChainUnaryServer, in order
  streamChain : List String
  unaryOptVar : String         -- variable holding grpc.UnaryInterceptor(ChainUnaryServer(…))
  streamOptVar : String
  newServerCalls : Nat         -- number of grpc.NewServer calls in Serve
  newServerArgs : List String  -- arguments of grpc.NewServer
  registered : List (String × String)   -- (service "Query", registrar argument) of gripql.Register<Svc>Server
  directClients : List DirectClient
  deriving DecidableEq, Repr, Inhabited

structure Tables where
  methods : List MethodDesc                    -- every method of every ServiceDesc
  methodMap : List (String × Op)               -- accounts.MethodMap, source order
  msgHasGraph : List (String × Bool)           -- message type ↦ has a `Graph string` field (gripql.pb.go)
  unaryProg : List Stmt                        -- unaryAuthInterceptor
  unaryCases : List UnaryCase                  -- getUnaryRequestGraph
  unaryCasesDefaultFails : Bool                -- falls through to `return "", fmt.Errorf(…)`
  streamPrefix : List Stmt                     -- streamAuthInterceptor before the IsServerStream test
  serverArms : List (String × List Stmt)       -- switch info.FullMethod inside `if info.IsServerStream`
  serverDefault : List Stmt                    -- after the switch
  clientArms : List (String × List Stmt)       -- inside `else if info.IsClientStream`
  clientDefault : List Stmt
  neitherDefault : List Stmt                   -- after the if/else
  bulk : BulkFilter
  gateway : List GwMethod
  serve : ServeWiring
  unrecognised : List String                   -- shapes the translator could not read
  deriving Repr, Inhabited

end Grip.C05
