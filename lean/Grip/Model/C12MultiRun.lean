/-
  Grip.Model.C12MultiRun — runs (schedules) and weak fairness for the several-jumps model
  Grip.Model.C12Multi; same notions as Grip.Model.C12Run.  The goroutines are: main-line stage `i`
  (`.stage i`), the two goroutines of the queue of the jump at position `j` (`.queue j 0`,
  `.queue j 1`), and the mark (`.mark`).

  Core Lean only.
-/
import Grip.Model.C12Multi

namespace Grip.C12.Multi

variable {T : Type}

structure Run (sys : List (MStage T)) (inp0 : List T) where
  σ : Nat → State T
  lab : Nat → Option Label
  start : σ 0 = init inp0
  next : ∀ k, match lab k with
    | some l => Step sys l (σ k) (σ (k + 1))
    | none => σ (k + 1) = σ k

/-- The goroutine with label `l` can take a step in `s`. -/
def Enabled (sys : List (MStage T)) (l : Label) (s : State T) : Prop := ∃ s', Step sys l s s'

/-- Weak fairness of goroutine `l`: enabled at every position from `K` on ⟹ scheduled at some
    position `≥ K`. -/
def Run.WeakFair {sys : List (MStage T)} {inp0 : List T} (r : Run sys inp0) (l : Label) : Prop :=
  ∀ K, (∀ k, K ≤ k → Enabled sys l (r.σ k)) → ∃ k, K ≤ k ∧ r.lab k = some l

/-- Every goroutine of the cycle is weakly fair. -/
def Run.Fair {sys : List (MStage T)} {inp0 : List T} (r : Run sys inp0) : Prop :=
  ∀ l, r.WeakFair l

end Grip.C12.Multi
