/-
  Grip.Model.C07 — MODEL for property C07 (traversals terminate for any data volume and stop when
  cancelled).  Core Lean only.

  The engine (engine/pipeline/pipes.go `Start`) wires one goroutine per step with bounded FIFO
  channels.  Every processor has the same shape (engine/core/processors.go):

        go func() { defer close(out); for t := range in { … out <- y … } }()

  i.e. *take* one traveler from the input channel, compute finitely many results, *emit* them one
  by one into the output channel (blocking while it is full), and when the input is closed and
  empty, *close* the output.  The two-goroutine lookup processors and the kvgraph `Get*Channel`
  functions are chains of exactly such stages around smaller channels.  This file models

    §1  a chain of such stages with arbitrary capacities and arbitrary finite fan-out as a
        transition system (`Cell`, `Step`), with the measure `mu` (remaining work);
    §2  the `both` stage as it was written (`WStep`: every input item is pushed into both branch
        chains before any branch output is drained) on branches of one-to-one stages, with
        counters (`FCell`);
    §3  the `both` stage as repaired (`BStep`: a feeder goroutine, both branch outputs drained
        while feeding) on branches that are arbitrary chains of §1 — the same system also models
        `aggregate` (one feeder, one consuming chain per aggregation);
    §4  the histogram bucket loop (`HStep`);
    §5  a scanning source with cancellation (`SrcStep`): kvgraph.GetVertexList / GetEdgeList;
    §6  the exit paths of pipeline.Run / Resume (`runPaths`);
    §7  the executable predictions the driver answers with: capacities and thresholds computed from
        the regenerated table GripGen.BuffersC07, the row count of a traversal over a graph family
        (functional semantics), the outcome (`done rows | timeout | err`).

  What is NOT modelled: the Go scheduler (any enabled goroutine may move; theorems quantify over all
  interleavings, fairness is not needed because every step decreases the measure), real time, the
  contents of travelers, cycles (mark/jump is C12).
-/
import GripGen.BuffersC07

namespace Grip.C07

/-! ## generic: reachability -/

inductive Reach {σ : Type} (R : σ → σ → Prop) : σ → σ → Prop
  | refl (s : σ) : Reach R s s
  | step {s t u : σ} : Reach R s t → R t u → Reach R s u

def sumMap {α : Type} (g : α → Nat) : List α → Nat
  | [] => 0
  | x :: xs => g x + sumMap g xs

/-! ## §1 chain of stages -/

/-- One stage together with the channel it reads from.
    `cap`/`buf`: capacity and content of its input channel; `f`: what it emits per input item;
    `hand`: results computed for the current item and not yet delivered; `inClosed`: the input
    channel has been closed by the producer; `done`: this goroutine has ended (closed its output). -/
structure Cell (α : Type) where
  cap : Nat
  f : α → List α
  buf : List α
  hand : List α
  inClosed : Bool
  done : Bool

/-- The last cell of the list delivers to the consumer of the chain (the client reading the result
    stream, which is assumed to keep reading — server.Traversal ranges over the channel to its end). -/
inductive Step {α : Type} : List (Cell α) → List (Cell α) → Prop
  | take {c : Cell α} {x : α} {xs : List α} {r : List (Cell α)} :
      c.hand = [] → c.buf = x :: xs → c.done = false →
      Step (c :: r) ({ c with buf := xs, hand := c.f x } :: r)
  | emit {c d : Cell α} {y : α} {ys : List α} {r : List (Cell α)} :
      c.hand = y :: ys → d.buf.length < d.cap →
      Step (c :: d :: r) ({ c with hand := ys } :: { d with buf := d.buf ++ [y] } :: r)
  | emitLast {c : Cell α} {y : α} {ys : List α} :
      c.hand = y :: ys → Step [c] [{ c with hand := ys }]
  | close {c d : Cell α} {r : List (Cell α)} :
      c.hand = [] → c.buf = [] → c.inClosed = true → c.done = false →
      Step (c :: d :: r) ({ c with done := true } :: { d with inClosed := true } :: r)
  | closeLast {c : Cell α} :
      c.hand = [] → c.buf = [] → c.inClosed = true → c.done = false →
      Step [c] [{ c with done := true }]
  | tail {c : Cell α} {r r' : List (Cell α)} : Step r r' → Step (c :: r) (c :: r')

def AllDone {α : Type} (cs : List (Cell α)) : Prop := ∀ c ∈ cs, c.done = true

/-- steps an item waiting in front of the stages `fs` still causes -/
def wItem {α : Type} : List (α → List α) → α → Nat
  | [], _ => 0
  | f :: fs, x => 1 + sumMap (fun y => 1 + wItem fs y) (f x)

def wHand {α : Type} (fs : List (α → List α)) (ys : List α) : Nat :=
  sumMap (fun y => 1 + wItem fs y) ys

def fsOf {α : Type} (cs : List (Cell α)) : List (α → List α) := cs.map (·.f)

/-- remaining work of a chain state: strictly decreases with every step -/
def mu {α : Type} : List (Cell α) → Nat
  | [] => 0
  | c :: r => sumMap (wItem (c.f :: fsOf r)) c.buf + wHand (fsOf r) c.hand
              + (if c.done then 0 else 1) + mu r

def WFc {α : Type} (c : Cell α) : Prop :=
  0 < c.cap ∧ (c.done = true → c.inClosed = true ∧ c.buf = [] ∧ c.hand = [])

/-- producer/consumer linkage: a cell's input is closed exactly when its producer has ended -/
def Linked {α : Type} : List (Cell α) → Prop
  | [] => True
  | [c] => WFc c
  | c :: d :: r => WFc c ∧ d.inClosed = c.done ∧ Linked (d :: r)

/-- a chain at start: `input` waits in the first channel (already closed), everything else empty -/
def initChain {α : Type} (stages : List (Nat × (α → List α))) (input : List α) : List (Cell α) :=
  match stages with
  | [] => []
  | (cap, f) :: rest =>
    { cap := cap, f := f, buf := input, hand := [], inClosed := true, done := false } ::
      rest.map (fun s => { cap := s.1, f := s.2, buf := [], hand := [], inClosed := false, done := false })

/-! ## §2 `both` as it was written, on branches of one-to-one stages -/

/-- A stage of a one-to-one branch with the channel it reads: `buf` items waiting, `hand`: the stage
    holds one item it has taken and not yet delivered.  The last cell of a branch is the branch's
    output channel (`chanOut`), which nobody reads while the input is being forwarded. -/
structure FCell where
  cap : Nat
  buf : Nat
  hand : Bool

inductive FStep : List FCell → List FCell → Prop
  | take {c d : FCell} {r : List FCell} : c.hand = false → 0 < c.buf →
      FStep (c :: d :: r) ({ c with buf := c.buf - 1, hand := true } :: d :: r)
  | emit {c d : FCell} {r : List FCell} : c.hand = true → d.buf < d.cap →
      FStep (c :: d :: r) ({ c with hand := false } :: { d with buf := d.buf + 1 } :: r)
  | tail {c : FCell} {r r' : List FCell} : FStep r r' → FStep (c :: r) (c :: r')

/-- items a branch holds -/
def held : List FCell → Nat
  | [] => 0
  | c :: r => c.buf + (if c.hand then 1 else 0) + held r

/-- what a branch can hold when nothing drains it: every channel full and every stage but the
    (absent) reader of the last channel holding one item -/
def absorb : List FCell → Nat
  | [] => 0
  | [c] => c.cap
  | c :: d :: r => c.cap + 1 + absorb (d :: r)

/-- The forwarding loop of both.Process as it was written:
    `for t := range in { chanIn[0] <- t; chanIn[1] <- t }` with `todo` items still to forward;
    `turn = true`: the current item has been sent to branch 0 and not yet to branch 1. -/
structure WState where
  todo : Nat
  turn : Bool
  b0 : List FCell
  b1 : List FCell

inductive WStep : WState → WState → Prop
  | push0 {s : WState} {c : FCell} {r : List FCell} :
      0 < s.todo → s.turn = false → s.b0 = c :: r → c.buf < c.cap →
      WStep s { s with turn := true, b0 := { c with buf := c.buf + 1 } :: r }
  | push1 {s : WState} {c : FCell} {r : List FCell} :
      0 < s.todo → s.turn = true → s.b1 = c :: r → c.buf < c.cap →
      WStep s { s with todo := s.todo - 1, turn := false, b1 := { c with buf := c.buf + 1 } :: r }
  | in0 {s : WState} {b : List FCell} : FStep s.b0 b → WStep s { s with b0 := b }
  | in1 {s : WState} {b : List FCell} : FStep s.b1 b → WStep s { s with b1 := b }

/-- the loop still has input to forward and no goroutine can move: the traversal hangs -/
def WDeadlocked (s : WState) : Prop := 0 < s.todo ∧ ∀ s', ¬ WStep s s'

def emptyBranch (caps : List Nat) : List FCell := caps.map (fun c => { cap := c, buf := 0, hand := false })

def wInit (n : Nat) (caps0 caps1 : List Nat) : WState :=
  { todo := n, turn := false, b0 := emptyBranch caps0, b1 := emptyBranch caps1 }

/-- closed form of `absorb (emptyBranch caps)` -/
def absorbCaps (caps : List Nat) : Nat := caps.foldl (· + ·) 0 + (caps.length - 1)

/-! ## §3 `both` as repaired (and `aggregate`): a feeder and two chains drained while feeding -/

structure BState (α : Type) where
  todo : List α
  turn : Bool
  fedClosed : Bool
  b0 : List (Cell α)
  b1 : List (Cell α)

def headAppend {α : Type} (t : α) : List (Cell α) → List (Cell α)
  | [] => []
  | c :: r => { c with buf := c.buf ++ [t] } :: r

def headClose {α : Type} : List (Cell α) → List (Cell α)
  | [] => []
  | c :: r => { c with inClosed := true } :: r

def headRoom {α : Type} : List (Cell α) → Prop
  | [] => False
  | c :: _ => c.buf.length < c.cap

inductive BStep {α : Type} : BState α → BState α → Prop
  | push0 {s : BState α} {t : α} {ts : List α} :
      s.todo = t :: ts → s.turn = false → headRoom s.b0 →
      BStep s { s with turn := true, b0 := headAppend t s.b0 }
  | push1 {s : BState α} {t : α} {ts : List α} :
      s.todo = t :: ts → s.turn = true → headRoom s.b1 →
      BStep s { s with todo := ts, turn := false, b1 := headAppend t s.b1 }
  | closeFeed {s : BState α} :
      s.todo = [] → s.fedClosed = false →
      BStep s { s with fedClosed := true, b0 := headClose s.b0, b1 := headClose s.b1 }
  | in0 {s : BState α} {b : List (Cell α)} : Step s.b0 b → BStep s { s with b0 := b }
  | in1 {s : BState α} {b : List (Cell α)} : Step s.b1 b → BStep s { s with b1 := b }

def BFinal {α : Type} (s : BState α) : Prop := s.fedClosed = true ∧ AllDone s.b0 ∧ AllDone s.b1

/-- work left in the feeder: an item still to be sent to both branches costs both pushes and what
    it causes in each branch; the item already sent to branch 0 (`turn`) only the second half -/
def feedW {α : Type} (w0 w1 : α → Nat) : Bool → List α → Nat
  | true, t :: ts => 1 + w1 t + sumMap (fun x => 2 + w0 x + w1 x) ts
  | true, [] => 0
  | false, ts => sumMap (fun x => 2 + w0 x + w1 x) ts

def bMu {α : Type} (s : BState α) : Nat :=
  feedW (wItem (fsOf s.b0)) (wItem (fsOf s.b1)) s.turn s.todo
  + (if s.fedClosed then 0 else 1) + mu s.b0 + mu s.b1

def headInClosed {α : Type} : List (Cell α) → Bool
  | [] => true
  | c :: _ => c.inClosed

def BInv {α : Type} (s : BState α) : Prop :=
  Linked s.b0 ∧ Linked s.b1 ∧ s.b0 ≠ [] ∧ s.b1 ≠ [] ∧
  headInClosed s.b0 = s.fedClosed ∧ headInClosed s.b1 = s.fedClosed ∧
  (s.turn = true → s.todo ≠ []) ∧ (s.fedClosed = true → s.todo = [])

def bInit {α : Type} (input : List α) (st0 st1 : List (Nat × (α → List α))) : BState α :=
  let mk := fun (st : List (Nat × (α → List α))) =>
    st.map (fun s => ({ cap := s.1, f := s.2, buf := [], hand := [], inClosed := false, done := false } : Cell α))
  { todo := input, turn := false, fedClosed := false, b0 := mk st0, b1 := mk st1 }

/-! ## §4 the histogram bucket loop
    `for bucket := floor(min/i)*i; bucket <= max; bucket += i { … out <- … }` -/

/-- The loop as it was written: `add b` is `bucket + i` as the machine computes it.  In exact
    arithmetic `add b = b + i`; in float64 `add b = b` as soon as `i` is below half the spacing of
    floats around `b` (for b ≥ 2^53 already i = 1), and the loop never ends. -/
def HStepU (add : Nat → Nat) (max b b' : Nat) : Prop := b ≤ max ∧ b' = add b

/-- The loop as repaired: `if bucket+i <= bucket { break }` — another round only if the bucket grew. -/
def HStepG (add : Nat → Nat) (max b b' : Nat) : Prop := b ≤ max ∧ b' = add b ∧ b < add b

/-- number of buckets emitted for values between lo and hi (lo ≤ hi) with interval i > 0 -/
def histBuckets (i lo hi : Nat) : Nat := hi / i - lo / i + 1

/-! ## §5 a scanning source with cancellation
    kvgraph.GetVertexList / GetEdgeList: `for it.Seek…; it.Valid…; it.Next() { select { case
    <-ctx.Done(): return nil; default: }; …; o <- v }` -/

structure SrcState where
  pos : Nat            -- keys scanned so far
  total : Nat          -- keys in the store
  pending : Bool       -- passed the ctx check for key `pos`, about to send it
  cancelled : Bool
  emitted : Nat
  stopped : Bool       -- returned (output channel closed by the deferred close)

inductive SrcStep : SrcState → SrcState → Prop
  | check {s : SrcState} : s.stopped = false → s.pending = false → s.pos < s.total → s.cancelled = false →
      SrcStep s { s with pending := true }
  | stop {s : SrcState} : s.stopped = false → s.pending = false → s.pos < s.total → s.cancelled = true →
      SrcStep s { s with stopped := true }
  | finish {s : SrcState} : s.stopped = false → s.pending = false → ¬ s.pos < s.total →
      SrcStep s { s with stopped := true }
  | send {s : SrcState} : s.stopped = false → s.pending = true → s.pos < s.total →
      SrcStep s { s with pending := false, pos := s.pos + 1, emitted := s.emitted + 1 }
  | cancel {s : SrcState} : s.cancelled = false → SrcStep s { s with cancelled := true }

def srcMu (s : SrcState) : Nat :=
  (if s.stopped then 0 else 1) + 2 * (s.total - s.pos) + (if s.pending then 0 else 1) + (if s.cancelled then 0 else 1)

def srcInit (total : Nat) : SrcState :=
  { pos := 0, total := total, pending := false, cancelled := false, emitted := 0, stopped := false }

/-- one-to-one branch weights for the measure of the as-written both (§2) -/
def wbuf : Nat → Nat → Nat
  | 0, _ => 0
  | k + 1, l => 2 * l + wbuf k l

def fw : List FCell → Nat
  | [] => 0
  | c :: r => wbuf c.buf r.length + (if c.hand then 2 * r.length - 1 else 0) + fw r

def wMu (s : WState) : Nat :=
  wbuf s.todo (s.b0.length + s.b1.length) + (if s.turn then 0 else 2 * s.b0.length) + fw s.b0 + fw s.b1

/-! ## §6 exit paths of pipeline.Run / Resume -/

inductive RunEv where
  | drained | leftLoopEarly | cleanup | closeResults
  deriving DecidableEq, Repr

/-- Every path through the goroutine of Run/Resume, given where `man.Cleanup()` stands
    ("after-loop" | "deferred" | "missing"), whether the result loop can be left early, and whether
    `close(resch)` is deferred. -/
def runPaths (loopExits : Bool) (cleanup : String) (closeDeferred : Bool) : List (List RunEv) :=
  let tailOf := fun (early : Bool) =>
    (if cleanup == "deferred" then [RunEv.cleanup]
     else if cleanup == "after-loop" && !early then [RunEv.cleanup] else [])
    ++ (if closeDeferred || !early then [RunEv.closeResults] else [])
  [RunEv.drained :: tailOf false] ++ (if loopExits then [RunEv.leftLoopEarly :: tailOf true] else [])

def pathCleansUp (p : List RunEv) : Bool := p.contains RunEv.cleanup && p.contains RunEv.closeResults

/-! ## §7 executable predictions (driver) -/

namespace Gen
open GripGen.BuffersC07

def lookupOf (proc : String) : Option (Nat × String) :=
  (lookups.find? (fun l => l.1 == proc)).map (fun l => l.2)

def backendOf (name : String) : List Nat :=
  ((backendChans.find? (fun b => b.1 == name)).map (·.2)).getD []

/-- channels a traveler crosses inside one branch of both: chanIn, queryChan, the backend's
    channels, chanOut -/
def branchCaps (proc : String) : List Nat :=
  match lookupOf proc with
  | some (q, be) => [bothChanIn, q] ++ backendOf be ++ [bothChanOut]
  | none => []

def branchAbsorb (proc : String) : Nat := absorbCaps (branchCaps proc)

def bothConcurrent : Bool := bothFeedConcurrent && bothDrainConcurrent

def allCaps : List Nat :=
  [runBufsize, runResultChan, resumeBufsize, resumeResultChan, bothChanIn, bothChanOut, aggBuffer]
  ++ lookups.map (fun l => l.2.1) ++ backendChans.flatMap (·.2) ++ dualProcessorChans ++ lookupBatcherChans

end Gen

/-- abstract graph families; items are vertices or edges identified by an index -/
inductive Fam where
  | ring | star | iso | huge
  | mixed   -- a star whose first leaf carries the text "abc" in the numeric field x
  deriving DecidableEq, Repr

structure Item where
  isEdge : Bool
  i : Nat
  deriving DecidableEq, Repr

def vtx (i : Nat) : Item := ⟨false, i⟩
def edg (i : Nat) : Item := ⟨true, i⟩

def allV (fam : Fam) (n : Nat) : List Item :=
  match fam with
  | .ring => (List.range n).map vtx
  | .star | .mixed => (List.range (n + 1)).map vtx
  | .iso => (List.range n).map vtx
  | .huge => (List.range n).map vtx

def allE (fam : Fam) (n : Nat) : List Item :=
  match fam with
  | .ring => (List.range n).map edg
  | .star | .mixed => (List.range n).map (fun i => edg (i + 1))
  | _ => []

/-- ring: e_i : i → (i+1) mod n.  star: e_i : 0 → i (1 ≤ i ≤ n). -/
def outEdges (fam : Fam) (n : Nat) (x : Item) : List Item :=
  if x.isEdge then [] else
  match fam with
  | .ring => if x.i < n then [edg x.i] else []
  | .star | .mixed => if x.i == 0 then (List.range n).map (fun i => edg (i + 1)) else []
  | _ => []

def inEdges (fam : Fam) (n : Nat) (x : Item) : List Item :=
  if x.isEdge then [] else
  match fam with
  | .ring => if x.i < n then [edg ((x.i + n - 1) % n)] else []
  | .star | .mixed => if x.i == 0 then [] else [edg x.i]
  | _ => []

def edgeTo (fam : Fam) (n : Nat) (e : Item) : Item :=
  match fam with
  | .ring => vtx ((e.i + 1) % n)
  | _ => vtx e.i

def edgeFrom (fam : Fam) (_n : Nat) (e : Item) : Item :=
  match fam with
  | .ring => vtx e.i
  | _ => vtx 0

inductive StepK where
  | V | E | out | in_ | both | outE | inE | bothE | as_ | select | limit (k : Nat) | skip (k : Nat)
  | range (a b : Nat) | count | distinct | aggcount | aggterm | agghist (i : Nat) | agg2
  | aggpct   -- percentile aggregation on x, one percent: one result row whatever the values are
  | aggnone  -- an aggregation without a type: refused by the compiler (its channel would have no reader)
  | loopOut  -- mark(a).out().jump(a, no condition, emit): every out-neighbour re-enters the loop
  deriving Repr, DecidableEq

def stepOut (fam : Fam) (n : Nat) (x : Item) : List Item :=
  if x.isEdge then [edgeTo fam n x] else (outEdges fam n x).map (edgeTo fam n)
def stepIn (fam : Fam) (n : Nat) (x : Item) : List Item :=
  if x.isEdge then [edgeFrom fam n x] else (inEdges fam n x).map (edgeFrom fam n)

/-- number of distinct values of `i mod 7` among the items -/
def termCount (xs : List Item) : Nat := ((xs.map (fun x => x.i % 7)).eraseDups).length

/-- the numeric field `x` of an element: its index, except in the family `huge` (10^16, beyond 2^53) -/
def xOf (fam : Fam) (x : Item) : Nat := if fam == .huge then 10 ^ 16 else x.i

def minI (fam : Fam) (xs : List Item) : Nat := xs.foldl (fun m x => min m (xOf fam x)) (xOf fam (xs.headD ⟨false, 0⟩))
def maxI (fam : Fam) (xs : List Item) : Nat := xs.foldl (fun m x => max m (xOf fam x)) 0

/-- float64: does `bucket + i` fail to advance for the values of this family?  (10^16 + 1 = 10^16) -/
def histStalls (fam : Fam) (i : Nat) : Bool := fam == .huge && i < 2

/-- dedupe items (distinct on _gid) -/
def dedup (xs : List Item) : List Item := xs.eraseDups

/-- `mark(a).out().jump(a, emit)`: the rows of every pass are emitted and make the next pass, until
    a pass yields nothing (`fuel` passes at most: the graph families without cycles — star, mixed,
    iso, huge — need two). -/
def loopRows (fam : Fam) (n : Nat) (xs : List Item) : Nat → List Item
  | 0 => []
  | fuel + 1 =>
    let ys := xs.flatMap (stepOut fam n)
    if ys.isEmpty then [] else ys ++ loopRows fam n ys fuel

/-- Functional semantics of one step on the list of travelers (only what the row count needs).
    A row that is not a graph element (count, aggregation results) is represented by `vtx 0`. -/
def applyStep (fam : Fam) (n : Nat) (xs : List Item) : StepK → List Item
  | .V => allV fam n
  | .E => allE fam n
  | .out => xs.flatMap (stepOut fam n)
  | .in_ => xs.flatMap (stepIn fam n)
  | .both => xs.flatMap (stepIn fam n) ++ xs.flatMap (stepOut fam n)
  | .outE => xs.flatMap (outEdges fam n)
  | .inE => xs.flatMap (inEdges fam n)
  | .bothE => xs.flatMap (inEdges fam n) ++ xs.flatMap (outEdges fam n)
  | .as_ => xs
  | .select => xs
  | .limit k => xs.take k
  | .skip k => xs.drop k
  | .range a b => (xs.drop a).take (b - a)
  | .count => [vtx 0]
  | .distinct => dedup xs
  | .aggcount => [vtx 0]
  | .aggterm => (List.range (termCount xs)).map vtx
  | .agghist i =>
    -- interval 0: floor(min/0)*0 is NaN, `NaN <= max` is false, the loop body never runs
    if xs.isEmpty || i == 0 then []
    else if histStalls fam i then [vtx 0]     -- one bucket, then the guard leaves the loop
    else (List.range (histBuckets i (minI fam xs) (maxI fam xs))).map vtx
  | .agg2 => vtx 0 :: (List.range (termCount xs)).map vtx
  | .aggpct => [vtx 0]
  | .aggnone => []
  | .loopOut => loopRows fam n xs 3

inductive Outcome where
  | done (rows : Nat) | timeout | err | skip
  deriving Repr, DecidableEq

/-- demand on the branch of `both` whose lookup processor is `proc`, as written: the inputs must all
    fit while nothing is drained.  `degs` = results per input in that branch, in input order.
    One-to-one inputs (`degs` all 1): exactly `n ≤ branchAbsorb`; the general form counts how many
    inputs the expanding stage can take before its results no longer fit downstream. -/
def branchBlocks (caps : List Nat) (expandAt : Nat) (degs : List Nat) : Bool :=
  -- channels up to and including the expanding stage's input hold inputs; the rest hold results
  let up := (caps.take expandAt).foldl (· + ·) 0 + (expandAt - 1)
  let down := (caps.drop expandAt).foldl (· + ·) 0 + ((caps.length - expandAt) - 1)
  -- j = inputs the expanding stage has taken when it gets stuck (none: never stuck)
  let rec go (ds : List Nat) (acc j : Nat) : Option Nat :=
    match ds with
    | [] => none
    | d :: rest => if acc + d > down then some (j + 1) else go rest (acc + d) (j + 1)
  match go degs 0 0 with
  | none => false
  | some j => degs.length > up + j

/-- which lookup processors a `both`/`bothE` uses for the current element type -/
def bothProcs (edgeItems : Bool) (toEdge : Bool) : String × String :=
  if edgeItems then ("LookupEdgeAdjIn", "LookupEdgeAdjOut")
  else if toEdge then ("InE", "OutE") else ("LookupVertexAdjIn", "LookupVertexAdjOut")

def isEdgeList (xs : List Item) (dflt : Bool) : Bool :=
  match xs with
  | [] => dflt
  | x :: _ => x.isEdge

/-- Does the both stage, as written, hang on input `xs`? -/
def bothHangs (fam : Fam) (n : Nat) (xs : List Item) (toEdge : Bool) (edgeItems : Bool) : Bool :=
  let (pIn, pOut) := bothProcs edgeItems toEdge
  let fin := fun x => if toEdge then (inEdges fam n x).length else (stepIn fam n x).length
  let fout := fun x => if toEdge then (outEdges fam n x).length else (stepOut fam n x).length
  branchBlocks (Gen.branchCaps pIn) 2 (xs.map fin) || branchBlocks (Gen.branchCaps pOut) 2 (xs.map fout)

/-- type of the travelers after a step: true = edges -/
def typeAfter (cur : Bool) : StepK → Bool
  | .V => false | .E => true | .out => false | .in_ => false | .both => false
  | .outE => true | .inE => true | .bothE => true
  | .loopOut => false
  | _ => cur

/-- MODEL outcome of running `steps` with the engine as deployed (GripGen.BuffersC07 says whether
    both drains while feeding and whether the histogram loop has the advance guard); the SPEC
    outcome is the same function with both flags true (always `done`). -/
def runModel (concurrentBoth histGuard : Bool) (fam : Fam) (n : Nat) (steps : List StepK) : Outcome :=
  let rec go (ss : List StepK) (xs : List Item) (cur : Bool) : Outcome :=
    match ss with
    | [] => .done xs.length
    | s :: rest =>
      match s with
      | .agghist i =>
        if xs.isEmpty then .skip   -- the real code indexes an empty slice (a crash: property C06)
        else if i != 0 && histStalls fam i && !histGuard then .timeout
        else go rest (applyStep fam n xs s) (typeAfter cur s)
      | .aggnone => .err   -- compile error, whatever the volume
      | .loopOut =>
        -- on a ring the unconditional loop never ends by its own definition: not generated
        if fam == .ring then .skip else go rest (applyStep fam n xs s) (typeAfter cur s)
      | .both => if !concurrentBoth && bothHangs fam n xs false cur then .timeout
                 else go rest (applyStep fam n xs s) (typeAfter cur s)
      | .bothE => if !concurrentBoth && bothHangs fam n xs true cur then .timeout
                  else go rest (applyStep fam n xs s) (typeAfter cur s)
      | _ => go rest (applyStep fam n xs s) (typeAfter cur s)
  go steps [] false

/-- in-flight capacity of a linear chain: all channels between the source's scan loop and the client
    plus one item in the hand of every goroutine on the way -/
def pathSlack (steps : List StepK) : Option Nat :=
  let rec go (ss : List StepK) (first : Bool) (cur : Bool) (acc : Nat) : Option Nat :=
    match ss with
    | [] => some (acc + 1 + GripGen.BuffersC07.runResultChan)
    | s :: rest =>
      let stage : Option Nat :=
        match s with
        | .V => if first then some ((Gen.backendOf "GetVertexList").foldl (· + ·) 0 + 1) else none
        | .E => if first then some ((Gen.backendOf "GetEdgeList").foldl (· + ·) 0 + 1) else none
        | .out | .in_ | .outE | .inE =>
          let proc := match s, cur with
            | .out, false => "LookupVertexAdjOut" | .out, true => "LookupEdgeAdjOut"
            | .in_, false => "LookupVertexAdjIn" | .in_, true => "LookupEdgeAdjIn"
            | .outE, _ => "OutE" | _, _ => "InE"
          match Gen.lookupOf proc with
          | some (q, be) => some (q + 1 + (Gen.backendOf be).foldl (· + ·) 0 + (Gen.backendOf be).length)
          | none => none
        | .both | .bothE | .count | .aggcount | .aggterm | .agghist _ | .agg2 | .aggpct | .aggnone | .loopOut => none
        | _ => some 1
      match stage with
      | none => none
      | some k => go rest false (typeAfter cur s) (acc + k + GripGen.BuffersC07.runBufsize)
  go steps true false 0

end Grip.C07
