/-
  Grip.Model.C18 — MODEL of the bulk-load path.

  * `server.BulkAdd` (server/api.go): the receive loop.  It keeps at most one *element stream*
    open (the channel consumed by `graph.BulkAdd` of the currently selected graph), switches it
    when `element.Graph` changes, validates every element, counts, forwards the valid ones, and at
    the end closes the stream and reports `BulkEditResult{InsertCount, ErrorCount}`.
    `kvgraph.BulkAdd` (one `BulkWrite` over everything received on the channel) is C03's
    `step s (.bulk g xs)`; it takes effect when the channel is closed (`flush`).
  * `accounts.BulkWriteFilter.RecvMsg` (accounts/bulk_write_filter.go): elements whose graph the
    caller may not write are dropped before `server.BulkAdd` sees them (`authFilter`).
  * `util.StreamBatch` (util/insert.go): the batching loop used by the mongo/psql/elastic back ends.

  Randomness: `util.UUID()` (an edge without id gets a fresh one) is an oracle value carried by
  the item (`Item.uuid`): "the id the server draws while it handles this item".
-/
import Grip.Model.C03

namespace Grip.C18
open Grip.C03

/-- gripql.GraphElement as received: target graph and a vertex or an edge (or neither). -/
structure Item where
  g : String
  x : Option ElemIn
  uuid : String := ""
  deriving Repr, Inhabited

/-- server/metagraphs.go:isSchema -/
def isSchema (g : String) : Bool := g.endsWith "__schema__"

def elemValid : ElemIn → Bool
  | .v x => validVertex x
  | .e x => validEdge x

/-- `if element.Edge.Gid == "" { element.Edge.Gid = util.UUID() }` -/
def fillId (uuid : String) : ElemIn → ElemIn
  | .v x => .v x
  | .e x => if x.gid = "" then .e { x with gid := uuid } else .e x

/-- State of the receive loop of server.BulkAdd. -/
structure Srv where
  st : KState
  /-- graph whose element stream is open (`graphName` while `elementStream` has a consumer) -/
  cur : Option String := none
  /-- elements sent on the open stream, in order; `graph.BulkAdd` applies them when it is closed -/
  pend : List ElemIn := []
  ins : Nat := 0
  err : Nat := 0
  deriving Repr, Inhabited

/-- `close(elementStream)`; the loader goroutine (`graph.BulkAdd`) finishes. -/
def flush (v : Srv) : Srv :=
  match v.cur with
  | none => v
  | some g => { v with st := (step v.st (.bulk g v.pend)).1, cur := none, pend := [] }

/-- The graph-switch block: nothing to do while the element addresses the selected graph;
    otherwise close the open stream, resolve the new graph (`getGraphDB`, `gdb.Graph`) and, when
    it exists, open a stream for it. -/
def select (v : Srv) (g : String) : Srv :=
  if v.cur = some g then v else
  let v := flush v
  if hasGraph v.st g then { v with cur := some g } else v

/-- validation + counting + forwarding of one element (vertex branch / edge branch). -/
def offer (v : Srv) (uuid : String) : Option ElemIn → Srv
  | none => v
  | some x =>
    let x := fillId uuid x
    if elemValid x then { v with ins := v.ins + 1, pend := v.pend ++ [x] }
    else { v with err := v.err + 1 }

/-- one iteration of the receive loop -/
def recv (v : Srv) (it : Item) : Srv :=
  if isSchema it.g then { v with err := v.err + 1 } else
  let v := select v it.g
  if v.cur = some it.g then offer v it.uuid it.x
  else { v with err := v.err + 1 }       -- graph could not be resolved

structure BulkResult where
  st : KState
  insertCount : Nat
  errorCount : Nat
  deriving Repr

/-- server.BulkAdd on a whole stream (Recv … io.EOF, final close, wg.Wait, SendAndClose). -/
def bulkAdd (s : KState) (stream : List Item) : BulkResult :=
  let v := flush (stream.foldl recv { st := s })
  ⟨v.st, v.ins, v.err⟩

/-- accounts.BulkWriteFilter: only elements of graphs the caller may write are delivered. -/
def authFilter (allowed : String → Bool) (stream : List Item) : List Item :=
  stream.filter (fun it => allowed it.g)

def bulkAddAuth (allowed : String → Bool) (s : KState) (stream : List Item) : BulkResult :=
  bulkAdd s (authFilter allowed stream)

/-! ### util.StreamBatch -/

/-- gdbi.GraphElement on the channel: graph reference and vertex/edge pointers (either may be nil). -/
structure GElem where
  g : String
  v : Option VertexIn := none
  e : Option EdgeIn := none
  uuid : String := ""
  deriving Repr, Inhabited

/-- State of the StreamBatch loop: the two open batches, the batches already handed to the two
    adder goroutines (in hand-over order), and whether `bulkErr` is non-nil. -/
structure SB where
  vb : List VertexIn := []
  eb : List EdgeIn := []
  vout : List (List VertexIn) := []
  eout : List (List EdgeIn) := []
  nerr : Nat := 0
  deriving Repr, Inhabited

/-- gdbi.DataElement.Validate — gdbi.Vertex and gdbi.Edge are the same Go type, so the "edge
    validation" of StreamBatch checks id, label and field names but NOT from/to.  (Unreachable
    through server.BulkAdd, which validates with gripql.Edge.Validate first; see
    `Props.C18.streamBatch_edges_of_valid`.) -/
def validDataElement (x : EdgeIn) : Bool :=
  x.gid != "" && x.label != "" && (dataKeys x.data).all validFieldName

def sbStep (k : Nat) (graph : String) (s : SB) (el : GElem) : SB :=
  if el.g ≠ graph then { s with nerr := s.nerr + 1 } else
  match el.v, el.e with
  | some x, _ =>
    let s := if s.vb.length ≥ k then { s with vout := s.vout ++ [s.vb], vb := [] } else s
    if validVertex x then { s with vb := s.vb ++ [x] } else { s with nerr := s.nerr + 1 }
  | none, some x =>
    let s := if s.eb.length ≥ k then { s with eout := s.eout ++ [s.eb], eb := [] } else s
    let x := if x.gid = "" then { x with gid := el.uuid } else x
    if validDataElement x then { s with eb := s.eb ++ [x] } else { s with nerr := s.nerr + 1 }
  | none, none => s

/-- The whole loop plus the two final hand-overs. -/
def sbRun (k : Nat) (graph : String) (xs : List GElem) : SB :=
  let s := xs.foldl (sbStep k graph) {}
  { s with vout := s.vout ++ [s.vb], eout := s.eout ++ [s.eb], vb := [], eb := [] }

/-- the calls `vertexAdd(batch)` made by the first goroutine (`if len(vBatch) > 0`) -/
def vertexCalls (k : Nat) (graph : String) (xs : List GElem) : List (List VertexIn) :=
  (sbRun k graph xs).vout.filter (fun b => !b.isEmpty)

def edgeCalls (k : Nat) (graph : String) (xs : List GElem) : List (List EdgeIn) :=
  (sbRun k graph xs).eout.filter (fun b => !b.isEmpty)

end Grip.C18
