/-
  Grip.Model.C02Null — REFINEMENT of the plan semantics on the four `*Null` moves
  (`outNull`, `inNull`, `outENull`, `inENull`), which `Grip.evalStepT` leaves as the identity
  ("no C01 meaning … the properties that own them refine `evalStep` on their fragment").
  Nothing of Grip.Model.C02 is changed; the definitions here agree with it on every other statement.

  Source: engine/core/compile.go (cases `GraphStatement_OutNull/InNull/OutENull/InENull`) and
  engine/core/processors.go.  From a VERTEX the compiler builds the same processors as for
  `out/in/outE/inE` (`LookupVertexAdjOut`, `LookupVertexAdjIn`, `OutE`, `InE`) with
  `emitNull: true` and `loadData: ps.StepLoadData()`; from an EDGE, `outNull/inNull` build
  `LookupEdgeAdjOut/In` exactly as `out/in` do (no `emitNull`).  With `emitNull` the backend's
  adjacency channel answers a request for which it found nothing with the request itself and a
  nil element, and the processor emits `t.AddCurrent(nil)` (a traveler whose current element is
  nil; `AddCurrent` appends the empty `DataElementID` to the path).

  WHEN a backend "found nothing" differs between channels (kvgraph `GetOutChannel` sets `found`
  when an edge key matches, `GetInChannel` only when the source vertex could be fetched), so it is
  a PARAMETER here (`NullMiss`): any function of the graph, the requesting vertex id and the label
  list.  `kvMiss` is kvgraph's.  Core Lean only.
-/
import Grip.Model.Eval
import Grip.Model.C02

namespace Grip.C02
open Grip

/-- "The adjacency channel found nothing for this request" for each of the four channels. -/
structure NullMiss where
  outV : AGraph → String → List String → Bool
  inV : AGraph → String → List String → Bool
  outE : AGraph → String → List String → Bool
  inE : AGraph → String → List String → Bool

/-- kvgraph/graph.go: `GetOutChannel`, `GetInChannel`, `GetOutEdgeChannel`, `GetInEdgeChannel`. -/
def kvMiss : NullMiss where
  outV g id ls := (g.outEdges id ls).isEmpty
  inV g id ls := (g.inVerts id ls).isEmpty
  outE g id ls := (g.outEdges id ls).isEmpty
  inE g id ls := (g.inEdges id ls).isEmpty

/-- The nil-element traveler `emitNull` adds for a request that found nothing. -/
def nullRow (miss : Bool) (t : Traveler) : List Traveler := if miss then [t.addCurrent none] else []

def stepOutNull (m : NullMiss) (g : AGraph) (from_ : DataType) (ls : List String) (t : Traveler) :
    List Traveler :=
  if from_ == .edge then stepOut g from_ ls t
  else stepOut g from_ ls t ++ nullRow (m.outV g (curId t) ls) t

def stepInNull (m : NullMiss) (g : AGraph) (from_ : DataType) (ls : List String) (t : Traveler) :
    List Traveler :=
  if from_ == .edge then stepIn g from_ ls t
  else stepIn g from_ ls t ++ nullRow (m.inV g (curId t) ls) t

def stepOutENull (m : NullMiss) (g : AGraph) (ls : List String) (t : Traveler) : List Traveler :=
  stepOutE g ls t ++ nullRow (m.outE g (curId t) ls) t

def stepInENull (m : NullMiss) (g : AGraph) (ls : List String) (t : Traveler) : List Traveler :=
  stepInE g ls t ++ nullRow (m.inE g (curId t) ls) t

def isNullMove : Stmt → Bool
  | .outNull _ | .inNull _ | .outENull _ | .inENull _ => true
  | _ => false

/-- Plan statements with the `*Null` moves given their meaning (fully loaded). -/
def evalStepN (m : NullMiss) (numOf : String → Option Int) (g : AGraph) (from_ : DataType) (s : Stmt)
    (ts : List Traveler) : List Traveler :=
  match s with
  | .outNull ls => ts.flatMap (stepOutNull m g from_ ls)
  | .inNull ls => ts.flatMap (stepInNull m g from_ ls)
  | .outENull ls => ts.flatMap (stepOutENull m g ls)
  | .inENull ls => ts.flatMap (stepInENull m g ls)
  | s => evalStepP numOf g from_ s ts

/-- The same under load elision: a `*Null` move is a lookup built with `loadData:
    ps.StepLoadData()` like every other adjacency processor (`degrade` with `v := false`: the
    backend's `Loaded` flag is passed on); the nil element of a null row has nothing to degrade. -/
def stepEN (m : NullMiss) (numOf : String → Option Int) (g : AGraph) (load hon : Nat → Bool)
    (i : Nat) (from_ : DataType) (s : Stmt) (ts : List Traveler) : List Traveler :=
  if isNullMove s then
    (evalStepN m numOf g from_ s ts).map (degCur (degrade false (load i) (hon i)))
  else stepE numOf g load hon i from_ s ts

def evalPlanN (m : NullMiss) (numOf : String → Option Int) (g : AGraph) (plan : List Stmt) :
    List Traveler :=
  evalFromX (fun _ => evalStepN m numOf g) {} 0 [Traveler.seed] plan

def evalElidedN (m : NullMiss) (numOf : String → Option Int) (g : AGraph) (hon : Nat → Bool)
    (plan : List Stmt) : List Traveler :=
  evalFromX (stepEN m numOf g (flagAt (loadFlags plan)) hon) {} 0 [Traveler.seed] plan

end Grip.C02
