/-
  Grip.Model.C12Run — executions (schedules) of the mark/jump transition system and the fairness
  notion used by the liveness theorems of property C12.

  A *run* is an infinite sequence of states in which every position is either a step of one
  goroutine of the cycle (`Step`, labelled) or a *stutter* (`none`: some goroutine outside the
  cycle ran, or nothing at all is enabled any more, e.g. after the mark has returned).  Every
  schedule of the Go program — any interleaving, any relative speeds — is a run.

  *Weak fairness* of a goroutine: a goroutine that is enabled (has a step it can take) at every
  position from some point on is scheduled again after that point.  The goroutines are
      stage i   (label `.stage i`: body step i, Jump.Process, the two queue goroutines)
      the mark  (labels `.mark` and `.poll`: one goroutine, JumpMark.Process; `.poll` is the
                 closing-phase iteration that finds the jump input empty).
  This is the guarantee the Go scheduler gives (runnable goroutines are eventually run; the busy
  loops of the mark and of the queue's output goroutine are preemptible) and it is all the
  theorems use: no assumption on speeds, on the number of idle polls, or on channel capacities.

  Core Lean only.
-/
import Grip.Model.C12

namespace Grip.C12

variable {T : Type}

structure Run (sys : List (Stage T)) (inp0 : List T) where
  σ : Nat → State T
  lab : Nat → Option Label
  start : σ 0 = init inp0
  next : ∀ k, match lab k with
    | some l => Step sys l (σ k) (σ (k + 1))
    | none => σ (k + 1) = σ k

/-- Some step with a label in `P` can be taken in `s`. -/
def Enabled (sys : List (Stage T)) (P : Label → Prop) (s : State T) : Prop :=
  ∃ l s', P l ∧ Step sys l s s'

/-- The labels of the mark's goroutine. -/
def isMark (l : Label) : Prop := l = .mark ∨ l = .poll

/-- Weak fairness of the goroutine whose labels are `P`: if it is enabled at every position from
    `K` on, it takes a step at some position `≥ K`. -/
def Run.WeakFair {sys : List (Stage T)} {inp0 : List T} (r : Run sys inp0) (P : Label → Prop) : Prop :=
  ∀ K, (∀ k, K ≤ k → Enabled sys P (r.σ k)) → ∃ k, K ≤ k ∧ ∃ l, r.lab k = some l ∧ P l

/-- Every goroutine of the cycle is weakly fair. -/
structure Run.Fair {sys : List (Stage T)} {inp0 : List T} (r : Run sys inp0) : Prop where
  stage : ∀ i, r.WeakFair (fun l => l = .stage i)
  mark : r.WeakFair isMark

/-- A step is *idle* when it is a closing-phase poll made while a signal is out: the mark finds
    its jump input empty, has nothing to decide, and loops (`time.Sleep(time.Microsecond)`);
    the state does not change (`idle_step_eq`). -/
def Idle (l : Label) (s : State T) : Prop := l = .poll ∧ s.signalActive = true

instance (l : Label) (s : State T) : Decidable (Idle l s) := by unfold Idle; exact inferInstance

/-- Position `k` of the run is a non-idle goroutine step. -/
def Run.busy {sys : List (Stage T)} {inp0 : List T} (r : Run sys inp0) (k : Nat) : Bool :=
  match r.lab k with
  | some l => !decide (Idle l (r.σ k))
  | none => false

/-- Number of non-idle steps among the first `K` positions. -/
def Run.busyCount {sys : List (Stage T)} {inp0 : List T} (r : Run sys inp0) : Nat → Nat
  | 0 => 0
  | k + 1 => r.busyCount k + (if r.busy k then 1 else 0)

end Grip.C12
