/-
  Grip.Model.Graph — the ABSTRACT GRAPH every traversal property is stated over (DESIGN.md §4.3
  layer 4, §4.4).  Core Lean only; shared by C01, C02, C06, C11, C15, C19.

  `AGraph`: vertices `id ↦ (label, data)`, edges `id ↦ (from, to, label, data)`, both as
  association lists (`Elem` of Grip.Model.Path carries gid/label/from/to/data).  The *order* of
  the two lists is the order in which a full listing enumerates the elements; no property of the
  traversal semantics depends on it except through `limit/skip/range`, whose SPEC is stated up to
  sub-multiset (C01).  That the key-value store realises this abstract graph (adjacency scans =
  `outEdges/inEdges`, listings = `verts/edges`) is C03's refinement theorem.

  Nothing here requires endpoints of an edge to exist: edges whose `from`/`to` vertex is absent,
  self loops and parallel edges are ordinary values of the type.
-/
import Grip.Basic
import Grip.Model.Path

namespace Grip

structure AGraph where
  verts : List Elem := []
  edges : List Elem := []
  deriving Repr, Inhabited

namespace AGraph

def empty : AGraph := {}

/-- `GetVertex(id)`: first vertex with that id (`none` when absent). -/
def getVertex (g : AGraph) (id : String) : Option Elem := g.verts.find? (·.gid == id)

/-- `GetEdge(id)`. -/
def getEdge (g : AGraph) (id : String) : Option Elem := g.edges.find? (·.gid == id)

/-- The label test of every adjacency scan: an empty label list admits every label. -/
def labelOk (labels : List String) (l : String) : Bool := labels.isEmpty || labels.contains l

/-- Outgoing edges of vertex `id` (`GetOutEdgeChannel`), optionally restricted to labels. -/
def outEdges (g : AGraph) (id : String) (labels : List String) : List Elem :=
  g.edges.filter (fun e => e.frm == id && labelOk labels e.label)

/-- Incoming edges of vertex `id` (`GetInEdgeChannel`). -/
def inEdges (g : AGraph) (id : String) (labels : List String) : List Elem :=
  g.edges.filter (fun e => e.to == id && labelOk labels e.label)

/-- Vertices reached over outgoing edges (`GetOutChannel`): one per edge (parallel edges give the
    neighbour twice, a self loop gives the vertex itself); an edge whose destination vertex is
    absent contributes nothing. -/
def outVerts (g : AGraph) (id : String) (labels : List String) : List Elem :=
  (g.outEdges id labels).filterMap (fun e => g.getVertex e.to)

/-- Vertices reached over incoming edges (`GetInChannel`). -/
def inVerts (g : AGraph) (id : String) (labels : List String) : List Elem :=
  (g.inEdges id labels).filterMap (fun e => g.getVertex e.frm)

/-- Ids are unique (what C03's invariant provides for a stored graph). -/
def WellFormed (g : AGraph) : Prop :=
  (g.verts.map (·.gid)).Nodup ∧ (g.edges.map (·.gid)).Nodup

end AGraph
end Grip
