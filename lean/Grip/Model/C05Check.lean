/-
  Grip.Model.C05Check — decidable (Bool) conditions on the regenerated tables.  They say, per
  descriptor method, that the path the interceptor takes for it is one of the few *mediating
  shapes*; GripProofs/Lemmas/C05.lean proves once, for arbitrary tables / credentials / policies /
  requests, that a path of such a shape decides exactly as the SPEC prescribes, and
  GripProofs/Props/C05.lean closes the finite quantifier (the methods) with `decide`.
-/
import Grip.Model.C05
import Grip.Spec.C05

namespace Grip.C05

/-- unaryAuthInterceptor as it must read. -/
def idealUnary : List Stmt :=
  [.validate "Unauthenticated", .lookupOp "Unknown", .getGraph "Unknown",
   .enforce .var .var "PermissionDenied", .handler .raw]

/-- a server-stream path for a request type with a Graph field -/
def idealServerGraph (ty : String) (op : Op) : List Stmt :=
  [.validate "Unauthenticated", .wrap ty "Unknown",
   .enforce (.field ty "Graph") (.lit op) "PermissionDenied", .handler .wrapped]

/-- a server-stream path for a request type without one -/
def idealServerStar (op : Op) : List Stmt :=
  [.validate "Unauthenticated", .enforce (.const "*") (.lit op) "PermissionDenied", .handler .raw]

/-- the client-stream path: the handler only ever sees the filtered stream -/
def idealClient : List Stmt := [.validate "Unauthenticated", .handler .bulkFilter]

def idealBulk (ty : String) : BulkFilter :=
  { elemType := ty, graph := .field ty "Graph", op := .lit .write, userFromFilter := true,
    deliver := .whenAllowed }

def hasGraph (T : Tables) (ty : String) : Option Bool := T.msgHasGraph.lookup ty

def unaryCaseOf (T : Tables) (full : String) : Option GraphExpr :=
  (T.unaryCases.find? (fun c => c.methods.contains full)).map (·.src)

def kindOk (T : Tables) (m : MethodDesc) (op : Op) (hg : Bool) : Bool :=
  match m.kind with
  | .unary =>
    decide (T.unaryProg = idealUnary) &&
    decide (unaryCaseOf T m.full = some (if hg then GraphExpr.field m.reqType "Graph" else GraphExpr.const "*"))
  | .serverStream =>
    decide (streamProg T m.full true false = if hg then idealServerGraph m.reqType op else idealServerStar op)
  | .clientStream =>
    decide (streamProg T m.full false true = idealClient) && decide (T.bulk = idealBulk m.reqType) &&
    hg && decide (op = Op.write)
  | .bidi => false

/-- Method `m` is completely and correctly tabled: the SPEC knows its operation class, its
    request type is known, accounts.MethodMap has that class under the name grpc uses, and the
    interceptor path for it has a mediating shape (graph taken from the right request type). -/
def methodOk (T : Tables) (m : MethodDesc) : Bool :=
  match Spec.opOf m.full, hasGraph T m.reqType with
  | some op, some hg => decide (T.methodMap.lookup m.full = some op) && kindOk T m op hg
  | _, _ => false

/-- The gateway shim for `m` enters the same interceptor with the same *ServerInfo as grpc does. -/
def shimOk (T : Tables) (m : MethodDesc) : Bool :=
  match gwFind T m with
  | none => false
  | some g =>
    decide (g.full = m.full) &&
    (match m.kind with
     | .unary => g.viaUnary
     | .serverStream => !g.viaUnary && g.viaStream && g.isServerStream && !g.isClientStream && decide (g.handler = m.handler)
     | .clientStream => !g.viaUnary && g.viaStream && !g.isServerStream && g.isClientStream && decide (g.handler = m.handler)
     | .bidi => false)

/-- The shim hands the interceptor's refusal back to its caller. -/
def shimReportsErrors (T : Tables) (m : MethodDesc) : Bool :=
  match gwFind T m with
  | none => false
  | some g => !g.dropsError

/-- server.Serve: the one grpc.Server gets the auth interceptors first in both chains. -/
def grpcChainOk (s : ServeWiring) : Bool :=
  decide (s.authUnaryVar ≠ "") && decide (s.authStreamVar ≠ "") &&
  decide (s.newServerCalls = 1) &&
  decide (s.unaryChain.head? = some s.authUnaryVar) && decide (s.streamChain.head? = some s.authStreamVar) &&
  s.newServerArgs.contains s.unaryOptVar && s.newServerArgs.contains s.streamOptVar

def clientChained (s : ServeWiring) (c : DirectClient) : Bool :=
  decide (c.unaryOpt = some s.authUnaryVar) && decide (c.streamOpt = some s.authStreamVar)

/-- server.Serve: every direct client is built with both auth interceptors. -/
def gatewayChainOk (s : ServeWiring) : Bool := s.directClients.all (clientChained s)

/-- The direct clients `Serve` puts behind the HTTP gateway for service `svc` in a run with plugins
    enabled / disabled (the Configure service has one client per branch of `if EnablePlugins`). -/
def gatewayClients (s : ServeWiring) (plugins : Bool) (svc : String) : List DirectClient :=
  s.directClients.filter fun c =>
    c.ctor == "New" ++ svc ++ "DirectClient" &&
    (svc != "Configure" || c.impl == (if plugins then "server" else "&nullPluginServer{}"))

/-- A gateway request for a method of kind `kind` of service `svc`, without valid credentials, is
    refused iff the service has a direct client and each was built with the interceptor of that kind
    (unary methods go through `DirectUnaryInterceptor`, streaming ones through
    `DirectStreamInterceptor`). -/
def gatewayRefuses (s : ServeWiring) (plugins : Bool) (svc : String) (streaming : Bool) : Bool :=
  let cs := gatewayClients s plugins svc
  !cs.isEmpty && cs.all fun c =>
    if streaming then decide (c.streamOpt = some s.authStreamVar) else decide (c.unaryOpt = some s.authUnaryVar)

/-- every registered service has a direct client behind the gateway and vice versa -/
def servicesOk (T : Tables) : Bool :=
  T.methods.all (fun m => T.serve.registered.any (fun r => "gripql." ++ r.1 == m.service)) &&
  T.serve.registered.all (fun r => T.serve.directClients.any (fun c => c.ctor == "New" ++ r.1 ++ "DirectClient"))

/-- A request as the property's quantifier ranges over it: of the method's request type, and
    carrying a graph name iff that type has a Graph field. -/
def Req.wf (T : Tables) (ty : String) (r : Req) : Prop :=
  r.ty = ty ∧ hasGraph T ty = some r.graph.isSome

def Caller.wf (T : Tables) (m : MethodDesc) (p : Caller) : Prop :=
  Req.wf T m.reqType p.req ∧ ∀ e ∈ p.elems, Req.wf T m.reqType e

end Grip.C05
