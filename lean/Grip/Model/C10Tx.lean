/-
  Grip.Model.C10Tx — "what a view inside a transaction sees" as an explicit part of the C10 model.

  `Grip.C10.txStep` hands a `view` step the map `t.view` AT THAT MOMENT: an iterator opened inside
  an update transaction sees every write the transaction has made so far, by construction.  Here
  that choice becomes a parameter, the ITERATOR POLICY of a transaction run:

  * `fresh` — every `view` step gets an iterator over the transaction's CURRENT contents.  This is
    what the four adapters do (kvi/*/…_store.go, the `View` method of the transaction type):
      - Badger  `badgerTransaction.View` (badger_store.go:199) builds `newIterator(tx)` per call and
        closes it on return; the engine iterator is made by `tx.NewIterator` at the first seek of
        THAT view (`badgerIterator.init`, :224-237), and `Txn.NewIterator` on a read-write
        transaction copies and sorts `txn.pendingWrites` at that point (badger/v2 txn.go
        `newPendingWritesIterator`) — a snapshot of the writes made so far, taken per view;
      - Bolt    `boltTransaction.View` (bolt_store.go:169) takes `b.Cursor()` per call; a Bolt cursor
        of a read-write transaction walks the transaction's own dirty nodes;
      - LevelDB `levelTransaction.View` (level_store.go:140) calls `ltx.tx.NewIterator` per call;
        goleveldb's `Transaction.NewIterator` iterates `tr.mem` + `tr.tables` at `tr.seq`, the
        sequence number of the last write of the transaction (db_transaction.go);
      - Pebble  `pebbleTransaction.View` (pebble_store.go:135) calls `ptx.db.NewIter` per call; there
        is no transaction (`Update` runs the callback on the DB, :221), writes are applied at once,
        so a new iterator sees them.
    All four: a new engine iterator per `View`, created after the writes that precede it.

  * `sharedSnapshot` — the regression: all views of one transaction share the iterator created for
    the first one.  An engine iterator is a snapshot of the pending writes at creation (Badger,
    LevelDB, Pebble), so every later view iterates over the contents AS THEY WERE AT THE FIRST VIEW,
    while the point reads `Get` / `HasKey` go to the transaction and still see the current contents.

  What is shared is the CONTENTS; the iterator position is not carried over (each view starts from
  `{}`, and every view of the harness and of kvindex begins with a seek).  A write issued from
  inside a view callback (kvindex `fieldTermCounts` does `tx.Set` between two seeks of one view) is
  outside the operation language (`ItStep` has no writes) and not modelled here.

  Core Lean only, everything executable.
-/
import Grip.Model.SMap
import Grip.Model.C10

namespace Grip.C10
open Grip Grip.Bytes Grip.SMap

deriving instance DecidableEq for Tx
deriving instance DecidableEq for TxStep
deriving instance DecidableEq for TxObs

/-- How the iterators of the `view` steps of one transaction are obtained. -/
inductive IterPolicy where
  /-- a new iterator, over the current contents, for every view (the code as it is) -/
  | fresh
  /-- one iterator, created at the first view, shared by all views (the regression) -/
  | sharedSnapshot
  deriving Repr, DecidableEq

/-- A running transaction: the overlay of `SMap.Tx` plus the contents captured by the shared
    iterator, once there is one. -/
structure TxState where
  tx : Tx
  snap : Option (List KV) := none
  deriving Repr

/-- The map a `view` step iterates over. -/
def viewMap : IterPolicy → TxState → List KV
  | .sharedSnapshot, { tx := _, snap := some s } => s
  | _, st => st.tx.view

/-- The snapshot held after a `view` step that iterated over `m`. -/
def snapAfter : IterPolicy → Option (List KV) → List KV → Option (List KV)
  | .fresh, snap, _ => snap
  | .sharedSnapshot, _, m => some m

/-- One call on a `KVTransaction` under a policy.  Writes and point reads are `txStep`. -/
def txStepP (pol : IterPolicy) (st : TxState) : TxStep → TxState × TxObs
  | .set k v => ({ st with tx := st.tx.write (.set k v) }, .err false)
  | .del k => ({ st with tx := st.tx.write (.del k) }, .err false)
  | .get k => (st, .got (st.tx.get k))
  | .has k => (st, .has (st.tx.has k))
  | .view steps =>
    let m := viewMap pol st
    ({ st with snap := snapAfter pol st.snap m }, .view (viewObs m steps))

def txStepsPS (pol : IterPolicy) : TxState → List TxStep → TxState × List TxObs
  | st, [] => (st, [])
  | st, s :: rest =>
    let r := txStepP pol st s
    let q := txStepsPS pol r.1 rest
    (q.1, r.2 :: q.2)

/-- The callback of one `Update`, run under a policy: no iterator exists at the start. -/
def txStepsP (pol : IterPolicy) (t : Tx) (steps : List TxStep) : Tx × List TxObs :=
  let r := txStepsPS pol { tx := t } steps
  (r.1.tx, r.2)

/-- `Update(callback)` under a policy (`runUpdate` is the `fresh` instance). -/
def runUpdateP (pol : IterPolicy) (m : List KV) (steps : List TxStep) (fail : Bool) :
    List KV × List TxObs :=
  let r := txStepsP pol { base := m } steps
  (if fail then m else r.1.commit, r.2)

/-! ## Vocabulary of the statements -/

def isView : TxStep → Bool
  | .view _ => true
  | _ => false

/-- The steps contain no `view`. -/
def NoView (ss : List TxStep) : Prop := ∀ s ∈ ss, isView s = false

/-- Number of `view` steps of a callback. -/
def viewCount (ss : List TxStep) : Nat := (ss.filter isView).length

/-- The contents of the transaction after the steps `ss`: the map that would be stored if the
    transaction committed at that moment. -/
def contentsAfter (t : Tx) (ss : List TxStep) : List KV := (Tx.writes t (writesOf ss)).commit

def wkey : Write → Bytes
  | .set k _ => k
  | .del k => k

/-- The value a write leaves under its key (`none` = the key is gone). -/
def wval : Write → Option Bytes
  | .set _ v => some v
  | .del _ => none

/-- The last write to `k` in a program-ordered list of writes: `none` = `k` is not written,
    `some none` = last deleted, `some (some v)` = last set to `v`. -/
def lastWrite : List Write → Bytes → Option (Option Bytes)
  | [], _ => none
  | w :: r, k =>
    match lastWrite r k with
    | some x => some x
    | none => if wkey w = k then some (wval w) else none

/-- The keys an iterator call depends on, for the calls whose answer is a function of a fixed set
    of keys: `scan p` reads the keys with prefix `p`, the iterator's `get k` reads `k`.  (Seeks,
    `next` and the reverse scan stop at a position that depends on the map itself.) -/
def isRangeStep : ItStep → Bool
  | .scan _ => true
  | .get _ => true
  | _ => false

def inRange : ItStep → Bytes → Bool
  | .scan p, k => hasPrefix k p
  | .get k', k => decide (k = k')
  | _, _ => false

/-- The writes `ws` leave every key of the range of `s` with the value it has in `S`: each key of
    the range is either not written, or its LAST write puts back what `S` holds. -/
def RangeUnchanged (S : List KV) (ws : List Write) (s : ItStep) : Prop :=
  ∀ k, inRange s k = true → ∀ w, lastWrite ws k = some w → w = SMap.get S k

end Grip.C10
