/-
  Grip.Model.C12 — MODEL of the mark/jump termination protocol as a labelled transition system
  (engine/logic/jump.go: JumpMark.Process, Jump.Process; engine/queue/queue.go; the FIFO steps of
  engine/core/processors.go between the mark and the jump).

  Processes (goroutines) and channels
  -----------------------------------
      upstream --inp--> MARK --ch0--> stage 0 --ch1--> … --ch(n-1)--> stage n-1 --ch n--> MARK
                                         |                               |
                                         +--------- downstream ----------+
  For a loop  mark(L).body.jump(L, cond, emit)  the stages are (`loopSys`):
      the body steps            (one goroutine each; `fwd = the step`, nothing goes downstream)
      Jump.Process              (`fwd t = [t] if cond t`, `down t = [t] if emit`; signals forwarded)
      queue input goroutine     (queue.go: `for i := range o.input { queue = append(queue, i) }`)
      queue output goroutine    (queue.go: pops `queue[0]`, `o.output <- v`)
  and channel n is the queue's output channel, polled by the mark (`s.inputs[0]`).

  State.  All channels together are ONE list `W` of tagged messages, oldest first: tag `i` = "is
  in channel i" (channel i as a list is `W.filter (·.1 = i)`).  A stage takes the *first* message
  with its tag (the channel head) and replaces it *in place* by its outputs, tagged `i+1`: since
  every channel i+1 message precedes every channel i message in `W`, in-place replacement is
  "append to the tail of channel i+1".  The mark takes the head of `W` when its tag is `n` and
  appends to the end of `W` with tag 0.  Channels are unbounded here: a bounded channel only
  removes interleavings (a blocked sender), so every safety theorem covers the bounded system; the
  queue between jump and mark is unbounded in the code as well (queue.go), which is what keeps the
  cycle from blocking.

  Mark.  `curID/returnCount/signalActive/signalOutdated` and the two loops of JumpMark.Process are
  followed literally: one transition = one loop iteration (poll of the jump input, then — when no
  jumper was found — the send-signal / close decision `markDecide`).  Signals are counted without
  looking at their id, as in the code (`if msg.IsSignal() { returnCount++ }`); `nIn` is
  `len(s.inputs)` (= 1: one jump; several jumps to one mark are covered by the correspondence run
  only, see docs/notes/C12.md).

  Core Lean only.
-/
import Grip.Spec.C12

namespace Grip.C12

inductive Msg (T : Type) where
  | trav (t : T)
  | sig (id : Nat)
  deriving Repr, DecidableEq

/-- A FIFO stage of the cycle: per traveler, what it forwards along the cycle and what it sends
    downstream (out of the cycle).  Signals are forwarded unchanged by every stage
    (`if t.IsSignal() { out <- t; continue }`; Jump: `s.jumpers <- t`). -/
structure Stage (T : Type) where
  fwd : T → List T
  down : T → List T

variable {T : Type}

def bodyStage (f : T → List T) : Stage T := ⟨f, fun _ => []⟩

/-- Jump.Process: `if Stmt == nil || Matches(t) { jumpers <- t }; if Emit { out <- t.Copy() }`. -/
def jumpStage (cond : T → Bool) (emit : Bool) : Stage T :=
  ⟨fun t => if cond t then [t] else [], fun t => if emit then [t] else []⟩

/-- The two queue goroutines. -/
def idStage : Stage T := ⟨fun t => [t], fun _ => []⟩

/-- The cycle of a loop whose body is one FIFO stage. -/
def loopSys (L : Loop T) : List (Stage T) :=
  [bodyStage L.body, jumpStage L.cond L.emit, idStage, idStage]

/-- The cycle of a loop whose body is a pipeline of FIFO steps. -/
def loopSysOf (steps : List (T → List T)) (cond : T → Bool) (emit : Bool) : List (Stage T) :=
  steps.map bodyStage ++ [jumpStage cond emit, idStage, idStage]

inductive Phase where
  | «open» | closing | closed
  deriving Repr, DecidableEq

structure State (T : Type) where
  inp : List T                 -- travelers still to come on the mark's main input
  phase : Phase                -- first loop / closing-phase loop / goroutine returned
  W : List (Nat × Msg T)       -- all cycle channels, oldest message first
  emitted : List T             -- what the stages sent downstream
  curID : Nat
  returnCount : Nat
  signalActive : Bool
  signalOutdated : Bool

def init (inp : List T) : State T :=
  { inp := inp, phase := .open, W := [], emitted := [], curID := 0, returnCount := 0,
    signalActive := false, signalOutdated := false }

/-- The `if !jumperFound { … }` block of the closing-phase loop. -/
def markDecide (nIn : Nat) (s : State T) : State T :=
  if (!s.signalActive && !s.signalOutdated) || (s.signalOutdated && s.returnCount == nIn) then
    { s with curID := s.curID + 1, signalActive := true, signalOutdated := false, returnCount := 0,
             W := s.W ++ [(0, .sig (s.curID + 1))] }
  else if s.signalActive && s.returnCount == nIn then
    { s with phase := .closed }
  else s

inductive Label where
  | stage (i : Nat)   -- stage i handled its channel head
  | mark              -- the mark received a message / read its input / saw its input closed
  | poll              -- closing-phase iteration that found the jump input empty
  deriving Repr, DecidableEq

/-- One step of one goroutine. `sys` = the stages, `n = sys.length` = tag of the channel the mark polls. -/
inductive Step (sys : List (Stage T)) : Label → State T → State T → Prop
  | stageTrav {s : State T} {A B : List (Nat × Msg T)} {i : Nat} {t : T} {st : Stage T} :
      s.W = A ++ (i, Msg.trav t) :: B → (∀ x ∈ A, x.1 ≠ i) → sys[i]? = some st →
      Step sys (.stage i) s
        { s with W := A ++ (st.fwd t).map (fun u => (i + 1, Msg.trav u)) ++ B,
                 emitted := s.emitted ++ st.down t }
  | stageSig {s : State T} {A B : List (Nat × Msg T)} {i k : Nat} {st : Stage T} :
      s.W = A ++ (i, Msg.sig k) :: B → (∀ x ∈ A, x.1 ≠ i) → sys[i]? = some st →
      Step sys (.stage i) s { s with W := A ++ (i + 1, Msg.sig k) :: B }
  -- first loop of JumpMark.Process (main input open): jump input first, else main input
  | openJump {s : State T} {m : Msg T} {B : List (Nat × Msg T)} :
      s.phase = .open → s.W = (sys.length, m) :: B →
      Step sys .mark s { s with W := B ++ [(0, m)] }
  | openIn {s : State T} {t : T} {r : List T} :
      s.phase = .open → (∀ x ∈ s.W, x.1 ≠ sys.length) → s.inp = t :: r →
      Step sys .mark s { s with inp := r, W := s.W ++ [(0, Msg.trav t)] }
  | openClose {s : State T} :
      s.phase = .open → (∀ x ∈ s.W, x.1 ≠ sys.length) → s.inp = [] →
      Step sys .mark s { s with phase := .closing }
  -- closing-phase loop
  | closeTrav {s : State T} {t : T} {B : List (Nat × Msg T)} :
      s.phase = .closing → s.W = (sys.length, Msg.trav t) :: B →
      Step sys .mark s
        { s with W := B ++ [(0, Msg.trav t)], signalOutdated := s.signalActive || s.signalOutdated }
  | closeSig {s : State T} {k : Nat} {B : List (Nat × Msg T)} :
      s.phase = .closing → s.W = (sys.length, Msg.sig k) :: B →
      Step sys .mark s (markDecide 1 { s with W := B, returnCount := s.returnCount + 1 })
  | closePoll {s : State T} :
      s.phase = .closing → (∀ x ∈ s.W, x.1 ≠ sys.length) →
      Step sys .poll s (markDecide 1 s)

/-- States reachable from the initial state with main input `inp0`, by any interleaving. -/
inductive Reachable (sys : List (Stage T)) (inp0 : List T) : State T → Prop
  | init : Reachable sys inp0 (init inp0)
  | step {s s' : State T} {l : Label} : Reachable sys inp0 s → Step sys l s s' → Reachable sys inp0 s'

/-! ### Bookkeeping functions used by the theorems -/

/-- Rows a traveler that still has the stages `rest` before it will produce, when a traveler
    re-entering the mark produces `R`. -/
def fut (R : T → List T) : List (Stage T) → T → List T
  | [], t => R t
  | st :: rest, t => st.down t ++ (st.fwd t).flatMap (fut R rest)

/-- Travelers that come back to the mark from one traveler sent into the cycle. -/
def thru : List (Stage T) → T → List T
  | [], t => [t]
  | st :: rest, t => (st.fwd t).flatMap (thru rest)

/-- Unrolling of the cycle per traveler, `n` passes deep. -/
def unroll (sys : List (Stage T)) : Nat → T → List T
  | 0, _ => []
  | n + 1, t => fut (unroll sys n) sys t

/-- The cycle is depth-bounded by `μ`. -/
def SysBounded (sys : List (Stage T)) (μ : T → Nat) : Prop :=
  ∀ t t', t' ∈ thru sys t → μ t' < μ t

def potMsg (R : T → List T) (sys : List (Stage T)) : Nat × Msg T → List T
  | (i, .trav t) => fut R (sys.drop i) t
  | (_, .sig _) => []

/-- Rows still to come from the messages in the cycle. -/
def pot (R : T → List T) (sys : List (Stage T)) (W : List (Nat × Msg T)) : List T :=
  W.flatMap (potMsg R sys)

/-- Everything a state accounts for: emitted ⊎ future of the unread input ⊎ future of the cycle. -/
def total (R : T → List T) (sys : List (Stage T)) (s : State T) : List T :=
  s.emitted ++ s.inp.flatMap R ++ pot R sys s.W

def sigCount : List (Nat × Msg T) → Nat
  | [] => 0
  | (_, .sig _) :: r => sigCount r + 1
  | (_, .trav _) :: r => sigCount r

def travCount : List (Nat × Msg T) → Nat
  | [] => 0
  | (_, .sig _) :: r => travCount r
  | (_, .trav _) :: r => travCount r + 1

/-- No traveler behind the signal (with exactly one signal: `W = travelers ++ [signal]`). -/
def clean : List (Nat × Msg T) → Bool
  | [] => true
  | (_, .trav _) :: r => clean r
  | (_, .sig _) :: r => r.isEmpty

end Grip.C12
