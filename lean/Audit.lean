/-
  Audit — lists every theorem of a namespace with the axioms it depends on, as JSON.
  Usage: lake env lean --run Audit.lean <Module> <Namespace>
  Output: {"theorems":[{"name":..,"axioms":[..]},..]}
-/
import Lean
open Lean

unsafe def main (args : List String) : IO UInt32 := do
  match args with
  | [modName, ns] =>
    initSearchPath (← findSysroot)
    unsafe enableInitializersExecution
    let env ← importModules #[{ module := modName.toName }] {} (loadExts := true)
    let nsName := ns.toName
    let mut out : Array Json := #[]
    for (n, ci) in env.constants.toList do
      if nsName.isPrefixOf n && !n.isInternal then
        match ci with
        | .thmInfo _ =>
          -- property theorems live directly in the namespace (not in Lemmas or private scopes)
          if n.getPrefix == nsName then
            let (axioms, _) ← (collectAxioms n : CoreM (Array Name)).toIO
              { fileName := "<audit>", fileMap := default } { env := env }
            let axs := axioms.toList.map (fun a => Json.str a.toString)
            out := out.push (Json.mkObj [("name", Json.str n.toString), ("axioms", Json.arr axs.toArray)])
        | _ => pure ()
    IO.println (Json.compress (Json.mkObj [("theorems", Json.arr out)]))
    return 0
  | _ =>
    IO.eprintln "usage: Audit <Module> <Namespace>"
    return 2
