import GripProofs.Props.C08
