import Grip.Drv.C08

def main (args : List String) : IO UInt32 := do
  match args with
  | ["C08"] => Grip.Drv.C08.main; return 0
  | _ => IO.eprintln "usage: gripdriver <property-id> < ops.jsonl"; return 2
