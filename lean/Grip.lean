import Grip.Basic
import Grip.Proto
import Grip.Model.Path
import Grip.Model.C08
import Grip.Spec.C08
