module verif/harness

go 1.18

require (
	github.com/bmeg/grip v0.0.0
	google.golang.org/protobuf v1.28.2-0.20230222093303-bc1253ad3743
)

require (
	github.com/akuity/grpc-gateway-client v0.0.0-20230321170839-38ca1b4b439c // indirect
	github.com/alevinval/sse v1.0.1 // indirect
	github.com/bmeg/jsonpath v0.0.0-20210207014051-cca5355553ad // indirect
	github.com/go-resty/resty/v2 v2.7.0 // indirect
	github.com/golang/protobuf v1.5.2 // indirect
	github.com/grpc-ecosystem/go-grpc-middleware v1.0.0 // indirect
	github.com/grpc-ecosystem/grpc-gateway/v2 v2.15.2 // indirect
	github.com/kr/pretty v0.2.1 // indirect
	github.com/kr/text v0.2.0 // indirect
	github.com/logrusorgru/aurora v0.0.0-20190428105938-cea283e61946 // indirect
	github.com/sirupsen/logrus v1.9.0 // indirect
	github.com/spf13/cast v1.3.0 // indirect
	golang.org/x/crypto v0.6.0 // indirect
	golang.org/x/net v0.7.0 // indirect
	golang.org/x/sys v0.5.0 // indirect
	golang.org/x/term v0.5.0 // indirect
	golang.org/x/text v0.7.0 // indirect
	google.golang.org/genproto v0.0.0-20230303212802-e74f57abe488 // indirect
	google.golang.org/grpc v1.53.0 // indirect
	gopkg.in/yaml.v2 v2.4.0 // indirect
	sigs.k8s.io/yaml v1.3.0 // indirect
)

replace github.com/bmeg/grip => /repo
