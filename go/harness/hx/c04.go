package hx

// C04 — reopen and crash consistency of kvgraph.
//
// The world is C03's (a real kvgraph over an embedded LevelDB) with two additions:
//   - every store call of kvgraph/kvindex goes through faultKV, a kvi.KVInterface wrapper that
//     counts the top-level writes (Set / Delete / DeletePrefix / Update / BulkWrite) and, when armed,
//     kills the call before the (k+1)-th of them (panic caught by the harness; the store is then
//     closed and the directory opened again);
//   - "reopen": close the store and open the same directory again (kvgraph.NewKVGraph on it).
// After a crash the surviving raw keys are parsed with the layouts of kvgraph/keys.go and
// kvindex/keys.go and printed in structured form; the Lean side prints applyPrefix k of its write list.

import (
	"bytes"
	"fmt"
	"strings"

	"github.com/bmeg/grip/gripql"
	"github.com/bmeg/grip/kvgraph"
	"github.com/bmeg/grip/kvi"
	"github.com/bmeg/grip/kvindex"
	"google.golang.org/protobuf/proto"
)

type c04Abort struct{}

type faultKV struct {
	inner   kvi.KVInterface
	armed   bool
	k       int // writes allowed to complete
	count   int
	tripped bool
	dead    bool
}

func (f *faultKV) gate() {
	if f.dead {
		panic(c04Abort{})
	}
	if f.armed {
		if f.count >= f.k {
			f.tripped = true
			f.dead = true
			panic(c04Abort{})
		}
		f.count++
	}
}

func (f *faultKV) HasKey(key []byte) bool               { return f.inner.HasKey(key) }
func (f *faultKV) Get(key []byte) ([]byte, error)        { return f.inner.Get(key) }
func (f *faultKV) View(u func(it kvi.KVIterator) error) error { return f.inner.View(u) }
func (f *faultKV) Close() error                          { return f.inner.Close() }
func (f *faultKV) Set(key, value []byte) error           { f.gate(); return f.inner.Set(key, value) }
func (f *faultKV) Delete(key []byte) error               { f.gate(); return f.inner.Delete(key) }
func (f *faultKV) DeletePrefix(prefix []byte) error      { f.gate(); return f.inner.DeletePrefix(prefix) }
func (f *faultKV) Update(u func(tx kvi.KVTransaction) error) error {
	f.gate()
	return f.inner.Update(u)
}
func (f *faultKV) BulkWrite(u func(bl kvi.KVBulkWrite) error) error {
	f.gate()
	return f.inner.BulkWrite(u)
}

// C04World is a C03World whose store calls pass through faultKV.
type C04World struct {
	*C03World
	f *faultKV
}

func NewC04World(driver string) *C04World {
	w := NewC03World(driver)
	f := &faultKV{inner: w.KV}
	w.KV = f
	w.DB = kvgraph.NewKVGraph(f)
	return &C04World{C03World: w, f: f}
}

// Reopen closes the store and opens the same directory again, as a restarted server does.
func (w *C04World) Reopen() {
	if err := w.f.inner.Close(); err != nil {
		panic(err)
	}
	e, err := OpenEng(w.Driver, w.Dir)
	if err != nil {
		panic(err)
	}
	w.f.inner = e.KV
	w.f.armed, w.f.dead, w.f.tripped, w.f.count = false, false, false, 0
	w.DB = kvgraph.NewKVGraph(w.f)
}

func splitNul(key []byte) []string {
	out := []string{}
	for _, p := range bytes.Split(key, []byte{0}) {
		out = append(out, string(p))
	}
	return out
}

// Dump parses every raw key into the structured form the Lean driver prints.
func (w *C04World) Dump() map[string]interface{} {
	out := map[string]interface{}{}
	j := func(xs ...string) string { return strings.Join(xs, "|") }
	w.f.inner.View(func(it kvi.KVIterator) error {
		for it.Seek([]byte{}); it.Valid(); it.Next() {
			key := append([]byte{}, it.Key()...)
			if len(key) == 0 {
				out["<empty>"] = 1
				continue
			}
			switch key[0] {
			case 'v':
				g, id := kvgraph.VertexKeyParse(key)
				val, _ := it.Value()
				v := &gripql.Vertex{}
				if err := proto.Unmarshal(val, v); err != nil {
					out[j("v", g, id)] = nil
				} else {
					out[j("v", g, id)] = map[string]interface{}{"label": v.Label, "data": Tag(v.Data.AsMap())}
				}
			case 'e':
				g, eid, s, d, l, _ := kvgraph.EdgeKeyParse(key)
				val, _ := it.Value()
				e := &gripql.Edge{}
				if err := proto.Unmarshal(val, e); err != nil {
					out[j("e", g, eid, s, d, l)] = nil
				} else {
					out[j("e", g, eid, s, d, l)] = map[string]interface{}{"data": Tag(e.Data.AsMap())}
				}
			case 's':
				g, s, d, eid, l, _ := kvgraph.SrcEdgeKeyParse(key)
				out[j("s", g, s, d, eid, l)] = 1
			case 'd':
				g, s, d, eid, l, _ := kvgraph.DstEdgeKeyParse(key)
				out[j("d", g, d, s, eid, l)] = 1
			case 'g':
				out[j("g", kvgraph.GraphKeyParse(key))] = 1
			case 'f':
				out[j("f", kvindex.FieldKeyParse(key))] = 1
			case 't':
				f, _, term := kvindex.TermKeyParse(key)
				out[j("t", f, string(term))] = 1
			case 'i':
				f, _, term, doc := kvindex.EntryKeyParse(key)
				out[j("i", f, string(term), doc)] = 1
			case 'D':
				p := splitNul(key)
				out[j("D", strings.Join(p[1:], "\x00"))] = 1
			default:
				out[fmt.Sprintf("?%x", key)] = 1
			}
		}
		return nil
	})
	return out
}

// c04Weak: the weak invariant, computed independently from the parsed dump.
func c04Weak(d map[string]interface{}) bool {
	has := func(xs ...string) bool { _, ok := d[strings.Join(xs, "|")]; return ok }
	for k, v := range d {
		p := strings.Split(k, "|")
		switch p[0] {
		case "s": // s|g|src|dst|eid|l
			if has("g", p[1]) && !has("e", p[1], p[4], p[2], p[3], p[5]) {
				return false
			}
		case "d": // d|g|dst|src|eid|l
			if has("g", p[1]) && !has("e", p[1], p[4], p[3], p[2], p[5]) {
				return false
			}
		case "e": // e|g|eid|s|d|l
			if has("g", p[1]) {
				f := p[1] + ".e.label"
				if !has("s", p[1], p[3], p[4], p[2], p[5]) || !has("d", p[1], p[4], p[3], p[2], p[5]) ||
					!has("i", f, p[5], p[2]) || !has("t", f, p[5]) {
					return false
				}
			}
		case "v":
			if has("g", p[1]) {
				if m, ok := v.(map[string]interface{}); ok {
					f := p[1] + ".v.label"
					l := m["label"].(string)
					if !has("i", f, l, p[2]) || !has("t", f, l) {
						return false
					}
				}
			}
		case "g":
			if !has("f", p[1]+".v.label") || !has("f", p[1]+".e.label") {
				return false
			}
		}
	}
	return true
}

// Exec runs one protocol op (C03's ops plus reopen and crash).
func (w *C04World) Exec(op map[string]interface{}) (obs map[string]interface{}) {
	defer func() {
		if p := recover(); p != nil {
			obs = map[string]interface{}{"panic": fmt.Sprint(p)}
		}
	}()
	switch op["op"] {
	case "reopen":
		w.Reopen()
		return map[string]interface{}{"r": "reopen"}
	case "weak":
		return map[string]interface{}{"weak": c04Weak(w.Dump())}
	case "crash":
		k := 0
		switch x := op["k"].(type) {
		case float64:
			k = int(x)
		case int:
			k = x
		}
		inner := op["inner"].(map[string]interface{})
		w.f.armed, w.f.k, w.f.count, w.f.tripped, w.f.dead = true, k, 0, false, false
		w.C03World.Exec(inner) // recovers the abort panic itself
		aborted := w.f.tripped
		w.Reopen()
		d := w.Dump()
		return map[string]interface{}{"aborted": aborted, "dump": d, "weak": c04Weak(d)}
	}
	return w.C03World.Exec(op)
}

// ---------- generators ----------

func c04Crash(k int, inner map[string]interface{}) map[string]interface{} {
	return map[string]interface{}{"op": "crash", "k": k, "inner": inner}
}

// c04Directed: histories that put every op kind in front of a state where its write list is long.
func c04Directed() [][]map[string]interface{} {
	op := func(name, g string, kv ...interface{}) map[string]interface{} {
		m := map[string]interface{}{"op": name, "g": g}
		for i := 0; i+1 < len(kv); i += 2 {
			m[kv[i].(string)] = kv[i+1]
		}
		return m
	}
	l := func(xs ...interface{}) []interface{} { return xs }
	x1 := map[string]interface{}{"x": 1.0}
	base := []map[string]interface{}{
		op("addGraph", "g1"), op("addGraph", "g2"),
		op("addV", "g1", "vs", l(c03V("a", "L", nil), c03V("b", "M", x1), c03V("c", "L", nil))),
		op("addV", "g2", "vs", l(c03V("a", "L", x1), c03V("b", "L", nil))),
		op("addE", "g1", "es", l(c03E("e1", "L", "a", "b", nil), c03E("e2", "M", "b", "a", x1), c03E("e3", "L", "c", "a", nil), c03E("e4", "N", "b", "c", nil))),
		op("addE", "g2", "es", l(c03E("e1", "L", "a", "b", nil))),
	}
	relabel := append(append([]map[string]interface{}{}, base...),
		op("addV", "g1", "vs", l(c03V("a", "M", nil))),
		op("addE", "g1", "es", l(c03E("e1", "M", "b", "a", nil))),
		op("delV", "g1", "id", "c"))
	small := []map[string]interface{}{op("addGraph", "g1"), op("addV", "g1", "vs", l(c03V("a", "L", nil)))}
	return [][]map[string]interface{}{base, relabel, small, {}}
}

// c04Targets: the calls a crash is injected into (every op kind, accepted and rejected forms).
func c04Targets() []map[string]interface{} {
	op := func(name, g string, kv ...interface{}) map[string]interface{} {
		m := map[string]interface{}{"op": name, "g": g}
		for i := 0; i+1 < len(kv); i += 2 {
			m[kv[i].(string)] = kv[i+1]
		}
		return m
	}
	l := func(xs ...interface{}) []interface{} { return xs }
	x1 := map[string]interface{}{"x": 1.0}
	return []map[string]interface{}{
		op("addGraph", "g3"), op("addGraph", "g1"), op("addGraph", "bad name"),
		op("delGraph", "g1"), op("delGraph", "g2"), op("delGraph", "g3"),
		op("addV", "g1", "vs", l(c03V("a", "N", x1), c03V("d", "L", nil))),
		op("addV", "g1", "vs", l(c03V("", "L", nil))),
		op("addV", "g3", "vs", l(c03V("a", "L", nil))),
		op("addE", "g1", "es", l(c03E("e1", "L", "a", "c", nil), c03E("e5", "M", "d", "a", x1))),
		op("bulk", "g1", "xs", l(map[string]interface{}{"v": c03V("d", "L", nil)}, map[string]interface{}{"e": c03E("e6", "L", "d", "a", nil)},
			map[string]interface{}{"e": c03E("e9", "", "a", "b", nil)})),
		op("delV", "g1", "id", "a"), op("delV", "g1", "id", "b"), op("delV", "g1", "id", "zz"), op("delV", "g2", "id", "a"),
		op("delE", "g1", "id", "e1"), op("delE", "g1", "id", "e2"), op("delE", "g1", "id", "nope"), op("delE", "g2", "id", "e1"),
	}
}

func C04Gen(r *Run) {
	w := NewC04World("level")
	defer w.Destroy()
	r.Rule = "case = reset, a mutation history, then either (a) a reopen inserted at one position with observations after it and after " +
		"every later op, or (b) one mutating call killed after k top-level writes (every k up to completion), the directory reopened, " +
		"the raw key dump and an observation; distinct = distinct (history, position) / (state, call, k); non-trivial = the history " +
		"has an accepted write before the restart / the cut is interior (0 < k < number of writes) or the call writes at all"
	emit := func(op map[string]interface{}) map[string]interface{} {
		obs := w.Exec(op)
		r.Emit(op, obs)
		r.Count("op:" + opKind(op))
		return obs
	}
	reset := map[string]interface{}{"op": "reset"}
	reopen := map[string]interface{}{"op": "reopen"}

	// (a) a restart at every position of generated histories
	nh, lh := 8, 5
	if r.Tier == "thorough" {
		nh, lh = 40, 8
	}
	hists := [][]map[string]interface{}{}
	for i, d := range c04Directed() {
		if r.Tier == "thorough" || i != 1 {
			hists = append(hists, d)
		}
	}
	for h := 0; h < nh; h++ {
		n := 2 + r.Rng.Intn(lh-1)
		ops := c03Random(r, n)
		if r.Rng.Intn(3) > 0 { // most histories start with a graph so that later writes are accepted
			ops[0] = map[string]interface{}{"op": "addGraph", "g": "g1"}
		}
		hists = append(hists, ops)
	}
	for hi, ops := range hists {
		for p := 0; p <= len(ops); p++ {
			emit(reset)
			okw := false
			for _, op := range ops[:p] {
				if o := emit(op); o["r"] == "ok" {
					okw = true
				}
			}
			emit(reopen)
			emit(c03ObserveWide)
			for _, op := range ops[p:] {
				emit(op)
				emit(c03ObserveWide)
			}
			if r.Rng.Intn(4) == 0 { // a second restart at the end
				emit(reopen)
				emit(c03ObserveWide)
			}
			if okw {
				r.NonTrivial(fmt.Sprintf("re-%d-%d", hi, p))
			}
			r.Count("restart_positions")
		}
		if hi == len(hists)-nh {
			s := []interface{}{}
			for _, op := range ops {
				s = append(s, op)
			}
			r.AddSample(s)
		}
	}
	r.Dist["restart_histories"] = len(hists)

	// (b) fault enumeration: every call kind on a set of states, every cut
	ns := 1
	if r.Tier == "thorough" {
		ns = 5
	}
	states := [][]map[string]interface{}{}
	for i, d := range c04Directed() {
		if r.Tier == "thorough" || i == 0 || i == 2 {
			states = append(states, d)
		}
	}
	ndirected := len(states)
	for s := 0; s < ns; s++ {
		ops := c03Random(r, 3+r.Rng.Intn(8))
		ops[0] = map[string]interface{}{"op": "addGraph", "g": "g1"}
		states = append(states, ops)
	}
	targets := c04Targets()
	for si, hist := range states {
		tg := targets
		if si >= ndirected { // random states also get random calls
			tg = append(append([]map[string]interface{}{}, targets...), c03Random(r, 6)...)
		}
		for ti, t := range tg {
			for k := 0; k < 64; k++ {
				emit(reset)
				for _, op := range hist {
					emit(op)
				}
				o := emit(c04Crash(k, t))
				emit(c03ObserveWide)
				// what the killed call left behind must stay invisible: re-create the graphs the
				// history and the call name, then ask for the weak invariant of the whole store
				for _, gname := range []string{"g1", "g2", "g3"} {
					emit(map[string]interface{}{"op": "addGraph", "g": gname})
				}
				emit(map[string]interface{}{"op": "weak"})
				emit(c03ObserveWide)
				if r.Tier == "thorough" || len(hist) <= 2 {
					// the restarted server keeps working: one more accepted write and a look at it
					emit(map[string]interface{}{"op": "addGraph", "g": "g1"})
					emit(map[string]interface{}{"op": "addV", "g": "g1", "vs": []interface{}{c03V("q", "L", nil)}})
					emit(c03ObserveWide)
				}
				r.Count("crash_cases")
				r.Count("crash:" + opKind(t))
				ab, _ := o["aborted"].(bool)
				if wk, ok := o["weak"].(bool); ok && !wk {
					r.Count("crash_weak_false")
				}
				if k > 0 {
					r.NonTrivial(fmt.Sprintf("cr-%d-%d-%d", si, ti, k))
				}
				if ab && k > 0 {
					r.Count("crash_interior_cuts")
				}
				if !ab {
					r.Dist[fmt.Sprintf("writes:%s:%d", opKind(t), k)]++
					break
				}
			}
		}
	}
	// (c) a hub vertex with several hundred incident edges: DelVertex then removes more than a
	// thousand keys (three per edge), DeleteGraph several thousand — the sizes at which a delete
	// might be split into several store transactions.  Every cut until the call completes.
	{
		l := func(xs ...interface{}) []interface{} { return xs }
		nhub := 340
		if r.Tier == "thorough" {
			nhub = 700
		}
		es := []interface{}{}
		for i := 0; i < nhub; i++ {
			switch i % 3 {
			case 0:
				es = append(es, c03E(fmt.Sprintf("h%03d", i), "L", "h", "a", nil))
			case 1:
				es = append(es, c03E(fmt.Sprintf("h%03d", i), "M", "b", "h", nil))
			default:
				es = append(es, c03E(fmt.Sprintf("h%03d", i), "L", "h", "h", nil))
			}
		}
		hub := []map[string]interface{}{
			{"op": "addGraph", "g": "g1"},
			{"op": "addV", "g": "g1", "vs": l(c03V("h", "L", nil), c03V("a", "L", nil), c03V("b", "M", nil))},
			{"op": "addE", "g": "g1", "es": es},
		}
		for _, t := range []map[string]interface{}{{"op": "delV", "g": "g1", "id": "h"}, {"op": "delGraph", "g": "g1"}} {
			for k := 0; k < 64; k++ {
				emit(reset)
				for _, op := range hub {
					emit(op)
				}
				o := emit(c04Crash(k, t))
				emit(c03ObserveWide)
				emit(map[string]interface{}{"op": "addGraph", "g": "g1"})
				emit(map[string]interface{}{"op": "weak"})
				r.Count("crash_cases")
				r.Count("crash_hub:" + opKind(t))
				if k > 0 {
					r.NonTrivial(fmt.Sprintf("hub-%s-%d", opKind(t), k))
				}
				if ab, _ := o["aborted"].(bool); !ab {
					r.Dist[fmt.Sprintf("writes_hub:%s:%d", opKind(t), k)]++
					break
				}
			}
		}
	}
	// (d) one bulk load of several hundred edges (more than a thousand key writes): the sizes at which a
	// load might be committed in blocks (seed C04-l: a block boundary between the keys of ONE edge leaves,
	// after a crash, an edge record whose by-destination entry is missing).  Every cut until it completes.
	{
		nload := 340
		xs := []interface{}{map[string]interface{}{"v": c03V("h", "L", nil)}, map[string]interface{}{"v": c03V("a", "L", nil)}}
		for i := 0; i < nload; i++ {
			xs = append(xs, map[string]interface{}{"e": c03E(fmt.Sprintf("b%03d", i), "L", "h", "a", nil)})
		}
		t := map[string]interface{}{"op": "bulk", "g": "g1", "xs": xs}
		for k := 0; k < 16; k++ {
			emit(reset)
			emit(map[string]interface{}{"op": "addGraph", "g": "g1"})
			o := emit(c04Crash(k, t))
			emit(c03ObserveWide)
			emit(map[string]interface{}{"op": "weak"})
			r.Count("crash_cases")
			r.Count("crash_bulkload")
			if k > 0 {
				r.NonTrivial(fmt.Sprintf("bulkload-%d", k))
			}
			if ab, _ := o["aborted"].(bool); !ab {
				r.Dist[fmt.Sprintf("writes_bulkload:%d", k)]++
				break
			}
		}
	}
	r.Dist["crash_states"] = len(states)
	r.Exhaustive = false
}

func init() {
	Registry["C04"] = Prop{
		Gen: C04Gen,
		Replay: func(r *Run, ops []map[string]interface{}) {
			w := NewC04World("level")
			defer w.Destroy()
			for _, op := range ops {
				r.Emit(op, w.Exec(op))
			}
		},
	}
}
