package hx

// C02 — query planning (index rewrite, load elision) never changes answers.
//
// Ops:
//   {"op":"reset","graph":{…}}                    → {"ok":true}
//   {"op":"opt","q":[…protojson statements…]}     → {"plan":[…canonical statements…]}
//        the real core.IndexStartOptimize, compared SYNTACTICALLY with the MODEL's
//        indexStartOptimize (canonical statement form c02CanonStmt / Grip.Drv.C02.canonStmt);
//        {"panic":true} when the optimizer panics (extractHasVals type assertions: C06's subject)
//   {"op":"query","q":[…],"cmp":"rows"|"nsub"|"sub"}
//        three executions of the same statements on the same stored graph:
//          lit    literal pipeline (C01's runner: no optimizer, every lookup forced to load)
//          prod   production compiler graph.Compiler() on the plain kvgraph (honours the
//                 "do not load" hint for edges, ignores it for vertices)
//          strip  production compiler over a wrapper that honours the hint EVERYWHERE: whenever
//                 load=false is passed the element comes back without data and Loaded=false
//        → {"t":type,"rows":[lit rows],"prod":true,"strip":true}   (cmp=rows; true = same multiset
//          and same result type as lit; otherwise the differing rows are given)
//        → {"t":type,"n":n,"sub":true,"prod":…,"strip":…}          (cmp=nsub: n and sub-multiset
//          of the literal untruncated result, for each of the three)
//   The MODEL answers the same line from Grip.run (literal), and its own elided executions
//   (runElided with honour = edges only / everywhere), which the theorems prove equal.

import (
	"context"
	"encoding/json"
	"fmt"
	"math/rand"
	"os"
	"reflect"
	"time"

	"github.com/bmeg/grip/engine/core"
	"github.com/bmeg/grip/gdbi"
	"github.com/bmeg/grip/gripql"
	"github.com/bmeg/grip/util/protoutil"
)

// ---------- a backend that honours the "do not load" hint everywhere ----------

type c02Strip struct {
	gdbi.GraphInterface
}

func (w *c02Strip) Compiler() gdbi.Compiler { return core.NewCompiler(w, core.IndexStartOptimize) }

func c02StripV(v *gdbi.Vertex) *gdbi.Vertex {
	if v == nil {
		return nil
	}
	return &gdbi.Vertex{ID: v.ID, Label: v.Label, From: v.From, To: v.To, Data: map[string]interface{}{}, Loaded: false}
}

func (w *c02Strip) GetVertex(id string, load bool) *gdbi.Vertex {
	v := w.GraphInterface.GetVertex(id, load)
	if !load {
		return c02StripV(v)
	}
	return v
}
func (w *c02Strip) GetEdge(id string, load bool) *gdbi.Edge {
	v := w.GraphInterface.GetEdge(id, load)
	if !load {
		return c02StripV(v)
	}
	return v
}
func (w *c02Strip) GetVertexList(ctx context.Context, load bool) <-chan *gdbi.Vertex {
	in := w.GraphInterface.GetVertexList(ctx, load)
	if load {
		return in
	}
	out := make(chan *gdbi.Vertex, 100)
	go func() {
		defer close(out)
		for v := range in {
			out <- c02StripV(v)
		}
	}()
	return out
}
func (w *c02Strip) GetEdgeList(ctx context.Context, load bool) <-chan *gdbi.Edge {
	in := w.GraphInterface.GetEdgeList(ctx, load)
	if load {
		return in
	}
	out := make(chan *gdbi.Edge, 100)
	go func() {
		defer close(out)
		for v := range in {
			out <- c02StripV(v)
		}
	}()
	return out
}
func c02StripChan(in chan gdbi.ElementLookup, load bool) chan gdbi.ElementLookup {
	if load {
		return in
	}
	out := make(chan gdbi.ElementLookup, 100)
	go func() {
		defer close(out)
		for x := range in {
			x.Vertex = c02StripV(x.Vertex)
			x.Edge = c02StripV(x.Edge)
			out <- x
		}
	}()
	return out
}
func (w *c02Strip) GetVertexChannel(ctx context.Context, req chan gdbi.ElementLookup, load bool) chan gdbi.ElementLookup {
	return c02StripChan(w.GraphInterface.GetVertexChannel(ctx, req, load), load)
}
func (w *c02Strip) GetOutChannel(ctx context.Context, req chan gdbi.ElementLookup, load bool, emitNull bool, edgeLabels []string) chan gdbi.ElementLookup {
	return c02StripChan(w.GraphInterface.GetOutChannel(ctx, req, load, emitNull, edgeLabels), load)
}
func (w *c02Strip) GetInChannel(ctx context.Context, req chan gdbi.ElementLookup, load bool, emitNull bool, edgeLabels []string) chan gdbi.ElementLookup {
	return c02StripChan(w.GraphInterface.GetInChannel(ctx, req, load, emitNull, edgeLabels), load)
}
func (w *c02Strip) GetOutEdgeChannel(ctx context.Context, req chan gdbi.ElementLookup, load bool, emitNull bool, edgeLabels []string) chan gdbi.ElementLookup {
	return c02StripChan(w.GraphInterface.GetOutEdgeChannel(ctx, req, load, emitNull, edgeLabels), load)
}
func (w *c02Strip) GetInEdgeChannel(ctx context.Context, req chan gdbi.ElementLookup, load bool, emitNull bool, edgeLabels []string) chan gdbi.ElementLookup {
	return c02StripChan(w.GraphInterface.GetInEdgeChannel(ctx, req, load, emitNull, edgeLabels), load)
}

// ---------- canonical statements (syntactic comparison of optimizer output) ----------

func c02StrList(xs []string) []interface{} {
	out := []interface{}{}
	for _, x := range xs {
		out = append(out, x)
	}
	return out
}

func c02CanonHas(h *gripql.HasExpression) interface{} {
	if h == nil {
		return []interface{}{"none"}
	}
	if c := h.GetCondition(); c != nil {
		var v interface{}
		if c.Value != nil {
			v = c.Value.AsInterface()
		}
		return []interface{}{"c", c.Key, c.Condition.String(), Tag(v)}
	}
	list := func(name string, es []*gripql.HasExpression) interface{} {
		xs := []interface{}{}
		for _, e := range es {
			xs = append(xs, c02CanonHas(e))
		}
		return []interface{}{name, xs}
	}
	if a := h.GetAnd(); a != nil {
		return list("and", a.GetExpressions())
	}
	if o := h.GetOr(); o != nil {
		return list("or", o.GetExpressions())
	}
	if n := h.GetNot(); n != nil {
		return []interface{}{"not", c02CanonHas(n)}
	}
	return []interface{}{"none"}
}

func c02CanonStmt(gs *gripql.GraphStatement) interface{} {
	switch s := gs.GetStatement().(type) {
	case *gripql.GraphStatement_V:
		return []interface{}{"v", c02StrList(protoutil.AsStringList(s.V))}
	case *gripql.GraphStatement_E:
		return []interface{}{"e", c02StrList(protoutil.AsStringList(s.E))}
	case *gripql.GraphStatement_In:
		return []interface{}{"in", c02StrList(protoutil.AsStringList(s.In))}
	case *gripql.GraphStatement_Out:
		return []interface{}{"out", c02StrList(protoutil.AsStringList(s.Out))}
	case *gripql.GraphStatement_InE:
		return []interface{}{"inE", c02StrList(protoutil.AsStringList(s.InE))}
	case *gripql.GraphStatement_OutE:
		return []interface{}{"outE", c02StrList(protoutil.AsStringList(s.OutE))}
	case *gripql.GraphStatement_Both:
		return []interface{}{"both", c02StrList(protoutil.AsStringList(s.Both))}
	case *gripql.GraphStatement_BothE:
		return []interface{}{"bothE", c02StrList(protoutil.AsStringList(s.BothE))}
	case *gripql.GraphStatement_HasLabel:
		return []interface{}{"hasLabel", c02StrList(protoutil.AsStringList(s.HasLabel))}
	case *gripql.GraphStatement_HasKey:
		return []interface{}{"hasKey", c02StrList(protoutil.AsStringList(s.HasKey))}
	case *gripql.GraphStatement_HasId:
		return []interface{}{"hasId", c02StrList(protoutil.AsStringList(s.HasId))}
	case *gripql.GraphStatement_Distinct:
		return []interface{}{"distinct", c02StrList(protoutil.AsStringList(s.Distinct))}
	case *gripql.GraphStatement_Fields:
		return []interface{}{"fields", c02StrList(protoutil.AsStringList(s.Fields))}
	case *gripql.GraphStatement_As:
		return []interface{}{"as", s.As}
	case *gripql.GraphStatement_Select:
		return []interface{}{"select", c02StrList(s.Select.GetMarks())}
	case *gripql.GraphStatement_Limit:
		return []interface{}{"limit", s.Limit}
	case *gripql.GraphStatement_Skip:
		return []interface{}{"skip", s.Skip}
	case *gripql.GraphStatement_Range:
		return []interface{}{"range", s.Range.GetStart(), s.Range.GetStop()}
	case *gripql.GraphStatement_Has:
		return []interface{}{"has", c02CanonHas(s.Has)}
	case *gripql.GraphStatement_Unwind:
		return []interface{}{"unwind", s.Unwind}
	case *gripql.GraphStatement_Count:
		return []interface{}{"count"}
	case *gripql.GraphStatement_Render:
		return []interface{}{"render", Tag(s.Render.AsInterface())}
	case *gripql.GraphStatement_Path:
		return []interface{}{"path"}
	case *gripql.GraphStatement_LookupVertsIndex:
		return []interface{}{"lookupVertsIndex", c02StrList(s.Labels)}
	}
	return []interface{}{"other"}
}

// c02Optimize runs the real optimizer (it may panic on ill-shaped `within` values: C06's subject).
func c02Optimize(stmts []*gripql.GraphStatement) (plan []interface{}, panicked bool) {
	defer func() {
		if p := recover(); p != nil {
			plan, panicked = nil, true
		}
	}()
	out := core.IndexStartOptimize(stmts)
	plan = []interface{}{}
	for _, s := range out {
		plan = append(plan, c02CanonStmt(s))
	}
	return plan, false
}

// ---------- engine ----------

type c02Engine struct {
	c01 *c01Engine
}

// c02OptHazard: the optimizer (and therefore the production compiler) panics on this program —
// never run through the production compiler in-process (pipeline goroutines would kill us; here
// the panic is in Compile itself, which RunOn recovers, but the case is C06's, not C02's).
func c02OptHazard(q []c01Stmt) bool {
	stmts, err := StmtsFromJSON(toIfaces(q))
	if err != nil {
		return true
	}
	_, p := c02Optimize(stmts)
	return p
}

func (c *c02Engine) runOn(g gdbi.GraphInterface, q []c01Stmt) c01Result {
	stmts, err := StmtsFromJSON(toIfaces(q))
	if err != nil {
		return c01Result{bad: "decode: " + err.Error()}
	}
	pipe, err, pnc := SafeCompile(g, stmts)
	if pnc != "" {
		return c01Result{bad: "panic in Compile: " + pnc}
	}
	if err != nil {
		return c01Result{compileErr: true}
	}
	out := RunOn(g, stmts, c.c01.eng.Work, 30*time.Second)
	if out.Err != nil {
		return c01Result{compileErr: true}
	}
	if out.TimedOut {
		for _, st := range q {
			if c01Kind(st) == "distinct" {
				return c01Result{slow: true}
			}
		}
		return c01Result{bad: "timeout"}
	}
	if out.Panic != "" {
		return c01Result{bad: "panic: " + out.Panic}
	}
	return c01Result{typ: c01TypeNames[pipe.DataType()], rows: CanonRows(out.Rows, true)}
}

func c02Same(a, b c01Result) bool {
	return a.compileErr == b.compileErr && a.typ == b.typ && reflect.DeepEqual(c02JSON(a.rows), c02JSON(b.rows))
}

func c02JSON(v interface{}) string {
	b, _ := json.Marshal(v)
	return string(b)
}

func (c *c02Engine) exec(op map[string]interface{}) map[string]interface{} {
	switch op["op"] {
	case "reset":
		return c.c01.exec(op)
	case "selftest":
		return map[string]interface{}{"ok": true}
	case "opt":
		q := c01Stmts(op["q"])
		stmts, err := StmtsFromJSON(toIfaces(q))
		if err != nil {
			return map[string]interface{}{"bad": "decode: " + err.Error()}
		}
		plan, p := c02Optimize(stmts)
		if p {
			return map[string]interface{}{"panic": true}
		}
		return map[string]interface{}{"plan": plan}
	case "query":
		q := c01Stmts(op["q"])
		if c01Hazard(q) {
			return map[string]interface{}{"skip": true, "why": "unwind on nil element (C06)"}
		}
		if c02OptHazard(q) {
			return map[string]interface{}{"skip": true, "why": "optimizer panics (C06)"}
		}
		hasDistinct := false
		for _, st := range q {
			if c01Kind(st) == "distinct" {
				hasDistinct = true
			}
		}
		if hasDistinct && c.c01.distinctSlow {
			return map[string]interface{}{"skip": true, "why": "distinct: temporary store too slow on this machine"}
		}
		base, err := c.c01.eng.DB.Graph(c.c01.graph)
		if err != nil {
			return map[string]interface{}{"bad": err.Error()}
		}
		t0 := time.Now()
		runs := map[string]c01Result{
			"lit":   c.runOn(&c01FullLoad{base}, q),
			"prod":  c.runOn(base, q),
			"strip": c.runOn(&c02Strip{base}, q),
		}
		if hasDistinct && time.Since(t0) > 12*time.Second {
			c.c01.distinctSlow = true
		}
		for _, r := range runs {
			if r.slow {
				c.c01.distinctSlow = true
				return map[string]interface{}{"skip": true, "why": "distinct: timeout opening temporary store"}
			}
		}
		lit := runs["lit"]
		if lit.bad != "" {
			return map[string]interface{}{"bad": "lit: " + lit.bad}
		}
		cmp, _ := op["cmp"].(string)
		if lit.compileErr {
			out := map[string]interface{}{"err": "compile"}
			for _, k := range []string{"prod", "strip"} {
				r := runs[k]
				if r.bad != "" {
					out[k] = "bad: " + r.bad
				} else {
					out[k] = r.compileErr
				}
			}
			return out
		}
		switch cmp {
		case "skip":
			return map[string]interface{}{"skip": true}
		case "nsub", "sub":
			_, untr := c01Classify(q)
			u := c.runOn(&c01FullLoad{base}, untr)
			if u.slow {
				return map[string]interface{}{"skip": true}
			}
			if u.bad != "" || u.compileErr {
				return map[string]interface{}{"bad": "untruncated run failed: " + u.bad}
			}
			out := map[string]interface{}{"t": lit.typ, "sub": c01SubMultiset(lit.rows, u.rows)}
			if cmp == "nsub" {
				out["n"] = len(lit.rows)
			}
			for _, k := range []string{"prod", "strip"} {
				r := runs[k]
				ok := r.bad == "" && !r.compileErr && r.typ == lit.typ && c01SubMultiset(r.rows, u.rows) &&
					(cmp != "nsub" || len(r.rows) == len(lit.rows))
				if ok {
					out[k] = true
				} else {
					out[k] = map[string]interface{}{"bad": r.bad, "err": r.compileErr, "t": r.typ, "rows": r.rows}
				}
			}
			return out
		}
		out := map[string]interface{}{"t": lit.typ, "rows": lit.rows}
		for _, k := range []string{"prod", "strip"} {
			r := runs[k]
			if r.bad == "" && c02Same(lit, r) {
				out[k] = true
			} else {
				out[k] = map[string]interface{}{"bad": r.bad, "err": r.compileErr, "t": r.typ, "rows": r.rows}
			}
		}
		return out
	}
	return map[string]interface{}{"bad": "unknown op"}
}

// ---------- generators ----------

func c02And(xs ...interface{}) map[string]interface{} {
	return map[string]interface{}{"and": map[string]interface{}{"expressions": xs}}
}
func c02Or(xs ...interface{}) map[string]interface{} {
	return map[string]interface{}{"or": map[string]interface{}{"expressions": xs}}
}
func c02C(key, cond string, val interface{}) map[string]interface{} {
	return map[string]interface{}{"condition": map[string]interface{}{"key": key, "value": val, "condition": cond}}
}
func c02Has(x map[string]interface{}) c01Stmt { return c01Stmt{"has": x} }

// c02Filters: the leading-filter alphabet (spellings of id/label filters, duplicates, within
// lists, nested and(), non-optimisable look-alikes).
func c02Filters() []c01Stmt {
	return []c01Stmt{
		{"hasId": sl("v1")},
		{"hasId": sl("v2", "v2", "v1")},
		{"hasId": sl("zz", "v3")},
		{"hasLabel": sl("A")},
		{"hasLabel": sl("B", "A", "B")},
		c02Has(c02C("_gid", "EQ", "v1")),
		c02Has(c02C("$._gid", "EQ", "v2")),
		c02Has(c02C("$a._gid", "EQ", "v1")),
		c02Has(c02C("_gid", "WITHIN", sl("v1", "v3", "v1"))),
		c02Has(c02C("_gid", "WITHIN", sl())),
		c02Has(c02C("_gid", "NEQ", "v1")),
		c02Has(c02C("_gid", "EQ", 5.0)),
		c02Has(c02C("_label", "EQ", "A")),
		c02Has(c02C("_label", "WITHIN", sl("A", "B", "A"))),
		c02Has(c02C("_label", "WITHOUT", sl("A"))),
		c02Has(c02And(c02C("_label", "EQ", "A"))),
		c02Has(c02And(c02C("_label", "WITHIN", sl("A")), c02C("_gid", "WITHIN", sl("v1", "v2", "v4")))),
		c02Has(c02And(c02And(c02C("_gid", "EQ", "v2"), c02C("x", "GTE", 0.0)), c02And())),
		c02Has(c02And()),
		c02Has(c02Or(c02C("_label", "EQ", "A"), c02C("_gid", "EQ", "v1"))),
		c02Has(map[string]interface{}{"not": c02C("_label", "EQ", "A")}),
		c02Has(c02C("x", "GT", 0.0)),
		c02Has(c02C("label", "EQ", "A")),
		{"hasKey": sl("name")},
	}
}

// c02Steps: the elision alphabet — movers, marks, and steps that read element data of the
// current element or of a mark.
func c02Steps() []c01Stmt {
	return []c01Stmt{
		{"out": sl()}, {"in": sl("k", "l")}, {"outE": sl()}, {"inE": sl()}, {"both": sl()}, {"bothE": sl("k")},
		{"as": "a"}, {"as": "b"},
		{"select": map[string]interface{}{"marks": sl("a")}}, {"select": map[string]interface{}{"marks": sl("a", "b")}},
		c02Has(c02C("x", "GTE", 0.0)), c02Has(c02C("$a.x", "GTE", 0.0)),
		{"hasKey": sl("name", "x")}, {"hasKey": sl("$a.name")},
		{"hasLabel": sl("A", "k")}, {"hasId": sl("v1", "v2", "e1", "e2")},
		{"render": map[string]interface{}{"n": "name", "g": "_gid", "a": "$a.name", "b": "$b._label"}},
		{"fields": sl("name")}, {"fields": sl("-x")},
		{"unwind": "tags"}, {"path": sl()}, {"count": ""}, {"limit": 2},
	}
}

func c02Join(parts ...[]c01Stmt) []c01Stmt {
	out := []c01Stmt{}
	for _, p := range parts {
		out = append(out, p...)
	}
	return out
}

// c02RandomFilter: random leading filter (random spellings, duplicates, nesting).
func c02RandomFilter(r *rand.Rand, depth int) map[string]interface{} {
	ids := []string{"v1", "v2", "v3", "v4", "zz"}
	labels := []string{"A", "B", "C", "k"}
	strs := func(pool []string) []interface{} {
		out := []interface{}{}
		for i := r.Intn(4); i > 0; i-- {
			out = append(out, Pick(r, pool))
		}
		return out
	}
	switch r.Intn(9) {
	case 0:
		return c02C(Pick(r, []string{"_gid", "$._gid"}), "EQ", Pick(r, ids))
	case 1:
		return c02C("_gid", "WITHIN", strs(ids))
	case 2:
		return c02C(Pick(r, []string{"_label", "$._label"}), "EQ", Pick(r, labels))
	case 3:
		return c02C("_label", "WITHIN", strs(labels))
	case 4:
		return c02C(Pick(r, []string{"_gid", "_label", "x", "name"}), Pick(r, []string{"NEQ", "WITHOUT", "GT", "CONTAINS"}), c01Value(r))
	case 5, 6:
		if depth > 0 {
			xs := []interface{}{}
			for i := r.Intn(4); i > 0; i-- {
				xs = append(xs, c02RandomFilter(r, depth-1))
			}
			return c02And(xs...)
		}
	case 7:
		if depth > 0 {
			return c02Or(c02RandomFilter(r, depth-1), c02RandomFilter(r, depth-1))
		}
	}
	return c01HasExpr(r, 1, nil)
}

func c02RandomLeading(r *rand.Rand) []c01Stmt {
	q := []c01Stmt{{"v": sl()}}
	if r.Intn(12) == 0 {
		q = []c01Stmt{{"v": sl("v1", "v2")}}
	} else if r.Intn(12) == 0 {
		q = []c01Stmt{{"e": sl()}}
	}
	for i := r.Intn(4); i > 0; i-- {
		switch r.Intn(5) {
		case 0:
			q = append(q, c01Stmt{"hasId": []interface{}{Pick(r, []string{"v1", "v2", "e1"}), Pick(r, []string{"v1", "v3", "zz"})}})
		case 1:
			q = append(q, c01Stmt{"hasLabel": []interface{}{Pick(r, c01VLabels), Pick(r, c01VLabels)}})
		default:
			q = append(q, c02Has(c02RandomFilter(r, 2)))
		}
	}
	return q
}

func c02Gen(r *Run) {
	eng, err := NewEng("badger")
	if err != nil {
		panic(err)
	}
	defer eng.Destroy()
	c := &c02Engine{c01: &c01Engine{eng: eng, emptyPrev: true}}
	thorough := r.Tier == "thorough"
	budget := 45 * time.Second
	if thorough {
		budget = 5 * time.Minute
	}
	if b := os.Getenv("C02_BUDGET_S"); b != "" {
		var n int
		fmt.Sscanf(b, "%d", &n)
		budget = time.Duration(n) * time.Second
	}
	t0 := time.Now()
	over := func(frac float64) bool { return time.Since(t0) > time.Duration(float64(budget)*frac) }

	emit := func(op map[string]interface{}) map[string]interface{} {
		obs := c.exec(op)
		r.Emit(op, obs)
		return obs
	}
	nq := 0
	var curGraph map[string]interface{}
	reset := func(g map[string]interface{}) {
		curGraph = g
		nq = 0
		emit(map[string]interface{}{"op": "reset", "graph": g})
	}
	query := func(q []c01Stmt) map[string]interface{} {
		if nq > 0 && nq%300 == 0 {
			reset(curGraph) // keeps replay cases short
		}
		nq++
		cmp, _ := c01Classify(q)
		obs := emit(map[string]interface{}{"op": "query", "q": toIfaces(q), "cmp": cmp})
		r.Count("cmp:" + cmp)
		switch {
		case obs["err"] != nil:
			r.Count("outcome:compile-error")
		case obs["skip"] != nil:
			r.Count("outcome:skipped")
		default:
			r.Count("outcome:rows")
			if rows, ok := obs["rows"].([]interface{}); ok && len(rows) > 0 {
				r.NonTrivial(c02JSON(q))
			}
			if n, ok := obs["n"].(int); ok && n > 0 {
				r.NonTrivial(c02JSON(q))
			}
		}
		return obs
	}
	opt := func(q []c01Stmt) {
		obs := emit(map[string]interface{}{"op": "opt", "q": toIfaces(q)})
		if obs["panic"] != nil {
			r.Count("opt:panic")
		} else {
			plan, _ := obs["plan"].([]interface{})
			changed := len(plan) != len(q)
			if len(plan) > 0 {
				if p0, ok := plan[0].([]interface{}); ok && len(q) > 0 {
					if p0[0] == "lookupVertsIndex" {
						r.Count("opt:label-index")
						changed = true
					} else if p0[0] == "v" && len(p0[1].([]interface{})) > 0 && len(q[0]["v"].([]interface{})) == 0 {
						r.Count("opt:id-lookup")
						changed = true
					}
				}
			}
			if !changed {
				r.Count("opt:unchanged")
			}
		}
	}

	// graphs: the dense witness graph, the empty graph, random graphs
	ngraphs := 3
	if thorough {
		ngraphs = 8
	}
	graphs := []map[string]interface{}{}
	for i := 0; i < ngraphs; i++ {
		kind := 2
		if i == 0 {
			kind = 1
		} else if i == 1 {
			kind = 0
		}
		graphs = append(graphs, c01Graph(r.Rng, kind))
	}
	r.AddSample(graphs[0])
	emit(map[string]interface{}{"op": "selftest"})

	// (1) optimizer output, syntactically: all leading-filter sequences to length 2 (3 thorough)
	// over the filter alphabet, each with and without a tail, plus starts that must not be rewritten
	filters := c02Filters()
	maxF := 2
	if thorough {
		maxF = 3
	}
	seqs := [][]c01Stmt{{}}
	level := [][]c01Stmt{{}}
	for l := 1; l <= maxF; l++ {
		next := [][]c01Stmt{}
		for _, p := range level {
			for _, f := range filters {
				next = append(next, c02Join(p, []c01Stmt{f}))
			}
		}
		seqs = append(seqs, next...)
		level = next
	}
	r.Dist["opt:exhaustive-filter-sequences"] = len(seqs)
	for _, s := range seqs {
		opt(c02Join([]c01Stmt{{"v": sl()}}, s))
		if len(s) <= 1 || thorough {
			opt(c02Join([]c01Stmt{{"v": sl()}}, s, []c01Stmt{{"out": sl()}, {"hasId": sl("v1")}, c02Has(c02And(c02C("_gid", "EQ", "v1")))}))
		}
		if len(s) == 1 {
			opt(c02Join([]c01Stmt{{"v": sl("v1", "v2")}}, s))
			opt(c02Join([]c01Stmt{{"e": sl()}}, s))
			opt(c02Join([]c01Stmt{{"v": sl()}, {"as": "a"}}, s))
		}
	}
	nrOpt := 300
	if thorough {
		nrOpt = 5000
	}
	for i := 0; i < nrOpt; i++ {
		opt(c02RandomLeading(r.Rng))
	}

	// (2) leading-filter programs executed three ways
	tails := [][]c01Stmt{{}, {{"count": ""}}, {{"out": sl()}}, {{"as": "a"}, {"outE": sl()}, {"render": map[string]interface{}{"a": "$a.name", "l": "_label"}}}}
	r.Exhaustive = true
	for gi, g := range graphs {
		if gi > 0 && over(0.35) {
			r.Count("leading:graphs-not-reached")
			continue
		}
		reset(g)
		for _, s := range seqs {
			if len(s) > 2 && gi > 0 {
				continue
			}
			if over(0.45) && (gi > 0 || len(s) > 1) {
				r.Exhaustive = false
				r.Count("leading:not-run-budget")
				continue
			}
			tl := tails[0]
			if len(s) <= 1 {
				for _, t := range tails[1:] {
					query(c02Join([]c01Stmt{{"v": sl()}}, s, t))
				}
			} else if gi == 0 {
				tl = tails[(len(r.Dist)+nq)%2]
			}
			query(c02Join([]c01Stmt{{"v": sl()}}, s, tl))
			if len(s) == 1 {
				query(c02Join([]c01Stmt{{"e": sl()}}, s))
			}
		}
	}

	// (3) elision alphabet: all step sequences to length 2 (3 thorough) after V() and after E()
	steps := c02Steps()
	maxS := 2
	if thorough {
		maxS = 3
	}
	progs := [][]c01Stmt{}
	lvl := [][]c01Stmt{{{"v": sl()}}, {{"e": sl()}}}
	reset(graphs[0])
	baseG, _ := eng.DB.Graph(c.c01.graph)
	for l := 1; l <= maxS; l++ {
		next := [][]c01Stmt{}
		for _, p := range lvl {
			for _, s := range steps {
				q := c02Join(p, []c01Stmt{s})
				stmts, err := StmtsFromJSON(toIfaces(q))
				if err != nil {
					panic(err)
				}
				if _, err := (&c01FullLoad{baseG}).Compiler().Compile(stmts, nil); err != nil {
					continue // ill-typed: C01's subject
				}
				next = append(next, q)
			}
		}
		progs = append(progs, next...)
		lvl = next
	}
	r.Dist["elision:exhaustive-programs"] = len(progs)
	for gi, g := range graphs {
		if gi == 1 {
			continue // empty graph: nothing to elide
		}
		if gi > 0 && over(0.75) {
			r.Count("elision:graphs-not-reached")
			continue
		}
		if gi > 0 {
			reset(g)
		}
		for _, q := range progs {
			if c01Hazard(q) {
				r.Count("hazard:not-run")
				continue
			}
			if over(0.85) && (gi > 0 || len(q) > 3) {
				r.Exhaustive = false
				r.Count("elision:not-run-budget")
				continue
			}
			query(q)
		}
	}

	// (4) fixed programs: distinct on marks, repeated mark names, select then read
	reset(graphs[0])
	for _, q := range [][]c01Stmt{
		{{"v": sl()}, {"as": "a"}, {"out": sl()}, {"distinct": sl("$a.name")}},
		{{"v": sl()}, {"as": "a"}, {"outE": sl()}, {"as": "a"}, {"out": sl()}, {"distinct": sl("$a.x")}, {"count": ""}},
		{{"e": sl()}, {"as": "a"}, {"out": sl()}, {"as": "b"}, {"select": map[string]interface{}{"marks": sl("a")}}, {"hasKey": sl("x")}, {"count": ""}},
		{{"e": sl()}, {"as": "a"}, {"out": sl()}, {"has": c02C("$a.x", "GTE", 0.0)}, {"outE": sl()}, {"as": "a"}, {"count": ""}},
		{{"e": sl()}, {"distinct": sl("name")}, {"count": ""}},
		{{"v": sl()}, {"outE": sl()}, {"distinct": sl()}, {"out": sl()}, {"count": ""}},
	} {
		query(q)
	}

	// (4s) every SPELLING of a property reference (`x`, `$.x`, `_data.x`, `$._data.x`, `$a.x`,
	// `$a._data.x`, the whole `_data` / `$a._data` map) read by every kind of reader, on a step whose
	// data nothing else needs (an edge step followed by count / a move / render of ids only): the
	// "what does a later statement need" analysis must see through each spelling
	{
		reset(graphs[0])
		readers := func(f string) [][]c01Stmt {
			return [][]c01Stmt{
				{c02Has(c02C(f, "GTE", 0.0))}, {c02Has(c02C(f, "NEQ", "zz"))}, {{"hasKey": sl(f)}}, {{"distinct": sl(f)}},
				{{"render": map[string]interface{}{"v": f}}},
			}
		}
		tails := [][]c01Stmt{{{"count": ""}}, {{"out": sl()}, {"count": ""}}, {{"render": map[string]interface{}{"g": "_gid"}}}, {}}
		for _, f := range []string{"x", "$.x", "_data.x", "$._data.x", "_data", "name", "_data.name", "_data.nested.k"} {
			for _, pre := range [][]c01Stmt{{{"e": sl()}}, {{"v": sl()}, {"outE": sl()}}, {{"v": sl()}, {"inE": sl("k", "l")}}, {{"v": sl()}}} {
				for _, rd := range readers(f) {
					for _, tl := range tails {
						r.Count("spelling")
						query(c02Join(pre, rd, tl))
					}
				}
			}
		}
		for _, f := range []string{"$a.x", "$a._data.x", "$a._data", "$a._data.name"} {
			for _, pre := range [][]c01Stmt{{{"e": sl()}, {"as": "a"}, {"out": sl()}}, {{"v": sl()}, {"outE": sl()}, {"as": "a"}, {"out": sl()}, {"outE": sl()}},
				{{"v": sl()}, {"as": "a"}, {"out": sl()}}} {
				for _, rd := range readers(f) {
					for _, tl := range tails[:2] {
						r.Count("spelling")
						query(c02Join(pre, rd, tl))
					}
				}
			}
		}
	}

	// (4a) start prefixes: V(), one or two steps that are NOT hoistable filters, then a filter the
	// index rewrite would hoist if it (wrongly) looked through what stands between.  as/hasKey
	// commute with the filter; distinct/limit/fields/out do not.
	// on a graph where the first vertex of the scan shares its `name` (and `x`) with a later one of
	// another label: distinct() keeps the first, which the filter then drops
	reset(map[string]interface{}{"vertices": []interface{}{
		map[string]interface{}{"gid": "v1", "label": "B", "data": map[string]interface{}{"name": "alex", "x": 1.0}},
		map[string]interface{}{"gid": "v2", "label": "A", "data": map[string]interface{}{"name": "alex", "x": 1.0}},
		map[string]interface{}{"gid": "v3", "label": "A", "data": map[string]interface{}{"name": "kim", "x": 2.0}},
		map[string]interface{}{"gid": "v4", "label": "C", "data": map[string]interface{}{"name": "kim"}},
	}, "edges": []interface{}{
		map[string]interface{}{"gid": "e1", "label": "k", "from": "v1", "to": "v2", "data": map[string]interface{}{}},
		map[string]interface{}{"gid": "e2", "label": "k", "from": "v2", "to": "v3", "data": map[string]interface{}{}},
		map[string]interface{}{"gid": "e3", "label": "k", "from": "v4", "to": "v1", "data": map[string]interface{}{}},
	}})
	for _, mid := range [][]c01Stmt{
		{}, {{"as": "a"}}, {{"hasKey": sl("name")}}, {{"distinct": sl("name")}}, {{"distinct": sl("_label")}}, {{"limit": 2}},
		{{"fields": sl("name")}}, {{"out": sl()}}, {{"as": "a"}, {"distinct": sl("x")}}, {{"skip": 1}}, {{"both": sl()}, {"distinct": sl()}},
	} {
		for _, f := range []c01Stmt{
			{"hasLabel": sl("A")}, {"hasLabel": sl("B", "A")}, {"hasId": sl("v2", "v1")}, c02Has(c02C("_gid", "EQ", "v1")),
			c02Has(c02C("_label", "WITHIN", sl("A", "B"))),
		} {
			q := c02Join([]c01Stmt{{"v": sl()}}, mid, []c01Stmt{f})
			r.Count("startprefix")
			opt(q)
			query(q)
			query(c02Join(q, []c01Stmt{{"count": ""}}))
		}
	}

	// (4b) long traversals on a chain: a mark set in an early step and read ten or more steps later
	// (step ids are decimal strings in the analysis: "10" sorts before "2"), marks on edges (kvgraph
	// honours the do-not-load hint for them) and on vertices, read by has / select+hasKey / count.
	{
		vs := []interface{}{}
		es := []interface{}{}
		nchain := 14
		for i := 0; i < nchain; i++ {
			vs = append(vs, map[string]interface{}{"gid": fmt.Sprintf("n%02d", i), "label": "A", "data": map[string]interface{}{"x": float64(i), "name": "ann"}})
			if i+1 < nchain {
				es = append(es, map[string]interface{}{"gid": fmt.Sprintf("c%02d", i), "label": "k", "from": fmt.Sprintf("n%02d", i), "to": fmt.Sprintf("n%02d", i+1), "data": map[string]interface{}{"x": float64(i), "name": "bob"}})
			}
		}
		reset(map[string]interface{}{"vertices": vs, "edges": es})
		outs := func(k int) []c01Stmt {
			q := []c01Stmt{}
			for i := 0; i < k; i++ {
				q = append(q, c01Stmt{"out": sl()})
			}
			return q
		}
		for _, pre := range []int{0, 1, 3} { // vertex steps before the marked element
			for _, k := range []int{1, 6, 7, 8, 9, 10} { // vertex steps after it
				if pre+k > 11 {
					continue
				}
				start := c02Join([]c01Stmt{{"v": sl("n00")}}, outs(pre))
				r.Count("longmark")
				// mark on an edge
				query(c02Join(start, []c01Stmt{{"outE": sl()}, {"as": "a"}}, outs(k), []c01Stmt{{"has": c02C("$a.x", "GTE", 0.0)}}))
				query(c02Join(start, []c01Stmt{{"outE": sl()}, {"as": "a"}}, outs(k), []c01Stmt{{"has": c02C("$a.name", "EQ", "bob")}, {"count": ""}}))
				query(c02Join(start, []c01Stmt{{"outE": sl()}, {"as": "a"}}, outs(k), []c01Stmt{{"select": map[string]interface{}{"marks": sl("a")}}, {"hasKey": sl("x")}}))
				// mark on a vertex
				query(c02Join(start, []c01Stmt{{"as": "a"}}, outs(k+1), []c01Stmt{{"has": c02C("$a.name", "EQ", "ann")}}))
			}
		}
	}

	// (5) random: leading filters + C01's random well-typed programs
	nrand := 150
	if thorough {
		nrand = 4000
	}
	for i := 0; i < nrand; i++ {
		if i > 30 && over(1.0) {
			r.Count("random:not-run-budget")
			continue
		}
		if i%25 == 0 {
			g := Pick(r.Rng, graphs)
			if r.Rng.Intn(3) == 0 {
				g = c01Graph(r.Rng, 2)
			}
			reset(g)
		}
		var q []c01Stmt
		body := c01RandomProgram(r.Rng, 4+r.Rng.Intn(7), false, i%50 == 0)
		if r.Rng.Intn(2) == 0 {
			q = c02Join(c02RandomLeading(r.Rng), body[1:])
			// the body was typed from its own start; when the leading part starts elsewhere keep it
			if c01Kind(q[0]) != c01Kind(body[0]) {
				q = c02Join(c02RandomLeading(r.Rng)[:1], body[1:])
				q[0] = body[0]
			}
		} else {
			q = body
		}
		if c01Hazard(q) {
			r.Count("hazard:not-run")
			continue
		}
		obs := query(q)
		if i < 3 {
			r.AddSample(map[string]interface{}{"q": q, "obs": obs})
		}
	}
	// (6) a graph whose vertices were stored before under OTHER labels (relabelled: the label index of the
	// store still holds the old entries behind the records): a leading label filter that names the old and
	// the new label must return each vertex once, whichever way the plan finds it (seed C02-l)
	{
		vtx := func(id, label string, x float64) interface{} {
			return map[string]interface{}{"gid": id, "label": label, "data": map[string]interface{}{"x": x, "name": id}}
		}
		g := map[string]interface{}{
			"vertices": []interface{}{vtx("v1", "B", 1), vtx("v2", "A", 2), vtx("v3", "B", 3), vtx("v4", "C", 4)},
			"edges": []interface{}{map[string]interface{}{"gid": "e1", "label": "k", "from": "v1", "to": "v2", "data": map[string]interface{}{}},
				map[string]interface{}{"gid": "e2", "label": "k", "from": "v3", "to": "v1", "data": map[string]interface{}{}}},
			"history": []interface{}{vtx("v1", "A", 0), vtx("v3", "C", 0), vtx("v3", "A", 0), vtx("v4", "C", 9)},
		}
		reset(g)
		for _, q := range [][]c01Stmt{
			{{"v": sl()}, {"hasLabel": sl("A", "B")}},
			{{"v": sl()}, {"hasLabel": sl("B", "A")}, {"count": ""}},
			{{"v": sl()}, {"hasLabel": sl("A")}},
			{{"v": sl()}, {"hasLabel": sl("C", "A", "B")}},
			{{"v": sl()}, c02Has(c02C("_label", "WITHIN", []interface{}{"A", "B"}))},
			{{"v": sl()}, c02Has(c02C("_label", "WITHIN", []interface{}{"C", "B", "A"})), {"count": ""}},
			{{"v": sl()}, {"hasLabel": sl("A", "B")}, {"out": sl()}},
			{{"v": sl()}, {"hasLabel": sl("A", "B", "C")}, {"hasLabel": sl("B", "C")}},
			{{"v": sl()}, {"hasLabel": sl("C")}, {"count": ""}},
			{{"v": sl()}, {"hasLabel": sl("A", "C")}, {"in": sl()}, {"count": ""}},
		} {
			query(q)
			r.Count("relabelled")
		}
	}
	r.Rule = "distinct programs (statement lists) that produced at least one row"
}

func c02Replay(r *Run, ops []map[string]interface{}) {
	eng, err := NewEng("badger")
	if err != nil {
		panic(err)
	}
	defer eng.Destroy()
	c := &c02Engine{c01: &c01Engine{eng: eng, emptyPrev: true}}
	for _, op := range ops {
		if op["op"] == "query" && c.c01.graph == "" {
			c.c01.reset(map[string]interface{}{})
		}
		r.Emit(op, c.exec(op))
	}
}

func init() { Registry["C02"] = Prop{Gen: c02Gen, Replay: c02Replay} }
