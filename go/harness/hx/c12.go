package hx

// C12 — mark/jump loops: correspondence between the real engine (production compiler +
// engine/pipeline + engine/logic.JumpMark/Jump + engine/queue, embedded kvgraph) and the Lean
// SPEC (iterative definition, Grip.C12.iterate / the per-traveler unrolling) on generated loop
// programs x graphs x GOMAXPROCS settings.  Every program is run several times per setting; the
// observation is the sorted multiset of result rows (or timeout / unstable / crash).
//
// Programs are run in worker subprocesses (`hx C12 -mode worker -replay FILE`): a traveler-carrying
// goroutine that panics kills the process, and a loop that fails to shut down leaves busy-waiting
// goroutines behind, so a worker is abandoned after the first timeout.

import (
	"bufio"
	"encoding/json"
	"fmt"
	"os"
	"os/exec"
	"path/filepath"
	"runtime"
	"sort"
	"strings"
	"sync"
	"sync/atomic"
	"time"

	"github.com/bmeg/grip/gripql"
)

func init() {
	Registry["C12"] = Prop{Gen: func(r *Run) {
		if r.Mode == "queue" {
			c12QueueGen(r)
		} else {
			c12Gen(r)
		}
	}, Replay: func(r *Run, ops []map[string]interface{}) {
		if len(ops) > 0 && ops[0]["op"] == "queue" {
			C13Replay(r, ops)
		} else {
			c12Replay(r, ops)
		}
	}}
}

// c12QueueGen (mode "queue"): the queue that carries travelers from a jump back to its mark, on
// its own — C13's executor and model for engine/queue.  One element at a time ("pingpong": the
// situation of the LAST traveler or the last termination signal of a loop, which nothing else will
// flush out of the queue), the stall patterns round its output buffer, and the plain patterns.
func c12QueueGen(r *Run) {
	r.Rule = "queue cases: (input length, latency pattern, GOMAXPROCS)"
	c13Base = r.Dir
	g := &c13Gen{r: r, samples: map[string]int{}}
	// ~100 µs per hand-over on the unchanged tree (the queue's output side busy-waits): 3 s per case,
	// deadline 60 s; GOMAXPROCS >= 4, the number of spinning goroutines of a case
	n, reps := 30000, 1
	if r.Tier == "thorough" {
		reps = 6
	}
	for i := 0; i < reps; i++ {
		for _, p := range []int{4, 8, 8, 16, 16} {
			g.queue(n, "pingpong", p)
		}
	}
	for _, k := range []int{49, 50, 51, 52, 1100, 2100, 4200} {
		g.queue(k+300, fmt.Sprintf("stall%d", k), 4)
	}
	for _, lat := range c13Lats {
		g.queue(300+r.Rng.Intn(900), lat, Pick(r.Rng, []int{1, 2, 4, 8}))
	}
	opsOut, obs := c13RunIsolated(g.ops)
	for x := range opsOut {
		r.Emit(opsOut[x], obs[x])
	}
	r.Exhaustive = false
}

// c12DeadlineSec: a loop that has not closed its result stream by then counts as hung (the
// machine may be heavily loaded: runs normally take well under a second).
const c12DeadlineSec = 60

type jm = map[string]interface{}
type ja = []interface{}

// ---------- graphs (simple protocol form: verts [{gid,label,x}], edges [{gid,label,from,to}]) ----------

func c12V(i int) jm {
	lab := "N"
	if i%3 == 2 {
		lab = "M"
	}
	return jm{"gid": fmt.Sprintf("v%d", i), "label": lab, "x": i}
}

func c12E(n *int, from, to int) jm {
	lab := "k"
	if *n%4 == 3 {
		lab = "j"
	}
	e := jm{"gid": fmt.Sprintf("e%d", *n), "label": lab, "from": fmt.Sprintf("v%d", from), "to": fmt.Sprintf("v%d", to)}
	*n++
	return e
}

func c12Graph(kind string, n int) jm {
	vs := ja{}
	es := ja{}
	for i := 0; i < n; i++ {
		vs = append(vs, c12V(i))
	}
	k := 0
	switch kind {
	case "chain":
		for i := 0; i+1 < n; i++ {
			es = append(es, c12E(&k, i, i+1))
		}
	case "cycle":
		for i := 0; i < n; i++ {
			es = append(es, c12E(&k, i, (i+1)%n))
		}
	case "branch":
		for i := 0; i < n; i++ {
			if 2*i+1 < n {
				es = append(es, c12E(&k, i, 2*i+1))
			}
			if 2*i+2 < n {
				es = append(es, c12E(&k, i, 2*i+2))
			}
			if i > 0 && i%3 == 0 {
				es = append(es, c12E(&k, i, i/3)) // back edge: cycles
			}
		}
	case "dense":
		for i := 0; i < n; i++ {
			for j := 0; j < n; j++ {
				if i != j {
					es = append(es, c12E(&k, i, j))
				}
			}
		}
	}
	return jm{"name": fmt.Sprintf("%s%d", kind, n), "verts": vs, "edges": es}
}

// ---------- statements (protojson GraphStatement forms) ----------

func sV(ids ...string) jm {
	l := ja{}
	for _, i := range ids {
		l = append(l, i)
	}
	return jm{"v": l}
}
func sSet(key string, v int) jm       { return jm{"set": jm{"key": key, "value": v}} }
func sAs(name string) jm              { return jm{"as": name} }
func sMark(name string) jm            { return jm{"mark": name} }
func sInc(key string, by int) jm      { return jm{"increment": jm{"key": key, "value": by}} }
func sHas(e jm) jm                    { return jm{"has": e} }
func sCond(key, c string, v interface{}) jm {
	return jm{"condition": jm{"key": key, "value": v, "condition": c}}
}
func sAnd(es ...interface{}) jm { return jm{"and": jm{"expressions": ja(es)}} }
func sOr(es ...interface{}) jm  { return jm{"or": jm{"expressions": ja(es)}} }
func sNot(e jm) jm              { return jm{"not": e} }
func sStep(name string, labels ...string) jm {
	l := ja{}
	for _, i := range labels {
		l = append(l, i)
	}
	return jm{name: l}
}
func sJump(mark string, expr jm, emit bool) jm {
	j := jm{"mark": mark, "emit": emit}
	if expr != nil {
		j["expression"] = expr
	}
	return jm{"jump": j}
}
func sRender(t jm) jm { return jm{"render": t} }
func sCount() jm      { return jm{"count": ""} }

// ---------- running one op on the real engine ----------

type c12World struct {
	eng    *Eng
	loaded map[string]bool
}

func (w *c12World) graphFor(g jm) (string, error) {
	b, _ := json.Marshal(g)
	name := fmt.Sprintf("g%x", fnv(string(b)))
	if w.loaded[name] {
		return name, nil
	}
	vs := ja{}
	for _, v := range g["verts"].([]interface{}) {
		m := v.(jm)
		vs = append(vs, jm{"gid": m["gid"], "label": m["label"], "data": jm{"x": m["x"]}})
	}
	es := ja{}
	for _, e := range g["edges"].([]interface{}) {
		m := e.(jm)
		es = append(es, jm{"gid": m["gid"], "label": m["label"], "from": m["from"], "to": m["to"]})
	}
	if err := w.eng.LoadGraph(name, vs, es); err != nil {
		return "", err
	}
	w.loaded[name] = true
	return name, nil
}

func fnv(s string) uint64 {
	h := uint64(1469598103934665603)
	for i := 0; i < len(s); i++ {
		h ^= uint64(s[i])
		h *= 1099511628211
	}
	return h
}

// c12Row: the observable part of a row. Vertex/edge rows are observed by gid only (whether data
// is loaded is C02's subject), render rows by their tagged value, count rows by the number.
func c12Row(r *gripql.QueryResult) interface{} {
	switch x := r.GetResult().(type) {
	case *gripql.QueryResult_Vertex:
		return ja{"v", x.Vertex.GetGid()}
	case *gripql.QueryResult_Edge:
		return ja{"e", x.Edge.GetGid()}
	case *gripql.QueryResult_Count:
		return ja{"c", x.Count}
	case *gripql.QueryResult_Render:
		return ja{"r", Tag(normNum(x.Render.AsInterface()))}
	}
	return ja{"?"}
}

func normNum(v interface{}) interface{} { return v }

func c12Rows(rows []*gripql.QueryResult) []interface{} {
	keys := make([]string, len(rows))
	for i, r := range rows {
		b, _ := json.Marshal(c12Row(r))
		keys[i] = string(b)
	}
	sort.Strings(keys)
	out := make([]interface{}, len(keys))
	for i, k := range keys {
		var v interface{}
		json.Unmarshal([]byte(k), &v)
		out[i] = v
	}
	return out
}

// c12Noise keeps other goroutines busy yielding, to perturb the scheduler.
func c12Noise(n int, stop chan struct{}) {
	for i := 0; i < n; i++ {
		go func() {
			x := 0
			for {
				select {
				case <-stop:
					return
				default:
				}
				for j := 0; j < 2000; j++ {
					x += j
				}
				runtime.Gosched()
			}
		}()
	}
}

// c12Exec runs one op; timedOut tells the worker to stop reusing this process.
func (w *c12World) exec(op jm) (obs jm, timedOut bool) {
	defer func() {
		if p := recover(); p != nil {
			obs = jm{"panic": true}
		}
	}()
	if op["op"] != "loop" {
		return jm{"bad": "unknown op"}, false
	}
	gname, err := w.graphFor(op["graph"].(jm))
	if err != nil {
		return jm{"bad": "graph: " + err.Error()}, false
	}
	stmts, err := StmtsFromJSON(op["stmts"].([]interface{}))
	if err != nil {
		return jm{"bad": "stmts: " + err.Error()}, false
	}
	procs := 4
	if p, ok := op["procs"].(float64); ok && p >= 1 {
		procs = int(p)
	}
	reps := 1
	if p, ok := op["reps"].(float64); ok && p >= 1 {
		reps = int(p)
	}
	noise := 0
	if p, ok := op["noise"].(float64); ok {
		noise = int(p)
	}
	deadline := c12DeadlineSec * time.Second
	if p, ok := op["deadline_ms"].(float64); ok && p >= 1 {
		deadline = time.Duration(p) * time.Millisecond
	}
	old := runtime.GOMAXPROCS(procs)
	defer runtime.GOMAXPROCS(old)
	stop := make(chan struct{})
	defer close(stop)
	c12Noise(noise, stop)
	variants := map[string]interface{}{}
	var first string
	if par, ok := op["par"].(float64); ok && par >= 2 {
		// a storm: `reps` runs of the same loop spread over `par` goroutines at once (lost wake-ups
		// and other windows of a few instructions show up once in hundreds of concurrent runs)
		var mu sync.Mutex
		var wg sync.WaitGroup
		timeouts, before := 0, 0
		var stopAll int32
		for g := 0; g < int(par); g++ {
			wg.Add(1)
			go func(g int) {
				defer wg.Done()
				for i := g; i < reps; i += int(par) {
					if atomic.LoadInt32(&stopAll) != 0 {
						return
					}
					o := w.eng.RunQuery(gname, stmts, deadline)
					var res jm
					switch {
					case o.Err != nil:
						res = jm{"err": "compile"}
					case o.Panic != "":
						res = jm{"panic": true}
					case o.TimedOut:
						mu.Lock()
						timeouts++
						before = len(o.Rows)
						mu.Unlock()
						atomic.StoreInt32(&stopAll, 1)
						return
					default:
						res = jm{"rows": c12Rows(o.Rows)}
					}
					b, _ := json.Marshal(res)
					mu.Lock()
					if first == "" {
						first = string(b)
					}
					variants[string(b)] = res
					mu.Unlock()
				}
			}(g)
		}
		wg.Wait()
		if timeouts > 0 {
			return jm{"timeout": true, "rows_before_deadline": before}, true
		}
		reps = 0
	}
	for i := 0; i < reps; i++ {
		o := w.eng.RunQuery(gname, stmts, deadline)
		var res jm
		switch {
		case o.Err != nil:
			return jm{"err": "compile"}, false
		case o.Panic != "":
			res = jm{"panic": true}
		case o.TimedOut:
			return jm{"timeout": true, "rows_before_deadline": len(o.Rows)}, true
		default:
			res = jm{"rows": c12Rows(o.Rows)}
		}
		b, _ := json.Marshal(res)
		if i == 0 {
			first = string(b)
		}
		variants[string(b)] = res
	}
	if len(variants) == 1 {
		return variants[first].(jm), false
	}
	vs := []string{}
	for k := range variants {
		vs = append(vs, k)
	}
	sort.Strings(vs)
	l := ja{}
	for _, k := range vs {
		l = append(l, variants[k])
	}
	return jm{"unstable": l}, false
}

// ---------- worker subprocess protocol ----------

func c12Worker(r *Run, ops []map[string]interface{}) {
	f, err := os.Create(filepath.Join(r.Dir, "results.jsonl"))
	if err != nil {
		panic(err)
	}
	defer f.Close()
	eng, err := NewEng("badger")
	if err != nil {
		panic(err)
	}
	w := &c12World{eng: eng, loaded: map[string]bool{}}
	for _, op := range ops {
		obs, timedOut := w.exec(op)
		b, _ := json.Marshal(obs)
		f.Write(append(b, '\n'))
		f.Sync()
		if timedOut {
			os.Exit(3)
		}
	}
	eng.Destroy()
}

var c12WorkerSeq int64

// c12Timeouts counts hung runs; after a few of them the remaining ops of the run are skipped (each
// costs a full deadline; the hung ones are already reported).
var c12Timeouts int64

// c12RunAll executes ops in worker subprocesses (three at a time) and returns one observation per op.
func c12RunAll(r *Run, ops []jm, chunk int) []jm {
	out := make([]jm, len(ops))
	type job struct{ lo, hi int }
	jobs := make(chan job, len(ops)/chunk+2)
	for i := 0; i < len(ops); i += chunk {
		end := i + chunk
		if end > len(ops) {
			end = len(ops)
		}
		jobs <- job{i, end}
	}
	close(jobs)
	var wg sync.WaitGroup
	var mu sync.Mutex
	for k := 0; k < 3; k++ {
		wg.Add(1)
		go func() {
			defer wg.Done()
			for j := range jobs {
				res, notes := c12RunChunk(r, ops[j.lo:j.hi])
				mu.Lock()
				copy(out[j.lo:j.hi], res)
				r.Notes = append(r.Notes, notes...)
				mu.Unlock()
			}
		}()
	}
	wg.Wait()
	return out
}

// c12RunChunk runs the ops of one chunk, restarting the worker after a timeout or a crash.
func c12RunChunk(r *Run, ops []jm) (out []jm, notes []string) {
	base := os.Getenv("VERIF_WORK")
	if base == "" {
		base = r.Dir
	}
	for i := 0; i < len(ops); {
		end := len(ops)
		if atomic.LoadInt64(&c12Timeouts) >= 3 {
			for ; i < end; i++ {
				out = append(out, jm{"skip": true, "why": "run abandoned after repeated timeouts"})
			}
			break
		}
		dir := filepath.Join(base, fmt.Sprintf("wk%d", atomic.AddInt64(&c12WorkerSeq, 1)))
		os.MkdirAll(dir, 0o755)
		inf := filepath.Join(dir, "in.ops")
		fh, _ := os.Create(inf)
		bw := bufio.NewWriter(fh)
		budget := 120 * time.Second
		for _, op := range ops[i:end] {
			b, _ := json.Marshal(op)
			bw.Write(append(b, '\n'))
			reps := 1.0
			if p, ok := op["reps"].(float64); ok {
				reps = p
			} else if p, ok := op["reps"].(int); ok {
				reps = float64(p)
			}
			budget += time.Duration(reps*c12DeadlineSec+5) * time.Second
		}
		bw.Flush()
		fh.Close()
		self, err := os.Executable()
		if err != nil {
			self = os.Args[0]
		}
		cmd := exec.Command(self, "C12", "-out", dir, "-mode", "worker", "-replay", inf)
		cmd.Env = append(os.Environ(), "VERIF_WORK="+dir)
		cmd.Dir = dir
		lf, _ := os.Create(filepath.Join(dir, "worker.log"))
		cmd.Stdout = lf
		cmd.Stderr = lf
		done := make(chan error, 1)
		if err := cmd.Start(); err != nil {
			panic(err)
		}
		go func() { done <- cmd.Wait() }()
		select {
		case <-done:
		case <-time.After(budget):
			cmd.Process.Kill()
			<-done
		}
		lf.Close()
		res, _ := ReadOps(filepath.Join(dir, "results.jsonl"))
		if len(res) > end-i {
			res = res[:end-i]
		}
		for _, x := range res {
			out = append(out, x)
		}
		n := len(res)
		if n < end-i {
			lastTimeout := n > 0 && res[n-1]["timeout"] == true
			if lastTimeout {
				atomic.AddInt64(&c12Timeouts, 1)
			}
			if !lastTimeout {
				// the op after the last answered one killed or wedged the worker
				tail := ""
				if b, err := os.ReadFile(filepath.Join(dir, "worker.log")); err == nil {
					s := string(b)
					if k := strings.Index(s, "fatal error"); k >= 0 {
						tail = s[k:]
					} else if k := strings.Index(s, "panic:"); k >= 0 {
						tail = s[k:]
					}
					if len(tail) > 200 {
						tail = tail[:200]
					}
				}
				notes = append(notes, "worker died on op: "+tail)
				out = append(out, jm{"crash": true})
				n++
			}
		}
		i += n
		os.RemoveAll(dir)
	}
	return out, notes
}

func c12Replay(r *Run, ops []map[string]interface{}) {
	if r.Mode == "worker" {
		c12Worker(r, ops)
		return
	}
	l := make([]jm, len(ops))
	for i := range ops {
		l[i] = ops[i]
		// replays of a failing line: repeat more often, the failure may depend on timing
		if _, par := l[i]["par"]; par {
			continue // a storm is its own repetition
		}
		if _, ok := l[i]["reps"]; ok {
			l[i]["reps"] = 12.0
		}
	}
	obs := c12RunAll(r, l, 1)
	for i := range l {
		delete(ops[i], "hint")
		c12Hint(ops[i], obs[i])
		r.Emit(ops[i], obs[i])
	}
}
