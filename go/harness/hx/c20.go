package hx

// C20 — SQL backends treat client-supplied identifiers as data.
//
// The real entry points of psql/ and existing-sql/ run against a recording database/sql driver
// (no server): every statement text that reaches the driver is recorded together with the number
// of bound arguments.  Each entry point is called twice with arguments of the same structure — a
// benign vector and one with a hostile string in one position — and for every recorded statement
// the harness reports the two texts and whether their token shapes agree (its own port of the
// scanner in lean/Grip/Spec/C20.lean).  gripdriver C20 explains the same texts from the
// regenerated site table (lean/GripGen/SqlSites.lean) and the model's `render`.

import (
	"context"
	"database/sql"
	"database/sql/driver"
	"fmt"
	"io"
	"sort"
	"strings"
	"sync"
	"time"

	esql "github.com/bmeg/grip/existing-sql"
	"github.com/bmeg/grip/gdbi"
	"github.com/bmeg/grip/gripql"
	"github.com/bmeg/grip/psql"
	"github.com/jmoiron/sqlx"
)

// ---------- recording driver ----------

type c20Stmt struct {
	Q     string
	NArgs []int
}

type c20Canned struct {
	Prefix string
	Cols   []string
	Rows   [][]driver.Value
}

type c20Recorder struct {
	mu     sync.Mutex
	stmts  []*c20Stmt
	canned []c20Canned
}

var c20Rec = &c20Recorder{}

func (r *c20Recorder) reset(canned []c20Canned) {
	r.mu.Lock()
	r.stmts = nil
	r.canned = canned
	r.mu.Unlock()
}

func (r *c20Recorder) snapshot() []c20Stmt {
	r.mu.Lock()
	defer r.mu.Unlock()
	out := make([]c20Stmt, len(r.stmts))
	for i, s := range r.stmts {
		out[i] = c20Stmt{Q: s.Q, NArgs: append([]int{}, s.NArgs...)}
	}
	return out
}

type c20Driver struct{}
type c20Conn struct{}
type c20Tx struct{}
type c20DStmt struct{ rec *c20Stmt }
type c20Rows struct {
	cols []string
	rows [][]driver.Value
	i    int
}

func (c20Driver) Open(string) (driver.Conn, error) { return &c20Conn{}, nil }
func (*c20Conn) Close() error                      { return nil }
func (*c20Conn) Begin() (driver.Tx, error)         { return &c20Tx{}, nil }
func (*c20Tx) Commit() error                       { return nil }
func (*c20Tx) Rollback() error                     { return nil }
func (*c20Conn) Prepare(q string) (driver.Stmt, error) {
	s := &c20Stmt{Q: q}
	c20Rec.mu.Lock()
	c20Rec.stmts = append(c20Rec.stmts, s)
	c20Rec.mu.Unlock()
	return &c20DStmt{rec: s}, nil
}
func (*c20DStmt) Close() error  { return nil }
func (*c20DStmt) NumInput() int { return -1 }
func (s *c20DStmt) note(n int) {
	c20Rec.mu.Lock()
	s.rec.NArgs = append(s.rec.NArgs, n)
	c20Rec.mu.Unlock()
}
func (s *c20DStmt) Exec(args []driver.Value) (driver.Result, error) {
	s.note(len(args))
	return driver.RowsAffected(0), nil
}
func (s *c20DStmt) Query(args []driver.Value) (driver.Rows, error) {
	s.note(len(args))
	c20Rec.mu.Lock()
	defer c20Rec.mu.Unlock()
	for _, c := range c20Rec.canned {
		if strings.HasPrefix(s.rec.Q, c.Prefix) {
			return &c20Rows{cols: c.Cols, rows: c.Rows}, nil
		}
	}
	return &c20Rows{}, nil
}
func (r *c20Rows) Columns() []string { return r.cols }
func (r *c20Rows) Close() error      { return nil }
func (r *c20Rows) Next(dest []driver.Value) error {
	if r.i >= len(r.rows) {
		return io.EOF
	}
	copy(dest, r.rows[r.i])
	r.i++
	return nil
}

var c20Once sync.Once

func c20DB() *sqlx.DB {
	c20Once.Do(func() { sql.Register("c20rec", c20Driver{}) })
	db, err := sql.Open("c20rec", "")
	if err != nil {
		panic(err)
	}
	db.SetMaxOpenConns(1)
	return sqlx.NewDb(db, "postgres")
}

// ---------- the scanner (port of Grip.C20.step / run) ----------

type c20St struct {
	k string
	e bool
	d int
}

func c20IsSpace(c rune) bool { return c == ' ' || c == '\t' || c == '\n' || c == '\r' || c == 12 || c == 11 }
func c20IsAlpha(c rune) bool { return (c >= 'a' && c <= 'z') || (c >= 'A' && c <= 'Z') }
func c20IsDigit(c rune) bool { return c >= '0' && c <= '9' }
func c20IdStart(c rune) bool { return c20IsAlpha(c) || c == '_' || c == '$' || c >= 128 }
func c20IdCont(c rune) bool  { return c20IdStart(c) || c20IsDigit(c) }

func c20FromDflt(c rune, ev *[]string) c20St {
	switch {
	case c == '\'':
		*ev = append(*ev, "S")
		return c20St{k: "str"}
	case c == '"':
		*ev = append(*ev, "Q")
		return c20St{k: "qid"}
	case c == '-':
		return c20St{k: "dash"}
	case c == '/':
		return c20St{k: "slash"}
	case c20IsSpace(c):
		return c20St{k: "dflt"}
	case c20IdStart(c):
		*ev = append(*ev, "i"+string(c))
		return c20St{k: "ident", e: c == 'E' || c == 'e'}
	case c20IsDigit(c):
		*ev = append(*ev, "n"+string(c))
		return c20St{k: "num"}
	}
	*ev = append(*ev, "p"+string(c))
	return c20St{k: "dflt"}
}

func c20Step(s c20St, c rune, ev *[]string) c20St {
	switch s.k {
	case "dflt":
		return c20FromDflt(c, ev)
	case "ident":
		if c20IdCont(c) {
			*ev = append(*ev, "j"+string(c))
			return c20St{k: "ident"}
		}
		if c == '\'' && s.e {
			*ev = append(*ev, "E")
			return c20St{k: "estr"}
		}
		return c20FromDflt(c, ev)
	case "num":
		if c20IsDigit(c) || c == '.' {
			*ev = append(*ev, "m"+string(c))
			return s
		}
		return c20FromDflt(c, ev)
	case "str":
		if c == '\'' {
			return c20St{k: "strQ"}
		}
		return s
	case "strQ":
		if c == '\'' {
			return c20St{k: "str"}
		}
		return c20FromDflt(c, ev)
	case "estr":
		if c == '\\' {
			return c20St{k: "estrB"}
		}
		if c == '\'' {
			return c20St{k: "estrQ"}
		}
		return s
	case "estrB":
		return c20St{k: "estr"}
	case "estrQ":
		if c == '\'' {
			return c20St{k: "estr"}
		}
		return c20FromDflt(c, ev)
	case "qid":
		if c == '"' {
			return c20St{k: "qidQ"}
		}
		return s
	case "qidQ":
		if c == '"' {
			return c20St{k: "qid"}
		}
		return c20FromDflt(c, ev)
	case "dash":
		if c == '-' {
			return c20St{k: "lcom"}
		}
		*ev = append(*ev, "p-")
		return c20FromDflt(c, ev)
	case "lcom":
		if c == '\n' {
			return c20St{k: "dflt"}
		}
		return s
	case "slash":
		if c == '*' {
			return c20St{k: "bcom", d: 0}
		}
		*ev = append(*ev, "p/")
		return c20FromDflt(c, ev)
	case "bcom":
		if c == '*' {
			return c20St{k: "bcomStar", d: s.d}
		}
		if c == '/' {
			return c20St{k: "bcomSlash", d: s.d}
		}
		return s
	case "bcomStar":
		if c == '/' {
			if s.d == 0 {
				return c20St{k: "dflt"}
			}
			return c20St{k: "bcom", d: s.d - 1}
		}
		if c == '*' {
			return s
		}
		return c20St{k: "bcom", d: s.d}
	case "bcomSlash":
		if c == '*' {
			return c20St{k: "bcom", d: s.d + 1}
		}
		if c == '/' {
			return s
		}
		return c20St{k: "bcom", d: s.d}
	}
	panic("c20Step: bad state")
}

// C20Shape is the token shape of a statement as a comparable string.
func C20Shape(text string) string {
	s := c20St{k: "dflt"}
	ev := []string{}
	for _, c := range text {
		s = c20Step(s, c, &ev)
	}
	return fmt.Sprintf("%s/%v/%d|%s", s.k, s.e, s.d, strings.Join(ev, "\x1f"))
}

// ---------- entry points ----------

type c20Args struct {
	P map[string]string
	L map[string][]string
}

func (a c20Args) clone() c20Args {
	b := c20Args{P: map[string]string{}, L: map[string][]string{}}
	for k, v := range a.P {
		b.P[k] = v
	}
	for k, v := range a.L {
		b.L[k] = append([]string{}, v...)
	}
	return b
}

type c20Call struct {
	Drv, Fn string
	Load    bool
	Variant string
	Sort    bool // statements are sent from concurrent goroutines: order them by text (the texts differ before any client value)
	Want    int // expected number of statements (0: whatever); calls behind gdbi.LookupBatcher are retried until it is met
	Base    c20Args
	// Slots: name → substitution of the hostile string into the base arguments
	Slots []c20Slot
	Run   func(a c20Args, load bool) error
	// FnOf: entry point a recorded statement is attributed to (calls that reach other entry points
	// through function values, like BulkAdd → StreamBatch → AddVertex/AddEdge); nil: Fn
	FnOf func(q string) string
	// Canned answers of the database for this call
	Canned func(a c20Args) []c20Canned
}

type c20Slot struct {
	Name string
	Put  func(a c20Args, h string)
	Skip func(h string) bool
}

func c20P(name string) c20Slot {
	return c20Slot{Name: name, Put: func(a c20Args, h string) { a.P[name] = h }}
}
// c20PNB: a parameter whose blank value makes the element invalid (gripql Validate refuses a blank
// id / label / endpoint): the element is then skipped and sends no statement — a refusal, not a
// statement whose structure depends on the string — so the blank string is not substituted there
func c20PNB(name string) c20Slot {
	return c20Slot{Name: name, Put: func(a c20Args, h string) { a.P[name] = h }, Skip: func(h string) bool { return h == "" }}
}
func c20L(name string, i int) c20Slot {
	return c20Slot{Name: fmt.Sprintf("%s[%d]", name, i), Put: func(a c20Args, h string) { a.L[name][i] = h }}
}

// esql ids are "<table>:<key>"; the hostile string replaces the key part
func c20LKey(name string, i int, table string) c20Slot {
	return c20Slot{Name: fmt.Sprintf("%s[%d].key", name, i), Put: func(a c20Args, h string) { a.L[name][i] = table + ":" + h }}
}

const c20V, c20E = "g_vertices", "g_edges"

func c20Feed(ids []string) chan gdbi.ElementLookup {
	ch := make(chan gdbi.ElementLookup, len(ids)+1)
	for _, id := range ids {
		ch <- gdbi.ElementLookup{ID: id}
	}
	close(ch)
	return ch
}

func c20Drain(ch chan gdbi.ElementLookup) {
	for range ch {
	}
}

func c20Schema() []*esql.Schema {
	return []*esql.Schema{{
		Graph: "g",
		Vertices: []*esql.Vertex{
			{Table: "users", GidField: "id", Label: "User"},
			{Table: "products", GidField: "pid", Label: "Product"},
		},
		Edges: []*esql.Edge{
			{Table: "purchases", GidField: "oid", Label: "purchased",
				From: &esql.ForeignKey{SourceField: "user_id", DestTable: "users", DestField: "id"},
				To:   &esql.ForeignKey{SourceField: "product_id", DestTable: "products", DestField: "pid"}},
			{Table: "", GidField: "", Label: "likes",
				From: &esql.ForeignKey{SourceField: "", DestTable: "users", DestField: "fav"},
				To:   &esql.ForeignKey{SourceField: "", DestTable: "products", DestField: "pid"}},
		},
	}}
}

// c20PlainName: letters, digits, '_' and '-' only.
func c20PlainName(s string) bool {
	for _, c := range s {
		if !(c >= 'a' && c <= 'z' || c >= 'A' && c <= 'Z' || c >= '0' && c <= '9' || c == '_' || c == '-') {
			return false
		}
	}
	return true
}

// c20GraphRow emulates the `graphs` registry table.  Its RAW column graph_name holds what the client
// called the graph — for a name AddGraph accepts (gripql.ValidateGraphName; letters, digits, '_', '-')
// that is the client's string, which thus comes BACK through the database to every statement that
// uses the column.  The derived columns (sanitized name, table names) are server-side identifiers:
// the property's comparison keeps them equal for the two calls (props/C20.json, assumptions), so
// they stay those of graph "g".  For any other string (the lookup statement itself is then already
// an injection: listed findings) the row of "g" answers.
func c20GraphRow(a c20Args) []c20Canned {
	raw := "g"
	if name := a.P["graph"]; name != "" && gripql.ValidateGraphName(name) == nil && c20PlainName(name) {
		raw = name
	}
	return []c20Canned{{Prefix: "SELECT * FROM graphs where graph_name=",
		Cols: []string{"graph_name", "sanitized_graph_name", "vertex_table", "edge_table"},
		Rows: [][]driver.Value{{raw, "g", c20V, c20E}}}}
}

func c20Calls() []c20Call {
	var out []c20Call
	db := c20DB()
	pg := func() *psql.Graph { return psql.NewGraphVerif(db, c20V, c20E, "g") }
	pdb := func() *psql.GraphDB { return psql.NewGraphDBVerif(db) }
	eg := func() gdbi.GraphInterface {
		g, err := esql.NewGraphDBVerif(db, c20Schema()).Graph("g")
		if err != nil {
			panic(err)
		}
		return g
	}
	ctx := context.Background()
	add := func(c c20Call) { out = append(out, c) }
	both := func(c c20Call) {
		c.Load = false
		add(c)
		c.Load = true
		add(c)
	}

	// ----- psql.Graph -----
	add(c20Call{Drv: "psql", Fn: "Graph.AddVertex", Base: c20Args{P: map[string]string{"id": "v1", "label": "L"}},
		Slots: []c20Slot{c20P("id"), c20P("label")},
		Run: func(a c20Args, _ bool) error {
			return pg().AddVertex([]*gdbi.Vertex{{ID: a.P["id"], Label: a.P["label"], Data: map[string]interface{}{"k": a.P["id"]}}, {ID: "v2", Label: "L"}})
		}})
	add(c20Call{Drv: "psql", Fn: "Graph.AddEdge", Base: c20Args{P: map[string]string{"id": "e1", "label": "L", "from": "v1", "to": "v2"}},
		Slots: []c20Slot{c20P("id"), c20P("label"), c20P("from"), c20P("to")},
		Run: func(a c20Args, _ bool) error {
			return pg().AddEdge([]*gdbi.Edge{{ID: a.P["id"], Label: a.P["label"], From: a.P["from"], To: a.P["to"]}})
		}})
	// BulkAdd hands the elements to AddVertex/AddEdge (bound parameters); any other statement it
	// sends is attributed to BulkAdd itself, where no extracted site explains it
	bulkFn := func(q string) string {
		switch {
		case strings.HasPrefix(strings.TrimSpace(q), "INSERT INTO "+c20V+" "):
			return "Graph.AddVertex"
		case strings.HasPrefix(strings.TrimSpace(q), "INSERT INTO "+c20E+" "):
			return "Graph.AddEdge"
		}
		return "Graph.BulkAdd"
	}
	bulk := func(els ...*gdbi.GraphElement) error {
		ch := make(chan *gdbi.GraphElement, len(els))
		for _, e := range els {
			ch <- e
		}
		close(ch)
		return pg().BulkAdd(ch)
	}
	add(c20Call{Drv: "psql", Fn: "Graph.BulkAdd", Variant: "vertices", Base: c20Args{P: map[string]string{"id": "v1", "label": "L"}},
		Slots: []c20Slot{c20PNB("id"), c20PNB("label")}, FnOf: bulkFn,
		Run: func(a c20Args, _ bool) error {
			return bulk(&gdbi.GraphElement{Graph: "g", Vertex: &gdbi.Vertex{ID: a.P["id"], Label: a.P["label"], Data: map[string]interface{}{"k": a.P["id"]}}},
				&gdbi.GraphElement{Graph: "g", Vertex: &gdbi.Vertex{ID: "v2", Label: "L"}})
		}})
	add(c20Call{Drv: "psql", Fn: "Graph.BulkAdd", Variant: "edges", Base: c20Args{P: map[string]string{"id": "e1", "label": "L", "from": "v1", "to": "v9"}},
		Slots: []c20Slot{c20PNB("id"), c20PNB("label"), c20PNB("from"), c20PNB("to")}, FnOf: bulkFn,
		Run: func(a c20Args, _ bool) error {
			// the endpoints are not part of the stream (a dangling load)
			return bulk(&gdbi.GraphElement{Graph: "g", Edge: &gdbi.Edge{ID: a.P["id"], Label: a.P["label"], From: a.P["from"], To: a.P["to"]}})
		}})
	add(c20Call{Drv: "psql", Fn: "Graph.DelVertex", Base: c20Args{P: map[string]string{"key": "v1"}}, Slots: []c20Slot{c20P("key")},
		Run: func(a c20Args, _ bool) error { return pg().DelVertex(a.P["key"]) }})
	add(c20Call{Drv: "psql", Fn: "Graph.DelEdge", Base: c20Args{P: map[string]string{"key": "e1"}}, Slots: []c20Slot{c20P("key")},
		Run: func(a c20Args, _ bool) error { return pg().DelEdge(a.P["key"]) }})
	both(c20Call{Drv: "psql", Fn: "Graph.GetVertex", Base: c20Args{P: map[string]string{"gid": "v1"}}, Slots: []c20Slot{c20P("gid")},
		Run: func(a c20Args, load bool) error { pg().GetVertex(a.P["gid"], load); return nil }})
	both(c20Call{Drv: "psql", Fn: "Graph.GetEdge", Base: c20Args{P: map[string]string{"gid": "e1"}}, Slots: []c20Slot{c20P("gid")},
		Run: func(a c20Args, load bool) error { pg().GetEdge(a.P["gid"], load); return nil }})
	both(c20Call{Drv: "psql", Fn: "Graph.GetVertexList", Base: c20Args{},
		Run: func(a c20Args, load bool) error {
			for range pg().GetVertexList(ctx, load) {
			}
			return nil
		}})
	both(c20Call{Drv: "psql", Fn: "Graph.GetEdgeList", Base: c20Args{},
		Run: func(a c20Args, load bool) error {
			for range pg().GetEdgeList(ctx, load) {
			}
			return nil
		}})
	add(c20Call{Drv: "psql", Fn: "Graph.VertexLabelScan", Base: c20Args{P: map[string]string{"label": "L"}}, Slots: []c20Slot{c20P("label")},
		Run: func(a c20Args, _ bool) error {
			for range pg().VertexLabelScan(ctx, a.P["label"]) {
			}
			return nil
		}})
	add(c20Call{Drv: "psql", Fn: "Graph.ListVertexLabels", Base: c20Args{}, Run: func(a c20Args, _ bool) error { _, err := pg().ListVertexLabels(); return err }})
	add(c20Call{Drv: "psql", Fn: "Graph.ListEdgeLabels", Base: c20Args{}, Run: func(a c20Args, _ bool) error { _, err := pg().ListEdgeLabels(); return err }})
	both(c20Call{Drv: "psql", Fn: "Graph.GetVertexChannel", Want: 1, Base: c20Args{L: map[string][]string{"reqChan": {"v1", "v2"}}},
		Slots: []c20Slot{c20L("reqChan", 0), c20L("reqChan", 1)},
		Run: func(a c20Args, load bool) error { c20Drain(pg().GetVertexChannel(ctx, c20Feed(a.L["reqChan"]), load)); return nil }})
	type chanFn func(g *psql.Graph, ch chan gdbi.ElementLookup, load bool, labels []string) chan gdbi.ElementLookup
	for _, cf := range []struct {
		name string
		f    chanFn
	}{
		{"Graph.GetOutChannel", func(g *psql.Graph, ch chan gdbi.ElementLookup, load bool, l []string) chan gdbi.ElementLookup {
			return g.GetOutChannel(ctx, ch, load, false, l)
		}},
		{"Graph.GetInChannel", func(g *psql.Graph, ch chan gdbi.ElementLookup, load bool, l []string) chan gdbi.ElementLookup {
			return g.GetInChannel(ctx, ch, load, false, l)
		}},
		{"Graph.GetOutEdgeChannel", func(g *psql.Graph, ch chan gdbi.ElementLookup, load bool, l []string) chan gdbi.ElementLookup {
			return g.GetOutEdgeChannel(ctx, ch, load, false, l)
		}},
		{"Graph.GetInEdgeChannel", func(g *psql.Graph, ch chan gdbi.ElementLookup, load bool, l []string) chan gdbi.ElementLookup {
			return g.GetInEdgeChannel(ctx, ch, load, false, l)
		}},
	} {
		cf := cf
		both(c20Call{Drv: "psql", Fn: cf.name, Variant: "nolabels", Want: 1, Base: c20Args{L: map[string][]string{"reqChan": {"v1", "v2"}}},
			Slots: []c20Slot{c20L("reqChan", 0), c20L("reqChan", 1)},
			Run: func(a c20Args, load bool) error { c20Drain(cf.f(pg(), c20Feed(a.L["reqChan"]), load, nil)); return nil }})
		both(c20Call{Drv: "psql", Fn: cf.name, Variant: "labels", Want: 1, Base: c20Args{L: map[string][]string{"reqChan": {"v1", "v2", "v3"}, "edgeLabels": {"l1", "l2"}}},
			Slots: []c20Slot{c20L("reqChan", 1), c20L("edgeLabels", 0), c20L("edgeLabels", 1)},
			Run: func(a c20Args, load bool) error {
				c20Drain(cf.f(pg(), c20Feed(a.L["reqChan"]), load, a.L["edgeLabels"]))
				return nil
			}})
	}

	// ----- psql.GraphDB -----
	add(c20Call{Drv: "psql", Fn: "GraphDB.AddGraph", Base: c20Args{P: map[string]string{"graph": "g"}}, Slots: []c20Slot{c20P("graph")},
		Run: func(a c20Args, _ bool) error { return pdb().AddGraph(a.P["graph"]) }})
	add(c20Call{Drv: "psql", Fn: "GraphDB.DeleteGraph", Base: c20Args{P: map[string]string{"graph": "g"}}, Slots: []c20Slot{c20P("graph")},
		Canned: c20GraphRow, Run: func(a c20Args, _ bool) error { return pdb().DeleteGraph(a.P["graph"]) }})
	add(c20Call{Drv: "psql", Fn: "GraphDB.Graph", Base: c20Args{P: map[string]string{"graph": "g"}}, Slots: []c20Slot{c20P("graph")},
		Canned: c20GraphRow, Run: func(a c20Args, _ bool) error { _, err := pdb().Graph(a.P["graph"]); return err }})
	add(c20Call{Drv: "psql", Fn: "GraphDB.ListGraphs", Base: c20Args{}, Run: func(a c20Args, _ bool) error { pdb().ListGraphs(); return nil }})
	for _, kind := range []string{"vertex", "edge"} {
		kind := kind
		add(c20Call{Drv: "psql", Fn: "GraphDB.BuildSchema", Variant: kind, Sort: true, Base: c20Args{P: map[string]string{"graphID": "g", "label": "L"}},
			Slots: []c20Slot{c20P("graphID"), {Name: "label", Put: func(a c20Args, h string) { a.P["label"] = h }, Skip: func(h string) bool { return h == "" }}},
			Canned: func(a c20Args) []c20Canned {
				c := c20GraphRow(a)
				tbl := c20V
				if kind == "edge" {
					tbl = c20E
				}
				return append(c, c20Canned{Prefix: "SELECT DISTINCT label FROM " + tbl, Cols: []string{"label"}, Rows: [][]driver.Value{{a.P["label"]}}})
			},
			Run: func(a c20Args, _ bool) error { _, err := pdb().BuildSchema(ctx, a.P["graphID"], 10, false); return err }})
	}

	// ----- existing-sql -----
	both(c20Call{Drv: "esql", Fn: "Graph.GetVertex", Base: c20Args{P: map[string]string{"key": "users:1"}},
		Slots: []c20Slot{
			{Name: "key.id", Put: func(a c20Args, h string) { a.P["key"] = "users:" + h }},
			{Name: "key.table", Put: func(a c20Args, h string) { a.P["key"] = h + ":1" }}},
		Run: func(a c20Args, load bool) error { eg().GetVertex(a.P["key"], load); return nil }})
	both(c20Call{Drv: "esql", Fn: "Graph.GetEdge", Base: c20Args{P: map[string]string{"key": "purchases:1"}},
		Slots: []c20Slot{{Name: "key.id", Put: func(a c20Args, h string) { a.P["key"] = "purchases:" + h }}},
		Run:   func(a c20Args, load bool) error { eg().GetEdge(a.P["key"], load); return nil }})
	both(c20Call{Drv: "esql", Fn: "Graph.GetVertexList", Base: c20Args{},
		Run: func(a c20Args, load bool) error {
			for range eg().GetVertexList(ctx, load) {
			}
			return nil
		}})
	both(c20Call{Drv: "esql", Fn: "Graph.GetEdgeList", Base: c20Args{},
		Run: func(a c20Args, load bool) error {
			for range eg().GetEdgeList(ctx, load) {
			}
			return nil
		}})
	add(c20Call{Drv: "esql", Fn: "Graph.VertexLabelScan", Base: c20Args{},
		Run: func(a c20Args, _ bool) error {
			for range eg().VertexLabelScan(ctx, "User") {
			}
			return nil
		}})
	both(c20Call{Drv: "esql", Fn: "Graph.GetVertexChannel", Base: c20Args{L: map[string][]string{"reqChan": {"users:1", "users:2"}}},
		Slots: []c20Slot{c20LKey("reqChan", 0, "users"), c20LKey("reqChan", 1, "users"),
			{Name: "reqChan[*].table", Put: func(a c20Args, h string) { a.L["reqChan"][0] = h + ":1"; a.L["reqChan"][1] = h + ":2" }}},
		Run: func(a c20Args, load bool) error { c20Drain(eg().GetVertexChannel(ctx, c20Feed(a.L["reqChan"]), load)); return nil }})
	type echanFn func(g gdbi.GraphInterface, ch chan gdbi.ElementLookup, load bool) chan gdbi.ElementLookup
	for _, cf := range []struct {
		name, table string
		f           echanFn
	}{
		{"Graph.GetOutChannel", "users", func(g gdbi.GraphInterface, ch chan gdbi.ElementLookup, load bool) chan gdbi.ElementLookup {
			return g.GetOutChannel(ctx, ch, load, false, nil)
		}},
		{"Graph.GetInChannel", "products", func(g gdbi.GraphInterface, ch chan gdbi.ElementLookup, load bool) chan gdbi.ElementLookup {
			return g.GetInChannel(ctx, ch, load, false, nil)
		}},
		{"Graph.GetOutEdgeChannel", "users", func(g gdbi.GraphInterface, ch chan gdbi.ElementLookup, load bool) chan gdbi.ElementLookup {
			return g.GetOutEdgeChannel(ctx, ch, load, false, nil)
		}},
		{"Graph.GetInEdgeChannel", "products", func(g gdbi.GraphInterface, ch chan gdbi.ElementLookup, load bool) chan gdbi.ElementLookup {
			return g.GetInEdgeChannel(ctx, ch, load, false, nil)
		}},
	} {
		cf := cf
		both(c20Call{Drv: "esql", Fn: cf.name, Base: c20Args{L: map[string][]string{"reqChan": {cf.table + ":1", cf.table + ":2"}}},
			Slots: []c20Slot{c20LKey("reqChan", 0, cf.table), c20LKey("reqChan", 1, cf.table)},
			Run: func(a c20Args, load bool) error { c20Drain(cf.f(eg(), c20Feed(a.L["reqChan"]), load)); return nil }})
	}
	return out
}

// c20Exec runs one call against the recorder (panics and hangs are contained).
func c20Exec(c *c20Call, a c20Args) (stmts []c20Stmt, callErr error, crashed string) {
	// gdbi.LookupBatcher cuts batches by wall-clock time (1µs): retry until the ids went out as one batch
	for try := 0; try < 200; try++ {
		stmts, callErr, crashed = c20Exec1(c, a)
		if c.Want == 0 || len(stmts) == c.Want || crashed != "" {
			break
		}
	}
	if c.Sort {
		sort.SliceStable(stmts, func(i, j int) bool { return stmts[i].Q < stmts[j].Q })
	}
	return
}

func c20Exec1(c *c20Call, a c20Args) (stmts []c20Stmt, callErr error, crashed string) {
	var canned []c20Canned
	if c.Canned != nil {
		canned = c.Canned(a)
	}
	c20Rec.reset(canned)
	done := make(chan struct{})
	go func() {
		defer func() {
			if p := recover(); p != nil {
				crashed = fmt.Sprint(p)
			}
			close(done)
		}()
		callErr = c.Run(a, c.Load)
	}()
	select {
	case <-done:
	case <-time.After(10 * time.Second):
		crashed = "timeout"
	}
	return c20Rec.snapshot(), callErr, crashed
}

var c20Hostile = []string{
	"x' OR '1'='1", "x'; DROP TABLE t; --", "'", "''", "a'b", `\`, `\'`, `x\' OR 1=1 --`, "a--b", "--", "a;b", ";", "/*", "*/ x", `"`, `a"b`,
	"ü'ñ—日本", "日本語", "$$", "E'", "a\tb", "a\nb", "a b", "", "1", "1 OR 1=1", "0; DELETE FROM users", "a`b", "%s", "a,b", "(", ")", "x) OR (1=1",
	"a:b", "a:b'c", "A-b", "a-b", "-a", "_a", " ", "\U0001F600'", "a\rb", "a\x0bb",
}

var c20Alphabet = []string{"'", "'", `"`, `\`, "-", "-", ";", "/", "*", " ", "\t", "\n", "a", "b", "E", "e", "1", "0", ".", "$", "(", ")", ",", "=", ":", "_", "é", "日", "%", "`", "U", "&", "x"}

func c20RandomString(r *Run) string {
	n := 1 + r.Rng.Intn(10)
	var b strings.Builder
	for i := 0; i < n; i++ {
		b.WriteString(Pick(r.Rng, c20Alphabet))
	}
	return b.String()
}

func c20ArgsJSON(a c20Args) (map[string]interface{}, map[string]interface{}) {
	p := map[string]interface{}{}
	for k, v := range a.P {
		p[k] = v
	}
	l := map[string]interface{}{}
	for k, v := range a.L {
		xs := make([]interface{}, len(v))
		for i := range v {
			xs[i] = v[i]
		}
		l[k] = xs
	}
	return p, l
}

func c20CallKey(c *c20Call) string { return fmt.Sprintf("%s|%s|%v|%s", c.Drv, c.Fn, c.Load, c.Variant) }

// c20Emit runs base and hostile arguments and emits one op per recorded statement.
func c20Emit(r *Run, c *c20Call, hostile c20Args, slot string) {
	base := c.Base.clone()
	bst, _, bcrash := c20Exec(c, base)
	hst, herr, hcrash := c20Exec(c, hostile)
	hp, hl := c20ArgsJSON(hostile)
	bp, bl := c20ArgsJSON(base)
	common := func(op string) map[string]interface{} {
		return map[string]interface{}{"op": op, "drv": c.Drv, "fn": c.Fn, "load": c.Load, "variant": c.Variant, "slot": slot,
			"params": hp, "lists": hl, "bparams": bp, "blists": bl}
	}
	if bcrash != "" {
		note := fmt.Sprintf("benign call %s crashed after sending its statements (not C20's subject): %s", c20CallKey(c), bcrash)
		dup := false
		for _, n := range r.Notes {
			dup = dup || n == note
		}
		if !dup {
			r.Notes = append(r.Notes, note)
		}
	}
	if hcrash != "" {
		r.Count("crashed:" + c.Fn)
	}
	if c.Fn == "GraphDB.AddGraph" {
		rejected := herr != nil && len(hst) == 0
		r.Emit(common("reject"), map[string]interface{}{"rejected": rejected})
		if rejected {
			r.Count("rejected-by-validator")
			return
		}
	}
	if len(bst) != len(hst) {
		o := common("count")
		o["nb"], o["nh"] = len(bst), len(hst)
		r.Emit(o, map[string]interface{}{"eq": false})
		r.Count("count-differs")
	}
	n := len(bst)
	if len(hst) < n {
		n = len(hst)
	}
	for i := 0; i < n; i++ {
		o := common("stmt")
		if c.FnOf != nil {
			o["fn"] = c.FnOf(bst[i].Q)
		}
		o["i"] = i
		o["hint"] = hst[i].Q
		o["bhint"] = bst[i].Q
		nb := 0
		if len(hst[i].NArgs) > 0 {
			nb = hst[i].NArgs[0]
		}
		same := C20Shape(hst[i].Q) == C20Shape(bst[i].Q)
		r.Emit(o, map[string]interface{}{"q": hst[i].Q, "qb": bst[i].Q, "same": same, "n": nb})
		r.Count("stmt:" + c.Drv)
		if !same {
			r.Count("shape-differs")
			r.NonTrivial(c20CallKey(c) + "|" + slot + "|" + fmt.Sprint(i))
		} else if hst[i].Q != bst[i].Q {
			r.Count("text-differs-shape-same")
		}
		if len(r.Sample) < 6 && !same {
			r.AddSample(map[string]interface{}{"fn": c.Fn, "hostile": hst[i].Q, "benign": bst[i].Q})
		}
	}
}

func c20Gen(r *Run) {
	r.Rule = "distinct (entry point, variant, argument position, statement index) whose statement changed token shape under a hostile string"
	r.Emit(map[string]interface{}{"op": "table"}, map[string]interface{}{"unlisted": []interface{}{}, "extraction_failed": false})
	calls := c20Calls()
	hostile := append([]string{}, c20Hostile...)
	nrand := 20
	if r.Tier == "thorough" {
		nrand = 500
	}
	for i := 0; i < nrand; i++ {
		hostile = append(hostile, c20RandomString(r))
	}
	for ci := range calls {
		c := &calls[ci]
		if len(c.Slots) == 0 {
			c20Emit(r, c, c.Base.clone(), "")
			continue
		}
		for _, s := range c.Slots {
			hs := hostile
			if r.Tier != "thorough" && len(hs) > 24 {
				// quick: the fixed list rotates over the slots, plus the seeded random strings
				k := (ci*7 + len(s.Name)) % len(c20Hostile)
				hs = append(append([]string{}, c20Hostile[k:]...), c20Hostile[:k]...)[:14]
				hs = append(hs, hostile[len(c20Hostile):]...)
				hs = append(hs, "x' OR '1'='1", "a\tb")
			}
			for _, h := range hs {
				if s.Skip != nil && s.Skip(h) {
					continue
				}
				a := c.Base.clone()
				s.Put(a, h)
				c20Emit(r, c, a, s.Name)
			}
		}
	}
	keys := []string{}
	for k := range r.Dist {
		keys = append(keys, k)
	}
	sort.Strings(keys)
}

func c20Replay(r *Run, ops []map[string]interface{}) {
	calls := c20Calls()
	for _, op := range ops {
		kind, _ := op["op"].(string)
		if kind == "table" {
			r.Emit(op, map[string]interface{}{"unlisted": []interface{}{}, "extraction_failed": false})
			continue
		}
		var c *c20Call
		load, _ := op["load"].(bool)
		variant, _ := op["variant"].(string)
		for i := range calls {
			if calls[i].Drv == op["drv"] && calls[i].Fn == op["fn"] && calls[i].Load == load && calls[i].Variant == variant {
				c = &calls[i]
			}
		}
		if c == nil {
			r.Emit(op, map[string]interface{}{"bad": "unknown entry point"})
			continue
		}
		a := c20Args{P: map[string]string{}, L: map[string][]string{}}
		if p, ok := op["params"].(map[string]interface{}); ok {
			for k, v := range p {
				a.P[k], _ = v.(string)
			}
		}
		if l, ok := op["lists"].(map[string]interface{}); ok {
			for k, v := range l {
				for _, x := range v.([]interface{}) {
					s, _ := x.(string)
					a.L[k] = append(a.L[k], s)
				}
			}
		}
		bst, _, _ := c20Exec(c, c.Base.clone())
		hst, herr, _ := c20Exec(c, a)
		switch kind {
		case "reject":
			r.Emit(op, map[string]interface{}{"rejected": herr != nil && len(hst) == 0})
		case "count":
			r.Emit(op, map[string]interface{}{"eq": len(bst) == len(hst)})
		case "stmt":
			i := int(op["i"].(float64))
			if i >= len(hst) || i >= len(bst) {
				r.Emit(op, map[string]interface{}{"q": "", "qb": "", "same": false, "n": 0, "missing": true})
				continue
			}
			// the model explains the texts the real code sends now
			op["hint"], op["bhint"] = hst[i].Q, bst[i].Q
			nb := 0
			if len(hst[i].NArgs) > 0 {
				nb = hst[i].NArgs[0]
			}
			r.Emit(op, map[string]interface{}{"q": hst[i].Q, "qb": bst[i].Q, "same": C20Shape(hst[i].Q) == C20Shape(bst[i].Q), "n": nb})
		default:
			r.Emit(op, map[string]interface{}{"bad": "unknown op"})
		}
	}
}

func init() { Registry["C20"] = Prop{Gen: c20Gen, Replay: c20Replay} }
