package hx

// C10 — all embedded key-value drivers behave as the same ordered map.
//
// Correspondence between the four registered kvi drivers (badger, bolt, level, pebble), driven
// through every method of kvi.KVInterface / KVIterator / KVTransaction / KVBulkWrite, and the
// Lean MODEL Grip.SMap (a sorted association list with an iterator state machine).
//
// One case = {"op":"reset","driver":D} followed by operations on a fresh store of driver D.
// The driver name travels in the reset op (replays and shrinking run without -mode).
//
// Operations (bytes are hex):
//   set{k,v} get{k} has{k} del{k} delp{p} dump
//   view{steps}                      one KVInterface.View call; iterator reused across the steps
//   update{steps,fail}               one KVInterface.Update call (steps: set/del/get/has/view)
//   bulk{sets,fail}                  one KVInterface.BulkWrite call
//   sync{kvs}                        after a callback that returned an error: the store's content
//                                    as found (a failed callback must leave the map as it was: the dump after it is judged)
// Iterator steps: ["seek",k] ["rseek",k] ["next"] ["get",k] ["scan",p] ["rscan",k,p]
//   "next" is guarded: it calls Next() only when Valid() (Next on an invalid iterator is outside
//   the interface's use: every caller in kvgraph/kvindex loops `for it.Seek(p); it.Valid() && …; it.Next()`).
//   After each positioning step the observation is {valid[,k,v]}.
//   scan p      = for it.Seek(p); it.Valid() && HasPrefix(it.Key(), p); it.Next() {collect}
//   rscan k, p  = for it.SeekReverse(k); it.Valid() && HasPrefix(it.Key(), p); it.Next() {collect}
// Error *values* are never compared; only whether a point read found the key and whether a
// mutation reported failure.

import (
	"bytes"
	"encoding/hex"
	"fmt"
	"os"
	"path/filepath"
	"sort"
	"time"

	"github.com/bmeg/grip/kvi"
	_ "github.com/bmeg/grip/kvi/badgerdb"
	_ "github.com/bmeg/grip/kvi/boltdb"
	_ "github.com/bmeg/grip/kvi/leveldb"
	_ "github.com/bmeg/grip/kvi/pebbledb"
)

var c10Drivers = []string{"badger", "bolt", "level", "pebble"}

const c10ScanCap = 10000

type c10Store struct {
	driver string
	dir    string
	kv     kvi.KVInterface
	uses   int
	hung   bool
}

// clear empties a store that is already open: opening a fresh Badger store costs seconds, so
// within one process a reset reuses the open store when it can be verified empty afterwards
// (otherwise a fresh store is opened). Every process (replay, shrink step) starts on a fresh store.
func (s *c10Store) clear() (ok bool) {
	defer func() {
		if e := recover(); e != nil {
			ok = false
		}
	}()
	for round := 0; round < 3; round++ {
		kvs := s.dump()
		if len(kvs) == 0 {
			return true
		}
		for _, kv := range kvs {
			if s.kv.Delete(c10unhex(kv.([]interface{})[0])) != nil {
				return false
			}
		}
	}
	return false
}

func (s *c10Store) close() {
	if s.hung {
		return
	}
	if s.kv != nil {
		func() {
			defer func() { recover() }()
			s.kv.Close()
		}()
		s.kv = nil
	}
	if s.dir != "" {
		os.RemoveAll(s.dir)
		s.dir = ""
	}
}

func (s *c10Store) reset(driver string) error {
	if s.kv != nil && s.driver == driver && s.uses < 100 && s.clear() {
		s.uses++
		return nil
	}
	s.close()
	s.uses = 0
	ok := false
	for _, d := range c10Drivers {
		if d == driver {
			ok = true
		}
	}
	if !ok {
		return fmt.Errorf("unknown driver %q", driver)
	}
	s.driver = driver
	s.dir = ScratchDir("c10-" + driver)
	path := s.dir
	if driver == "bolt" {
		path = filepath.Join(s.dir, "bolt.db")
	}
	kv, err := kvi.NewKVInterface(driver, path, nil)
	if err != nil {
		return err
	}
	s.kv = kv
	return nil
}

func c10hex(b []byte) string { return hex.EncodeToString(b) }

func c10unhex(x interface{}) []byte {
	s, _ := x.(string)
	b, err := hex.DecodeString(s)
	if err != nil {
		panic("c10: bad hex " + s)
	}
	if b == nil {
		b = []byte{}
	}
	return b
}

type c10M = map[string]interface{}

func c10GetObs(v []byte, err error) c10M {
	if err != nil {
		return c10M{"nf": true}
	}
	return c10M{"v": c10hex(v)}
}

func c10ItObs(it kvi.KVIterator) c10M {
	if !it.Valid() {
		return c10M{"valid": false}
	}
	v, err := it.Value()
	if err != nil {
		return c10M{"valid": true, "k": c10hex(it.Key()), "verr": true}
	}
	return c10M{"valid": true, "k": c10hex(it.Key()), "v": c10hex(v)}
}

func c10Collect(it kvi.KVIterator, p []byte) c10M {
	out := []interface{}{}
	for ; it.Valid() && bytes.HasPrefix(it.Key(), p); it.Next() {
		v, _ := it.Value()
		out = append(out, []interface{}{c10hex(it.Key()), c10hex(v)})
		if len(out) > c10ScanCap {
			return c10M{"runaway": true}
		}
	}
	return c10M{"kvs": out}
}

// c10ItSteps runs iterator steps; a panic in one step is recorded for that step and ends the list.
func c10ItSteps(it kvi.KVIterator, steps []interface{}) []interface{} {
	res := []interface{}{}
	for _, st := range steps {
		a := st.([]interface{})
		var o c10M
		stop := false
		func() {
			defer func() {
				if e := recover(); e != nil {
					o = c10M{"panic": true}
					stop = true
				}
			}()
			switch a[0].(string) {
			case "seek":
				it.Seek(c10unhex(a[1]))
				o = c10ItObs(it)
			case "rseek":
				it.SeekReverse(c10unhex(a[1]))
				o = c10ItObs(it)
			case "next":
				if it.Valid() {
					it.Next()
				}
				o = c10ItObs(it)
			case "get":
				o = c10GetObs(it.Get(c10unhex(a[1])))
			case "scan":
				p := c10unhex(a[1])
				it.Seek(p)
				o = c10Collect(it, p)
			case "rscan":
				it.SeekReverse(c10unhex(a[1]))
				o = c10Collect(it, c10unhex(a[2]))
			default:
				panic("c10: unknown iterator step")
			}
		}()
		res = append(res, o)
		if stop {
			break
		}
	}
	return res
}

var errC10Fail = fmt.Errorf("c10: callback fails on purpose")

func (s *c10Store) dump() []interface{} {
	out := []interface{}{}
	s.kv.View(func(it kvi.KVIterator) error {
		for it.Seek([]byte{}); it.Valid(); it.Next() {
			v, _ := it.Value()
			out = append(out, []interface{}{c10hex(it.Key()), c10hex(v)})
			if len(out) > c10ScanCap {
				break
			}
		}
		return nil
	})
	return out
}

// exec runs one operation with a watchdog. An operation that does not return within
// c10OpTimeout is reported as {"hang":true} and the store is abandoned (its goroutine cannot be
// killed; generation stops). The timeout is generous because the shared machine can stall a
// healthy Badger operation for tens of seconds (a 20 s limit produced a false "hang").
const c10OpTimeout = 120 * time.Second

func (s *c10Store) exec(op c10M) c10M {
	if s.hung {
		return c10M{"hang": true}
	}
	ch := make(chan c10M, 1)
	go func() { ch <- s.exec1(op) }()
	select {
	case o := <-ch:
		return o
	case <-time.After(c10OpTimeout):
		s.hung = true
		return c10M{"hang": true}
	}
}

func (s *c10Store) exec1(op c10M) (obs c10M) {
	defer func() {
		if e := recover(); e != nil {
			obs = c10M{"panic": true}
		}
	}()
	name, _ := op["op"].(string)
	if name == "reset" {
		d, _ := op["driver"].(string)
		if err := s.reset(d); err != nil {
			return c10M{"ok": false}
		}
		return c10M{"ok": true}
	}
	if s.kv == nil {
		return c10M{"nostore": true}
	}
	switch name {
	case "set":
		return c10M{"err": s.kv.Set(c10unhex(op["k"]), c10unhex(op["v"])) != nil}
	case "get":
		return c10GetObs(s.kv.Get(c10unhex(op["k"])))
	case "has":
		return c10M{"b": s.kv.HasKey(c10unhex(op["k"]))}
	case "del":
		return c10M{"err": s.kv.Delete(c10unhex(op["k"])) != nil}
	case "delp":
		return c10M{"err": s.kv.DeletePrefix(c10unhex(op["p"])) != nil}
	case "dump":
		return c10M{"kvs": s.dump()}
	case "fill":
		// n keys p ++ 5-digit index in one bulk write (volume case for block-wise prefix deletes)
		p := c10unhex(op["p"])
		n := 0
		switch x := op["n"].(type) {
		case float64:
			n = int(x)
		case int:
			n = x
		}
		fillFail, _ := op["fail"].(bool)
		err := s.kv.BulkWrite(func(bl kvi.KVBulkWrite) error {
			for i := 0; i < n; i++ {
				k := append(append([]byte{}, p...), []byte(fmt.Sprintf("%05d", i))...)
				if e := bl.Set(k, []byte{120}); e != nil {
					return e
				}
			}
			if fillFail {
				// a bulk load whose callback fails after n writes: nothing of it may stay (seed C10-l:
				// a driver that commits a long load in blocks keeps the earlier blocks)
				return errC10Fail
			}
			return nil
		})
		return c10M{"seterrs": 0, "err": err != nil}
	case "count":
		p := c10unhex(op["p"])
		n := 0
		var first, last interface{}
		s.kv.View(func(it kvi.KVIterator) error {
			for it.Seek(p); it.Valid() && bytes.HasPrefix(it.Key(), p); it.Next() {
				k := c10hex(it.Key())
				if n == 0 {
					first = k
				}
				last = k
				n++
			}
			return nil
		})
		return c10M{"n": n, "first": first, "last": last}
	case "sync":
		return c10M{"ok": true}
	case "view":
		var res []interface{}
		steps, _ := op["steps"].([]interface{})
		s.kv.View(func(it kvi.KVIterator) error {
			res = c10ItSteps(it, steps)
			return nil
		})
		return c10M{"r": res}
	case "update":
		res := []interface{}{}
		steps, _ := op["steps"].([]interface{})
		fail, _ := op["fail"].(bool)
		err := s.kv.Update(func(tx kvi.KVTransaction) error {
			for _, st := range steps {
				a := st.([]interface{})
				var o c10M
				stop := false
				func() {
					defer func() {
						if e := recover(); e != nil {
							o = c10M{"panic": true}
							stop = true
						}
					}()
					switch a[0].(string) {
					case "set":
						o = c10M{"err": tx.Set(c10unhex(a[1]), c10unhex(a[2])) != nil}
					case "del":
						o = c10M{"err": tx.Delete(c10unhex(a[1])) != nil}
					case "get":
						o = c10GetObs(tx.Get(c10unhex(a[1])))
					case "has":
						o = c10M{"b": tx.HasKey(c10unhex(a[1]))}
					case "view":
						var r []interface{}
						tx.View(func(it kvi.KVIterator) error {
							r = c10ItSteps(it, a[1].([]interface{}))
							return nil
						})
						o = c10M{"r": r}
					default:
						panic("c10: unknown tx step")
					}
				}()
				res = append(res, o)
				if stop {
					break
				}
			}
			if fail {
				return errC10Fail
			}
			return nil
		})
		return c10M{"r": res, "err": err != nil}
	case "bulk":
		sets, _ := op["sets"].([]interface{})
		fail, _ := op["fail"].(bool)
		nerr := 0
		err := s.kv.BulkWrite(func(bl kvi.KVBulkWrite) error {
			for _, st := range sets {
				a := st.([]interface{})
				if bl.Set(c10unhex(a[0]), c10unhex(a[1])) != nil {
					nerr++
				}
			}
			if fail {
				return errC10Fail
			}
			return nil
		})
		return c10M{"seterrs": nerr, "err": err != nil}
	}
	return c10M{"unknown": true}
}

// ---------- generator ----------

type c10Gen struct {
	r      *Run
	shadow map[string]string // generation guidance only (which keys exist); never an oracle
	alpha  []byte
}

func (g *c10Gen) key() []byte {
	r := g.r.Rng
	// prefer short keys over a tiny alphabet so that prefixes are shared and keys collide
	n := 1 + r.Intn(3)
	if r.Intn(6) == 0 {
		n = 4
	}
	k := make([]byte, n)
	for i := range k {
		k[i] = g.alpha[r.Intn(len(g.alpha))]
	}
	return k
}

func (g *c10Gen) existing() []byte {
	if len(g.shadow) == 0 {
		return g.key()
	}
	ks := make([]string, 0, len(g.shadow))
	for k := range g.shadow {
		ks = append(ks, k)
	}
	sort.Strings(ks)
	return []byte(ks[g.r.Rng.Intn(len(ks))])
}

func (g *c10Gen) someKey() []byte {
	if g.r.Rng.Intn(2) == 0 {
		return g.existing()
	}
	return g.key()
}

func (g *c10Gen) value() []byte {
	switch g.r.Rng.Intn(5) {
	case 0:
		return []byte{}
	case 1:
		return []byte{0}
	case 2:
		return []byte("x")
	case 3:
		return []byte("yy")
	}
	return []byte{byte('0' + g.r.Rng.Intn(10)), 0xff}
}

// target is a seek target or prefix: keys, proper prefixes, extensions, and points beyond both ends.
func (g *c10Gen) target(allowEmpty bool) []byte {
	r := g.r.Rng
	switch r.Intn(10) {
	case 0:
		if allowEmpty {
			return []byte{}
		}
		return []byte{g.alpha[0] - 1}
	case 1:
		return []byte{g.alpha[0] - 1} // below every key
	case 2:
		return []byte{g.alpha[len(g.alpha)-1] + 1} // above every key
	case 3:
		return []byte{0xff, 0xff}
	case 4:
		k := g.existing()
		return append(append([]byte{}, k...), 0) // just after an existing key
	case 5:
		k := g.existing()
		return k[:r.Intn(len(k))+0] // proper prefix (possibly empty → handled below)
	case 6, 7:
		return g.existing()
	}
	return g.key()
}

func (g *c10Gen) tgt(allowEmpty bool) []byte {
	t := g.target(allowEmpty)
	if len(t) == 0 && !allowEmpty {
		return []byte{g.alpha[0]}
	}
	return t
}

func (g *c10Gen) itSteps(n int) []interface{} {
	r := g.r.Rng
	out := []interface{}{}
	if r.Intn(3) == 0 {
		// point lookups in the middle of a scan (kvgraph's adjacency reads do exactly this: scan the
		// index, fetch each neighbour with it.Get): position, look a key up — present or absent —
		// and continue; the lookup must not move the scan
		if r.Intn(3) == 0 {
			out = append(out, []interface{}{"rseek", c10hex(g.tgt(false))})
		} else {
			out = append(out, []interface{}{"seek", c10hex(g.tgt(true))})
		}
		for j := 0; j < 3; j++ {
			k := g.key()
			if r.Intn(3) == 0 {
				k = g.existing()
			}
			out = append(out, []interface{}{"get", c10hex(k)}, []interface{}{"next"})
		}
		g.r.Count("it:scan-get-next")
	}
	for i := 0; i < n; i++ {
		switch x := r.Intn(12); {
		case x < 3:
			out = append(out, []interface{}{"seek", c10hex(g.tgt(true))})
			g.r.Count("it:seek")
		case x < 5:
			out = append(out, []interface{}{"rseek", c10hex(g.tgt(false))})
			g.r.Count("it:rseek")
		case x < 8:
			out = append(out, []interface{}{"next"})
			g.r.Count("it:next")
		case x < 9:
			out = append(out, []interface{}{"get", c10hex(g.someKey())})
			g.r.Count("it:get")
		case x < 11:
			out = append(out, []interface{}{"scan", c10hex(g.tgt(true))})
			g.r.Count("it:scan")
		default:
			p := g.tgt(true)
			// reverse scan of the entries with prefix p: start from the largest possible key with that prefix
			k := append(append([]byte{}, p...), 0xff, 0xff, 0xff, 0xff, 0xff)
			if r.Intn(3) == 0 {
				k = g.tgt(false)
			}
			out = append(out, []interface{}{"rscan", c10hex(k), c10hex(p)})
			g.r.Count("it:rscan")
		}
	}
	return out
}

func (g *c10Gen) applyShadowTx(steps []interface{}) {
	for _, st := range steps {
		a := st.([]interface{})
		switch a[0].(string) {
		case "set":
			g.shadow[string(c10unhex(a[1]))] = string(c10unhex(a[2]))
		case "del":
			delete(g.shadow, string(c10unhex(a[1])))
		}
	}
}

func (g *c10Gen) genOp() c10M {
	r := g.r.Rng
	switch x := r.Intn(100); {
	case x < 22:
		return c10M{"op": "set", "k": c10hex(g.someKey()), "v": c10hex(g.value())}
	case x < 30:
		return c10M{"op": "get", "k": c10hex(g.someKey())}
	case x < 38:
		return c10M{"op": "has", "k": c10hex(g.someKey())}
	case x < 45:
		return c10M{"op": "del", "k": c10hex(g.someKey())}
	case x < 50:
		p := g.tgt(r.Intn(8) == 0)
		return c10M{"op": "delp", "p": c10hex(p)}
	case x < 72:
		return c10M{"op": "view", "steps": g.itSteps(1 + r.Intn(7))}
	case x < 88:
		n := 1 + r.Intn(6)
		steps := []interface{}{}
		for i := 0; i < n; i++ {
			switch y := r.Intn(10); {
			case y < 4:
				steps = append(steps, []interface{}{"set", c10hex(g.someKey()), c10hex(g.value())})
			case y < 6:
				steps = append(steps, []interface{}{"del", c10hex(g.someKey())})
			case y < 7:
				steps = append(steps, []interface{}{"get", c10hex(g.someKey())})
			case y < 8:
				steps = append(steps, []interface{}{"has", c10hex(g.someKey())})
			default:
				steps = append(steps, []interface{}{"view", g.itSteps(1 + r.Intn(4))})
			}
		}
		if r.Intn(3) == 0 {
			// a write followed by a scan of the range it falls in, twice, in the same transaction
			for k := 0; k < 2; k++ {
				key := g.someKey()
				steps = append(steps, []interface{}{"set", c10hex(key), c10hex(g.value())})
				p := key
				if len(p) > 1 {
					p = p[:1]
				}
				steps = append(steps, []interface{}{"view", []interface{}{[]interface{}{"scan", c10hex(p)}}})
			}
		}
		return c10M{"op": "update", "steps": steps, "fail": r.Intn(10) == 0}
	case x < 96:
		n := r.Intn(6)
		sets := []interface{}{}
		for i := 0; i < n; i++ {
			sets = append(sets, []interface{}{c10hex(g.someKey()), c10hex(g.value())})
		}
		return c10M{"op": "bulk", "sets": sets, "fail": r.Intn(10) == 0}
	}
	return c10M{"op": "dump"}
}

func c10SameDump(a []interface{}, m map[string]string) bool {
	if len(a) != len(m) {
		return false
	}
	for _, kv := range a {
		p := kv.([]interface{})
		v, ok := m[string(c10unhex(p[0]))]
		if !ok || v != string(c10unhex(p[1])) {
			return false
		}
	}
	return true
}

func c10Generate(r *Run) {
	drivers := c10Drivers
	if r.Mode != "" {
		drivers = []string{r.Mode}
	}
	cases, maxOps := 40, 25
	if r.Tier == "thorough" {
		cases, maxOps = 400, 60
	}
	r.Rule = "distinct operation sequences (whole case text) per driver"
	st := &c10Store{}
	defer st.close()
	for _, d := range drivers {
		// volume cases: more keys under one prefix than the drivers' internal delete block (10000)
		sizes := []int{12000}
		if r.Tier == "thorough" {
			sizes = []int{9999, 10000, 10001, 25000}
		}
		for _, n := range sizes {
			for _, op := range []c10M{{"op": "reset", "driver": d}, {"op": "set", "k": "61", "v": "01"}, {"op": "set", "k": "6163", "v": "02"},
				{"op": "fill", "p": "6162", "n": n}, {"op": "count", "p": "6162"}, {"op": "count", "p": ""},
				{"op": "delp", "p": "6162"}, {"op": "count", "p": "6162"}, {"op": "count", "p": ""}, {"op": "dump"},
				{"op": "fill", "p": "62", "n": n}, {"op": "delp", "p": ""}, {"op": "count", "p": ""},
				{"op": "set", "k": "633030303030", "v": "07"}, {"op": "fill", "p": "63", "n": n, "fail": true}, {"op": "count", "p": ""}, {"op": "dump"}} {
				o := st.exec(op)
				r.Emit(op, o)
				r.Count("volume:" + op["op"].(string))
			}
			r.NonTrivial(fmt.Sprintf("volume-%s-%d", d, n))
		}
		// directed: several views inside ONE update transaction with writes between them — each view
		// must see the transaction's own writes so far (kvindex's removeDocTx / termGetCount open a view
		// per entry inside the transaction that has just written)
		{
			h := func(s string) string { return c10hex([]byte(s)) }
			scanA := []interface{}{[]interface{}{"scan", h("a")}}
			for _, fail := range []bool{false, true} {
				for _, op := range []c10M{{"op": "reset", "driver": d},
					{"op": "set", "k": h("a1"), "v": h("1")}, {"op": "set", "k": h("a2"), "v": h("2")},
					{"op": "set", "k": h("a3"), "v": h("3")}, {"op": "set", "k": h("b1"), "v": h("9")},
					{"op": "update", "fail": fail, "steps": []interface{}{
						[]interface{}{"view", scanA},
						[]interface{}{"set", h("a2"), h("22")}, []interface{}{"del", h("a1")}, []interface{}{"set", h("a4"), h("4")},
						[]interface{}{"view", scanA},
						[]interface{}{"view", []interface{}{[]interface{}{"seek", h("a")}, []interface{}{"next"}, []interface{}{"next"}, []interface{}{"next"}}},
						[]interface{}{"get", h("a4")}, []interface{}{"has", h("a1")},
						[]interface{}{"set", h("a0"), h("0")}, []interface{}{"del", h("a3")},
						[]interface{}{"view", scanA},
						[]interface{}{"view", []interface{}{[]interface{}{"rscan", h("az"), h("a")}}},
						[]interface{}{"set", h("a5"), h("5")},
						[]interface{}{"view", []interface{}{[]interface{}{"rscan", h("az"), h("a")}}},
						[]interface{}{"view", scanA},
					}},
					{"op": "dump"}} {
					o := st.exec(op)
					r.Emit(op, o)
					r.Count("txview:" + op["op"].(string))
					// (after the failed update the dump that follows is judged: the map is as it was)
				}
			}
			r.NonTrivial("txview-" + d)
		}
		for c := 0; c < cases; c++ {
			g := &c10Gen{r: r, shadow: map[string]string{}, alpha: []byte("abc")}
			if c%5 == 4 {
				g.alpha = []byte{0x01, 0x02, 0xfe} // bytes near both ends of the byte range
			}
			text := d
			emit := func(op c10M) c10M {
				t0 := time.Now()
				if os.Getenv("C10_TRACE") != "" {
					fmt.Fprintf(os.Stderr, "C10 op %v\n", op)
				}
				o := st.exec(op)
				if el := time.Since(t0); el > 300*time.Millisecond && os.Getenv("C10_TIMING") != "" {
					fmt.Fprintf(os.Stderr, "C10 slow op %v on %s: %v\n", el, d, op)
				}
				r.Emit(op, o)
				r.Count("op:" + op["op"].(string))
				return o
			}
			emit(c10M{"op": "reset", "driver": d})
			n := 5 + r.Rng.Intn(maxOps)
			for i := 0; i < n; i++ {
				op := g.genOp()
				o := emit(op)
				text += fmt.Sprint(op)
				if o["hang"] == true {
					r.Notes = append(r.Notes, fmt.Sprintf("operation did not return (watchdog %v) on %s: %v; generation stopped", c10OpTimeout, d, op))
					return
				}
				if o["panic"] == true {
					r.Count("panic:" + d + ":" + op["op"].(string))
				}
				switch op["op"].(string) {
				case "set":
					g.shadow[string(c10unhex(op["k"]))] = string(c10unhex(op["v"]))
				case "del":
					delete(g.shadow, string(c10unhex(op["k"])))
				case "delp":
					p := string(c10unhex(op["p"]))
					for k := range g.shadow {
						if len(k) >= len(p) && k[:len(p)] == p {
							delete(g.shadow, k)
						}
					}
				case "update", "bulk":
					before := map[string]string{}
					for k, v := range g.shadow {
						before[k] = v
					}
					if op["op"] == "update" {
						g.applyShadowTx(op["steps"].([]interface{}))
					} else {
						for _, kv := range op["sets"].([]interface{}) {
							p := kv.([]interface{})
							g.shadow[string(c10unhex(p[0]))] = string(c10unhex(p[1]))
						}
					}
					if op["fail"] == true {
						// a failed callback: the transaction leaves the map as it was (the MODEL rolls back;
						// judged by the dump below); the counter says what the store did
						now := st.dump()
						what := "other"
						if c10SameDump(now, before) && c10SameDump(now, g.shadow) {
							what = "same"
						} else if c10SameDump(now, before) {
							what = "rollback"
						} else if c10SameDump(now, g.shadow) {
							what = "commit"
						}
						r.Count("failed-" + op["op"].(string) + ":" + d + ":" + what)
						g.shadow = before
						emit(c10M{"op": "dump"})
					}
				}
			}
			emit(c10M{"op": "dump"})
			r.NonTrivial(text)
			if c < 2 && d == drivers[0] {
				r.AddSample(text)
			}
		}
	}
}

func c10Replay(r *Run, ops []map[string]interface{}) {
	st := &c10Store{}
	defer st.close()
	for _, op := range ops {
		r.Emit(op, st.exec(op))
	}
}

func init() {
	Registry["C10"] = Prop{Gen: c10Generate, Replay: c10Replay}
}
