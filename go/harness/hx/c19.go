package hx

// C19 — aggregate(): correspondence between the aggregate processor of engine/core/processors.go
// (run through the production compiler and pipeline on an embedded badger kvgraph) and the Lean
// MODEL Grip.C19.  One op = one case:
//
//	{"op":"agg","verts":[…],"edges":[…],"pre":[stmts],"aggs":[…],
//	 "rows":[elements the traversal `pre` produced, without aggregate()],
//	 "hint":{"term":{name:[[key,count]…]},"pct":{name:[[p,qlo,qhi,nan]…]}}}
//
// `rows` and `hint` are filled in from the real code (and refreshed on replay): `rows` are the
// input of the aggregate step; `hint` carries the two parts of the answer the property does not
// determine uniquely (which of several equally frequent terms survive `size`; the t-digest
// estimate of each percentile).  The driver checks them against the SPEC (`ValidTop`, monotone
// and within [min,max]) and echoes them only when they satisfy it.
//
// Nothing is excluded: duplicate aggregation names are refused by the compiler ("err":"compile"),
// a histogram with no numeric value or with interval 0 returns no row (these used to kill or hang
// the process: C06/C07 repairs; they are generated and compared since).

import (
	"strings"
	"encoding/json"
	"fmt"
	"math"
	"sort"
	"strconv"
	"time"

	"github.com/bmeg/grip/gripql"
)

type c19State struct {
	eng *Eng
	n   int
	// the graph loaded last (key = serialised verts+edges) and the rows of its last prefix
	gkey, gname string
	pkey        string
	prows       []interface{}
}

func (s *c19State) engine() *Eng {
	if s.eng == nil {
		e, err := NewEng("badger")
		if err != nil {
			panic(err)
		}
		s.eng = e
	}
	return s.eng
}

func c19AggToPB(a map[string]interface{}) map[string]interface{} {
	out := map[string]interface{}{"name": a["name"]}
	f, _ := a["field"].(string)
	switch a["kind"] {
	case "term":
		out["term"] = map[string]interface{}{"field": f, "size": a["size"]}
	case "histogram":
		out["histogram"] = map[string]interface{}{"field": f, "interval": a["interval"]}
	case "percentile":
		ps := []interface{}{}
		for _, p := range a["percents"].([]interface{}) {
			ps = append(ps, c19Num(p)/Scale)
		}
		out["percentile"] = map[string]interface{}{"field": f, "percents": ps}
	case "field":
		out["field"] = map[string]interface{}{"field": f}
	case "type":
		out["type"] = map[string]interface{}{"field": f}
	case "count":
		out["count"] = map[string]interface{}{}
	}
	return out
}

func c19Num(v interface{}) float64 {
	switch x := v.(type) {
	case float64:
		return x
	case int:
		return float64(x)
	case int64:
		return float64(x)
	}
	panic(fmt.Sprintf("c19Num: %T", v))
}

func c19Elem(row interface{}) interface{} {
	m := row.(map[string]interface{})
	if v, ok := m["v"]; ok && v != nil {
		x := v.(map[string]interface{})
		return map[string]interface{}{"gid": x["gid"], "label": x["label"], "from": "", "to": "", "data": x["data"]}
	}
	if e, ok := m["e"]; ok && e != nil {
		x := e.(map[string]interface{})
		return map[string]interface{}{"gid": x["gid"], "label": x["label"], "from": x["from"], "to": x["to"], "data": x["data"]}
	}
	// a row without a current element (a *Null move that found nothing): the aggregations read it as
	// the empty document (every field missing); it still is a row — count counts it, type says UNKNOWN
	if _, ok := m["v"]; ok {
		return map[string]interface{}{"gid": "", "label": "", "from": "", "to": "", "data": Tag(map[string]interface{}{})}
	}
	if _, ok := m["e"]; ok {
		return map[string]interface{}{"gid": "", "label": "", "from": "", "to": "", "data": Tag(map[string]interface{}{})}
	}
	return map[string]interface{}{"other": true}
}

const c19QScale = 1 << 30

// C19Exec runs one case on the real code; it returns the observation and fills op["rows"], op["hint"].
func (s *c19State) exec(op map[string]interface{}) (obs map[string]interface{}) {
	defer func() {
		if p := recover(); p != nil {
			obs = map[string]interface{}{"panic": fmt.Sprint(p)}
		}
	}()
	if op["op"] != "agg" {
		return map[string]interface{}{"bad": "unknown op"}
	}
	e := s.engine()
	verts, _ := op["verts"].([]interface{})
	edges, _ := op["edges"].([]interface{})
	kb, _ := json.Marshal([]interface{}{verts, edges})
	if s.gname == "" || s.gkey != string(kb) {
		if s.gname != "" {
			e.DB.DeleteGraph(s.gname)
		}
		s.n++
		s.gname, s.gkey, s.pkey = fmt.Sprintf("g%d", s.n), string(kb), ""
		if err := e.LoadGraph(s.gname, c19Untagged(verts), c19Untagged(edges)); err != nil {
			s.gname = ""
			return map[string]interface{}{"err": "load"}
		}
	}
	g := s.gname
	preJ, _ := op["pre"].([]interface{})
	pre, err := StmtsFromJSON(preJ)
	if err != nil {
		return map[string]interface{}{"bad": "pre: " + err.Error()}
	}
	// 1. the rows the aggregate step is given: the same traversal without aggregate()
	pb, _ := json.Marshal(preJ)
	// "mark": the aggregations read the element marked `mark` (fields spelled `$mark.f` in the real
	// request): the rows the MODEL aggregates are those of the same traversal ending in select(mark)
	mark, _ := op["mark"].(string)
	if mark != "" {
		pb, _ = json.Marshal([]interface{}{preJ, "select", mark})
	}
	if s.pkey != string(pb) {
		rowsQ := pre
		if mark != "" {
			var err error
			rowsQ, err = StmtsFromJSON(append(append([]interface{}{}, preJ...), map[string]interface{}{"select": map[string]interface{}{"marks": []interface{}{mark}}}))
			if err != nil {
				return map[string]interface{}{"bad": "select: " + err.Error()}
			}
		}
		in := e.RunQuery(g, rowsQ, 20*time.Second)
		if in.Err != nil || in.TimedOut || in.Panic != "" {
			return map[string]interface{}{"err": "pre"}
		}
		rows := []interface{}{}
		for _, r := range CanonRows(in.Rows, true) {
			rows = append(rows, c19Elem(r))
		}
		s.pkey, s.prows = string(pb), rows
	}
	op["rows"] = s.prows
	if op["rowsonly"] == true {
		return nil
	}
	// 2. the aggregation
	aggsJ := []interface{}{}
	kinds := map[string]string{}
	sizes := map[string]float64{}
	for _, a := range op["aggs"].([]interface{}) {
		am := a.(map[string]interface{})
		if mark != "" {
			// the same aggregation, addressed to the marked element
			cp := map[string]interface{}{}
			for k, v := range am {
				cp[k] = v
			}
			if f, ok := cp["field"].(string); ok {
				cp["field"] = "$" + mark + "." + strings.TrimPrefix(f, "$.")
			}
			aggsJ = append(aggsJ, c19AggToPB(cp))
		} else {
			aggsJ = append(aggsJ, c19AggToPB(am))
		}
		kinds[am["name"].(string)] = am["kind"].(string)
		if am["kind"] == "term" {
			sizes[am["name"].(string)] = c19Num(am["size"])
		}
	}
	full, err := StmtsFromJSON(append(append([]interface{}{}, preJ...),
		map[string]interface{}{"aggregate": map[string]interface{}{"aggregations": aggsJ}}))
	if err != nil {
		return map[string]interface{}{"bad": "aggs: " + err.Error()}
	}
	res := e.RunQuery(g, full, 20*time.Second)
	if res.Err != nil {
		return map[string]interface{}{"err": "compile"}
	}
	if res.TimedOut {
		return map[string]interface{}{"err": "timeout"}
	}
	if res.Panic != "" {
		return map[string]interface{}{"panic": true}
	}
	out := map[string]interface{}{}
	vals := map[string]map[string][]int64{}
	hintTerm := map[string]interface{}{}
	hintPct := map[string]interface{}{}
	pct := map[string]interface{}{}
	for _, r := range res.Rows {
		a := r.GetAggregations()
		if a == nil {
			return map[string]interface{}{"err": "non-aggregation row"}
		}
		name := a.GetName()
		if kinds[name] == "percentile" {
			p := a.GetKey().GetNumberValue() * Scale
			if p != math.Trunc(p) {
				return map[string]interface{}{"bad": "percent not on the grid"}
			}
			q := a.GetValue()
			var cell []interface{}
			if math.IsNaN(q) || math.IsInf(q, 0) || math.Abs(q) > 1e9 {
				cell = []interface{}{int64(p), int64(0), int64(0), true}
			} else {
				cell = []interface{}{int64(p), int64(math.Floor(q * c19QScale)), int64(math.Ceil(q * c19QScale)), false}
			}
			l, _ := hintPct[name].([]interface{})
			hintPct[name] = append(l, cell)
			continue
		}
		c := CanonRow(r).(map[string]interface{})["agg"].(map[string]interface{})
		v, ok := c["value"].(int64)
		if !ok {
			return map[string]interface{}{"err": "value not on the grid"}
		}
		if kinds[name] == "term" && sizes[name] > 0 {
			l, _ := hintTerm[name].([]interface{})
			hintTerm[name] = append(l, []interface{}{c["key"], v})
		}
		ks := c19KeyStr(c["key"])
		if vals[name] == nil {
			vals[name] = map[string][]int64{}
		}
		vals[name][ks] = append(vals[name][ks], v)
	}
	for n, m := range vals {
		o := map[string]interface{}{}
		for k, vs := range m {
			sort.Slice(vs, func(a, b int) bool { return vs[a] < vs[b] })
			o[k] = vs
		}
		out[n] = o
	}
	for k, v := range hintPct {
		hintPct[k] = c19SortCells(v.([]interface{}))
		pct[k] = hintPct[k]
	}
	op["hint"] = map[string]interface{}{"term": hintTerm, "pct": hintPct}
	return map[string]interface{}{"rows": out, "pct": pct}
}

// c19KeyStr: the bucket key as the driver prints it (Grip.Drv.C19.keyStr).
func c19KeyStr(k interface{}) string {
	a, ok := k.([]interface{})
	if !ok || len(a) == 0 {
		return "z"
	}
	switch a[0] {
	case "z":
		return "z"
	case "b":
		return fmt.Sprintf("b:%v", a[1])
	case "n":
		return fmt.Sprintf("n:%d", a[1])
	case "s":
		return "s:" + a[1].(string)
	}
	return "?"
}

// c19SortCells sorts percentile cells [p,qlo,qhi,nan] by (p, qlo, qhi).
func c19SortCells(xs []interface{}) []interface{} {
	sort.SliceStable(xs, func(i, j int) bool {
		a, b := xs[i].([]interface{}), xs[j].([]interface{})
		for k := 0; k < 3; k++ {
			if a[k].(int64) != b[k].(int64) {
				return a[k].(int64) < b[k].(int64)
			}
		}
		return false
	})
	return xs
}

// c19Untagged turns protocol elements (data tagged) into protojson elements.
func c19Untagged(els []interface{}) []interface{} {
	out := []interface{}{}
	for _, x := range els {
		m := x.(map[string]interface{})
		o := map[string]interface{}{"gid": m["gid"], "label": m["label"], "data": Untag(m["data"])}
		if f, ok := m["from"]; ok {
			o["from"] = f
			o["to"] = m["to"]
		}
		out = append(out, o)
	}
	return out
}

// ---------- generators ----------

// value pool for the field under test: mixed types, negatives, duplicates, numeric text.
func c19Pool(r *Run, kind int) []interface{} {
	switch kind {
	case 0: // small integers with many duplicates
		return []interface{}{1.0, 2.0, 2.0, 3.0, 3.0, 3.0, 10.0, 20.0, 25.0}
	case 1: // negatives, fractions, zero
		return []interface{}{-30.0, -10.0, -10.5, -0.5, 0.0, 0.5, 9.5, 10.0, 19.75, 20.0, -20.0}
	case 2: // mixed types
		return []interface{}{1.0, "1", true, false, "a", "a", "b", nil, []interface{}{1.0}, map[string]interface{}{"k": 1.0},
			"2.5", 2.5, "", "x y", 0.0, "0", 1.0, -7.0}
	case 3: // strings only
		return []interface{}{"a", "b", "c", "a", "a", "b", "", "A"}
	case 4: // objects (for the field aggregation) and scalars
		return []interface{}{map[string]interface{}{"k": 1.0}, map[string]interface{}{"k": 2.0, "l": "x"},
			map[string]interface{}{}, map[string]interface{}{"m": nil, "l": []interface{}{}}, 5.0, "s", nil}
	default: // wide numeric range
		vs := []interface{}{}
		for i := 0; i < 12; i++ {
			vs = append(vs, float64(r.Rng.Intn(4001)-2000)/4)
		}
		return vs
	}
}

func c19Case(r *Run) map[string]interface{} { return c19CaseSized(r, -1) }

// c19CaseSized: size < 0 draws a small graph; otherwise `size` vertices (inputs beyond the
// aggregation step's internal buffers and batches).
func c19CaseSized(r *Run, size int) map[string]interface{} {
	rng := r.Rng
	kind := rng.Intn(6)
	pool := c19Pool(r, kind)
	nv := rng.Intn(9)
	if rng.Intn(6) == 0 {
		nv = rng.Intn(30)
	}
	if size >= 0 {
		nv = size
	}
	verts := []interface{}{}
	labels := []string{"A", "B"}
	for i := 0; i < nv; i++ {
		data := map[string]interface{}{}
		if rng.Intn(5) != 0 { // otherwise: field missing
			data["x"] = Pick(rng, pool)
		}
		if rng.Intn(2) == 0 {
			data["y"] = float64(rng.Intn(7) - 3)
		}
		if rng.Intn(3) == 0 {
			data["o"] = map[string]interface{}{"k": Pick(rng, pool)}
		}
		verts = append(verts, map[string]interface{}{"gid": fmt.Sprintf("v%02d", i), "label": Pick(rng, labels), "data": Tag(data)})
	}
	edges := []interface{}{}
	if nv > 0 {
		ne := rng.Intn(nv + 1)
		if size >= 0 && ne > 40 {
			ne = 40
		}
		for i := 0; i < ne; i++ {
			data := map[string]interface{}{}
			if rng.Intn(4) != 0 {
				data["x"] = Pick(rng, pool)
			}
			edges = append(edges, map[string]interface{}{"gid": fmt.Sprintf("k%02d", i), "label": Pick(rng, []string{"r", "s"}),
				"from": fmt.Sprintf("v%02d", rng.Intn(nv)), "to": fmt.Sprintf("v%02d", rng.Intn(nv)), "data": Tag(data)})
		}
	}
	var pre []interface{}
	sel := rng.Intn(11)
	if size >= 0 {
		sel = 7 // all vertices
	}
	switch sel {
	case 8: // rows without a current element among the input (vertices without a matching edge)
		pre = []interface{}{map[string]interface{}{"v": []interface{}{}}, map[string]interface{}{"outNull": []interface{}{"r"}}}
	case 9:
		pre = []interface{}{map[string]interface{}{"v": []interface{}{}}, map[string]interface{}{"inENull": []interface{}{"nolabel"}}}
	case 10:
		pre = []interface{}{map[string]interface{}{"v": []interface{}{}}, map[string]interface{}{"outENull": []interface{}{}}}
	case 0:
		pre = []interface{}{map[string]interface{}{"v": []interface{}{}}, map[string]interface{}{"hasLabel": []interface{}{"A"}}}
	case 1:
		pre = []interface{}{map[string]interface{}{"v": []interface{}{}}, map[string]interface{}{"out": []interface{}{}}}
	case 2:
		pre = []interface{}{map[string]interface{}{"e": []interface{}{}}}
	case 3:
		pre = []interface{}{map[string]interface{}{"v": []interface{}{}}, map[string]interface{}{"limit": rng.Intn(4)}}
	default:
		pre = []interface{}{map[string]interface{}{"v": []interface{}{}}}
	}
	res := map[string]interface{}{"op": "agg", "verts": verts, "edges": edges, "pre": pre}
	if size < 0 && rng.Intn(5) == 0 {
		// the aggregations read a MARKED element some steps back (an edge or a vertex), not the current one
		e0 := []interface{}{}
		switch rng.Intn(3) {
		case 0:
			res["pre"] = []interface{}{map[string]interface{}{"e": e0}, map[string]interface{}{"as": "a"}, map[string]interface{}{"out": e0}}
		case 1:
			res["pre"] = []interface{}{map[string]interface{}{"v": e0}, map[string]interface{}{"outE": e0}, map[string]interface{}{"as": "a"}, map[string]interface{}{"out": e0}}
		default:
			res["pre"] = []interface{}{map[string]interface{}{"v": e0}, map[string]interface{}{"as": "a"}, map[string]interface{}{"out": e0}}
		}
		res["mark"] = "a"
	}
	return res
}

var c19Fields = []string{"x", "x", "x", "x", "y", "o.k", "o", "_data", "_gid", "_label", "$.x", "nope", "_from"}

func c19Aggs(r *Run, names []string, rows []interface{}) []interface{} {
	rng := r.Rng
	out := []interface{}{}
	// fields on which a histogram returns (at least one value the cast accepts)
	histFields := []string{}
	for _, f := range []string{"x", "y", "o.k", "$.x"} {
		for _, row := range rows {
			if c19Numericish(c19Lookup(row.(map[string]interface{}), f)) {
				histFields = append(histFields, f)
				break
			}
		}
	}
	for _, n := range names {
		f := Pick(rng, c19Fields)
		var a map[string]interface{}
		k := rng.Intn(8)
		if (k == 2 || k == 7) && (len(histFields) == 0 || rng.Intn(5) == 0) {
			// a histogram over a field without a numeric value (used to index an empty slice): no row
			histFields = append(histFields, Pick(rng, []string{"nope", "_gid", "o", "x", "y"}))
		}
		switch k {
		case 0, 1:
			a = map[string]interface{}{"kind": "term", "field": f, "size": Pick(rng, []int{0, 0, 1, 2, 3, 5, 100})}
		case 2, 7:
			a = map[string]interface{}{"kind": "histogram", "field": Pick(rng, histFields), "interval": Pick(rng, []int{1, 2, 3, 5, 10, 100, 7, 1, 2, 0})}
		case 3:
			ps := []interface{}{}
			for k := rng.Intn(5); k >= 0; k-- {
				ps = append(ps, Pick(rng, []int{0, 1, 10, 25, 50, 50, 75, 90, 99, 100, 0})*1024)
			}
			if rng.Intn(3) == 0 {
				ps = append(ps, 99*1024+512)
			}
			a = map[string]interface{}{"kind": "percentile", "field": f, "percents": ps}
		case 4:
			a = map[string]interface{}{"kind": "field", "field": Pick(rng, []string{"_data", "o", "x", "x", "nope", "$._data"})}
		case 5:
			a = map[string]interface{}{"kind": "type", "field": f}
		default:
			a = map[string]interface{}{"kind": "count"}
		}
		a["name"] = n
		if a["kind"] == "histogram" && a["interval"] == 0 {
			r.Count("aggs:histogram-interval-0")
		}
		out = append(out, a)
	}
	if len(out) > 1 && rng.Intn(25) == 0 {
		// duplicate names: refused by the compiler (the second close of the name's channel used to
		// kill the process)
		out[len(out)-1].(map[string]interface{})["name"] = out[0].(map[string]interface{})["name"]
		r.Count("aggs:duplicate-name")
	}
	return out
}

// cast.ToFloat64E succeeds on v (what the histogram keeps): used ONLY to steer the generator
// towards fields with numeric values; never part of an oracle.
func c19Numericish(v interface{}) bool {
	switch x := v.(type) {
	case float64, bool:
		return true
	case string:
		_, err := strconv.ParseFloat(x, 64)
		return err == nil
	}
	return false
}

func c19Lookup(el map[string]interface{}, field string) interface{} {
	d, _ := Untag(el["data"]).(map[string]interface{})
	switch field {
	case "x", "$.x":
		return d["x"]
	case "y":
		return d["y"]
	case "o":
		return d["o"]
	case "o.k":
		if o, ok := d["o"].(map[string]interface{}); ok {
			return o["k"]
		}
		return nil
	case "_data":
		return d
	case "_gid":
		return el["gid"]
	case "_label":
		return el["label"]
	case "_from":
		return el["from"]
	}
	return nil
}

func (s *c19State) run(r *Run, op map[string]interface{}) {
	// the rows of the prefix decide whether a histogram is safe to run: compute them first
	probe := map[string]interface{}{"op": "agg", "verts": op["verts"], "edges": op["edges"], "pre": op["pre"],
		"aggs": []interface{}{}, "rowsonly": true}
	if m, ok := op["mark"]; ok {
		probe["mark"] = m
	}
	s.exec(probe)
	op["rows"] = probe["rows"]
	if op["rows"] == nil {
		r.Emit(op, map[string]interface{}{"err": "pre"})
		return
	}
	// nothing is excluded any more: a histogram without a numeric value or with interval 0 yields
	// no row, duplicate names are refused by the compiler (they used to crash or hang the process)
	obs := s.exec(op)
	r.Emit(op, obs)
}

func c19Gen(r *Run) {
	r.Rule = "case = (graph, traversal prefix, list of aggregations); distinct by serialized (rows, aggs); " +
		"non-trivial = at least one input row and at least one aggregation other than count"
	s := &c19State{}
	defer func() {
		if s.eng != nil {
			s.eng.Destroy()
		}
	}()
	ngraphs, per := 75, 6
	if r.Tier == "thorough" {
		ngraphs, per = 350, 10
	}
	allNames := []string{"a", "b", "c", "d", "e", "f"}
	// large inputs: around and beyond the aggregation step's channel buffer (1000 rows) 
	big := []int{999, 1001, 2600}
	if r.Tier == "thorough" {
		big = append(big, 251, 501, 5003, 12000)
	}
	for gi := 0; gi < ngraphs+len(big); gi++ {
		var base map[string]interface{}
		if gi < len(big) {
			base = c19CaseSized(r, big[gi])
			r.Count(fmt.Sprintf("case:large-%d", big[gi]))
		} else {
			base = c19Case(r)
		}
		for k := 0; k < per; k++ {
			op := map[string]interface{}{"op": "agg", "verts": base["verts"], "edges": base["edges"], "pre": base["pre"]}
			if m, ok := base["mark"]; ok {
				op["mark"] = m
				r.Count("pre:marked-element")
			}
			var na int
			switch {
			case k == 0:
				na = 6
			case k == 1:
				na = 1
			default:
				na = 1 + r.Rng.Intn(5)
			}
			probe := map[string]interface{}{"op": "agg", "verts": op["verts"], "edges": op["edges"], "pre": op["pre"],
				"aggs": []interface{}{}, "rowsonly": true}
			if m, ok := op["mark"]; ok {
				probe["mark"] = m
			}
			s.exec(probe)
			prows, _ := probe["rows"].([]interface{})
			op["aggs"] = c19Aggs(r, allNames[:na], prows)
			s.run(r, op)
			rows, _ := op["rows"].([]interface{})
			r.Count(fmt.Sprintf("rows:%s", c19Bucket(len(rows))))
			r.Count(fmt.Sprintf("aggs:%d", len(op["aggs"].([]interface{}))))
			nontrivial := false
			for _, a := range op["aggs"].([]interface{}) {
				kd := a.(map[string]interface{})["kind"].(string)
				r.Count("kind:" + kd)
				if kd != "count" {
					nontrivial = true
				}
			}
			if nontrivial && len(rows) > 0 {
				b, _ := json.Marshal([]interface{}{rows, op["aggs"]})
				r.NonTrivial(string(b))
			}
			if gi%40 == 0 && k == 0 {
				r.AddSample(map[string]interface{}{"pre": op["pre"], "aggs": op["aggs"], "nrows": len(rows)})
			}
		}
	}
	// long-tailed input for a term aggregation with a size (seed C19-l: a frequency table capped at
	// 10000 distinct terms forgets the occurrences counted before an eviction): 40 'warm' values seen once
	// among 10100 distinct fillers and four more times after them; the exact top-50 holds every warm value
	// with frequency 5
	{
		verts := []interface{}{}
		add := func(x string) {
			verts = append(verts, map[string]interface{}{"gid": fmt.Sprintf("t%05d", len(verts)), "label": "A",
				"data": Tag(map[string]interface{}{"x": x})})
		}
		for i := 0; i < 3; i++ {
			add("early")
		}
		for j := 0; j < 40; j++ {
			add(fmt.Sprintf("warm%02d", j))
		}
		for i := 0; i < 10100; i++ {
			add(fmt.Sprintf("u%05d", i))
		}
		for k := 0; k < 4; k++ {
			for j := 0; j < 40; j++ {
				add(fmt.Sprintf("warm%02d", j))
			}
		}
		op := map[string]interface{}{"op": "agg", "verts": verts, "edges": []interface{}{},
			"pre": []interface{}{map[string]interface{}{"v": []interface{}{}}},
			"aggs": []interface{}{
				map[string]interface{}{"kind": "term", "field": "x", "size": 50, "name": "a"},
				map[string]interface{}{"kind": "count", "name": "b"},
				map[string]interface{}{"kind": "term", "field": "x", "size": 1, "name": "c"}}}
		s.run(r, op)
		r.Count("case:term-long-tail")
		r.NonTrivial("term-long-tail")
	}
	// the t-digest behind the percentile aggregation against the model Grip.C19.Digest (c19_digest.go)
	c19DigestGen(r)
}

func c19Bucket(n int) string {
	switch {
	case n == 0:
		return "0"
	case n <= 3:
		return "1-3"
	case n <= 10:
		return "4-10"
	}
	return ">10"
}

func c19Replay(r *Run, ops []map[string]interface{}) {
	s := &c19State{}
	defer func() {
		if s.eng != nil {
			s.eng.Destroy()
		}
	}()
	for _, op := range ops {
		if op["op"] == "digest" {
			c19DigestRun(r, op)
			continue
		}
		if op["op"] != "agg" {
			r.Emit(op, map[string]interface{}{"bad": "unknown op"})
			continue
		}
		delete(op, "rows")
		delete(op, "hint")
		s.run(r, op)
	}
}

func init() { Registry["C19"] = Prop{Gen: c19Gen, Replay: c19Replay} }

var _ = gripql.Condition_EQ
