// Package hx holds the plumbing shared by every property's harness: the tagged JSON value
// encoding of the line protocol, the seeded PRNG, the ops/impl writers and the run metadata.
package hx

import (
	"bufio"
	"encoding/json"
	"fmt"
	"math/rand"
	"os"
	"path/filepath"
	"sort"
)

// Run is one harness invocation: it writes DIR/ops.jsonl (operations, one per line, read by
// gripdriver), DIR/impl.jsonl (what the real code answered, one line per op) and DIR/meta.json.
type Run struct {
	Prop   string
	Tier   string
	Seed   int64
	Dir    string
	Rng    *rand.Rand
	ops    *bufio.Writer
	impl   *bufio.Writer
	opsF   *os.File
	implF  *os.File
	N      int
	Dist   map[string]int // input distribution: counters by name
	Sample []interface{}
	Notes  []string
	seen   map[string]bool
	// Distinct counts distinct non-trivial cases (rule given by the property harness).
	Distinct int
	Rule     string
	Exhaustive bool
	Mode string
}

func NewRun(prop, tier string, seed int64, dir string) (*Run, error) {
	if err := os.MkdirAll(dir, 0o755); err != nil {
		return nil, err
	}
	of, err := os.Create(filepath.Join(dir, "ops.jsonl"))
	if err != nil {
		return nil, err
	}
	inf, err := os.Create(filepath.Join(dir, "impl.jsonl"))
	if err != nil {
		return nil, err
	}
	return &Run{Prop: prop, Tier: tier, Seed: seed, Dir: dir, Rng: rand.New(rand.NewSource(seed)),
		ops: bufio.NewWriterSize(of, 1<<20), impl: bufio.NewWriterSize(inf, 1<<20), opsF: of, implF: inf,
		Dist: map[string]int{}, seen: map[string]bool{}}, nil
}

// Emit records one operation and the implementation's observation for it.
func (r *Run) Emit(op map[string]interface{}, obs map[string]interface{}) {
	ob, err := json.Marshal(op)
	if err != nil {
		panic(err)
	}
	ib, err := json.Marshal(obs)
	if err != nil {
		panic(err)
	}
	r.ops.Write(ob)
	r.ops.WriteByte('\n')
	r.impl.Write(ib)
	r.impl.WriteByte('\n')
	r.N++
}

// Count bumps a distribution counter.
func (r *Run) Count(name string) { r.Dist[name]++ }

// NonTrivial registers a case key; distinct keys are counted once.
func (r *Run) NonTrivial(key string) {
	if !r.seen[key] {
		r.seen[key] = true
		r.Distinct++
	}
}

func (r *Run) AddSample(s interface{}) {
	if len(r.Sample) < 8 {
		r.Sample = append(r.Sample, s)
	}
}

func (r *Run) Close() error {
	r.ops.Flush()
	r.impl.Flush()
	r.opsF.Close()
	r.implF.Close()
	meta := map[string]interface{}{
		"property": r.Prop, "tier": r.Tier, "seed": r.Seed, "ops": r.N,
		"distribution": r.Dist, "samples": r.Sample, "notes": r.Notes,
		"distinct_nontrivial": r.Distinct, "rule": r.Rule, "exhaustive": r.Exhaustive,
	}
	b, _ := json.MarshalIndent(meta, "", " ")
	return os.WriteFile(filepath.Join(r.Dir, "meta.json"), b, 0o644)
}

// ---------- tagged JSON values (Grip.Proto) ----------

// Scale is the fixed-point scale of protocol numbers: n stands for n/1024.
const Scale = 1024.0

// Tag encodes a decoded-JSON Go value (nil, bool, float64, string, []interface{},
// map[string]interface{}) in the tagged protocol form. Numbers must be multiples of 1/1024.
func Tag(v interface{}) interface{} {
	switch x := v.(type) {
	case nil:
		return []interface{}{"z"}
	case bool:
		return []interface{}{"b", x}
	case float64:
		n := x * Scale
		if n != float64(int64(n)) {
			panic(fmt.Sprintf("hx.Tag: %v is not a multiple of 1/1024", x))
		}
		return []interface{}{"n", int64(n)}
	case int:
		return []interface{}{"n", int64(x) * 1024}
	case string:
		return []interface{}{"s", x}
	case []interface{}:
		out := make([]interface{}, len(x))
		for i := range x {
			out[i] = Tag(x[i])
		}
		return []interface{}{"a", out}
	case map[string]interface{}:
		keys := make([]string, 0, len(x))
		for k := range x {
			keys = append(keys, k)
		}
		sort.Strings(keys)
		out := make([]interface{}, 0, len(keys))
		for _, k := range keys {
			out = append(out, []interface{}{k, Tag(x[k])})
		}
		return []interface{}{"o", out}
	default:
		panic(fmt.Sprintf("hx.Tag: unsupported %T", v))
	}
}

// Untag is the inverse of Tag (used by replay).
func Untag(t interface{}) interface{} {
	a, ok := t.([]interface{})
	if !ok || len(a) == 0 {
		panic(fmt.Sprintf("hx.Untag: bad %v", t))
	}
	switch a[0].(string) {
	case "z":
		return nil
	case "b":
		return a[1].(bool)
	case "n":
		switch n := a[1].(type) {
		case float64:
			return n / Scale
		case int64:
			return float64(n) / Scale
		case int:
			return float64(n) / Scale
		}
		panic("hx.Untag: bad number")
	case "s":
		return a[1].(string)
	case "a":
		xs := a[1].([]interface{})
		out := make([]interface{}, len(xs))
		for i := range xs {
			out[i] = Untag(xs[i])
		}
		return out
	case "o":
		xs := a[1].([]interface{})
		out := map[string]interface{}{}
		for _, kv := range xs {
			p := kv.([]interface{})
			out[p[0].(string)] = Untag(p[1])
		}
		return out
	}
	panic("hx.Untag: bad tag")
}

// ReadOps loads a replay/ops file (one JSON object per line).
func ReadOps(path string) ([]map[string]interface{}, error) {
	f, err := os.Open(path)
	if err != nil {
		return nil, err
	}
	defer f.Close()
	var out []map[string]interface{}
	sc := bufio.NewScanner(f)
	sc.Buffer(make([]byte, 1<<20), 1<<26)
	for sc.Scan() {
		if len(sc.Bytes()) == 0 {
			continue
		}
		var m map[string]interface{}
		if err := json.Unmarshal(sc.Bytes(), &m); err != nil {
			return nil, err
		}
		out = append(out, m)
	}
	return out, sc.Err()
}

// Pick returns a random element.
func Pick[T any](r *rand.Rand, xs []T) T { return xs[r.Intn(len(xs))] }
