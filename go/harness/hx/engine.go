package hx

// Shared engine helper: open an embedded kvgraph, load graphs given in protojson form, run
// traversals given as protojson GraphStatements through the production compiler and pipeline,
// and canonicalise result rows.

import (
	"context"
	"encoding/json"
	"fmt"
	"math"
	"os"
	"path/filepath"
	"sort"
	"time"

	"github.com/bmeg/grip/engine/pipeline"
	"github.com/bmeg/grip/gdbi"
	"github.com/bmeg/grip/gripql"
	"github.com/bmeg/grip/kvgraph"
	"github.com/bmeg/grip/kvi"
	_ "github.com/bmeg/grip/kvi/badgerdb"
	_ "github.com/bmeg/grip/kvi/boltdb"
	_ "github.com/bmeg/grip/kvi/leveldb"
	_ "github.com/bmeg/grip/kvi/pebbledb"
	"google.golang.org/protobuf/encoding/protojson"
	"google.golang.org/protobuf/types/known/structpb"
)

// Eng is one embedded graph database in a scratch directory.
type Eng struct {
	Driver string
	Dir    string
	KV     kvi.KVInterface
	DB     gdbi.GraphDB
	Work   string
}

// ScratchDir returns a fresh directory below $VERIF_WORK (or the current directory).
func ScratchDir(name string) string {
	base := os.Getenv("VERIF_WORK")
	if base == "" {
		base = "."
	}
	d, err := os.MkdirTemp(base, name+"-")
	if err != nil {
		panic(err)
	}
	return d
}

// NewEng opens driver ("badger", "bolt", "level", "pebble") in a fresh scratch directory.
func NewEng(driver string) (*Eng, error) {
	dir := ScratchDir("db-" + driver)
	return OpenEng(driver, dir)
}

// OpenEng opens (or reopens) a database directory.
func OpenEng(driver, dir string) (*Eng, error) {
	path := dir
	if driver == "bolt" {
		os.MkdirAll(dir, 0o755)
		path = filepath.Join(dir, "bolt.db")
	}
	kv, err := kvi.NewKVInterface(driver, path, nil)
	if err != nil {
		return nil, err
	}
	work := filepath.Join(dir, "..", filepath.Base(dir)+"-work")
	os.MkdirAll(work, 0o755)
	return &Eng{Driver: driver, Dir: dir, KV: kv, DB: kvgraph.NewKVGraph(kv), Work: work}, nil
}

// Close closes the store (keeps the directory).
func (e *Eng) Close() { e.DB.Close() }

// Destroy closes and removes the scratch data.
func (e *Eng) Destroy() {
	e.DB.Close()
	os.RemoveAll(e.Dir)
	os.RemoveAll(e.Work)
}

// VertexFromJSON / EdgeFromJSON decode protojson elements ({"gid":..,"label":..,"data":{..}}).
func VertexFromJSON(j interface{}) (*gripql.Vertex, error) {
	b, _ := json.Marshal(j)
	v := &gripql.Vertex{}
	return v, protojson.Unmarshal(b, v)
}

func EdgeFromJSON(j interface{}) (*gripql.Edge, error) {
	b, _ := json.Marshal(j)
	e := &gripql.Edge{}
	return e, protojson.Unmarshal(b, e)
}

// StmtsFromJSON decodes a list of protojson GraphStatements, e.g.
// [{"v":[]},{"out":["knows"]},{"has":{"condition":{"key":"x","value":1,"condition":"GT"}}},{"limit":3}].
func StmtsFromJSON(js []interface{}) ([]*gripql.GraphStatement, error) {
	out := []*gripql.GraphStatement{}
	for _, j := range js {
		b, _ := json.Marshal(j)
		s := &gripql.GraphStatement{}
		if err := protojson.Unmarshal(b, s); err != nil {
			return nil, fmt.Errorf("statement %s: %v", b, err)
		}
		out = append(out, s)
	}
	return out, nil
}

// StmtsToJSON is the inverse (for generators that build protobufs).
func StmtsToJSON(stmts []*gripql.GraphStatement) []interface{} {
	out := []interface{}{}
	for _, s := range stmts {
		b, err := protojson.Marshal(s)
		if err != nil {
			panic(err)
		}
		var j interface{}
		json.Unmarshal(b, &j)
		out = append(out, j)
	}
	return out
}

// LoadGraph creates graph `name` (if missing) and adds the elements (protojson forms).
func (e *Eng) LoadGraph(name string, verts []interface{}, edges []interface{}) error {
	found := false
	for _, g := range e.DB.ListGraphs() {
		if g == name {
			found = true
		}
	}
	if !found {
		if err := e.DB.AddGraph(name); err != nil {
			return err
		}
	}
	g, err := e.DB.Graph(name)
	if err != nil {
		return err
	}
	vs := []*gdbi.Vertex{}
	for _, j := range verts {
		v, err := VertexFromJSON(j)
		if err != nil {
			return err
		}
		vs = append(vs, gdbi.NewElementFromVertex(v))
	}
	if len(vs) > 0 {
		if err := g.AddVertex(vs); err != nil {
			return err
		}
	}
	es := []*gdbi.Edge{}
	for _, j := range edges {
		x, err := EdgeFromJSON(j)
		if err != nil {
			return err
		}
		es = append(es, gdbi.NewElementFromEdge(x))
	}
	if len(es) > 0 {
		if err := g.AddEdge(es); err != nil {
			return err
		}
	}
	return nil
}

// QueryOutcome is what a traversal produced.
type QueryOutcome struct {
	Rows     []*gripql.QueryResult
	Err      error // compile error
	TimedOut bool  // result stream not closed within the deadline
	Panic    string
}

// RunQuery compiles with the production compiler and runs the pipeline, as server.Traversal does.
func (e *Eng) RunQuery(graph string, stmts []*gripql.GraphStatement, deadline time.Duration) (out QueryOutcome) {
	g, err := e.DB.Graph(graph)
	if err != nil {
		return QueryOutcome{Err: err}
	}
	return RunOn(g, stmts, e.Work, deadline)
}

// RunOn runs a traversal on any GraphInterface.
// SafeCompile compiles with the graph's compiler; a panic inside Compile is an outcome, not the
// end of the harness.
func SafeCompile(g gdbi.GraphInterface, stmts []*gripql.GraphStatement) (pipe gdbi.Pipeline, err error, panicked string) {
	defer func() {
		if p := recover(); p != nil {
			panicked = fmt.Sprint(p)
		}
	}()
	pipe, err = g.Compiler().Compile(stmts, nil)
	return
}

func RunOn(g gdbi.GraphInterface, stmts []*gripql.GraphStatement, workdir string, deadline time.Duration) (out QueryOutcome) {
	defer func() {
		if p := recover(); p != nil {
			out.Panic = fmt.Sprint(p)
		}
	}()
	pipe, err := g.Compiler().Compile(stmts, nil)
	if err != nil {
		return QueryOutcome{Err: err}
	}
	ctx, cancel := context.WithCancel(context.Background())
	defer cancel()
	res := pipeline.Run(ctx, pipe, workdir)
	timer := time.After(deadline)
	for {
		select {
		case row, ok := <-res:
			if !ok {
				return out
			}
			out.Rows = append(out.Rows, row)
		case <-timer:
			out.TimedOut = true
			return out
		}
	}
}

// ---------- canonical rows ----------

func structToTagged(s *structpb.Struct) interface{} {
	if s == nil {
		return Tag(map[string]interface{}{})
	}
	return Tag(s.AsMap())
}

// CanonVertex / CanonEdge: element in canonical protocol form (data tagged).
func CanonVertex(v *gripql.Vertex) interface{} {
	if v == nil {
		return nil
	}
	return map[string]interface{}{"gid": v.Gid, "label": v.Label, "data": structToTagged(v.Data)}
}

func CanonEdge(e *gripql.Edge) interface{} {
	if e == nil {
		return nil
	}
	return map[string]interface{}{"gid": e.Gid, "label": e.Label, "from": e.From, "to": e.To, "data": structToTagged(e.Data)}
}

// CanonRow maps a QueryResult to its canonical protocol form:
// {"v":{…}} | {"e":{…}} | {"count":n} | {"render":<tagged>} | {"path":[<tagged>…]} |
// {"sel":{"mark":{"v":…}|{"e":…}}} | {"agg":{"name":..,"key":<tagged>,"value":<scaled int>}} | {"nil":true}
func CanonRow(r *gripql.QueryResult) interface{} {
	switch x := r.GetResult().(type) {
	case *gripql.QueryResult_Vertex:
		return map[string]interface{}{"v": CanonVertex(x.Vertex)}
	case *gripql.QueryResult_Edge:
		return map[string]interface{}{"e": CanonEdge(x.Edge)}
	case *gripql.QueryResult_Count:
		return map[string]interface{}{"count": x.Count}
	case *gripql.QueryResult_Render:
		return map[string]interface{}{"render": Tag(x.Render.AsInterface())}
	case *gripql.QueryResult_Path:
		out := []interface{}{}
		for _, p := range x.Path.GetValues() {
			out = append(out, Tag(p.AsInterface()))
		}
		return map[string]interface{}{"path": out}
	case *gripql.QueryResult_Selections:
		sel := map[string]interface{}{}
		for k, s := range x.Selections.GetSelections() {
			switch y := s.GetResult().(type) {
			case *gripql.Selection_Vertex:
				sel[k] = map[string]interface{}{"v": CanonVertex(y.Vertex)}
			case *gripql.Selection_Edge:
				sel[k] = map[string]interface{}{"e": CanonEdge(y.Edge)}
			default:
				sel[k] = nil
			}
		}
		return map[string]interface{}{"sel": sel}
	case *gripql.QueryResult_Aggregations:
		a := x.Aggregations
		val := a.GetValue() * Scale
		var sv interface{} = int64(val)
		if val != math.Trunc(val) {
			sv = fmt.Sprintf("inexact:%v", a.GetValue())
		}
		var key interface{}
		if a.GetKey() != nil {
			key = Tag(a.GetKey().AsInterface())
		}
		return map[string]interface{}{"agg": map[string]interface{}{"name": a.GetName(), "key": key, "value": sv}}
	}
	return map[string]interface{}{"nil": true}
}

// CanonRows canonicalises rows; with sorted=true the list is sorted by serialisation (multiset
// comparison), otherwise order is kept.
func CanonRows(rows []*gripql.QueryResult, sorted bool) []interface{} {
	out := make([]interface{}, len(rows))
	keys := make([]string, len(rows))
	for i, r := range rows {
		out[i] = CanonRow(r)
		b, _ := json.Marshal(out[i])
		keys[i] = string(b)
	}
	if sorted {
		idx := make([]int, len(rows))
		for i := range idx {
			idx[i] = i
		}
		sort.SliceStable(idx, func(a, b int) bool { return keys[idx[a]] < keys[idx[b]] })
		s := make([]interface{}, len(rows))
		for i, j := range idx {
			s[i] = out[j]
		}
		return s
	}
	return out
}

// ErrClass maps an error to the small protocol enum.
func ErrClass(err error) string {
	if err == nil {
		return ""
	}
	return "error"
}
