package hx

// C18 — bulk loading vs loading one by one.
//
// A case is  reset · send* · close : the sends are the client stream; on close the REAL
// server.BulkAdd is run (through the generated gRPC handler of the Edit service and, when the
// case has auth on, through the real accounts.BulkWriteFilter) on an in-process server.GripServer
// over an embedded kvgraph, and the BulkEditResult plus everything observable of every graph is
// printed.  Or  reset · batch : util.StreamBatch with recording add functions.
//
// server.BulkAdd may panic or hang (that is one of the things looked for), so cases run in worker
// subprocesses (this binary re-executed with -mode worker); a worker that saw a panic or a hang
// exits and the remaining cases go to a fresh one.

import (
	"bufio"
	"context"
	"encoding/json"
	"fmt"
	"io"
	"os"
	"os/exec"
	"path/filepath"
	"runtime"
	"sort"
	"sync"
	"time"

	"github.com/bmeg/grip/accounts"
	"github.com/bmeg/grip/config"
	"github.com/bmeg/grip/gdbi"
	"github.com/bmeg/grip/gripql"
	"github.com/bmeg/grip/server"
	"github.com/bmeg/grip/util"
	"google.golang.org/grpc"
	"google.golang.org/grpc/metadata"
	"google.golang.org/protobuf/proto"
)

// ---------- the fake client stream ----------

type c18Stream struct {
	items []*gripql.GraphElement
	i     int
	res   *gripql.BulkEditResult
}

func (s *c18Stream) SetHeader(metadata.MD) error  { return nil }
func (s *c18Stream) SendHeader(metadata.MD) error { return nil }
func (s *c18Stream) SetTrailer(metadata.MD)       {}
func (s *c18Stream) Context() context.Context     { return context.Background() }
func (s *c18Stream) SendMsg(m interface{}) error {
	s.res = m.(*gripql.BulkEditResult)
	return nil
}
func (s *c18Stream) RecvMsg(m interface{}) error {
	if s.i >= len(s.items) {
		return io.EOF
	}
	dst := m.(proto.Message)
	proto.Reset(dst)
	proto.Merge(dst, s.items[s.i])
	s.i++
	return nil
}

type c18Access struct{ deny map[string]bool }

func (a c18Access) Enforce(user string, graph string, op accounts.Operation) error {
	if op == accounts.Write && a.deny[graph] {
		return fmt.Errorf("denied")
	}
	return nil
}

func c18BulkAddHandler() grpc.StreamHandler {
	for _, s := range gripql.Edit_ServiceDesc.Streams {
		if s.StreamName == "BulkAdd" {
			return s.Handler
		}
	}
	panic("Edit service has no BulkAdd stream")
}

// ---------- one case on the real code ----------

type c18Case struct {
	Reset map[string]interface{}   `json:"reset"`
	Sends []map[string]interface{} `json:"sends"`
	Close map[string]interface{}   `json:"close"`
}

func c18Element(op map[string]interface{}) *gripql.GraphElement {
	el := &gripql.GraphElement{Graph: op["g"].(string)}
	if v, ok := op["v"]; ok {
		el.Vertex = c03Vertex(v.(map[string]interface{})).ToVertex()
	}
	if e, ok := op["e"]; ok {
		el.Edge = c03Edge(e.(map[string]interface{})).ToEdge()
	}
	return el
}

func c18IsUUID(s string) bool {
	if len(s) != 27 {
		return false
	}
	for _, c := range s {
		if !(c >= '0' && c <= '9' || c >= 'a' && c <= 'z' || c >= 'A' && c <= 'Z') {
			return false
		}
	}
	return true
}

// c18Canon replaces server-drawn ids by one token and re-sorts element lists.
func c18Canon(x interface{}) interface{} {
	switch t := x.(type) {
	case map[string]interface{}:
		if g, ok := t["gid"].(string); ok && c18IsUUID(g) {
			t["gid"] = "<uuid>"
		}
		for k, v := range t {
			if k == "data" {
				continue
			}
			t[k] = c18Canon(v)
		}
		return t
	case []interface{}:
		elems := len(t) > 0
		for i := range t {
			t[i] = c18Canon(t[i])
			m, ok := t[i].(map[string]interface{})
			if !ok {
				elems = false
			} else if _, ok := m["gid"]; !ok {
				elems = false
			}
		}
		if elems {
			return sortElems(t)
		}
		return t
	}
	return x
}

// A BulkAdd call that has not returned after this long counts as hung.  Generous: the machine
// may be heavily loaded; a reported hang is re-run once in a fresh worker before it is believed.
const c18HangTimeout = 90 * time.Second

type c18Worker struct {
	w    *C03World
	work string
}

func (cw *c18Worker) run(c c18Case) (out map[string]interface{}, tainted bool) {
	w := cw.w
	w.Reset()
	if p, ok := c.Reset["procs"].(float64); ok && p >= 1 {
		runtime.GOMAXPROCS(int(p))
	}
	for _, g := range strList(c.Reset["graphs"]) {
		if err := w.DB.AddGraph(g); err != nil {
			return map[string]interface{}{"bad": "addGraph: " + err.Error()}, false
		}
	}
	if pre, ok := c.Reset["pre"].([]interface{}); ok {
		for _, p := range pre {
			w.Exec(p.(map[string]interface{}))
		}
	}
	seen := map[string]string{}
	for _, g := range w.DB.ListGraphs() {
		if gi, err := w.DB.Graph(g); err == nil {
			if ts := gi.GetTimestamp(); ts != "" {
				seen[g] = ts
			}
		}
	}
	conf := &config.Config{}
	conf.Server.WorkDir = cw.work
	srv, err := server.NewGripServer(conf, "", map[string]gdbi.GraphDB{"kv": w.DB})
	if err != nil {
		return map[string]interface{}{"bad": "NewGripServer: " + err.Error()}, false
	}
	fs := &c18Stream{}
	for _, s := range c.Sends {
		fs.items = append(fs.items, c18Element(s))
	}
	var ss grpc.ServerStream = fs
	if a, _ := c.Reset["auth"].(bool); a {
		deny := map[string]bool{}
		for _, g := range strList(c.Reset["deny"]) {
			deny[g] = true
		}
		ss = &accounts.BulkWriteFilter{SS: fs, User: "user", Access: c18Access{deny}}
	}
	handler := c18BulkAddHandler()
	type outcome struct {
		err   error
		panic interface{}
	}
	done := make(chan outcome, 1)
	go func() {
		var o outcome
		defer func() {
			if p := recover(); p != nil {
				o.panic = p
			}
			done <- o
		}()
		o.err = handler(srv, ss)
	}()
	var res interface{}
	select {
	case o := <-done:
		switch {
		case o.panic != nil:
			res, tainted = "panic", true
			fmt.Fprintln(os.Stderr, "C18 worker: BulkAdd panicked:", o.panic)
		case o.err != nil:
			res = "rpc-error"
		case fs.res == nil:
			res = "no-result"
		default:
			res = map[string]interface{}{"ins": fs.res.InsertCount, "err": fs.res.ErrorCount}
		}
	case <-time.After(c18HangTimeout):
		res, tainted = "hang", true
	}
	if tainted {
		// loader goroutines may still be alive and may still write: no observation
		return map[string]interface{}{"res": res}, true
	}
	w.seen = seen
	obsOp := map[string]interface{}{"op": "observe", "ids": c.Close["ids"], "eids": c.Close["eids"], "labels": c.Close["labels"]}
	obs := w.Exec(obsOp)
	return map[string]interface{}{"res": res, "obs": c18Canon(obs["obs"])}, false
}

// c18WorkerMain: -mode worker. `ops` are the cases; one result line per case, written at once.
func c18WorkerMain(r *Run, ops []map[string]interface{}) {
	f, err := os.OpenFile(filepath.Join(r.Dir, "results.jsonl"), os.O_CREATE|os.O_WRONLY|os.O_TRUNC, 0o644)
	if err != nil {
		panic(err)
	}
	cw := &c18Worker{w: NewC03World("level"), work: ScratchDir("c18-work")}
	for _, op := range ops {
		b, _ := json.Marshal(op)
		var c c18Case
		if err := json.Unmarshal(b, &c); err != nil {
			panic(err)
		}
		out, tainted := cw.run(c)
		line, _ := json.Marshal(out)
		f.Write(append(line, '\n'))
		f.Sync()
		if tainted {
			f.Close()
			os.RemoveAll(cw.w.Dir)
			os.RemoveAll(cw.work)
			os.Exit(3)
		}
	}
	f.Close()
	cw.w.Destroy()
	os.RemoveAll(cw.work)
}

// c18RunCases runs the cases in worker subprocesses and returns one result per case.
func c18RunCases(r *Run, cases []c18Case) []map[string]interface{} {
	results := make([]map[string]interface{}, 0, len(cases))
	spawn := 0
	retried := map[int]bool{}
	for len(results) < len(cases) {
		rest := cases[len(results):]
		if len(rest) > 400 {
			rest = rest[:400]
		}
		dir := filepath.Join(r.Dir, fmt.Sprintf("worker%d", spawn))
		spawn++
		os.MkdirAll(dir, 0o755)
		in := filepath.Join(dir, "cases.jsonl")
		wf, _ := os.Create(in)
		bw := bufio.NewWriter(wf)
		for _, c := range rest {
			b, _ := json.Marshal(c)
			bw.Write(b)
			bw.WriteByte('\n')
		}
		bw.Flush()
		wf.Close()
		self, eerr := os.Executable()
		if eerr != nil {
			panic(eerr)
		}
		cmd := exec.Command(self, "C18", "-out", dir, "-mode", "worker", "-replay", in)
		cmd.Dir = dir
		cmd.Env = append(os.Environ(), "VERIF_WORK="+dir)
		logf, _ := os.Create(filepath.Join(dir, "worker.log"))
		cmd.Stdout, cmd.Stderr = logf, logf
		err := cmd.Run()
		logf.Close()
		got, _ := ReadOps(filepath.Join(dir, "results.jsonl"))
		if n := len(got); n > 0 && got[n-1]["res"] == "hang" && !retried[len(results)+n-1] {
			// a hang is believed only when it happens twice
			retried[len(results)+n-1] = true
			r.Count("hang_retried")
			got = got[:n-1]
			results = append(results, got...)
			os.Remove(in)
			continue
		}
		results = append(results, got...)
		if len(got) < len(rest) {
			last := ""
			if len(got) > 0 {
				last, _ = got[len(got)-1]["res"].(string)
			}
			if last != "panic" && last != "hang" {
				if _, serr := os.Stat(filepath.Join(dir, "results.jsonl")); serr != nil {
					panic(fmt.Sprintf("C18: worker did not start: %v", err))
				}
				// the worker died while running the next case (a panic outside the calling goroutine)
				r.Count("worker_crash")
				results = append(results, map[string]interface{}{"res": "crash"})
			}
		}
		os.Remove(in)
	}
	r.Dist["worker_processes"] += spawn
	return results[:len(cases)]
}

// ---------- util.StreamBatch ----------

func c18Batch(op map[string]interface{}) (out map[string]interface{}) {
	k := int(op["k"].(float64))
	graph := op["graph"].(string)
	ch := make(chan *gdbi.GraphElement, 8)
	xs := op["xs"].([]interface{})
	go func() {
		for _, x := range xs {
			m := x.(map[string]interface{})
			el := &gdbi.GraphElement{Graph: m["g"].(string)}
			if v, ok := m["v"]; ok {
				el.Vertex = c03Vertex(v.(map[string]interface{}))
			}
			if e, ok := m["e"]; ok {
				el.Edge = c03Edge(e.(map[string]interface{}))
			}
			ch <- el
		}
		close(ch)
	}()
	var mu sync.Mutex
	vcalls, ecalls := []interface{}{}, []interface{}{}
	canon := func(id string) string {
		if c18IsUUID(id) {
			return "<uuid>"
		}
		return id
	}
	vAdd := func(vs []*gdbi.Vertex) error {
		ids := []interface{}{}
		for _, v := range vs {
			ids = append(ids, canon(v.ID))
		}
		mu.Lock()
		vcalls = append(vcalls, ids)
		mu.Unlock()
		return nil
	}
	eAdd := func(es []*gdbi.Edge) error {
		ids := []interface{}{}
		for _, e := range es {
			ids = append(ids, canon(e.ID))
		}
		mu.Lock()
		ecalls = append(ecalls, ids)
		mu.Unlock()
		return nil
	}
	type outcome struct {
		err   error
		panic interface{}
	}
	done := make(chan outcome, 1)
	go func() {
		var o outcome
		defer func() {
			if p := recover(); p != nil {
				o.panic = p
			}
			done <- o
		}()
		o.err = util.StreamBatch(ch, k, graph, vAdd, eAdd)
	}()
	select {
	case o := <-done:
		if o.panic != nil {
			return map[string]interface{}{"res": "panic"}
		}
		mu.Lock()
		defer mu.Unlock()
		return map[string]interface{}{"vcalls": vcalls, "ecalls": ecalls, "err": o.err != nil}
	case <-time.After(c18HangTimeout):
		return map[string]interface{}{"res": "hang"}
	}
}

// ---------- running a list of protocol ops ----------

func c18RunOps(r *Run, ops []map[string]interface{}) {
	// generated ops carry Go ints, replayed ones float64: normalise through JSON
	for i := range ops {
		b, _ := json.Marshal(ops[i])
		var m map[string]interface{}
		json.Unmarshal(b, &m)
		ops[i] = m
	}
	// collect the BulkAdd cases
	var cases []c18Case
	var cur *c18Case
	for _, op := range ops {
		switch op["op"] {
		case "reset":
			cur = &c18Case{Reset: op}
		case "send":
			if cur == nil {
				cur = &c18Case{Reset: map[string]interface{}{"op": "reset", "graphs": []interface{}{}}}
			}
			cur.Sends = append(cur.Sends, op)
		case "close":
			if cur == nil {
				cur = &c18Case{Reset: map[string]interface{}{"op": "reset", "graphs": []interface{}{}}}
			}
			cur.Close = op
			cases = append(cases, *cur)
			cur = &c18Case{Reset: cur.Reset}
		}
	}
	results := c18RunCases(r, cases)
	ci := 0
	for _, op := range ops {
		switch op["op"] {
		case "reset":
			r.Emit(op, map[string]interface{}{"r": "reset"})
		case "send":
			r.Emit(op, map[string]interface{}{"r": "queued"})
		case "close":
			res := results[ci]
			ci++
			if s, ok := res["res"].(string); ok {
				r.Count("outcome:" + s)
			} else {
				r.Count("outcome:result")
			}
			r.Emit(op, res)
		case "batch":
			r.Emit(op, c18Batch(op))
		case "bulkidx":
			r.Emit(op, c18BulkIdx(op))
		default:
			r.Emit(op, map[string]interface{}{"bad": "unknown op"})
		}
	}
}

// c18BulkIdx: kvgraph.BulkAdd against one-by-one AddVertex on a store with a USER index
// (AddVertexIndex label field): an element whose indexed field holds a value that is no index term
// (bool, list, object) is refused by both, and takes nothing else with it.
//   {"op":"bulkidx","drv":"badger"|"bolt"|"level","index":[label,field],"verts":[{gid,label,data}…]}
//   → {"bulk":[ids stored by the bulk load],"single":[ids stored one by one]}   (sorted)
func c18BulkIdx(op map[string]interface{}) (obs map[string]interface{}) {
	defer func() {
		if p := recover(); p != nil {
			obs = map[string]interface{}{"panic": fmt.Sprint(p)}
		}
	}()
	drv, _ := op["drv"].(string)
	e, err := NewEng(drv)
	if err != nil {
		return map[string]interface{}{"bad": err.Error()}
	}
	defer e.Destroy()
	idx := strList(op["index"])
	verts, _ := op["verts"].([]interface{})
	ids := []string{}
	mk := func() []*gdbi.GraphElement {
		out := []*gdbi.GraphElement{}
		for _, v := range verts {
			m := v.(map[string]interface{})
			pv, err := VertexFromJSON(map[string]interface{}{"gid": m["gid"], "label": m["label"], "data": Untag(m["data"])})
			if err != nil {
				panic(err)
			}
			out = append(out, &gdbi.GraphElement{Graph: "g", Vertex: gdbi.NewElementFromVertex(pv)})
		}
		return out
	}
	for _, v := range verts {
		ids = append(ids, v.(map[string]interface{})["gid"].(string))
	}
	stored := func(gname string) []interface{} {
		g, _ := e.DB.Graph(gname)
		out := []string{}
		seen := map[string]bool{}
		for _, id := range ids {
			if !seen[id] && g.GetVertex(id, true) != nil {
				out = append(out, id)
			}
			seen[id] = true
		}
		sort.Strings(out)
		l := []interface{}{}
		for _, x := range out {
			l = append(l, x)
		}
		return l
	}
	for _, gname := range []string{"gb", "gs"} {
		if err := e.DB.AddGraph(gname); err != nil {
			return map[string]interface{}{"bad": err.Error()}
		}
		g, _ := e.DB.Graph(gname)
		if len(idx) == 2 {
			g.AddVertexIndex(idx[0], idx[1])
		}
	}
	gb, _ := e.DB.Graph("gb")
	ch := make(chan *gdbi.GraphElement, len(verts)+1)
	for _, el := range mk() {
		ch <- el
	}
	close(ch)
	gb.BulkAdd(ch)
	gs, _ := e.DB.Graph("gs")
	for _, el := range mk() {
		gs.AddVertex([]*gdbi.Vertex{el.Vertex})
	}
	return map[string]interface{}{"bulk": stored("gb"), "single": stored("gs")}
}

// ---------- generators ----------

var c18Observe = map[string]interface{}{"ids": []interface{}{"a", "b", "c", "d", "ghost"},
	"eids": []interface{}{"e1", "e2", "e3"}, "labels": []interface{}{"L", "M", "N"}}

type c18Gen struct {
	good map[string]bool // see bulkCase
	r *Run
}

func (g *c18Gen) data() map[string]interface{} {
	rnd := g.r.Rng
	switch rnd.Intn(4) {
	case 0:
		return nil
	case 1:
		return map[string]interface{}{"x": float64(rnd.Intn(3))}
	case 2:
		return map[string]interface{}{"n": map[string]interface{}{"y": []interface{}{1.0, "s", nil}}, "s": "t"}
	}
	return map[string]interface{}{"b": true}
}

var c18Ids = []string{"a", "b", "c", "d"}
var c18Eids = []string{"e1", "e2", "e3"}
var c18Labels = []string{"L", "M", "N"}

func (g *c18Gen) vert() (map[string]interface{}, bool) {
	rnd := g.r.Rng
	l, id := Pick(rnd, c18Labels), Pick(rnd, c18Ids)
	switch rnd.Intn(14) {
	case 0:
		return c03V(id, "", g.data()), false
	case 1:
		return c03V("", l, g.data()), false
	case 2:
		return c03V(id, l, map[string]interface{}{"_label": 1.0}), false
	case 3:
		return c03V(id, l, map[string]interface{}{"bad key": 1.0}), false
	}
	return c03V(id, l, g.data()), true
}

func (g *c18Gen) edge() (map[string]interface{}, bool) {
	rnd := g.r.Rng
	f, t := Pick(rnd, c18Ids), Pick(rnd, c18Ids)
	if rnd.Intn(10) == 0 {
		t = "ghost"
	}
	l, id := Pick(rnd, c18Labels), Pick(rnd, c18Eids)
	switch rnd.Intn(16) {
	case 0:
		return c03E(id, "", f, t, g.data()), false
	case 1:
		return c03E(id, l, "", t, g.data()), false
	case 2:
		return c03E(id, l, f, "", g.data()), false
	case 3:
		return c03E(id, l, f, t, map[string]interface{}{"_from": "x"}), false
	case 4:
		// no id: the server draws one (always with empty data so that equal keys mean equal elements)
		g.r.Count("elem:edge-without-id")
		return c03E("", l, f, t, nil), true
	}
	return c03E(id, l, f, t, g.data()), true
}

// stream builds `n` send ops over the graph-name pool `pool`; `stay` is the chance (in %) to keep
// addressing the same graph as the previous element.
func (g *c18Gen) stream(n int, pool []string, stay int) (ops []map[string]interface{}, valid int) {
	rnd := g.r.Rng
	cur := Pick(rnd, pool)
	for i := 0; i < n; i++ {
		if rnd.Intn(100) >= stay {
			cur = Pick(rnd, pool)
		}
		op := map[string]interface{}{"op": "send", "g": cur}
		switch k := rnd.Intn(40); {
		case k == 0:
			g.r.Count("elem:empty")
		case (k == 1 || k == 2) && g.good[cur]:
			// an element carrying a vertex AND an edge: two elements for the count and for the store
			v, okv := g.vert()
			e, oke := g.edge()
			op["v"], op["e"] = v, e
			if okv {
				valid++
			}
			if oke {
				valid++
			}
			g.r.Count("elem:vertex+edge")
		case k < 22:
			v, ok := g.vert()
			op["v"] = v
			if ok {
				valid++
				g.r.Count("elem:vertex-valid")
			} else {
				g.r.Count("elem:vertex-invalid")
			}
		default:
			e, ok := g.edge()
			op["e"] = e
			if ok {
				valid++
				g.r.Count("elem:edge-valid")
			} else {
				g.r.Count("elem:edge-invalid")
			}
		}
		ops = append(ops, op)
	}
	return ops, valid
}

func c18Strs(xs ...string) []interface{} {
	out := []interface{}{}
	for _, x := range xs {
		out = append(out, x)
	}
	return out
}

func (g *c18Gen) bulkCase(n int) []map[string]interface{} {
	rnd := g.r.Rng
	existing := [][]string{{"g1", "g2"}, {"g1", "g2"}, {"g1"}, {"g1", "g2", "g3"}}[rnd.Intn(4)]
	pools := [][]string{
		{"g1"}, {"g1", "g2"}, {"g1", "g2", "gx"}, {"g1", "gx"}, {"gx"}, {"g1", "g2", "g3"},
		{"g1", "g2", "g1__schema__"}, {"g1", ""}, {"g1", "g2", "gx", "gy"},
	}
	pool := pools[rnd.Intn(len(pools))]
	if rnd.Intn(3) == 0 {
		pool = pools[rnd.Intn(3)]
	}
	reset := map[string]interface{}{"op": "reset", "graphs": c18Strs(existing...), "procs": []int{1, 2, 4}[rnd.Intn(3)]}
	if rnd.Intn(3) == 0 {
		reset["auth"] = true
		deny := []string{}
		for _, x := range []string{"g1", "g2", "gx"} {
			if rnd.Intn(3) == 0 {
				deny = append(deny, x)
			}
		}
		reset["deny"] = c18Strs(deny...)
		g.r.Count("case:auth")
	}
	if rnd.Intn(3) == 0 {
		pre := []interface{}{}
		for _, op := range c03Random(g.r, 6) {
			if op["op"] != "bulk" && op["op"] != "addGraph" && op["op"] != "delGraph" {
				pre = append(pre, op)
			}
		}
		reset["pre"] = pre
		g.r.Count("case:preloaded")
	}
	// graphs for which the per-ELEMENT checks of BulkAdd pass (the graph exists and may be written):
	// only there is an element carrying a vertex and an edge the same as the two sent one after the
	// other (elsewhere the element is ONE error; the MODEL has no such item)
	g.good = map[string]bool{}
	for _, e := range existing {
		g.good[e] = true
	}
	if d, ok := reset["deny"].([]interface{}); ok {
		for _, x := range d {
			delete(g.good, x.(string))
		}
	}
	stay := []int{0, 50, 80, 95}[rnd.Intn(4)]
	sends, valid := g.stream(n, pool, stay)
	g.good = nil
	ops := []map[string]interface{}{reset}
	ops = append(ops, sends...)
	cl := map[string]interface{}{"op": "close"}
	for k, v := range c18Observe {
		cl[k] = v
	}
	ops = append(ops, cl)
	for _, p := range pool {
		missing := true
		for _, e := range existing {
			if e == p {
				missing = false
			}
		}
		if missing && n > 0 {
			g.r.Count("case:addresses-unresolvable-graph")
			break
		}
	}
	g.r.Count(fmt.Sprintf("case:graphs-in-pool=%d", len(pool)))
	if valid > 0 {
		b, _ := json.Marshal(ops)
		g.r.NonTrivial(string(b))
	}
	return ops
}

func (g *c18Gen) batchCase(k, n int) []map[string]interface{} {
	rnd := g.r.Rng
	xs := []interface{}{}
	for i := 0; i < n; i++ {
		el := map[string]interface{}{"g": "g1"}
		switch c := rnd.Intn(60); {
		case c == 0:
			el["g"] = "g2"
			v, _ := g.vert()
			el["v"] = v
		case c == 1:
		case c == 2:
			v, _ := g.vert()
			e, _ := g.edge()
			el["v"], el["e"] = v, e
		case c < 32:
			v, _ := g.vert()
			el["v"] = v
		default:
			e, _ := g.edge()
			el["e"] = e
		}
		xs = append(xs, el)
	}
	g.r.Count(fmt.Sprintf("batch:k=%d", k))
	ops := []map[string]interface{}{
		{"op": "reset", "graphs": []interface{}{}},
		{"op": "batch", "k": k, "graph": "g1", "xs": xs},
	}
	if n > 0 {
		b, _ := json.Marshal(ops)
		g.r.NonTrivial(string(b))
	}
	return ops
}

func c18Generate(r *Run) {
	g := &c18Gen{r: r}
	r.Rule = "case = one client stream (reset, sends, close: real server.BulkAdd in a worker process, result counts and all reads of all graphs) " +
		"or one util.StreamBatch run (reset, batch); distinct = distinct op lists; non-trivial = the stream carries at least one valid element"
	rnd := r.Rng
	lengths := []int{0, 1, 1, 2, 2, 3, 3, 4, 5, 6, 8, 12, 20, 33, 49, 50, 51, 99, 100, 101, 102, 120}
	nrand := 160
	nbatch := 6
	if r.Tier == "thorough" {
		nrand = 1200
		nbatch = 40
	}
	var ops []map[string]interface{}
	ncase := 0
	add := func(c []map[string]interface{}) {
		ops = append(ops, c...)
		ncase++
		if ncase%97 == 3 && len(c) < 14 {
			s := []interface{}{}
			for _, o := range c {
				s = append(s, o)
			}
			r.AddSample(s)
		}
	}
	for _, n := range lengths {
		add(g.bulkCase(n))
		add(g.bulkCase(n))
	}
	for i := 0; i < nrand; i++ {
		n := rnd.Intn(121)
		if rnd.Intn(3) > 0 {
			n = rnd.Intn(12)
		}
		add(g.bulkCase(n))
	}
	// long streams: more elements for one graph than any internal slice of a bulk load (kvgraph
	// commits a stream in one storage transaction; 10 000 is the block size its drivers use elsewhere)
	longs := []int{10003}
	if r.Tier == "thorough" {
		longs = append(longs, 20002)
	}
	for _, n := range longs {
		c := []map[string]interface{}{{"op": "reset", "graphs": c18Strs("g1", "g2")}}
		for i := 0; i < n; i++ {
			switch {
			case i%2500 == 7:
				c = append(c, map[string]interface{}{"op": "send", "g": "g1", "e": c03E(fmt.Sprintf("x%05d", i), "L", "a", fmt.Sprintf("w%05d", i-1), nil)})
			case i%2500 == 9:
				c = append(c, map[string]interface{}{"op": "send", "g": "g1", "v": c03V([]string{"a", "b"}[i/2500%2], "L", nil)})
			default:
				c = append(c, map[string]interface{}{"op": "send", "g": "g1", "v": c03V(fmt.Sprintf("w%05d", i), []string{"L", "M"}[i%2], nil)})
			}
		}
		cl := map[string]interface{}{"op": "close"}
		for k, v := range c18Observe {
			cl[k] = v
		}
		c = append(c, cl)
		ops = append(ops, c...)
		ncase++
		r.Count(fmt.Sprintf("case:long-stream-%d", n))
		r.NonTrivial(fmt.Sprintf("long-stream-%d", n))
	}
	// several graphs, each receiving more elements than the channel between the receive loop and a
	// graph's loader holds (100), in long alternating runs: a loader must be finished (its storage
	// transaction committed) before the next graph's loader starts — the embedded stores allow one
	// write transaction at a time
	for _, seg := range []int{99, 100, 101, 120, 260} {
		c := []map[string]interface{}{{"op": "reset", "graphs": c18Strs("g1", "g2", "g3")}}
		k := 0
		for round := 0; round < 2; round++ {
			for _, gname := range []string{"g1", "g2", "g1", "g3"} {
				for i := 0; i < seg; i++ {
					k++
					c = append(c, map[string]interface{}{"op": "send", "g": gname, "v": c03V(fmt.Sprintf("m%05d", k), []string{"L", "M"}[k%2], nil)})
				}
			}
		}
		c = append(c, map[string]interface{}{"op": "send", "g": "g1", "v": c03V("a", "L", nil)})
		cl := map[string]interface{}{"op": "close"}
		for kk, v := range c18Observe {
			cl[kk] = v
		}
		c = append(c, cl)
		ops = append(ops, c...)
		ncase++
		r.Count("case:alternating-long-segments")
		r.NonTrivial(fmt.Sprintf("alternating-%d", seg))
	}
	r.Dist["bulk_cases"] = ncase
	ks := []int{0, 1, 2, 3, 49, 50, 51, 99, 100, 101}
	for _, k := range ks {
		base := k
		if base < 5 {
			base = 5
		}
		for _, n := range []int{0, 1, base - 1, base, base + 1, 2*base - 1, 2 * base, 2*base + 1, 3*base + 2} {
			add(g.batchCase(k, n))
		}
		for i := 0; i < nbatch; i++ {
			add(g.batchCase(k, rnd.Intn(3*base+5)))
		}
	}
	// bulk against one-by-one on a store with a user index: elements the index cannot take
	{
		vals := []interface{}{1.0, "s", true, 2.5, []interface{}{1.0}, map[string]interface{}{"k": 1.0}, nil, "t", false, 0.0}
		for _, drv := range []string{"badger", "bolt", "level"} {
			for round := 0; round < 4; round++ {
				verts := []interface{}{}
				n := 3 + rnd.Intn(6)
				for i := 0; i < n; i++ {
					data := map[string]interface{}{"y": float64(i)}
					if v := vals[rnd.Intn(len(vals))]; v != nil {
						data["x"] = v
					}
					lab := "L"
					if rnd.Intn(4) == 0 {
						lab = "M" // not covered by the index: any value goes
					}
					verts = append(verts, map[string]interface{}{"gid": fmt.Sprintf("u%d", i), "label": lab, "data": Tag(data)})
				}
				ops = append(ops, map[string]interface{}{"op": "bulkidx", "drv": drv, "index": c18Strs("L", "x"), "verts": verts})
				r.Count("bulkidx:" + drv)
			}
		}
	}
	r.Dist["cases"] = ncase
	c18RunOps(r, ops)
}

func init() {
	Registry["C18"] = Prop{
		Gen: func(r *Run) {
			if r.Mode == "worker" {
				panic("worker mode needs -replay")
			}
			c18Generate(r)
		},
		Replay: func(r *Run, ops []map[string]interface{}) {
			if r.Mode == "worker" {
				c18WorkerMain(r, ops)
				return
			}
			c18RunOps(r, ops)
		},
	}
	_ = sort.Strings
}
