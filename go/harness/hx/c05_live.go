package hx

// C05 live mode (thorough tier): placeholder until the live server run is wired.

func c05Live(op map[string]interface{}) map[string]interface{} {
	return map[string]interface{}{"skip": true}
}

func c05GenLive(r *Run) {}
