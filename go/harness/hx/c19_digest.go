package hx

// C19 / op "digest" — correspondence between github.com/influxdata/tdigest (the digest
// engine/core/processors.go feeds with td.Add(fval, 1) and asks with td.Quantile(p/100)) and the
// Lean MODEL Grip.C19.Digest (`quantile` of a well-formed processed digest).
//
//	{"op":"digest","kind":…,"vals":[f…],"qs":[f…],
//	 "cs":[[mean,weight]…],"min":f,"max":f,"ans":[f|"nan"…]}
//
// Every float travels EXACTLY, as the text "<mantissa>p<exp>" (value = mantissa·2^exp, both
// decimal integers).  `vals` (fed in that order to the real tdigest.New()+Add(v,1)) and `qs`
// (probe quantiles) are the input; `cs` (= Centroids(), which runs process()), `min`, `max` and
// `ans` (= Quantile(q) per probe) come from the real code and are refreshed on replay.
// `min`/`max` are private fields of TDigest: they are DERIVED here from the fed values (process()
// sets them to min/max of the centroid means it ever saw first/last, which for unit weights are
// the extreme values); the probes 0 and 1 make the model's min/max meet the real ones anyway.
//
// The driver checks that the dump is well-formed (`wf`), that the weights add up to the number of
// values and Σ mean·weight to Σ values, evaluates the model's `quantile` exactly on the dumped
// centroids and compares with `ans` (relative tolerance 1e-9 of (max-min)+|max|, on a q widened
// by 2^-48 because `index := q*processedWeight` is rounded), and checks the clause itself on the
// real answers.  Both sides print {"digest":"ok","count":N}.

import (
	"crypto/sha1"
	"fmt"
	"math"
	"strconv"
	"strings"

	"github.com/influxdata/tdigest"
)

// c19F renders a finite float64 exactly as "<mantissa>p<exp>".
func c19F(x float64) string {
	if x == 0 {
		return "0p0"
	}
	fr, e := math.Frexp(x)
	m := int64(fr * (1 << 53))
	e -= 53
	for m%2 == 0 {
		m /= 2
		e++
	}
	return strconv.FormatInt(m, 10) + "p" + strconv.Itoa(e)
}

func c19ParseF(s string) (float64, bool) {
	i := strings.IndexByte(s, 'p')
	if i < 0 {
		return 0, false
	}
	m, err1 := strconv.ParseInt(s[:i], 10, 64)
	e, err2 := strconv.Atoi(s[i+1:])
	if err1 != nil || err2 != nil {
		return 0, false
	}
	return math.Ldexp(float64(m), e), true
}

// c19DigestExec runs the real digest on op["vals"], op["qs"] and fills the derived fields.
func c19DigestExec(op map[string]interface{}) (obs map[string]interface{}) {
	defer func() {
		if p := recover(); p != nil {
			obs = map[string]interface{}{"panic": fmt.Sprint(p)}
		}
	}()
	valsJ, _ := op["vals"].([]interface{})
	qsJ, _ := op["qs"].([]interface{})
	td := tdigest.New()
	mn, mx := math.Inf(1), math.Inf(-1)
	for _, vj := range valsJ {
		s, _ := vj.(string)
		v, ok := c19ParseF(s)
		if !ok {
			return map[string]interface{}{"bad": "digest: value"}
		}
		td.Add(v, 1)
		mn, mx = math.Min(mn, v), math.Max(mx, v)
	}
	cs := []interface{}{}
	for _, c := range td.Centroids() {
		cs = append(cs, []interface{}{c19F(c.Mean), c19F(c.Weight)})
	}
	op["cs"] = cs
	if len(valsJ) == 0 {
		op["min"], op["max"] = "0p0", "0p0"
	} else {
		op["min"], op["max"] = c19F(mn), c19F(mx)
	}
	ans := []interface{}{}
	for _, qj := range qsJ {
		s, _ := qj.(string)
		q, ok := c19ParseF(s)
		if !ok {
			return map[string]interface{}{"bad": "digest: probe"}
		}
		a := td.Quantile(q)
		if math.IsNaN(a) || math.IsInf(a, 0) {
			ans = append(ans, "nan")
		} else {
			ans = append(ans, c19F(a))
		}
	}
	op["ans"] = ans
	return map[string]interface{}{"digest": "ok", "count": int(td.Count())}
}

func c19DigestRun(r *Run, op map[string]interface{}) {
	for _, k := range []string{"cs", "min", "max", "ans"} {
		delete(op, k)
	}
	obs := c19DigestExec(op)
	r.Emit(op, obs)
}

// c19DigestVals draws a value list of the given size.
func c19DigestVals(r *Run, kind string, n int) []float64 {
	out := make([]float64, 0, n)
	grid := func(lo, hi int) float64 { return float64(lo+r.Rng.Intn(hi-lo+1)) / 1024 }
	switch kind {
	case "grid": // k/1024, both signs
		for i := 0; i < n; i++ {
			out = append(out, grid(-200000, 200000))
		}
	case "dups": // few distinct values, many repeats
		pool := []float64{-2.5, -1, 0, 0.5, 1, 1, 3, 7.25}
		for i := 0; i < n; i++ {
			out = append(out, Pick(r.Rng, pool))
		}
	case "negative":
		for i := 0; i < n; i++ {
			out = append(out, grid(-900000, -1))
		}
	case "equal":
		v := grid(-5000, 5000)
		for i := 0; i < n; i++ {
			out = append(out, v)
		}
	case "ascending":
		for i := 0; i < n; i++ {
			out = append(out, float64(i*3-n)/1024)
		}
	case "descending":
		for i := 0; i < n; i++ {
			out = append(out, float64(n-i*5)/1024)
		}
	case "skewed": // most of the mass at one end, a long tail
		for i := 0; i < n; i++ {
			if r.Rng.Intn(10) == 0 {
				out = append(out, grid(0, 1<<28))
			} else {
				out = append(out, grid(0, 64))
			}
		}
	case "ints": // what a graph field usually holds
		for i := 0; i < n; i++ {
			out = append(out, float64(r.Rng.Intn(201)-100))
		}
	}
	return out
}

// c19DigestProbes: fixed points, grip's percents, a dyadic grid, random floats, the knots
// (k+1/2)/N and their float neighbours, the last knot (where the as-written tail branch takes
// over), out-of-range values.
func c19DigestProbes(r *Run, n int) []float64 {
	qs := []float64{0, 1, 0.5, -0.25, 1.5, -1e-300, math.Nextafter(1, 2), math.Nextafter(0, 1), math.Nextafter(1, 0)}
	for _, p := range []float64{0, 1, 10, 25, 50, 75, 90, 99, 99.5, 100} {
		qs = append(qs, p/100)
	}
	for i := 0; i <= 16; i++ {
		qs = append(qs, float64(i)/16)
	}
	for i := 0; i < 12; i++ {
		qs = append(qs, r.Rng.Float64())
	}
	if n > 0 {
		N := float64(n)
		for i := 0; i < 8; i++ {
			k := float64(r.Rng.Intn(n))
			q := (k + 0.5) / N
			qs = append(qs, q, math.Nextafter(q, 0), math.Nextafter(q, 1), k/N)
		}
		for _, k := range []float64{0.5, 1, 1.5, 2.5} {
			if k <= N {
				qs = append(qs, k/N, (N-k)/N, math.Nextafter((N-k)/N, 1))
			}
		}
		// tiny and near-one quantiles (head and tail branches)
		qs = append(qs, 0.25/N, 1-0.25/N, 1-0.75/N)
	}
	return qs
}

func c19SizeBucket(n int) string {
	switch {
	case n <= 3:
		return strconv.Itoa(n)
	case n < 100:
		return "4-99"
	case n < 1000:
		return "100-999"
	case n < 8000:
		return "1000-7999"
	}
	return ">=8000"
}

func c19DigestGen(r *Run) {
	type cs struct {
		kind string
		n    int
	}
	var cases []cs
	kinds := []string{"grid", "dups", "negative", "equal", "ascending", "descending", "skewed", "ints"}
	for _, n := range []int{0, 1, 2, 3} {
		for _, k := range []string{"grid", "dups", "negative", "equal"} {
			cases = append(cases, cs{k, n})
		}
	}
	for _, k := range kinds {
		cases = append(cases, cs{k, 4 + r.Rng.Intn(8)}, cs{k, 12 + r.Rng.Intn(88)})
	}
	for _, k := range []string{"grid", "dups", "ints", "skewed"} {
		cases = append(cases, cs{k, 600 + r.Rng.Intn(400)})
	}
	big := []cs{{"grid", 1500}, {"dups", 1500}, {"ascending", 1500}, {"grid", 9000}, {"ints", 9000}}
	if r.Tier == "thorough" {
		for _, k := range kinds {
			big = append(big, cs{k, 1500 + r.Rng.Intn(3000)}, cs{k, 8001 + r.Rng.Intn(9000)})
			for i := 0; i < 20; i++ {
				cases = append(cases, cs{k, 2 + r.Rng.Intn(300)})
			}
		}
		big = append(big, cs{"grid", 30000}, cs{"skewed", 50000})
	}
	cases = append(cases, big...)
	for _, c := range cases {
		vals := c19DigestVals(r, c.kind, c.n)
		vj := make([]interface{}, len(vals))
		h := sha1.New()
		for i, v := range vals {
			s := c19F(v)
			vj[i] = s
			h.Write([]byte(s + ","))
		}
		qs := c19DigestProbes(r, len(vals))
		qj := make([]interface{}, len(qs))
		for i, q := range qs {
			qj[i] = c19F(q)
		}
		op := map[string]interface{}{"op": "digest", "kind": c.kind, "vals": vj, "qs": qj}
		c19DigestRun(r, op)
		r.Count("digest:values-" + c19SizeBucket(len(vals)))
		r.Count("digest:kind-" + c.kind)
		cl, _ := op["cs"].([]interface{})
		r.Count("digest:centroids-" + c19SizeBucket(len(cl)))
		merged := false
		for _, x := range cl {
			if p, ok := x.([]interface{}); ok && len(p) == 2 && p[1] != "1p0" {
				merged = true
			}
		}
		if merged {
			r.Count("digest:merged-centroids")
		}
		r.Dist["digest:probes"] += len(qs)
		if len(vals) >= 2 {
			r.NonTrivial("digest:" + fmt.Sprintf("%x", h.Sum(nil)))
		}
	}
}
