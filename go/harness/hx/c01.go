package hx

// C01 — traversal results equal the documented step-by-step semantics.
//
// The harness loads generated graphs into a real kvgraph (Badger), compiles protojson statement
// lists with the real compiler (engine/core.StatementProcessor typing switch, real processors) and
// runs them through the real pipeline (engine/pipeline.Run + Convert).  The Lean MODEL
// (Grip.run) answers the same lines.
//
// Modes:
//   ""     literal pipeline: core.NewCompiler without optimizers over a GraphInterface wrapper that
//          always loads element data — planning (IndexStartOptimize, load elision) is C02's
//          subject and has known defects there (duplicate ids in hasId, elision dropping data
//          needed by hasKey/render/fields/unwind/select), so C01 compares the step semantics
//          itself.
//   "prod" production compiler (graph.Compiler()) on a step family chosen to stay clear of the
//          known C02 defect regions (no duplicate ids/labels in leading filters, no data-reading
//          step after an edge step that the elision would leave unloaded).
//
// What is compared (exactly what the property states):
//   cmp=rows  multiset of canonical rows (sorted on both sides)
//   cmp=nsub  traversal ends in limit/skip/range (and nothing else after the first of them but
//             such steps): row count + "rows are a sub-multiset of the untruncated result"
//   cmp=sub   a truncation step is followed by per-row steps: only the sub-multiset relation

import (
	"context"
	"encoding/json"
	"fmt"
	"math/rand"
	"os"
	"runtime/pprof"
	"sort"
	"strings"
	"time"

	"github.com/bmeg/grip/engine/core"
	"github.com/bmeg/grip/gripql"
	"github.com/bmeg/grip/util/protoutil"
	"google.golang.org/protobuf/types/known/structpb"
	"github.com/bmeg/grip/gdbi"
)

// ---------- literal pipeline: always-load wrapper, no optimizers ----------

type c01FullLoad struct {
	gdbi.GraphInterface
}

func (w *c01FullLoad) Compiler() gdbi.Compiler { return core.NewCompiler(w) }
func (w *c01FullLoad) GetVertex(id string, load bool) *gdbi.Vertex {
	return w.GraphInterface.GetVertex(id, true)
}
func (w *c01FullLoad) GetEdge(id string, load bool) *gdbi.Edge {
	return w.GraphInterface.GetEdge(id, true)
}
func (w *c01FullLoad) GetVertexList(ctx context.Context, load bool) <-chan *gdbi.Vertex {
	return w.GraphInterface.GetVertexList(ctx, true)
}
func (w *c01FullLoad) GetEdgeList(ctx context.Context, load bool) <-chan *gdbi.Edge {
	return w.GraphInterface.GetEdgeList(ctx, true)
}
func (w *c01FullLoad) GetVertexChannel(ctx context.Context, req chan gdbi.ElementLookup, load bool) chan gdbi.ElementLookup {
	return w.GraphInterface.GetVertexChannel(ctx, req, true)
}
func (w *c01FullLoad) GetOutChannel(ctx context.Context, req chan gdbi.ElementLookup, load bool, emitNull bool, edgeLabels []string) chan gdbi.ElementLookup {
	return w.GraphInterface.GetOutChannel(ctx, req, true, emitNull, edgeLabels)
}
func (w *c01FullLoad) GetInChannel(ctx context.Context, req chan gdbi.ElementLookup, load bool, emitNull bool, edgeLabels []string) chan gdbi.ElementLookup {
	return w.GraphInterface.GetInChannel(ctx, req, true, emitNull, edgeLabels)
}
func (w *c01FullLoad) GetOutEdgeChannel(ctx context.Context, req chan gdbi.ElementLookup, load bool, emitNull bool, edgeLabels []string) chan gdbi.ElementLookup {
	return w.GraphInterface.GetOutEdgeChannel(ctx, req, true, emitNull, edgeLabels)
}
func (w *c01FullLoad) GetInEdgeChannel(ctx context.Context, req chan gdbi.ElementLookup, load bool, emitNull bool, edgeLabels []string) chan gdbi.ElementLookup {
	return w.GraphInterface.GetInEdgeChannel(ctx, req, true, emitNull, edgeLabels)
}

// ---------- statements in protojson form ----------

type c01Stmt = map[string]interface{}

func c01Kind(s c01Stmt) string {
	for k := range s {
		return k
	}
	return ""
}

func c01IsTrunc(s c01Stmt) bool {
	k := c01Kind(s)
	return k == "limit" || k == "skip" || k == "range"
}

// c01IsSel: steps whose documented meaning selects a sub-multiset without fixing which rows
// (limit/skip/range: "the first n" of an order the documentation does not fix; distinct: one row
// per key value, which one is not fixed).
func c01IsSel(s c01Stmt) bool { return c01IsTrunc(s) || c01Kind(s) == "distinct" }

// c01DetDistinct: a distinct whose key contains the element id keeps exactly one row per element.
// Rows of one element carry the same current element, so when nothing in the program can tell them
// apart (no marks, paths or unwound copies) the result MULTISET is determined whichever row is
// kept, and the step is compared like a filter (rows), not like a selection (sub-multiset).  This
// is what makes "each distinct de-duplicates its own input only" observable for programs with
// several distinct steps.
func c01DetDistinct(q []c01Stmt) func(c01Stmt) bool {
	for _, s := range q {
		switch c01Kind(s) {
		case "as", "select", "path", "unwind":
			return func(c01Stmt) bool { return false }
		}
	}
	return func(s c01Stmt) bool {
		if c01Kind(s) != "distinct" {
			return false
		}
		fs, _ := s["distinct"].([]interface{})
		if len(fs) == 0 {
			return true // the compiler's default key is _gid
		}
		for _, f := range fs {
			if f == "_gid" {
				return true
			}
		}
		return false
	}
}

// c01Classify decides what can be compared for a program (see file comment) and returns the
// program without its selection steps (from the first one on) for the sub-multiset test.
func c01Classify(q []c01Stmt) (cmp string, untr []c01Stmt) {
	det := c01DetDistinct(q)
	isSel := func(s c01Stmt) bool { return c01IsSel(s) && !det(s) }
	first := -1
	for i, s := range q {
		if isSel(s) {
			first = i
			break
		}
	}
	if first < 0 {
		return "rows", nil
	}
	untr = append(untr, q[:first]...)
	onlySelOrCount := true
	monotone := true
	seenTrunc := false
	distinctAfterTrunc := false
	lastCount, lastSel := -1, -1
	for i, s := range q[first:] {
		if isSel(s) {
			lastSel = i
			if c01IsTrunc(s) {
				seenTrunc = true
			} else if seenTrunc {
				// the number of distinct keys among "some n rows" is not determined
				distinctAfterTrunc = true
			}
			continue
		}
		untr = append(untr, s)
		k := c01Kind(s)
		if k == "count" {
			lastCount = i
			seenTrunc = false // a single row from here on
		} else {
			onlySelOrCount = false
		}
		switch k {
		case "count", "v", "e":
			// count is not monotone in its input; a second V()/E() restarts from every row
			monotone = false
		}
	}
	if onlySelOrCount && !distinctAfterTrunc {
		if lastCount > lastSel {
			return "rows", nil // …limit(2).count(): determined by the bounds arithmetic
		}
		if lastCount >= 0 {
			// …limit(2).count().limit(1): the count row itself is determined by the arithmetic, so
			// the reference for the sub-multiset test keeps everything up to the last count and
			// drops only the selection steps after it (count is not monotone in its input).
			ref := append([]c01Stmt{}, q[:first+lastCount+1]...)
			return "nsub", ref
		}
		return "nsub", untr
	}
	if monotone {
		return "sub", untr
	}
	return "skip", nil
}

// c01Hazard: programs the real engine could not run without crashing the process.  There are none
// any more: `unwind` after count/render/select dereferenced a nil element until the processors were
// taught to pass such travelers on (fix 32aaa01); the MODEL follows (`stepUnwind`: no current
// element, no change), so these programs are generated and compared like all others.
func c01Hazard(q []c01Stmt) bool { return false }

// ---------- engine plumbing ----------

type c01Engine struct {
	eng   *Eng
	n     int
	graph string
	mode  string
	// set when a run with `distinct` took seconds (temporary Badger store per run)
	distinctSlow bool
	// emptyPrev: after loading a graph, empty the previous case's graph (same store, same ids)
	emptyPrev bool
}

func (c *c01Engine) reset(g map[string]interface{}) error {
	c.n++
	c.graph = fmt.Sprintf("g%d", c.n)
	vs, _ := g["vertices"].([]interface{})
	es, _ := g["edges"].([]interface{})
	// "history": earlier versions of some of the graph's vertices (same ids, other labels / data), written
	// BEFORE the graph itself: the stored graph is the one the model is given, but the store went through a
	// history that leaves stale label-index entries behind the records (seed C02-l)
	if hist, ok := g["history"].([]interface{}); ok && len(hist) > 0 {
		if err := c.eng.LoadGraph(c.graph, hist, nil); err != nil {
			return err
		}
	}
	if err := c.eng.LoadGraph(c.graph, vs, es); err != nil {
		return err
	}
	// the graphs of earlier cases live in the same store and use the same ids: the previous one is
	// now emptied element by element (this graph's elements were written AFTER theirs).  Graphs are
	// isolated from one another: nothing of this may show in the graph under test — not in its
	// records, not in its adjacency, not in the label index a rewritten plan starts from.
	if c.n > 1 && (c.emptyPrev || c.mode == "prod") {
		if prev, err := c.eng.DB.Graph(fmt.Sprintf("g%d", c.n-1)); err == nil {
			for _, e := range es {
				if m, ok := e.(map[string]interface{}); ok {
					if id, ok := m["gid"].(string); ok && id != "" {
						prev.DelEdge(id)
					}
				}
			}
			for _, v := range vs {
				if m, ok := v.(map[string]interface{}); ok {
					if id, ok := m["gid"].(string); ok && id != "" {
						prev.DelVertex(id)
					}
				}
			}
		}
	}
	return nil
}

func (c *c01Engine) iface() (gdbi.GraphInterface, error) {
	g, err := c.eng.DB.Graph(c.graph)
	if err != nil {
		return nil, err
	}
	if c.mode == "prod" {
		return g, nil
	}
	return &c01FullLoad{g}, nil
}

var c01TypeNames = map[gdbi.DataType]string{
	gdbi.NoData: "NoData", gdbi.VertexData: "VertexData", gdbi.EdgeData: "EdgeData",
	gdbi.CountData: "CountData", gdbi.AggregationData: "AggregationData",
	gdbi.SelectionData: "SelectionData", gdbi.RenderData: "RenderData", gdbi.PathData: "PathData",
}

type c01Result struct {
	compileErr bool
	typ        string
	rows       []interface{} // canonical, sorted
	bad        string
	slow       bool
}

func toIfaces(q []c01Stmt) []interface{} {
	out := make([]interface{}, len(q))
	for i, s := range q {
		out[i] = s
	}
	return out
}

func (c *c01Engine) run(q []c01Stmt) c01Result { return c.runWithin(q, 20*time.Second) }

func (c *c01Engine) runWithin(q []c01Stmt, deadline time.Duration) c01Result {
	g, err := c.iface()
	if err != nil {
		return c01Result{bad: err.Error()}
	}
	stmts, err := StmtsFromJSON(toIfaces(q))
	if err != nil {
		return c01Result{bad: "decode: " + err.Error()}
	}
	pipe, err, pnc := SafeCompile(g, stmts)
	if pnc != "" {
		return c01Result{bad: "panic in Compile: " + pnc}
	}
	if err != nil {
		return c01Result{compileErr: true}
	}
	out := RunOn(g, stmts, c.eng.Work, deadline)
	if out.Err != nil {
		return c01Result{compileErr: true}
	}
	if out.TimedOut {
		for _, st := range q {
			if c01Kind(st) == "distinct" {
				// Distinct opens a temporary Badger store per run; on a loaded machine that alone
				// can exceed the deadline.  Termination is C07's subject: counted, not compared.
				return c01Result{slow: true}
			}
		}
		return c01Result{bad: "timeout"}
	}
	if out.Panic != "" {
		return c01Result{bad: "panic: " + out.Panic}
	}
	return c01Result{typ: c01TypeNames[pipe.DataType()], rows: CanonRows(out.Rows, true)}
}

func c01SubMultiset(sub, sup []interface{}) bool {
	cnt := map[string]int{}
	for _, r := range sup {
		b, _ := json.Marshal(r)
		cnt[string(b)]++
	}
	for _, r := range sub {
		b, _ := json.Marshal(r)
		k := string(b)
		if cnt[k] == 0 {
			return false
		}
		cnt[k]--
	}
	return true
}

func c01Stmts(v interface{}) []c01Stmt {
	xs, _ := v.([]interface{})
	out := make([]c01Stmt, 0, len(xs))
	for _, x := range xs {
		m, _ := x.(map[string]interface{})
		out = append(out, m)
	}
	return out
}

// exec answers one op with the real code.
func (c *c01Engine) exec(op map[string]interface{}) map[string]interface{} {
	switch op["op"] {
	case "reset":
		g, _ := op["graph"].(map[string]interface{})
		if err := c.reset(g); err != nil {
			return map[string]interface{}{"bad": "load: " + err.Error()}
		}
		return map[string]interface{}{"ok": true}
	case "query":
		if m, ok := op["mode"].(string); ok {
			c.mode = m
		}
		q := c01Stmts(op["q"])
		if c01Hazard(q) {
			return map[string]interface{}{"skip": true}
		}
		hasDistinct := false
		for _, st := range q {
			if c01Kind(st) == "distinct" {
				hasDistinct = true
			}
		}
		must, _ := op["must"].(bool) // the fixed distinct programs: never rationed, generous deadline
		if hasDistinct && c.distinctSlow && !must {
			return map[string]interface{}{"skip": true, "why": "distinct: temporary store too slow on this machine"}
		}
		t0 := time.Now()
		var res c01Result
		if must {
			res = c.runWithin(q, 120*time.Second)
		} else {
			res = c.run(q)
		}
		if hasDistinct && !must && (res.slow || time.Since(t0) > 4*time.Second) {
			c.distinctSlow = true
		}
		if res.slow {
			return map[string]interface{}{"skip": true, "why": "distinct: timeout opening temporary store"}
		}
		if res.bad != "" {
			return map[string]interface{}{"bad": res.bad}
		}
		if res.compileErr {
			return map[string]interface{}{"err": "compile"}
		}
		cmp, _ := op["cmp"].(string)
		switch cmp {
		case "nsub", "sub":
			_, untr := c01Classify(q)
			u := c.run(untr)
			if u.slow {
				return map[string]interface{}{"skip": true}
			}
			if u.bad != "" || u.compileErr {
				return map[string]interface{}{"bad": "untruncated run failed: " + u.bad}
			}
			sub := c01SubMultiset(res.rows, u.rows)
			if cmp == "nsub" {
				return map[string]interface{}{"t": res.typ, "n": len(res.rows), "sub": sub}
			}
			return map[string]interface{}{"t": res.typ, "sub": sub}
		case "skip":
			return map[string]interface{}{"skip": true}
		}
		return map[string]interface{}{"t": res.typ, "rows": res.rows}
	case "build":
		// the Go client's query builder (gripql.Query): a prefix kept in a variable is extended
		// twice; every derived query must be exactly its own statement list (the builder is
		// persistent), whatever is built from the same prefix afterwards.
		pre, e1, e2 := c01Stmts(op["pre"]), c01Stmts(op["e1"]), c01Stmts(op["e2"])
		p, err := c01Build(gripql.NewQuery(), pre)
		if err != nil {
			return map[string]interface{}{"bad": "build: " + err.Error()}
		}
		a, err := c01Build(p, e1)
		if err != nil {
			return map[string]interface{}{"bad": "build: " + err.Error()}
		}
		b, err := c01Build(p, e2)
		if err != nil {
			return map[string]interface{}{"bad": "build: " + err.Error()}
		}
		return map[string]interface{}{"a": StmtsToJSON(a.Statements), "b": StmtsToJSON(b.Statements), "p": StmtsToJSON(p.Statements)}
	}
	return map[string]interface{}{"bad": "unknown op"}
}

// c01Build extends q through the builder methods of gripql.Query, one call per statement.
func c01Build(q *gripql.Query, steps []c01Stmt) (*gripql.Query, error) {
	stmts, err := StmtsFromJSON(toIfaces(steps))
	if err != nil {
		return nil, err
	}
	sl := func(l *structpb.ListValue) []string { return protoutil.AsStringList(l) }
	for _, st := range stmts {
		switch s := st.GetStatement().(type) {
		case *gripql.GraphStatement_V:
			q = q.V(sl(s.V)...)
		case *gripql.GraphStatement_E:
			q = q.E(sl(s.E)...)
		case *gripql.GraphStatement_In:
			q = q.In(sl(s.In)...)
		case *gripql.GraphStatement_Out:
			q = q.Out(sl(s.Out)...)
		case *gripql.GraphStatement_Both:
			q = q.Both(sl(s.Both)...)
		case *gripql.GraphStatement_InE:
			q = q.InE(sl(s.InE)...)
		case *gripql.GraphStatement_OutE:
			q = q.OutE(sl(s.OutE)...)
		case *gripql.GraphStatement_BothE:
			q = q.BothE(sl(s.BothE)...)
		case *gripql.GraphStatement_Has:
			q = q.Has(s.Has)
		case *gripql.GraphStatement_HasLabel:
			q = q.HasLabel(sl(s.HasLabel)...)
		case *gripql.GraphStatement_HasKey:
			q = q.HasKey(sl(s.HasKey)...)
		case *gripql.GraphStatement_HasId:
			q = q.HasID(sl(s.HasId)...)
		case *gripql.GraphStatement_Limit:
			q = q.Limit(s.Limit)
		case *gripql.GraphStatement_Skip:
			q = q.Skip(s.Skip)
		case *gripql.GraphStatement_Range:
			q = q.Range(s.Range.Start, s.Range.Stop)
		case *gripql.GraphStatement_As:
			q = q.As(s.As)
		case *gripql.GraphStatement_Select:
			q = q.Select(s.Select.Marks...)
		case *gripql.GraphStatement_Fields:
			q = q.Fields(sl(s.Fields)...)
		case *gripql.GraphStatement_Count:
			q = q.Count()
		case *gripql.GraphStatement_Distinct:
			q = q.Distinct(sl(s.Distinct)...)
		default:
			return nil, fmt.Errorf("no builder method used for %T", s)
		}
	}
	return q, nil
}

// ---------- generators ----------

var c01VLabels = []string{"A", "B", "C"}
var c01ELabels = []string{"k", "l", "m"}

func c01Data(r *rand.Rand, i int) map[string]interface{} {
	d := map[string]interface{}{}
	if r.Intn(4) != 0 {
		d["x"] = float64(r.Intn(5)) - 1
	}
	if r.Intn(3) != 0 {
		d["name"] = Pick(r, []string{"ann", "bob", "cy", "30"})
	}
	if r.Intn(3) == 0 {
		d["nested"] = map[string]interface{}{"k": float64(r.Intn(3)), "deep": map[string]interface{}{"z": Pick(r, []string{"p", "q"})}}
	} else if r.Intn(4) == 0 {
		d["nested"] = map[string]interface{}{"k": "s"}
	}
	switch r.Intn(5) {
	case 0:
		d["tags"] = []interface{}{"t1", "t2"}
	case 1:
		d["tags"] = []interface{}{}
	case 2:
		d["tags"] = []interface{}{float64(i), "t1", nil}
	case 3:
		d["tags"] = "notalist"
	}
	if r.Intn(6) == 0 {
		d["k"] = true
	}
	if r.Intn(8) == 0 {
		d["x"] = nil
	}
	// a list BELOW the top level (unwind / fields / render on a nested path; seed C01-l: unwind copies
	// that share the nested map).  A function of i only: the random stream of every user of this
	// generator stays as it was.
	switch i % 4 {
	case 0:
		d["info"] = map[string]interface{}{"tags": []interface{}{"n1", "n2", float64(i)}, "n": float64(i)}
	case 2:
		d["info"] = map[string]interface{}{"tags": []interface{}{}}
	case 3:
		if i%8 == 3 {
			d["info"] = map[string]interface{}{"tags": "s"}
		}
	}
	return d
}

// c01Graph: 0..nv vertices, 0..ne edges, 3 labels each, nested data, self loops, parallel edges,
// dangling endpoints, isolated vertices.  kind selects a shape.
func c01Graph(r *rand.Rand, kind int) map[string]interface{} {
	vs := []interface{}{}
	es := []interface{}{}
	if kind == 0 { // empty graph
		return map[string]interface{}{"vertices": vs, "edges": es}
	}
	nv := 1 + r.Intn(6)
	if kind == 1 {
		nv = 4
	}
	ids := []string{}
	for i := 0; i < nv; i++ {
		id := fmt.Sprintf("v%d", i+1)
		ids = append(ids, id)
		vs = append(vs, map[string]interface{}{"gid": id, "label": Pick(r, c01VLabels), "data": c01Data(r, i)})
	}
	ne := r.Intn(9)
	if kind == 1 {
		ne = 8
	}
	ends := append([]string{}, ids...)
	ends = append(ends, "ghost") // dangling endpoint: no such vertex
	for i := 0; i < ne; i++ {
		from := Pick(r, ends)
		to := Pick(r, ends)
		switch {
		case kind == 1 && i == 0:
			from, to = "v1", "v1" // self loop
		case kind == 1 && (i == 1 || i == 2):
			from, to = "v1", "v2" // parallel edges
		case kind == 1 && i == 3:
			from, to = "v2", "ghost"
		case kind == 1 && i == 4:
			from, to = "ghost", "v1"
		}
		es = append(es, map[string]interface{}{"gid": fmt.Sprintf("e%d", i+1), "label": Pick(r, c01ELabels),
			"from": from, "to": to, "data": c01Data(r, i)})
	}
	return map[string]interface{}{"vertices": vs, "edges": es}
}

func sl(xs ...string) []interface{} {
	out := []interface{}{}
	for _, x := range xs {
		out = append(out, x)
	}
	return out
}

func c01Cond(key string, cond string, val interface{}) c01Stmt {
	return c01Stmt{"has": map[string]interface{}{"condition": map[string]interface{}{"key": key, "value": val, "condition": cond}}}
}

// c01Alphabet: the step letters of the exhaustive enumeration (well- and ill-typed sequences).
func c01Alphabet() []c01Stmt {
	return []c01Stmt{
		{"v": sl()}, {"v": sl("v1", "zz", "v2")}, {"e": sl()}, {"e": sl("e1", "e2")},
		{"out": sl()}, {"out": sl("k")}, {"in": sl()}, {"both": sl()}, {"outE": sl()}, {"inE": sl("l", "k")}, {"bothE": sl()},
		c01Cond("x", "GT", 0.0), {"hasLabel": sl("A", "k")}, {"hasId": sl("v1", "v2", "e1")}, {"hasKey": sl("name", "x")},
		{"as": "a"}, {"as": "b"}, {"select": map[string]interface{}{"marks": sl("a")}}, {"select": map[string]interface{}{"marks": sl("a", "b")}},
		{"fields": sl("name")}, {"render": map[string]interface{}{"n": "name", "g": "_gid", "a": "$a._label"}}, {"path": sl()},
		{"unwind": "tags"}, {"count": ""},
		{"limit": 2}, {"skip": 1}, {"range": map[string]interface{}{"start": 1, "stop": 3}},
		{"hasLabel": sl()},
	}
}

var c01Paths = []string{"x", "name", "nested.k", "nested.deep.z", "nested", "tags", "k", "missing", "nested.missing",
	"_gid", "_label", "_from", "_to", "name.sub"}

func c01Value(r *rand.Rand) interface{} {
	switch r.Intn(7) {
	case 0:
		return float64(r.Intn(5)) - 1
	case 1:
		return Pick(r, []string{"ann", "bob", "A", "k", "v1", "30", "p"})
	case 2:
		return []interface{}{float64(r.Intn(3)) - 1, float64(r.Intn(3)) + 1}
	case 3:
		return []interface{}{"ann", "A", "v1", float64(1), "t1"}
	case 4:
		return nil
	case 5:
		return true
	}
	return 0.5
}

func c01HasExpr(r *rand.Rand, depth int, marks []string) map[string]interface{} {
	if depth <= 0 || r.Intn(3) != 0 {
		key := Pick(r, c01Paths)
		if len(marks) > 0 && r.Intn(5) == 0 {
			key = "$" + Pick(r, marks) + "." + Pick(r, []string{"x", "name", "_gid", "_label", "nested.k"})
		}
		conds := []string{"EQ", "NEQ", "GT", "GTE", "LT", "LTE", "INSIDE", "OUTSIDE", "BETWEEN", "WITHIN", "WITHOUT", "CONTAINS"}
		return map[string]interface{}{"condition": map[string]interface{}{"key": key, "value": c01Value(r), "condition": Pick(r, conds)}}
	}
	switch r.Intn(3) {
	case 0:
		n := r.Intn(3)
		xs := []interface{}{}
		for i := 0; i < n; i++ {
			xs = append(xs, c01HasExpr(r, depth-1, marks))
		}
		return map[string]interface{}{"and": map[string]interface{}{"expressions": xs}}
	case 1:
		n := r.Intn(3)
		xs := []interface{}{}
		for i := 0; i < n; i++ {
			xs = append(xs, c01HasExpr(r, depth-1, marks))
		}
		return map[string]interface{}{"or": map[string]interface{}{"expressions": xs}}
	}
	return map[string]interface{}{"not": c01HasExpr(r, depth-1, marks)}
}

func c01Labels(r *rand.Rand, pool []string) []interface{} {
	n := r.Intn(3)
	out := []interface{}{}
	for i := 0; i < n; i++ {
		out = append(out, Pick(r, pool))
	}
	return out
}

func c01Template(r *rand.Rand, depth int, marks []string) interface{} {
	ref := func() string {
		if len(marks) > 0 && r.Intn(3) == 0 {
			return "$" + Pick(r, marks) + "." + Pick(r, []string{"name", "_gid", "x", "nested"})
		}
		if r.Intn(12) == 0 {
			return "$"
		}
		return Pick(r, c01Paths)
	}
	if depth <= 0 {
		return ref()
	}
	switch r.Intn(6) {
	case 0:
		return map[string]interface{}{"a": c01Template(r, depth-1, marks), "b": c01Template(r, depth-1, marks)}
	case 1:
		return []interface{}{c01Template(r, depth-1, marks), ref()}
	case 2:
		return float64(3) // non-string leaf
	case 3:
		return nil
	}
	return ref()
}

// c01RandomProgram: a well-typed program of about n steps (typing tracked with the documented
// rules; the real compiler is still the judge — a rejected program is compared as such).
func c01RandomProgram(r *rand.Rand, n int, prod bool, withDistinct bool) []c01Stmt {
	q := []c01Stmt{}
	typ := "V"
	marks := []string{}
	markTyp := map[string]string{}
	if r.Intn(3) == 0 {
		typ = "E"
		if r.Intn(3) == 0 {
			q = append(q, c01Stmt{"e": sl(Pick(r, []string{"e1", "e2", "e9"}), Pick(r, []string{"e3", "e1"}))})
		} else {
			q = append(q, c01Stmt{"e": sl()})
		}
	} else {
		if r.Intn(4) == 0 {
			q = append(q, c01Stmt{"v": sl(Pick(r, []string{"v1", "v2", "zz"}), Pick(r, []string{"v3", "v1", "v4"}))})
		} else {
			q = append(q, c01Stmt{"v": sl()})
		}
	}
	edgeUnloaded := false // prod mode: an edge step whose data the elision may leave unloaded
	for len(q) < n && (typ == "V" || typ == "E") {
		c := r.Intn(22)
		if prod {
			// stay clear of C02's known defect regions: after an edge-producing step only steps
			// that read no element data (the elision looks at has/distinct/last step only)
			if c >= 9 && c <= 17 && c != 10 && c != 11 && edgeUnloaded {
				continue
			}
		}
		switch {
		case c == 0:
			q = append(q, c01Stmt{"out": c01Labels(r, c01ELabels)})
			typ = "V"
		case c == 1:
			q = append(q, c01Stmt{"in": c01Labels(r, c01ELabels)})
			typ = "V"
		case c == 2:
			q = append(q, c01Stmt{"both": c01Labels(r, c01ELabels)})
			typ = "V"
		case c == 3 && typ == "V":
			q = append(q, c01Stmt{"outE": c01Labels(r, c01ELabels)})
			typ = "E"
		case c == 4 && typ == "V":
			q = append(q, c01Stmt{"inE": c01Labels(r, c01ELabels)})
			typ = "E"
		case c == 5 && typ == "V":
			q = append(q, c01Stmt{"bothE": c01Labels(r, c01ELabels)})
			typ = "E"
		case c == 6:
			q = append(q, c01Stmt{"has": c01HasExpr(r, 2, marks)})
		case c == 7:
			ls := sl(Pick(r, c01VLabels), Pick(r, c01ELabels))
			if prod {
				ls = sl(Pick(r, c01VLabels))
			}
			q = append(q, c01Stmt{"hasLabel": ls})
		case c == 8:
			ids := sl(Pick(r, []string{"v1", "v2", "e1"}), Pick(r, []string{"v3", "e2", "v1"}))
			if prod {
				ids = sl(Pick(r, []string{"v1", "v2", "e1"}))
			}
			q = append(q, c01Stmt{"hasId": ids})
		case c == 9:
			ks := sl(Pick(r, c01Paths))
			if r.Intn(2) == 0 {
				ks = append(ks, Pick(r, c01Paths))
			}
			q = append(q, c01Stmt{"hasKey": ks})
		case c == 10:
			m := Pick(r, []string{"a", "b", "c"})
			q = append(q, c01Stmt{"as": m})
			if markTyp[m] == "" {
				marks = append(marks, m)
			}
			markTyp[m] = typ
		case c == 11 && len(marks) > 0 && !prod:
			m := Pick(r, marks)
			q = append(q, c01Stmt{"select": map[string]interface{}{"marks": sl(m)}})
			typ = markTyp[m]
		case c == 12:
			ks := []interface{}{}
			for i := r.Intn(3); i > 0; i-- {
				k := Pick(r, c01Paths)
				if r.Intn(3) == 0 {
					k = "-" + k
				}
				ks = append(ks, k)
			}
			q = append(q, c01Stmt{"fields": ks})
		case c == 13:
			q = append(q, c01Stmt{"unwind": Pick(r, []string{"tags", "tags", "x", "missing", "nested.k", "nested", "_gid", "info.tags", "info.tags"})})
		case c == 14 && withDistinct:
			fs := []interface{}{}
			for i := r.Intn(3); i > 0; i-- {
				fs = append(fs, Pick(r, c01Paths))
			}
			q = append(q, c01Stmt{"distinct": fs})
		case c == 15 || c == 16 || c == 17:
			// handled as tails below
		}
		if typ == "E" && (c == 3 || c == 4 || c == 5) {
			edgeUnloaded = true
		} else if c <= 5 {
			edgeUnloaded = false
		}
	}
	// tail
	switch r.Intn(8) {
	case 0:
		q = append(q, c01Stmt{"count": ""})
	case 1:
		if !(prod && edgeUnloaded) {
			q = append(q, c01Stmt{"render": c01Template(r, 2, marks)})
		}
	case 2:
		q = append(q, c01Stmt{"path": sl()})
	case 3:
		if len(marks) >= 1 {
			ms := sl(Pick(r, marks), Pick(r, append([]string{"zz"}, marks...)))
			q = append(q, c01Stmt{"select": map[string]interface{}{"marks": ms}})
		}
	}
	// truncation tail
	for i := r.Intn(3); i > 0; i-- {
		switch r.Intn(3) {
		case 0:
			q = append(q, c01Stmt{"limit": r.Intn(5)})
		case 1:
			q = append(q, c01Stmt{"skip": r.Intn(4)})
		case 2:
			q = append(q, c01Stmt{"range": map[string]interface{}{"start": r.Intn(5) - 1, "stop": r.Intn(7) - 2}})
		}
	}
	if r.Intn(6) == 0 {
		q = append(q, c01Stmt{"count": ""})
	}
	return q
}

// c01BuilderSteps keeps the statements gripql.Query has a plain builder method for.
func c01BuilderSteps(q []c01Stmt) []c01Stmt {
	out := []c01Stmt{}
	for _, s := range q {
		switch c01Kind(s) {
		case "render", "path", "unwind", "aggregate":
			continue
		}
		out = append(out, s)
	}
	return out
}

func c01Key(q []c01Stmt) string {
	ks := make([]string, len(q))
	for i, s := range q {
		ks[i] = c01Kind(s)
	}
	return strings.Join(ks, ".")
}

func c01Gen(r *Run) {
	if pf := os.Getenv("C01_CPUPROFILE"); pf != "" {
		f, _ := os.Create(pf)
		pprof.StartCPUProfile(f)
		defer pprof.StopCPUProfile()
	}
	eng, err := NewEng("badger")
	if err != nil {
		panic(err)
	}
	defer eng.Destroy()
	c := &c01Engine{eng: eng, mode: r.Mode}
	thorough := r.Tier == "thorough"
	prod := r.Mode == "prod"
	// wall-clock budget for the run (the machine may be shared): phases stop when it is used up
	// and the evidence says how far they got.
	budget := 40 * time.Second
	if thorough {
		budget = 5 * time.Minute
	}
	if b := os.Getenv("C01_BUDGET_S"); b != "" {
		var n int
		fmt.Sscanf(b, "%d", &n)
		budget = time.Duration(n) * time.Second
	}
	t0 := time.Now()
	over := func(frac float64) bool { return time.Since(t0) > time.Duration(float64(budget)*frac) }

	emit := func(op map[string]interface{}) map[string]interface{} {
		obs := c.exec(op)
		r.Emit(op, obs)
		return obs
	}
	must := false
	query := func(q []c01Stmt) map[string]interface{} {
		cmp, _ := c01Classify(q)
		op := map[string]interface{}{"op": "query", "q": toIfaces(q), "cmp": cmp}
		if must {
			op["must"] = true
		}
		if prod {
			op["mode"] = "prod"
		}
		obs := emit(op)
		r.Count("cmp:" + cmp)
		if _, ok := obs["err"]; ok {
			r.Count("outcome:compile-error")
		} else if _, ok := obs["skip"]; ok {
			r.Count("outcome:skipped")
		} else {
			r.Count("outcome:rows")
			if rows, ok := obs["rows"].([]interface{}); ok {
				switch {
				case len(rows) == 0:
					r.Count("rows:0")
				case len(rows) <= 3:
					r.Count("rows:1-3")
				default:
					r.Count("rows:4+")
				}
				if len(rows) > 0 {
					r.NonTrivial(c01Key(q))
				}
			}
		}
		return obs
	}

	// graphs
	ngraphs := 4
	if thorough {
		ngraphs = 12
	}
	graphs := []map[string]interface{}{}
	for i := 0; i < ngraphs; i++ {
		kind := 2
		if i == 0 {
			kind = 1 // the dense witness graph: self loop, parallel edges, dangling endpoints
		} else if i == 1 {
			kind = 0 // empty graph
		}
		graphs = append(graphs, c01Graph(r.Rng, kind))
	}
	r.AddSample(graphs[0])

	if !prod {
		// exhaustive programs over the alphabet; ill-typed ones are emitted once (typing is
		// independent of the graph) and only when their proper prefix is well-typed.
		alpha := c01Alphabet()
		maxLen := 3
		if thorough {
			maxLen = 4
		}
		type prog struct {
			q  []c01Stmt
			ok bool
		}
		level := []prog{{q: nil, ok: true}}
		all := []prog{}
		for l := 1; l <= maxLen; l++ {
			next := []prog{}
			for _, p := range level {
				if !p.ok {
					continue
				}
				for _, a := range alpha {
					q := append(append([]c01Stmt{}, p.q...), a)
					next = append(next, prog{q: q, ok: true})
				}
			}
			// decide well-typedness with the real compiler (graph independent)
			if c.graph == "" {
				c.reset(graphs[1])
			}
			g, _ := c.iface()
			for i := range next {
				stmts, err := StmtsFromJSON(toIfaces(next[i].q))
				if err != nil {
					panic(err)
				}
				if _, err := g.Compiler().Compile(stmts, nil); err != nil {
					next[i].ok = false
				}
			}
			all = append(all, next...)
			level = next
		}
		nOK := 0
		for _, p := range all {
			if p.ok {
				nOK++
			}
		}
		r.Dist["exhaustive:programs"] = len(all)
		r.Dist["exhaustive:well-typed"] = nOK
		r.Exhaustive = true
		for gi, g := range graphs {
			if gi > 0 && over(0.6) {
				r.Count("exhaustive:graphs-not-reached")
				continue
			}
			r.Count("exhaustive:graphs-run")
			emit(map[string]interface{}{"op": "reset", "graph": g})
			n := 0
			for _, p := range all {
				if (gi > 0 || len(p.q) >= 4) && over(0.7) {
					r.Exhaustive = false
					break
				}
				if !p.ok && gi > 0 {
					continue
				}
				if c01Hazard(p.q) {
					r.Count("hazard:not-run")
					continue
				}
				if thorough && len(p.q) == 4 && gi >= 3 {
					// the longest programs run on the first three graphs only (distinct opens a
					// temporary store per run)
					continue
				}
				if n > 0 && n%400 == 0 {
					emit(map[string]interface{}{"op": "reset", "graph": g}) // keeps replay cases short
				}
				n++
				query(p.q)
			}
		}
	}

	// random well-typed programs of length 5–12
	nrand := 300
	if thorough {
		nrand = 5000
	}
	if prod {
		nrand = nrand / 2
	}
	ndistinctEvery := 60
	if thorough {
		ndistinctEvery = 100
	}
	// fixed distinct programs (default key, label key, data key, missing key, mark key)
	if !prod {
		emit(map[string]interface{}{"op": "reset", "graph": graphs[0]})
		for _, q := range [][]c01Stmt{
			{{"v": sl()}, {"distinct": sl()}},
			{{"v": sl()}, {"both": sl()}, {"distinct": sl()}},
			{{"v": sl()}, {"distinct": sl("_label")}},
			{{"v": sl()}, {"out": sl()}, {"distinct": sl("_label", "x")}, {"count": ""}},
			{{"e": sl()}, {"distinct": sl("missing")}},
			{{"v": sl()}, {"as": "a"}, {"out": sl()}, {"distinct": sl("$a._gid")}},
			{{"v": sl()}, {"bothE": sl()}, {"distinct": sl("_label")}, {"limit": 1}},
			{{"v": sl()}, {"distinct": sl("name")}, {"count": ""}},
			// several distinct steps in one traversal: each de-duplicates its own input only
			{{"v": sl()}, {"distinct": sl("_gid")}, {"out": sl()}, {"distinct": sl("_gid")}},
			{{"v": sl()}, {"distinct": sl()}, {"both": sl()}, {"distinct": sl()}, {"count": ""}},
			{{"v": sl()}, {"out": sl()}, {"distinct": sl("_gid", "_label")}, {"in": sl()}, {"distinct": sl("_label", "_gid")}},
			{{"e": sl()}, {"distinct": sl()}, {"out": sl()}, {"distinct": sl()}, {"outE": sl()}, {"distinct": sl()}},
			{{"v": sl()}, {"distinct": sl("_label")}, {"count": ""}},
			{{"v": sl()}, {"distinct": sl("_label")}, {"out": sl()}, {"distinct": sl("_label")}},
			// unwind on a path below the top level: one row per item, each with ITS item; the marked element keeps the list
			{{"v": sl()}, {"unwind": "info.tags"}},
			{{"v": sl()}, {"as": "a"}, {"unwind": "info.tags"}, {"select": map[string]interface{}{"marks": sl("a")}}},
			{{"v": sl()}, {"unwind": "info.tags"}, {"render": map[string]interface{}{"t": "info.tags", "g": "_gid", "n": "info.n"}}},
			{{"v": sl()}, {"unwind": "info.tags"}, {"unwind": "tags"}, {"path": sl()}},
			{{"v": sl()}, {"out": sl()}, {"unwind": "info.tags"}, {"distinct": sl("info.tags")}},
			{{"e": sl()}, {"unwind": "info.tags"}, {"count": ""}},
		} {
			must = true
			query(q)
			must = false
		}
	}
	// the *Null moves (outNull/inNull/outENull/inENull): like the plain move, plus ONE row without a
	// current element for every input row the move finds nothing for (MODEL: Grip.C02.evalStepN with
	// kvgraph's notion of "found nothing"), followed by every kind of step that may meet such a row
	if !prod {
		follow := []c01Stmt{
			{"out": sl()}, {"in": sl("k")}, {"both": sl()}, {"outE": sl()}, {"inE": sl()}, {"bothE": sl()},
			{"outNull": sl()}, {"inNull": sl()}, {"outENull": sl()}, {"inENull": sl("l")},
			c01Cond("x", "GT", 0.0), c01Cond("name", "EQ", nil), c01Cond("_gid", "NEQ", "v1"), {"hasLabel": sl("A", "k")}, {"hasId": sl("v1", "v2", "e1")},
			{"hasLabel": sl("")}, {"hasLabel": sl("", "A")}, c01Cond("_label", "EQ", ""), {"hasId": sl("")}, c01Cond("_gid", "EQ", ""),
			{"hasKey": sl("name")}, {"as": "a"}, {"fields": sl("name")}, {"render": map[string]interface{}{"n": "name", "g": "_gid"}},
			{"path": sl()}, {"unwind": "tags"}, {"count": ""}, {"limit": 2}, {"distinct": sl()}, {"distinct": sl("name")},
		}
		ngn := 2
		if thorough {
			ngn = len(graphs)
		}
		for gi := 0; gi <= ngn && gi < len(graphs); gi++ {
			if gi == 1 {
				continue // the empty graph
			}
			emit(map[string]interface{}{"op": "reset", "graph": graphs[gi]})
			for _, start := range []c01Stmt{{"v": sl()}, {"e": sl()}, {"v": sl("v1", "zz")}} {
				for _, nm := range []c01Stmt{{"outNull": sl()}, {"outNull": sl("k")}, {"inNull": sl()}, {"inNull": sl("nolabel")},
					{"outENull": sl()}, {"outENull": sl("l")}, {"inENull": sl()}, {"inENull": sl("nolabel")}} {
					r.Count("nullmove")
					query([]c01Stmt{start, nm})
					for _, f := range follow {
						if gi > 0 && over(0.5) {
							r.Count("nullmove:not-run-budget")
							continue
						}
						query([]c01Stmt{start, nm, f})
					}
					query([]c01Stmt{start, {"as": "a"}, nm, {"as": "b"}, {"select": map[string]interface{}{"marks": sl("a", "b")}}})
					query([]c01Stmt{start, {"as": "a"}, nm, c01Cond("$a._gid", "EQ", "v1")})
				}
			}
		}
	}
	// paths of siblings: a chain r0 → a1 → … → a7 with a dozen leaves hanging off a2, a3, a5 and a6,
	// so that a traveler whose path already has 3, 4, 6, 7 elements is extended to many children at
	// once; every row of `path()` must list the elements ITS traveler visited (children of one
	// parent must not share the storage of their paths)
	if !prod {
		vs := []interface{}{}
		es := []interface{}{}
		addV := func(id string) {
			vs = append(vs, map[string]interface{}{"gid": id, "label": "A", "data": map[string]interface{}{"name": id}})
		}
		ne := 0
		addE := func(from, to string) {
			ne++
			es = append(es, map[string]interface{}{"gid": fmt.Sprintf("f%03d", ne), "label": "k", "from": from, "to": to, "data": map[string]interface{}{}})
		}
		addV("r0")
		prev := "r0"
		for i := 1; i <= 7; i++ {
			id := fmt.Sprintf("a%d", i)
			addV(id)
			addE(prev, id)
			if i == 2 || i == 3 || i == 5 || i == 6 {
				for j := 0; j < 12; j++ {
					leaf := fmt.Sprintf("l%d_%02d", i, j)
					addV(leaf)
					addE(id, leaf)
				}
			}
			prev = id
		}
		emit(map[string]interface{}{"op": "reset", "graph": map[string]interface{}{"vertices": vs, "edges": es}})
		for k := 1; k <= 8; k++ {
			q := []c01Stmt{{"v": sl("r0")}}
			for i := 0; i < k; i++ {
				q = append(q, c01Stmt{"out": sl()})
			}
			r.Count("pathfan")
			query(append(append([]c01Stmt{}, q...), c01Stmt{"path": sl()}))
			if k >= 2 {
				// the same through edges (two path elements per hop) and with a mark on the way
				qe := []c01Stmt{{"v": sl("r0")}}
				for i := 0; i < k/2+1; i++ {
					qe = append(qe, c01Stmt{"outE": sl()}, c01Stmt{"out": sl()})
				}
				query(append(qe, c01Stmt{"path": sl()}))
				qm := append(append([]c01Stmt{}, q[:k]...), c01Stmt{"as": "a"}, c01Stmt{"out": sl()}, c01Stmt{"path": sl()})
				query(qm)
			}
		}
		query([]c01Stmt{{"v": sl("a2")}, {"both": sl()}, {"both": sl()}, {"both": sl()}, {"path": sl()}})
		query([]c01Stmt{{"v": sl("a1")}, {"out": sl()}, {"out": sl()}, {"both": sl()}, {"out": sl()}, {"path": sl()}})
	}
	// the client-side query builder: prefixes of every length 0..14 extended twice
	if !prod {
		norm := func(q []c01Stmt) []interface{} {
			st, err := StmtsFromJSON(toIfaces(q))
			if err != nil {
				panic(err)
			}
			return StmtsToJSON(st)
		}
		nb := 60
		if thorough {
			nb = 600
		}
		for i := 0; i < nb; i++ {
			var q []c01Stmt
			for len(q) < 19 { // k <= 14 and up to 4 more statements: never slice into spare capacity
				q = append(q, c01BuilderSteps(c01RandomProgram(r.Rng, 8, false, true))...)
			}
			k := i % 15
			pre, rest := q[:k], q[k:]
			if k == 0 {
				pre = nil
			}
			n1, n2 := 1+r.Rng.Intn(2), 1+r.Rng.Intn(2)
			op := map[string]interface{}{"op": "build", "pre": norm(pre), "e1": norm(rest[:n1]), "e2": norm(rest[n1 : n1+n2])}
			obs := emit(op)
			r.Count(fmt.Sprintf("build:prefix%02d", k))
			if _, bad := obs["bad"]; !bad {
				r.NonTrivial(fmt.Sprintf("build:%d:%s:%s", k, c01Key(rest[:n1]), c01Key(rest[n1:n1+n2])))
			}
		}
	}
	for i := 0; i < nrand; i++ {
		if i > 60 && over(1.0) {
			r.Count("random:not-run-budget")
			continue
		}
		if i%25 == 0 {
			g := Pick(r.Rng, graphs)
			if r.Rng.Intn(3) == 0 {
				g = c01Graph(r.Rng, 2)
			}
			emit(map[string]interface{}{"op": "reset", "graph": g})
		}
		// `distinct` opens a temporary Badger store per run (engine.Manager.GetTempKV): rationed
		q := c01RandomProgram(r.Rng, 5+r.Rng.Intn(8), prod, i%ndistinctEvery == 0)
		if c01Hazard(q) {
			r.Count("hazard:not-run")
			continue
		}
		obs := query(q)
		if i < 3 {
			r.AddSample(map[string]interface{}{"q": q, "obs": obs})
		}
		r.Count(fmt.Sprintf("random:len%02d", len(q)))
	}
	ks := []string{}
	for k := range r.Dist {
		ks = append(ks, k)
	}
	sort.Strings(ks)
	r.Rule = "distinct statement-kind sequences that produced at least one row"
}

func c01Replay(r *Run, ops []map[string]interface{}) {
	eng, err := NewEng("badger")
	if err != nil {
		panic(err)
	}
	defer eng.Destroy()
	c := &c01Engine{eng: eng, mode: r.Mode}
	for _, op := range ops {
		if op["op"] == "query" && c.graph == "" {
			c.reset(map[string]interface{}{})
		}
		r.Emit(op, c.exec(op))
	}
}

func init() { Registry["C01"] = Prop{Gen: c01Gen, Replay: c01Replay} }
