package hx

// C03 — mutation histories on kvgraph vs the Lean MODEL (Grip.C03.step) and SPEC (abstract graph).
// Drives the gdbi.GraphDB / GraphInterface API of a real kvgraph over an embedded store and, on
// "observe", prints everything the property lists as observable.

import (
	"encoding/json"
	"context"
	"fmt"
	"os"
	"sort"

	"github.com/bmeg/grip/gdbi"
	"github.com/bmeg/grip/gripql"
	"github.com/bmeg/grip/kvgraph"
	"github.com/bmeg/grip/kvi"
	"google.golang.org/protobuf/types/known/structpb"
)

// C03World is the database under test plus the timestamps seen at the previous observation.
type C03World struct {
	Driver string
	Dir    string
	KV     kvi.KVInterface
	DB     gdbi.GraphDB
	seen   map[string]string
	hist   map[string]map[string]string // graph name → timestamp → content (V and E listings) seen under it
}

func NewC03World(driver string) *C03World {
	e, err := NewEng(driver)
	if err != nil {
		panic(err)
	}
	return &C03World{Driver: driver, Dir: e.Dir, KV: e.KV, DB: e.DB, seen: map[string]string{}}
}

// Reset empties the store and rebuilds the in-memory wrapper (a fresh server on an empty directory).
func (w *C03World) Reset() {
	if err := w.KV.DeletePrefix([]byte{}); err != nil {
		panic(err)
	}
	n := 0
	w.KV.View(func(it kvi.KVIterator) error {
		for it.Seek([]byte{}); it.Valid(); it.Next() {
			n++
		}
		return nil
	})
	if n != 0 {
		panic(fmt.Sprintf("reset left %d keys", n))
	}
	w.DB = kvgraph.NewKVGraph(w.KV)
	w.seen = map[string]string{}
	w.hist = nil
}

func (w *C03World) Destroy() {
	w.DB.Close()
	os.RemoveAll(w.Dir)
}

func c03Vertex(j map[string]interface{}) *gdbi.Vertex {
	d, _ := structpb.NewStruct(Untag(j["data"]).(map[string]interface{}))
	return gdbi.NewElementFromVertex(&gripql.Vertex{Gid: j["gid"].(string), Label: j["label"].(string), Data: d})
}

func c03Edge(j map[string]interface{}) *gdbi.Edge {
	d, _ := structpb.NewStruct(Untag(j["data"]).(map[string]interface{}))
	return gdbi.NewElementFromEdge(&gripql.Edge{Gid: j["gid"].(string), Label: j["label"].(string),
		From: j["from"].(string), To: j["to"].(string), Data: d})
}

func res(err error) map[string]interface{} {
	if err != nil {
		return map[string]interface{}{"r": "err"}
	}
	return map[string]interface{}{"r": "ok"}
}

func vOut(v *gdbi.Vertex) interface{} {
	if v == nil {
		return nil
	}
	d := v.Data
	if d == nil {
		d = map[string]interface{}{}
	}
	return map[string]interface{}{"gid": v.ID, "label": v.Label, "data": Tag(d)}
}

func eOut(e *gdbi.Edge) interface{} {
	if e == nil {
		return nil
	}
	d := e.Data
	if d == nil {
		d = map[string]interface{}{}
	}
	return map[string]interface{}{"gid": e.ID, "label": e.Label, "from": e.From, "to": e.To, "data": Tag(d)}
}

func sortElems(xs []interface{}) []interface{} {
	key := func(x interface{}) string {
		m := x.(map[string]interface{})
		k := m["gid"].(string) + "\x01" + m["label"].(string)
		if f, ok := m["from"]; ok {
			k += "\x01" + f.(string) + "\x01" + m["to"].(string)
		}
		return k
	}
	sort.SliceStable(xs, func(i, j int) bool { return key(xs[i]) < key(xs[j]) })
	return xs
}

func sortedStrings(xs []string) []interface{} {
	sort.Strings(xs)
	out := []interface{}{}
	for _, x := range xs {
		out = append(out, x)
	}
	return out
}

func (w *C03World) graphObs(name string, ids, eids, labels []string) map[string]interface{} {
	g, err := w.DB.Graph(name)
	if err != nil {
		return map[string]interface{}{"error": "graph listed but not found"}
	}
	ctx := context.Background()
	o := map[string]interface{}{}
	vs := []interface{}{}
	for v := range g.GetVertexList(ctx, true) {
		vs = append(vs, vOut(v))
	}
	o["V"] = sortElems(vs)
	es := []interface{}{}
	for e := range g.GetEdgeList(ctx, true) {
		es = append(es, eOut(e))
	}
	o["E"] = sortElems(es)
	get := map[string]interface{}{}
	for _, id := range ids {
		get[id] = vOut(g.GetVertex(id, true))
	}
	o["get"] = get
	getE := map[string]interface{}{}
	for _, id := range eids {
		getE[id] = eOut(g.GetEdge(id, true))
	}
	o["getE"] = getE
	type filter struct {
		name   string
		labels []string
	}
	filters := []filter{{"*", []string{}}}
	for _, l := range labels {
		filters = append(filters, filter{l, []string{l}})
	}
	outM, inM, outEM, inEM := map[string]interface{}{}, map[string]interface{}{}, map[string]interface{}{}, map[string]interface{}{}
	for _, id := range ids {
		outM[id], inM[id], outEM[id], inEM[id] = map[string]interface{}{}, map[string]interface{}{}, map[string]interface{}{}, map[string]interface{}{}
	}
	many := func() chan gdbi.ElementLookup {
		c := make(chan gdbi.ElementLookup, len(ids))
		for _, id := range ids {
			c <- gdbi.ElementLookup{ID: id}
		}
		close(c)
		return c
	}
	group := func(dst map[string]interface{}, fname string, res chan gdbi.ElementLookup, edge bool) {
		per := map[string][]interface{}{}
		for r := range res {
			if edge {
				per[r.ID] = append(per[r.ID], eOut(r.Edge))
			} else {
				per[r.ID] = append(per[r.ID], vOut(r.Vertex))
			}
		}
		for _, id := range ids {
			xs := per[id]
			if xs == nil {
				xs = []interface{}{}
			}
			dst[id].(map[string]interface{})[fname] = sortElems(xs)
		}
	}
	for _, f := range filters {
		group(outM, f.name, g.GetOutChannel(ctx, many(), true, false, f.labels), false)
		group(inM, f.name, g.GetInChannel(ctx, many(), true, false, f.labels), false)
		group(outEM, f.name, g.GetOutEdgeChannel(ctx, many(), true, false, f.labels), true)
		group(inEM, f.name, g.GetInEdgeChannel(ctx, many(), true, false, f.labels), true)
	}
	o["out"], o["in"], o["outE"], o["inE"] = outM, inM, outEM, inEM
	hl := map[string]interface{}{}
	for _, l := range labels {
		xs := []interface{}{}
		for id := range g.VertexLabelScan(ctx, l) {
			// as the LookupVertsIndex processor does: fetch each id, skip the absent ones
			if v := g.GetVertex(id, true); v != nil {
				xs = append(xs, vOut(v))
			}
		}
		hl[l] = sortElems(xs)
	}
	o["hasLabel"] = hl
	lv, _ := g.ListVertexLabels()
	le, _ := g.ListEdgeLabels()
	o["labelsV"] = sortedStrings(lv)
	o["labelsE"] = sortedStrings(le)
	ts := g.GetTimestamp()
	prev, had := w.seen[name]
	switch {
	case ts == "":
		o["ts"] = "none"
	case !had:
		o["ts"] = "new"
	case prev == ts:
		o["ts"] = "same"
	default:
		o["ts"] = "changed"
	}
	// "a client seeing an unchanged timestamp may reuse cached results" holds against EVERY earlier
	// observation of the name, not only the previous one: a stamp that comes back (after the graph was
	// dropped and rebuilt, say) while the graph's content differs from what it was under that stamp
	// is reported as "reused" (no model answer says that)
	if ts != "" {
		cb, _ := json.Marshal([]interface{}{o["V"], o["E"]})
		content := string(cb)
		if w.hist == nil {
			w.hist = map[string]map[string]string{}
		}
		h := w.hist[name]
		if h == nil {
			h = map[string]string{}
			w.hist[name] = h
		}
		if old, ok := h[ts]; ok && old != content && !(had && prev == ts) {
			o["ts"] = "reused"
		}
		h[ts] = content
	}
	return o
}

func strList(x interface{}) []string {
	out := []string{}
	for _, s := range x.([]interface{}) {
		out = append(out, s.(string))
	}
	return out
}

// Exec runs one protocol op.
func (w *C03World) Exec(op map[string]interface{}) (obs map[string]interface{}) {
	defer func() {
		if p := recover(); p != nil {
			obs = map[string]interface{}{"panic": fmt.Sprint(p)}
		}
	}()
	name, _ := op["g"].(string)
	graph := func() (gdbi.GraphInterface, error) { return w.DB.Graph(name) }
	switch op["op"] {
	case "reset":
		w.Reset()
		return map[string]interface{}{"r": "reset"}
	case "addGraph":
		return res(w.DB.AddGraph(name))
	case "delGraph":
		return res(w.DB.DeleteGraph(name))
	case "addV":
		g, err := graph()
		if err != nil {
			return res(err)
		}
		vs := []*gdbi.Vertex{}
		for _, j := range op["vs"].([]interface{}) {
			vs = append(vs, c03Vertex(j.(map[string]interface{})))
		}
		return res(g.AddVertex(vs))
	case "addE":
		g, err := graph()
		if err != nil {
			return res(err)
		}
		es := []*gdbi.Edge{}
		for _, j := range op["es"].([]interface{}) {
			es = append(es, c03Edge(j.(map[string]interface{})))
		}
		return res(g.AddEdge(es))
	case "bulk":
		g, err := graph()
		if err != nil {
			return res(err)
		}
		ch := make(chan *gdbi.GraphElement, 10)
		go func() {
			for _, j := range op["xs"].([]interface{}) {
				m := j.(map[string]interface{})
				if v, ok := m["v"]; ok {
					ch <- &gdbi.GraphElement{Graph: name, Vertex: c03Vertex(v.(map[string]interface{}))}
				} else {
					ch <- &gdbi.GraphElement{Graph: name, Edge: c03Edge(m["e"].(map[string]interface{}))}
				}
			}
			close(ch)
		}()
		return res(g.BulkAdd(ch))
	case "delV":
		g, err := graph()
		if err != nil {
			return res(err)
		}
		return res(g.DelVertex(op["id"].(string)))
	case "delE":
		g, err := graph()
		if err != nil {
			return res(err)
		}
		return res(g.DelEdge(op["id"].(string)))
	case "observe":
		ids, eids, labels := strList(op["ids"]), strList(op["eids"]), strList(op["labels"])
		gs := w.DB.ListGraphs()
		sort.Strings(gs)
		per := map[string]interface{}{}
		seen := map[string]string{}
		for _, g := range gs {
			per[g] = w.graphObs(g, ids, eids, labels)
			if gi, err := w.DB.Graph(g); err == nil {
				if ts := gi.GetTimestamp(); ts != "" {
					seen[g] = ts
				}
			}
		}
		w.seen = seen
		return map[string]interface{}{"obs": map[string]interface{}{"graphs": sortedStrings(gs), "g": per}}
	}
	return map[string]interface{}{"bad": "unknown op"}
}

// ---------- generators ----------

func c03V(gid, label string, data map[string]interface{}) map[string]interface{} {
	if data == nil {
		data = map[string]interface{}{}
	}
	return map[string]interface{}{"gid": gid, "label": label, "data": Tag(data)}
}

func c03E(gid, label, from, to string, data map[string]interface{}) map[string]interface{} {
	if data == nil {
		data = map[string]interface{}{}
	}
	return map[string]interface{}{"gid": gid, "label": label, "from": from, "to": to, "data": Tag(data)}
}

func c03Alphabet() []map[string]interface{} {
	op := func(name, g string, kv ...interface{}) map[string]interface{} {
		m := map[string]interface{}{"op": name, "g": g}
		for i := 0; i+1 < len(kv); i += 2 {
			m[kv[i].(string)] = kv[i+1]
		}
		return m
	}
	l := func(xs ...interface{}) []interface{} { return xs }
	x1 := map[string]interface{}{"x": 1.0}
	return []map[string]interface{}{
		op("addGraph", "g1"), op("addGraph", "g12"), op("delGraph", "g1"), op("addGraph", "bad name"),
		op("addV", "g1", "vs", l(c03V("a", "L", nil))),
		op("addV", "g1", "vs", l(c03V("a", "M", x1))),
		op("addV", "g1", "vs", l(c03V("b", "L", nil))),
		op("addV", "g12", "vs", l(c03V("a", "L", x1))),
		op("addV", "g1", "vs", l(c03V("b", "M", nil), c03V("c", "", nil))),
		op("addV", "g1", "vs", l(c03V("", "L", nil))),
		op("addV", "g3", "vs", l(c03V("a", "L", nil))),
		op("addE", "g1", "es", l(c03E("e1", "L", "a", "b", nil))),
		op("addE", "g1", "es", l(c03E("e1", "L", "b", "a", x1))),
		op("addE", "g1", "es", l(c03E("e1", "M", "a", "b", nil))),
		op("addE", "g1", "es", l(c03E("e2", "L", "a", "a", nil))),
		op("addE", "g1", "es", l(c03E("e2", "M", "a", "c", nil), c03E("e3", "L", "", "a", nil))),
		op("addE", "g12", "es", l(c03E("e1", "L", "a", "b", nil))),
		op("bulk", "g1", "xs", l(map[string]interface{}{"v": c03V("a", "L", nil)}, map[string]interface{}{"e": c03E("e1", "L", "a", "b", nil)},
			map[string]interface{}{"e": c03E("e9", "", "a", "b", nil)})),
		op("bulk", "g1", "xs", l(map[string]interface{}{"v": c03V("z", "L", map[string]interface{}{"_gid": 1.0})})),
		op("delV", "g1", "id", "a"), op("delV", "g1", "id", "b"), op("delV", "g12", "id", "a"), op("delV", "g1", "id", "zz"),
		op("delE", "g1", "id", "e1"), op("delE", "g1", "id", "e2"), op("delE", "g1", "id", "nope"),
	}
}

var c03Observe = map[string]interface{}{"op": "observe", "ids": []interface{}{"a", "b", "c"},
	"eids": []interface{}{"e1", "e2"}, "labels": []interface{}{"L", "M"}}

func c03Random(r *Run, n int) []map[string]interface{} {
	gs := []string{"g1", "g12", "g3"}
	ids := []string{"a", "b", "c", "d"}
	eids := []string{"e1", "e2", "e3"}
	labels := []string{"L", "M", "N"}
	rnd := r.Rng
	data := func() map[string]interface{} {
		switch rnd.Intn(4) {
		case 0:
			return nil
		case 1:
			return map[string]interface{}{"x": float64(rnd.Intn(3))}
		case 2:
			return map[string]interface{}{"n": map[string]interface{}{"y": []interface{}{1.0, "s", nil}}, "s": "t"}
		}
		return map[string]interface{}{"b": true}
	}
	vert := func() map[string]interface{} {
		l := Pick(rnd, labels)
		id := Pick(rnd, ids)
		switch rnd.Intn(12) {
		case 0:
			l = ""
		case 1:
			id = ""
		case 2:
			return c03V(id, l, map[string]interface{}{"_label": 1.0})
		}
		return c03V(id, l, data())
	}
	edge := func() map[string]interface{} {
		f, t := Pick(rnd, ids), Pick(rnd, ids)
		if rnd.Intn(10) == 0 {
			t = "ghost"
		}
		l := Pick(rnd, labels)
		if rnd.Intn(14) == 0 {
			l = ""
		}
		return c03E(Pick(rnd, eids), l, f, t, data())
	}
	var ops []map[string]interface{}
	for i := 0; i < n; i++ {
		g := Pick(rnd, gs)
		switch k := rnd.Intn(20); {
		case k < 3:
			ops = append(ops, map[string]interface{}{"op": "addGraph", "g": g})
		case k < 4:
			ops = append(ops, map[string]interface{}{"op": "delGraph", "g": g})
		case k < 8:
			vs := []interface{}{}
			for j := rnd.Intn(3) + 1; j > 0; j-- {
				vs = append(vs, vert())
			}
			ops = append(ops, map[string]interface{}{"op": "addV", "g": g, "vs": vs})
		case k < 12:
			es := []interface{}{}
			for j := rnd.Intn(3) + 1; j > 0; j-- {
				es = append(es, edge())
			}
			ops = append(ops, map[string]interface{}{"op": "addE", "g": g, "es": es})
		case k < 14:
			xs := []interface{}{}
			for j := rnd.Intn(5); j > 0; j-- {
				if rnd.Intn(2) == 0 {
					xs = append(xs, map[string]interface{}{"v": vert()})
				} else {
					xs = append(xs, map[string]interface{}{"e": edge()})
				}
			}
			ops = append(ops, map[string]interface{}{"op": "bulk", "g": g, "xs": xs})
		case k < 17:
			ops = append(ops, map[string]interface{}{"op": "delV", "g": g, "id": Pick(rnd, ids)})
		default:
			ops = append(ops, map[string]interface{}{"op": "delE", "g": g, "id": Pick(rnd, eids)})
		}
	}
	// one history in three re-creates a graph under its old name and writes (some of) the same
	// elements again: whatever a store keeps about a dropped graph must not leak into the new one
	if n >= 4 && rnd.Intn(3) == 0 {
		p := 2 + rnd.Intn(len(ops)-2)
		g := Pick(rnd, gs)
		again := []map[string]interface{}{{"op": "delGraph", "g": g}, {"op": "addGraph", "g": g}}
		for _, op := range ops[:p] {
			if op["g"] == g && (op["op"] == "addV" || op["op"] == "addE" || op["op"] == "bulk") && rnd.Intn(3) > 0 {
				again = append(again, op)
			}
		}
		ops = append(append(append([]map[string]interface{}{}, ops[:p]...), again...), ops[p:]...)
	}
	return ops
}

var c03ObserveWide = map[string]interface{}{"op": "observe", "ids": []interface{}{"a", "b", "c", "d", "ghost"},
	"eids": []interface{}{"e1", "e2", "e3"}, "labels": []interface{}{"L", "M", "N"}}

func opKind(op map[string]interface{}) string { return op["op"].(string) }

// C03GenOn runs the history generators against `driver`.
func C03GenOn(r *Run, driver string) {
	w := NewC03World(driver)
	defer w.Destroy()
	r.Rule = "case = one mutation history (reset, ops, observe); exhaustive: every sequence over the op alphabet up to the depth bound, " +
		"observed after the last op (every prefix is itself enumerated); random: seeded histories observed after every op; " +
		"distinct = distinct op sequences; non-trivial = history contains at least one accepted write"
	emit := func(op map[string]interface{}) map[string]interface{} {
		obs := w.Exec(op)
		r.Emit(op, obs)
		r.Count("op:" + opKind(op))
		if e, ok := obs["r"]; ok && e == "err" {
			r.Count("result:err")
		}
		return obs
	}
	full := c03Alphabet()
	// core alphabet: the ops whose combinations exercise replacement, adjacency and deletion
	core := []map[string]interface{}{full[0], full[2], full[4], full[5], full[6], full[7], full[11], full[12], full[14], full[17], full[19], full[23]}
	type space struct {
		alpha []map[string]interface{}
		depth int
		from  int // enumerate only sequences longer than `from` (shorter ones are covered by another space)
	}
	spaces := []space{{full, 2, 0}, {core, 3, 2}}
	nrand, lrand := 100, 30
	if r.Tier == "thorough" {
		spaces = []space{{full, 3, 0}, {core, 4, 3}}
		nrand, lrand = 1500, 50
	}
	if c03OtherDriver(r.Mode) != "" {
		// the same histories on the other embedded stores (kvgraph must not depend on what the store
		// does with a failing callback, on its snapshot rules, …): full alphabet to depth 2 + random
		spaces = []space{{full, 2, 0}}
		nrand = 40
		if r.Tier == "thorough" {
			nrand = 400
		}
	}
	if r.Mode == "replaydrivers" {
		spaces = []space{{full, 1, 0}, {core, 2, 1}}
		nrand = 30
	}
	reset := map[string]interface{}{"op": "reset"}
	nh := 0
	for si, sp := range spaces {
		alpha, depth := sp.alpha, sp.depth
		idx := make([]int, 0, depth)
		var rec func(d int)
		rec = func(d int) {
			if len(idx) > sp.from {
				emit(reset)
				okw := false
				key := fmt.Sprintf("s%d:", si)
				for _, i := range idx {
					o := emit(alpha[i])
					if o["r"] == "ok" {
						okw = true
					}
					key += fmt.Sprintf("%d,", i)
				}
				emit(c03Observe)
				nh++
				if okw {
					r.NonTrivial(key)
				}
				if nh%900 == 700 {
					s := []interface{}{}
					for _, i := range idx {
						s = append(s, alpha[i])
					}
					r.AddSample(s)
				}
			}
			if d == depth {
				return
			}
			for i := range alpha {
				idx = append(idx, i)
				rec(d + 1)
				idx = idx[:len(idx)-1]
			}
		}
		rec(0)
		r.Dist[fmt.Sprintf("space%d_alphabet", si)] = len(alpha)
		r.Dist[fmt.Sprintf("space%d_depth", si)] = depth
	}
	r.Dist["histories_exhaustive"] = nh
	for h := 0; h < nrand; h++ {
		emit(reset)
		ops := c03Random(r, lrand)
		okw := false
		for _, op := range ops {
			o := emit(op)
			if o["r"] == "ok" {
				okw = true
			}
			emit(c03ObserveWide)
		}
		if okw {
			r.NonTrivial(fmt.Sprintf("rnd-%d-%d", r.Seed, h))
		}
		if h == 0 {
			s := []interface{}{}
			for _, op := range ops[:6] {
				s = append(s, op)
			}
			r.AddSample(s)
		}
	}
	r.Dist["histories_random"] = nrand
	r.Exhaustive = true
}

// c03OtherDriver: modes "badger", "bolt", "pebble" run C03 on that store (default: level)
func c03OtherDriver(mode string) string {
	switch mode {
	case "badger", "bolt", "pebble":
		return mode
	}
	return ""
}

func init() {
	Registry["C03"] = Prop{
		Gen: func(r *Run) {
			if d := c03OtherDriver(r.Mode); d != "" {
				C03GenOn(r, d)
				return
			}
			C03GenOn(r, "level")
		},
		Replay: func(r *Run, ops []map[string]interface{}) {
			drv := "level"
			if d := c03OtherDriver(r.Mode); d != "" {
				drv = d
			}
			w := NewC03World(drv)
			defer w.Destroy()
			for _, op := range ops {
				r.Emit(op, w.Exec(op))
			}
		},
	}
}
