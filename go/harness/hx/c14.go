package hx

// C14 — the MongoDB compiler preserves typing and filter meaning.
//
// Two kinds of operation, both run against the real code (no MongoDB connection is needed to
// compile):
//
//	{"op":"has","expr":E,"elem":D,"neg":b,"marks":[[name,D]…]}   (marks optional: the traveler's marks,
//	    addressed by keys "$name.field"; the pipeline document keeps them under "marks.<name>")
//	    impl: {"doc": canonical form of mongo.convertHasExpression(E, neg)  (hook), or "panic",
//	           "core": engine/logic.MatchesHasExpression(D, E) XOR neg}
//	    the Lean driver emits the MODEL's document (compared syntactically) and the core verdict, and
//	    marks the line "spec"/"kf" when the documented MongoDB meaning of the document (mEval) differs.
//	{"op":"type","stmts":[abstract statements]}
//	    impl: {"mongo": R, "core": R}, R = {"ok":false} | {"ok":true,"t":<type>,"marks":[[name,type]…]}
//	    from mongo.Compiler.Compile and core.DefaultCompiler.Compile on the same statements.

import (
	"encoding/json"
	"fmt"
	"io"
	"sort"

	"github.com/bmeg/grip/engine/core"
	"github.com/bmeg/grip/engine/logic"
	"github.com/bmeg/grip/gdbi"
	"github.com/bmeg/grip/gripql"
	griplog "github.com/bmeg/grip/log"
	"github.com/bmeg/grip/mongo"
	"go.mongodb.org/mongo-driver/bson"
	"google.golang.org/protobuf/types/known/structpb"
)

// ---------- canonical form of the emitted filter document ----------

func c14CanonOp(v interface{}) interface{} {
	m, ok := v.(bson.M)
	if !ok {
		return map[string]interface{}{"unk": fmt.Sprintf("op:%T", v)}
	}
	if len(m) == 0 {
		return map[string]interface{}{}
	}
	if len(m) != 1 {
		return map[string]interface{}{"unk": "op:multi"}
	}
	for k, x := range m {
		switch k {
		case "$not":
			return map[string]interface{}{"$not": c14CanonOp(x)}
		case "$eq", "$ne", "$gt", "$gte", "$lt", "$lte", "$in":
			return map[string]interface{}{k: Tag(x)}
		case "$elemMatch":
			if em, ok := x.(bson.M); ok && len(em) == 1 {
				if a, ok := em["$eq"]; ok {
					return map[string]interface{}{k: map[string]interface{}{"$eq": Tag(a)}}
				}
			}
			return map[string]interface{}{"unk": "op:$elemMatch"}
		case "$exists":
			if b, ok := x.(bool); ok {
				return map[string]interface{}{k: b}
			}
			return map[string]interface{}{"unk": "op:$exists"}
		default:
			return map[string]interface{}{"unk": "op:" + k}
		}
	}
	return nil
}

func c14CanonDoc(m bson.M) interface{} {
	if len(m) == 0 {
		return map[string]interface{}{}
	}
	if len(m) != 1 {
		return map[string]interface{}{"unk": "doc:multi"}
	}
	for k, x := range m {
		if k == "$and" || k == "$or" {
			l, ok := x.([]bson.M)
			if !ok {
				return map[string]interface{}{"unk": fmt.Sprintf("list:%T", x)}
			}
			out := []interface{}{}
			for _, y := range l {
				out = append(out, c14CanonDoc(y))
			}
			return map[string]interface{}{k: out}
		}
		return map[string]interface{}{"f": k, "o": c14CanonOp(x)}
	}
	return nil
}

// ---------- abstract statements → protobuf ----------

var c14ListKinds = map[string]func(*structpb.ListValue) *gripql.GraphStatement{
	"v":        func(l *structpb.ListValue) *gripql.GraphStatement { return &gripql.GraphStatement{Statement: &gripql.GraphStatement_V{V: l}} },
	"e":        func(l *structpb.ListValue) *gripql.GraphStatement { return &gripql.GraphStatement{Statement: &gripql.GraphStatement_E{E: l}} },
	"in":       func(l *structpb.ListValue) *gripql.GraphStatement { return &gripql.GraphStatement{Statement: &gripql.GraphStatement_In{In: l}} },
	"inNull":   func(l *structpb.ListValue) *gripql.GraphStatement { return &gripql.GraphStatement{Statement: &gripql.GraphStatement_InNull{InNull: l}} },
	"out":      func(l *structpb.ListValue) *gripql.GraphStatement { return &gripql.GraphStatement{Statement: &gripql.GraphStatement_Out{Out: l}} },
	"outNull":  func(l *structpb.ListValue) *gripql.GraphStatement { return &gripql.GraphStatement{Statement: &gripql.GraphStatement_OutNull{OutNull: l}} },
	"both":     func(l *structpb.ListValue) *gripql.GraphStatement { return &gripql.GraphStatement{Statement: &gripql.GraphStatement_Both{Both: l}} },
	"inE":      func(l *structpb.ListValue) *gripql.GraphStatement { return &gripql.GraphStatement{Statement: &gripql.GraphStatement_InE{InE: l}} },
	"inENull":  func(l *structpb.ListValue) *gripql.GraphStatement { return &gripql.GraphStatement{Statement: &gripql.GraphStatement_InENull{InENull: l}} },
	"outE":     func(l *structpb.ListValue) *gripql.GraphStatement { return &gripql.GraphStatement{Statement: &gripql.GraphStatement_OutE{OutE: l}} },
	"outENull": func(l *structpb.ListValue) *gripql.GraphStatement { return &gripql.GraphStatement{Statement: &gripql.GraphStatement_OutENull{OutENull: l}} },
	"bothE":    func(l *structpb.ListValue) *gripql.GraphStatement { return &gripql.GraphStatement{Statement: &gripql.GraphStatement_BothE{BothE: l}} },
	"hasLabel": func(l *structpb.ListValue) *gripql.GraphStatement { return &gripql.GraphStatement{Statement: &gripql.GraphStatement_HasLabel{HasLabel: l}} },
	"hasKey":   func(l *structpb.ListValue) *gripql.GraphStatement { return &gripql.GraphStatement{Statement: &gripql.GraphStatement_HasKey{HasKey: l}} },
	"hasId":    func(l *structpb.ListValue) *gripql.GraphStatement { return &gripql.GraphStatement{Statement: &gripql.GraphStatement_HasId{HasId: l}} },
	"distinct": func(l *structpb.ListValue) *gripql.GraphStatement { return &gripql.GraphStatement{Statement: &gripql.GraphStatement_Distinct{Distinct: l}} },
	"fields":   func(l *structpb.ListValue) *gripql.GraphStatement { return &gripql.GraphStatement{Statement: &gripql.GraphStatement_Fields{Fields: l}} },
	"path":     func(l *structpb.ListValue) *gripql.GraphStatement { return &gripql.GraphStatement{Statement: &gripql.GraphStatement_Path{Path: l}} },
}

func c14Strs(s map[string]interface{}) []string {
	out := []string{}
	if l, ok := s["l"].([]interface{}); ok {
		for _, x := range l {
			out = append(out, x.(string))
		}
	}
	return out
}

// C14Stmt builds the protobuf statement for an abstract statement {"k":kind,"l":[strings],"n":name,"u":bool}.
func C14Stmt(s map[string]interface{}) *gripql.GraphStatement {
	k := s["k"].(string)
	strs := c14Strs(s)
	if f, ok := c14ListKinds[k]; ok {
		vals := make([]interface{}, len(strs))
		for i, x := range strs {
			vals[i] = x
		}
		l, _ := structpb.NewList(vals)
		return f(l)
	}
	switch k {
	case "has":
		return &gripql.GraphStatement{Statement: &gripql.GraphStatement_Has{Has: gripql.Eq("x", 1.0)}}
	case "limit":
		return &gripql.GraphStatement{Statement: &gripql.GraphStatement_Limit{Limit: 3}}
	case "skip":
		return &gripql.GraphStatement{Statement: &gripql.GraphStatement_Skip{Skip: 1}}
	case "range":
		return &gripql.GraphStatement{Statement: &gripql.GraphStatement_Range{Range: &gripql.Range{Start: 1, Stop: 4}}}
	case "count":
		return &gripql.GraphStatement{Statement: &gripql.GraphStatement_Count{}}
	case "as":
		n, _ := s["n"].(string)
		return &gripql.GraphStatement{Statement: &gripql.GraphStatement_As{As: n}}
	case "select":
		return &gripql.GraphStatement{Statement: &gripql.GraphStatement_Select{Select: &gripql.SelectStatement{Marks: strs}}}
	case "render":
		v, _ := structpb.NewValue(map[string]interface{}{"a": "$.x"})
		return &gripql.GraphStatement{Statement: &gripql.GraphStatement_Render{Render: v}}
	case "unwind":
		return &gripql.GraphStatement{Statement: &gripql.GraphStatement_Unwind{Unwind: "x"}}
	case "aggregate":
		aggs := []*gripql.Aggregate{}
		unk, _ := s["u"].(bool)
		for i, n := range strs {
			a := &gripql.Aggregate{Name: n}
			if !(unk && i == len(strs)-1) {
				switch i % 3 {
				case 0:
					a.Aggregation = &gripql.Aggregate_Term{Term: &gripql.TermAggregation{Field: "x"}}
				case 1:
					a.Aggregation = &gripql.Aggregate_Count{Count: &gripql.CountAggregation{}}
				default:
					a.Aggregation = &gripql.Aggregate_Histogram{Histogram: &gripql.HistogramAggregation{Field: "x", Interval: 2}}
				}
			}
			aggs = append(aggs, a)
		}
		return &gripql.GraphStatement{Statement: &gripql.GraphStatement_Aggregate{Aggregate: &gripql.Aggregations{Aggregations: aggs}}}
	}
	panic("C14Stmt: unknown kind " + k)
}

var c14TypeNames = map[gdbi.DataType]string{
	gdbi.NoData: "noData", gdbi.VertexData: "vertex", gdbi.EdgeData: "edge", gdbi.CountData: "count",
	gdbi.AggregationData: "aggregation", gdbi.SelectionData: "selection", gdbi.RenderData: "render", gdbi.PathData: "path",
}

func c14Compile(c gdbi.Compiler, stmts []*gripql.GraphStatement) (obs map[string]interface{}) {
	defer func() {
		if p := recover(); p != nil {
			obs = map[string]interface{}{"panic": true}
		}
	}()
	p, err := c.Compile(stmts, nil)
	if err != nil {
		return map[string]interface{}{"ok": false}
	}
	marks := [][]string{}
	for k, v := range p.MarkTypes() {
		marks = append(marks, []string{k, c14TypeNames[v]})
	}
	sort.Slice(marks, func(i, j int) bool { return marks[i][0] < marks[j][0] })
	return map[string]interface{}{"ok": true, "t": c14TypeNames[p.DataType()], "marks": marks}
}

// C14Exec runs one protocol op against the real code.
func C14Exec(op map[string]interface{}) (obs map[string]interface{}) {
	switch op["op"] {
	case "has":
		neg, _ := op["neg"].(bool)
		expr := ExprToPB(op["expr"].(map[string]interface{}))
		obs = map[string]interface{}{}
		func() {
			defer func() {
				if p := recover(); p != nil {
					obs["doc"] = "panic"
				}
			}()
			obs["doc"] = c14CanonDoc(mongo.VerifConvertHasExpression(expr, neg))
		}()
		func() {
			defer func() {
				if p := recover(); p != nil {
					obs["core"] = "panic"
				}
			}()
			de := ElemToDE(op["elem"].(map[string]interface{}))
			var t gdbi.Traveler = &gdbi.BaseTraveler{}
			t = t.AddCurrent(de)
			// "marks": [[name, elem], …] — what as(name) stored on the way
			if ms, ok := op["marks"].([]interface{}); ok {
				for _, m := range ms {
					p := m.([]interface{})
					t = t.AddMark(p[0].(string), ElemToDE(p[1].(map[string]interface{})))
				}
			}
			obs["core"] = logic.MatchesHasExpression(t, expr) != neg
		}()
		return obs
	case "type":
		stmts := []*gripql.GraphStatement{}
		for _, s := range op["stmts"].([]interface{}) {
			stmts = append(stmts, C14Stmt(s.(map[string]interface{})))
		}
		return map[string]interface{}{
			"mongo": c14Compile(mongo.VerifNewCompiler("g"), stmts),
			"core":  c14Compile(core.NewCompiler(nil), stmts),
		}
	}
	return map[string]interface{}{"bad": "unknown op"}
}

// ---------- generators ----------

func c14ScalarValues() []interface{} {
	return []interface{}{nil, true, false, 0.0, 1.0, -1.0, 0.5, 30.0, 45.0, 44.5, "", "abc", "b", "30", "45", "1.5"}
}

func c14Args() []interface{} {
	return []interface{}{
		nil, true, false, 0.0, 1.0, 30.0, 45.0, "abc", "a", "30",
		[]interface{}{}, []interface{}{1.0}, []interface{}{30.0, 45.0}, []interface{}{"30", "45"},
		[]interface{}{30.0, 45.0, 50.0}, []interface{}{"a", "b"}, []interface{}{nil, 45.0},
		[]interface{}{1.0, "abc", nil, true}, map[string]interface{}{"a": 1.0},
	}
}

func c14Variants() []map[string]interface{} {
	var out []map[string]interface{}
	add := func(k string, l []interface{}, n string, u bool) {
		m := map[string]interface{}{"k": k}
		if l != nil {
			m["l"] = l
		}
		if k == "as" {
			m["n"] = n
		}
		if u {
			m["u"] = true
		}
		out = append(out, m)
	}
	for _, k := range []string{"v", "e", "in", "inNull", "out", "outNull", "both", "inE", "inENull", "outE", "outENull", "bothE",
		"hasLabel", "hasKey", "hasId", "distinct", "fields", "path"} {
		add(k, []interface{}{}, "", false)
		add(k, []interface{}{"x"}, "", false)
	}
	for _, k := range []string{"has", "limit", "skip", "range", "count", "render", "unwind"} {
		add(k, nil, "", false)
	}
	for _, n := range []string{"a", "b", "", "_gid", "__current__", "a.b", "_x", "-y", "a b"} {
		add("as", nil, n, false)
	}
	for _, l := range [][]interface{}{{}, {"a"}, {"b"}, {"zz"}, {"a", "b"}, {"zz", "a"}, {"a", "b", "a"}} {
		add("select", l, "", false)
	}
	for _, l := range [][]interface{}{{}, {"n"}, {"n", "n"}, {"n", "m"}, {"n", "m", "n"}} {
		add("aggregate", l, "", false)
	}
	add("aggregate", []interface{}{"n"}, "", true)
	add("aggregate", []interface{}{"n", "m"}, "", true)
	return out
}

// C14Gen generates both families.
func C14Gen(r *Run) {
	r.Rule = "case = one has-op (expression, scalar document, negation flag) or one statement sequence; distinct by " +
		"serialized op; has: full grid operator × scalar value × argument × negation, Boolean combinations to depth 2, " +
		"seeded random deeper expressions; type: every statement variant after every prefix up to the exhaustive length, " +
		"then seeded random longer sequences"
	emit := func(op map[string]interface{}) {
		obs := C14Exec(op)
		r.Emit(op, obs)
		b, _ := json.Marshal(op)
		r.NonTrivial(string(b))
	}
	vals := c14ScalarValues()
	args := c14Args()
	conds := append(append([]string{}, c08CondNames...), "unset")
	// 1. has grid
	for _, c := range conds {
		for vi := -1; vi < len(vals); vi++ {
			data := map[string]interface{}{"n": map[string]interface{}{"y": 7.0}}
			vk := "missing"
			if vi >= 0 {
				data["x"] = vals[vi]
				vk = kindOf(vals[vi])
			}
			for _, a := range args {
				for _, neg := range []bool{false, true} {
					op := map[string]interface{}{"op": "has", "elem": c08Elem(data), "neg": neg,
						"expr": map[string]interface{}{"c": c, "k": "x", "v": Tag(a)}}
					emit(op)
					r.Count("has-grid:" + c + ":" + vk)
					r.Dist["has-grid"]++
					if r.Dist["has-grid"]%2500 == 1 {
						r.AddSample(op)
					}
				}
			}
		}
	}
	// 2. keys
	for _, k := range []string{"x", "n.y", "n.z", "_gid", "_label", "_data.x", "$.x", "$.n.y", "_from", "_to", "missing.deep", "_gid.x", "$._gid"} {
		for _, c := range []string{"eq", "neq", "gt", "within", "without", "contains", "inside"} {
			for _, a := range []interface{}{7.0, "v1", "L", nil, []interface{}{7.0, 8.0}, []interface{}{"v1", "L"}, []interface{}{1.0, 9.0}} {
				data := map[string]interface{}{"x": 1.0, "n": map[string]interface{}{"y": 7.0}}
				emit(map[string]interface{}{"op": "has", "elem": c08Elem(data), "neg": false,
					"expr": map[string]interface{}{"c": c, "k": k, "v": Tag(a)}})
				r.Dist["has-keys"]++
			}
		}
	}
	// 2b. keys that address a mark: the traveler carries marks a and b (scalar values), the key
	// ranges over current-element and mark namespaces; the emitted field name must be
	// "marks.<ns>.<path>" and (driver) the filter read on the pipeline document must select what
	// the core matcher keeps.  Values are chosen so that current, a and b differ per key.
	c14MarkKeys := []string{"x", "$.x", "$a.x", "$b.x", "$a._gid", "$a._label", "_gid", "$b._gid", "$a.n.y", "$b.missing",
		"$__current__.x", "$a._from", "$b._to", "$a._data.x", "$a._gid.z"}
	mkElem := func(gid, label string, data map[string]interface{}) map[string]interface{} {
		return map[string]interface{}{"gid": gid, "label": label, "data": Tag(data)}
	}
	markSets := [][]interface{}{}
	for _, trip := range [][3]interface{}{{1.0, 2.0, 3.0}, {"abc", 1.0, "b"}, {nil, "v2", true}, {2.0, 2.0, 2.0}, {3.0, nil, 1.0}} {
		cur := map[string]interface{}{"n": map[string]interface{}{"y": 7.0}}
		ma := map[string]interface{}{"n": map[string]interface{}{"y": 8.0}}
		mb := map[string]interface{}{}
		if trip[0] != nil {
			cur["x"] = trip[0]
		}
		if trip[1] != nil {
			ma["x"] = trip[1]
		}
		if trip[2] != nil {
			mb["x"] = trip[2]
		}
		ea := mkElem("v2", "A", ma)
		eb := mkElem("e3", "B", mb)
		eb["from"] = "v2"
		eb["to"] = "v1"
		markSets = append(markSets, []interface{}{mkElem("v1", "L", cur), []interface{}{[]interface{}{"a", ea}, []interface{}{"b", eb}}})
	}
	markArgs := []interface{}{1.0, 2.0, 3.0, "v2", "v1", "A", "abc", nil, 8.0, []interface{}{1.0, 2.0}, []interface{}{"v2", "A", 3.0}, []interface{}{0.0, 2.5}}
	for _, k := range c14MarkKeys {
		for _, c := range []string{"eq", "neq", "gt", "lte", "within", "without", "contains", "between"} {
			for _, a := range markArgs {
				for si, ms := range markSets {
					for _, neg := range []bool{false, true} {
						if neg && si > 1 {
							continue
						}
						op := map[string]interface{}{"op": "has", "elem": ms[0], "marks": ms[1], "neg": neg,
							"expr": map[string]interface{}{"c": c, "k": k, "v": Tag(a)}}
						emit(op)
						r.Dist["has-markkeys"]++
						r.Count("has-markkeys:" + k)
						if r.Dist["has-markkeys"] == 400 {
							r.AddSample(op)
						}
					}
				}
			}
		}
	}
	// a mark named by the key but absent from the traveler (outside the property: "marks defined
	// before use"); only the emitted field name and the core verdict are compared
	for _, k := range []string{"$c.x", "$c._gid"} {
		for _, a := range []interface{}{1.0, "", nil} {
			emit(map[string]interface{}{"op": "has", "elem": markSets[0][0], "marks": markSets[0][1], "neg": false,
				"expr": map[string]interface{}{"c": "eq", "k": k, "v": Tag(a)}})
			r.Dist["has-undefined-mark"]++
		}
	}
	// Boolean combinations mixing namespaces, seeded
	nmix := 1500
	if r.Tier == "thorough" {
		nmix = 20000
	}
	var genM func(d int) map[string]interface{}
	genM = func(d int) map[string]interface{} {
		if d == 0 || r.Rng.Intn(3) == 0 {
			return map[string]interface{}{"c": Pick(r.Rng, []string{"eq", "neq", "gt", "gte", "lt", "within", "without", "contains", "inside"}),
				"k": Pick(r.Rng, []string{"x", "$.x", "$a.x", "$b.x", "$a._gid", "$a._label", "_gid", "$b._label", "$a.n.y"}),
				"v": Tag(Pick(r.Rng, markArgs))}
		}
		switch r.Rng.Intn(3) {
		case 0:
			return map[string]interface{}{"not": genM(d - 1)}
		case 1:
			return map[string]interface{}{"and": []interface{}{genM(d - 1), genM(d - 1)}}
		default:
			return map[string]interface{}{"or": []interface{}{genM(d - 1), genM(d - 1)}}
		}
	}
	for i := 0; i < nmix; i++ {
		ms := markSets[r.Rng.Intn(len(markSets))]
		op := map[string]interface{}{"op": "has", "elem": ms[0], "marks": ms[1], "neg": r.Rng.Intn(4) == 0, "expr": genM(1 + r.Rng.Intn(3))}
		emit(op)
		r.Dist["has-markkeys-random"]++
		if i == 0 {
			r.AddSample(op)
		}
	}
	// 3. Boolean combinations, exhaustive to depth 2 over a small leaf set
	leaves := []map[string]interface{}{
		{"c": "gt", "k": "x", "v": Tag(1.0)},
		{"c": "eq", "k": "s", "v": Tag("a")},
		{"c": "within", "k": "x", "v": Tag([]interface{}{1.0, 2.0})},
		{"c": "without", "k": "s", "v": Tag([]interface{}{"a"})},
		{"c": "between", "k": "x", "v": Tag([]interface{}{1.0, 3.0})},
		{"none": true},
	}
	elems := []map[string]interface{}{
		{"x": 2.0, "s": "a"}, {"x": 1.0, "s": "b"}, {"x": 3.0, "s": "a"}, {"s": "2"}, {},
	}
	all := append([]map[string]interface{}{}, leaves...)
	for d := 1; d <= 2; d++ {
		var next []map[string]interface{}
		for _, e := range all {
			next = append(next, map[string]interface{}{"not": e})
		}
		pool := all
		if d == 2 {
			step := len(pool)/24 + 1
			var sub []map[string]interface{}
			for i := 0; i < len(pool); i += step {
				sub = append(sub, pool[i])
			}
			pool = sub
		}
		for _, kind := range []string{"and", "or"} {
			next = append(next, map[string]interface{}{kind: []interface{}{}})
			for _, a := range all {
				next = append(next, map[string]interface{}{kind: []interface{}{a}})
			}
			for _, a := range pool {
				for _, b := range pool {
					next = append(next, map[string]interface{}{kind: []interface{}{a, b}})
				}
			}
		}
		all = append(all, next...)
	}
	for _, e := range all {
		for _, d := range elems {
			for _, neg := range []bool{false, true} {
				emit(map[string]interface{}{"op": "has", "elem": c08Elem(d), "expr": e, "neg": neg})
				r.Dist["has-bool"]++
			}
		}
	}
	r.AddSample(map[string]interface{}{"op": "has", "elem": c08Elem(elems[0]), "expr": all[len(all)-1], "neg": false})
	// 4. random deeper expressions
	nrand := 3000
	if r.Tier == "thorough" {
		nrand = 60000
	}
	var gen func(d int) map[string]interface{}
	gen = func(d int) map[string]interface{} {
		if d == 0 || r.Rng.Intn(4) == 0 {
			return map[string]interface{}{"c": Pick(r.Rng, c08CondNames), "k": Pick(r.Rng, []string{"x", "s", "n.y", "_gid", "_label"}),
				"v": Tag(Pick(r.Rng, args))}
		}
		switch r.Rng.Intn(3) {
		case 0:
			return map[string]interface{}{"not": gen(d - 1)}
		case 1:
			n := r.Rng.Intn(4)
			if r.Rng.Intn(3) > 0 && n == 0 {
				n = 2
			}
			xs := []interface{}{}
			for i := 0; i < n; i++ {
				xs = append(xs, gen(d-1))
			}
			return map[string]interface{}{"and": xs}
		default:
			n := r.Rng.Intn(4)
			if r.Rng.Intn(3) > 0 && n == 0 {
				n = 2
			}
			xs := []interface{}{}
			for i := 0; i < n; i++ {
				xs = append(xs, gen(d-1))
			}
			return map[string]interface{}{"or": xs}
		}
	}
	for i := 0; i < nrand; i++ {
		data := map[string]interface{}{}
		for _, k := range []string{"x", "s"} {
			if r.Rng.Intn(5) > 0 {
				data[k] = Pick(r.Rng, vals)
			}
		}
		data["n"] = map[string]interface{}{"y": Pick(r.Rng, vals)}
		op := map[string]interface{}{"op": "has", "elem": c08Elem(data), "expr": gen(2 + r.Rng.Intn(4)), "neg": r.Rng.Intn(4) == 0}
		emit(op)
		r.Dist["has-random"]++
		if i == 0 {
			r.AddSample(op)
		}
	}

	// 5. typing: every variant after every prefix, exhaustively to length 2 (any start) and 3 (V/E start)
	vars := c14Variants()
	tyEmit := func(seq []map[string]interface{}, bucket string) {
		l := make([]interface{}, len(seq))
		for i := range seq {
			l[i] = seq[i]
		}
		op := map[string]interface{}{"op": "type", "stmts": l}
		emit(op)
		r.Dist[bucket]++
		if r.Dist[bucket] == 700 {
			r.AddSample(op)
		}
	}
	tyEmit(nil, "type-len0")
	for _, a := range vars {
		tyEmit([]map[string]interface{}{a}, "type-len1")
		for _, b := range vars {
			tyEmit([]map[string]interface{}{a, b}, "type-len2")
		}
	}
	starts := []map[string]interface{}{{"k": "v", "l": []interface{}{}}, {"k": "e", "l": []interface{}{}}}
	for _, s := range starts {
		for _, a := range vars {
			for _, b := range vars {
				tyEmit([]map[string]interface{}{s, a, b}, "type-len3")
			}
		}
	}
	if r.Tier == "thorough" {
		mids := []map[string]interface{}{{"k": "as", "n": "a"}, {"k": "outE", "l": []interface{}{}}, {"k": "count"}, {"k": "as", "n": "b"}}
		for _, s := range starts {
			for _, m := range mids {
				for _, a := range vars {
					for _, b := range vars {
						tyEmit([]map[string]interface{}{s, m, a, b}, "type-len4")
					}
				}
			}
		}
	}
	// 6. random longer sequences, biased towards staying well typed
	nseq := 4000
	if r.Tier == "thorough" {
		nseq = 60000
	}
	common := []map[string]interface{}{
		{"k": "out", "l": []interface{}{}}, {"k": "in", "l": []interface{}{"x"}}, {"k": "outE", "l": []interface{}{}},
		{"k": "inE", "l": []interface{}{}}, {"k": "both", "l": []interface{}{}}, {"k": "has"}, {"k": "hasLabel", "l": []interface{}{"x"}},
		{"k": "as", "n": "a"}, {"k": "as", "n": "b"}, {"k": "as", "n": "c"}, {"k": "select", "l": []interface{}{"a"}},
		{"k": "select", "l": []interface{}{"b"}}, {"k": "select", "l": []interface{}{"c"}}, {"k": "limit"}, {"k": "distinct", "l": []interface{}{}},
	}
	for i := 0; i < nseq; i++ {
		n := 2 + r.Rng.Intn(9)
		seq := []map[string]interface{}{Pick(r.Rng, starts)}
		if r.Rng.Intn(10) == 0 {
			seq = []map[string]interface{}{Pick(r.Rng, vars)}
		}
		for j := 1; j < n; j++ {
			if r.Rng.Intn(4) == 0 {
				seq = append(seq, Pick(r.Rng, vars))
			} else {
				seq = append(seq, Pick(r.Rng, common))
			}
		}
		tyEmit(seq, "type-random")
	}
	r.Exhaustive = false
}

func c14Quiet() { griplog.GetLogger().SetOutput(io.Discard) }

func init() {
	Registry["C14"] = Prop{
		Gen: func(r *Run) { c14Quiet(); C14Gen(r) },
		Replay: func(r *Run, ops []map[string]interface{}) {
			c14Quiet()
			for _, op := range ops {
				r.Emit(op, C14Exec(op))
			}
		},
	}
}
