package hx

// C15 — a gripper-mapped graph is exactly the graph its mapping describes.
//
// Real code under test: gripper.NewTabularGraph over a real gripper.SimpleTableServicer (one
// gripper.DriverPreLoad per table) reached through loopback gRPC (127.0.0.1:0) and the real
// gripper.GripperClient; traversals are compiled with the graph's own production compiler
// (core.NewCompiler(t, gripper.TabularOptimizer)) and run by pipeline.Run.
//
// Compared with
//   (i)  the same rows materialised into kvgraph over Badger (hx.Eng.LoadGraph) and run through the
//        literal always-load pipeline C01 validated (c01FullLoad) — done inside the harness, the
//        outcome travels as "kv": true|false (the model answers true: Props.C15.traversal_eq);
//   (ii) the Lean MODEL/SPEC (gripdriver C15), line by line.
//
// ops
//   {"op":"reset","tables":[{"name":T,"rows":[{"id":..,"data":{..}}]}],
//    "mapping":{"vertices":[{"prefix","label","table"}],"edges":[{"name","from","to","label","table","fromField","toField"}]}}
//        → {"err":"config"} | {"ok":true,"verts":[…sorted canonical…],"edges":[…]}
//   {"op":"query","q":[…protojson…],"cmp":"rows"|"nsub"|"sub"|"skip"}
//        → as C01 (+ "kv")
//   {"op":"write","kind":"addVertex"|"addEdge"|"bulkAdd"|"delVertex"|"delEdge"|"addIndex"|"delIndex","id":..}
//        → {"err":true|false,"unchanged":true|false}

import (
	"context"
	"encoding/json"
	"fmt"
	"io"
	stdlog "log"
	"math/rand"
	"net"
	"os"
	"sort"
	"strings"
	"time"

	"github.com/bmeg/grip/gdbi"
	"github.com/bmeg/grip/gripper"
	griplog "github.com/bmeg/grip/log"
	"google.golang.org/grpc"
	"google.golang.org/grpc/credentials/insecure"
)

type c15VType struct{ Prefix, Label, Table string }
type c15EType struct{ Name, From, To, Label, Table, FromField, ToField string }
type c15Row struct {
	ID   string
	Data map[string]interface{}
}
type c15Table struct {
	Name string
	Rows []c15Row
}
type c15World struct {
	Tables []c15Table
	Verts  []c15VType
	Edges  []c15EType
}

func c15Str(m map[string]interface{}, k string) string {
	s, _ := m[k].(string)
	return s
}

func c15WorldOf(op map[string]interface{}) c15World {
	w := c15World{}
	ts, _ := op["tables"].([]interface{})
	for _, t := range ts {
		tm, _ := t.(map[string]interface{})
		tab := c15Table{Name: c15Str(tm, "name")}
		rs, _ := tm["rows"].([]interface{})
		for _, r := range rs {
			rm, _ := r.(map[string]interface{})
			d, _ := rm["data"].(map[string]interface{})
			if d == nil {
				d = map[string]interface{}{}
			}
			tab.Rows = append(tab.Rows, c15Row{ID: c15Str(rm, "id"), Data: d})
		}
		w.Tables = append(w.Tables, tab)
	}
	mp, _ := op["mapping"].(map[string]interface{})
	vs, _ := mp["vertices"].([]interface{})
	for _, v := range vs {
		vm, _ := v.(map[string]interface{})
		w.Verts = append(w.Verts, c15VType{c15Str(vm, "prefix"), c15Str(vm, "label"), c15Str(vm, "table")})
	}
	es, _ := mp["edges"].([]interface{})
	for _, e := range es {
		em, _ := e.(map[string]interface{})
		w.Edges = append(w.Edges, c15EType{c15Str(em, "name"), c15Str(em, "from"), c15Str(em, "to"), c15Str(em, "label"),
			c15Str(em, "table"), c15Str(em, "fromField"), c15Str(em, "toField")})
	}
	return w
}

func (w c15World) toOp() map[string]interface{} {
	ts := []interface{}{}
	for _, t := range w.Tables {
		rs := []interface{}{}
		for _, r := range t.Rows {
			rs = append(rs, map[string]interface{}{"id": r.ID, "data": r.Data})
		}
		ts = append(ts, map[string]interface{}{"name": t.Name, "rows": rs})
	}
	vs := []interface{}{}
	for _, v := range w.Verts {
		vs = append(vs, map[string]interface{}{"prefix": v.Prefix, "label": v.Label, "table": v.Table})
	}
	es := []interface{}{}
	for _, e := range w.Edges {
		es = append(es, map[string]interface{}{"name": e.Name, "from": e.From, "to": e.To, "label": e.Label,
			"table": e.Table, "fromField": e.FromField, "toField": e.ToField})
	}
	return map[string]interface{}{"op": "reset", "tables": ts, "mapping": map[string]interface{}{"vertices": vs, "edges": es}}
}

func (w c15World) table(name string) ([]c15Row, bool) {
	for _, t := range w.Tables {
		if t.Name == name {
			return t.Rows, true
		}
	}
	return nil, false
}

// c15Materialise is the harness's own reading of the property text (independent of the Lean
// SPEC): one vertex per row of each vertex type, one edge per link row whose two link fields are
// non-empty strings.  unique=false when two elements get the same gid (kvgraph cannot hold such
// a graph: the kv comparison is then skipped, the model comparison is not).
func c15Materialise(w c15World) (verts, edges []interface{}, unique bool) {
	seenV := map[string]bool{}
	seenE := map[string]bool{}
	unique = true
	for _, v := range w.Verts {
		rows, _ := w.table(v.Table)
		for _, r := range rows {
			gid := v.Prefix + r.ID
			if seenV[gid] {
				unique = false
			}
			seenV[gid] = true
			verts = append(verts, map[string]interface{}{"gid": gid, "label": v.Label, "data": r.Data})
		}
	}
	for _, e := range w.Edges {
		rows, _ := w.table(e.Table)
		for _, r := range rows {
			f, ok1 := r.Data[e.FromField].(string)
			t, ok2 := r.Data[e.ToField].(string)
			if !ok1 || !ok2 || f == "" || t == "" {
				continue
			}
			gid := e.From + f + "-" + e.Label + "-" + e.To + t
			if seenE[gid] {
				unique = false
			}
			seenE[gid] = true
			edges = append(edges, map[string]interface{}{"gid": gid, "label": e.Label, "from": e.From + f, "to": e.To + t, "data": r.Data})
		}
	}
	return
}

// ---------- the real gripper graph over loopback gRPC ----------

type c15Engine struct {
	eng     *Eng
	n       int
	kvGraph string
	kvOK    bool
	world   c15World
	srv     *grpc.Server
	conn    *grpc.ClientConn
	tg      *gripper.TabularGraph
}

func c15Quiet() {
	griplog.GetLogger().SetOutput(io.Discard)
	stdlog.SetOutput(io.Discard)
}

func (c *c15Engine) stop() {
	if c.conn != nil {
		c.conn.Close()
		c.conn = nil
	}
	if c.srv != nil {
		c.srv.Stop()
		c.srv = nil
	}
	c.tg = nil
}

func (c *c15Engine) reset(w c15World) (cfgErr bool, bad string) {
	c.stop()
	c.world = w
	drivers := map[string]gripper.Driver{}
	for _, t := range w.Tables {
		data := map[string]*gripper.BaseRow{}
		for _, r := range t.Rows {
			data[r.ID] = &gripper.BaseRow{Key: r.ID, Value: r.Data}
		}
		drivers[t.Name] = gripper.NewDriverPreload(data, map[string]string{})
	}
	lis, err := net.Listen("tcp", "127.0.0.1:0")
	if err != nil {
		return false, "listen: " + err.Error()
	}
	c.srv = grpc.NewServer()
	gripper.RegisterGRIPSourceServer(c.srv, gripper.NewSimpleTableServer(drivers))
	go c.srv.Serve(lis)
	ctx, cancel := context.WithTimeout(context.Background(), 30*time.Second)
	defer cancel()
	conn, err := grpc.DialContext(ctx, lis.Addr().String(), grpc.WithTransportCredentials(insecure.NewCredentials()), grpc.WithBlock())
	if err != nil {
		return false, "dial: " + err.Error()
	}
	c.conn = conn
	conf := gripper.GraphConfig{Vertices: map[string]gripper.VertexConfig{}, Edges: map[string]gripper.EdgeConfig{}}
	for _, v := range w.Verts {
		conf.Vertices[v.Prefix] = gripper.VertexConfig{Gid: v.Prefix, Label: v.Label,
			Data: gripper.ElementConfig{Source: "s", Collection: v.Table}}
	}
	for _, e := range w.Edges {
		conf.Edges[e.Name] = gripper.EdgeConfig{Gid: e.Name, From: e.From, To: e.To, Label: e.Label,
			Data: gripper.ElementConfig{Source: "s", Collection: e.Table, FromField: e.FromField, ToField: e.ToField}}
	}
	tg, err := gripper.NewTabularGraph(conf, map[string]gripper.GRIPSourceClient{"s": gripper.NewGRIPSourceClient(conn)})
	if err != nil {
		return true, ""
	}
	c.tg = tg
	// (i) the materialised graph in the embedded store
	vs, es, unique := c15Materialise(w)
	c.kvOK = unique
	if unique {
		c.n++
		c.kvGraph = fmt.Sprintf("m%d", c.n)
		if err := c.eng.LoadGraph(c.kvGraph, vs, es); err != nil {
			return false, "kv load: " + err.Error()
		}
	}
	return false, ""
}

func c15SortCanon(xs []interface{}) []interface{} {
	keys := make([]string, len(xs))
	for i, x := range xs {
		b, _ := json.Marshal(x)
		keys[i] = string(b)
	}
	idx := make([]int, len(xs))
	for i := range idx {
		idx[i] = i
	}
	sort.SliceStable(idx, func(a, b int) bool { return keys[idx[a]] < keys[idx[b]] })
	out := make([]interface{}, len(xs))
	for i, j := range idx {
		out[i] = xs[j]
	}
	return out
}

// listing reads the whole exposed graph through GetVertexList / GetEdgeList.
func (c *c15Engine) listing() (verts, edges []interface{}, bad string) {
	done := make(chan struct{})
	go func() {
		defer close(done)
		ctx := context.Background()
		for v := range c.tg.GetVertexList(ctx, true) {
			verts = append(verts, map[string]interface{}{"gid": v.ID, "label": v.Label, "data": Tag(c15JSONRound(v.Data))})
		}
		for e := range c.tg.GetEdgeList(ctx, true) {
			edges = append(edges, map[string]interface{}{"gid": e.ID, "label": e.Label, "from": e.From, "to": e.To, "data": Tag(c15JSONRound(e.Data))})
		}
	}()
	select {
	case <-done:
	case <-time.After(60 * time.Second):
		return nil, nil, "listing timeout"
	}
	if verts == nil {
		verts = []interface{}{}
	}
	if edges == nil {
		edges = []interface{}{}
	}
	return c15SortCanon(verts), c15SortCanon(edges), ""
}

// c15JSONRound normalises a decoded value (nil map → empty map) through encoding/json.
func c15JSONRound(m map[string]interface{}) interface{} {
	if m == nil {
		return map[string]interface{}{}
	}
	b, _ := json.Marshal(m)
	var out interface{}
	json.Unmarshal(b, &out)
	return out
}

func (c *c15Engine) runOn(g gdbi.GraphInterface, q []c01Stmt) c01Result {
	stmts, err := StmtsFromJSON(toIfaces(q))
	if err != nil {
		return c01Result{bad: "decode: " + err.Error()}
	}
	pipe, err := g.Compiler().Compile(stmts, nil)
	if err != nil {
		return c01Result{compileErr: true}
	}
	out := RunOn(g, stmts, c.eng.Work, 30*time.Second)
	if out.TimedOut {
		// a loaded machine can stall a run that normally takes milliseconds: one retry with a
		// deadline only a real hang exceeds
		out = RunOn(g, stmts, c.eng.Work, 150*time.Second)
	}
	if out.Err != nil {
		return c01Result{compileErr: true}
	}
	if out.TimedOut {
		for _, st := range q {
			if c01Kind(st) == "distinct" {
				return c01Result{slow: true}
			}
		}
		return c01Result{bad: "timeout"}
	}
	if out.Panic != "" {
		return c01Result{bad: "panic: " + out.Panic}
	}
	return c01Result{typ: c01TypeNames[pipe.DataType()], rows: CanonRows(out.Rows, true)}
}

func (c *c15Engine) kvIface() (gdbi.GraphInterface, error) {
	g, err := c.eng.DB.Graph(c.kvGraph)
	if err != nil {
		return nil, err
	}
	return &c01FullLoad{g}, nil
}

func c15SameRows(a, b []interface{}) bool {
	x, _ := json.Marshal(a)
	y, _ := json.Marshal(b)
	return string(x) == string(y)
}

func (c *c15Engine) exec(op map[string]interface{}) map[string]interface{} {
	switch op["op"] {
	case "reset":
		cfgErr, bad := c.reset(c15WorldOf(op))
		if bad != "" {
			return map[string]interface{}{"bad": bad}
		}
		if cfgErr {
			return map[string]interface{}{"err": "config"}
		}
		vs, es, bad := c.listing()
		if bad != "" {
			return map[string]interface{}{"bad": bad}
		}
		return map[string]interface{}{"ok": true, "verts": vs, "edges": es}
	case "query":
		if c.tg == nil {
			return map[string]interface{}{"skip": true}
		}
		q := c01Stmts(op["q"])
		if c01Hazard(q) {
			return map[string]interface{}{"skip": true}
		}
		cmp, _ := op["cmp"].(string)
		if cmp == "skip" {
			return map[string]interface{}{"skip": true}
		}
		res := c.runOn(c.tg, q)
		if res.slow {
			return map[string]interface{}{"skip": true, "why": "distinct: temporary store too slow"}
		}
		if res.bad != "" {
			return map[string]interface{}{"bad": res.bad}
		}
		// (i) the embedded store holding the materialised graph
		kv := true
		if c.kvOK {
			if g, err := c.kvIface(); err == nil {
				kr := c.runOn(g, q)
				switch {
				case kr.slow || kr.bad != "":
					// not comparable on this machine right now
				case kr.compileErr != res.compileErr:
					kv = false
				case kr.compileErr:
				case cmp == "rows":
					kv = kr.typ == res.typ && c15SameRows(kr.rows, res.rows)
				case cmp == "nsub":
					kv = kr.typ == res.typ && len(kr.rows) == len(res.rows)
				}
			}
		}
		if res.compileErr {
			return map[string]interface{}{"err": "compile", "kv": kv}
		}
		switch cmp {
		case "nsub", "sub":
			_, untr := c01Classify(q)
			u := c.runOn(c.tg, untr)
			if u.slow {
				return map[string]interface{}{"skip": true}
			}
			if u.bad != "" || u.compileErr {
				return map[string]interface{}{"bad": "untruncated run failed: " + u.bad}
			}
			sub := c01SubMultiset(res.rows, u.rows)
			if cmp == "nsub" {
				return map[string]interface{}{"t": res.typ, "n": len(res.rows), "sub": sub, "kv": kv}
			}
			return map[string]interface{}{"t": res.typ, "sub": sub, "kv": kv}
		}
		return map[string]interface{}{"t": res.typ, "rows": res.rows, "kv": kv}
	case "write":
		if c.tg == nil {
			return map[string]interface{}{"skip": true}
		}
		v0, e0, bad := c.listing()
		if bad != "" {
			return map[string]interface{}{"bad": bad}
		}
		id := c15Str(op, "id")
		var err error
		switch op["kind"] {
		case "addVertex":
			err = c.tg.AddVertex([]*gdbi.Vertex{{ID: id, Label: "A", Data: map[string]interface{}{"x": 1.0}, Loaded: true}})
		case "addEdge":
			err = c.tg.AddEdge([]*gdbi.Edge{{ID: id, Label: "k", From: id, To: id, Data: map[string]interface{}{}, Loaded: true}})
		case "bulkAdd":
			ch := make(chan *gdbi.GraphElement, 2)
			ch <- &gdbi.GraphElement{Vertex: &gdbi.Vertex{ID: id, Label: "A", Data: map[string]interface{}{}, Loaded: true}}
			ch <- &gdbi.GraphElement{Edge: &gdbi.Edge{ID: id + "e", Label: "k", From: id, To: id, Data: map[string]interface{}{}, Loaded: true}}
			close(ch)
			err = c.tg.BulkAdd(ch)
		case "delVertex":
			err = c.tg.DelVertex(id)
		case "delEdge":
			err = c.tg.DelEdge(id)
		case "addIndex":
			err = c.tg.AddVertexIndex("A", "x")
		case "delIndex":
			err = c.tg.DeleteVertexIndex("A", "x")
		default:
			return map[string]interface{}{"bad": "unknown write"}
		}
		v1, e1, bad := c.listing()
		if bad != "" {
			return map[string]interface{}{"bad": bad}
		}
		return map[string]interface{}{"err": err != nil, "unchanged": c15SameRows(v0, v1) && c15SameRows(e0, e1)}
	}
	return map[string]interface{}{"bad": "unknown op"}
}

// ---------- generators ----------

var c15RowIDs = []string{"1", "2", "3", "12", "x", "4"}

// link field values: ids of rows, dangling ids, empty, and (handled by the caller) missing / non-string
func c15LinkVal(r *rand.Rand) interface{} {
	switch r.Intn(12) {
	case 0:
		return ""
	case 1:
		return "9" // no such row: dangling endpoint
	case 2:
		return float64(r.Intn(3)) // not a string: no edge
	case 3:
		return nil // JSON null: not a string
	}
	return Pick(r, c15RowIDs[:5])
}

// c15GenWorld: 1–4 vertex tables (several may share a label or a table), 0–4 edge types over 1–3
// link tables (both directions over one table, two labels over one table, a vertex table used as
// link table), rows with missing / empty / non-string / dangling link fields, repeated links.
// kind 0: the fixed witness world; 1: no edges; 2: random; 3: random with overlapping prefixes.
func c15GenWorld(r *rand.Rand, kind int) c15World {
	w := c15World{}
	prefixes := []string{"A:", "B:", "C:", "D:"}
	if kind == 3 {
		prefixes = []string{"A", "AB", "B", "A1"}
	}
	rowIDs := c15RowIDs
	if kind == 4 { // ids with '-' (open finding C15-edge-id-dash: E(id) cannot find them)
		rowIDs = []string{"1", "a-b", "3", "u-1-2", "x", "4"}
	}
	if kind == 5 { // word prefixes, row ids whose leading characters occur in their prefix
		prefixes = []string{"Person:", "City:", "son:", "Pet:"}
		rowIDs = []string{"sam", "ron", "eve", "tyr", "erso", "1"}
	}
	nv := 1 + r.Intn(4)
	if kind == 0 {
		nv = 3
	}
	if kind == 3 && nv < 3 {
		nv = 3 // "A", "AB", "B": an id under "AB" also matches "A"
	}
	for i := 0; i < nv; i++ {
		tn := fmt.Sprintf("T%d", i+1)
		if i > 0 && r.Intn(6) == 0 && kind != 0 {
			tn = "T1" // two vertex types over one table
		} else {
			t := c15Table{Name: tn}
			n := r.Intn(5)
			if kind == 0 {
				n = 3
			}
			if kind == 3 && n < 2 {
				n = 2
			}
			ids := r.Perm(len(rowIDs))
			for j := 0; j < n; j++ {
				id := rowIDs[ids[j]]
				if r.Intn(25) == 0 {
					id = "" // a row whose id is empty
				}
				dup := false
				for _, x := range t.Rows {
					if x.ID == id {
						dup = true
					}
				}
				if dup {
					continue
				}
				d := c01Data(r, j)
				if r.Intn(3) == 0 {
					d["ref"] = c15LinkVal(r) // lets a vertex table serve as a link table (ref → other)
					d["self"] = id
				}
				t.Rows = append(t.Rows, c15Row{ID: id, Data: d})
			}
			w.Tables = append(w.Tables, t)
		}
		label := Pick(r, c01VLabels)
		if kind == 0 {
			label = []string{"A", "A", "B"}[i] // two vertex tables share a label
		}
		w.Verts = append(w.Verts, c15VType{Prefix: prefixes[i], Label: label, Table: tn})
	}
	if kind == 1 {
		return w
	}
	nl := 1 + r.Intn(3)
	for i := 0; i < nl; i++ {
		t := c15Table{Name: fmt.Sprintf("L%d", i+1)}
		n := 1 + r.Intn(7)
		if kind == 0 {
			n = 7
		}
		if r.Intn(12) == 0 && kind != 0 {
			n = 0 // an empty link table has no searchable field: the constructor refuses the mapping
		}
		for j := 0; j < n; j++ {
			d := map[string]interface{}{}
			if r.Intn(10) != 0 {
				d["f"] = c15LinkVal(r)
			}
			if r.Intn(10) != 0 {
				d["t"] = c15LinkVal(r)
			}
			if j == 0 && r.Intn(12) != 0 {
				d["f"], d["t"] = Pick(r, c15RowIDs[:4]), Pick(r, c15RowIDs[:4])
			}
			if (kind == 4 || kind == 5) && j < 3 {
				d["f"], d["t"] = Pick(r, rowIDs[:4]), Pick(r, rowIDs[:4]) // (kind 5: sam, ron, eve, tyr)
			}
			if kind == 0 {
				switch j {
				case 0:
					d["f"], d["t"] = "1", "2"
				case 1:
					d["f"], d["t"] = "1", "2" // repeated link
				case 2:
					d["f"], d["t"] = "2", "" // empty to
				case 3:
					d["f"], d["t"] = "", "1" // empty from
				case 4:
					d["f"], d["t"] = "1", "1"
				case 5:
					d["f"] = "3"
					delete(d, "t") // missing to
				case 6:
					d["f"], d["t"] = "2", "9" // dangling
				}
			}
			if r.Intn(2) == 0 {
				d["w"] = float64(r.Intn(4))
			}
			if r.Intn(3) == 0 {
				d["name"] = Pick(r, []string{"ann", "bob"})
			}
			t.Rows = append(t.Rows, c15Row{ID: fmt.Sprintf("r%d", j+1), Data: d})
		}
		w.Tables = append(w.Tables, t)
	}
	ne := r.Intn(5)
	if kind == 0 {
		ne = 4
	}
	for i := 0; i < ne; i++ {
		from := w.Verts[r.Intn(len(w.Verts))]
		to := w.Verts[r.Intn(len(w.Verts))]
		e := c15EType{Name: fmt.Sprintf("E%d", i+1), From: from.Prefix, To: to.Prefix, Label: Pick(r, c01ELabels),
			Table: fmt.Sprintf("L%d", 1+r.Intn(nl)), FromField: "f", ToField: "t"}
		switch {
		case kind == 0 && i == 0:
			e.From, e.To, e.Label, e.Table = "A:", "B:", "k", "L1"
		case kind == 0 && i == 1: // the same link table read in the other direction
			e.From, e.To, e.Label, e.Table, e.FromField, e.ToField = "B:", "A:", "l", "L1", "t", "f"
		case kind == 0 && i == 2: // second label over the same table, self-typed
			e.From, e.To, e.Label, e.Table = "A:", "A:", "m", "L1"
		case kind == 0 && i == 3:
			e.From, e.To, e.Label, e.Table = "C:", "A:", "k", "L1"
		case r.Intn(4) == 0:
			e.FromField, e.ToField = "t", "f"
		case r.Intn(8) == 0:
			e.Table, e.FromField, e.ToField = from.Table, "self", "ref"
		}
		if kind != 0 {
			switch r.Intn(36) {
			case 0:
				e.To = "Z:" // unknown vertex type → constructor error
			case 1:
				e.ToField = "" // missing config info
			case 2:
				e.Table = "nope"
			case 3:
				e.FromField = "nosuch" // a field no row holds as a string: not searchable
			case 4:
				e.ToField = "nosuch"
			case 5:
				e.From = "Z:"
			}
		}
		w.Edges = append(w.Edges, e)
	}
	return w
}

type c15Pools struct {
	vids, eids []string
}

func c15PoolsOf(w c15World) c15Pools {
	p := c15Pools{}
	for _, v := range w.Verts {
		rows, _ := w.table(v.Table)
		for _, r := range rows {
			p.vids = append(p.vids, v.Prefix+r.ID)
		}
		p.vids = append(p.vids, v.Prefix+"9", v.Prefix)
	}
	p.vids = append(p.vids, "zz", "")
	for _, e := range w.Edges {
		rows, _ := w.table(e.Table)
		for _, r := range rows {
			f, ok1 := r.Data[e.FromField].(string)
			t, ok2 := r.Data[e.ToField].(string)
			if ok1 && ok2 { // including empty endpoints: such ids must find nothing
				p.eids = append(p.eids, e.From+f+"-"+e.Label+"-"+e.To+t)
			}
		}
		p.eids = append(p.eids, e.From+"1-"+e.Label+"-"+e.To+"2", e.To+"1-"+e.Label+"-"+e.From+"2")
	}
	p.eids = append(p.eids, "zz", "a-b", "a-b-c-d", "")
	return p
}

func c15PickN(r *rand.Rand, pool []string, n int) []interface{} {
	out := []interface{}{}
	for i := 0; i < n; i++ {
		out = append(out, Pick(r, pool))
	}
	return out
}

// c15Program: a start (V/E with or without ids), 0–3 leading hasLabel/hasId filters (what the
// driver plans itself), then the tail of a C01 random well-typed program with its ids replaced by
// ids of this world.
func c15Program(r *rand.Rand, p c15Pools, n int, withDistinct bool) []c01Stmt {
	var tail []c01Stmt
	for {
		tail = c01RandomProgram(r, n, false, withDistinct)
		if len(tail) > 0 {
			break
		}
	}
	isV := c01Kind(tail[0]) == "v"
	q := []c01Stmt{}
	pool := p.vids
	if !isV {
		pool = p.eids
	}
	if r.Intn(3) == 0 {
		k := "v"
		if !isV {
			k = "e"
		}
		q = append(q, c01Stmt{k: c15PickN(r, pool, 1+r.Intn(3))})
	} else if isV {
		q = append(q, c01Stmt{"v": sl()})
	} else {
		q = append(q, c01Stmt{"e": sl()})
	}
	for i := r.Intn(4); i > 0; i-- {
		switch r.Intn(5) {
		case 0, 1, 2:
			ls := c01Labels(r, append(append([]string{}, c01VLabels...), c01ELabels...))
			if len(ls) == 0 && r.Intn(3) != 0 {
				ls = sl(Pick(r, c01VLabels), Pick(r, c01ELabels))
			}
			q = append(q, c01Stmt{"hasLabel": ls})
		default:
			q = append(q, c01Stmt{"hasId": c15PickN(r, pool, 1+r.Intn(3))})
		}
	}
	for _, s := range tail[1:] {
		switch c01Kind(s) {
		case "hasId":
			s = c01Stmt{"hasId": c15PickN(r, append(append([]string{}, p.vids...), p.eids...), 1+r.Intn(2))}
		}
		q = append(q, s)
	}
	return q
}

// c15Fixed: the programs every world is asked (starts the driver plans itself, each adjacency
// read in each direction, lookups by id of every kind of id).
func c15Fixed(p c15Pools) [][]c01Stmt {
	out := [][]c01Stmt{
		{{"v": sl()}}, {{"e": sl()}},
		{{"v": sl()}, {"count": ""}}, {{"e": sl()}, {"count": ""}},
		{{"v": sl()}, {"hasLabel": sl("A")}},
		{{"v": sl()}, {"hasLabel": sl("A", "B")}},
		{{"v": sl()}, {"hasLabel": sl("A")}, {"hasLabel": sl("B")}},
		{{"v": sl()}, {"hasLabel": sl("B")}, {"hasLabel": sl("A", "B")}, {"count": ""}},
		{{"v": sl()}, {"hasLabel": sl()}, {"hasLabel": sl("A")}},
		{{"v": sl()}, {"hasLabel": sl("A")}, {"hasLabel": sl()}},
		{{"v": sl()}, {"hasLabel": sl("zz")}},
		{{"v": sl()}, {"hasLabel": sl("A")}, {"out": sl()}},
		{{"v": sl()}, {"hasLabel": sl("A")}, {"hasId": c15PickFirst(p.vids, 2)}},
		{{"v": sl()}, {"hasId": c15PickFirst(p.vids, 2)}, {"hasLabel": sl("A")}},
		{{"v": c15PickFirst(p.vids, 1)}, {"hasLabel": sl("A", "B", "C")}},
		{{"v": c15PickFirst(p.vids, 3)}},
		{{"v": sl()}, {"as": "a"}, {"hasLabel": sl("A")}},
		{{"e": sl()}, {"hasLabel": sl("k")}},
		{{"e": sl()}, {"hasLabel": sl("k", "l", "m")}},
		{{"e": sl()}, {"hasLabel": sl("k")}, {"hasLabel": sl("l")}},
		{{"e": sl()}, {"hasLabel": sl("k", "l", "m")}, {"count": ""}},
		{{"e": sl()}, {"hasLabel": sl("l")}, {"out": sl()}},
		{{"e": sl()}, {"hasLabel": sl("k")}, {"in": sl()}},
		{{"e": c15PickFirst(p.eids, 1)}, {"hasLabel": sl("k", "l", "m")}},
		{{"e": c15PickFirst(p.eids, 3)}},
		{{"e": c15StrsToIf(p.eids)}},
		{{"v": c15StrsToIf(p.vids)}},
		{{"v": sl()}, {"out": sl()}}, {{"v": sl()}, {"in": sl()}}, {{"v": sl()}, {"both": sl()}},
		{{"v": sl()}, {"outE": sl()}}, {{"v": sl()}, {"inE": sl()}}, {{"v": sl()}, {"bothE": sl()}},
		{{"v": sl()}, {"out": sl("k")}}, {{"v": sl()}, {"in": sl("k", "l")}},
		{{"v": sl()}, {"outE": sl("l")}}, {{"v": sl()}, {"inE": sl("m", "k")}},
		{{"e": sl()}, {"out": sl()}}, {{"e": sl()}, {"in": sl()}}, {{"e": sl()}, {"both": sl()}},
		{{"v": sl()}, {"outE": sl()}, {"in": sl()}}, {{"v": sl()}, {"inE": sl()}, {"out": sl()}},
		{{"v": sl()}, {"out": sl()}, {"out": sl()}}, {{"v": sl()}, {"in": sl()}, {"outE": sl()}},
		{{"v": sl()}, {"as": "a"}, {"out": sl()}, {"as": "b"}, {"select": map[string]interface{}{"marks": sl("a", "b")}}},
		{{"v": sl()}, {"outE": sl()}, {"path": sl()}},
		{{"v": sl()}, {"inE": sl()}, {"render": map[string]interface{}{"g": "_gid", "f": "_from", "t": "_to", "l": "_label"}}},
		{{"v": sl()}, {"limit": 2}}, {{"e": sl()}, {"skip": 1}, {"count": ""}},
	}
	return out
}

func c15PickFirst(pool []string, n int) []interface{} {
	out := []interface{}{}
	for i := 0; i < n && i < len(pool); i++ {
		out = append(out, pool[(i*7)%len(pool)])
	}
	if len(out) == 0 {
		out = append(out, "zz")
	}
	return out
}

func c15StrsToIf(xs []string) []interface{} {
	out := []interface{}{}
	for _, x := range xs {
		out = append(out, x)
	}
	return out
}

func c15Gen(r *Run) {
	c15Quiet()
	eng, err := NewEng("badger")
	if err != nil {
		panic(err)
	}
	defer eng.Destroy()
	c := &c15Engine{eng: eng}
	defer c.stop()
	thorough := r.Tier == "thorough"
	budget := 30 * time.Second
	nworlds, nrand := 40, 12
	if thorough {
		budget = 8 * time.Minute
		nworlds, nrand = 400, 40
	}
	if b := os.Getenv("C15_BUDGET_S"); b != "" {
		var n int
		fmt.Sscanf(b, "%d", &n)
		budget = time.Duration(n) * time.Second
	}
	t0 := time.Now()
	over := func() bool { return time.Since(t0) > budget }

	emit := func(op map[string]interface{}) map[string]interface{} {
		obs := c.exec(op)
		r.Emit(op, obs)
		return obs
	}
	query := func(q []c01Stmt) {
		cmp, _ := c01Classify(q)
		if !c.kvOK {
			// two link rows with one edge id: which of them E(id) returns depends on Go's map
			// iteration order over the edge sources — not compared
			for _, st := range q {
				if ids, ok := st["e"].([]interface{}); ok && len(ids) > 0 {
					cmp = "skip"
				}
			}
		}
		obs := emit(map[string]interface{}{"op": "query", "q": toIfaces(q), "cmp": cmp})
		r.Count("cmp:" + cmp)
		if kv, ok := obs["kv"].(bool); ok && !kv {
			r.Count("kv:differs")
		}
		if !c.kvOK {
			r.Count("kv:not-comparable(duplicate gids)")
		}
		if _, ok := obs["err"]; ok {
			r.Count("outcome:compile-error")
		} else if _, ok := obs["skip"]; ok {
			r.Count("outcome:skipped")
		} else {
			r.Count("outcome:rows")
			if rows, ok := obs["rows"].([]interface{}); ok && len(rows) > 0 {
				r.NonTrivial(c01Key(q))
			}
		}
		if len(q) > 1 {
			k := c01Kind(q[1])
			if k == "hasLabel" || k == "hasId" {
				r.Count("start:" + c01Kind(q[0]) + "." + k)
			}
		}
	}
	writes := []string{"addVertex", "addEdge", "bulkAdd", "delVertex", "delEdge", "addIndex", "delIndex"}
	for wi := 0; wi < nworlds; wi++ {
		if wi >= 4 && over() {
			r.Count("worlds:not-run-budget")
			continue
		}
		kind := 2
		switch {
		case wi == 0:
			kind = 0
		case wi == 1:
			kind = 1
		case wi == 2:
			kind = 3 // overlapping prefixes: always reached
		case wi == 3:
			kind = 4 // ids with '-': always reached
		case wi == 4 || wi%10 == 7:
			kind = 5 // word prefixes: always reached
		case wi%10 == 9:
			kind = 3
		case wi%10 == 5:
			kind = 4
		}
		w := c15GenWorld(r.Rng, kind)
		op := w.toOp()
		obs := emit(op)
		if wi == 0 {
			r.AddSample(op)
		}
		r.Count(fmt.Sprintf("world:kind%d", kind))
		r.Count(fmt.Sprintf("world:vtypes%d", len(w.Verts)))
		r.Count(fmt.Sprintf("world:etypes%d", len(w.Edges)))
		if _, ok := obs["err"]; ok {
			r.Count("world:config-rejected")
			continue
		}
		if vs, ok := obs["verts"].([]interface{}); ok {
			r.Count(fmt.Sprintf("world:verts%02d", len(vs)))
		}
		if es, ok := obs["edges"].([]interface{}); ok {
			n := len(es)
			if n > 6 {
				n = 6
			}
			r.Count(fmt.Sprintf("world:edges%d+", n))
		}
		p := c15PoolsOf(w)
		fixed := c15Fixed(p)
		for i, q := range fixed {
			if wi >= 4 && kind == 2 && i%3 != wi%3 { // a third of the fixed programs per later random world
				continue
			}
			query(q)
		}
		for i := 0; i < nrand; i++ {
			q := c15Program(r.Rng, p, 3+r.Rng.Intn(7), wi%8 == 0 && i == 0)
			if c01Hazard(q) {
				r.Count("hazard:not-run")
				continue
			}
			query(q)
		}
		// write calls: refused, nothing changes
		wk := writes[wi%len(writes)]
		id := Pick(r.Rng, p.vids)
		if wk == "delEdge" || wk == "addEdge" {
			id = Pick(r.Rng, p.eids)
		}
		emit(map[string]interface{}{"op": "write", "kind": wk, "id": id})
		r.Count("write:" + wk)
		if wi < 2 {
			for _, k := range writes {
				emit(map[string]interface{}{"op": "write", "kind": k, "id": Pick(r.Rng, p.vids)})
				r.Count("write:" + k)
			}
		}
	}
	r.Rule = "distinct statement-kind sequences that produced at least one row on a gripper-mapped graph"
}

func c15Replay(r *Run, ops []map[string]interface{}) {
	c15Quiet()
	eng, err := NewEng("badger")
	if err != nil {
		panic(err)
	}
	defer eng.Destroy()
	c := &c15Engine{eng: eng}
	defer c.stop()
	for _, op := range ops {
		r.Emit(op, c.exec(op))
	}
}

func init() { Registry["C15"] = Prop{Gen: c15Gen, Replay: c15Replay} }

var _ = strings.HasPrefix
