package hx

// C09 — secondary index (kvindex.KVIndex over an embedded key-value store) against the Lean MODEL
// Grip.C09 and the SPEC "scan of the live documents".  Operation sequences (field registration /
// removal, document insertion / replacement / removal, bulk insertion as kvgraph does it) are
// generated exhaustively to a depth bound over a small universe and randomly beyond; after the
// mutations every public query of the index is asked and the whole key-value state is dumped.

import (
	"context"
	"encoding/binary"
	"encoding/hex"
	"encoding/json"
	"fmt"
	"math"
	"os"
	"sort"
	"time"

	"github.com/bmeg/grip/kvi"
	"github.com/bmeg/grip/kvindex"
	"google.golang.org/protobuf/proto"
)

type c09 struct {
	driver string
	dir    string
	kv     kvi.KVInterface
	idx    *kvindex.KVIndex
	hung   bool
}

func c09Open(driver string) *c09 {
	if driver == "" {
		// bolt and badger are the kvi drivers whose Update is a real transaction (an error rolls
		// back); kvgraph's own index tests run on bolt, and it answers the many small read
		// transactions of a query round several times faster than badger (-mode badger)
		driver = "bolt"
	}
	// pure scratch, created and removed by this run: on tmpfs when there is one (every Update of
	// bolt/badger fsyncs, which on a shared disk costs 10-20x the run time), else below $VERIF_WORK
	dir, err := os.MkdirTemp("/dev/shm", "grip-verif-c09-"+driver+"-")
	if err != nil {
		dir = ScratchDir("c09-" + driver)
	}
	path := dir
	if driver == "bolt" {
		path = dir + "/bolt.db"
	}
	kv, kerr := kvi.NewKVInterface(driver, path, nil)
	if kerr != nil {
		panic(kerr)
	}
	return &c09{driver: driver, dir: dir, kv: kv, idx: kvindex.NewIndex(kv)}
}

func (h *c09) close() {
	if !h.hung {
		h.kv.Close()
	}
	os.RemoveAll(h.dir)
}

func (h *c09) reset() {
	for _, p := range []string{"D", "f", "i", "t"} {
		h.kv.DeletePrefix([]byte(p))
	}
	h.idx = kvindex.NewIndex(h.kv)
}

func c09TermHex(v interface{}) string {
	b, t := kvindex.GetTermBytes(v)
	return hex.EncodeToString(append([]byte{byte(t)}, b...))
}

func c09W(f float64) string {
	b := make([]byte, 8)
	binary.BigEndian.PutUint64(b, math.Float64bits(f))
	return hex.EncodeToString(b)
}

func c09Counts(ch chan kvindex.KVTermCount, numbersOnly bool) []interface{} {
	type kc struct {
		k string
		c uint64
	}
	var l []kc
	for tc := range ch {
		if numbersOnly {
			l = append(l, kc{c09W(tc.Number), tc.Count})
		} else if tc.String != "" {
			// a KVTermCount does not say whether it is a string or a number: the generators
			// never use the empty string as a term
			l = append(l, kc{c09TermHex(tc.String), tc.Count})
		} else {
			l = append(l, kc{c09TermHex(tc.Number), tc.Count})
		}
	}
	sort.Slice(l, func(i, j int) bool { return l[i].k < l[j].k })
	out := []interface{}{}
	for _, x := range l {
		out = append(out, []interface{}{x.k, x.c})
	}
	return out
}

func (h *c09) dump() []interface{} {
	out := []interface{}{}
	h.kv.View(func(it kvi.KVIterator) error {
		for it.Seek([]byte{0}); it.Valid(); it.Next() {
			k := copyB(it.Key())
			var val interface{} = ""
			switch k[0] {
			case 't':
				v, _ := it.Value()
				c, _ := binary.Uvarint(v)
				val = c
			case 'D':
				v, _ := it.Value()
				d := kvindex.Doc{}
				proto.Unmarshal(v, &d)
				es := []string{}
				for _, e := range d.Entries {
					es = append(es, hex.EncodeToString(e))
				}
				sort.Strings(es)
				l := []interface{}{}
				for _, e := range es {
					l = append(l, e)
				}
				val = l
			}
			out = append(out, []interface{}{hex.EncodeToString(k), val})
		}
		return nil
	})
	return out
}

func copyB(b []byte) []byte { return append([]byte{}, b...) }

func c09StrList(xs []string) []interface{} {
	out := make([]interface{}, len(xs))
	for i, x := range xs {
		out[i] = x
	}
	return out
}

// query asks every public query method.
func (h *c09) query(op map[string]interface{}) map[string]interface{} {
	fields := []string{}
	for _, f := range op["fields"].([]interface{}) {
		fields = append(fields, f.(string))
	}
	terms := []interface{}{}
	for _, t := range op["terms"].([]interface{}) {
		terms = append(terms, Untag(t))
	}
	type rg struct{ lo, hi float64 }
	ranges := []rg{}
	for _, r := range op["ranges"].([]interface{}) {
		p := r.([]interface{})
		ranges = append(ranges, rg{c09Num(p[0]) / Scale, c09Num(p[1]) / Scale})
	}
	k := 0
	if kv, ok := op["k"]; ok {
		k = int(c09Num(kv))
	}
	counts, _ := op["counts"].(bool)
	idx := h.idx
	ctx := context.Background()
	obs := map[string]interface{}{}
	match := func(k int) []interface{} {
		all := []interface{}{}
		for _, f := range fields {
			per := []interface{}{}
			for _, t := range terms {
				ds := []string{}
				for d := range idx.GetTermMatch(ctx, f, t, k) {
					ds = append(ds, d)
				}
				per = append(per, c09StrList(ds))
			}
			all = append(all, per)
		}
		return all
	}
	obs["match"] = match(0)
	if k > 0 {
		obs["matchk"] = match(k)
	} else {
		obs["matchk"] = obs["match"]
	}
	tl := []interface{}{}
	for _, f := range fields {
		ts := []string{}
		for t := range idx.FieldTerms(f) {
			ts = append(ts, c09TermHex(t))
		}
		sort.Strings(ts)
		tl = append(tl, c09StrList(ts))
	}
	obs["terms"] = tl
	cl := []interface{}{}
	if counts {
		for _, f := range fields {
			cl = append(cl, c09Counts(idx.FieldTermCounts(f), false))
		}
	}
	obs["counts"] = cl
	mn, mx, nums, rng := []string{}, []string{}, []interface{}{}, []interface{}{}
	for _, f := range fields {
		mn = append(mn, c09W(idx.FieldTermNumberMin(f)))
		mx = append(mx, c09W(idx.FieldTermNumberMax(f)))
		ns := []string{}
		for v := range idx.FieldNumbers(f) {
			ns = append(ns, c09W(v))
		}
		nums = append(nums, c09StrList(ns))
		per := []interface{}{}
		for _, r := range ranges {
			per = append(per, c09Counts(idx.FieldTermNumberRange(f, r.lo, r.hi), true))
		}
		rng = append(rng, per)
	}
	obs["min"], obs["max"], obs["numbers"], obs["range"] = c09StrList(mn), c09StrList(mx), nums, rng
	enc := []string{}
	for _, t := range terms {
		enc = append(enc, c09TermHex(t))
	}
	obs["enc"] = c09StrList(enc)
	obs["dump"] = h.dump()
	return obs
}

func c09Num(v interface{}) float64 {
	switch n := v.(type) {
	case float64:
		return n
	case int:
		return float64(n)
	case int64:
		return float64(n)
	}
	panic(fmt.Sprintf("c09Num: %T", v))
}

func okOrErr(err error) map[string]interface{} {
	if err != nil {
		return map[string]interface{}{"err": true}
	}
	return map[string]interface{}{"ok": true}
}

// exec runs one protocol op on the real index (with a watchdog: a query that blocks is reported).
func (h *c09) exec(op map[string]interface{}) map[string]interface{} {
	if h.hung {
		return map[string]interface{}{"hang": true}
	}
	done := make(chan map[string]interface{}, 1)
	go func() {
		defer func() {
			if p := recover(); p != nil {
				done <- map[string]interface{}{"panic": true}
			}
		}()
		done <- h.exec1(op)
	}()
	select {
	case o := <-done:
		return o
	case <-time.After(90 * time.Second):
	}
	// the whole process may have been stalled (shared, overloaded machine): the timer then fires
	// although the operation never got to run. Only a second full period without an answer counts.
	select {
	case o := <-done:
		return o
	case <-time.After(90 * time.Second):
		h.hung = true
		return map[string]interface{}{"hang": true}
	}
}

func (h *c09) exec1(op map[string]interface{}) map[string]interface{} {
	switch op["op"] {
	case "reset":
		h.reset()
		return map[string]interface{}{"ok": true}
	case "addField":
		return okOrErr(h.idx.AddField(op["f"].(string)))
	case "removeField":
		return okOrErr(h.idx.RemoveField(op["f"].(string)))
	case "addDoc":
		return okOrErr(h.idx.AddDoc(op["d"].(string), Untag(op["doc"]).(map[string]interface{})))
	case "addDocBulk":
		// the way kvgraph indexes an element: AddDocTx through a write-only bulk handle
		doc := Untag(op["doc"]).(map[string]interface{})
		return okOrErr(h.kv.BulkWrite(func(tx kvi.KVBulkWrite) error {
			return h.idx.AddDocTx(tx, op["d"].(string), doc)
		}))
	case "removeDoc":
		return okOrErr(h.idx.RemoveDoc(op["d"].(string)))
	case "q":
		return h.query(op)
	}
	return map[string]interface{}{"bad": "unknown op"}
}

// ---------- generators ----------

var c09Fields = []string{"a", "b.c"}
var c09FieldsRnd = []string{"a", "b.c", "b", "ab"}
var c09Docs = []string{"d1", "d2", "d3"}

func c09Big() float64 { return float64(int64(1) << 40) }

// number terms over sign / magnitude boundaries (all multiples of 1/1024)
func c09Numbers() []float64 {
	return []float64{0, 1, -1, 0.5, -0.5, 1.0 / 1024, -1.0 / 1024, 2, -2, 1.5, -1.5, 3, -3, 255, 256, -256,
		c09Big(), -c09Big(), c09Big() + 0.5, 1023.0 / 1024, -1023.0 / 1024}
}

var c09Ranges = [][2]float64{{-2, 0}, {-2, -1}, {-3, 1.5}, {0, 2}, {0.5, 3}, {-0.5, 0.5}, {1, 1}, {2, 1}, {-1, -1}, {0, 0},
	{-(1 << 40) - 1, (1 << 40) + 1}, {-1.0 / 1024, 1.0 / 1024}, {-300, -1.5}, {1, 257}, {-1, 0}, {-1, 1.0 / 1024}}

func c09AllTerms() []interface{} {
	terms := []interface{}{"x", "y", "xy", "1"}
	for _, n := range c09Numbers() {
		terms = append(terms, n)
	}
	return append(terms, true)
}

func c09QueryOp(fields []string, counts bool, k int, terms []interface{}, rs [][2]float64) map[string]interface{} {
	tl := []interface{}{}
	for _, t := range terms {
		tl = append(tl, Tag(t))
	}
	ranges := []interface{}{}
	for _, r := range rs {
		ranges = append(ranges, []interface{}{int64(r[0] * Scale), int64(r[1] * Scale)})
	}
	fl := make([]interface{}, len(fields))
	for i, f := range fields {
		fl[i] = f
	}
	return map[string]interface{}{"op": "q", "fields": fl, "terms": tl, "ranges": ranges, "k": k, "counts": counts}
}

// the query round of the exhaustive part: the terms of its alphabet plus two absent ones
var c09ExhTerms = []interface{}{"x", "y", -1.0, 0.0, 1.0}
var c09ExhRanges = [][2]float64{{-2, 0}, {-1, 0}, {-2, -1}, {-1, 1}, {0, 1}, {0, 0}}

func c09Doc(kv ...interface{}) interface{} {
	m := map[string]interface{}{}
	for i := 0; i+1 < len(kv); i += 2 {
		m[kv[i].(string)] = kv[i+1]
	}
	return Tag(m)
}

// the alphabet of the exhaustive part
func c09Alphabet(tier string) []map[string]interface{} {
	var al []map[string]interface{}
	for _, f := range c09Fields {
		al = append(al, map[string]interface{}{"op": "addField", "f": f})
		al = append(al, map[string]interface{}{"op": "removeField", "f": f})
	}
	docs := []interface{}{
		c09Doc("a", "x"),
		c09Doc("a", "x", "b", map[string]interface{}{"c": -1.0}),
		c09Doc("a", 0.0, "b", map[string]interface{}{"c": "x"}),
		c09Doc("a", -1.0),
	}
	ids := c09Docs[:2]
	for di, d := range ids {
		for _, doc := range docs[di : len(docs)-di] { // d1: all four; d2: the two middle ones (so that {0,-1} and {x,x} coexist)
			al = append(al, map[string]interface{}{"op": "addDoc", "d": d, "doc": doc})
		}
		al = append(al, map[string]interface{}{"op": "removeDoc", "d": d})
	}
	al = append(al, map[string]interface{}{"op": "addDoc", "d": "d3", "doc": c09Doc("a", "x")})
	al = append(al, map[string]interface{}{"op": "addDoc", "d": "d1", "doc": c09Doc("a", true)})
	// lazy-count path: a counting query in the middle of a sequence stores the counts
	al = append(al, c09QueryOp(c09Fields, true, 0, nil, nil))
	return al
}

func c09RandDoc(r *Run) interface{} {
	strs := []interface{}{"x", "y", "xy", "1"}
	val := func() interface{} {
		switch r.Rng.Intn(12) {
		case 0, 1, 2, 3:
			return Pick(r.Rng, strs)
		case 4, 5, 6, 7, 8:
			return Pick(r.Rng, c09Numbers())
		case 9:
			return nil
		case 10:
			if r.Rng.Intn(3) == 0 {
				return true
			}
			return Pick(r.Rng, strs)
		default:
			if r.Rng.Intn(3) == 0 {
				return []interface{}{1.0}
			}
			return Pick(r.Rng, c09Numbers())
		}
	}
	m := map[string]interface{}{}
	if r.Rng.Intn(5) > 0 {
		m["a"] = val()
	}
	if r.Rng.Intn(5) > 1 {
		if r.Rng.Intn(6) == 0 {
			m["b"] = val()
		} else {
			m["b"] = map[string]interface{}{"c": val(), "z": "q"}
		}
	}
	if r.Rng.Intn(4) == 0 {
		m["ab"] = val()
	}
	return Tag(m)
}

func c09Kind(op map[string]interface{}) string { return op["op"].(string) }

// C09Gen: exhaustive sequences to a depth bound (query at the end: every prefix is itself a
// sequence), then seeded random sequences with a query after every step, then a wide field.
func C09Gen(r *Run) {
	r.Rule = "case = operation sequence from an empty index; distinct by serialized sequence; non-trivial = the " +
		"sequence contains at least one document insertion after a field registration; sequences over the listed " +
		"alphabet are enumerated completely to the depth bound, longer ones are seeded random"
	h := c09Open(r.Mode)
	defer h.close()
	emit := func(op map[string]interface{}) map[string]interface{} {
		obs := h.exec(op)
		r.Emit(op, obs)
		r.Count("op:" + c09Kind(op))
		if _, bad := obs["err"]; bad {
			r.Count("rejected:" + c09Kind(op))
		}
		return obs
	}
	reset := map[string]interface{}{"op": "reset"}
	al := c09Alphabet(r.Tier)
	depth := 3
	if r.Tier == "thorough" {
		depth = 4
	}
	fullQ := c09QueryOp(c09Fields, true, 1, c09ExhTerms, c09ExhRanges)
	nontrivial := func(seq []map[string]interface{}) bool {
		reg := false
		for _, o := range seq {
			if o["op"] == "addField" {
				reg = true
			}
			if reg && (o["op"] == "addDoc" || o["op"] == "addDocBulk") {
				return true
			}
		}
		return false
	}
	var rec func(seq []map[string]interface{})
	runSeq := func(seq []map[string]interface{}) {
		emit(reset)
		for _, o := range seq {
			emit(o)
		}
		emit(fullQ)
		r.Count("exhaustive-sequences")
		r.Count(fmt.Sprintf("exhaustive-len:%d", len(seq)))
		if nontrivial(seq) {
			b, _ := json.Marshal(seq)
			r.NonTrivial(string(b))
		}
	}
	rec = func(seq []map[string]interface{}) {
		if h.hung {
			return
		}
		runSeq(seq)
		if len(seq) == depth {
			return
		}
		for _, o := range al {
			rec(append(append([]map[string]interface{}{}, seq...), o))
		}
	}
	rec(nil)
	r.Exhaustive = true
	r.Notes = append(r.Notes, fmt.Sprintf("exhaustive: alphabet %d ops, depth %d, driver %s", len(al), depth, h.driver))

	// random sequences
	nseq, seqLen := 20, 20
	if r.Tier == "thorough" {
		nseq, seqLen = 300, 40
	}
	for s := 0; s < nseq && !h.hung; s++ {
		emit(reset)
		var seq []map[string]interface{}
		bulk := r.Rng.Intn(4) == 0 // a quarter of the sequences also use the bulk path
		for i := 0; i < seqLen && !h.hung; i++ {
			var op map[string]interface{}
			switch x := r.Rng.Intn(20); {
			case x < 3:
				op = map[string]interface{}{"op": "addField", "f": Pick(r.Rng, c09FieldsRnd)}
			case x < 5:
				op = map[string]interface{}{"op": "removeField", "f": Pick(r.Rng, c09FieldsRnd)}
			case x < 15:
				kind := "addDoc"
				if bulk && r.Rng.Intn(3) == 0 {
					kind = "addDocBulk"
				}
				op = map[string]interface{}{"op": kind, "d": Pick(r.Rng, c09Docs), "doc": c09RandDoc(r)}
			default:
				op = map[string]interface{}{"op": "removeDoc", "d": Pick(r.Rng, c09Docs)}
			}
			if i < 2 && r.Rng.Intn(2) == 0 {
				op = map[string]interface{}{"op": "addField", "f": c09FieldsRnd[i]}
			}
			seq = append(seq, op)
			emit(op)
			all := c09AllTerms()
			var ts []interface{}
			for j := 0; j < 6; j++ {
				ts = append(ts, Pick(r.Rng, all))
			}
			var rs [][2]float64
			for j := 0; j < 4; j++ {
				rs = append(rs, Pick(r.Rng, c09Ranges))
			}
			emit(c09QueryOp(c09FieldsRnd, r.Rng.Intn(2) == 0, r.Rng.Intn(3), ts, rs))
		}
		r.Count("random-sequences")
		if nontrivial(seq) {
			b, _ := json.Marshal(seq)
			r.NonTrivial(string(b))
		}
		if s == 0 {
			r.AddSample(seq[:6])
		}
	}

	// a FAILED insertion (one indexed field holds a value that is no term: the transaction is rolled
	// back on bolt and badger) followed by a successful one with the same, so far unseen, term: what
	// the failed call did must leave no trace, not in the store and not in the index object.  The
	// fields of a document are visited in map order, so the good field is handled before the bad one
	// only in some of the rounds: several rounds, several fields.
	emit(reset)
	for _, f := range []string{"a", "b.c", "ab"} { // not "b": its value is a map in these documents
		emit(map[string]interface{}{"op": "addField", "f": f})
	}
	for i, t := range []interface{}{"x", "y", "xy", "1", 2.0, -1.5, "x", 2.0} {
		bad := c09Doc("a", t, "ab", t, "b", map[string]interface{}{"c": true})
		if i%2 == 1 {
			bad = c09Doc("a", t, "ab", []interface{}{1.0}, "b", map[string]interface{}{"c": t})
		}
		emit(map[string]interface{}{"op": "addDoc", "d": fmt.Sprintf("f%d", i), "doc": bad})
		emit(map[string]interface{}{"op": "addDoc", "d": fmt.Sprintf("g%d", i), "doc": c09Doc("a", t, "ab", t, "b", map[string]interface{}{"c": t})})
		emit(c09QueryOp(c09FieldsRnd, i%2 == 0, 1, []interface{}{t, "x", 2.0}, [][2]float64{{-100, 100}}))
		emit(c09QueryOp(c09FieldsRnd, true, 0, []interface{}{t}, nil))
		if i == 5 {
			emit(map[string]interface{}{"op": "removeDoc", "d": "g1"})
		}
	}
	r.Count("failed-then-added")

	// a field with more distinct number terms than the result channel of FieldTermNumberRange holds
	emit(reset)
	emit(map[string]interface{}{"op": "addField", "f": "a"})
	n := 130
	for i := 0; i < n; i++ {
		v := float64(i-n/2) / 4
		emit(map[string]interface{}{"op": "addDoc", "d": fmt.Sprintf("w%03d", i), "doc": c09Doc("a", v)})
	}
	emit(map[string]interface{}{"op": "addDoc", "d": "w000b", "doc": c09Doc("a", -float64(n/2)/4)})
	emit(c09QueryOp([]string{"a"}, true, 2, []interface{}{-16.25, 0.0, 16.0, "x"},
		[][2]float64{{-100, 100}, {-10, 0}, {0, 100}, {-100, -1}, {-16.25, -16}}))
	r.Count("wide-field")
}

// C09Replay runs a given op list.
func C09Replay(r *Run, ops []map[string]interface{}) {
	h := c09Open(r.Mode)
	defer h.close()
	for _, op := range ops {
		r.Emit(op, h.exec(op))
	}
}

func init() { Registry["C09"] = Prop{Gen: C09Gen, Replay: C09Replay} }
