package hx

// C05 — every exposed RPC is mediated by authentication and per-graph authorization.
//
// Correspondence between the real interceptors (accounts.Config.UnaryInterceptor /
// StreamInterceptor, BulkWriteFilter, StreamOutWrapper) reached through the two real transports
//   grpc     a real grpc.Server (same interceptor chain shape as server.Serve) over an in-memory
//            listener, called with conn.Invoke / conn.NewStream for every method of the four
//            registered ServiceDescs
//   gateway  the in-process direct clients of gripql.pb.dgw.go built with both interceptor options
// and the Lean MODEL (Grip.C05.intercept over the regenerated AuthTables).  The Authenticate and
// Access implementations are the harness's own (via the verif hook accounts.NewConfigVerif) so
// that every Enforce(user, graph, op) call is recorded; the service implementation is a recorder.
// server.Serve itself is started by op "serve" (c05_serve.go) and probed over HTTP: its gateway
// wiring is covered by the translator's Serve table AND by that run.

import (
	"context"
	"fmt"
	"io"
	"net"
	"reflect"
	"sort"
	"strings"
	"sync"
	"time"

	"github.com/bmeg/grip/accounts"
	"github.com/bmeg/grip/gripql"
	grpc_middleware "github.com/grpc-ecosystem/go-grpc-middleware"
	"google.golang.org/grpc"
	"google.golang.org/grpc/codes"
	"google.golang.org/grpc/credentials/insecure"
	"google.golang.org/grpc/metadata"
	"google.golang.org/grpc/status"
	"google.golang.org/grpc/test/bufconn"
	"google.golang.org/protobuf/proto"
	"google.golang.org/protobuf/reflect/protoreflect"
	"google.golang.org/protobuf/reflect/protoregistry"
)

func init() {
	Registry["C05"] = Prop{Gen: func(r *Run) {
		if r.Mode == "access" { // the repository's own enforce / validate (c05_access.go)
			c05AccessGen(r)
		} else {
			c05Gen(r)
		}
	}, Replay: func(r *Run, ops []map[string]interface{}) {
		for _, op := range ops {
			r.Emit(op, c05Exec(op))
		}
	}}
}

// ---------------------------------------------------------------- per-call state

type c05State struct {
	mu      sync.Mutex
	users   map[string]string
	allow   map[string]bool
	log     [][]string
	handled []interface{}
	ran     bool
	refused time.Time // when Validate last failed (the interceptor returns right after)
}

var c05cur = &c05State{}

func (s *c05State) reset(users map[string]string, allow map[string]bool) {
	s.mu.Lock()
	defer s.mu.Unlock()
	s.users, s.allow, s.log, s.handled, s.ran = users, allow, nil, nil, false
	s.refused = time.Time{}
}

type c05Auth struct{}

func (c05Auth) Validate(md accounts.MetaData) (string, error) {
	c05cur.mu.Lock()
	defer c05cur.mu.Unlock()
	v := md["authorization"]
	if len(v) == 0 {
		c05cur.refused = time.Now()
		return "", fmt.Errorf("no credentials")
	}
	if u, ok := c05cur.users[v[0]]; ok {
		return u, nil
	}
	c05cur.refused = time.Now()
	return "", fmt.Errorf("bad credentials")
}

type c05Access struct{}

func (c05Access) Enforce(user string, graph string, op accounts.Operation) error {
	c05cur.mu.Lock()
	defer c05cur.mu.Unlock()
	c05cur.log = append(c05cur.log, []string{user, graph, string(op)})
	if c05cur.allow[user+"\x00"+graph+"\x00"+string(op)] {
		return nil
	}
	return fmt.Errorf("restricted")
}

// ---------------------------------------------------------------- message helpers

var c05TagFields = []string{"id", "src_id", "label", "name"}

func c05Describe(m proto.Message) []interface{} {
	r := m.ProtoReflect()
	d := r.Descriptor()
	var graph interface{}
	if fd := d.Fields().ByName("graph"); fd != nil && fd.Kind() == protoreflect.StringKind {
		graph = r.Get(fd).String()
	}
	tag := ""
	if ge, ok := m.(*gripql.GraphElement); ok {
		if ge.Vertex != nil {
			tag = ge.Vertex.Gid
		}
	} else {
		for _, f := range c05TagFields {
			if fd := d.Fields().ByName(protoreflect.Name(f)); fd != nil && fd.Kind() == protoreflect.StringKind && !fd.IsList() {
				tag = r.Get(fd).String()
				break
			}
		}
	}
	return []interface{}{string(d.Name()), graph, tag}
}

func c05CanTag(ty string) bool {
	mt, err := protoregistry.GlobalTypes.FindMessageByName(protoreflect.FullName("gripql." + ty))
	if err != nil {
		return false
	}
	if ty == "GraphElement" {
		return true
	}
	for _, f := range c05TagFields {
		if fd := mt.Descriptor().Fields().ByName(protoreflect.Name(f)); fd != nil && fd.Kind() == protoreflect.StringKind && !fd.IsList() {
			return true
		}
	}
	return false
}

func c05HasGraph(ty string) bool {
	mt, err := protoregistry.GlobalTypes.FindMessageByName(protoreflect.FullName("gripql." + ty))
	if err != nil {
		return false
	}
	fd := mt.Descriptor().Fields().ByName("graph")
	return fd != nil && fd.Kind() == protoreflect.StringKind
}

// c05Build makes the concrete request message from the protocol form {"ty","graph","tag"}.
func c05Build(j map[string]interface{}) (proto.Message, error) {
	ty, _ := j["ty"].(string)
	mt, err := protoregistry.GlobalTypes.FindMessageByName(protoreflect.FullName("gripql." + ty))
	if err != nil {
		return nil, err
	}
	m := mt.New()
	d := m.Descriptor()
	if g, ok := j["graph"].(string); ok {
		fd := d.Fields().ByName("graph")
		if fd == nil {
			return nil, fmt.Errorf("%s has no graph field", ty)
		}
		m.Set(fd, protoreflect.ValueOfString(g))
	}
	tag, _ := j["tag"].(string)
	msg := m.Interface()
	if ge, ok := msg.(*gripql.GraphElement); ok {
		ge.Vertex = &gripql.Vertex{Gid: tag, Label: "L"}
	} else if tag != "" {
		set := false
		for _, f := range c05TagFields {
			if fd := d.Fields().ByName(protoreflect.Name(f)); fd != nil && fd.Kind() == protoreflect.StringKind && !fd.IsList() {
				m.Set(fd, protoreflect.ValueOfString(tag))
				set = true
				break
			}
		}
		if !set {
			return nil, fmt.Errorf("%s cannot carry a tag", ty)
		}
	}
	return msg, nil
}

// ---------------------------------------------------------------- the recording service

type c05Srv struct {
	gripql.UnimplementedQueryServer
	gripql.UnimplementedJobServer
	gripql.UnimplementedEditServer
	gripql.UnimplementedConfigureServer
}

func c05Note(m proto.Message) {
	c05cur.mu.Lock()
	defer c05cur.mu.Unlock()
	c05cur.ran = true
	if m != nil {
		c05cur.handled = append(c05cur.handled, c05Describe(m))
	}
}

func (c05Srv) Traversal(q *gripql.GraphQuery, s gripql.Query_TraversalServer) error { c05Note(q); return nil }
func (c05Srv) GetVertex(_ context.Context, q *gripql.ElementID) (*gripql.Vertex, error) {
	c05Note(q)
	return &gripql.Vertex{}, nil
}
func (c05Srv) GetEdge(_ context.Context, q *gripql.ElementID) (*gripql.Edge, error) {
	c05Note(q)
	return &gripql.Edge{}, nil
}
func (c05Srv) GetTimestamp(_ context.Context, q *gripql.GraphID) (*gripql.Timestamp, error) {
	c05Note(q)
	return &gripql.Timestamp{}, nil
}
func (c05Srv) GetSchema(_ context.Context, q *gripql.GraphID) (*gripql.Graph, error) {
	c05Note(q)
	return &gripql.Graph{}, nil
}
func (c05Srv) GetMapping(_ context.Context, q *gripql.GraphID) (*gripql.Graph, error) {
	c05Note(q)
	return &gripql.Graph{}, nil
}
func (c05Srv) ListGraphs(_ context.Context, q *gripql.Empty) (*gripql.ListGraphsResponse, error) {
	c05Note(q)
	return &gripql.ListGraphsResponse{}, nil
}
func (c05Srv) ListIndices(_ context.Context, q *gripql.GraphID) (*gripql.ListIndicesResponse, error) {
	c05Note(q)
	return &gripql.ListIndicesResponse{}, nil
}
func (c05Srv) ListLabels(_ context.Context, q *gripql.GraphID) (*gripql.ListLabelsResponse, error) {
	c05Note(q)
	return &gripql.ListLabelsResponse{}, nil
}
func (c05Srv) ListTables(q *gripql.Empty, s gripql.Query_ListTablesServer) error { c05Note(q); return nil }
func (c05Srv) Submit(_ context.Context, q *gripql.GraphQuery) (*gripql.QueryJob, error) {
	c05Note(q)
	return &gripql.QueryJob{}, nil
}
func (c05Srv) ListJobs(q *gripql.GraphID, s gripql.Job_ListJobsServer) error       { c05Note(q); return nil }
func (c05Srv) SearchJobs(q *gripql.GraphQuery, s gripql.Job_SearchJobsServer) error { c05Note(q); return nil }
func (c05Srv) DeleteJob(_ context.Context, q *gripql.QueryJob) (*gripql.JobStatus, error) {
	c05Note(q)
	return &gripql.JobStatus{}, nil
}
func (c05Srv) GetJob(_ context.Context, q *gripql.QueryJob) (*gripql.JobStatus, error) {
	c05Note(q)
	return &gripql.JobStatus{}, nil
}
func (c05Srv) ViewJob(q *gripql.QueryJob, s gripql.Job_ViewJobServer) error         { c05Note(q); return nil }
func (c05Srv) ResumeJob(q *gripql.ExtendQuery, s gripql.Job_ResumeJobServer) error { c05Note(q); return nil }
func (c05Srv) AddVertex(_ context.Context, q *gripql.GraphElement) (*gripql.EditResult, error) {
	c05Note(q)
	return &gripql.EditResult{}, nil
}
func (c05Srv) AddEdge(_ context.Context, q *gripql.GraphElement) (*gripql.EditResult, error) {
	c05Note(q)
	return &gripql.EditResult{}, nil
}
func (c05Srv) BulkAdd(s gripql.Edit_BulkAddServer) error {
	c05Note(nil)
	for {
		e, err := s.Recv()
		if err == io.EOF {
			break
		}
		if err != nil {
			return err
		}
		c05Note(e)
	}
	return s.SendAndClose(&gripql.BulkEditResult{})
}
func (c05Srv) AddGraph(_ context.Context, q *gripql.GraphID) (*gripql.EditResult, error) {
	c05Note(q)
	return &gripql.EditResult{}, nil
}
func (c05Srv) DeleteGraph(_ context.Context, q *gripql.GraphID) (*gripql.EditResult, error) {
	c05Note(q)
	return &gripql.EditResult{}, nil
}
func (c05Srv) DeleteVertex(_ context.Context, q *gripql.ElementID) (*gripql.EditResult, error) {
	c05Note(q)
	return &gripql.EditResult{}, nil
}
func (c05Srv) DeleteEdge(_ context.Context, q *gripql.ElementID) (*gripql.EditResult, error) {
	c05Note(q)
	return &gripql.EditResult{}, nil
}
func (c05Srv) AddIndex(_ context.Context, q *gripql.IndexID) (*gripql.EditResult, error) {
	c05Note(q)
	return &gripql.EditResult{}, nil
}
func (c05Srv) DeleteIndex(_ context.Context, q *gripql.IndexID) (*gripql.EditResult, error) {
	c05Note(q)
	return &gripql.EditResult{}, nil
}
func (c05Srv) AddSchema(_ context.Context, q *gripql.Graph) (*gripql.EditResult, error) {
	c05Note(q)
	return &gripql.EditResult{}, nil
}
func (c05Srv) SampleSchema(_ context.Context, q *gripql.GraphID) (*gripql.Graph, error) {
	c05Note(q)
	return &gripql.Graph{}, nil
}
func (c05Srv) AddMapping(_ context.Context, q *gripql.Graph) (*gripql.EditResult, error) {
	c05Note(q)
	return &gripql.EditResult{}, nil
}
func (c05Srv) StartPlugin(_ context.Context, q *gripql.PluginConfig) (*gripql.PluginStatus, error) {
	c05Note(q)
	return &gripql.PluginStatus{}, nil
}
func (c05Srv) ListPlugins(_ context.Context, q *gripql.Empty) (*gripql.ListPluginsResponse, error) {
	c05Note(q)
	return &gripql.ListPluginsResponse{}, nil
}
func (c05Srv) ListDrivers(_ context.Context, q *gripql.Empty) (*gripql.ListDriversResponse, error) {
	c05Note(q)
	return &gripql.ListDriversResponse{}, nil
}

// ---------------------------------------------------------------- methods (from the real descriptors)

type c05Method struct {
	Full, Svc, Name, Kind, In, Out string
}

var c05Descs = []*grpc.ServiceDesc{&gripql.Query_ServiceDesc, &gripql.Job_ServiceDesc, &gripql.Edit_ServiceDesc, &gripql.Configure_ServiceDesc}

func c05Methods() []c05Method {
	var out []c05Method
	for _, sd := range c05Descs {
		svc := gripql.File_gripql_proto.Services().ByName(protoreflect.FullName(sd.ServiceName).Name())
		add := func(name, kind string) {
			md := svc.Methods().ByName(protoreflect.Name(name))
			out = append(out, c05Method{Full: "/" + sd.ServiceName + "/" + name, Svc: string(svc.Name()), Name: name, Kind: kind,
				In: string(md.Input().Name()), Out: string(md.Output().Name())})
		}
		for _, m := range sd.Methods {
			add(m.MethodName, "unary")
		}
		for _, s := range sd.Streams {
			switch {
			case s.ServerStreams && s.ClientStreams:
				add(s.StreamName, "bidi")
			case s.ServerStreams:
				add(s.StreamName, "serverStream")
			default:
				add(s.StreamName, "clientStream")
			}
		}
	}
	return out
}

func c05MethodByFull(full string) (c05Method, bool) {
	for _, m := range c05Methods() {
		if m.Full == full {
			return m, true
		}
	}
	return c05Method{}, false
}

// ---------------------------------------------------------------- transports

type c05Env struct {
	conn                 *grpc.ClientConn
	query                *gripql.QueryDirectClient
	job                  *gripql.JobDirectClient
	edit                 *gripql.EditDirectClient
	conf                 *gripql.ConfigureDirectClient
	close                func()
}

var c05Envs = map[string]*c05Env{}

func c05PassU(ctx context.Context, req interface{}, info *grpc.UnaryServerInfo, handler grpc.UnaryHandler) (interface{}, error) {
	return handler(ctx, req)
}
func c05PassS(srv interface{}, ss grpc.ServerStream, info *grpc.StreamServerInfo, handler grpc.StreamHandler) error {
	return handler(srv, ss)
}

// c05GetEnv builds (once per configuration) a grpc.Server wired like server.Serve
// (auth interceptor first in a grpc_middleware chain) on an in-memory listener, and the
// direct clients wired like server.Serve (both interceptor options).
func c05GetEnv(cfg string) *c05Env {
	if e, ok := c05Envs[cfg]; ok {
		return e
	}
	var ac *accounts.Config
	if cfg == "null" {
		ac = &accounts.Config{} // no accounts configured: NullAuth / NullAccess
	} else {
		ac = accounts.NewConfigVerif(c05Auth{}, c05Access{})
	}
	e := c05NewEnv(ac)
	c05Envs[cfg] = e
	return e
}

// c05NewEnv builds the two transports around the interceptors of one accounts.Config.
func c05NewEnv(ac *accounts.Config) *c05Env {
	u, s := ac.UnaryInterceptor(), ac.StreamInterceptor()
	gs := grpc.NewServer(
		grpc.UnaryInterceptor(grpc_middleware.ChainUnaryServer(u, c05PassU)),
		grpc.StreamInterceptor(grpc_middleware.ChainStreamServer(s, c05PassS)),
	)
	srv := c05Srv{}
	gripql.RegisterQueryServer(gs, srv)
	gripql.RegisterJobServer(gs, srv)
	gripql.RegisterEditServer(gs, srv)
	gripql.RegisterConfigureServer(gs, srv)
	lis := bufconn.Listen(1 << 20)
	go gs.Serve(lis)
	conn, err := grpc.DialContext(context.Background(), "bufnet",
		grpc.WithContextDialer(func(ctx context.Context, _ string) (net.Conn, error) { return lis.DialContext(ctx) }),
		grpc.WithTransportCredentials(insecure.NewCredentials()))
	if err != nil {
		panic(err)
	}
	e := &c05Env{conn: conn,
		query: gripql.NewQueryDirectClient(srv, gripql.DirectUnaryInterceptor(u), gripql.DirectStreamInterceptor(s)),
		job:   gripql.NewJobDirectClient(srv, gripql.DirectUnaryInterceptor(u), gripql.DirectStreamInterceptor(s)),
		edit:  gripql.NewEditDirectClient(srv, gripql.DirectUnaryInterceptor(u), gripql.DirectStreamInterceptor(s)),
		conf:  gripql.NewConfigureDirectClient(srv, gripql.DirectUnaryInterceptor(u), gripql.DirectStreamInterceptor(s)),
		close: func() { conn.Close(); gs.Stop() },
	}
	return e
}

func c05ErrName(err error) string {
	if err == nil || err == io.EOF {
		return "ok"
	}
	switch status.Code(err) {
	case codes.Unauthenticated:
		return "unauthenticated"
	case codes.PermissionDenied:
		return "denied"
	case codes.Unknown:
		return "unknown"
	}
	return "other"
}

func c05NewOut(m c05Method) proto.Message {
	mt, err := protoregistry.GlobalTypes.FindMessageByName(protoreflect.FullName("gripql." + m.Out))
	if err != nil {
		panic(err)
	}
	return mt.New().Interface()
}

func c05CallGrpc(e *c05Env, ctx context.Context, m c05Method, req proto.Message, elems []proto.Message) error {
	switch m.Kind {
	case "unary":
		return e.conn.Invoke(ctx, m.Full, req, c05NewOut(m))
	case "serverStream":
		st, err := e.conn.NewStream(ctx, &grpc.StreamDesc{ServerStreams: true}, m.Full)
		if err != nil {
			return err
		}
		if err := st.SendMsg(req); err != nil {
			return err
		}
		if err := st.CloseSend(); err != nil {
			return err
		}
		for {
			if err := st.RecvMsg(c05NewOut(m)); err != nil {
				return err
			}
		}
	case "clientStream":
		st, err := e.conn.NewStream(ctx, &grpc.StreamDesc{ClientStreams: true}, m.Full)
		if err != nil {
			return err
		}
		for _, el := range elems {
			if err := st.SendMsg(el); err != nil {
				if err == io.EOF {
					break // the server ended the call; RecvMsg tells why
				}
				return err
			}
		}
		st.CloseSend()
		return st.RecvMsg(c05NewOut(m))
	}
	return fmt.Errorf("kind %s not driven", m.Kind)
}

var errC05Hang = fmt.Errorf("hang")

func c05CallGateway(e *c05Env, ctx context.Context, m c05Method, req proto.Message, elems []proto.Message) error {
	var client interface{}
	switch m.Svc {
	case "Query":
		client = e.query
	case "Job":
		client = e.job
	case "Edit":
		client = e.edit
	case "Configure":
		client = e.conf
	}
	fn := reflect.ValueOf(client).MethodByName(m.Name)
	if !fn.IsValid() {
		return fmt.Errorf("no shim")
	}
	asErr := func(v reflect.Value) error {
		if v.IsNil() {
			return nil
		}
		return v.Interface().(error)
	}
	switch m.Kind {
	case "unary":
		out := fn.Call([]reflect.Value{reflect.ValueOf(ctx), reflect.ValueOf(req)})
		return asErr(out[1])
	case "serverStream":
		out := fn.Call([]reflect.Value{reflect.ValueOf(ctx), reflect.ValueOf(req)})
		if err := asErr(out[1]); err != nil {
			return err
		}
		recv := out[0].MethodByName("Recv")
		for {
			r := recv.Call(nil)
			if err := asErr(r[1]); err != nil {
				return err
			}
		}
	case "clientStream":
		out := fn.Call([]reflect.Value{reflect.ValueOf(ctx)})
		if err := asErr(out[1]); err != nil {
			return err
		}
		cl := out[0].Interface().(gripql.Edit_BulkAddClient)
		done := make(chan error, 1)
		go func() {
			for _, el := range elems {
				if err := cl.Send(el.(*gripql.GraphElement)); err != nil {
					done <- err
					return
				}
			}
			cl.CloseSend()
			_, err := cl.CloseAndRecv()
			done <- err
		}()
		// The caller is considered hung when the interceptor has refused the call (Validate
		// failed, after which it returns at once) and CloseAndRecv has still not returned 300 ms
		// later; a call that was not refused gets 20 s (loaded machines).
		deadline := time.After(20 * time.Second)
		tick := time.NewTicker(10 * time.Millisecond)
		defer tick.Stop()
		for {
			select {
			case err := <-done:
				return err
			case <-deadline:
				return fmt.Errorf("timeout")
			case <-tick.C:
				c05cur.mu.Lock()
				ref := c05cur.refused
				c05cur.mu.Unlock()
				if !ref.IsZero() && time.Since(ref) > 300*time.Millisecond {
					return errC05Hang
				}
			}
		}
	}
	return fmt.Errorf("kind %s not driven", m.Kind)
}

// ---------------------------------------------------------------- one op

func c05Pairs(v interface{}) [][]string {
	var out [][]string
	xs, _ := v.([]interface{})
	for _, x := range xs {
		var row []string
		ys, _ := x.([]interface{})
		for _, y := range ys {
			s, _ := y.(string)
			row = append(row, s)
		}
		out = append(out, row)
	}
	return out
}

func c05Exec(op map[string]interface{}) (obs map[string]interface{}) {
	defer func() {
		if p := recover(); p != nil {
			obs = map[string]interface{}{"err": "panic", "handled": nil, "log": []interface{}{}, "why": fmt.Sprint(p)}
		}
	}()
	if k, _ := op["op"].(string); k == "serve" {
		return c05ServeExec(op) // the real server.Serve over HTTP (c05_serve.go)
	}
	if k, _ := op["op"].(string); k != "call" && k != "" {
		return c05AccessExec(op) // ops of mode "access"
	}
	full, _ := op["m"].(string)
	m, ok := c05MethodByFull(full)
	if !ok {
		return map[string]interface{}{"err": "no-such-method", "handled": nil, "log": []interface{}{}}
	}
	cfg, _ := op["cfg"].(string)
	users := map[string]string{}
	for _, p := range c05Pairs(op["users"]) {
		if len(p) == 2 {
			if _, dup := users[p[0]]; !dup {
				users[p[0]] = p[1]
			}
		}
	}
	allow := map[string]bool{}
	for _, p := range c05Pairs(op["allow"]) {
		if len(p) == 3 {
			allow[p[0]+"\x00"+p[1]+"\x00"+p[2]] = true
		}
	}
	reqJ, _ := op["req"].(map[string]interface{})
	req, err := c05Build(reqJ)
	if err != nil {
		panic(err)
	}
	var elems []proto.Message
	if xs, ok := op["elems"].([]interface{}); ok {
		for _, x := range xs {
			el, err := c05Build(x.(map[string]interface{}))
			if err != nil {
				panic(err)
			}
			elems = append(elems, el)
		}
	}
	e := c05GetEnv(cfg)
	c05cur.reset(users, allow)
	ctx, cancel := context.WithTimeout(context.Background(), 10*time.Second)
	defer cancel()
	if tok, ok := op["token"].(string); ok {
		ctx = metadata.AppendToOutgoingContext(ctx, "authorization", tok)
	}
	var cerr error
	if op["tr"] == "gateway" {
		cerr = c05CallGateway(e, ctx, m, req, elems)
	} else {
		cerr = c05CallGrpc(e, ctx, m, req, elems)
	}
	c05cur.mu.Lock()
	defer c05cur.mu.Unlock()
	name := c05ErrName(cerr)
	if cerr == errC05Hang {
		name = "hang"
	}
	var handled interface{}
	if c05cur.ran {
		h := c05cur.handled
		if h == nil {
			h = []interface{}{}
		}
		handled = h
	}
	log := []interface{}{}
	if cfg != "null" {
		for _, l := range c05cur.log {
			log = append(log, []interface{}{l[0], l[1], l[2]})
		}
	}
	return map[string]interface{}{"err": name, "handled": handled, "log": log}
}

// ---------------------------------------------------------------- generator

var c05Ops = []string{"query", "write", "read", "exec", "admin"}

func c05Req(m c05Method, graph, tag string) map[string]interface{} {
	r := map[string]interface{}{"ty": m.In, "graph": nil, "tag": ""}
	if c05HasGraph(m.In) {
		r["graph"] = graph
	}
	if c05CanTag(m.In) {
		r["tag"] = tag
	}
	return r
}

func c05Gen(r *Run) {
	r.Rule = "distinct (method, transport, configuration, credential state, decision) tuples"
	methods := c05Methods()
	users := []interface{}{[]interface{}{"t-alice", "alice"}, []interface{}{"t-bob", "bob"}}
	emit := func(op map[string]interface{}, cred string) {
		obs := c05Exec(op)
		r.Emit(op, obs)
		dec := fmt.Sprint(obs["err"], obs["handled"] != nil)
		r.Count("err=" + fmt.Sprint(obs["err"]))
		r.Count("tr=" + fmt.Sprint(op["tr"]))
		r.Count("cfg=" + fmt.Sprint(op["cfg"]))
		r.NonTrivial(fmt.Sprint(op["m"], "|", op["tr"], "|", op["cfg"], "|", cred, "|", dec))
		if obs["handled"] != nil && op["cfg"] == "acct" {
			r.AddSample(map[string]interface{}{"op": op, "obs": obs})
		}
	}
	elemsFor := func(m c05Method, graphs []string) []interface{} {
		var out []interface{}
		if m.Kind != "clientStream" {
			return out
		}
		for i, g := range graphs {
			out = append(out, map[string]interface{}{"ty": m.In, "graph": g, "tag": fmt.Sprintf("v%d", i)})
		}
		return out
	}
	// --- the real server.Serve over HTTP, plugins disabled and enabled
	for _, plugins := range []bool{false, true} {
		op := map[string]interface{}{"op": "serve", "plugins": plugins, "probes": c05ServeProbes()}
		obs := c05Exec(op)
		r.Emit(op, obs)
		r.Count("serve")
		if ps, ok := obs["probes"].([]interface{}); ok {
			for _, p := range ps {
				r.NonTrivial(fmt.Sprint("serve|", plugins, "|", p))
			}
		}
	}
	// --- the full grid: every method × transport × credential state × policy outcome
	for _, m := range methods {
		for _, tr := range []string{"grpc", "gateway"} {
			g := "g1"
			eg := "*"
			if c05HasGraph(m.In) {
				eg = g
			}
			mk := func(cfg string, token interface{}, allow []interface{}) map[string]interface{} {
				return map[string]interface{}{"op": "call", "tr": tr, "cfg": cfg, "m": m.Full, "token": token,
					"users": users, "allow": allow, "req": c05Req(m, g, "r1"), "elems": elemsFor(m, []string{"g1", "g2", "g1"})}
			}
			var exact, others []interface{}
			for _, o := range c05Ops {
				exact = append(exact, []interface{}{"alice", eg, o})
				others = append(others, []interface{}{"bob", eg, o}, []interface{}{"alice", "gX", o})
			}
			emit(mk("acct", "t-alice", exact), "valid")   // every class granted on the request's graph
			emit(mk("acct", "t-alice", []interface{}{}), "valid") // nothing granted
			emit(mk("acct", "t-alice", others), "valid")  // granted to another user / on another graph only
			for _, o := range c05Ops {                      // exactly one class granted
				emit(mk("acct", "t-alice", []interface{}{[]interface{}{"alice", eg, o}}), "valid")
			}
			if eg != "*" { // a grant on "*" as a literal graph name is not a grant on g1 at this level
				emit(mk("acct", "t-alice", []interface{}{[]interface{}{"alice", "*", "read"}, []interface{}{"alice", "*", "write"}}), "valid")
			}
			emit(mk("acct", "t-mallory", exact), "invalid")
			emit(mk("acct", nil, exact), "missing")
			emit(mk("null", nil, []interface{}{}), "missing")
			emit(mk("null", "t-mallory", []interface{}{}), "invalid")
		}
	}
	// --- seeded random calls: random grants, graphs, credentials, bulk streams
	n := 400
	if r.Tier == "thorough" {
		n = 6000
	}
	graphs := []string{"g1", "g2", "", "*"}
	toks := []interface{}{"t-alice", "t-bob", "t-mallory", nil, ""}
	for i := 0; i < n; i++ {
		m := methods[r.Rng.Intn(len(methods))]
		var allow []interface{}
		for k := r.Rng.Intn(6); k > 0; k-- {
			allow = append(allow, []interface{}{Pick(r.Rng, []string{"alice", "bob"}), Pick(r.Rng, graphs), Pick(r.Rng, c05Ops)})
		}
		if allow == nil {
			allow = []interface{}{}
		}
		var eg []string
		for k := r.Rng.Intn(5); k > 0; k-- {
			eg = append(eg, Pick(r.Rng, graphs))
		}
		tok := toks[r.Rng.Intn(len(toks))]
		cred := "valid"
		if tok == nil {
			cred = "missing"
		} else if tok != "t-alice" && tok != "t-bob" {
			cred = "invalid"
		}
		op := map[string]interface{}{"op": "call", "tr": Pick(r.Rng, []string{"grpc", "gateway"}), "cfg": "acct", "m": m.Full,
			"token": tok, "users": users, "allow": allow, "req": c05Req(m, Pick(r.Rng, graphs), fmt.Sprintf("r%d", i)),
			"elems": elemsFor(m, eg)}
		if r.Rng.Intn(10) == 0 {
			op["cfg"] = "null"
		}
		emit(op, cred)
	}
	// all methods of the descriptors were driven
	names := []string{}
	for _, m := range methods {
		names = append(names, m.Full)
	}
	sort.Strings(names)
	r.Notes = append(r.Notes, fmt.Sprintf("%d methods driven over 2 transports: %s", len(names), strings.Join(names, " ")))
	r.Exhaustive = true
}
