package hx

// C06 generators: structurally valid, semantically arbitrary requests.

import (
	"encoding/json"
	"fmt"
	"math/rand"

	"github.com/bmeg/grip/gripql"
	"google.golang.org/protobuf/encoding/protojson"
)

// ---------- graphs ----------

func c06V(gid, label string, data c06m) c06m {
	v := c06m{"gid": gid, "label": label}
	if data != nil {
		v["data"] = data
	}
	return v
}

func c06E(gid, label, from, to string, data c06m) c06m {
	e := c06m{"gid": gid, "label": label, "from": from, "to": to}
	if data != nil {
		e["data"] = data
	}
	return e
}

// c06WitnessGraph: vertices with and without in/out edges (so every *Null step yields both
// matches and nulls), a self loop, an edge to a missing vertex, list/nested/number/string data.
func c06WitnessGraph() c06m {
	return c06m{
		"vertices": c06a{
			c06V("a", "Person", c06m{"name": "a", "age": 3, "tags": c06a{"x", "y"}, "nest": c06m{"k": 1}}),
			c06V("b", "Person", c06m{"name": "b", "age": "old", "tags": c06a{}}),
			c06V("c", "Thing", nil),
			c06V("d", "Thing", c06m{"age": 5, "name": c06a{"l"}}),
		},
		"edges": c06a{
			c06E("e1", "knows", "a", "b", c06m{"w": 1, "tags": c06a{1, 2}}),
			c06E("e2", "likes", "a", "c", nil),
			c06E("e3", "knows", "b", "a", c06m{"w": "x"}),
			c06E("e4", "likes", "c", "zz", nil),
			c06E("e5", "self", "a", "a", c06m{"age": 2}),
		},
	}
}

func c06EmptyGraph() c06m { return c06m{"vertices": c06a{}, "edges": c06a{}} }

func c06RandomGraph(rng *rand.Rand) c06m {
	nv := rng.Intn(5)
	ids := []string{}
	vs := c06a{}
	labels := []string{"Person", "Thing", "L"}
	for i := 0; i < nv; i++ {
		id := fmt.Sprintf("v%d", i)
		ids = append(ids, id)
		var d c06m
		switch rng.Intn(4) {
		case 0:
			d = c06m{"name": id, "age": rng.Intn(5), "tags": c06a{"x"}}
		case 1:
			d = c06m{"age": "s", "tags": c06a{}}
		case 2:
			d = c06m{"nest": c06m{"k": c06a{1}}, "name": nil}
		}
		vs = append(vs, c06V(id, Pick(rng, labels), d))
	}
	es := c06a{}
	if nv > 0 {
		ne := rng.Intn(6)
		for i := 0; i < ne; i++ {
			to := Pick(rng, ids)
			if rng.Intn(6) == 0 {
				to = "missing"
			}
			var d c06m
			if rng.Intn(2) == 0 {
				d = c06m{"w": rng.Intn(3), "tags": c06a{"t"}}
			}
			es = append(es, c06E(fmt.Sprintf("x%d", i), Pick(rng, []string{"knows", "likes"}), Pick(rng, ids), to, d))
		}
	}
	return c06m{"vertices": vs, "edges": es}
}

// ---------- statements (protojson) ----------

func c06Cond(key, cond string, val interface{}) c06m {
	return c06m{"has": c06m{"condition": c06m{"key": key, "value": val, "condition": cond}}}
}

func c06Agg(name, kind string, body c06m) c06m {
	return c06m{"name": name, kind: body}
}

func c06Aggregate(aggs ...interface{}) c06m {
	return c06m{"aggregate": c06m{"aggregations": c06a(aggs)}}
}

var c06NullSteps = []c06m{
	{"outNull": c06a{}}, {"inNull": c06a{}}, {"outENull": c06a{}}, {"inENull": c06a{}},
	{"outNull": c06a{"knows"}}, {"inENull": c06a{"nolabel"}},
}

// c06Alphabet: "every other step" — one or more instances of every statement of the wire format.
func c06Alphabet() []c06m {
	return []c06m{
		{"v": c06a{}}, {"e": c06a{}}, {"v": c06a{"a", "nope"}},
		{"in": c06a{}}, {"out": c06a{}}, {"both": c06a{}}, {"inE": c06a{}}, {"outE": c06a{}}, {"bothE": c06a{}},
		{"inNull": c06a{}}, {"outNull": c06a{}}, {"inENull": c06a{}}, {"outENull": c06a{}},
		{"as": "a"}, {"as": "b"},
		{"select": c06m{"marks": c06a{"a"}}}, {"select": c06m{"marks": c06a{"a", "b"}}},
		{"select": c06m{"marks": c06a{"zz"}}}, {"select": c06m{"marks": c06a{"a", "zz"}}},
		{"limit": 1}, {"limit": 0}, {"skip": 1},
		{"range": c06m{"start": -1, "stop": -3}}, {"range": c06m{"start": 1, "stop": -1}},
		c06Cond("name", "EQ", "a"), c06Cond("$a.name", "WITHIN", c06a{"a"}), c06Cond("_gid", "EQ", "a"),
		{"hasLabel": c06a{"Person"}}, {"hasKey": c06a{"name"}}, {"hasId": c06a{"a", "e1"}},
		{"fields": c06a{"name"}}, {"fields": c06a{"-name"}}, {"fields": c06a{}},
		{"unwind": "tags"}, {"unwind": "$a.tags"}, {"count": ""},
		c06Aggregate(c06Agg("t", "term", c06m{"field": "name"})),
		c06Aggregate(c06Agg("h", "histogram", c06m{"field": "age", "interval": 2})),
		{"render": "name"}, {"render": c06m{"k": "$a.name", "l": c06a{"_gid"}}},
		{"path": c06a{}},
		{"mark": "m"}, {"jump": c06m{"mark": "nomark"}},
		{"set": c06m{"key": "x", "value": 1}}, {"set": c06m{"key": "$a.x", "value": "s"}},
		{"increment": c06m{"key": "x", "value": 2}},
		{},
	}
}

var c06Distinct = []c06m{{"distinct": c06a{}}, {"distinct": c06a{"name", "$a.name"}}}

func c06CheckStmts(q c06a) {
	for _, j := range q {
		b, _ := json.Marshal(j)
		s := &gripql.GraphStatement{}
		if err := protojson.Unmarshal(b, s); err != nil {
			panic(fmt.Sprintf("c06 generator: %s is not a valid statement: %v", b, err))
		}
	}
}

func c06Query(q ...interface{}) c06m {
	c06CheckStmts(c06a(q))
	return c06m{"op": "query", "g": "g", "q": c06a(q)}
}

func c06Key(q c06a) string {
	s := ""
	for _, j := range q {
		for k := range j.(c06m) {
			s += k + "."
		}
		if len(j.(c06m)) == 0 {
			s += "unknown."
		}
	}
	return s
}

// ---------- families ----------

// null-producing step followed by every other step (and one more in the second position)
func c06FamNull(r *Run, full bool) []c06m {
	out := []c06m{}
	al := c06Alphabet()
	for ni, n := range c06NullSteps {
		if !full && ni >= 4 {
			break
		}
		for _, s := range al {
			out = append(out, c06Query(c06m{"v": c06a{}}, n, s))
			r.Count("fam:null.step")
		}
		for _, s := range c06Distinct {
			out = append(out, c06Query(c06m{"v": c06a{}}, n, s))
		}
		// marked null, then moves and selections
		for _, s := range al {
			if full || r.Rng.Intn(3) == 0 {
				out = append(out, c06Query(c06m{"v": c06a{}}, n, c06m{"as": "a"}, c06m{"out": c06a{}}, c06m{"as": "b"}, s))
				r.Count("fam:null.as.step")
			}
		}
		for _, s := range al {
			for _, t := range al {
				if full && r.Rng.Intn(4) == 0 || !full && r.Rng.Intn(90) == 0 {
					out = append(out, c06Query(c06m{"v": c06a{}}, n, s, t))
					r.Count("fam:null.step.step")
				}
			}
		}
	}
	// from edges: out/in of a null edge
	for _, s := range al {
		out = append(out, c06Query(c06m{"v": c06a{}}, c06m{"outENull": c06a{}}, c06m{"out": c06a{}}, s))
		if full {
			out = append(out, c06Query(c06m{"v": c06a{}}, c06m{"inENull": c06a{}}, c06m{"in": c06a{}}, s))
			out = append(out, c06Query(c06m{"e": c06a{}}, c06m{"outNull": c06a{}}, c06m{"outNull": c06a{}}, s))
		}
	}
	return out
}

// steps after statements that leave no current element
func c06FamNoCurrent(r *Run, full bool) []c06m {
	out := []c06m{}
	al := c06Alphabet()
	pre := [][]interface{}{
		{c06m{"v": c06a{}}, c06m{"count": ""}},
		{c06m{"v": c06a{}}, c06m{"render": "name"}},
		{c06m{"v": c06a{}}, c06m{"as": "a"}, c06m{"outE": c06a{}}, c06m{"as": "b"}, c06m{"select": c06m{"marks": c06a{"a", "b"}}}},
		{c06m{"v": c06a{}}, c06m{"as": "a"}, c06m{"select": c06m{"marks": c06a{"zz"}}}},
		{c06m{"v": c06a{}}, c06Aggregate(c06Agg("c", "count", c06m{}))},
		{c06m{"v": c06a{}}, c06m{"path": c06a{}}},
		{c06m{"e": c06a{}}, c06m{"fields": c06a{"w"}}},
		{c06m{"e": c06a{}}, c06m{"as": "a"}, c06m{"out": c06a{}}, c06m{"as": "b"}},
		{c06m{"v": c06a{}}, c06m{"unwind": "tags"}},
	}
	for _, p := range pre {
		for _, s := range al {
			q := append(append([]interface{}{}, p...), s)
			out = append(out, c06Query(q...))
			r.Count("fam:nocurrent.step")
			if full {
				for _, t := range al {
					if r.Rng.Intn(8) == 0 {
						q2 := append(append([]interface{}{}, q...), t)
						out = append(out, c06Query(q2...))
						r.Count("fam:nocurrent.step.step")
					}
				}
			}
		}
	}
	return out
}

// condition values of unexpected type, at the optimizer's positions and later, bare and nested
func c06FamHas(r *Run, full bool) []c06m {
	out := []c06m{}
	vals := []interface{}{nil, true, 1, "a", c06a{"a", "b"}, c06a{1, 2}, c06a{"a", 1}, c06m{"k": 1}, c06a{c06a{"a"}}, c06a{}, c06a{nil}, c06a{1, 2, 3}}
	conds := []string{"EQ", "NEQ", "GT", "GTE", "LT", "LTE", "INSIDE", "OUTSIDE", "BETWEEN", "WITHIN", "WITHOUT", "CONTAINS", "UNKNOWN_CONDITION"}
	keys := []string{"_gid", "_label", "name", "$a.age", "", "$"}
	for _, c := range conds {
		for _, v := range vals {
			for ki, k := range keys {
				if !full && (ki >= 2 && r.Rng.Intn(3) != 0 || r.Rng.Intn(2) == 0) {
					continue
				}
				h := c06Cond(k, c, v)
				out = append(out, c06Query(c06m{"v": c06a{}}, h))
				r.Count("fam:has.first")
				switch r.Rng.Intn(4) {
				case 0:
					out = append(out, c06Query(c06m{"v": c06a{}}, c06m{"as": "a"}, c06m{"out": c06a{}}, h))
				case 1:
					out = append(out, c06Query(c06m{"v": c06a{}}, c06m{"has": c06m{"and": c06m{"expressions": c06a{h["has"], c06m{"not": h["has"]}}}}}))
				case 2:
					out = append(out, c06Query(c06m{"v": c06a{}}, c06m{"hasLabel": c06a{"Person"}}, h, c06m{"has": c06m{"or": c06m{"expressions": c06a{h["has"]}}}}))
				case 3:
					out = append(out, c06Query(c06m{"e": c06a{}}, h, c06m{"outNull": c06a{}}, h))
				}
			}
		}
	}
	// structured condition values against structured field values (objects with objects, lists of
	// objects with lists): always emitted
	for _, c := range []string{"EQ", "NEQ", "WITHIN", "WITHOUT", "CONTAINS", "GT", "INSIDE"} {
		for _, k := range []string{"nest", "tags", "$", "$a.nest"} {
			for _, v := range []interface{}{c06m{"k": 1}, c06m{}, c06a{c06m{"k": 1}}, c06a{"x", "y"}, c06a{c06a{"x", "y"}}, c06m{"k": c06m{"j": c06a{}}}} {
				h := c06Cond(k, c, v)
				if k == "$a.nest" {
					out = append(out, c06Query(c06m{"v": c06a{}}, c06m{"as": "a"}, c06m{"out": c06a{}}, h))
				} else {
					out = append(out, c06Query(c06m{"v": c06a{}}, h))
				}
				r.Count("fam:has.structured")
			}
		}
	}
	// degenerate expressions
	for _, h := range []c06m{
		{"has": c06m{}}, {"has": c06m{"and": c06m{}}}, {"has": c06m{"or": c06m{"expressions": c06a{}}}},
		{"has": c06m{"not": c06m{}}}, {"has": c06m{"condition": c06m{}}},
		{"has": c06m{"and": c06m{"expressions": c06a{c06m{}, c06m{"and": c06m{"expressions": c06a{c06m{"condition": c06m{"key": "_gid", "condition": "WITHIN", "value": 3}}}}}}}}},
	} {
		out = append(out, c06Query(c06m{"v": c06a{}}, h), c06Query(c06m{"v": c06a{}}, c06m{"out": c06a{}}, h))
	}
	// list arguments of unexpected type
	for _, k := range []string{"v", "e", "out", "hasLabel", "hasId", "hasKey", "fields", "distinct", "outNull"} {
		for _, l := range []c06a{{1, nil}, {c06a{"a"}}, {c06m{"k": "v"}, "a"}} {
			out = append(out, c06Query(c06m{"v": c06a{}}, c06m{k: l}))
		}
	}
	return out
}

// empty and duplicate aggregations, aggregations over empty inputs
func c06FamAgg(r *Run, full bool) []c06m {
	out := []c06m{}
	kinds := []c06m{
		c06Agg("n", "term", c06m{"field": "name"}), c06Agg("n", "term", c06m{"field": "tags", "size": 1}),
		c06Agg("n", "histogram", c06m{"field": "age", "interval": 2}), c06Agg("n", "histogram", c06m{"field": "nofield", "interval": 1}),
		c06Agg("n", "histogram", c06m{"field": "age"}), c06Agg("n", "histogram", c06m{"field": "name", "interval": 1}),
		c06Agg("n", "percentile", c06m{"field": "age", "percents": c06a{50, 101, -1}}), c06Agg("n", "percentile", c06m{"field": "nofield"}),
		c06Agg("n", "field", c06m{"field": "nest"}), c06Agg("n", "field", c06m{"field": "$"}),
		c06Agg("n", "type", c06m{"field": "age"}), c06Agg("n", "count", c06m{}),
		{"name": "n"}, {},
	}
	starts := [][]interface{}{
		{c06m{"v": c06a{}}}, {c06m{"e": c06a{}}}, {c06m{"v": c06a{"nope"}}},
		{c06m{"v": c06a{}}, c06m{"outNull": c06a{}}}, {c06m{"v": c06a{}}, c06m{"hasLabel": c06a{"none"}}},
	}
	for _, st := range starts {
		out = append(out, c06Query(append(append([]interface{}{}, st...), c06m{"aggregate": c06m{}})...))
		for _, k := range kinds {
			out = append(out, c06Query(append(append([]interface{}{}, st...), c06Aggregate(k))...))
			r.Count("fam:agg.single")
			for _, k2 := range kinds {
				if full || r.Rng.Intn(12) == 0 {
					// same name twice
					out = append(out, c06Query(append(append([]interface{}{}, st...), c06Aggregate(k, k2))...))
					r.Count("fam:agg.duplicate")
					// distinct names
					k3 := c06m{}
					for a, b := range k2 {
						k3[a] = b
					}
					k3["name"] = "other"
					out = append(out, c06Query(append(append([]interface{}{}, st...), c06Aggregate(k, k3))...))
					r.Count("fam:agg.pair")
				}
			}
		}
	}
	return out
}

// negative ranges, limits, marks, reserved names, statements on graphs that do not exist
func c06FamMisc(r *Run, full bool) []c06m {
	out := []c06m{}
	for _, a := range []int{-5, -1, 0, 2} {
		for _, b := range []int{-5, -1, 0, 1} {
			out = append(out, c06Query(c06m{"v": c06a{}}, c06m{"range": c06m{"start": a, "stop": b}}))
			out = append(out, c06Query(c06m{"e": c06a{}}, c06m{"range": c06m{"start": a, "stop": b}}, c06m{"count": ""}))
			r.Count("fam:range")
		}
	}
	for _, q := range [][]interface{}{
		{}, {c06m{}}, {c06m{"out": c06a{}}}, {c06m{"count": ""}},
		{c06m{"v": c06a{}}, c06m{"as": ""}}, {c06m{"v": c06a{}}, c06m{"as": "__current__"}}, {c06m{"v": c06a{}}, c06m{"as": "a.b"}},
		{c06m{"v": c06a{}}, c06m{"select": c06m{}}}, {c06m{"v": c06a{}}, c06m{"select": c06m{"marks": c06a{"a", "a"}}}},
		{c06m{"v": c06a{}}, c06m{"select": c06m{"marks": c06a{"zz"}}}, c06m{"v": c06a{}}},
		{c06m{"v": c06a{}}, c06m{"limit": 4294967295}}, {c06m{"v": c06a{}}, c06m{"skip": 4294967295}},
		{c06m{"v": c06a{}}, c06m{"hasLabel": c06a{}}}, {c06m{"v": c06a{}}, c06m{"hasId": c06a{}}}, {c06m{"v": c06a{}}, c06m{"hasKey": c06a{}}},
		{c06m{"v": c06a{}}, c06m{"render": nil}}, {c06m{"v": c06a{}}, c06m{"render": 3}}, {c06m{"v": c06a{}}, c06m{"render": c06a{c06a{"$zz.x"}, c06m{"": ""}}}},
		{c06m{"v": c06a{}}, c06m{"unwind": ""}}, {c06m{"v": c06a{}}, c06m{"unwind": "$"}}, {c06m{"v": c06a{}}, c06m{"unwind": "nest"}}, {c06m{"v": c06a{}}, c06m{"unwind": "_gid"}},
		{c06m{"v": c06a{}}, c06m{"set": c06m{}}}, {c06m{"v": c06a{}}, c06m{"set": c06m{"key": "a.b.c", "value": c06m{"x": c06a{1}}}}},
		{c06m{"e": c06a{}}, c06m{"set": c06m{"key": "x", "value": 1}}, c06m{"count": ""}},
		{c06m{"e": c06a{}}, c06m{"increment": c06m{"key": "w", "value": -3}}, c06m{"count": ""}},
		{c06m{"v": c06a{}}, c06m{"increment": c06m{"key": "name"}}}, {c06m{"v": c06a{}}, c06m{"increment": c06m{}}},
		{c06m{"v": c06a{}}, c06m{"set": c06m{"key": "_gid", "value": nil}}}, {c06m{"v": c06a{}}, c06m{"increment": c06m{"key": "_label", "value": 1}}},
		{c06m{"v": c06a{}}, c06m{"fields": c06a{"-", "$zz.x", "a.b.c", "-nest.k", "_gid", "-_label"}}},
		// exclusion lists that name a property and, before or after it, something below it
		{c06m{"v": c06a{}}, c06m{"fields": c06a{"-nest", "-nest.k"}}}, {c06m{"v": c06a{}}, c06m{"fields": c06a{"-nest.k", "-nest"}}},
		{c06m{"v": c06a{}}, c06m{"fields": c06a{"-_data", "-nest.k"}}}, {c06m{"v": c06a{}}, c06m{"fields": c06a{"-tags", "-tags.0", "-name.x"}}},
		{c06m{"e": c06a{}}, c06m{"fields": c06a{"-w", "-w.x", "-tags", "-tags.k"}}}, {c06m{"v": c06a{}}, c06m{"fields": c06a{"-nest", "-nest.k", "-nest.k.z", "name"}}},
		{c06m{"v": c06a{}}, c06m{"mark": ""}}, {c06m{"v": c06a{}}, c06m{"jump": c06m{}}},
		{c06m{"v": c06a{}}, c06m{"path": c06a{1, nil}}}, {c06m{"e": c06a{}}, c06m{"path": c06a{}}, c06m{"limit": 1}},
		{c06m{"v": c06a{}}, c06m{"as": "a"}, c06m{"outE": c06a{}}, c06m{"as": "a"}, c06m{"select": c06m{"marks": c06a{"a"}}}, c06m{"out": c06a{}}},
		{c06m{"e": c06a{}}, c06m{"as": "a"}, c06m{"outNull": c06a{}}, c06m{"as": "b"}, c06m{"select": c06m{"marks": c06a{"a", "b"}}}},
		{c06m{"e": c06a{}}, c06m{"as": "a"}, c06m{"hasLabel": c06a{"knows"}}, c06m{"out": c06a{}}, c06m{"as": "b"}, c06m{"count": ""}, c06m{"select": c06m{"marks": c06a{"a", "b"}}}},
	} {
		c06CheckStmts(c06a(q))
		out = append(out, c06m{"op": "query", "g": "g", "q": c06a(q)})
		r.Count("fam:misc")
	}
	// rows WITHOUT a current element (what a *Null move from a vertex emits when it finds nothing),
	// marked, selected, rendered, aggregated, filtered on the mark: every consumer of a nil element
	for _, nm := range []c06m{{"outNull": c06a{}}, {"outNull": c06a{"nolabel"}}, {"inNull": c06a{"nolabel"}},
		{"outENull": c06a{"nolabel"}}, {"inENull": c06a{"nolabel"}}, {"outENull": c06a{}}, {"inENull": c06a{}}} {
		for _, tail := range [][]c06m{
			{{"as": "b"}, {"select": c06m{"marks": c06a{"a", "b"}}}},
			{{"as": "b"}, {"select": c06m{"marks": c06a{"b"}}}},
			{{"as": "b"}, {"select": c06m{"marks": c06a{"b", "a"}}}, {"count": ""}},
			{{"as": "b"}, {"out": c06a{}}, {"select": c06m{"marks": c06a{"a", "b"}}}},
			{{"as": "b"}, {"has": c06m{"condition": c06m{"key": "$b.age", "value": 1, "condition": "GT"}}}},
			{{"as": "b"}, {"render": c06m{"x": "$b.name", "y": "$a._gid", "z": "name"}}},
			{{"as": "b"}, {"path": c06a{}}},
			{{"as": "b"}, {"distinct": c06a{"$b._gid"}}},
			{{"render": c06m{"n": "name"}}}, {{"fields": c06a{"name"}}}, {{"unwind": "tags"}}, {{"distinct": c06a{"name"}}},
			{{"aggregate": c06m{"aggregations": c06a{c06m{"name": "t", "term": c06m{"field": "_label"}}}}}},
			{{"hasKey": c06a{"name"}}}, {{"hasId": c06a{""}}}, {{"hasLabel": c06a{""}}},
		} {
			q := append(c06a{c06m{"v": c06a{}}, c06m{"as": "a"}, nm}, func() c06a {
				o := c06a{}
				for _, t := range tail {
					o = append(o, t)
				}
				return o
			}()...)
			c06CheckStmts(q)
			out = append(out, c06m{"op": "query", "g": "g", "q": q})
			r.Count("fam:nullmark")
		}
	}
	// graphs that do not exist
	for _, g := range []string{"nope", "", "g__schema__", "a/b"} {
		out = append(out, c06m{"op": "query", "g": g, "q": c06a{c06m{"v": c06a{}}}})
		out = append(out, c06m{"op": "query", "g": g, "q": c06a{}})
		for _, k := range []string{"delV", "delE", "getV", "getE"} {
			out = append(out, c06m{"op": k, "g": g, "id": "a"})
		}
		r.Count("fam:missing-graph")
	}
	for _, k := range []string{"delV", "delE", "getV", "getE"} {
		out = append(out, c06m{"op": k, "g": "g", "id": "nope"}, c06m{"op": k, "g": "g", "id": ""})
	}
	return out
}

// elements for graphs that do not exist; incomplete and invalid elements
func c06Elements() []c06m {
	graphs := []string{"g", "nope", "", "g__schema__", "other"}
	out := []c06m{}
	for _, g := range graphs {
		out = append(out,
			c06m{"graph": g, "vertex": c06V("n1", "L", c06m{"k": 1})},
			c06m{"graph": g, "edge": c06E("ne1", "l", "n1", "a", nil)},
			c06m{"graph": g},
			c06m{"graph": g, "vertex": c06m{}},
			c06m{"graph": g, "edge": c06m{"label": "l"}},
			c06m{"graph": g, "vertex": c06V("n2", "L", c06m{"a.b": 1})},
			c06m{"graph": g, "vertex": c06V("n3", "L", nil), "edge": c06E("", "l", "n3", "n3", nil)},
		)
	}
	return out
}

func c06FamEdit(r *Run, full bool) []c06m {
	out := []c06m{}
	els := c06Elements()
	for _, el := range els {
		out = append(out, c06m{"op": "addV", "el": el}, c06m{"op": "addE", "el": el})
		out = append(out, c06m{"op": "bulk", "els": c06a{el}})
		r.Count("fam:edit.single")
	}
	out = append(out, c06m{"op": "bulk", "els": c06a{}})
	n := 40
	if full {
		n = 400
	}
	for i := 0; i < n; i++ {
		k := 2 + r.Rng.Intn(5)
		l := c06a{}
		for j := 0; j < k; j++ {
			l = append(l, Pick(r.Rng, els))
		}
		out = append(out, c06m{"op": "bulk", "els": l})
		r.Count("fam:edit.bulk")
	}
	// all pairs: the stream switching has a two-element memory
	for _, a := range els {
		for _, b := range els {
			if full || r.Rng.Intn(16) == 0 {
				out = append(out, c06m{"op": "bulk", "els": c06a{a, b}})
				r.Count("fam:edit.bulk.pair")
			}
		}
	}
	return out
}

func c06FamRandom(r *Run, n int) []c06m {
	out := []c06m{}
	al := append(c06Alphabet(), c06NullSteps...)
	for i := 0; i < n; i++ {
		k := 1 + r.Rng.Intn(6)
		q := []interface{}{Pick(r.Rng, []c06m{{"v": c06a{}}, {"e": c06a{}}, {"v": c06a{"a", "d"}}})}
		for j := 0; j < k; j++ {
			q = append(q, Pick(r.Rng, al))
		}
		if r.Rng.Intn(30) == 0 {
			q = append(q, Pick(r.Rng, c06Distinct))
		}
		out = append(out, c06Query(q...))
		r.Count("fam:random")
	}
	return out
}

func c06Gen(r *Run) {
	if r.Mode == "worker" {
		panic("C06 worker needs -replay")
	}
	full := r.Tier == "thorough"
	r.Rule = "distinct statement-kind sequences / edit shapes executed in a worker"
	graphs := []c06m{c06WitnessGraph(), c06EmptyGraph()}
	ng := 1
	if full {
		ng = 3
	}
	for i := 0; i < ng; i++ {
		graphs = append(graphs, c06RandomGraph(r.Rng))
	}
	var cases []c06Case
	for gi, g := range graphs {
		reset := c06m{"op": "reset", "graph": g}
		var fams [][]c06m
		if gi < 2 {
			fams = [][]c06m{c06FamNull(r, full), c06FamNoCurrent(r, full), c06FamHas(r, full), c06FamAgg(r, full), c06FamMisc(r, full), c06FamEdit(r, full)}
			if gi == 1 && !full {
				// empty graph, quick tier: the families whose behaviour depends on the input being empty
				fams = [][]c06m{c06FamAgg(r, false), c06FamMisc(r, false), c06FamEdit(r, false)}
			}
			nr := 100
			if full {
				nr = 1500
			}
			fams = append(fams, c06FamRandom(r, nr))
		} else {
			nr := 120
			if full {
				nr = 1200
			}
			fams = [][]c06m{c06FamRandom(r, nr)}
			if full {
				fams = append(fams, c06FamNull(r, false))
			}
		}
		for _, f := range fams {
			// one case per ~250 ops so that workers run in parallel
			for i := 0; i < len(f); i += 250 {
				end := i + 250
				if end > len(f) {
					end = len(f)
				}
				cases = append(cases, c06Case{reset: reset, ops: f[i:end]})
			}
			for _, op := range f {
				if q, ok := op["q"].(c06a); ok {
					r.NonTrivial(c06Key(q))
				} else {
					b, _ := json.Marshal(op)
					r.NonTrivial(string(b))
				}
			}
		}
	}
	if len(cases) > 0 && len(cases[0].ops) > 0 {
		r.AddSample(cases[0].ops[0])
	}
	c06RunCases(r, cases)
}
