package hx

// C11 — jobs faithfully store, resume and find traversals.
//
// The harness drives the real Job service handlers of server.GripServer in-process (Submit,
// GetJob, ViewJob, ResumeJob, SearchJobs, ListJobs, DeleteJob — server/job_manager.go) over an
// embedded kvgraph (Badger) and a real jobstorage.FSResults in a scratch directory, and the direct
// traversal path (graph.Compiler().Compile + pipeline.Run, what server.Traversal does).
//
// Line protocol (a case starts with reset):
//   {"op":"reset","graphs":[{"name":g,"vertices":[…],"edges":[…]},…]}      → {"ok":true}
//   {"op":"submit","graph":g,"q":[stmts],"trav":[<tagged traveler JSON>…]} →
//        {"job":k,"state":"COMPLETE","count":n,"rows":[…],"stored":[…],"direct_eq":true} | {"err":"compile"}
//        `trav` is filled in by the harness: the travelers an independent direct pipeline.Start of
//        the same traversal produced, encoded field by field (c11TravJSON — not json.Marshal),
//        in the order of the job's result file when the multisets agree.
//        `stored`: the lines of the job's result file; `rows`: what ViewJob sends; `count`: the
//        count GetJob reports; `direct_eq`: ViewJob rows = rows of the direct traversal (multiset).
//   {"op":"view","job":k}    → {"rows":[…]}
//   {"op":"status","job":k}  → {"state":s,"count":n} | {"err":"notfound"}
//   {"op":"resume","job":k,"b":[stmts],"cmp":"model"|"meta"} →
//        {"rows":[…](cmp=model only),"concat_eq":true} | {"err":"compile"|"notfound"}
//        `concat_eq`: ResumeJob rows = rows of the direct traversal of job.q ++ b (multiset).
//   {"op":"search","graph":g,"q":[stmts]} → {"jobs":[k…]}       (sorted job indices)
//   {"op":"list","graph":g}               → {"jobs":[k…]}
//   {"op":"delete","job":k}               → {"ok":true,"dir":false}
//   {"op":"restart"}                      → {"ok":true}   (new FSJobStorage + server on the same directory)
// Job ids are temp-dir names; the protocol speaks of the k-th successfully submitted job of the case.

import (
	"bufio"
	"bytes"
	"context"
	"encoding/json"
	"fmt"
	"math/rand"
	"os"
	"path/filepath"
	"sort"
	"strconv"
	"strings"
	"time"

	"github.com/bmeg/grip/config"
	"github.com/bmeg/grip/engine"
	"github.com/bmeg/grip/engine/pipeline"
	"github.com/bmeg/grip/gdbi"
	"github.com/bmeg/grip/gripql"
	"github.com/bmeg/grip/jobstorage"
	"github.com/bmeg/grip/server"
	"google.golang.org/grpc"
)

type c11Stmt = map[string]interface{}

type c11Job struct {
	graph string
	id    string
	q     []interface{}
}

type c11Env struct {
	eng     *Eng
	srv     *server.GripServer
	base    string // scratch directory of the run
	workDir string // server work dir of the case (jobs live in workDir/jobs)
	caseN   int
	names   map[string]string // protocol graph name → real graph name (unique per case)
	jobs    []c11Job
}

// ---------- fake gRPC server streams ----------

type c11Stream struct{ grpc.ServerStream }

func (c11Stream) Context() context.Context { return context.Background() }

type c11RowStream struct {
	c11Stream
	rows []*gripql.QueryResult
}

func (s *c11RowStream) Send(r *gripql.QueryResult) error { s.rows = append(s.rows, r); return nil }

// c11SlowStream: a client that takes its time with every row
type c11SlowStream struct {
	c11Stream
	rows  []*gripql.QueryResult
	pause time.Duration
}

func (s *c11SlowStream) Send(r *gripql.QueryResult) error {
	time.Sleep(s.pause)
	s.rows = append(s.rows, r)
	return nil
}

type c11JobStream struct {
	c11Stream
	jobs []*gripql.QueryJob
}

func (s *c11JobStream) Send(r *gripql.QueryJob) error { s.jobs = append(s.jobs, r); return nil }

type c11StatusStream struct {
	c11Stream
	ids []string
}

func (s *c11StatusStream) Send(r *gripql.JobStatus) error { s.ids = append(s.ids, r.Id); return nil }

// c11Timeout runs f with a deadline; false when it did not return in time (or panicked).
func c11Timeout(d time.Duration, f func()) (ok bool) {
	done := make(chan bool, 1)
	go func() {
		defer func() {
			if p := recover(); p != nil {
				done <- false
			}
		}()
		f()
		done <- true
	}()
	select {
	case v := <-done:
		return v
	case <-time.After(d):
		return false
	}
}

const c11Deadline = 30 * time.Second

// ---------- environment ----------

func (c *c11Env) newServer() error {
	conf := config.DefaultConfig()
	conf.Server.WorkDir = c.workDir
	conf.Default = "kv"
	srv, err := server.NewGripServer(conf, c.base, map[string]gdbi.GraphDB{"kv": c.eng.DB})
	if err != nil {
		return err
	}
	srv.C11SetJobStorage(jobstorage.NewFSJobStorage(filepath.Join(c.workDir, "jobs")))
	c.srv = srv
	return nil
}

func (c *c11Env) reset(op map[string]interface{}) error {
	c.caseN++
	c.names = map[string]string{}
	c.jobs = nil
	if c.workDir != "" {
		os.RemoveAll(c.workDir)
	}
	c.workDir = filepath.Join(c.base, fmt.Sprintf("work%d", c.caseN))
	os.MkdirAll(c.workDir, 0o755)
	gs, _ := op["graphs"].([]interface{})
	for _, gi := range gs {
		g, _ := gi.(map[string]interface{})
		name, _ := g["name"].(string)
		real := fmt.Sprintf("c%d%s", c.caseN, name)
		c.names[name] = real
		vs, _ := g["vertices"].([]interface{})
		es, _ := g["edges"].([]interface{})
		if err := c.eng.LoadGraph(real, vs, es); err != nil {
			return err
		}
	}
	return c.newServer()
}

func (c *c11Env) graphName(op map[string]interface{}) string {
	n, _ := op["graph"].(string)
	if r, ok := c.names[n]; ok {
		return r
	}
	return fmt.Sprintf("c%d%s", c.caseN, n)
}

func (c *c11Env) jobIndex(graph, id string) int {
	for i, j := range c.jobs {
		if j.id == id && j.graph == graph {
			return i
		}
	}
	return -1
}

func c11List(v interface{}) []interface{} {
	xs, _ := v.([]interface{})
	return xs
}

// ---------- traveler encoding (field by field; the shape encoding/json gives BaseTraveler) ----------

func c11ElemJSON(e *gdbi.DataElement) interface{} {
	if e == nil {
		return nil
	}
	var data interface{}
	if e.Data != nil {
		data = map[string]interface{}(e.Data)
	}
	return map[string]interface{}{"ID": e.ID, "Label": e.Label, "From": e.From, "To": e.To, "Data": data, "Loaded": e.Loaded}
}

func c11TravJSON(t *gdbi.BaseTraveler) map[string]interface{} {
	marks := map[string]interface{}{}
	for k, v := range t.Marks {
		marks[k] = c11ElemJSON(v)
	}
	var sel interface{}
	if t.Selections != nil {
		m := map[string]interface{}{}
		for k, v := range t.Selections {
			m[k] = c11ElemJSON(v)
		}
		sel = m
	}
	var agg interface{}
	if t.Aggregation != nil {
		agg = map[string]interface{}{"Name": t.Aggregation.Name, "Key": t.Aggregation.Key, "Value": t.Aggregation.Value}
	}
	path := []interface{}{}
	for _, p := range t.Path {
		path = append(path, map[string]interface{}{"Vertex": p.Vertex, "Edge": p.Edge})
	}
	var sig interface{}
	if t.Signal != nil {
		sig = map[string]interface{}{"Dest": t.Signal.Dest, "ID": float64(t.Signal.ID)}
	}
	return map[string]interface{}{"Current": c11ElemJSON(t.Current), "Marks": marks, "Selections": sel,
		"Aggregation": agg, "Count": float64(t.Count), "Render": t.Render, "Path": path, "Signal": sig}
}

// c11NormLine: a decoded result-file line with Go's nil map / nil slice (`null`) for Marks and Path
// read as the empty map / list (the MODEL's traveler has lists there).
func c11NormLine(m map[string]interface{}) map[string]interface{} {
	if m["Marks"] == nil {
		m["Marks"] = map[string]interface{}{}
	}
	if m["Path"] == nil {
		m["Path"] = []interface{}{}
	}
	return m
}

// c11Plain: values as decoded JSON has them (float64 numbers, generic containers).
func c11Plain(v interface{}) (interface{}, error) {
	b, err := json.Marshal(v)
	if err != nil {
		return nil, err
	}
	var out interface{}
	err = json.Unmarshal(b, &out)
	return out, err
}

func c11TagSafe(v interface{}) (out interface{}, err error) {
	defer func() {
		if p := recover(); p != nil {
			err = fmt.Errorf("%v", p)
		}
	}()
	p, err := c11Plain(v)
	if err != nil {
		return nil, err
	}
	return Tag(p), nil
}

func c11Key(v interface{}) string {
	b, _ := json.Marshal(v)
	return string(b)
}

func c11SortByKey(xs []interface{}) []interface{} {
	out := append([]interface{}{}, xs...)
	sort.SliceStable(out, func(a, b int) bool { return c11Key(out[a]) < c11Key(out[b]) })
	return out
}

func c11SameList(a, b []interface{}) bool {
	if len(a) != len(b) {
		return false
	}
	for i := range a {
		if c11Key(a[i]) != c11Key(b[i]) {
			return false
		}
	}
	return true
}

// c11DirectTravelers: an independent direct run of the traversal, travelers kept (signals dropped
// as pipeline.Run does).
func (c *c11Env) directTravelers(graph string, stmts []*gripql.GraphStatement) ([]*gdbi.BaseTraveler, error) {
	g, err := c.eng.DB.Graph(graph)
	if err != nil {
		return nil, err
	}
	pipe, err := g.Compiler().Compile(stmts, nil)
	if err != nil {
		return nil, err
	}
	var out []*gdbi.BaseTraveler
	ok := c11Timeout(c11Deadline, func() {
		man := engine.NewManager(c.workDir)
		for t := range pipeline.Start(context.Background(), pipe, man, 5000, nil, nil) {
			if !t.IsSignal() {
				if bt, isBase := t.(*gdbi.BaseTraveler); isBase {
					out = append(out, bt)
				}
			}
		}
		man.Cleanup()
	})
	if !ok {
		return nil, fmt.Errorf("timeout")
	}
	return out, nil
}

func (c *c11Env) resultLines(graph, id string) ([]interface{}, error) {
	f, err := os.Open(filepath.Join(c.workDir, "jobs", strings.ToLower(graph), id, "results"))
	if err != nil {
		return nil, err
	}
	defer f.Close()
	out := []interface{}{}
	sc := bufio.NewScanner(f)
	sc.Buffer(make([]byte, 1<<20), 1<<26)
	for sc.Scan() {
		var m map[string]interface{}
		if err := json.Unmarshal(sc.Bytes(), &m); err != nil {
			out = append(out, map[string]interface{}{"undecodable": string(sc.Bytes())})
			continue
		}
		t, err := c11TagSafe(c11NormLine(m))
		if err != nil {
			return nil, err
		}
		out = append(out, t)
	}
	return out, sc.Err()
}

func (c *c11Env) waitComplete(graph, id string) (*gripql.JobStatus, bool) {
	deadline := time.Now().Add(c11Deadline)
	for {
		st, err := c.srv.GetJob(context.Background(), &gripql.QueryJob{Graph: graph, Id: id})
		if err == nil && st.State == gripql.JobState_COMPLETE {
			return st, true
		}
		if time.Now().After(deadline) {
			return st, false
		}
		time.Sleep(2 * time.Millisecond)
	}
}

func (c *c11Env) view(graph, id string) ([]*gripql.QueryResult, bool) {
	s := &c11RowStream{}
	ok := c11Timeout(c11Deadline, func() { c.srv.ViewJob(&gripql.QueryJob{Graph: graph, Id: id}, s) })
	return s.rows, ok
}

func c11Skip(why string) map[string]interface{} {
	return map[string]interface{}{"skip": true, "why": why}
}

// ---------- operations ----------

// exec runs one op on the real code; it returns the op as it must be written (derived fields
// such as `trav` filled in from this run) and the observation.
func (c *c11Env) exec(op map[string]interface{}) (map[string]interface{}, map[string]interface{}) {
	kind, _ := op["op"].(string)
	switch kind {
	case "reset":
		if err := c.reset(op); err != nil {
			return op, map[string]interface{}{"bad": "reset: " + err.Error()}
		}
		return op, map[string]interface{}{"ok": true}

	case "submit":
		graph := c.graphName(op)
		q := c11List(op["q"])
		stmts, err := StmtsFromJSON(q)
		if err != nil {
			return op, c11Skip("decode")
		}
		direct := c.eng.RunQuery(graph, stmts, c11Deadline)
		if direct.TimedOut || direct.Panic != "" {
			return op, c11Skip("direct run failed")
		}
		var job *gripql.QueryJob
		var serr error
		if !c11Timeout(c11Deadline, func() {
			job, serr = c.srv.Submit(context.Background(), &gripql.GraphQuery{Graph: graph, Query: stmts})
		}) {
			return op, map[string]interface{}{"timeout": "submit"}
		}
		if direct.Err != nil || serr != nil {
			if direct.Err != nil && serr != nil {
				return op, map[string]interface{}{"err": "compile"}
			}
			return op, map[string]interface{}{"err": "mixed", "direct": direct.Err != nil, "submit": serr != nil}
		}
		k := len(c.jobs)
		c.jobs = append(c.jobs, c11Job{graph: graph, id: job.Id, q: q})
		st, done := c.waitComplete(graph, job.Id)
		if !done {
			return op, map[string]interface{}{"job": k, "timeout": "complete"}
		}
		lines, err := c.resultLines(graph, job.Id)
		if err != nil {
			fmt.Fprintln(os.Stderr, "c11: result lines:", err)
			return op, c11Skip("lines")
		}
		travs, err := c.directTravelers(graph, stmts)
		if err != nil {
			fmt.Fprintln(os.Stderr, "c11: travelers:", err)
			return op, c11Skip("travelers")
		}
		tl := make([]interface{}, 0, len(travs))
		for _, t := range travs {
			x, err := c11TagSafe(c11TravJSON(t))
			if err != nil {
				return op, c11Skip("inexact number in traveler")
			}
			tl = append(tl, x)
		}
		// hand the travelers over in the result file's order when the multisets agree
		if c11SameList(c11SortByKey(tl), c11SortByKey(lines)) && !c11SameList(tl, lines) {
			tl = append([]interface{}{}, lines...)
		}
		rows, ok := c.view(graph, job.Id)
		if !ok {
			return op, map[string]interface{}{"job": k, "timeout": "view"}
		}
		vrows := CanonRows(rows, true)
		drows := CanonRows(direct.Rows, true)
		out := map[string]interface{}{"job": k, "state": st.State.String(), "count": st.Count,
			"rows": vrows, "stored": c11SortByKey(lines), "direct_eq": c11SameList(vrows, drows)}
		nop := map[string]interface{}{}
		for key, v := range op {
			nop[key] = v
		}
		nop["trav"] = tl
		return nop, out

	case "view":
		j, ok := c.jobOf(op)
		if !ok {
			return op, c11Skip("no such job index")
		}
		rows, fin := c.view(j.graph, j.id)
		if !fin {
			return op, map[string]interface{}{"timeout": "view"}
		}
		return op, map[string]interface{}{"rows": CanonRows(rows, true)}

	case "status":
		j, ok := c.jobOf(op)
		if !ok {
			return op, c11Skip("no such job index")
		}
		st, err := c.srv.GetJob(context.Background(), &gripql.QueryJob{Graph: j.graph, Id: j.id})
		if err != nil {
			return op, map[string]interface{}{"err": "notfound"}
		}
		return op, map[string]interface{}{"state": st.State.String(), "count": st.Count}

	case "resume":
		j, ok := c.jobOf(op)
		if !ok {
			return op, c11Skip("no such job index")
		}
		b := c11List(op["b"])
		bst, err := StmtsFromJSON(b)
		if err != nil || len(bst) == 0 {
			return op, c11Skip("decode")
		}
		s := &c11RowStream{}
		var rerr error
		if !c11Timeout(c11Deadline, func() {
			rerr = c.srv.ResumeJob(&gripql.ExtendQuery{Graph: j.graph, SrcId: j.id, Query: bst}, s)
		}) {
			return op, map[string]interface{}{"timeout": "resume"}
		}
		if rerr != nil {
			if strings.Contains(rerr.Error(), "Not Found") || strings.Contains(rerr.Error(), "not complete") {
				return op, map[string]interface{}{"err": "notfound"}
			}
			return op, map[string]interface{}{"err": "compile"}
		}
		whole, err := StmtsFromJSON(append(append([]interface{}{}, j.q...), b...))
		if err != nil {
			return op, c11Skip("decode")
		}
		direct := c.eng.RunQuery(j.graph, whole, c11Deadline)
		if direct.TimedOut || direct.Panic != "" {
			return op, c11Skip("direct run failed")
		}
		if direct.Err != nil {
			return op, map[string]interface{}{"err": "mixed", "direct": true, "resume": false}
		}
		rrows := CanonRows(s.rows, true)
		drows := CanonRows(direct.Rows, true)
		out := map[string]interface{}{"concat_eq": c11SameList(rrows, drows)}
		if cmp, _ := op["cmp"].(string); cmp == "model" {
			out["rows"] = rrows
		}
		return op, out

	case "search":
		graph := c.graphName(op)
		stmts, err := StmtsFromJSON(c11List(op["q"]))
		if err != nil {
			return op, c11Skip("decode")
		}
		s := &c11StatusStream{}
		if !c11Timeout(c11Deadline, func() { c.srv.SearchJobs(&gripql.GraphQuery{Graph: graph, Query: stmts}, s) }) {
			return op, map[string]interface{}{"timeout": "search"}
		}
		return op, map[string]interface{}{"jobs": c.indices(graph, s.ids)}

	case "list":
		graph := c.graphName(op)
		s := &c11JobStream{}
		if !c11Timeout(c11Deadline, func() { c.srv.ListJobs(&gripql.GraphID{Graph: graph}, s) }) {
			return op, map[string]interface{}{"timeout": "list"}
		}
		ids := []string{}
		for _, j := range s.jobs {
			ids = append(ids, j.Id)
		}
		return op, map[string]interface{}{"jobs": c.indices(graph, ids)}

	case "delete":
		j, ok := c.jobOf(op)
		if !ok {
			return op, c11Skip("no such job index")
		}
		_, err := c.srv.DeleteJob(context.Background(), &gripql.QueryJob{Graph: j.graph, Id: j.id})
		if err != nil {
			return op, map[string]interface{}{"err": "delete"}
		}
		_, serr := os.Stat(filepath.Join(c.workDir, "jobs", strings.ToLower(j.graph), j.id))
		return op, map[string]interface{}{"ok": true, "dir": serr == nil}

	case "crashcopy":
		// what a crash would leave: `rounds` jobs are submitted, polled without a pause, and at the
		// FIRST poll that reads COMPLETE the job's directory is looked at as a restart would find it —
		// the status file must parse (NewFSJobStorage skips one that does not), say COMPLETE with the
		// count the client was told, and the results file must hold that many lines
		graph := c.graphName(op)
		stmts, err := StmtsFromJSON(c11List(op["q"]))
		if err != nil {
			return op, c11Skip("decode")
		}
		rounds := 100
		if f, ok := op["rounds"].(float64); ok && f >= 1 {
			rounds = int(f)
		} else if n, ok := op["rounds"].(int); ok && n >= 1 {
			rounds = n
		}
		lost := 0
		why := ""
		for i := 0; i < rounds; i++ {
			job, serr := c.srv.Submit(context.Background(), &gripql.GraphQuery{Graph: graph, Query: stmts})
			if serr != nil {
				return op, map[string]interface{}{"err": "compile"}
			}
			deadline := time.Now().Add(c11Deadline)
			var st *gripql.JobStatus
			for {
				s1, gerr := c.srv.GetJob(context.Background(), &gripql.QueryJob{Graph: graph, Id: job.Id})
				if gerr == nil && s1.State == gripql.JobState_COMPLETE {
					st = s1
					break
				}
				if time.Now().After(deadline) {
					return op, map[string]interface{}{"timeout": "complete"}
				}
			}
			dir := filepath.Join(c.workDir, "jobs", strings.ToLower(graph), job.Id)
			sb, _ := os.ReadFile(filepath.Join(dir, "status"))
			rb, _ := os.ReadFile(filepath.Join(dir, "results"))
			var onDisk struct {
				Status struct {
					State interface{} `json:"state"`
					Count interface{} `json:"count"`
				}
			}
			bad := ""
			if jerr := json.Unmarshal(sb, &onDisk); jerr != nil {
				bad = "status file does not parse (" + strconv.Itoa(len(sb)) + " bytes)"
			} else if fmt.Sprint(onDisk.Status.State) != "2" && fmt.Sprint(onDisk.Status.State) != "COMPLETE" {
				bad = "status file says state " + fmt.Sprint(onDisk.Status.State)
			} else if lines := uint64(bytes.Count(rb, []byte("\n"))); lines != st.Count {
				bad = fmt.Sprintf("results file holds %d lines, the client was told %d", lines, st.Count)
			}
			if bad != "" {
				lost++
				why = bad
			}
			c.srv.DeleteJob(context.Background(), &gripql.QueryJob{Graph: graph, Id: job.Id})
		}
		if lost > 0 {
			return op, map[string]interface{}{"lost": lost, "why": why}
		}
		return op, map[string]interface{}{"lost": 0}

	case "bigview":
		// a job whose rows are LARGE (n vertices carrying a property of `kb` KiB each: a result file of
		// tens of MiB, beyond the 32 MiB scan buffer of FSResults.Stream) read back by a SLOW client: every
		// row must come back as it was stored (seed C11-l: rows handed to the decoders as slices of the
		// scan buffer are overwritten when the scanner refills it).  The rows never travel over the line
		// protocol: the harness compares them with what it stored and reports counts only.
		n, kb := 80, 512
		if f, ok := op["n"].(float64); ok {
			n = int(f)
		} else if i, ok := op["n"].(int); ok {
			n = i
		}
		if f, ok := op["kb"].(float64); ok {
			kb = int(f)
		} else if i, ok := op["kb"].(int); ok {
			kb = i
		}
		graph := c.graphName(op)
		want := map[string]string{}
		verts := []interface{}{}
		for i := 0; i < n; i++ {
			id := fmt.Sprintf("big%04d", i)
			p := strings.Repeat(fmt.Sprintf("%04d|", i), kb*1024/5)
			want[id] = p
			verts = append(verts, map[string]interface{}{"gid": id, "label": "Big", "data": map[string]interface{}{"p": p}})
		}
		if err := c.eng.LoadGraph(graph, verts, nil); err != nil {
			return op, map[string]interface{}{"bad": "bigview load: " + err.Error()}
		}
		job, serr := c.srv.Submit(context.Background(), &gripql.GraphQuery{Graph: graph,
			Query: []*gripql.GraphStatement{{Statement: &gripql.GraphStatement_V{}}}})
		if serr != nil {
			return op, map[string]interface{}{"err": "compile"}
		}
		// 40 MiB to spool: up to six deadlines on a loaded machine
		done := false
		for try := 0; try < 6 && !done; try++ {
			_, done = c.waitComplete(graph, job.Id)
		}
		if !done {
			return op, map[string]interface{}{"timeout": "complete"}
		}
		slow := &c11SlowStream{pause: 15 * time.Millisecond}
		if !c11Timeout(8*c11Deadline, func() { c.srv.ViewJob(&gripql.QueryJob{Graph: graph, Id: job.Id}, slow) }) {
			return op, map[string]interface{}{"timeout": "view"}
		}
		bad, seen := 0, map[string]int{}
		for _, r := range slow.rows {
			v := r.GetVertex()
			if v == nil {
				bad++
				continue
			}
			seen[v.Gid]++
			got, _ := v.Data.AsMap()["p"].(string)
			if w, ok := want[v.Gid]; !ok || got != w {
				bad++
			}
		}
		for id := range want {
			if seen[id] != 1 {
				bad++
			}
		}
		c.srv.DeleteJob(context.Background(), &gripql.QueryJob{Graph: graph, Id: job.Id})
		return op, map[string]interface{}{"n": len(slow.rows), "differ": bad}

	case "restart":
		if err := c.newServer(); err != nil {
			return op, map[string]interface{}{"bad": "restart: " + err.Error()}
		}
		return op, map[string]interface{}{"ok": true}
	}
	return op, map[string]interface{}{"bad": "unknown op"}
}

func (c *c11Env) jobOf(op map[string]interface{}) (c11Job, bool) {
	f, ok := op["job"].(float64)
	if !ok {
		if i, isInt := op["job"].(int); isInt {
			f, ok = float64(i), true
		}
	}
	if !ok || int(f) < 0 || int(f) >= len(c.jobs) {
		return c11Job{}, false
	}
	return c.jobs[int(f)], true
}

func (c *c11Env) indices(graph string, ids []string) []interface{} {
	ks := []int{}
	for _, id := range ids {
		ks = append(ks, c.jobIndex(graph, id))
	}
	sort.Ints(ks)
	out := []interface{}{}
	for _, k := range ks {
		out = append(out, k)
	}
	return out
}

// ---------- generators ----------

func c11Kind(s c11Stmt) string {
	for k := range s {
		return k
	}
	return ""
}

// c11Guard: a has-condition that keeps every element and makes the load elision load the step
// (inspect.PipelineStepOutputs marks a step with a `has` as "*").  Used so that data-reading
// steps (hasKey, render, fields, unwind, distinct, aggregate) never meet an unloaded element in
// either half of a split traversal or in the concatenation — planning/elision is C02's subject.
func c11Guard() c11Stmt { return c01Cond("_gid", "NEQ", "no-such-id") }

// c11Program: a well-typed traversal of about n steps in which every moving step is followed by
// a guard, so that all elements are loaded wherever they are read.
// final: "" (element rows), "count", "render", "path", "select", "aggregate".
func c11Program(r *rand.Rand, n int, final string) []c11Stmt {
	q := []c11Stmt{}
	typ := "V"
	marks := []string{}
	markTyp := map[string]string{}
	if r.Intn(3) == 0 {
		typ = "E"
		if r.Intn(4) == 0 {
			q = append(q, c11Stmt{"e": sl(Pick(r, []string{"e1", "e2", "e9"}), Pick(r, []string{"e3", "e1"}))})
		} else {
			q = append(q, c11Stmt{"e": sl()})
		}
	} else {
		if r.Intn(5) == 0 {
			q = append(q, c11Stmt{"v": sl(Pick(r, []string{"v1", "v2", "zz"}), Pick(r, []string{"v3", "v4"}))})
		} else {
			q = append(q, c11Stmt{"v": sl()})
		}
	}
	q = append(q, c11Guard())
	for tries := 0; len(q) < n && tries < 4*n; tries++ {
		c := r.Intn(16)
		switch {
		case c == 0:
			q = append(q, c11Stmt{"out": c01Labels(r, c01ELabels)}, c11Guard())
			typ = "V"
		case c == 1:
			q = append(q, c11Stmt{"in": c01Labels(r, c01ELabels)}, c11Guard())
			typ = "V"
		case c == 2:
			q = append(q, c11Stmt{"both": c01Labels(r, c01ELabels)}, c11Guard())
			typ = "V"
		case c == 3 && typ == "V":
			q = append(q, c11Stmt{"outE": c01Labels(r, c01ELabels)}, c11Guard())
			typ = "E"
		case c == 4 && typ == "V":
			q = append(q, c11Stmt{"inE": c01Labels(r, c01ELabels)}, c11Guard())
			typ = "E"
		case c == 5 && typ == "V":
			q = append(q, c11Stmt{"bothE": c01Labels(r, c01ELabels)}, c11Guard())
			typ = "E"
		case c == 6:
			q = append(q, c11Stmt{"has": c01HasExpr(r, 2, marks)})
		case c == 7:
			q = append(q, c11Stmt{"hasLabel": sl(Pick(r, c01VLabels), Pick(r, c01ELabels), Pick(r, c01VLabels))})
		case c == 8:
			q = append(q, c11Stmt{"hasId": sl(Pick(r, []string{"v1", "v2", "e1"}), Pick(r, []string{"v3", "e2", "v4"}), "v5", "e3")})
		case c == 9:
			q = append(q, c11Stmt{"hasKey": sl(Pick(r, c01Paths))})
		case c == 10 || c == 11:
			m := Pick(r, []string{"a", "b", "c"})
			q = append(q, c11Stmt{"as": m})
			if markTyp[m] == "" {
				marks = append(marks, m)
			}
			markTyp[m] = typ
		case c == 12 && len(marks) > 0:
			m := Pick(r, marks)
			q = append(q, c11Stmt{"select": map[string]interface{}{"marks": sl(m)}}, c11Guard())
			typ = markTyp[m]
		case c == 13:
			q = append(q, c11Stmt{"unwind": Pick(r, []string{"tags", "tags", "x", "missing"})})
		case c == 14:
			q = append(q, c11Stmt{"fields": sl(Pick(r, []string{"name", "x", "tags", "-name", "nested"}))})
		case c == 15:
			switch r.Intn(3) {
			case 0:
				q = append(q, c11Stmt{"limit": 1 + r.Intn(6)})
			case 1:
				q = append(q, c11Stmt{"skip": r.Intn(3)})
			case 2:
				q = append(q, c11Stmt{"range": map[string]interface{}{"start": r.Intn(3), "stop": 2 + r.Intn(6)}})
			}
		}
	}
	switch final {
	case "count":
		q = append(q, c11Stmt{"count": ""})
	case "render":
		q = append(q, c11Stmt{"render": c01Template(r, 2, marks)})
	case "path":
		q = append(q, c11Stmt{"path": sl()})
	case "select":
		if len(marks) == 0 {
			q = append(q, c11Stmt{"as": "a"})
			marks = append(marks, "a")
		}
		q = append(q, c11Stmt{"as": "z"})
		q = append(q, c11Stmt{"select": map[string]interface{}{"marks": sl(Pick(r, marks), "z")}})
	case "aggregate":
		aggs := []interface{}{
			map[string]interface{}{"name": "t", "term": map[string]interface{}{"field": Pick(r, []string{"name", "_label", "x"})}},
		}
		if r.Intn(2) == 0 {
			aggs = append(aggs, map[string]interface{}{"name": "c", "count": map[string]interface{}{}})
		}
		q = append(q, c11Stmt{"aggregate": map[string]interface{}{"aggregations": aggs}})
	}
	return q
}

var c11Finals = []string{"", "", "count", "render", "path", "select", "aggregate"}

// c11ModelKinds: statement kinds the Lean step semantics (Grip.Model.Eval, C01) gives a meaning to.
var c11ModelKinds = map[string]bool{"v": true, "e": true, "in": true, "out": true, "both": true, "inE": true, "outE": true,
	"bothE": true, "as": true, "select": true, "limit": true, "skip": true, "range": true, "has": true, "hasLabel": true,
	"hasKey": true, "hasId": true, "fields": true, "unwind": true, "count": true, "render": true, "path": true}

func c11Modelled(b []c11Stmt) bool {
	for _, s := range b {
		if !c11ModelKinds[c11Kind(s)] {
			return false
		}
	}
	return true
}

// c11Hazard: unwind on a traveler without current element kills the process (C06's subject).
func c11Hazard(q []c11Stmt) bool { return c01Hazard(q) }

func c11Ifaces(q []c11Stmt) []interface{} { return toIfaces(q) }

// c11SizeGraph: n isolated vertices + a few edges (result sizes around the serializer's worker
// pool and channel capacities are produced with limit/range on it).
func c11SizeGraph(n int) map[string]interface{} {
	vs := []interface{}{}
	es := []interface{}{}
	for i := 0; i < n; i++ {
		vs = append(vs, map[string]interface{}{"gid": fmt.Sprintf("v%d", i+1), "label": c01VLabels[i%3],
			"data": map[string]interface{}{"x": float64(i % 7), "name": fmt.Sprintf("n%d", i)}})
	}
	for i := 0; i+1 < n && i < 60; i++ {
		es = append(es, map[string]interface{}{"gid": fmt.Sprintf("e%d", i+1), "label": c01ELabels[i%3],
			"from": fmt.Sprintf("v%d", i+1), "to": fmt.Sprintf("v%d", i+2), "data": map[string]interface{}{"x": float64(i % 3)}})
	}
	return map[string]interface{}{"vertices": vs, "edges": es}
}

// c11DenseGraph: k vertices, every ordered pair joined: V().out().out() has k^3 rows.
func c11DenseGraph(k int) map[string]interface{} {
	vs := []interface{}{}
	es := []interface{}{}
	for i := 0; i < k; i++ {
		vs = append(vs, map[string]interface{}{"gid": fmt.Sprintf("v%d", i+1), "label": "A", "data": map[string]interface{}{}})
	}
	n := 0
	for i := 0; i < k; i++ {
		for j := 0; j < k; j++ {
			n++
			es = append(es, map[string]interface{}{"gid": fmt.Sprintf("e%d", n), "label": "k",
				"from": fmt.Sprintf("v%d", i+1), "to": fmt.Sprintf("v%d", j+1), "data": map[string]interface{}{}})
		}
	}
	return map[string]interface{}{"vertices": vs, "edges": es}
}

func c11Named(name string, g map[string]interface{}) map[string]interface{} {
	return map[string]interface{}{"name": name, "vertices": g["vertices"], "edges": g["edges"]}
}

type c11Gen struct {
	r   *Run
	env *c11Env
	// per case bookkeeping for the generator
	jobs    [][]c11Stmt // statements of job k
	graphs  []string    // graph of job k
	deleted []bool
	// hangs seen (an operation that did not return within the deadline); generation stops after 3
	timeouts int
}

func (g *c11Gen) stop() bool { return g.timeouts >= 3 }

func (g *c11Gen) do(op map[string]interface{}) map[string]interface{} {
	nop, obs := g.env.exec(op)
	g.r.Emit(nop, obs)
	g.r.Count("op:" + op["op"].(string))
	if _, hung := obs["timeout"]; hung {
		g.timeouts++
		g.r.Count("timeout")
	}
	if s, _ := obs["skip"].(bool); s {
		g.r.Count("skip:" + fmt.Sprint(obs["why"]))
	}
	return obs
}

func (g *c11Gen) reset(graphs ...map[string]interface{}) {
	gs := []interface{}{}
	for _, x := range graphs {
		gs = append(gs, x)
	}
	g.jobs, g.graphs, g.deleted = nil, nil, nil
	g.do(map[string]interface{}{"op": "reset", "graphs": gs})
}

// submit returns the job index or -1.
func (g *c11Gen) submit(graph string, q []c11Stmt) int {
	obs := g.do(map[string]interface{}{"op": "submit", "graph": graph, "q": c11Ifaces(q)})
	if _, ok := obs["job"]; ok {
		g.jobs = append(g.jobs, q)
		g.graphs = append(g.graphs, graph)
		g.deleted = append(g.deleted, false)
		if rows, isList := obs["rows"].([]interface{}); isList {
			g.r.Count(fmt.Sprintf("rows:%s", c11SizeClass(len(rows))))
			if len(rows) > 0 {
				g.r.NonTrivial("submit:" + c01Key(q))
			}
		}
		return len(g.jobs) - 1
	}
	return -1
}

func c11SizeClass(n int) string {
	switch {
	case n == 0:
		return "0"
	case n < 4:
		return "1-3"
	case n <= 5:
		return "4-5"
	case n < 39:
		return "6-38"
	case n <= 45:
		return "39-45"
	case n < 5000:
		return "46-4999"
	}
	return ">=5000"
}

func (g *c11Gen) resume(k int, b []c11Stmt) {
	whole := append(append([]c11Stmt{}, g.jobs[k]...), b...)
	if c11Hazard(whole) || len(b) == 0 {
		return
	}
	cmp := "meta"
	if c11Modelled(b) {
		cmp = "model"
	}
	obs := g.do(map[string]interface{}{"op": "resume", "job": k, "b": c11Ifaces(b), "cmp": cmp})
	g.r.Count("resume:" + cmp)
	if rows, ok := obs["rows"].([]interface{}); ok && len(rows) > 0 {
		g.r.NonTrivial("resume:" + c01Key(g.jobs[k]) + "|" + c01Key(b))
	}
}

// c11Extension: statements that may follow a job of the given final kind.
func c11Extension(r *rand.Rand, q []c11Stmt, n int) []c11Stmt {
	last := c11Kind(q[len(q)-1])
	switch last {
	case "aggregate":
		// aggregation rows come out in map-iteration order: only order-free extensions
		return Pick(r, [][]c11Stmt{{{"count": ""}}, {{"limit": 1000}}, {{"skip": 0}}, {{"as": "g"}, {"count": ""}}})
	case "count", "render", "path":
		return c11TruncTail(r, 1+r.Intn(2))
	case "select":
		if ms := c11List(q[len(q)-1]["select"].(map[string]interface{})["marks"]); len(ms) > 1 {
			return c11TruncTail(r, 1+r.Intn(2))
		}
	}
	// element rows: continue with a guarded program tail (drop its start statement and guard)
	tail := c11Program(r, n+2, Pick(r, c11Finals))[2:]
	// typing of the tail assumed a vertex/edge start; the real compiler is the judge
	return tail
}

func c11TruncTail(r *rand.Rand, n int) []c11Stmt {
	out := []c11Stmt{}
	for i := 0; i < n; i++ {
		switch r.Intn(4) {
		case 0:
			out = append(out, c11Stmt{"limit": r.Intn(4)})
		case 1:
			out = append(out, c11Stmt{"skip": r.Intn(3)})
		case 2:
			out = append(out, c11Stmt{"range": map[string]interface{}{"start": r.Intn(2), "stop": 1 + r.Intn(4)}})
		case 3:
			out = append(out, c11Stmt{"count": ""})
		}
	}
	return out
}

// c11SearchQueries: the job's own statements, proper prefixes, extensions, and near misses
// (one statement changed in kind or argument).
func c11SearchQueries(r *rand.Rand, q []c11Stmt) [][]c11Stmt {
	out := [][]c11Stmt{q}
	if len(q) > 1 {
		out = append(out, q[:len(q)-1])
	}
	out = append(out, append(append([]c11Stmt{}, q...), c11Stmt{"limit": 3}))
	out = append(out, append(append([]c11Stmt{}, q...), c11Stmt{"out": sl()}, c11Stmt{"count": ""}))
	// near miss: change one statement
	i := r.Intn(len(q))
	miss := append([]c11Stmt{}, q...)
	switch c11Kind(q[i]) {
	case "out":
		miss[i] = c11Stmt{"in": q[i]["out"]}
	case "in":
		miss[i] = c11Stmt{"out": q[i]["in"]}
	case "v":
		miss[i] = c11Stmt{"v": sl("v1")}
	case "e":
		miss[i] = c11Stmt{"e": sl("e1")}
	case "limit":
		miss[i] = c11Stmt{"skip": q[i]["limit"]}
	case "as":
		miss[i] = c11Stmt{"as": fmt.Sprint(q[i]["as"]) + "x"}
	default:
		miss[i] = c11Stmt{"hasLabel": sl("Q")}
	}
	out = append(out, append(miss, c11Stmt{"limit": 3}))
	// same statements in another order
	if len(q) > 2 {
		sw := append([]c11Stmt{}, q...)
		sw[len(sw)-1], sw[len(sw)-2] = sw[len(sw)-2], sw[len(sw)-1]
		out = append(out, sw)
	}
	return out
}

func (g *c11Gen) search(graph string, q []c11Stmt) {
	obs := g.do(map[string]interface{}{"op": "search", "graph": graph, "q": c11Ifaces(q)})
	if js, ok := obs["jobs"].([]interface{}); ok && len(js) > 0 {
		g.r.Count("search:hit")
		g.r.NonTrivial("search:" + c01Key(q))
	} else {
		g.r.Count("search:none")
	}
}

func (g *c11Gen) live() []int {
	out := []int{}
	for k := range g.jobs {
		if !g.deleted[k] {
			out = append(out, k)
		}
	}
	return out
}

// observeAll: list + status/view of every job ever submitted in the case (deleted ones included).
func (g *c11Gen) observeAll() {
	for _, name := range []string{"A", "B"} {
		g.do(map[string]interface{}{"op": "list", "graph": name})
	}
	for k := range g.jobs {
		g.do(map[string]interface{}{"op": "status", "job": k})
		g.do(map[string]interface{}{"op": "view", "job": k})
	}
}

// caseSequence: a random sequence of submit/view/status/resume/search/list/delete/restart.
func (g *c11Gen) caseSequence(nops int) {
	r := g.r.Rng
	gr := c01Graph(r, 1+r.Intn(2))
	gb := c01Graph(r, 2)
	g.reset(c11Named("A", gr), c11Named("B", gb))
	for i := 0; i < nops && !g.stop(); i++ {
		live := g.live()
		c := r.Intn(14)
		switch {
		case c <= 3 || len(g.jobs) == 0:
			q := c11Program(r, 2+r.Intn(6), Pick(r, c11Finals))
			if c11Hazard(q) {
				continue
			}
			g.submit(Pick(r, []string{"A", "A", "B"}), q)
		case c == 4:
			g.do(map[string]interface{}{"op": "view", "job": r.Intn(len(g.jobs))})
		case c == 5:
			g.do(map[string]interface{}{"op": "status", "job": r.Intn(len(g.jobs))})
		case c == 6 || c == 7:
			k := r.Intn(len(g.jobs))
			g.resume(k, c11Extension(r, g.jobs[k], 1+r.Intn(4)))
		case c == 8 || c == 9:
			k := r.Intn(len(g.jobs))
			qs := c11SearchQueries(r, g.jobs[k])
			gname := g.graphs[k]
			if r.Intn(4) == 0 {
				gname = Pick(r, []string{"A", "B"})
			}
			g.search(gname, Pick(r, qs))
		case c == 10:
			g.do(map[string]interface{}{"op": "list", "graph": Pick(r, []string{"A", "B"})})
		case c == 11 && len(live) > 0:
			k := Pick(r, live)
			g.do(map[string]interface{}{"op": "delete", "job": k})
			g.deleted[k] = true
			g.r.Count("seq:delete")
		case c == 12:
			g.do(map[string]interface{}{"op": "restart"})
			g.r.Count("seq:restart")
			g.observeAll()
		}
	}
	g.observeAll()
}

// caseSplits: every split point of a traversal: submit q[:i], resume with q[i:].
func (g *c11Gen) caseSplits(q []c11Stmt, restart bool) {
	r := g.r.Rng
	g.reset(c11Named("A", c01Graph(r, 1)), c11Named("B", c01Graph(r, 2)))
	for i := 1; i < len(q) && !g.stop(); i++ {
		if c11Hazard(q[:i]) {
			continue
		}
		k := g.submit("A", q[:i])
		if k < 0 {
			continue
		}
		if restart && r.Intn(2) == 0 {
			g.do(map[string]interface{}{"op": "restart"})
		}
		g.resume(k, q[i:])
		g.r.Count("split")
	}
	// the stored jobs are prefixes of q: search for q must find those of two or more steps
	g.search("A", q)
	g.search("B", q)
}

// caseMarkTypes: a selection job whose marks are re-bound with another type by an extension; the
// stored job must read the same afterwards (the extension's mark types are its own).
func (g *c11Gen) caseMarkTypes() {
	r := g.r.Rng
	g.reset(c11Named("A", c01Graph(r, 1)), c11Named("B", c01Graph(r, 2)))
	sel := func(ms ...string) c11Stmt { return c11Stmt{"select": map[string]interface{}{"marks": sl(ms...)}} }
	k := g.submit("A", []c11Stmt{{"v": sl()}, c11Guard(), {"as": "m"}, {"outE": sl()}, c11Guard(), {"as": "e"}, sel("m", "e")})
	k2 := g.submit("A", []c11Stmt{{"v": sl()}, c11Guard(), {"as": "m"}, {"outE": sl()}, c11Guard(), {"as": "e"}})
	if k < 0 || k2 < 0 {
		return
	}
	g.resume(k, []c11Stmt{{"as": "m"}, {"limit": 50}})
	g.do(map[string]interface{}{"op": "view", "job": k})
	g.resume(k2, []c11Stmt{{"as": "m"}, {"out": sl()}, c11Guard(), {"as": "e"}, sel("m", "e")})
	g.resume(k2, []c11Stmt{sel("m", "e")})
	g.resume(k2, []c11Stmt{sel("e")})
	g.do(map[string]interface{}{"op": "view", "job": k2})
	g.do(map[string]interface{}{"op": "restart"})
	g.resume(k2, []c11Stmt{sel("m", "e")})
	g.observeAll()
}

// caseSizes: result sizes around the worker pool (4), the worker channels (10) and the merged
// channel (40) of MarshalStream / UnmarshalStream.
func (g *c11Gen) caseSizes(sizes []int) {
	g.reset(c11Named("A", c11SizeGraph(120)))
	for _, n := range sizes {
		if g.stop() {
			return
		}
		q := []c11Stmt{{"v": sl()}, {"limit": n}}
		k := g.submit("A", q)
		if k >= 0 {
			g.resume(k, []c11Stmt{{"as": "a"}, {"out": sl()}, c11Guard(), {"select": map[string]interface{}{"marks": sl("a")}}})
		}
	}
	g.do(map[string]interface{}{"op": "restart"})
	g.observeAll()
}

// caseTypesRestart: one completed job per result type (elements, count, render, path, selection,
// aggregation), a restart, and every job must still be listed, complete, readable and resumable.
func (g *c11Gen) caseTypesRestart() {
	r := g.r.Rng
	g.reset(c11Named("A", c01Graph(r, 1)), c11Named("B", c01Graph(r, 2)))
	seen := map[string]bool{}
	for _, fin := range c11Finals {
		if seen[fin] {
			continue
		}
		seen[fin] = true
		for try := 0; try < 5; try++ {
			q := c11Program(r, 3+r.Intn(3), fin)
			if c11Hazard(q) {
				continue
			}
			if g.submit("A", q) >= 0 {
				g.r.Count("types-restart:" + fin)
				break
			}
		}
	}
	g.do(map[string]interface{}{"op": "restart"})
	g.observeAll()
	for k := range g.jobs {
		g.resume(k, []c11Stmt{{"limit": 3}})
	}
	g.do(map[string]interface{}{"op": "restart"})
	g.observeAll()
}

// caseSearchMaps: jobs whose statements carry multi-key maps (a render template, a has-condition
// with a map value, several aggregations) must be found by Search like any other — every time:
// the per-statement checksum has to be a function of the statement, not of a map iteration order.
// caseCrashCopy: what is on disk at the moment a client first reads COMPLETE must already be a
// complete job (a crash there is followed by a restart that reads exactly that).  The query carries
// thousands of ids: the job's metadata takes a while to serialise, which is the window.
func (g *c11Gen) caseCrashCopy() {
	r := g.r.Rng
	g.reset(c11Named("A", c01Graph(r, 1)))
	ids := []interface{}{"v1", "v2"}
	for i := 0; i < 3000; i++ {
		ids = append(ids, fmt.Sprintf("absent-vertex-%06d", i))
	}
	rounds := 60
	if g.r.Tier == "thorough" {
		rounds = 400
	}
	g.do(map[string]interface{}{"op": "crashcopy", "graph": "A", "q": c11Ifaces([]c11Stmt{{"v": ids}}), "rounds": rounds})
	g.do(map[string]interface{}{"op": "crashcopy", "graph": "A", "q": c11Ifaces([]c11Stmt{{"v": sl()}, {"out": sl()}}), "rounds": rounds})
	g.r.Count("crashcopy")
	// large rows read back by a slow client (80 rows of 512 KiB: a 40 MiB result file)
	g.do(map[string]interface{}{"op": "bigview", "graph": "BIG", "n": 80, "kb": 512})
	g.r.Count("bigview")
}

func (g *c11Gen) caseSearchMaps() {
	r := g.r.Rng
	g.reset(c11Named("A", c01Graph(r, 1)), c11Named("B", c01Graph(r, 2)))
	tmpl := map[string]interface{}{"a": "$.name", "b": "$.x", "c": "$._gid", "d": "$._label", "e": "k", "f": "$.nested", "g": []interface{}{"$.x", "lit"}}
	val := map[string]interface{}{"k": 1.0, "deep": map[string]interface{}{"z": "p", "y": "q"}, "m": 2.0, "n": "s", "o": true}
	qs := [][]c11Stmt{
		{{"v": sl()}, {"hasLabel": sl("A", "B", "C")}, {"render": tmpl}},
		{{"v": sl()}, {"has": c02C("nested", "EQ", val)}, {"out": sl()}},
		{{"e": sl()}, {"as": "a"}, {"out": sl()}, {"render": map[string]interface{}{"p": "$a._gid", "q": "$._gid", "r": "$a.x", "s": "$.name", "t": "$a._label"}}},
	}
	for _, q := range qs {
		if g.submit("A", q) < 0 {
			continue
		}
		g.r.Count("search-maps:job")
	}
	for i := 0; i < 4; i++ {
		for _, q := range qs {
			g.search("A", q)
			g.search("A", append(append([]c11Stmt{}, q...), c11Stmt{"limit": 2}))
		}
	}
	g.do(map[string]interface{}{"op": "restart"})
	for _, q := range qs {
		g.search("A", q)
		g.search("B", q)
	}
}

func c11GenMain(r *Run) {
	base, _ := filepath.Abs(ScratchDir("c11"))
	defer os.RemoveAll(base)
	os.Setenv("VERIF_WORK_C11", base)
	eng, err := OpenEng("badger", filepath.Join(base, "db"))
	if err != nil {
		panic(err)
	}
	defer eng.Close()
	env := &c11Env{eng: eng, base: base}
	g := &c11Gen{r: r, env: env}
	r.Rule = "distinct (job statements | extension | search) shapes with a non-empty answer"
	thorough := r.Tier == "thorough"

	// 1. sizes around the serializer's pool and buffers
	sizes := []int{0, 1, 3, 4, 5, 9, 10, 11, 39, 40, 41, 44, 45, 81}
	if thorough {
		sizes = append(sizes, 2, 7, 8, 12, 13, 19, 20, 21, 43, 46, 50, 79, 80, 82, 119, 120)
	}
	g.caseSizes(sizes)

	g.caseMarkTypes()
	g.caseTypesRestart()
	g.caseSearchMaps()
	g.caseCrashCopy()

	// 2. every split point of generated traversals, every result type
	nsplit := 6
	if thorough {
		nsplit = 21
	}
	for i := 0; i < nsplit && !g.stop(); i++ {
		q := c11Program(r.Rng, 4+r.Rng.Intn(5), c11Finals[i%len(c11Finals)])
		if c11Hazard(q) {
			continue
		}
		g.caseSplits(q, i%2 == 1)
	}

	// 3. sequences of submit / search / delete / restart
	nseq, nops := 5, 14
	if thorough {
		nseq, nops = 20, 20
	}
	for i := 0; i < nseq && !g.stop(); i++ {
		g.caseSequence(nops)
	}

	// 4. past the 5000-slot pipeline buffers (thorough)
	if thorough && !g.stop() {
		g.reset(c11Named("A", c11DenseGraph(18)))
		k := g.submit("A", []c11Stmt{{"v": sl()}, {"out": sl()}, {"out": sl()}})
		if k >= 0 {
			g.resume(k, []c11Stmt{{"count": ""}})
			g.do(map[string]interface{}{"op": "restart"})
			g.do(map[string]interface{}{"op": "status", "job": k})
			g.resume(k, []c11Stmt{{"out": sl()}, {"count": ""}})
		}
	}
}

func c11Replay(r *Run, ops []map[string]interface{}) {
	base, _ := filepath.Abs(ScratchDir("c11"))
	defer os.RemoveAll(base)
	eng, err := OpenEng("badger", filepath.Join(base, "db"))
	if err != nil {
		panic(err)
	}
	defer eng.Close()
	env := &c11Env{eng: eng, base: base}
	for _, op := range ops {
		delete(op, "trav")
		nop, obs := env.exec(op)
		r.Emit(nop, obs)
	}
}

func init() { Registry["C11"] = Prop{Gen: c11GenMain, Replay: c11Replay} }
