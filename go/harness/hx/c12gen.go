package hx

// C12 generator: loop programs (protojson statements) x graphs x GOMAXPROCS.

import (
	"encoding/json"
	"fmt"
	"math/rand"
)

type c12Prog struct {
	class string
	stmts ja
}

func c12Ctr(k int, op string) jm { return sCond("$s.count", op, k) }

// body templates: each increments $s.count exactly once per pass
func c12Bodies(rng *rand.Rand, K int) []ja {
	xc := sCond("x", Pick(rng, []string{"GT", "GTE", "LT", "NEQ", "EQ"}), rng.Intn(5))
	return []ja{
		{sStep("out"), sInc("$s.count", 1)},
		{sInc("$s.count", 1), sStep("out")},
		{sStep("out", "k"), sInc("$s.count", 1)},
		{sStep("in"), sInc("$s.count", 1)},
		{sStep("out"), sInc("$s.count", 1), sHas(sOr(xc, sCond("_label", "EQ", "M")))},
		{sInc("$s.count", 1), sHas(c12Ctr(K, "LT")), sStep("out")},
		{sStep("out"), sStep("out"), sInc("$s.count", 1)},
		{sStep("out"), sStep("hasLabel", "N"), sInc("$s.count", 1)},
		{sStep("out"), sInc("$s.count", 2), sStep("in", "k")},
		{sStep("out"), sAs("t"), sInc("$s.count", 1), sHas(sNot(sCond("$t._gid", "EQ", "v1")))},
		{sInc("$s.count", 1)},
	}
}

func c12Suffixes(rng *rand.Rand) []ja {
	return []ja{
		{},
		{sRender(jm{"g": "_gid", "c": "$s.count", "s": "$s._gid"})},
		{sCount()},
		{sStep("out"), sRender(jm{"g": "_gid", "c": "$s.count"})},
		{sHas(sCond("$s.count", "GTE", 2)), sRender(jm{"g": "_gid", "l": "_label", "x": "x", "c": "$s.count"})},
	}
}

func cat(parts ...ja) ja {
	out := ja{}
	for _, p := range parts {
		out = append(out, p...)
	}
	return out
}

func c12Start(rng *rand.Rand) ja {
	switch rng.Intn(4) {
	case 0:
		return ja{sV("v0")}
	case 1:
		return ja{sV("v0", "v1", "v2")}
	default:
		return ja{sV()}
	}
}

// one documented-pattern loop: start.set.as.mark.body.[has bound].jump(expr?, emit).suffix
func c12Single(rng *rand.Rand) c12Prog {
	K := 2 + rng.Intn(3)
	if rng.Intn(8) == 0 {
		K = 1
	}
	body := Pick(rng, c12Bodies(rng, K))
	var tail ja
	switch rng.Intn(3) {
	case 0: // bound as a has step in the body, unconditional jump (the documented example)
		tail = ja{sHas(c12Ctr(K, "LT")), sJump("L", nil, rng.Intn(8) > 0)}
	case 1: // bound as the jump condition
		tail = ja{sJump("L", c12Ctr(K, "LT"), rng.Intn(8) > 0)}
	default: // both: data condition in jump, bound in body
		tail = ja{sHas(c12Ctr(K+1, "LTE")), sJump("L", sAnd(c12Ctr(K, "LT"), sCond("x", "NEQ", rng.Intn(4))), rng.Intn(8) > 0)}
	}
	return c12Prog{"single", cat(c12Start(rng), ja{sSet("count", 0), sAs("s"), sMark("L")}, body, tail, Pick(rng, c12Suffixes(rng)))}
}

// two jumps to one mark
func c12Double(rng *rand.Rand) c12Prog {
	K1 := 1 + rng.Intn(3)
	K2 := 1 + rng.Intn(4)
	mid := Pick(rng, []ja{
		{sStep("out"), sInc("$s.count", 1)},
		{sStep("in"), sInc("$s.count", 1)},
		{sStep("out"), sStep("out"), sStep("in"), sInc("$s.count", 1)},
		{sInc("$s.count", 1), sStep("out"), sStep("in"), sStep("out")},
	})
	return c12Prog{"double", cat(c12Start(rng), ja{sSet("count", 0), sAs("s"), sMark("L"), sStep("out"), sInc("$s.count", 1),
		sJump("L", c12Ctr(K1, "LT"), true)}, mid, ja{sJump("L", c12Ctr(K2, "LT"), rng.Intn(3) > 0)}, Pick(rng, c12Suffixes(rng)))}
}

// forward jump (conformance test_forward)
func c12Forward(rng *rand.Rand) c12Prog {
	return c12Prog{"forward", cat(ja{sV(), sSet("count", 0), sAs("s"),
		sJump("S", sCond("_label", "EQ", Pick(rng, []string{"N", "M"})), rng.Intn(2) == 0),
		sStep("out"), sInc("$s.count", 1), sMark("S")}, Pick(rng, c12Suffixes(rng)))}
}

// two jumps ahead of one mark (both may be found closed in the same polling round of the mark:
// short or empty upstream)
func c12Forward2(rng *rand.Rand) c12Prog {
	start := Pick(rng, []ja{{sV()}, {sV("nope")}, {sV("v0")}})
	return c12Prog{"forward2", cat(start, ja{
		sJump("S", sCond("_gid", "EQ", Pick(rng, []string{"v0", "v1"})), true),
		sJump("S", sCond("_gid", "EQ", Pick(rng, []string{"v1", "v2"})), rng.Intn(4) > 0),
		sStep("out"), sMark("S")}, Pick(rng, c12Suffixes(rng)))}
}

// two loops one after the other (second counter lives in mark u, set on a fresh element)
func c12Sequential(rng *rand.Rand) c12Prog {
	K1 := 1 + rng.Intn(3)
	K2 := 1 + rng.Intn(3)
	return c12Prog{"sequential", cat(c12Start(rng), ja{sSet("count", 0), sAs("s"), sMark("L"), sStep("out"), sInc("$s.count", 1),
		sJump("L", c12Ctr(K1, "LT"), true),
		sStep("out"), sAs("u"), sMark("M"), sStep("in"), sInc("$u.c2", 1), sJump("M", sCond("$u.c2", "LT", K2), true),
		sRender(jm{"g": "_gid", "c": "$s.count", "d": "$u.c2"})})}
}

// nested: inner loop inside outer loop body
func c12Nested(rng *rand.Rand) c12Prog {
	K1 := 1 + rng.Intn(2)
	K2 := 1 + rng.Intn(2)
	return c12Prog{"nested", cat(c12Start(rng), ja{sSet("count", 0), sAs("s"), sMark("O"), sInc("$s.count", 1), sAs("u"),
		sMark("I"), sStep("out"), sInc("$u.c2", 1), sJump("I", sCond("$u.c2", "LT", K2), true),
		sJump("O", c12Ctr(K1, "LT"), true),
		sRender(jm{"g": "_gid", "c": "$s.count", "d": "$u.c2"})})}
}

// many travelers in flight
func c12Heavy(rng *rand.Rand) c12Prog {
	K := 3 + rng.Intn(2)
	suffix := Pick(rng, []ja{{sCount()}, {}, {sRender(jm{"g": "_gid", "c": "$s.count"})}})
	return c12Prog{"heavy", cat(ja{sV(), sSet("count", 0), sAs("s"), sMark("L"), sStep("out"), sInc("$s.count", 1),
		sJump("L", c12Ctr(K, "LT"), rng.Intn(5) > 0)}, suffix)}
}

// counters kept on the current element: the emitted copy and the looping traveler must not share
// it (finding C12-copy-shares-current). The pass-through steps after the jump delay the emitted
// copies so that a shared element would be overwritten before it is rendered.
func c12CurCtr(rng *rand.Rand) c12Prog {
	K := 3 + rng.Intn(3)
	delay := ja{}
	for i := 0; i < 10+rng.Intn(30); i++ {
		delay = append(delay, sHas(sCond("count", "GTE", 0)))
	}
	return c12Prog{"curctr", cat(c12Start(rng), ja{sSet("count", 0), sMark("L"), sInc("count", 1),
		sJump("L", sCond("count", "LT", K), true)}, delay, ja{sRender(jm{"g": "_gid", "c": "count"})})}
}

func c12Key(p c12Prog, g jm) string {
	b, _ := json.Marshal(p.stmts)
	return fmt.Sprintf("%s|%s", g["name"], b)
}

func c12Gen(r *Run) {
	rng := r.Rng
	thorough := r.Tier == "thorough"
	nprog := 20
	reps := 1
	if thorough {
		nprog = 150
		reps = 3
	}
	graphs := []jm{c12Graph("chain", 5), c12Graph("cycle", 4), c12Graph("branch", 7)}
	heavyG := []jm{c12Graph("dense", 5), c12Graph("dense", 6), c12Graph("cycle", 6)}
	procs := []int{1, 2, 4, 8}
	ops := []jm{}
	add := func(p c12Prog, g jm, reps int) {
		for _, pr := range procs {
			noise := 0
			if rng.Intn(3) == 0 {
				noise = 1 + rng.Intn(3)
			}
			ops = append(ops, jm{"op": "loop", "class": p.class, "graph": g, "stmts": p.stmts, "procs": pr, "reps": reps, "noise": noise})
			r.Count("class:" + p.class)
			r.Count(fmt.Sprintf("procs:%d", pr))
			r.Count("graph:" + g["name"].(string))
		}
		r.NonTrivial(c12Key(p, g))
	}
	// the documented example and the conformance-test programs, verbatim
	doc := c12Prog{"doc", ja{sV("v0"), sSet("count", 0), sAs("s"), sMark("a"), sStep("out"), sInc("$s.count", 1),
		sHas(c12Ctr(2, "LT")), sJump("a", nil, true)}}
	doc2 := c12Prog{"doc", ja{sV(), sSet("count", 0), sAs("s"), sMark("a"), sInc("$s.count", 1),
		sHas(c12Ctr(4, "LT")), sStep("out"), sJump("a", nil, true)}}
	for _, g := range graphs {
		add(doc, g, reps)
		add(doc2, g, reps)
	}
	// storms: the same small loop thousands of times, eight at once (a wake-up lost in a window of a
	// few instructions leaves the LAST traveler or the last signal in the jump queue: one loop in
	// hundreds never closes)
	nstorm := 800 // ~13 ms each with eight at once (the unchanged queue busy-waits)
	if thorough {
		nstorm = 6000
	}
	storm := c12Prog{"storm", ja{sV("v0"), sSet("count", 0), sAs("s"), sMark("a"), sInc("$s.count", 1),
		sHas(c12Ctr(12, "LT")), sJump("a", nil, true)}}
	for _, pr := range []int{8, 16} {
		ops = append(ops, jm{"op": "loop", "class": "storm", "graph": graphs[0], "stmts": storm.stmts, "procs": pr,
			"reps": nstorm, "par": 8, "noise": 0, "deadline_ms": 20000})
		r.Count("class:storm")
	}
	ops = append(ops, jm{"op": "loop", "class": "storm", "graph": graphs[0], "stmts": doc.stmts, "procs": 8,
		"reps": nstorm / 2, "par": 8, "noise": 0, "deadline_ms": 20000})
	r.Count("class:storm")
	r.NonTrivial(c12Key(storm, graphs[0]))
	for i := 0; i < nprog; i++ {
		var p c12Prog
		switch k := rng.Intn(20); {
		case k < 9:
			p = c12Single(rng)
		case k < 14:
			p = c12Double(rng)
		case k < 15:
			p = c12Forward(rng)
		case k < 16:
			p = c12Forward2(rng)
		case k < 18:
			p = c12Sequential(rng)
		default:
			p = c12Nested(rng)
		}
		add(p, Pick(rng, graphs), reps)
	}
	ncur := 3
	if thorough {
		ncur = 12
	}
	for i := 0; i < ncur; i++ {
		add(c12CurCtr(rng), Pick(rng, graphs), reps+1)
	}
	nheavy := 2
	if thorough {
		nheavy = 8
	}
	for i := 0; i < nheavy; i++ {
		add(c12Heavy(rng), Pick(rng, heavyG), 1)
	}
	r.Rule = "distinct (graph, loop program) pairs, each run under GOMAXPROCS 1,2,4,8 (x reps, some with scheduler noise)"
	for i, op := range ops {
		if i%37 == 0 {
			r.AddSample(jm{"class": op["class"], "stmts": op["stmts"], "graph": op["graph"].(jm)["name"], "procs": op["procs"]})
		}
	}
	obs := c12RunAll(r, ops, 24)
	for i := range ops {
		if obs[i]["timeout"] == true {
			r.Count("timeouts")
		}
		c12Hint(ops[i], obs[i])
		r.Emit(ops[i], obs[i])
	}
}

// c12Hint: the driver judges nested loops (open finding C12-nested-loop-loses-rows) on what the
// engine answered: the answer travels with the op.  It plays no role for any other program.
func c12Hint(op, obs jm) {
	if obs["rows"] != nil || obs["unstable"] != nil {
		op["hint"] = obs
	}
}
