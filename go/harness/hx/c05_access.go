package hx

// C05, mode "access" — the repository's own `enforce` and `validate`.
//
// The base mode (c05.go) runs the interceptors around recording fakes; here the REAL
// accounts.CasbinAccess (policy model = the repository's test/model.conf, CSV policies written to
// the scratch directory), accounts.BasicAuth and accounts.ProxyAuth are run and compared with the
// Lean model Grip.C05.Access (casbinRun / basicRun / proxyValidate).  Every op line carries a
// whole SEQUENCE of calls made on ONE instance, so a decision that depends on an earlier call
// (a cache, state carried between calls) shows up as a difference at some position.
//
//	{"op":"casbin","policy":[[sub,obj,act],…],"reqs":[[user,graph,op],…]}        → {"dec":[bool,…]}
//	{"op":"casbin","policy_file":"test/users.csv","policy":[rows as parsed],…}    (the shipped policy file itself)
//	{"op":"basic","creds":[[user,password],…],"mds":[[[key,[values…]],…],…]}     → {"res":[user|null,…]}
//	{"op":"proxy","field":F,"mds":[…]}                                            → {"res":[user|null,…]}
//	{"op":"e2e","policy":[…],"creds":[…],"calls":[{"tr","m","hdr":string|null,"req":{…},"elems":[…]},…]}
//	      → {"res":[{"err":…,"handled":…},…]}   the real interceptors (accounts.Config built from its
//	      public fields: Auth.Basic + Access.Casbin) behind a real grpc.Server and the direct clients.

import (
	"context"
	"encoding/base64"
	"encoding/csv"
	"fmt"
	"os"
	"path/filepath"
	"strings"
	"time"

	"github.com/bmeg/grip/accounts"
	"google.golang.org/grpc/metadata"
	"google.golang.org/protobuf/proto"
)

// the policy model of test/model.conf, used when VERIF_REPO is not set
const c05ModelConf = `[request_definition]
r = sub, obj, act

[policy_definition]
p = sub, obj, act

[policy_effect]
e = some(where (p.eft == allow))

[matchers]
m = r.sub == p.sub && (r.obj == p.obj || p.obj ==  "*") && (r.act == p.act || p.act == "*") || r.sub == "root"
`

func c05RepoDir() string {
	if d := os.Getenv("VERIF_REPO"); d != "" {
		return d
	}
	return "/repo"
}

var c05ScratchN int

// c05Scratch makes a fresh directory below the run's scratch directory.
func c05Scratch() string {
	base := os.Getenv("VERIF_WORK")
	if base == "" {
		base, _ = os.Getwd()
	}
	c05ScratchN++
	d := filepath.Join(base, fmt.Sprintf("c05access-%d-%d", os.Getpid(), c05ScratchN))
	if err := os.MkdirAll(d, 0o755); err != nil {
		panic(err)
	}
	return d
}

func c05CSVField(s string) string {
	if strings.ContainsAny(s, ",\"") || strings.HasPrefix(s, " ") || strings.HasPrefix(s, "#") {
		return `"` + strings.ReplaceAll(s, `"`, `""`) + `"`
	}
	return s
}

// c05WritePolicy writes model.conf (the repository's) and policy.csv into dir.
func c05WritePolicy(dir string, rows [][]string) (modelPath, policyPath string) {
	modelPath = filepath.Join(dir, "model.conf")
	conf, err := os.ReadFile(filepath.Join(c05RepoDir(), "test", "model.conf"))
	if err != nil {
		conf = []byte(c05ModelConf)
	}
	if err := os.WriteFile(modelPath, conf, 0o644); err != nil {
		panic(err)
	}
	var b strings.Builder
	for _, r := range rows {
		if len(r) != 3 {
			panic("policy row must have three fields")
		}
		b.WriteString("p, " + c05CSVField(r[0]) + ", " + c05CSVField(r[1]) + ", " + c05CSVField(r[2]) + "\n")
	}
	policyPath = filepath.Join(dir, "policy.csv")
	if err := os.WriteFile(policyPath, []byte(b.String()), 0o644); err != nil {
		panic(err)
	}
	return
}

// c05ParsePolicyFile reads a policy CSV the way casbin's file adapter does (persist.LoadPolicyLine).
func c05ParsePolicyFile(path string) [][]string {
	raw, err := os.ReadFile(path)
	if err != nil {
		return nil
	}
	var rows [][]string
	for _, line := range strings.Split(string(raw), "\n") {
		line = strings.TrimSpace(line)
		if line == "" || strings.HasPrefix(line, "#") {
			continue
		}
		rd := csv.NewReader(strings.NewReader(line))
		rd.Comment = '#'
		rd.TrimLeadingSpace = true
		tok, err := rd.Read()
		if err != nil || len(tok) != 4 || tok[0] != "p" {
			continue
		}
		rows = append(rows, tok[1:])
	}
	return rows
}

func c05Silence() func() {
	// accounts.CasbinAccess / BasicAuth print every request (and the password) to stdout
	old := os.Stdout
	if f, err := os.OpenFile(os.DevNull, os.O_WRONLY, 0); err == nil {
		os.Stdout = f
		return func() { os.Stdout = old; f.Close() }
	}
	return func() {}
}

func c05MDOf(v interface{}) accounts.MetaData {
	md := accounts.MetaData{}
	xs, _ := v.([]interface{})
	for _, x := range xs {
		kv, _ := x.([]interface{})
		if len(kv) != 2 {
			continue
		}
		k, _ := kv[0].(string)
		if _, dup := md[k]; dup {
			continue // the model looks the first entry up
		}
		vals := []string{}
		ys, _ := kv[1].([]interface{})
		for _, y := range ys {
			s, _ := y.(string)
			vals = append(vals, s)
		}
		md[k] = vals
	}
	return md
}

func c05AccessExec(op map[string]interface{}) (obs map[string]interface{}) {
	defer func() {
		if p := recover(); p != nil {
			obs = map[string]interface{}{"panic": fmt.Sprint(p)}
		}
	}()
	defer c05Silence()()
	switch op["op"] {
	case "casbin":
		dir := c05Scratch()
		defer os.RemoveAll(dir)
		modelPath, policyPath := c05WritePolicy(dir, c05Pairs(op["policy"]))
		if pf, ok := op["policy_file"].(string); ok && pf != "" {
			policyPath = filepath.Join(c05RepoDir(), pf)
		}
		ce := &accounts.CasbinAccess{Model: modelPath, Policy: policyPath} // ONE instance per sequence
		dec := []interface{}{}
		for _, q := range c05Pairs(op["reqs"]) {
			if len(q) != 3 {
				panic("request must have three fields")
			}
			dec = append(dec, ce.Enforce(q[0], q[1], accounts.Operation(q[2])) == nil)
		}
		return map[string]interface{}{"dec": dec}
	case "basic", "proxy":
		var auth accounts.Authenticate
		if op["op"] == "basic" {
			ba := accounts.BasicAuth{}
			for _, c := range c05Pairs(op["creds"]) {
				if len(c) == 2 {
					ba = append(ba, accounts.BasicCredential{User: c[0], Password: c[1]})
				}
			}
			auth = ba
		} else {
			f, _ := op["field"].(string)
			auth = accounts.ProxyAuth{Field: f}
		}
		res := []interface{}{}
		mds, _ := op["mds"].([]interface{})
		for _, m := range mds {
			u, err := auth.Validate(c05MDOf(m))
			if err != nil {
				res = append(res, nil)
			} else {
				res = append(res, u)
			}
		}
		return map[string]interface{}{"res": res}
	case "e2e":
		return c05E2E(op)
	}
	return map[string]interface{}{"panic": "unknown op"}
}

// c05E2E: the real interceptors of an accounts.Config configured like a grip server
// (Auth.Basic + Access.Casbin), one configuration — hence one CasbinAccess — for the whole sequence.
func c05E2E(op map[string]interface{}) map[string]interface{} {
	dir := c05Scratch()
	defer os.RemoveAll(dir)
	modelPath, policyPath := c05WritePolicy(dir, c05Pairs(op["policy"]))
	// "fault": the policy cannot be loaded when the server comes up (file missing, model garbled):
	// nobody is authorised to do anything — the opposite of nobody being checked
	switch op["fault"] {
	case "missing-policy":
		os.Remove(policyPath)
	case "garbled-model":
		os.WriteFile(modelPath, []byte("[request_definition\nr = sub obj act\n[[[\n"), 0o644)
	case "missing-model":
		os.Remove(modelPath)
	}
	ba := accounts.BasicAuth{}
	for _, c := range c05Pairs(op["creds"]) {
		if len(c) == 2 {
			ba = append(ba, accounts.BasicCredential{User: c[0], Password: c[1]})
		}
	}
	ac := &accounts.Config{
		Auth:   &accounts.AuthConfig{Basic: &ba},
		Access: &accounts.AccessConfig{Casbin: &accounts.CasbinAccess{Model: modelPath, Policy: policyPath}},
	}
	e := c05NewEnv(ac)
	defer e.close()
	res := []interface{}{}
	calls, _ := op["calls"].([]interface{})
	for _, cj := range calls {
		res = append(res, c05E2ECall(e, cj.(map[string]interface{})))
	}
	return map[string]interface{}{"res": res}
}

func c05E2ECall(e *c05Env, c map[string]interface{}) (obs map[string]interface{}) {
	defer func() {
		if p := recover(); p != nil {
			obs = map[string]interface{}{"err": "panic", "handled": nil}
		}
	}()
	full, _ := c["m"].(string)
	m, ok := c05MethodByFull(full)
	if !ok {
		return map[string]interface{}{"err": "no-such-method", "handled": nil}
	}
	reqJ, _ := c["req"].(map[string]interface{})
	req, err := c05Build(reqJ)
	if err != nil {
		panic(err)
	}
	var elems []proto.Message
	if xs, ok := c["elems"].([]interface{}); ok {
		for _, x := range xs {
			el, err := c05Build(x.(map[string]interface{}))
			if err != nil {
				panic(err)
			}
			elems = append(elems, el)
		}
	}
	c05cur.reset(nil, nil)
	ctx, cancel := context.WithTimeout(context.Background(), 10*time.Second)
	defer cancel()
	if h, ok := c["hdr"].(string); ok {
		ctx = metadata.AppendToOutgoingContext(ctx, "authorization", h)
	}
	var cerr error
	if c["tr"] == "gateway" {
		cerr = c05CallGateway(e, ctx, m, req, elems)
	} else {
		cerr = c05CallGrpc(e, ctx, m, req, elems)
	}
	c05cur.mu.Lock()
	defer c05cur.mu.Unlock()
	var handled interface{}
	if c05cur.ran {
		h := c05cur.handled
		if h == nil {
			h = []interface{}{}
		}
		handled = h
	}
	return map[string]interface{}{"err": c05ErrName(cerr), "handled": handled}
}

// ---------------------------------------------------------------- generator

func c05B64(user, pw string) string {
	return "Basic " + base64.StdEncoding.EncodeToString([]byte(user+":"+pw))
}

// c05Universe: names that are prefixes and separator-joins of one another, the wildcard, "root",
// the empty string.  For separator s: users {svc, svc<s>etl}, graphs {prod, etl<s>prod}, so that
// (svc<s>etl, prod) and (svc, etl<s>prod) collide under any join with s (s = "" included).
var c05Seps = []string{"-", "_", ":", ",", "", "/", "|", " "}

func c05Names(sep string) (users, graphs, ops []string) {
	users = []string{"svc", "svc" + sep + "etl", "etl", "root", "", "*", "alice", "rootx", "Root", "sv"}
	graphs = []string{"prod", "etl" + sep + "prod", "etl", "", "*", "pro", "prod" + sep + "read", "prodre", "**"}
	ops = []string{"read", "write", "query", "exec", "admin", "query_repeat", "*", "", "ad", "rea"}
	return
}

func c05Triple(r *Run, users, graphs, ops []string) []interface{} {
	// bias towards the colliding names and the class names
	pick := func(xs []string, hot int) string {
		if r.Rng.Intn(3) > 0 {
			return xs[r.Rng.Intn(hot)]
		}
		return Pick(r.Rng, xs)
	}
	return []interface{}{pick(users, 3), pick(graphs, 3), pick(ops, 3)}
}

func c05AccessGen(r *Run) {
	r.Rule = "distinct (part, policy/credential shape, request shape, decision) tuples"
	emit := func(op map[string]interface{}) map[string]interface{} {
		obs := c05AccessExec(op)
		r.Emit(op, obs)
		r.Count("part=" + fmt.Sprint(op["op"]))
		return obs
	}
	thorough := r.Tier == "thorough"

	// ---- casbin: the shipped policy file itself, every (user, graph, op) of a small grid, twice
	{
		rows := c05ParsePolicyFile(filepath.Join(c05RepoDir(), "test", "users.csv"))
		var pol, reqs []interface{}
		for _, x := range rows {
			pol = append(pol, []interface{}{x[0], x[1], x[2]})
		}
		if pol != nil {
			for rep := 0; rep < 2; rep++ {
				for _, u := range []string{"alice", "bob", "root", "", "carol"} {
					for _, g := range []string{"test1", "test2", "test3", "*", ""} {
						for _, o := range []string{"read", "write", "query", "exec", "admin", "*"} {
							reqs = append(reqs, []interface{}{u, g, o})
						}
					}
				}
			}
			obs := emit(map[string]interface{}{"op": "casbin", "policy_file": "test/users.csv", "policy": pol, "reqs": reqs})
			r.NonTrivial(fmt.Sprint("casbin|shipped|", obs["dec"]))
		}
	}
	// ---- casbin: generated policies × request sequences (1–12, with repeats) on one instance
	nCasbin := 2000
	if thorough {
		nCasbin = 12000
	}
	for i := 0; i < nCasbin; i++ {
		sep := c05Seps[i%len(c05Seps)]
		users, graphs, ops := c05Names(sep)
		pol := []interface{}{}
		np := r.Rng.Intn(6)
		if r.Rng.Intn(12) == 0 {
			np = 0
		}
		wild := ""
		for k := 0; k < np; k++ {
			row := c05Triple(r, users, graphs, ops)
			switch r.Rng.Intn(8) {
			case 0:
				row[1] = "*"
				wild += "g"
			case 1:
				row[2] = "*"
				wild += "o"
			case 2:
				row[0] = "*" // no wildcard for subjects: a literal name
				wild += "u"
			}
			pol = append(pol, row)
		}
		n := 1 + r.Rng.Intn(12)
		reqs := []interface{}{}
		for k := 0; k < n; k++ {
			switch {
			case k > 0 && r.Rng.Intn(4) == 0: // repeat an earlier request
				reqs = append(reqs, reqs[r.Rng.Intn(k)])
			case k > 0 && r.Rng.Intn(4) == 0: // re-split an earlier request around the separator
				q := reqs[r.Rng.Intn(k)].([]interface{})
				switch {
				case q[0] == users[1] && q[1] == graphs[0]:
					reqs = append(reqs, []interface{}{users[0], graphs[1], q[2]})
				case q[0] == users[0] && q[1] == graphs[1]:
					reqs = append(reqs, []interface{}{users[1], graphs[0], q[2]})
				case q[1] == graphs[0] && q[2] == "read":
					reqs = append(reqs, []interface{}{q[0], graphs[6], ""}, []interface{}{q[0], "prodre", "ad"})
				default:
					reqs = append(reqs, []interface{}{q[0], q[1], Pick(r.Rng, ops)})
				}
			case len(pol) > 0 && r.Rng.Intn(3) == 0: // aim at a row, then perturb one field
				row := pol[r.Rng.Intn(len(pol))].([]interface{})
				q := []interface{}{row[0], row[1], row[2]}
				if f := r.Rng.Intn(4); f < 3 {
					q[f] = c05Triple(r, users, graphs, ops)[f]
				}
				reqs = append(reqs, q)
			default:
				reqs = append(reqs, c05Triple(r, users, graphs, ops))
			}
		}
		if i%3 == 1 {
			// conflation family: a granted request A next to requests that differ from it in one
			// field, or that split the same characters differently between user, graph and class,
			// asked in both orders and repeated (what a cache with a lossy key would mix up)
			a := []interface{}{users[1], graphs[0], Pick(r.Rng, ops[:6])}
			bs := [][]interface{}{
				{users[0], graphs[1], a[2]},                 // svc<s>etl|prod  vs  svc|etl<s>prod
				{users[0], a[1], a[2]}, {"etl", a[1], a[2]}, // other user
				{a[0], graphs[1], a[2]}, {a[0], "pro", a[2]}, // other graph
				{a[0], a[1], Pick(r.Rng, ops)},               // other class
				{a[0], graphs[6], ""}, {a[0], "prodre", "ad"}, // prod|read vs prod<s>read|"" vs prodre|ad
			}
			if a[2] != "read" {
				bs = bs[:6]
			}
			if r.Rng.Intn(2) == 0 { // grant the other side of the split instead
				a, bs[0] = bs[0], a
			}
			pol = append(pol[:len(pol):len(pol)], []interface{}{a[0], a[1], a[2]})
			r.Rng.Shuffle(len(pol), func(x, y int) { pol[x], pol[y] = pol[y], pol[x] })
			b := bs[r.Rng.Intn(len(bs))]
			if r.Rng.Intn(3) > 0 {
				b = bs[0]
			}
			core := []interface{}{a, b, a, b}
			if r.Rng.Intn(2) == 0 {
				core = []interface{}{b, a, b, a}
			}
			if len(reqs) > 8 {
				reqs = reqs[:8]
			}
			at := r.Rng.Intn(len(reqs) + 1)
			reqs = append(append(append([]interface{}{}, reqs[:at]...), core...), reqs[at:]...)
			wild += "c"
		}
		obs := emit(map[string]interface{}{"op": "casbin", "policy": pol, "reqs": reqs})
		r.Count(fmt.Sprintf("casbin.rows=%d", len(pol)))
		r.Count(fmt.Sprintf("casbin.len=%d", len(reqs)))
		if dec, ok := obs["dec"].([]interface{}); ok {
			for k, d := range dec {
				q := reqs[k].([]interface{})
				r.Count(fmt.Sprint("casbin.dec=", d))
				r.NonTrivial(fmt.Sprint("casbin|", len(pol), "|", wild, "|", q[0] == "root", q[1] == "*", q[2] == "*", q[0] == "", "|", d))
			}
			if i < 3 {
				r.AddSample(map[string]interface{}{"policy": pol, "reqs": reqs, "dec": dec})
			}
		}
	}

	// ---- BasicAuth / ProxyAuth: sequences of Validate calls with generated metadata
	nAuth := 800
	if thorough {
		nAuth = 5000
	}
	cusers := []string{"alice", "bob", "svc", "svc:etl", "", "root", "ali"}
	cpws := []string{"pw", "p:w", ":", "", "pw2", "pässwörd", "pw "}
	for i := 0; i < nAuth; i++ {
		creds := []interface{}{}
		for k := r.Rng.Intn(4); k > 0; k-- {
			creds = append(creds, []interface{}{Pick(r.Rng, cusers), Pick(r.Rng, cpws)})
		}
		if r.Rng.Intn(10) == 0 {
			creds = append(creds, []interface{}{"", ""})
		}
		header := func() (string, string) {
			var u, p string
			if len(creds) > 0 && r.Rng.Intn(3) > 0 {
				c := creds[r.Rng.Intn(len(creds))].([]interface{})
				u, p = c[0].(string), c[1].(string)
			} else {
				u, p = Pick(r.Rng, cusers), Pick(r.Rng, cpws)
			}
			switch r.Rng.Intn(16) {
			case 0:
				return c05B64(u, p+"x"), "wrongpw"
			case 1:
				return c05B64(u+"x", p), "unknown"
			case 2:
				return "Bearer " + base64.StdEncoding.EncodeToString([]byte(u+":"+p)), "noprefix"
			case 3:
				return strings.Replace(c05B64(u, p), "Basic ", Pick(r.Rng, []string{"basic ", "Basic", "Basic  ", " Basic ", "BASIC "}), 1), "noprefix"
			case 4:
				return "Basic " + base64.RawStdEncoding.EncodeToString([]byte(u+":"+p)), "rawb64"
			case 5:
				return "Basic " + base64.URLEncoding.EncodeToString([]byte(u+"?>:"+p+"~~")), "urlb64"
			case 6:
				return c05B64(u, p) + Pick(r.Rng, []string{"=", "A", " ", "===="}), "trailing"
			case 7:
				return "Basic " + base64.StdEncoding.EncodeToString([]byte(u+p)), "nocolon?"
			case 8:
				return "", "empty"
			case 9:
				return "Basic ", "emptyb64"
			case 10:
				h := c05B64(u, p)
				k := 6 + r.Rng.Intn(len(h)-5)
				return h[:k] + Pick(r.Rng, []string{"\n", "\r\n", "\r"}) + h[k:], "newline"
			case 11:
				return "Basic " + Pick(r.Rng, []string{"QR==", "Og==", "Oh==", "OjoA", "QQ=A", "Q===", "=AAA", "Og=", "YWxpY2U6cHc", "YWxpY2U6cH=="}), "oddb64"
			case 12:
				return c05B64(u, p+":"+p), "colonpw"
			case 13: // the credentials without the scheme, or behind another scheme word of the same length
				return Pick(r.Rng, []string{"", "Token ", "Basic\t"}) + base64.StdEncoding.EncodeToString([]byte(u+":"+p)), "noprefix"
			}
			return c05B64(u, p), "asconfigured"
		}
		if i%4 == 3 { // ProxyAuth
			field := Pick(r.Rng, []string{"x-user", "X-Forwarded-User", "authorization", ""})
			mds := []interface{}{}
			for k := 1 + r.Rng.Intn(6); k > 0; k-- {
				md := []interface{}{}
				switch r.Rng.Intn(6) {
				case 0: // absent
				case 1:
					md = append(md, []interface{}{field, []interface{}{}})
				case 2:
					md = append(md, []interface{}{field, []interface{}{"", "alice"}})
				case 3:
					md = append(md, []interface{}{strings.ToLower(field) + "x", []interface{}{"mallory"}})
				default:
					md = append(md, []interface{}{field, []interface{}{Pick(r.Rng, cusers), "other"}})
				}
				if r.Rng.Intn(2) == 0 && field != "x-other" {
					md = append(md, []interface{}{"x-other", []interface{}{"bob"}})
				}
				mds = append(mds, md)
			}
			obs := emit(map[string]interface{}{"op": "proxy", "field": field, "mds": mds})
			if res, ok := obs["res"].([]interface{}); ok {
				for k, u := range res {
					r.NonTrivial(fmt.Sprint("proxy|", field, "|", len(mds[k].([]interface{})), "|", u != nil, u == ""))
				}
			}
			continue
		}
		mds := []interface{}{}
		kinds := []string{}
		for k := 1 + r.Rng.Intn(8); k > 0; k-- {
			h, kind := header()
			md := []interface{}{}
			switch r.Rng.Intn(10) {
			case 0:
				kind = "nokey"
			case 1:
				md = append(md, []interface{}{"authorization", []interface{}{}})
				kind = "novalue"
			case 2:
				md = append(md, []interface{}{"Authorization", []interface{}{h, "Basic zzz"}})
				kind += "/Upper"
			case 3: // the capitalised key wins, even when empty
				h2, k2 := header()
				md = append(md, []interface{}{"authorization", []interface{}{h}}, []interface{}{"Authorization", []interface{}{h2}})
				kind = k2 + "/both"
			case 4:
				md = append(md, []interface{}{"Authorization", []interface{}{}}, []interface{}{"authorization", []interface{}{h}})
				kind = "upper-empty"
			case 5:
				md = append(md, []interface{}{"x-authorization", []interface{}{h}})
				kind = "otherkey"
			default:
				md = append(md, []interface{}{"authorization", []interface{}{h}})
			}
			mds = append(mds, md)
			kinds = append(kinds, kind)
		}
		obs := emit(map[string]interface{}{"op": "basic", "creds": creds, "mds": mds})
		if res, ok := obs["res"].([]interface{}); ok {
			for k, u := range res {
				r.Count("basic." + kinds[k] + "=" + fmt.Sprint(u != nil))
				r.NonTrivial(fmt.Sprint("basic|", len(creds), "|", kinds[k], "|", u != nil))
			}
		}
	}

	// ---- end to end: real interceptors around the real BasicAuth + CasbinAccess, calls in sequence
	nE2E, perSeq := 6, 20
	if thorough {
		nE2E, perSeq = 12, 24
	}
	methods := c05Methods()
	for i := 0; i < nE2E; i++ {
		sep := c05Seps[(int(r.Seed)+i)%4]
		users, graphs, _ := c05Names(sep)
		creds := []interface{}{[]interface{}{users[0], "pw0"}, []interface{}{users[1], "p:w1"}, []interface{}{"root", "rootpw"}, []interface{}{"alice", "apw"}}
		pol := []interface{}{
			[]interface{}{"alice", "*", "*"},
			[]interface{}{users[0], graphs[1], "read"},
			[]interface{}{users[1], graphs[0], Pick(r.Rng, []string{"read", "write", "query"})},
			[]interface{}{users[0], "*", Pick(r.Rng, []string{"read", "admin"})},
			[]interface{}{users[1], graphs[0], "*"},
		}
		pol = pol[r.Rng.Intn(2):]
		if i == 2 {
			pol = []interface{}{} // no row at all: only root gets through
		}
		calls := []interface{}{}
		for k := 0; k < perSeq; k++ {
			var c map[string]interface{}
			if k > 0 && r.Rng.Intn(4) == 0 {
				prev := calls[r.Rng.Intn(k)].(map[string]interface{})
				c = map[string]interface{}{}
				for kk, v := range prev {
					c[kk] = v
				}
				if r.Rng.Intn(2) == 0 && c["hdr"] != nil { // same request, another caller
					cr := creds[2+r.Rng.Intn(2)].([]interface{})
					if c["tr"] != "gateway" || c["m"] != "/gripql.Edit/BulkAdd" {
						cr = creds[r.Rng.Intn(len(creds))].([]interface{})
					}
					c["hdr"] = c05B64(cr[0].(string), cr[1].(string))
				}
				calls = append(calls, c)
				continue
			}
			m := methods[r.Rng.Intn(len(methods))]
			tr := Pick(r.Rng, []string{"grpc", "gateway"})
			cr := creds[r.Rng.Intn(len(creds))].([]interface{})
			var hdr interface{} = c05B64(cr[0].(string), cr[1].(string))
			if tr == "gateway" && m.Kind == "clientStream" {
				// a refused gateway BulkAdd hangs (open finding C05-gateway-bulk-hang, base mode): valid callers only
				cr = creds[2+r.Rng.Intn(2)].([]interface{})
				hdr = c05B64(cr[0].(string), cr[1].(string))
			} else {
				switch r.Rng.Intn(8) {
				case 0:
					hdr = nil
				case 1:
					hdr = c05B64(cr[0].(string), "nope")
				case 2:
					hdr = "Bearer abc"
				}
			}
			g := Pick(r.Rng, []string{graphs[0], graphs[1], "other"})
			var elems []interface{}
			if m.Kind == "clientStream" {
				for j, eg := range []string{graphs[0], graphs[1], graphs[0], "other"}[:1+r.Rng.Intn(4)] {
					elems = append(elems, map[string]interface{}{"ty": m.In, "graph": eg, "tag": fmt.Sprintf("v%d", j)})
				}
			}
			if elems == nil {
				elems = []interface{}{}
			}
			calls = append(calls, map[string]interface{}{"tr": tr, "m": m.Full, "hdr": hdr, "req": c05Req(m, g, fmt.Sprintf("r%d", k)), "elems": elems})
		}
		obs := emit(map[string]interface{}{"op": "e2e", "policy": pol, "creds": creds, "calls": calls})
		if res, ok := obs["res"].([]interface{}); ok {
			for k, x := range res {
				o := x.(map[string]interface{})
				c := calls[k].(map[string]interface{})
				r.Count("e2e.err=" + fmt.Sprint(o["err"]))
				r.NonTrivial(fmt.Sprint("e2e|", c["m"], "|", c["tr"], "|", o["err"], o["handled"] != nil))
			}
		}
	}
	// the policy cannot be loaded: every authenticated caller is refused everything (root included?
	// the MODEL answers with the empty policy, which is what an enforcer that does not exist grants)
	{
		pol := []interface{}{[]interface{}{"alice", "g1", "read"}, []interface{}{"alice", "g1", "write"}, []interface{}{"bob", "*", "read"}}
		creds := []interface{}{[]interface{}{"alice", "pa"}, []interface{}{"bob", "pb"}, []interface{}{"root", "pr"}}
		for _, fault := range []string{"missing-policy", "garbled-model", "missing-model"} {
			var calls []interface{}
			k := 0
			for _, m := range methods {
				for _, cr := range creds {
					c := cr.([]interface{})
					for _, tr := range []string{"grpc", "gateway"} {
						if tr == "gateway" && m.Kind == "clientStream" {
							continue // a refused gateway BulkAdd hangs (open finding)
						}
						k++
						var elems []interface{} = []interface{}{}
						if m.Kind == "clientStream" {
							elems = []interface{}{map[string]interface{}{"ty": m.In, "graph": "g1", "tag": "v0"}}
						}
						calls = append(calls, map[string]interface{}{"tr": tr, "m": m.Full, "hdr": c05B64(c[0].(string), c[1].(string)),
							"req": c05Req(m, "g1", fmt.Sprintf("f%d", k)), "elems": elems})
					}
				}
			}
			emit(map[string]interface{}{"op": "e2e", "fault": fault, "policy": pol, "creds": creds, "calls": calls})
			r.Count("e2e.fault=" + fault)
		}
	}
	r.Notes = append(r.Notes, "access mode: real accounts.CasbinAccess (repository's test/model.conf), BasicAuth, ProxyAuth; one instance per sequence")
}
