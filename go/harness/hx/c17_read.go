package hx

// C17, last sentence ("concurrent readers only ever observe elements that some client wrote"):
// op `readpath` runs ONE read path of kvgraph (the batched lookups behind V(ids), out, in, outE,
// inE) against complete writer calls placed at chosen points of its life:
//
//	add(init) ; … ; open ; write call ; write call ; … ; drain
//
// `open`  starts the path's goroutines and waits until a signal has travelled through them: every
//
//	View of the path is open from then on (the loops over the request channel run inside View);
//
// write calls (AddVertex / AddEdge / DelEdge / DelVertex) are complete, acknowledged calls;
// `drain` sends the requests, then a second signal, and collects what comes out before it.
// The MODEL (Grip.C17Read.runScenario) executes the same event list on its transition system
// (snapshot at open; record lookups on the snapshot for badger, on the live store for level and
// pebble).  bolt is left out: a bolt write that has to grow the memory map waits for every open
// read transaction (documented bolt behaviour), so a View held open across a write can block the
// writer for as long as the reader waits — nothing the harness may wait for.

import (
	"context"
	"encoding/json"
	"fmt"
	"math/rand"
	"sort"
	"time"

	"github.com/bmeg/grip/gdbi"
)

var c17ReadDrivers = []string{"level", "pebble", "badger"}
var c17ReadPaths = []string{"outE", "inE", "out", "in", "vertexBatch"}

func c17ReadSignal(id int) gdbi.ElementLookup {
	return gdbi.ElementLookup{Ref: &gdbi.BaseTraveler{Signal: &gdbi.Signal{ID: id}}}
}

// c17ReadUntil collects the elements that come out before the next signal; ok=false on a timeout
// or a closed channel
func c17ReadUntil(out chan gdbi.ElementLookup, path string) ([]interface{}, bool) {
	res := []interface{}{}
	deadline := time.After(60 * time.Second)
	for {
		select {
		case x, open := <-out:
			if !open {
				return res, false
			}
			if x.IsSignal() {
				return res, true
			}
			switch path {
			case "outE", "inE":
				if x.Edge == nil {
					res = append(res, map[string]interface{}{"nil": true})
				} else {
					res = append(res, map[string]interface{}{"e": eOut(x.Edge)})
				}
			default:
				if x.Vertex == nil {
					res = append(res, map[string]interface{}{"nil": true})
				} else {
					res = append(res, map[string]interface{}{"v": vOut(x.Vertex)})
				}
			}
		case <-deadline:
			return res, false
		}
	}
}

func c17ReadExec(op map[string]interface{}) map[string]interface{} {
	drv, _ := op["drv"].(string)
	path, _ := op["path"].(string)
	e, err := NewEng(drv)
	if err != nil {
		return map[string]interface{}{"error": "open: " + err.Error()}
	}
	defer e.Destroy()
	if err := e.DB.AddGraph("g"); err != nil {
		return map[string]interface{}{"error": "addGraph: " + err.Error()}
	}
	g, err := e.DB.Graph("g")
	if err != nil {
		return map[string]interface{}{"error": "graph: " + err.Error()}
	}
	add := func(xs []interface{}) error {
		// one call per run of vertices / edges, in order (AddVertex and AddEdge are one BulkWrite each)
		for _, x := range xs {
			m := x.(map[string]interface{})
			if v, ok := m["v"]; ok {
				if err := g.AddVertex([]*gdbi.Vertex{c03Vertex(v.(map[string]interface{}))}); err != nil {
					return err
				}
			} else if ed, ok := m["e"]; ok {
				if err := g.AddEdge([]*gdbi.Edge{c03Edge(ed.(map[string]interface{}))}); err != nil {
					return err
				}
			}
		}
		return nil
	}
	initXs, _ := op["init"].([]interface{})
	if err := add(initXs); err != nil {
		return map[string]interface{}{"error": "init: " + err.Error()}
	}
	var labels []string
	if ls, ok := op["labels"].([]interface{}); ok {
		for _, l := range ls {
			labels = append(labels, l.(string))
		}
	}
	reqs, _ := op["reqs"].([]interface{})
	ctx, cancel := context.WithCancel(context.Background())
	defer cancel()
	var reqChan chan gdbi.ElementLookup
	var out chan gdbi.ElementLookup
	emitted := []interface{}{}
	note := ""
	calls, _ := op["calls"].([]interface{})
	for _, c := range calls {
		cm := c.(map[string]interface{})
		switch cm["c"] {
		case "open":
			if reqChan != nil {
				continue
			}
			reqChan = make(chan gdbi.ElementLookup, 10)
			switch path {
			case "outE":
				out = g.GetOutEdgeChannel(ctx, reqChan, true, false, labels)
			case "inE":
				out = g.GetInEdgeChannel(ctx, reqChan, true, false, labels)
			case "out":
				out = g.GetOutChannel(ctx, reqChan, true, false, labels)
			case "in":
				out = g.GetInChannel(ctx, reqChan, true, false, labels)
			default:
				out = g.GetVertexChannel(ctx, reqChan, true)
			}
			reqChan <- c17ReadSignal(1)
			if _, ok := c17ReadUntil(out, path); !ok {
				note = "open: the signal did not come back"
			}
		case "add":
			xs, _ := cm["xs"].([]interface{})
			if err := add(xs); err != nil {
				note = "add: " + err.Error()
			}
		case "delE":
			g.DelEdge(cm["id"].(string))
		case "delV":
			g.DelVertex(cm["id"].(string))
		case "drain":
			if reqChan == nil {
				continue
			}
			go func() {
				for _, q := range reqs {
					reqChan <- gdbi.ElementLookup{ID: q.(string)}
				}
				reqChan <- c17ReadSignal(2)
			}()
			got, ok := c17ReadUntil(out, path)
			emitted = append(emitted, got...)
			if !ok {
				note = "drain: the closing signal did not come back"
			}
		}
	}
	if reqChan != nil {
		close(reqChan)
		t := time.After(30 * time.Second)
	wait:
		for {
			select {
			case _, open := <-out:
				if !open {
					break wait
				}
			case <-t:
				note = "the path did not close"
				break wait
			}
		}
	}
	sort.SliceStable(emitted, func(i, j int) bool { return c17ReadKey(emitted[i]) < c17ReadKey(emitted[j]) })
	res := map[string]interface{}{"out": emitted}
	if note != "" {
		res["note"] = note
	}
	return res
}

// c17ReadKey: kind, id, label, from, to, data text — the order both sides list the output in
func c17ReadKey(x interface{}) string {
	m := x.(map[string]interface{})
	str := func(e map[string]interface{}, k string) string {
		s, _ := e[k].(string)
		return s
	}
	for _, kind := range []string{"e", "v"} {
		if e, ok := m[kind].(map[string]interface{}); ok {
			d, _ := json.Marshal(e["data"])
			return kind + "\x01" + str(e, "gid") + "\x01" + str(e, "label") + "\x01" + str(e, "from") + "\x01" + str(e, "to") + "\x01" + string(d)
		}
	}
	return "nil"
}

func c17ReadData(r *rand.Rand) map[string]interface{} {
	switch r.Intn(3) {
	case 0:
		return nil
	case 1:
		return map[string]interface{}{"w": float64(r.Intn(3))}
	}
	return map[string]interface{}{"k": "s"}
}

// c17ReadDirected: the witness of the repaired defect (an acknowledged DelEdge while an edge path
// holds its View open) and its neighbours, on every driver.
func c17ReadDirected() []map[string]interface{} {
	var ops []map[string]interface{}
	l := func(xs ...interface{}) []interface{} { return append([]interface{}{}, xs...) }
	v := func(id, lab string) interface{} { return map[string]interface{}{"v": c03V(id, lab, nil)} }
	ed := func(id, lab, f, t string, d map[string]interface{}) interface{} {
		return map[string]interface{}{"e": c03E(id, lab, f, t, d)}
	}
	base := l(v("a", "P"), v("b", "P"), v("c", "Q"), ed("e1", "knows", "a", "b", map[string]interface{}{"w": 1.0}),
		ed("e2", "knows", "a", "c", nil), ed("e3", "likes", "c", "a", nil))
	call := func(c string, kv ...interface{}) interface{} {
		m := map[string]interface{}{"c": c}
		for i := 0; i+1 < len(kv); i += 2 {
			m[kv[i].(string)] = kv[i+1]
		}
		return m
	}
	mids := [][]interface{}{
		l(call("delE", "id", "e1")),
		l(call("delV", "id", "b")),
		l(call("delE", "id", "e1"), call("add", "xs", l(ed("e1", "knows", "a", "b", map[string]interface{}{"w": 2.0})))),
		l(call("delE", "id", "e1"), call("add", "xs", l(ed("e1", "knows", "a", "c", nil)))),
		l(call("delV", "id", "b"), call("add", "xs", l(v("b", "Q")))),
		l(call("add", "xs", l(ed("e9", "knows", "a", "c", nil), v("a", "R")))),
		l(),
	}
	for _, drv := range c17ReadDrivers {
		for _, path := range c17ReadPaths {
			for _, mid := range mids {
				calls := append(l(call("open")), mid...)
				calls = append(calls, call("drain"))
				ops = append(ops, map[string]interface{}{"op": "readpath", "drv": drv, "path": path,
					"reqs": l("a", "b", "c", "zz"), "labels": l(), "init": base, "calls": calls})
			}
		}
	}
	return ops
}

func c17ReadRandom(r *rand.Rand) map[string]interface{} {
	ids := []string{"a", "b", "c", "d"}
	eids := []string{"e1", "e2", "e3", "e4"}
	vl := []string{"P", "Q"}
	el := []string{"knows", "likes"}
	elem := func() interface{} {
		if r.Intn(5) < 2 {
			return map[string]interface{}{"v": c03V(Pick(r, ids), Pick(r, vl), c17ReadData(r))}
		}
		return map[string]interface{}{"e": c03E(Pick(r, eids), Pick(r, el), Pick(r, ids), Pick(r, ids), c17ReadData(r))}
	}
	var init []interface{}
	for _, id := range ids[:3] {
		init = append(init, map[string]interface{}{"v": c03V(id, Pick(r, vl), c17ReadData(r))})
	}
	// edge ids are written once in `init` (re-adding an edge id with other endpoints is the open
	// finding C03-edge-readd: it leaves the old adjacency keys behind, which is C03's business)
	for _, id := range eids[:2+r.Intn(3)] {
		init = append(init, map[string]interface{}{"e": c03E(id, Pick(r, el), Pick(r, ids[:3]), Pick(r, ids[:3]), c17ReadData(r))})
	}
	calls := []interface{}{}
	pre := r.Intn(2)
	for i := 0; i < pre; i++ {
		calls = append(calls, map[string]interface{}{"c": "delE", "id": Pick(r, eids)})
	}
	calls = append(calls, map[string]interface{}{"c": "open"})
	n := r.Intn(4)
	deleted := map[string]bool{}
	for i := 0; i < n; i++ {
		switch r.Intn(5) {
		case 0, 1:
			id := Pick(r, eids)
			deleted[id] = true
			calls = append(calls, map[string]interface{}{"c": "delE", "id": id})
		case 2:
			calls = append(calls, map[string]interface{}{"c": "delV", "id": Pick(r, ids)})
		default:
			x := elem().(map[string]interface{})
			if ed, ok := x["e"]; ok {
				// a re-add keeps endpoints and label of the id's first edge unless the id was deleted before
				id := ed.(map[string]interface{})["gid"].(string)
				if !deleted[id] {
					continue
				}
			}
			calls = append(calls, map[string]interface{}{"c": "add", "xs": []interface{}{x}})
		}
	}
	calls = append(calls, map[string]interface{}{"c": "drain"})
	var labels []interface{}
	if r.Intn(3) == 0 {
		labels = append(labels, Pick(r, el))
	}
	reqs := []interface{}{}
	for _, id := range ids {
		if r.Intn(4) > 0 {
			reqs = append(reqs, id)
		}
	}
	if labels == nil {
		labels = []interface{}{}
	}
	return map[string]interface{}{"op": "readpath", "drv": Pick(r, c17ReadDrivers), "path": Pick(r, c17ReadPaths),
		"reqs": reqs, "labels": labels, "init": init, "calls": calls}
}

func c17ReadGen(r *Run) {
	n := 150
	if r.Tier == "thorough" {
		n = 1500
	}
	for _, op := range c17ReadDirected() {
		r.Emit(op, c17ReadExec(op))
		r.Count(fmt.Sprintf("readpath:%v:%v", op["drv"], op["path"]))
	}
	for i := 0; i < n; i++ {
		op := c17ReadRandom(r.Rng)
		r.Emit(op, c17ReadExec(op))
		r.Count(fmt.Sprintf("readpath:%v:%v", op["drv"], op["path"]))
	}
}
