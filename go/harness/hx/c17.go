package hx

// C17 — concurrent client sessions against ONE in-process grip server.
//
// The parent process (`hx C17`) generates sessions from the seed, builds this same harness once more
// with `go build -race` (the race detector needs cgo and the race runtime; both are present offline
// here — when the build fails the parent falls back to the plain binary and says so in the notes)
// and runs the sessions in a WORKER subprocess (`-mode worker`): a real server.GripServer over an
// embedded badger kvgraph, started with Serve (so that the job storage exists), driven through the
// repo's own in-process "direct" gRPC clients from one goroutine per client.
//
// What is observed per session and compared with the Lean driver:
//   * liveness: the worker process survives (a Go "fatal error: concurrent map …" kills it);
//   * data races reported by the race detector, de-duplicated by the pair of grip functions on top
//     of the two stacks (the MODEL says: none, except pairs listed as open findings);
//   * the final stored graph (through V()/E() traversals after every client has returned) must be a
//     result of applying the acknowledged edits in an order consistent with each client's order
//     (disjoint ids: the one result; overlapping ids: membership in the enumerated set);
//   * everything concurrent readers (GetVertex, V()/E() traversals, GetSchema, job results) saw must
//     be an element some client wrote.
// The race detector only supports the search; the proof obligation is the lockset theorem over the
// regenerated SharedAccess table.

import (
	"bufio"
	"context"
	"encoding/json"
	"fmt"
	"math/rand"
	"net"
	"os"
	"os/exec"
	"path/filepath"
	"regexp"
	"runtime"
	"sort"
	"strings"
	"sync"
	"time"

	"github.com/bmeg/grip/config"
	"github.com/bmeg/grip/gdbi"
	"github.com/bmeg/grip/gripql"
	"github.com/bmeg/grip/kvgraph"
	"github.com/bmeg/grip/log"
	"github.com/bmeg/grip/server"
	"github.com/bmeg/grip/util/rpc"
	"google.golang.org/protobuf/types/known/structpb"
)

func init() {
	Registry["C17"] = Prop{Gen: c17Gen, Replay: c17Replay}
}

type c17Session struct {
	Kind    string                     `json:"kind"`
	Graphs  []string                   `json:"graphs"`
	Setup   []map[string]interface{}   `json:"setup"`
	Clients [][]map[string]interface{} `json:"clients"`
	Readers int                        `json:"readers"`
	Jobs    int                        `json:"jobs"`
}

type c17Final struct {
	Verts []interface{} `json:"verts"`
	Edges []interface{} `json:"edges"`
}

type c17Result struct {
	Done     bool                `json:"done"`
	Acks     [][]bool            `json:"acks"`
	Finals   map[string]c17Final `json:"finals"`
	Observed map[string]c17Final `json:"observed"`
	RaceOff  int64               `json:"race_off"`
	Note     string              `json:"note,omitempty"`
}

// ---------------------------------------------------------------- generation

func c17Data(r *rand.Rand) interface{} {
	return Tag(map[string]interface{}{"k": float64(r.Intn(5))})
}

func c17V(id, label string, data interface{}) map[string]interface{} {
	return map[string]interface{}{"gid": id, "label": label, "data": data}
}

func c17E(id, label, from, to string, data interface{}) map[string]interface{} {
	return map[string]interface{}{"gid": id, "label": label, "from": from, "to": to, "data": data}
}

func c17GenSession(r *rand.Rand, kind string, n int, big bool) c17Session {
	g := fmt.Sprintf("g%d", n)
	s := c17Session{Kind: kind, Graphs: []string{g}}
	s.Setup = append(s.Setup, map[string]interface{}{"op": "addGraph", "g": g})
	switch kind {
	case "disjoint":
		// every client owns its vertices and the edges among them
		nc := 3 + r.Intn(2)
		nops := 6 + r.Intn(6)
		if big {
			nc, nops = 6+r.Intn(6), 12+r.Intn(12)
		}
		for c := 0; c < nc; c++ {
			vid := func(i int) string { return fmt.Sprintf("c%dv%d", c, i) }
			// fixed label per vertex id, fixed endpoints and label per edge id
			eid := func(i int) (string, string, string) {
				return fmt.Sprintf("c%de%d", c, i), vid(i % 4), vid((i + 1 + i/4) % 4)
			}
			var setupV, setupE []interface{}
			for i := 0; i < 2; i++ {
				setupV = append(setupV, c17V(vid(i), "L"+fmt.Sprint(i%2), c17Data(r)))
			}
			id, f, t := eid(0)
			setupE = append(setupE, c17E(id, "rel", f, t, c17Data(r)))
			s.Setup = append(s.Setup, map[string]interface{}{"op": "addV", "g": g, "vs": setupV},
				map[string]interface{}{"op": "addE", "g": g, "es": setupE})
			var ops []map[string]interface{}
			for k := 0; k < nops; k++ {
				switch x := r.Intn(10); {
				case x < 3:
					i := r.Intn(4)
					ops = append(ops, map[string]interface{}{"op": "addV", "g": g, "vs": []interface{}{c17V(vid(i), "L"+fmt.Sprint(i%2), c17Data(r))}})
				case x < 5:
					id, f, t := eid(r.Intn(6))
					ops = append(ops, map[string]interface{}{"op": "addE", "g": g, "es": []interface{}{c17E(id, "rel", f, t, c17Data(r))}})
				case x < 6:
					ops = append(ops, map[string]interface{}{"op": "delV", "g": g, "id": vid(r.Intn(4))})
				case x < 7:
					id, _, _ := eid(r.Intn(6))
					ops = append(ops, map[string]interface{}{"op": "delE", "g": g, "id": id})
				default:
					var xs []interface{}
					for j := 0; j < 2+r.Intn(4); j++ {
						if r.Intn(2) == 0 {
							i := r.Intn(4)
							xs = append(xs, map[string]interface{}{"v": c17V(vid(i), "L"+fmt.Sprint(i%2), c17Data(r))})
						} else {
							id, f, t := eid(r.Intn(6))
							xs = append(xs, map[string]interface{}{"e": c17E(id, "rel", f, t, c17Data(r))})
						}
					}
					ops = append(ops, map[string]interface{}{"op": "bulk", "g": g, "xs": xs})
				}
			}
			s.Clients = append(s.Clients, ops)
		}
		s.Readers = 1 + r.Intn(2)
	case "overlap":
		// a small shared pool; 2–3 clients, few operations: the Lean driver enumerates every order
		nc := 2 + r.Intn(2)
		nops := 2 + r.Intn(3)
		if nc == 3 && nops == 4 && !big {
			nops = 3
		}
		vid := func(i int) string { return fmt.Sprintf("v%d", i) }
		eid := func(i int) (string, string, string) { return fmt.Sprintf("e%d", i), vid(i % 3), vid((i + 1) % 3) }
		var setupV, setupE []interface{}
		for i := 0; i < 3; i++ {
			if r.Intn(3) > 0 {
				setupV = append(setupV, c17V(vid(i), "L", c17Data(r)))
			}
		}
		for i := 0; i < 3; i++ {
			if r.Intn(2) == 0 {
				id, f, t := eid(i)
				setupE = append(setupE, c17E(id, "rel", f, t, c17Data(r)))
			}
		}
		if len(setupV) > 0 {
			s.Setup = append(s.Setup, map[string]interface{}{"op": "addV", "g": g, "vs": setupV})
		}
		if len(setupE) > 0 {
			s.Setup = append(s.Setup, map[string]interface{}{"op": "addE", "g": g, "es": setupE})
		}
		for c := 0; c < nc; c++ {
			var ops []map[string]interface{}
			for k := 0; k < nops; k++ {
				switch x := r.Intn(10); {
				case x < 3:
					ops = append(ops, map[string]interface{}{"op": "addV", "g": g, "vs": []interface{}{c17V(vid(r.Intn(3)), "L", c17Data(r))}})
				case x < 6:
					id, f, t := eid(r.Intn(3))
					ops = append(ops, map[string]interface{}{"op": "addE", "g": g, "es": []interface{}{c17E(id, "rel", f, t, c17Data(r))}})
				case x < 8:
					ops = append(ops, map[string]interface{}{"op": "delV", "g": g, "id": vid(r.Intn(3))})
				default:
					id, _, _ := eid(r.Intn(3))
					ops = append(ops, map[string]interface{}{"op": "delE", "g": g, "id": id})
				}
			}
			s.Clients = append(s.Clients, ops)
		}
		s.Readers = 1
	case "graphs":
		// graph creation/deletion, schema upload/read, job submit/poll, each client on its own graphs
		nc := 3 + r.Intn(2)
		if big {
			nc = 6 + r.Intn(4)
		}
		s.Graphs = nil
		s.Setup = nil
		for c := 0; c < nc; c++ {
			gc := fmt.Sprintf("g%dc%d", n, c)
			s.Graphs = append(s.Graphs, gc)
			var ops []map[string]interface{}
			ops = append(ops, map[string]interface{}{"op": "addGraph", "g": gc})
			for k := 0; k < 4+r.Intn(5); k++ {
				switch x := r.Intn(12); {
				case x < 4:
					i := r.Intn(4)
					ops = append(ops, map[string]interface{}{"op": "addV", "g": gc, "vs": []interface{}{c17V(fmt.Sprintf("v%d", i), "L", c17Data(r))}})
				case x < 6:
					i := r.Intn(3)
					ops = append(ops, map[string]interface{}{"op": "addE", "g": gc, "es": []interface{}{c17E(fmt.Sprintf("e%d", i), "rel", fmt.Sprintf("v%d", i), fmt.Sprintf("v%d", i+1), c17Data(r))}})
				case x < 8:
					// schema upload: stored as graph <g>__schema__ (vertices S0,S1)
					// (in any order, read back by several overlapping readers)
					vs := []interface{}{}
					for _, i := range r.Perm(4) {
						vs = append(vs, c17V(fmt.Sprintf("S%d", i), "SL", c17Data(r)))
					}
					ops = append(ops, map[string]interface{}{"op": "schema", "g": gc, "vs": vs, "readers": 4})
				case x < 9:
					ops = append(ops, map[string]interface{}{"op": "delGraph", "g": gc}, map[string]interface{}{"op": "addGraph", "g": gc})
				case x < 10:
					ops = append(ops, map[string]interface{}{"op": "delV", "g": gc, "id": fmt.Sprintf("v%d", r.Intn(4))})
				default:
					ops = append(ops, map[string]interface{}{"op": "job", "g": gc})
				}
			}
			if c < 2 {
				// two clients hammer the job API: 400 rounds each of submit / poll without a pause / view
				ops = append(ops, map[string]interface{}{"op": "addV", "g": gc, "vs": []interface{}{c17V("j0", "L", c17Data(r)), c17V("j1", "L", c17Data(r)), c17V("j2", "L", c17Data(r))}},
					map[string]interface{}{"op": "job", "g": gc, "n": 400})
			}
			s.Clients = append(s.Clients, ops)
		}
		s.Readers = 2
		s.Jobs = 1
	}
	return s
}

// modelOps rewrites the harness-only operations for the Lean driver: a schema upload is a write
// of its vertices into graph <g>__schema__ (only the readers' clause looks at it), a job is no edit.
func c17ModelOps(ops []map[string]interface{}, acks []bool) ([]interface{}, []interface{}) {
	var out, ack []interface{}
	for i, op := range ops {
		a := i < len(acks) && acks[i]
		switch op["op"] {
		case "schema":
			out = append(out, map[string]interface{}{"op": "addV", "g": op["g"].(string) + "__schema__", "vs": op["vs"]})
			ack = append(ack, a)
		case "job":
		default:
			out = append(out, op)
			ack = append(ack, a)
		}
	}
	if out == nil {
		out = []interface{}{}
		ack = []interface{}{}
	}
	return out, ack
}

// ---------------------------------------------------------------- parent

func c17HarnessDir() string {
	_, file, _, _ := runtime.Caller(0)
	return filepath.Dir(filepath.Dir(file)) // …/go/harness
}

var c17BuildNote string

// c17Worker returns the worker binary: the race-instrumented build when possible.
func c17Worker(r *Run) (string, bool) {
	hd := c17HarnessDir()
	bin := filepath.Join(hd, "..", "..", ".work", "bin", "hx-race")
	os.MkdirAll(filepath.Dir(bin), 0o755)
	cmd := exec.Command("go", "build", "-race", "-tags", "verif", "-o", bin, "./cmd/hx")
	cmd.Dir = hd
	cmd.Env = append(os.Environ(), "CGO_ENABLED=1")
	out, err := cmd.CombinedOutput()
	if err != nil {
		c17BuildNote = "race build failed, falling back to liveness + final-state checks only: " + strings.TrimSpace(string(out))
		if len(c17BuildNote) > 400 {
			c17BuildNote = c17BuildNote[:400]
		}
		self, _ := os.Executable()
		return self, false
	}
	return bin, true
}

type c17Race struct{ F, G string }

var c17AccessRe = regexp.MustCompile(`^(Read|Write|Previous read|Previous write|Atomic read|Atomic write|Previous atomic read|Previous atomic write) at 0x[0-9a-f]+ by `)

func c17NormFn(fn string) string {
	fn = strings.TrimSuffix(strings.TrimSpace(fn), "()")
	const pre = "github.com/bmeg/grip/"
	if !strings.HasPrefix(fn, pre) {
		return ""
	}
	fn = fn[len(pre):]
	if i := strings.LastIndex(fn, "/"); i >= 0 {
		fn = fn[i+1:]
	}
	fn = strings.ReplaceAll(fn, "(*", "")
	fn = strings.ReplaceAll(fn, ")", "")
	// closures: pkg.T.M.func1.2, pkg.F.func2, pkg.F.gowrap1
	parts := strings.Split(fn, ".")
	var keep []string
	for _, p := range parts {
		if strings.HasPrefix(p, "func") || strings.HasPrefix(p, "gowrap") || strings.HasPrefix(p, "deferwrap") || (len(p) > 0 && p[0] >= '0' && p[0] <= '9') {
			break
		}
		keep = append(keep, p)
	}
	return strings.Join(keep, ".")
}

// c17ParseRaces reads race reports written from byte offset lo (inclusive) to hi (exclusive).
func c17ParseRaces(text string) []c17Race {
	var out []c17Race
	seen := map[string]bool{}
	for _, block := range strings.Split(text, "==================") {
		if !strings.Contains(block, "WARNING: DATA RACE") {
			continue
		}
		var tops []string
		lines := strings.Split(block, "\n")
		for i := 0; i < len(lines) && len(tops) < 2; i++ {
			if !c17AccessRe.MatchString(lines[i]) {
				continue
			}
			top, first := "", ""
			for j := i + 1; j < len(lines) && strings.TrimSpace(lines[j]) != ""; j++ {
				l := lines[j]
				if strings.HasPrefix(l, "      ") || !strings.HasPrefix(l, "  ") {
					continue
				}
				if first == "" {
					first = strings.TrimSuffix(strings.TrimSpace(l), "()")
				}
				if n := c17NormFn(l); n != "" {
					top = n
					break
				}
			}
			if top == "" {
				top = "external:" + first
			}
			tops = append(tops, top)
		}
		if len(tops) < 2 {
			continue
		}
		sort.Strings(tops)
		k := tops[0] + "|" + tops[1]
		if !seen[k] {
			seen[k] = true
			out = append(out, c17Race{tops[0], tops[1]})
		}
	}
	return out
}

func c17ReadRaceLogs(dir string) string {
	var b strings.Builder
	ms, _ := filepath.Glob(filepath.Join(dir, "race.*"))
	sort.Strings(ms)
	for _, m := range ms {
		d, _ := os.ReadFile(m)
		b.Write(d)
	}
	return b.String()
}

// c17RunBatch runs sessions in one worker process; returns results (nil for sessions not reached),
// the index of the session in flight when the process died (-1 if it survived), the crash class
// and the raw race log.
func c17RunBatch(r *Run, worker string, sessions []c17Session, tag string) ([]*c17Result, int, string, string) {
	dir := filepath.Join(r.Dir, "w-"+tag)
	os.RemoveAll(dir)
	os.MkdirAll(dir, 0o755)
	in := filepath.Join(dir, "sessions.jsonl")
	f, _ := os.Create(in)
	for _, s := range sessions {
		b, _ := json.Marshal(map[string]interface{}{"op": "worker-session", "s": s})
		f.Write(b)
		f.Write([]byte("\n"))
	}
	f.Close()
	ctx, cancel := context.WithTimeout(context.Background(), time.Duration(300+60*len(sessions))*time.Second)
	defer cancel()
	cmd := exec.CommandContext(ctx, worker, "C17", "-mode", "worker", "-out", dir, "-replay", in)
	cmd.Dir = dir
	cmd.Env = append(os.Environ(), "GORACE=halt_on_error=0 exitcode=0 log_path="+filepath.Join(dir, "race"), "VERIF_WORK="+dir)
	errf, _ := os.Create(filepath.Join(dir, "worker.stderr"))
	cmd.Stdout = errf
	cmd.Stderr = errf
	err := cmd.Run()
	errf.Close()
	results := make([]*c17Result, len(sessions))
	n := 0
	if rf, e := os.Open(filepath.Join(dir, "results.jsonl")); e == nil {
		sc := bufio.NewScanner(rf)
		sc.Buffer(make([]byte, 1<<20), 1<<26)
		for sc.Scan() && n < len(sessions) {
			var res c17Result
			if json.Unmarshal(sc.Bytes(), &res) == nil {
				results[n] = &res
				n++
			}
		}
		rf.Close()
	}
	crashed, class := -1, ""
	if err != nil || n < len(sessions) {
		crashed = n
		if crashed >= len(sessions) {
			crashed = len(sessions) - 1
		}
		tail, _ := os.ReadFile(filepath.Join(dir, "worker.stderr"))
		t := string(tail)
		switch {
		case strings.Contains(t, "fatal error: concurrent map"):
			class = "concurrent-map"
		case strings.Contains(t, "panic:"):
			class = "panic"
		case ctx.Err() != nil:
			class = "timeout"
		default:
			class = "exit"
		}
		if i := strings.Index(t, "fatal error:"); i >= 0 {
			r.Notes = append(r.Notes, "worker died: "+firstLines(t[i:], 12))
		} else if i := strings.Index(t, "panic:"); i >= 0 {
			r.Notes = append(r.Notes, "worker died: "+firstLines(t[i:], 12))
		} else if len(t) > 600 {
			r.Notes = append(r.Notes, "worker died: "+t[len(t)-600:])
		} else {
			r.Notes = append(r.Notes, "worker died: "+t)
		}
	}
	return results, crashed, class, c17ReadRaceLogs(dir)
}

func firstLines(s string, n int) string {
	ls := strings.Split(s, "\n")
	if len(ls) > n {
		ls = ls[:n]
	}
	return strings.Join(ls, "\n")
}

// c17Emit writes the protocol lines of one session.
func c17Emit(r *Run, s c17Session, res *c17Result, alive bool, class string, races []c17Race) {
	r.Emit(map[string]interface{}{"op": "reset"}, map[string]interface{}{"r": "ok"})
	var clients, acks []interface{}
	for i, c := range s.Clients {
		var a []bool
		if res != nil && i < len(res.Acks) {
			a = res.Acks[i]
		}
		co, ca := c17ModelOps(c, a)
		clients = append(clients, co)
		acks = append(acks, ca)
	}
	setup := []interface{}{}
	for _, o := range s.Setup {
		setup = append(setup, o)
	}
	obs := map[string]interface{}{"alive": alive}
	if !alive {
		obs["fatal"] = class
	}
	// the full session (readers, jobs, harness-only ops) rides along for replay
	r.Emit(map[string]interface{}{"op": "session", "kind": s.Kind, "setup": setup, "clients": clients, "acks": acks, "raw": s}, obs)
	r.Count("session:" + s.Kind)
	for _, rc := range races {
		r.Emit(map[string]interface{}{"op": "race", "f": rc.F, "g": rc.G}, map[string]interface{}{"race": true})
		r.Count("race-report")
	}
	if res == nil || !res.Done {
		return
	}
	mode := "overlap"
	if s.Kind != "overlap" {
		mode = "disjoint"
	}
	gs := make([]string, 0, len(res.Finals))
	for g := range res.Finals {
		gs = append(gs, g)
	}
	sort.Strings(gs)
	for _, g := range gs {
		fin := res.Finals[g]
		r.Emit(map[string]interface{}{"op": "final", "g": g, "mode": mode, "verts": orEmpty(fin.Verts), "edges": orEmpty(fin.Edges)},
			map[string]interface{}{"admissible": true})
		r.Count("final:" + mode)
	}
	os2 := make([]string, 0, len(res.Observed))
	for g := range res.Observed {
		os2 = append(os2, g)
	}
	sort.Strings(os2)
	for _, g := range os2 {
		o := res.Observed[g]
		r.Emit(map[string]interface{}{"op": "observed", "g": g, "verts": orEmpty(o.Verts), "edges": orEmpty(o.Edges)},
			map[string]interface{}{"written": true})
		r.Count("observed")
		r.Dist["observed-elements"] += len(o.Verts) + len(o.Edges)
	}
	b, _ := json.Marshal(s.Clients)
	r.NonTrivial(s.Kind + string(b))
}

func orEmpty(x []interface{}) []interface{} {
	if x == nil {
		return []interface{}{}
	}
	return x
}

func c17RunAndEmit(r *Run, worker string, sessions []c17Session, tag string) {
	results, crashed, class, racelog := c17RunBatch(r, worker, sessions, tag)
	if class == "timeout" && (crashed > 0 || !strings.HasSuffix(tag, "-again")) {
		// the machine is shared: a batch that ran out of time is repeated once, starting with the
		// session that was in flight; only a session that times out again on its own counts
		r.Notes = append(r.Notes, fmt.Sprintf("batch %s timed out in session %d; repeating from there", tag, crashed))
		for i := 0; i < crashed; i++ {
			c17EmitOne(r, sessions, results, i, -1, "", racelog, new(int64))
		}
		c17RunAndEmit(r, worker, sessions[crashed:], tag+"-again")
		return
	}
	// attribute each race report to the session during which it was written
	off := new(int64)
	for i := range sessions {
		if results[i] == nil && crashed != i {
			// not reached because an earlier session killed the worker: run the rest separately
			c17RunAndEmit(r, worker, sessions[i:], fmt.Sprintf("%s-r%d", tag, i))
			return
		}
		c17EmitOne(r, sessions, results, i, crashed, class, racelog, off)
	}
}

func c17EmitOne(r *Run, sessions []c17Session, results []*c17Result, i, crashed int, class, racelog string, off *int64) {
	res := results[i]
	alive := !(crashed == i)
	var races []c17Race
	if res != nil {
		// reports written after the last session's end belong to the worker's shutdown
		// (Serve's grpcErr/httpErr hand-over), which is outside the property's quantifier
		hi := res.RaceOff
		if hi > int64(len(racelog)) {
			hi = int64(len(racelog))
		}
		if hi > *off {
			races = c17ParseRaces(racelog[*off:hi])
			*off = hi
		}
	} else if crashed == i {
		races = c17ParseRaces(racelog[*off:])
		*off = int64(len(racelog))
	}
	c17Emit(r, sessions[i], res, alive, class, races)
}

func c17Gen(r *Run) {
	if r.Mode == "worker" {
		fmt.Fprintln(os.Stderr, "worker mode needs -replay")
		os.Exit(2)
	}
	worker, race := c17Worker(r)
	if !race {
		r.Notes = append(r.Notes, c17BuildNote)
	} else {
		r.Notes = append(r.Notes, "worker built with -race")
	}
	n := 24
	big := false
	if r.Tier == "thorough" {
		n = 60
		big = true
	}
	var sessions []c17Session
	for i := 0; i < n; i++ {
		kind := []string{"disjoint", "overlap", "graphs", "overlap"}[i%4]
		sessions = append(sessions, c17GenSession(r.Rng, kind, i, big && i%3 == 0))
	}
	batch := 12
	for i := 0; i < len(sessions); i += batch {
		j := i + batch
		if j > len(sessions) {
			j = len(sessions)
		}
		c17RunAndEmit(r, worker, sessions[i:j], fmt.Sprintf("b%d", i/batch))
	}
	// the granularity the serialisability theorem rests on: every edit a session issues is ONE
	// top-level store write (one transaction / one bulk write).  Counted on the real kvgraph through
	// C04's counting store wrapper, on the states C04 uses, for every edit kind.
	c17Units(r)
	// the read paths against complete writer calls placed inside their life (c17_read.go)
	c17ReadGen(r)
	// last, so that a racing or crashing session (a concrete failing input) is reported first:
	// the lockset table by name, for the replay file of a broken obligation
	r.Emit(map[string]interface{}{"op": "reset"}, map[string]interface{}{"r": "ok"})
	r.Emit(map[string]interface{}{"op": "lockset"}, map[string]interface{}{"unexplained": []interface{}{}, "stale": 0})
	r.Rule = "distinct (kind, client operation lists) of sessions that ran to completion"
	r.AddSample(sessions[0])
	r.AddSample(sessions[1])
}

// c17UnitsOf runs `hist` on a fresh kvgraph behind the counting wrapper and returns the number of
// top-level store writes `call` makes.
func c17UnitsOf(hist []interface{}, call map[string]interface{}) map[string]interface{} {
	w := NewC04World("level")
	defer w.Destroy()
	w.C03World.Exec(map[string]interface{}{"op": "reset"})
	for _, h := range hist {
		w.C03World.Exec(h.(map[string]interface{}))
	}
	w.f.armed, w.f.k, w.f.count, w.f.tripped, w.f.dead = true, 1<<30, 0, false, false
	w.C03World.Exec(call)
	n := w.f.count
	w.f.armed = false
	return map[string]interface{}{"units": n}
}

func c17Units(r *Run) {
	for si, hist := range c04Directed() {
		if si == 1 && r.Tier != "thorough" {
			continue
		}
		hs := []interface{}{}
		for _, h := range hist {
			hs = append(hs, h)
		}
		for _, t := range c04Targets() {
			switch opKind(t) {
			case "addV", "addE", "bulk", "delV", "delE":
				op := map[string]interface{}{"op": "units", "hist": hs, "call": t}
				r.Emit(op, c17UnitsOf(hs, t))
				r.Count("units:" + opKind(t))
			}
		}
	}
}

// c17Replay: worker mode executes sessions; otherwise re-runs the sessions found in an ops file.
func c17Replay(r *Run, ops []map[string]interface{}) {
	if r.Mode == "worker" {
		c17WorkerMain(r, ops)
		return
	}
	worker, race := c17Worker(r)
	if !race {
		r.Notes = append(r.Notes, c17BuildNote)
	}
	var sessions []c17Session
	for _, op := range ops {
		switch op["op"] {
		case "lockset":
			r.Emit(map[string]interface{}{"op": "lockset"}, map[string]interface{}{"unexplained": []interface{}{}, "stale": 0})
		case "readpath":
			r.Emit(op, c17ReadExec(op))
		case "units":
			hs, _ := op["hist"].([]interface{})
			call, _ := op["call"].(map[string]interface{})
			r.Emit(op, c17UnitsOf(hs, call))
		case "session":
			b, _ := json.Marshal(op["raw"])
			var s c17Session
			if err := json.Unmarshal(b, &s); err == nil {
				sessions = append(sessions, s)
			}
		}
	}
	// a replayed session is repeated a few times: schedules differ from run to run
	for i, s := range sessions {
		for k := 0; k < 3; k++ {
			c17RunAndEmit(r, worker, []c17Session{s}, fmt.Sprintf("rp%d-%d", i, k))
		}
	}
}

// ---------------------------------------------------------------- worker

func c17FreePort() string {
	l, err := net.Listen("tcp", "127.0.0.1:0")
	if err != nil {
		panic(err)
	}
	defer l.Close()
	return fmt.Sprint(l.Addr().(*net.TCPAddr).Port)
}

func c17Struct(tagged interface{}) *structpb.Struct {
	m, _ := Untag(tagged).(map[string]interface{})
	s, err := structpb.NewStruct(m)
	if err != nil {
		panic(err)
	}
	return s
}

func c17Vertex(j interface{}) *gripql.Vertex {
	m := j.(map[string]interface{})
	return &gripql.Vertex{Gid: m["gid"].(string), Label: m["label"].(string), Data: c17Struct(m["data"])}
}

func c17Edge(j interface{}) *gripql.Edge {
	m := j.(map[string]interface{})
	return &gripql.Edge{Gid: m["gid"].(string), Label: m["label"].(string), From: m["from"].(string), To: m["to"].(string), Data: c17Struct(m["data"])}
}

func c17VOut(v *gripql.Vertex) interface{} {
	d := map[string]interface{}{}
	if v.Data != nil {
		d = v.Data.AsMap()
	}
	return map[string]interface{}{"gid": v.Gid, "label": v.Label, "data": Tag(d)}
}

func c17EOut(e *gripql.Edge) interface{} {
	d := map[string]interface{}{}
	if e.Data != nil {
		d = e.Data.AsMap()
	}
	return map[string]interface{}{"gid": e.Gid, "label": e.Label, "from": e.From, "to": e.To, "data": Tag(d)}
}

type c17Obs struct {
	mu sync.Mutex
	m  map[string]*c17Final
	k  map[string]bool
}

func (o *c17Obs) add(g string, v interface{}, edge bool) {
	b, _ := json.Marshal(v)
	key := g + "|" + string(b)
	o.mu.Lock()
	defer o.mu.Unlock()
	if o.k[key] {
		return
	}
	o.k[key] = true
	f := o.m[g]
	if f == nil {
		f = &c17Final{}
		o.m[g] = f
	}
	if edge {
		f.Edges = append(f.Edges, v)
	} else {
		f.Verts = append(f.Verts, v)
	}
}

// c17Cli: unary calls go straight to the handler methods through the repo's in-process direct
// client (no goroutine, no network: concurrent handler bodies meet unsynchronised); streaming calls
// go through a loopback gRPC connection (the generated direct stream shim has a race of its own
// between Recv and the handler goroutine's final error assignment, which would drown the report).
type c17Cli struct {
	gripql.Client        // direct
	net    gripql.Client // loopback
}

func c17Scan(cli c17Cli, g string, obs *c17Obs) (c17Final, error) {
	var fin c17Final
	res, err := cli.net.Traversal(&gripql.GraphQuery{Graph: g, Query: gripql.NewQuery().V().Statements})
	if err != nil {
		return fin, err
	}
	for row := range res {
		if v := row.GetVertex(); v != nil {
			o := c17VOut(v)
			fin.Verts = append(fin.Verts, o)
			if obs != nil {
				obs.add(g, o, false)
			}
		}
	}
	res, err = cli.net.Traversal(&gripql.GraphQuery{Graph: g, Query: gripql.NewQuery().E().Statements})
	if err != nil {
		return fin, err
	}
	for row := range res {
		if e := row.GetEdge(); e != nil {
			o := c17EOut(e)
			fin.Edges = append(fin.Edges, o)
			if obs != nil {
				obs.add(g, o, true)
			}
		}
	}
	return fin, nil
}

func c17Apply(cli c17Cli, op map[string]interface{}, obs *c17Obs) bool {
	g := op["g"].(string)
	switch op["op"] {
	case "addGraph":
		return cli.AddGraph(g) == nil
	case "delGraph":
		return cli.DeleteGraph(g) == nil
	case "addV":
		ok := true
		for _, v := range op["vs"].([]interface{}) {
			if cli.AddVertex(g, c17Vertex(v)) != nil {
				ok = false
			}
		}
		return ok
	case "addE":
		ok := true
		for _, e := range op["es"].([]interface{}) {
			if cli.AddEdge(g, c17Edge(e)) != nil {
				ok = false
			}
		}
		return ok
	case "bulk":
		ch := make(chan *gripql.GraphElement, 10)
		go func() {
			for _, x := range op["xs"].([]interface{}) {
				m := x.(map[string]interface{})
				if v, ok := m["v"]; ok {
					ch <- &gripql.GraphElement{Graph: g, Vertex: c17Vertex(v)}
				} else {
					ch <- &gripql.GraphElement{Graph: g, Edge: c17Edge(m["e"])}
				}
			}
			close(ch)
		}()
		return cli.net.BulkAdd(ch) == nil
	case "delV":
		return cli.DeleteVertex(g, op["id"].(string)) == nil
	case "delE":
		return cli.DeleteEdge(g, op["id"].(string)) == nil
	case "schema":
		sch := &gripql.Graph{Graph: g}
		for _, v := range op["vs"].([]interface{}) {
			sch.Vertices = append(sch.Vertices, c17Vertex(v))
		}
		if cli.AddSchema(sch) != nil {
			return false
		}
		read := func() {
			if got, err := cli.GetSchema(g); err == nil {
				for _, v := range got.Vertices {
					obs.add(g+"__schema__", c17VOut(v), false)
				}
			}
		}
		// "readers": k overlapping readers of the schema that was just uploaded (the first reads of
		// a freshly cached object), three rounds each
		k := 0
		switch n := op["readers"].(type) {
		case float64:
			k = int(n)
		case int:
			k = n
		}
		if k > 1 {
			var wg sync.WaitGroup
			for i := 0; i < k; i++ {
				wg.Add(1)
				go func() {
					defer wg.Done()
					for j := 0; j < 3; j++ {
						read()
					}
				}()
			}
			wg.Wait()
		} else {
			read()
		}
		return true
	case "job":
		// "n": the submit / poll / view round is repeated n times (a window of microseconds needs
		// hundreds of rounds)
		if n, ok := op["n"].(float64); ok && n > 1 {
			one := map[string]interface{}{"op": "job", "g": g}
			for i := 0; i < int(n); i++ {
				if !c17Apply(cli, one, obs) {
					return false
				}
			}
			return true
		}
		if n, ok := op["n"].(int); ok && n > 1 {
			one := map[string]interface{}{"op": "job", "g": g}
			for i := 0; i < n; i++ {
				if !c17Apply(cli, one, obs) {
					return false
				}
			}
			return true
		}
		job, err := cli.Submit(&gripql.GraphQuery{Graph: g, Query: gripql.NewQuery().V().Statements})
		if err != nil {
			return false
		}
		// poll as fast as a client can (the first 20000 polls without a pause) and view the job the
		// moment it reads COMPLETE: what a complete job serves must be all of it (the count its status
		// reports), whatever the spooling goroutine is still doing
		deadline := time.Now().Add(5 * time.Second)
		var count uint64
		complete := false
		for i := 0; time.Now().Before(deadline); i++ {
			st, err := cli.GetJob(g, job.Id)
			if err != nil {
				return false
			}
			if st.State == gripql.JobState_COMPLETE {
				count = st.Count
				complete = true
				break
			}
			if i >= 20000 {
				if _, err := cli.net.ListJobs(g); err != nil {
					return false
				}
				time.Sleep(time.Millisecond)
			}
		}
		vc, err := cli.net.JobC.ViewJob(context.Background(), job)
		if err != nil {
			return false
		}
		rows := uint64(0)
		for {
			row, err := vc.Recv()
			if err != nil {
				break
			}
			rows++
			if v := row.GetVertex(); v != nil {
				if v.Gid == "" {
					// a row decoded from a truncated line
					obs.add(g, map[string]interface{}{"gid": "<job row without element>", "label": "JOB-VIEW", "data": Tag(map[string]interface{}{})}, false)
					continue
				}
				obs.add(g, c17VOut(v), false)
			}
		}
		if complete && rows != count {
			// reported as an observation no client can have written: a COMPLETE job that serves
			// fewer (or more) rows than its own count
			obs.add(g, map[string]interface{}{"gid": fmt.Sprintf("<complete job served %d of %d rows>", rows, count), "label": "JOB-VIEW", "data": Tag(map[string]interface{}{})}, false)
		}
		return true
	}
	panic(fmt.Sprintf("c17: unknown op %v", op["op"]))
}

func c17RaceLogSize(dir string) int64 {
	var n int64
	ms, _ := filepath.Glob(filepath.Join(dir, "race.*"))
	for _, m := range ms {
		if st, err := os.Stat(m); err == nil {
			n += st.Size()
		}
	}
	return n
}

func c17WorkerMain(r *Run, ops []map[string]interface{}) {
	log.ConfigureLogger(log.Logger{Level: "error", Formatter: "text"})
	dir := r.Dir
	conf := config.DefaultConfig()
	conf.Server.RPCPort = c17FreePort()
	conf.Server.HTTPPort = c17FreePort()
	conf.Server.WorkDir = filepath.Join(dir, "work")
	conf.RPCClient = rpc.ConfigWithDefaults(conf.Server.RPCAddress())
	dbPath := filepath.Join(dir, "db")
	gdb, err := kvgraph.NewKVGraphDB("badger", dbPath)
	if err != nil {
		fmt.Fprintln(os.Stderr, "worker: open db:", err)
		os.Exit(3)
	}
	conf.Default = "badger"
	srv, err := server.NewGripServer(conf, dir, map[string]gdbi.GraphDB{"badger": gdb})
	if err != nil {
		fmt.Fprintln(os.Stderr, "worker: new server:", err)
		os.Exit(3)
	}
	ctx, cancel := context.WithCancel(context.Background())
	served := make(chan error, 1)
	go func() { served <- srv.Serve(ctx) }()
	// readiness through a loopback RPC (also orders Serve's start-up writes before the clients)
	ready := false
	for i := 0; i < 400 && !ready; i++ {
		c, err := gripql.Connect(rpc.Config{ServerAddress: conf.Server.RPCAddress(), Timeout: conf.RPCClient.Timeout}, false)
		if err == nil {
			if _, err := c.ListGraphs(); err == nil {
				ready = true
			}
			c.Close()
		}
		if !ready {
			select {
			case e := <-served:
				fmt.Fprintln(os.Stderr, "worker: Serve returned early:", e)
				os.Exit(3)
			case <-time.After(25 * time.Millisecond):
			}
		}
	}
	if !ready {
		fmt.Fprintln(os.Stderr, "worker: server did not become ready")
		os.Exit(3)
	}
	conn, err := rpc.Dial(context.Background(), rpc.Config{ServerAddress: conf.Server.RPCAddress(), Timeout: conf.RPCClient.Timeout})
	if err != nil {
		fmt.Fprintln(os.Stderr, "worker: dial:", err)
		os.Exit(3)
	}
	cli := c17Cli{
		Client: gripql.WrapClient(gripql.NewQueryDirectClient(srv), gripql.NewEditDirectClient(srv), gripql.NewJobDirectClient(srv), nil),
		net:    gripql.WrapClient(gripql.NewQueryClient(conn), gripql.NewEditClient(conn), gripql.NewJobClient(conn), nil),
	}
	out, _ := os.Create(filepath.Join(dir, "results.jsonl"))
	for _, op := range ops {
		if op["op"] != "worker-session" {
			continue
		}
		b, _ := json.Marshal(op["s"])
		var s c17Session
		if err := json.Unmarshal(b, &s); err != nil {
			fmt.Fprintln(os.Stderr, "worker: bad session:", err)
			os.Exit(3)
		}
		res := c17RunSession(cli, s)
		res.RaceOff = c17RaceLogSize(dir)
		rb, _ := json.Marshal(res)
		out.Write(rb)
		out.Write([]byte("\n"))
		out.Sync()
	}
	out.Close()
	cancel()
	select {
	case <-served:
	case <-time.After(10 * time.Second):
	}
	os.RemoveAll(dbPath)
	os.RemoveAll(conf.Server.WorkDir)
	os.Exit(0)
}

func c17RunSession(cli c17Cli, s c17Session) c17Result {
	obs := &c17Obs{m: map[string]*c17Final{}, k: map[string]bool{}}
	for _, op := range s.Setup {
		if !c17Apply(cli, op, obs) {
			return c17Result{Note: "setup failed"}
		}
	}
	res := c17Result{Acks: make([][]bool, len(s.Clients)), Finals: map[string]c17Final{}, Observed: map[string]c17Final{}}
	start := make(chan struct{})
	stop := make(chan struct{})
	var wg, rwg sync.WaitGroup
	for i := range s.Clients {
		wg.Add(1)
		go func(i int) {
			defer wg.Done()
			<-start
			acks := make([]bool, len(s.Clients[i]))
			for k, op := range s.Clients[i] {
				acks[k] = c17Apply(cli, op, obs)
			}
			res.Acks[i] = acks
		}(i)
	}
	for k := 0; k < s.Readers; k++ {
		rwg.Add(1)
		go func(k int) {
			defer rwg.Done()
			<-start
			for n := 0; ; n++ {
				select {
				case <-stop:
					return
				default:
				}
				g := s.Graphs[(n+k)%len(s.Graphs)]
				switch (n + k) % 4 {
				case 0:
					c17Scan(cli, g, obs)
				case 1:
					for _, id := range []string{"v0", "v1", "c0v0", "c1v1", "c2v2"} {
						if v, err := cli.GetVertex(g, id); err == nil && v != nil {
							obs.add(g, c17VOut(v), false)
						}
					}
				case 2:
					cli.ListGraphs()
					cli.GetTimestamp(g)
					cli.ListLabels(g)
				case 3:
					if got, err := cli.GetSchema(g); err == nil {
						for _, v := range got.Vertices {
							obs.add(g+"__schema__", c17VOut(v), false)
						}
					}
					for _, id := range []string{"e0", "e1", "c0e0"} {
						if e, err := cli.GetEdge(g, id); err == nil && e != nil {
							obs.add(g, c17EOut(e), true)
						}
					}
				}
			}
		}(k)
	}
	close(start)
	wg.Wait()
	close(stop)
	rwg.Wait()
	for _, g := range s.Graphs {
		fin, err := c17Scan(cli, g, nil)
		if err != nil {
			// the graph does not exist any more (deleted last): nothing stored
			fin = c17Final{}
		}
		res.Finals[g] = fin
	}
	for g, f := range obs.m {
		res.Observed[g] = *f
	}
	res.Done = true
	return res
}
