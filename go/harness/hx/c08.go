package hx

// C08 — has() conditions: correspondence between engine/logic.MatchesHasExpression and the Lean
// MODEL Grip.C08.eval, over the full operator × value × argument grid and Boolean combinations.

import (
	"encoding/json"
	"fmt"
	"sort"
	"strconv"
	"time"

	"github.com/bmeg/grip/engine/logic"
	"github.com/bmeg/grip/gdbi"
	"github.com/bmeg/grip/gripql"
	"google.golang.org/protobuf/types/known/structpb"
)

var c08Conds = map[string]gripql.Condition{
	"eq": gripql.Condition_EQ, "neq": gripql.Condition_NEQ, "gt": gripql.Condition_GT,
	"gte": gripql.Condition_GTE, "lt": gripql.Condition_LT, "lte": gripql.Condition_LTE,
	"inside": gripql.Condition_INSIDE, "outside": gripql.Condition_OUTSIDE,
	"between": gripql.Condition_BETWEEN, "within": gripql.Condition_WITHIN,
	"without": gripql.Condition_WITHOUT, "contains": gripql.Condition_CONTAINS,
	"unset": gripql.Condition_UNKNOWN_CONDITION,
}

var c08CondNames = []string{"eq", "neq", "gt", "gte", "lt", "lte", "inside", "outside", "between",
	"within", "without", "contains"}

// ExprToPB turns a protocol expression into the protobuf the engine evaluates.
func ExprToPB(e map[string]interface{}) *gripql.HasExpression {
	if c, ok := e["c"]; ok {
		v, err := structpb.NewValue(Untag(e["v"]))
		if err != nil {
			panic(err)
		}
		return &gripql.HasExpression{Expression: &gripql.HasExpression_Condition{
			Condition: &gripql.HasCondition{Key: e["k"].(string), Value: v, Condition: c08Conds[c.(string)]}}}
	}
	if xs, ok := e["and"]; ok {
		l := []*gripql.HasExpression{}
		for _, x := range xs.([]interface{}) {
			l = append(l, ExprToPB(x.(map[string]interface{})))
		}
		return &gripql.HasExpression{Expression: &gripql.HasExpression_And{And: &gripql.HasExpressionList{Expressions: l}}}
	}
	if xs, ok := e["or"]; ok {
		l := []*gripql.HasExpression{}
		for _, x := range xs.([]interface{}) {
			l = append(l, ExprToPB(x.(map[string]interface{})))
		}
		return &gripql.HasExpression{Expression: &gripql.HasExpression_Or{Or: &gripql.HasExpressionList{Expressions: l}}}
	}
	if x, ok := e["not"]; ok {
		return &gripql.HasExpression{Expression: &gripql.HasExpression_Not{Not: ExprToPB(x.(map[string]interface{}))}}
	}
	return &gripql.HasExpression{}
}

// ElemToDE builds the engine's element from the protocol form.
func ElemToDE(e map[string]interface{}) *gdbi.DataElement {
	de := &gdbi.DataElement{ID: e["gid"].(string), Label: e["label"].(string), Loaded: true}
	if f, ok := e["from"].(string); ok {
		de.From = f
	}
	if t, ok := e["to"].(string); ok {
		de.To = t
	}
	de.Data = Untag(e["data"]).(map[string]interface{})
	return de
}

var c08EngOnce *Eng
var c08Loaded = map[string]bool{}

func c08Eng() (*Eng, error) {
	if c08EngOnce == nil {
		e, err := NewEng("badger")
		if err != nil {
			return nil, err
		}
		c08EngOnce = e
	}
	return c08EngOnce, nil
}

// C08Exec runs one protocol op against the real code.
func C08Exec(op map[string]interface{}) (obs map[string]interface{}) {
	defer func() {
		if p := recover(); p != nil {
			obs = map[string]interface{}{"panic": fmt.Sprint(p)}
		}
	}()
	switch op["op"] {
	case "match":
		de := ElemToDE(op["elem"].(map[string]interface{}))
		var t gdbi.Traveler = &gdbi.BaseTraveler{}
		t = t.AddCurrent(de)
		return map[string]interface{}{"m": logic.MatchesHasExpression(t, ExprToPB(op["expr"].(map[string]interface{})))}
	case "pipe":
		// V().has(expr) through the PRODUCTION compiler and the pipeline on a stored graph: what the
		// step keeps must be what the condition keeps element by element (anything the compiler does
		// to the expression on the way — rewriting, simplifying, hoisting — must not change that)
		eng, err := c08Eng()
		if err != nil {
			return map[string]interface{}{"bad": "engine: " + err.Error()}
		}
		elems := op["elems"].([]interface{})
		eb, _ := json.Marshal(elems)
		gname := fmt.Sprintf("g%x", fnv(string(eb)))
		if !c08Loaded[gname] {
			verts := []interface{}{}
			for _, e := range elems {
				m := e.(map[string]interface{})
				verts = append(verts, map[string]interface{}{"gid": m["gid"], "label": m["label"], "data": Untag(m["data"])})
			}
			if err := eng.LoadGraph(gname, verts, nil); err != nil {
				return map[string]interface{}{"bad": "load: " + err.Error()}
			}
			c08Loaded[gname] = true
		}
		stmts := []*gripql.GraphStatement{
			{Statement: &gripql.GraphStatement_V{}},
			{Statement: &gripql.GraphStatement_Has{Has: ExprToPB(op["expr"].(map[string]interface{}))}},
		}
		res := eng.RunQuery(gname, stmts, 20*time.Second)
		switch {
		case res.Err != nil:
			return map[string]interface{}{"err": "compile"}
		case res.Panic != "":
			return map[string]interface{}{"panic": res.Panic}
		case res.TimedOut:
			return map[string]interface{}{"timeout": true}
		}
		kept := []string{}
		for _, r := range res.Rows {
			if v := r.GetVertex(); v != nil {
				kept = append(kept, v.Gid)
			}
		}
		sort.Strings(kept)
		out := []interface{}{}
		for _, k := range kept {
			out = append(out, k)
		}
		return map[string]interface{}{"kept": out}
	case "numtext":
		f, err := strconv.ParseFloat(op["s"].(string), 64)
		if err != nil {
			return map[string]interface{}{"notnum": true}
		}
		n := f * Scale
		if n != float64(int64(n)) || n > 1e15 || n < -1e15 {
			return map[string]interface{}{"skip": true}
		}
		return map[string]interface{}{"num": int64(n)}
	}
	return map[string]interface{}{"bad": "unknown op"}
}

func c08Values() []interface{} {
	big := float64(int64(1) << 40)
	return []interface{}{
		nil, true, false,
		0.0, 1.0, -1.0, 0.5, -0.5, 30.0, 45.0, 44.5, 29.5, 1.5, big, -big,
		"", "abc", "30", "45", "-1.5", "0.5", "1e3", " 1", "1 ", "+2", "0x10", "inf", "NaN", "true", "١",
		[]interface{}{}, []interface{}{1.0}, []interface{}{30.0, 45.0}, []interface{}{"30", "45"},
		[]interface{}{45.0, 30.0}, []interface{}{30.0}, []interface{}{30.0, 45.0, 50.0},
		[]interface{}{nil, 45.0}, []interface{}{true, 45.0}, []interface{}{30.0, "x"},
		[]interface{}{1.0, "a", nil}, []interface{}{[]interface{}{1.0}}, []interface{}{"abc"},
		[]interface{}{map[string]interface{}{"a": 1.0}}, []interface{}{false},
		map[string]interface{}{}, map[string]interface{}{"a": 1.0}, map[string]interface{}{"a": []interface{}{1.0}},
		// structural equality of containers: null members, equal sizes with different keys, nesting
		map[string]interface{}{"a": nil}, map[string]interface{}{"z": 5.0}, map[string]interface{}{"a": nil, "b": 1.0},
		map[string]interface{}{"b": 1.0, "c": 2.0}, map[string]interface{}{"b": 1.0}, map[string]interface{}{"a": 1.0, "b": 1.0},
		map[string]interface{}{"a": map[string]interface{}{"b": nil}}, map[string]interface{}{"a": map[string]interface{}{"c": 1.0}},
		map[string]interface{}{"a": "1"}, map[string]interface{}{"a": []interface{}{}},
		[]interface{}{map[string]interface{}{"a": nil}}, []interface{}{map[string]interface{}{"z": 5.0}},
		[]interface{}{[]interface{}{1.0, nil}}, []interface{}{[]interface{}{nil, 1.0}}, []interface{}{nil}, []interface{}{nil, nil},
	}
}

func kindOf(v interface{}) string {
	switch x := v.(type) {
	case nil:
		return "null"
	case bool:
		return "bool"
	case float64:
		return "num"
	case string:
		if _, err := strconv.ParseFloat(x, 64); err == nil {
			return "numtext"
		}
		return "str"
	case []interface{}:
		return "list"
	default:
		return "map"
	}
}

func collectStrings(v interface{}, into map[string]bool) {
	switch x := v.(type) {
	case string:
		into[x] = true
	case []interface{}:
		for _, y := range x {
			collectStrings(y, into)
		}
	case map[string]interface{}:
		for _, y := range x {
			collectStrings(y, into)
		}
	}
}

func c08Elem(data map[string]interface{}) map[string]interface{} {
	return map[string]interface{}{"gid": "v1", "label": "L", "data": Tag(data)}
}

// C08Gen generates the grid, Boolean combinations and random deeper expressions.
func C08Gen(r *Run) {
	r.Rule = "case = (element, has-expression); distinct by serialized op; non-trivial = every grid cell " +
		"(operator × value kind × argument kind) and every Boolean combination is counted once; " +
		"the grid and the depth-bounded Boolean space are enumerated completely, random deeper expressions are seeded"
	emit := func(op map[string]interface{}) {
		obs := C08Exec(op)
		r.Emit(op, obs)
		b, _ := json.Marshal(op)
		r.NonTrivial(string(b))
	}
	vals := c08Values()
	// numeric-text tie: every string that can reach ParseFloat is cross-checked with the driver's parser
	strs := map[string]bool{}
	for _, v := range vals {
		collectStrings(v, strs)
	}
	for s := range strs {
		emit(map[string]interface{}{"op": "numtext", "s": s})
		r.Count("numtext")
	}
	// 1. full grid: operator × stored value (plus missing) × argument
	for _, c := range c08CondNames {
		for vi := -1; vi < len(vals); vi++ {
			data := map[string]interface{}{"n": map[string]interface{}{"y": 7.0}}
			vk := "missing"
			if vi >= 0 {
				data["x"] = vals[vi]
				vk = kindOf(vals[vi])
			}
			for _, a := range vals {
				op := map[string]interface{}{"op": "match", "elem": c08Elem(data),
					"expr": map[string]interface{}{"c": c, "k": "x", "v": Tag(a)}}
				emit(op)
				r.Count("grid:" + c + ":" + vk)
				r.Count("argkind:" + kindOf(a))
				r.Dist["grid"]++
				if r.Dist["grid"]%1500 == 1 {
					r.AddSample(op)
				}
			}
		}
	}
	// 2. keys: nested, reserved, namespaced forms
	keys := []string{"x", "n.y", "n.z", "n", "_gid", "_label", "_data.x", "$.x", "$.n.y", "_from", "missing.deep.er"}
	for _, k := range keys {
		for _, c := range c08CondNames {
			for _, a := range []interface{}{7.0, "v1", "L", 1.0, nil, "", map[string]interface{}{"y": 7.0}, []interface{}{7.0, 8.0}, []interface{}{"v1"}} {
				data := map[string]interface{}{"x": 1.0, "n": map[string]interface{}{"y": 7.0}}
				emit(map[string]interface{}{"op": "match", "elem": c08Elem(data),
					"expr": map[string]interface{}{"c": c, "k": k, "v": Tag(a)}})
				r.Dist["keys"]++
			}
		}
	}
	// 2b. keys that pass through LISTS (bmeg/jsonpath maps a member name over the objects of a list,
	// nested lists included; scalars and objects without the member are skipped)
	listDocs := []map[string]interface{}{
		{"samples": []interface{}{map[string]interface{}{"tissue": "lung"}, map[string]interface{}{"tissue": "skin"}}},
		{"samples": []interface{}{map[string]interface{}{"tissue": "lung"}, map[string]interface{}{"x": 1.0}}},
		{"samples": []interface{}{map[string]interface{}{"tissue": "lung"}, 5.0, "s", nil, []interface{}{map[string]interface{}{"tissue": "in"}}}},
		{"samples": []interface{}{}},
		{"samples": []interface{}{map[string]interface{}{"tissue": map[string]interface{}{"a": 1.0}}, map[string]interface{}{"tissue": []interface{}{1.0, 2.0}}}},
		{"samples": []interface{}{map[string]interface{}{"t": []interface{}{map[string]interface{}{"u": 1.0}, map[string]interface{}{"u": 2.0}}}, map[string]interface{}{"t": []interface{}{map[string]interface{}{"u": 3.0}}}}},
		{"samples": map[string]interface{}{"tissue": "lung"}},
		{"samples": "lung"},
	}
	for _, data := range listDocs {
		for _, k := range []string{"samples.tissue", "samples.t.u", "samples.tissue.a", "samples", "$.samples.tissue"} {
			for _, c := range c08CondNames {
				for _, a := range []interface{}{"lung", "skin", []interface{}{"lung", "skin"}, []interface{}{"lung"}, []interface{}{}, nil, 1.0,
					[]interface{}{[]interface{}{1.0, 2.0}, []interface{}{3.0}}, []interface{}{1.0, []interface{}{}}} {
					emit(map[string]interface{}{"op": "match", "elem": c08Elem(data),
						"expr": map[string]interface{}{"c": c, "k": k, "v": Tag(a)}})
					r.Dist["keys-through-lists"]++
				}
			}
		}
	}
	// 3. Boolean combinations, exhaustive to the depth bound over a small leaf set
	leaves := []map[string]interface{}{
		{"c": "gt", "k": "x", "v": Tag(1.0)},
		{"c": "eq", "k": "s", "v": Tag("a")},
		{"c": "within", "k": "x", "v": Tag([]interface{}{1.0, 2.0})},
		{"c": "contains", "k": "l", "v": Tag("q")},
		{"none": true},
		{"c": "unset", "k": "x", "v": Tag(1.0)},
	}
	elems := []map[string]interface{}{
		{"x": 2.0, "s": "a", "l": []interface{}{"q"}},
		{"x": 1.0, "s": "b", "l": []interface{}{}},
		{"x": 3.0, "s": "a"},
		{},
	}
	depth := 2
	maxArity := 2
	if r.Tier == "thorough" {
		maxArity = 3
	}
	level := leaves
	all := append([]map[string]interface{}{}, leaves...)
	for d := 1; d <= depth; d++ {
		var next []map[string]interface{}
		for _, e := range all {
			next = append(next, map[string]interface{}{"not": e})
		}
		// lists of length 0..maxArity over `all` (bounded for the outermost level to keep the space finite and small)
		pool := all
		if d == depth && len(pool) > 40 {
			// outer level: all pairs over a deterministic subsample + all singletons
			step := len(pool)/40 + 1
			var sub []map[string]interface{}
			for i := 0; i < len(pool); i += step {
				sub = append(sub, pool[i])
			}
			pool = sub
		}
		for _, kind := range []string{"and", "or"} {
			next = append(next, map[string]interface{}{kind: []interface{}{}})
			for _, a := range all {
				next = append(next, map[string]interface{}{kind: []interface{}{a}})
			}
			for _, a := range pool {
				for _, b := range pool {
					next = append(next, map[string]interface{}{kind: []interface{}{a, b}})
					if maxArity >= 3 && len(pool) <= 45 {
						for _, c := range pool[:min(len(pool), 6)] {
							next = append(next, map[string]interface{}{kind: []interface{}{a, b, c}})
						}
					}
				}
			}
		}
		level = next
		all = append(all, next...)
	}
	_ = level
	for _, e := range all {
		for _, d := range elems {
			emit(map[string]interface{}{"op": "match", "elem": c08Elem(d), "expr": e})
			r.Dist["bool"]++
		}
	}
	r.AddSample(map[string]interface{}{"op": "match", "elem": c08Elem(elems[0]), "expr": all[len(all)-1]})
	// 3b. the same Boolean combinations (over the well-formed leaves) as the has() step of a compiled
	// traversal over a stored graph holding the elements
	{
		var wf func(e map[string]interface{}) bool
		wf = func(e map[string]interface{}) bool {
			if _, ok := e["none"]; ok {
				return false
			}
			if c, ok := e["c"]; ok {
				return c != "unset"
			}
			if x, ok := e["not"]; ok {
				return wf(x.(map[string]interface{}))
			}
			for _, k := range []string{"and", "or"} {
				if xs, ok := e[k]; ok {
					for _, x := range xs.([]interface{}) {
						if !wf(x.(map[string]interface{})) {
							return false
						}
					}
				}
			}
			return true
		}
		pe := []interface{}{}
		for i, d := range elems {
			pe = append(pe, map[string]interface{}{"gid": fmt.Sprintf("v%d", i), "label": "L", "data": Tag(d)})
		}
		n := 0
		for _, e := range all {
			if !wf(e) {
				continue
			}
			n++
			if r.Tier != "thorough" && n%2 == 0 && n > 400 {
				continue
			}
			emit(map[string]interface{}{"op": "pipe", "elems": pe, "expr": e})
			r.Dist["pipe"]++
		}
	}
	// 3c. has() on the RESERVED fields of the current element (_gid, _label) as the first filter after V():
	// the planner may answer such a filter from an index (IndexStartOptimize); whatever it does with and/or/
	// not around conditions it can and cannot look up, the step keeps what the condition keeps
	// (seed C08-l: or(eq(_gid,a), neq(_gid,a)) planned as a lookup of a)
	{
		pe := []interface{}{}
		for i, d := range elems {
			pe = append(pe, map[string]interface{}{"gid": fmt.Sprintf("v%d", i), "label": []string{"L", "M"}[i%2], "data": Tag(d)})
		}
		rl := []map[string]interface{}{
			{"c": "eq", "k": "_gid", "v": Tag("v0")},
			{"c": "neq", "k": "_gid", "v": Tag("v0")},
			{"c": "within", "k": "_gid", "v": Tag([]interface{}{"v1", "v2"})},
			{"c": "within", "k": "_gid", "v": Tag([]interface{}{"v1", 3.0})},
			{"c": "without", "k": "_gid", "v": Tag([]interface{}{"v0", "v1"})},
			{"c": "gt", "k": "_gid", "v": Tag("v1")},
			{"c": "eq", "k": "_gid", "v": Tag(3.0)},
			{"c": "eq", "k": "_label", "v": Tag("L")},
			{"c": "neq", "k": "_label", "v": Tag("L")},
			{"c": "within", "k": "_label", "v": Tag([]interface{}{"M", "zz"})},
			{"c": "eq", "k": "$._gid", "v": Tag("v3")},
			{"c": "gt", "k": "x", "v": Tag(1.0)},
		}
		fam := []map[string]interface{}{}
		for _, a := range rl {
			fam = append(fam, a, map[string]interface{}{"not": a})
			for _, b := range rl {
				or := map[string]interface{}{"or": []interface{}{a, b}}
				and := map[string]interface{}{"and": []interface{}{a, b}}
				fam = append(fam, or, and, map[string]interface{}{"not": or},
					map[string]interface{}{"and": []interface{}{or, rl[7]}},
					map[string]interface{}{"or": []interface{}{a, b, rl[2]}},
					map[string]interface{}{"not": map[string]interface{}{"and": []interface{}{map[string]interface{}{"not": a}, map[string]interface{}{"not": b}}}})
			}
		}
		for i, e := range fam {
			if r.Tier != "thorough" && i%2 == 1 && i > 500 {
				continue
			}
			emit(map[string]interface{}{"op": "pipe", "elems": pe, "expr": e})
			r.Dist["pipe-reserved"]++
		}
	}
	// 4. random deeper expressions over random grid leaves
	nrand := 3000
	if r.Tier == "thorough" {
		nrand = 50000
	}
	var gen func(d int) map[string]interface{}
	gen = func(d int) map[string]interface{} {
		if d == 0 || r.Rng.Intn(4) == 0 {
			return map[string]interface{}{"c": Pick(r.Rng, c08CondNames), "k": Pick(r.Rng, []string{"x", "s", "l", "n.y", "_gid"}),
				"v": Tag(Pick(r.Rng, vals))}
		}
		switch r.Rng.Intn(3) {
		case 0:
			return map[string]interface{}{"not": gen(d - 1)}
		case 1:
			n := r.Rng.Intn(4)
			xs := []interface{}{}
			for i := 0; i < n; i++ {
				xs = append(xs, gen(d-1))
			}
			return map[string]interface{}{"and": xs}
		default:
			n := r.Rng.Intn(4)
			xs := []interface{}{}
			for i := 0; i < n; i++ {
				xs = append(xs, gen(d-1))
			}
			return map[string]interface{}{"or": xs}
		}
	}
	for i := 0; i < nrand; i++ {
		data := map[string]interface{}{}
		for _, k := range []string{"x", "s", "l"} {
			if r.Rng.Intn(5) > 0 {
				data[k] = Pick(r.Rng, vals)
			}
		}
		data["n"] = map[string]interface{}{"y": Pick(r.Rng, vals)}
		op := map[string]interface{}{"op": "match", "elem": c08Elem(data), "expr": gen(2 + r.Rng.Intn(4))}
		emit(op)
		r.Dist["random"]++
		if i == 0 {
			r.AddSample(op)
		}
	}
	r.Exhaustive = false
}

func min(a, b int) int {
	if a < b {
		return a
	}
	return b
}

func init() { Registry["C08"] = Stateless(C08Gen, C08Exec) }
