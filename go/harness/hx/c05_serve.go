package hx

// C05, op "serve": the REAL server.Serve, started in-process on two free local ports with basic
// authentication configured, probed over HTTP (the gateway wiring that the translator's Serve table
// describes) without credentials, with wrong and with valid ones.
//
//   {"op":"serve","plugins":bool,"probes":[{"svc":"Configure","kind":"unary","verb":"GET","path":"/v1/plugin"},…]}
//   → {"probes":[[svc,kind,verb,path,none,wrong,valid],…]}   each of none/wrong/valid ∈ "denied" | "open"
//     ("denied" = HTTP 401 or 403; anything else means the request got past authentication)
//
// The MODEL answers from the regenerated Serve table: a probe is "denied" without valid credentials
// iff the direct client of its service (for Configure: the one around `server` when plugins are
// enabled, around `&nullPluginServer{}` otherwise) was built with the interceptor of its kind.

import (
	"bytes"
	"context"
	"fmt"
	"net"
	"net/http"
	"os"
	"path/filepath"
	"time"

	"github.com/bmeg/grip/accounts"
	"github.com/bmeg/grip/config"
	"github.com/bmeg/grip/server"
)

// c05ServeExec: up to three attempts (the two ports are picked at random and may be taken); a server
// that cannot be started at all is an environment problem, not an observation: the line is skipped.
func c05ServeExec(op map[string]interface{}) map[string]interface{} {
	var obs map[string]interface{}
	for attempt := 0; attempt < 3; attempt++ {
		obs = c05ServeOnce(op)
		if _, failed := obs["err"]; !failed {
			return obs
		}
		time.Sleep(500 * time.Millisecond)
	}
	return map[string]interface{}{"skip": true, "why": fmt.Sprint("server.Serve could not be started: ", obs["err"])}
}

func c05ServeOnce(op map[string]interface{}) map[string]interface{} {
	dir := c05Scratch()
	defer os.RemoveAll(dir)
	conf := config.DefaultConfig()
	conf.AddBadgerDefault()
	config.TestifyConfig(conf)
	conf.Server.WorkDir = filepath.Join(dir, "work")
	db := filepath.Join(dir, "db")
	d := conf.Drivers[conf.Default]
	d.Badger = &db
	conf.Drivers[conf.Default] = d
	conf.Server.EnablePlugins, _ = op["plugins"].(bool)
	conf.Server.Accounts = accounts.Config{
		Auth: &accounts.AuthConfig{
			Basic: &accounts.BasicAuth{accounts.BasicCredential{User: "alice", Password: "pw-alice"}},
		},
	}
	srv, err := server.NewGripServer(conf, dir, nil)
	if err != nil {
		return map[string]interface{}{"err": "new-server: " + err.Error()}
	}
	ctx, cancel := context.WithCancel(context.Background())
	done := make(chan error, 1)
	go func() { done <- srv.Serve(ctx) }()
	defer func() {
		cancel()
		select {
		case <-done:
		case <-time.After(10 * time.Second):
		}
	}()
	addr := "localhost:" + conf.Server.HTTPPort
	up := false
	for i := 0; i < 200; i++ {
		c, err := net.DialTimeout("tcp", addr, 200*time.Millisecond)
		if err == nil {
			c.Close()
			up = true
			break
		}
		select {
		case err := <-done:
			return map[string]interface{}{"err": fmt.Sprint("serve ended: ", err)}
		case <-time.After(50 * time.Millisecond):
		}
	}
	if !up {
		return map[string]interface{}{"err": "http port not up"}
	}
	cli := &http.Client{Timeout: 15 * time.Second}
	ask := func(verb, path string, user, pw string) string {
		var body *bytes.Reader = bytes.NewReader([]byte("{}"))
		req, err := http.NewRequest(verb, "http://"+addr+path, body)
		if err != nil {
			return "bad-request"
		}
		req.Header.Set("Content-Type", "application/json")
		if user != "" {
			req.SetBasicAuth(user, pw)
		}
		resp, err := cli.Do(req)
		if err != nil {
			return "no-answer"
		}
		defer resp.Body.Close()
		if resp.StatusCode == 401 || resp.StatusCode == 403 {
			return "denied"
		}
		return "open"
	}
	out := []interface{}{}
	noAnswer := false
	probes, _ := op["probes"].([]interface{})
	for _, p := range probes {
		pm, _ := p.(map[string]interface{})
		svc, _ := pm["svc"].(string)
		kind, _ := pm["kind"].(string)
		verb, _ := pm["verb"].(string)
		path, _ := pm["path"].(string)
		a1, a2, a3 := ask(verb, path, "", ""), ask(verb, path, "alice", "wrong"), ask(verb, path, "alice", "pw-alice")
		if a1 == "no-answer" && a2 == "no-answer" && a3 == "no-answer" {
			noAnswer = true // the server went away (not a property observation)
		}
		out = append(out, []interface{}{svc, kind, verb, path, a1, a2, a3})
	}
	if noAnswer {
		return map[string]interface{}{"err": "no answer from the HTTP port"}
	}
	return map[string]interface{}{"probes": out}
}

// c05ServeProbes: one route per (service, kind) and every route of the Configure service.
func c05ServeProbes() []interface{} {
	mk := func(svc, kind, verb, path string) interface{} {
		return map[string]interface{}{"svc": svc, "kind": kind, "verb": verb, "path": path}
	}
	return []interface{}{
		mk("Query", "unary", "GET", "/v1/graph"),
		mk("Query", "unary", "GET", "/v1/graph/g1/vertex/v1"),
		mk("Query", "unary", "GET", "/v1/graph/g1/label"),
		mk("Query", "serverStream", "POST", "/v1/graph/g1/query"),
		mk("Query", "serverStream", "GET", "/v1/table"),
		mk("Job", "unary", "GET", "/v1/graph/g1/job/j1"),
		mk("Job", "serverStream", "GET", "/v1/graph/g1/job"),
		mk("Job", "serverStream", "POST", "/v1/graph/g1/job-search"),
		mk("Edit", "unary", "POST", "/v1/graph/gnew"),
		mk("Edit", "unary", "DELETE", "/v1/graph/g1/vertex/v1"),
		mk("Edit", "unary", "GET", "/v1/graph/g1/schema-sample"),
		mk("Configure", "unary", "GET", "/v1/plugin"),
		mk("Configure", "unary", "GET", "/v1/driver"),
		mk("Configure", "unary", "POST", "/v1/plugin/p1"),
	}
}
