package hx

// C06 — no request can crash the server.
//
// Requests (structurally valid protojson, semantically arbitrary) are executed by WORKER
// SUBPROCESSES (`hx C06 -mode worker -replay FILE`) through the real server handlers
// (server.GripServer.Traversal / BulkAdd / AddVertex / AddEdge / Delete* / Get*) over an embedded
// kvgraph: a Go panic in a pipeline goroutine kills the whole process, recover() in the caller
// does not help.  The worker answers one line per op and syncs it; when a worker dies the first
// unanswered op is re-run alone in a fresh worker to confirm the culprit.
//
// Ops:
//   {"op":"reset","graph":{"vertices":[…],"edges":[…]}}                 → {"ok":true}
//   {"op":"query","g":"g"|"nope","q":[…protojson statements…]}           → {"o":"ok"|"err"|"panic"}
//   {"op":"bulk","els":[…protojson GraphElement…]}                       → {"o":…}
//   {"op":"addV"|"addE","el":{…GraphElement…}}                           → {"o":…}
//   {"op":"delV"|"delE"|"getV"|"getE","g":…,"id":…}                      → {"o":…}
// "ok" = the handler answered (rows, possibly none), "err" = it answered with an error,
// "panic" = the worker process died (exit status / signal) while serving the request.

import (
	"bufio"
	"context"
	"encoding/json"
	"fmt"
	"io"
	"os"
	"os/exec"
	"path/filepath"
	"strings"
	"sync"
	"sync/atomic"
	"time"

	"github.com/bmeg/grip/config"
	"github.com/bmeg/grip/gdbi"
	"github.com/bmeg/grip/gripql"
	"github.com/bmeg/grip/server"
	"google.golang.org/grpc/metadata"
	"google.golang.org/protobuf/encoding/protojson"
	"google.golang.org/protobuf/proto"
)

func init() {
	Registry["C06"] = Prop{Gen: c06Gen, Replay: c06Replay}
}

const c06DeadlineSec = 90

type c06m = map[string]interface{}
type c06a = []interface{}

// ---------- fake streams ----------

type c06QStream struct {
	ctx context.Context
	n   int
}

func (s *c06QStream) SetHeader(metadata.MD) error  { return nil }
func (s *c06QStream) SendHeader(metadata.MD) error { return nil }
func (s *c06QStream) SetTrailer(metadata.MD)       {}
func (s *c06QStream) Context() context.Context     { return s.ctx }
func (s *c06QStream) SendMsg(m interface{}) error  { return nil }
func (s *c06QStream) RecvMsg(m interface{}) error  { return io.EOF }

// Send does what the gRPC codec and the HTTP gateway do with a row: serialise it.
func (s *c06QStream) Send(r *gripql.QueryResult) error {
	s.n++
	if _, err := proto.Marshal(r); err != nil {
		return err
	}
	_, err := protojson.Marshal(r)
	return err
}

type c06BStream struct {
	items []*gripql.GraphElement
	i     int
	res   *gripql.BulkEditResult
}

func (s *c06BStream) SetHeader(metadata.MD) error  { return nil }
func (s *c06BStream) SendHeader(metadata.MD) error { return nil }
func (s *c06BStream) SetTrailer(metadata.MD)       {}
func (s *c06BStream) Context() context.Context     { return context.Background() }
func (s *c06BStream) SendMsg(m interface{}) error  { return nil }
func (s *c06BStream) RecvMsg(m interface{}) error  { return io.EOF }
func (s *c06BStream) SendAndClose(r *gripql.BulkEditResult) error {
	s.res = r
	return nil
}
func (s *c06BStream) Recv() (*gripql.GraphElement, error) {
	if s.i >= len(s.items) {
		return nil, io.EOF
	}
	el := proto.Clone(s.items[s.i]).(*gripql.GraphElement)
	s.i++
	return el, nil
}

// ---------- worker ----------

type c06World struct {
	eng *Eng
	srv *server.GripServer
}

func (w *c06World) reset(op c06m) c06m {
	if w.eng != nil {
		w.eng.Destroy()
		w.eng = nil
	}
	eng, err := NewEng("badger")
	if err != nil {
		return c06m{"bad": "NewEng: " + err.Error()}
	}
	w.eng = eng
	g, _ := op["graph"].(map[string]interface{})
	vs, _ := g["vertices"].([]interface{})
	es, _ := g["edges"].([]interface{})
	if err := eng.LoadGraph("g", vs, es); err != nil {
		return c06m{"bad": "LoadGraph: " + err.Error()}
	}
	conf := &config.Config{}
	conf.Server.WorkDir = eng.Work
	srv, err := server.NewGripServer(conf, "", map[string]gdbi.GraphDB{"kv": eng.DB})
	if err != nil {
		return c06m{"bad": "NewGripServer: " + err.Error()}
	}
	w.srv = srv
	return c06m{"ok": true}
}

func c06ElementOf(j interface{}) (*gripql.GraphElement, error) {
	b, _ := json.Marshal(j)
	el := &gripql.GraphElement{}
	return el, protojson.Unmarshal(b, el)
}

func c06Obs(err error) c06m {
	if err != nil {
		return c06m{"o": "err"}
	}
	return c06m{"o": "ok"}
}

// exec runs one op on the real handlers; the handler runs in its own goroutine as under gRPC
// (no recover: a panic there must kill the worker, as it kills the server).
func (w *c06World) exec(op c06m) (obs c06m, timedOut bool) {
	kind, _ := op["op"].(string)
	if kind == "reset" {
		return w.reset(op), false
	}
	if w.srv == nil {
		return c06m{"bad": "no reset before " + kind}, false
	}
	var run func() error
	gname, _ := op["g"].(string)
	id, _ := op["id"].(string)
	ctx, cancel := context.WithCancel(context.Background())
	defer cancel()
	switch kind {
	case "query":
		qs, _ := op["q"].([]interface{})
		stmts, err := StmtsFromJSON(qs)
		if err != nil {
			return c06m{"bad": "stmts: " + err.Error()}, false
		}
		// through the wire format once more: what the server sees is what a client can send
		q := &gripql.GraphQuery{Graph: gname, Query: stmts}
		b, err := proto.Marshal(q)
		if err != nil {
			return c06m{"bad": "marshal: " + err.Error()}, false
		}
		q2 := &gripql.GraphQuery{}
		if err := proto.Unmarshal(b, q2); err != nil {
			return c06m{"bad": "unmarshal: " + err.Error()}, false
		}
		run = func() error { return w.srv.Traversal(q2, &c06QStream{ctx: ctx}) }
	case "bulk":
		els, _ := op["els"].([]interface{})
		st := &c06BStream{}
		for _, j := range els {
			el, err := c06ElementOf(j)
			if err != nil {
				return c06m{"bad": "element: " + err.Error()}, false
			}
			st.items = append(st.items, el)
		}
		run = func() error { return w.srv.BulkAdd(st) }
	case "addV", "addE":
		el, err := c06ElementOf(op["el"])
		if err != nil {
			return c06m{"bad": "element: " + err.Error()}, false
		}
		if kind == "addV" {
			run = func() error { _, err := w.srv.AddVertex(ctx, el); return err }
		} else {
			run = func() error { _, err := w.srv.AddEdge(ctx, el); return err }
		}
	case "delV":
		run = func() error { _, err := w.srv.DeleteVertex(ctx, &gripql.ElementID{Graph: gname, Id: id}); return err }
	case "delE":
		run = func() error { _, err := w.srv.DeleteEdge(ctx, &gripql.ElementID{Graph: gname, Id: id}); return err }
	case "getV":
		run = func() error { _, err := w.srv.GetVertex(ctx, &gripql.ElementID{Graph: gname, Id: id}); return err }
	case "getE":
		run = func() error { _, err := w.srv.GetEdge(ctx, &gripql.ElementID{Graph: gname, Id: id}); return err }
	default:
		return c06m{"bad": "unknown op " + kind}, false
	}
	done := make(chan error, 1)
	go func() { done <- run() }()
	select {
	case err := <-done:
		return c06Obs(err), false
	case <-time.After(c06DeadlineSec * time.Second):
		return c06m{"skip": true, "why": "timeout"}, true
	}
}

func c06Worker(r *Run, ops []map[string]interface{}) {
	f, err := os.Create(filepath.Join(r.Dir, "results.jsonl"))
	if err != nil {
		panic(err)
	}
	defer f.Close()
	w := &c06World{}
	for _, op := range ops {
		obs, timedOut := w.exec(op)
		b, _ := json.Marshal(obs)
		f.Write(append(b, '\n'))
		f.Sync()
		if timedOut {
			os.Exit(3)
		}
	}
	// a goroutine that is panicking may let the handler return first (deferred wg.Done): give the
	// runtime time to finish dying so that the exit status tells
	time.Sleep(300 * time.Millisecond)
	if w.eng != nil {
		w.eng.Destroy()
	}
}

// ---------- parent: run ops in worker subprocesses ----------

var c06WorkerSeq int64

// c06RunWorker runs `ops` (the first one a reset) in one worker; returns the answered lines and
// whether the process exited abnormally (crash) before answering all of them.
func c06RunWorker(r *Run, ops []c06m) (res []map[string]interface{}, crashed bool, tail string) {
	base := os.Getenv("VERIF_WORK")
	if base == "" {
		base = r.Dir
	}
	dir := filepath.Join(base, fmt.Sprintf("c06wk%d", atomic.AddInt64(&c06WorkerSeq, 1)))
	os.MkdirAll(dir, 0o755)
	defer os.RemoveAll(dir)
	inf := filepath.Join(dir, "in.ops")
	fh, _ := os.Create(inf)
	bw := bufio.NewWriter(fh)
	for _, op := range ops {
		b, _ := json.Marshal(op)
		bw.Write(append(b, '\n'))
	}
	bw.Flush()
	fh.Close()
	self, err := os.Executable()
	if err != nil {
		self = os.Args[0]
	}
	cmd := exec.Command(self, "C06", "-out", dir, "-mode", "worker", "-replay", inf)
	cmd.Env = append(os.Environ(), "VERIF_WORK="+dir)
	cmd.Dir = dir
	lf, _ := os.Create(filepath.Join(dir, "worker.log"))
	cmd.Stdout = lf
	cmd.Stderr = lf
	if err := cmd.Start(); err != nil {
		panic(err)
	}
	done := make(chan error, 1)
	go func() { done <- cmd.Wait() }()
	budget := time.Duration(600+len(ops)*2) * time.Second
	var werr error
	select {
	case werr = <-done:
	case <-time.After(budget):
		cmd.Process.Kill()
		werr = <-done
	}
	lf.Close()
	res, _ = ReadOps(filepath.Join(dir, "results.jsonl"))
	if len(res) > len(ops) {
		res = res[:len(ops)]
	}
	exit3 := false
	if ee, ok := werr.(*exec.ExitError); ok && ee.ExitCode() == 3 {
		exit3 = true
	}
	if werr != nil && !exit3 {
		{
			crashed = true
			if b, err := os.ReadFile(filepath.Join(dir, "worker.log")); err == nil {
				s := string(b)
				if k := strings.Index(s, "fatal error"); k >= 0 {
					tail = s[k:]
				} else if k := strings.Index(s, "panic:"); k >= 0 {
					tail = s[k:]
				} else if werr != nil {
					tail = werr.Error()
				}
				if len(tail) > 300 {
					tail = tail[:300]
				}
				tail = strings.ReplaceAll(tail, "\n", " | ")
			}
		}
	}
	return res, crashed, tail
}

// c06RunCase runs one case (reset + ops) and returns one observation per op (reset included).
//
// A panic in a goroutine started through errgroup runs the deferred g.done() while unwinding, so
// the handler may return (and the worker may answer) a moment before the runtime kills the
// process: the culprit of a crash is the first unanswered op OR the last answered one.  Both are
// re-run alone (reset + op) and judged by the worker's exit status.
func c06RunCase(r *Run, reset c06m, ops []c06m, mu *sync.Mutex) []c06m {
	out := make([]c06m, 0, len(ops)+1)
	out = append(out, c06m{"ok": true})
	note := func(key, s string) {
		mu.Lock()
		r.Notes = append(r.Notes, s)
		r.Count(key)
		mu.Unlock()
	}
	solo := func(op c06m) (c06m, bool, string) {
		res, crashed, tail := c06RunWorker(r, []c06m{reset, op})
		if crashed {
			return c06m{"o": "panic"}, true, tail
		}
		if len(res) >= 2 {
			return res[1], false, ""
		}
		return c06m{"bad": "solo run gave no answer: " + tail}, false, tail
	}
	i := 0
	for i < len(ops) {
		batch := append([]c06m{reset}, ops[i:]...)
		res, crashed, tail := c06RunWorker(r, batch)
		if len(res) == 0 && !crashed {
			for ; i < len(ops); i++ {
				out = append(out, c06m{"bad": "worker did not answer the reset: " + tail})
			}
			break
		}
		if len(res) > 0 {
			if b, ok := res[0]["bad"]; ok {
				for ; i < len(ops); i++ {
					out = append(out, c06m{"bad": b})
				}
				break
			}
			for _, x := range res[1:] {
				out = append(out, x)
				i++
			}
		}
		timedOut := len(res) > 0 && res[len(res)-1]["why"] == "timeout"
		if crashed {
			found := false
			if i < len(ops) {
				obs, c, t2 := solo(ops[i])
				if c {
					note("worker:crash", "worker died: "+t2)
					found = true
				}
				out = append(out, obs)
				i++
				if !found && len(res) > 1 {
					// the op answered last before the process died
					k := len(out) - 2
					if _, c, t3 := solo(ops[k-1]); c {
						note("worker:crash", "worker died just after answering: "+t3)
						out[k] = c06m{"o": "panic"}
						found = true
					}
				}
			} else if len(res) > 1 {
				k := len(out) - 1
				if _, c, t3 := solo(ops[k-1]); c {
					note("worker:crash", "worker died just after answering: "+t3)
					out[k] = c06m{"o": "panic"}
					found = true
				}
			}
			if !found {
				note("worker:crash-not-isolated", "worker died in a batch but no single op reproduces it (reported as panic): "+tail)
				out[len(out)-1] = c06m{"o": "panic", "flaky": true}
			}
		} else if i < len(ops) && !timedOut {
			out = append(out, c06m{"bad": "worker stopped early: " + tail})
			i++
		}
		// after a timeout the worker exits(3); the loop restarts a worker for the remaining ops
	}
	return out
}

type c06Case struct {
	reset c06m
	ops   []c06m
}

func c06RunCases(r *Run, cases []c06Case) {
	outs := make([][]c06m, len(cases))
	jobs := make(chan int, len(cases))
	for i := range cases {
		jobs <- i
	}
	close(jobs)
	var wg sync.WaitGroup
	var mu sync.Mutex
	for k := 0; k < 3; k++ {
		wg.Add(1)
		go func() {
			defer wg.Done()
			for i := range jobs {
				outs[i] = c06RunCase(r, cases[i].reset, cases[i].ops, &mu)
			}
		}()
	}
	wg.Wait()
	for i, c := range cases {
		r.Emit(c.reset, outs[i][0])
		for k, op := range c.ops {
			obs := outs[i][k+1]
			r.Emit(op, obs)
			if o, ok := obs["o"].(string); ok {
				r.Count("obs:" + o)
			} else if _, ok := obs["skip"]; ok {
				r.Count("obs:timeout-skipped")
			}
		}
	}
}

func c06Replay(r *Run, ops []map[string]interface{}) {
	if r.Mode == "worker" {
		c06Worker(r, ops)
		return
	}
	// split into cases at resets; ops before the first reset get the empty graph
	var cases []c06Case
	cur := c06Case{reset: c06m{"op": "reset", "graph": c06m{"vertices": c06a{}, "edges": c06a{}}}}
	implicit := true
	for _, op := range ops {
		if op["op"] == "reset" {
			if !implicit || len(cur.ops) > 0 {
				cases = append(cases, cur)
			}
			cur = c06Case{reset: op}
			implicit = false
			continue
		}
		cur.ops = append(cur.ops, op)
	}
	if !implicit || len(cur.ops) > 0 {
		cases = append(cases, cur)
	}
	if implicit && len(cases) > 0 {
		// the implicit reset is not part of the replayed file: run, but emit only the given ops
		c := cases[0]
		var mu sync.Mutex
		out := c06RunCase(r, c.reset, c.ops, &mu)
		for k, op := range c.ops {
			r.Emit(op, out[k+1])
		}
		cases = cases[1:]
	}
	c06RunCases(r, cases)
}
