package hx

// C16 — accepted identifiers and values are stored verbatim or rejected.
//
// Hostile strings (separator and control bytes, unicode, words the implementation uses internally,
// names that are prefixes of one another, empty strings) are put in every position of every write
// call of a real kvgraph (graph name, vertex id, edge id, label, from, to, property name, delete
// arguments) together with JSON property values; after each write everything previously present and
// the written element are read back through lookup, listing, adjacency, label index and traversals
// and compared with the Lean MODEL (C03's structured-key model under C16's validation), which on
// these histories is the abstract "verbatim or rejected" graph.  A second family of ops ("keys")
// compares the bytes of every key and prefix function of kvgraph/keys.go and kvindex/keys.go, and
// what the Go *KeyParse functions return on them, with the Lean encode / prefix / parse
// definitions the theorems are about.  "valbits" sends float64 bit patterns (NaN, infinities,
// -0, denormals, beyond 2^53) through the protobuf Struct round trip.
//
// Identifiers cross the protocol hex-encoded.

import (
	"context"
	"encoding/hex"
	"fmt"
	"math"
	"os"
	"path/filepath"
	"sort"
	"strings"
	"time"

	"github.com/bmeg/grip/gdbi"
	"github.com/bmeg/grip/gripql"
	"github.com/bmeg/grip/kvgraph"
	"github.com/bmeg/grip/kvindex"
	"google.golang.org/protobuf/types/known/structpb"
)

func c16hex(s string) string { return hex.EncodeToString([]byte(s)) }
func c16unhex(h interface{}) string {
	b, err := hex.DecodeString(h.(string))
	if err != nil {
		panic(err)
	}
	return string(b)
}
func c16unhexList(x interface{}) []string {
	out := []string{}
	for _, h := range x.([]interface{}) {
		out = append(out, c16unhex(h))
	}
	return out
}

type c16World struct {
	*C03World
	work   string
	resets int
}

// reset empties the store; every 16th time the store itself is replaced by a fresh one (LevelDB
// never compacts level 0 under grip's options, so a long-lived store slows every scan down).
func (w *c16World) reset() map[string]interface{} {
	w.resets++
	if w.resets%16 == 0 {
		w.Destroy()
		os.RemoveAll(w.work)
		n := NewC03World("level")
		w.C03World = n
		w.work = filepath.Join(n.Dir, "..", filepath.Base(n.Dir)+"-work")
		os.MkdirAll(w.work, 0o755)
		return map[string]interface{}{"r": "reset"}
	}
	return w.Exec(map[string]interface{}{"op": "reset"})
}

func newC16World() *c16World {
	w := NewC03World("level")
	return &c16World{C03World: w, work: filepath.Join(w.Dir, "..", filepath.Base(w.Dir)+"-work")}
}

func (w *c16World) destroy() {
	w.Destroy()
	os.RemoveAll(w.work)
}

func c16V(v *gdbi.Vertex) interface{} {
	if v == nil {
		return nil
	}
	d := v.Data
	if d == nil {
		d = map[string]interface{}{}
	}
	return map[string]interface{}{"gid": c16hex(v.ID), "label": c16hex(v.Label), "data": Tag(d)}
}

func c16E(e *gdbi.Edge) interface{} {
	if e == nil {
		return nil
	}
	d := e.Data
	if d == nil {
		d = map[string]interface{}{}
	}
	return map[string]interface{}{"gid": c16hex(e.ID), "label": c16hex(e.Label), "from": c16hex(e.From), "to": c16hex(e.To), "data": Tag(d)}
}

func c16Sort(xs []interface{}) []interface{} {
	key := func(x interface{}) string {
		m := x.(map[string]interface{})
		k := m["gid"].(string) + "/" + m["label"].(string)
		if f, ok := m["from"]; ok {
			k += "/" + f.(string) + "/" + m["to"].(string)
		}
		return k
	}
	sort.SliceStable(xs, func(i, j int) bool { return key(xs[i]) < key(xs[j]) })
	if xs == nil {
		xs = []interface{}{}
	}
	return xs
}

func c16HexSorted(xs []string) []interface{} {
	hs := []string{}
	for _, x := range xs {
		hs = append(hs, c16hex(x))
	}
	sort.Strings(hs)
	out := []interface{}{}
	for _, h := range hs {
		out = append(out, h)
	}
	return out
}

// trav runs a traversal through the production compiler and pipeline; rows as canonical elements.
func (w *c16World) trav(g gdbi.GraphInterface, stmts ...interface{}) []interface{} {
	ss, err := StmtsFromJSON(stmts)
	if err != nil {
		return []interface{}{map[string]interface{}{"gid": "stmt-error", "label": err.Error()}}
	}
	o := RunOn(g, ss, w.work, 20*time.Second)
	if o.Err != nil || o.TimedOut || o.Panic != "" {
		return []interface{}{map[string]interface{}{"gid": "trav-failed", "label": fmt.Sprint(o.Err, o.TimedOut, o.Panic)}}
	}
	out := []interface{}{}
	for _, r := range o.Rows {
		switch x := r.GetResult().(type) {
		case *gripql.QueryResult_Vertex:
			out = append(out, c16V(gdbi.NewElementFromVertex(x.Vertex)))
		case *gripql.QueryResult_Edge:
			out = append(out, c16E(gdbi.NewElementFromEdge(x.Edge)))
		default:
			out = append(out, map[string]interface{}{"gid": "other-row", "label": ""})
		}
	}
	return c16Sort(out)
}

func (w *c16World) graphObs(name string, ids, eids, adj, labels, tids, tadj []string) map[string]interface{} {
	g, err := w.DB.Graph(name)
	if err != nil {
		return map[string]interface{}{"name": c16hex(name), "error": "graph listed but not found"}
	}
	ctx := context.Background()
	o := map[string]interface{}{"name": c16hex(name)}
	vs := []interface{}{}
	for v := range g.GetVertexList(ctx, true) {
		vs = append(vs, c16V(v))
	}
	o["V"] = c16Sort(vs)
	es := []interface{}{}
	for e := range g.GetEdgeList(ctx, true) {
		es = append(es, c16E(e))
	}
	o["E"] = c16Sort(es)
	get := []interface{}{}
	for _, id := range ids {
		get = append(get, c16V(g.GetVertex(id, true)))
	}
	o["get"] = get
	getE := []interface{}{}
	for _, id := range eids {
		getE = append(getE, c16E(g.GetEdge(id, true)))
	}
	o["getE"] = getE
	one := func(id string) chan gdbi.ElementLookup {
		c := make(chan gdbi.ElementLookup, 1)
		c <- gdbi.ElementLookup{ID: id}
		close(c)
		return c
	}
	collect := func(res chan gdbi.ElementLookup, edge bool) []interface{} {
		xs := []interface{}{}
		for r := range res {
			if edge {
				xs = append(xs, c16E(r.Edge))
			} else {
				xs = append(xs, c16V(r.Vertex))
			}
		}
		return c16Sort(xs)
	}
	outM, inM, outEM, inEM, outL := []interface{}{}, []interface{}{}, []interface{}{}, []interface{}{}, []interface{}{}
	for _, id := range adj {
		outM = append(outM, collect(g.GetOutChannel(ctx, one(id), true, false, []string{}), false))
		inM = append(inM, collect(g.GetInChannel(ctx, one(id), true, false, []string{}), false))
		outEM = append(outEM, collect(g.GetOutEdgeChannel(ctx, one(id), true, false, []string{}), true))
		inEM = append(inEM, collect(g.GetInEdgeChannel(ctx, one(id), true, false, []string{}), true))
		per := []interface{}{}
		for _, l := range labels {
			per = append(per, collect(g.GetOutChannel(ctx, one(id), true, false, []string{l}), false))
		}
		outL = append(outL, per)
	}
	o["out"], o["in"], o["outE"], o["inE"], o["outL"] = outM, inM, outEM, inEM, outL
	hl := []interface{}{}
	for _, l := range labels {
		xs := []interface{}{}
		for id := range g.VertexLabelScan(ctx, l) {
			if v := g.GetVertex(id, true); v != nil {
				xs = append(xs, c16V(v))
			}
		}
		hl = append(hl, c16Sort(xs))
	}
	o["hasLabel"] = hl
	lv, _ := g.ListVertexLabels()
	le, _ := g.ListEdgeLabels()
	o["labelsV"] = c16HexSorted(lv)
	o["labelsE"] = c16HexSorted(le)
	// the same through traversals
	o["tV"] = w.trav(g, map[string]interface{}{"v": []interface{}{}})
	o["tE"] = w.trav(g, map[string]interface{}{"e": []interface{}{}})
	tGet, tOut, tHL := []interface{}{}, []interface{}{}, []interface{}{}
	for _, id := range tids {
		tGet = append(tGet, w.trav(g, map[string]interface{}{"v": []interface{}{id}}))
	}
	for _, id := range tadj {
		tOut = append(tOut, w.trav(g, map[string]interface{}{"v": []interface{}{id}}, map[string]interface{}{"out": []interface{}{}}))
	}
	for _, l := range labels {
		tHL = append(tHL, w.trav(g, map[string]interface{}{"v": []interface{}{}}, map[string]interface{}{"hasLabel": []interface{}{l}}))
	}
	o["tGet"], o["tOut"], o["tHasLabel"] = tGet, tOut, tHL
	return o
}

func c16Elem(j map[string]interface{}) map[string]interface{} {
	m := map[string]interface{}{"gid": c16unhex(j["gid"]), "label": c16unhex(j["label"]), "data": j["data"]}
	if f, ok := j["from"]; ok {
		m["from"], m["to"] = c16unhex(f), c16unhex(j["to"])
	}
	return m
}

func sixOut(f func() (string, string, string, string, string, byte)) (out interface{}) {
	defer func() {
		if recover() != nil {
			out = "panic"
		}
	}()
	a, b, c, d, e, ty := f()
	return []interface{}{c16hex(a), c16hex(b), c16hex(c), c16hex(d), c16hex(e), int(ty)}
}

func guard(f func() interface{}) (out interface{}) {
	defer func() {
		if recover() != nil {
			out = "panic"
		}
	}()
	return f()
}

func c16Keys(op map[string]interface{}) map[string]interface{} {
	s := func(k string) string { return c16unhex(op[k]) }
	g, id, eid, src, dst, l, f, t, doc := s("g"), s("id"), s("eid"), s("s"), s("d"), s("l"), s("f"), s("t"), s("doc")
	hb := func(b []byte) string { return hex.EncodeToString(b) }
	kV := kvgraph.VertexKey(g, id)
	kE := kvgraph.EdgeKey(g, eid, src, dst, l, 0x01)
	kS := kvgraph.SrcEdgeKey(g, src, dst, eid, l, 0x01)
	kD := kvgraph.DstEdgeKey(g, src, dst, eid, l, 0x01)
	kG := kvgraph.GraphKey(g)
	kF := kvindex.FieldKey(f)
	kT := kvindex.TermKey(f, kvindex.TermString, []byte(t))
	kI := kvindex.EntryKey(f, kvindex.TermString, []byte(t), doc)
	kDoc := kvindex.DocKey(doc)
	keys := map[string]interface{}{"vertex": hb(kV), "edge": hb(kE), "src": hb(kS), "dst": hb(kD), "graph": hb(kG),
		"field": hb(kF), "term": hb(kT), "entry": hb(kI), "doc": hb(kDoc)}
	pre := map[string]interface{}{
		"graph": hb(kvgraph.GraphPrefix()), "field": hb(kvindex.FieldPrefix()),
		"vlist": hb(kvgraph.VertexListPrefix(g)), "elist": hb(kvgraph.EdgeListPrefix(g)),
		"ekey": hb(kvgraph.EdgeKeyPrefix(g, eid)), "slist": hb(kvgraph.SrcEdgeListPrefix(g)),
		"dlist": hb(kvgraph.DstEdgeListPrefix(g)), "sedge": hb(kvgraph.SrcEdgePrefix(g, id)),
		"dedge": hb(kvgraph.DstEdgePrefix(g, id)), "skey": hb(kvgraph.SrcEdgeKeyPrefix(g, src, dst, eid)),
		"dkey": hb(kvgraph.DstEdgeKeyPrefix(g, src, dst, eid)), "term": hb(kvindex.TermPrefix(f)),
		"termtype": hb(kvindex.TermTypePrefix(f, kvindex.TermString)), "entry": hb(kvindex.EntryPrefix(f)),
		"entrytype": hb(kvindex.EntryTypePrefix(f, kvindex.TermString)),
		"entryval":  hb(kvindex.EntryValuePrefix(f, kvindex.TermString, []byte(t))),
	}
	parse := map[string]interface{}{
		"vertex": guard(func() interface{} { a, b := kvgraph.VertexKeyParse(kV); return []interface{}{c16hex(a), c16hex(b)} }),
		"edge":   sixOut(func() (string, string, string, string, string, byte) { return kvgraph.EdgeKeyParse(kE) }),
		"src":    sixOut(func() (string, string, string, string, string, byte) { return kvgraph.SrcEdgeKeyParse(kS) }),
		"dst":    sixOut(func() (string, string, string, string, string, byte) { return kvgraph.DstEdgeKeyParse(kD) }),
		"graph":  guard(func() interface{} { return c16hex(kvgraph.GraphKeyParse(kG)) }),
		"field":  guard(func() interface{} { return c16hex(kvindex.FieldKeyParse(kF)) }),
		"term": guard(func() interface{} {
			a, ty, b := kvindex.TermKeyParse(kT)
			return []interface{}{c16hex(a), int(ty), hb(b)}
		}),
		"entry": guard(func() interface{} {
			a, ty, b, c := kvindex.EntryKeyParse(kI)
			return []interface{}{c16hex(a), int(ty), hb(b), c16hex(c)}
		}),
	}
	// round trip of the structured view through the real functions
	rt := true
	chk := func(ok bool) {
		if !ok {
			rt = false
		}
	}
	func() {
		defer func() {
			if recover() != nil {
				rt = false
			}
		}()
		a, b := kvgraph.VertexKeyParse(kV)
		chk(a == g && b == id)
		g1, e1, s1, d1, l1, t1 := kvgraph.EdgeKeyParse(kE)
		chk(g1 == g && e1 == eid && s1 == src && d1 == dst && l1 == l && t1 == 1)
		g1, s1, d1, e1, l1, t1 = kvgraph.SrcEdgeKeyParse(kS)
		chk(g1 == g && e1 == eid && s1 == src && d1 == dst && l1 == l && t1 == 1)
		g1, s1, d1, e1, l1, t1 = kvgraph.DstEdgeKeyParse(kD)
		chk(g1 == g && e1 == eid && s1 == src && d1 == dst && l1 == l && t1 == 1)
		chk(kvgraph.GraphKeyParse(kG) == g)
		chk(kvindex.FieldKeyParse(kF) == f)
		f1, ty, tb := kvindex.TermKeyParse(kT)
		chk(f1 == f && ty == kvindex.TermString && string(tb) == t)
		f1, ty, tb, d2 := kvindex.EntryKeyParse(kI)
		chk(f1 == f && ty == kvindex.TermString && string(tb) == t && d2 == doc)
		// DocKey has no parse function in kvindex; the model's `parse` reads component 1
		chk(!strings.Contains(doc, "\x00"))
	}()
	return map[string]interface{}{"k": keys, "p": pre, "parse": parse, "rt": rt}
}

func bitsOf(v interface{}) string {
	f, ok := v.(float64)
	if !ok {
		return fmt.Sprintf("not-a-number:%T", v)
	}
	return fmt.Sprintf("%016x", math.Float64bits(f))
}

func c16Dig(d map[string]interface{}, n int) []interface{} {
	row := []interface{}{}
	for i := 0; i < n; i++ {
		k := fmt.Sprintf("n%d", i)
		row = append(row, bitsOf(d[k]))
	}
	return row
}

// valbits: write one vertex whose data holds the given float64 bit patterns at top level, inside a
// list and inside a nested struct; read back through lookup, listing and a traversal.
func (w *c16World) valbits(op map[string]interface{}) map[string]interface{} {
	name, id := c16unhex(op["g"]), c16unhex(op["id"])
	g, err := w.DB.Graph(name)
	if err != nil {
		return res(err)
	}
	bits := op["bits"].([]interface{})
	data := map[string]interface{}{}
	for i, b := range bits {
		var u uint64
		fmt.Sscanf(b.(string), "%x", &u)
		data[fmt.Sprintf("n%d", i)] = math.Float64frombits(u)
	}
	st, err := structpb.NewStruct(data)
	if err != nil {
		return res(err)
	}
	// as the server does: Validate the protobuf element, then protobuf element -> gdbi element -> AddVertex
	if err := (&gripql.Vertex{Gid: id, Label: "N", Data: st}).Validate(); err != nil {
		return res(err)
	}
	if err := g.AddVertex([]*gdbi.Vertex{gdbi.NewElementFromVertex(&gripql.Vertex{Gid: id, Label: "N", Data: st})}); err != nil {
		return res(err)
	}
	n := len(bits)
	out := map[string]interface{}{"r": "ok"}
	if v := g.GetVertex(id, true); v != nil {
		out["get"] = c16Dig(v.Data, n)
	}
	for v := range g.GetVertexList(context.Background(), true) {
		if v.ID == id {
			out["list"] = c16Dig(v.Data, n)
		}
	}
	ss, _ := StmtsFromJSON([]interface{}{map[string]interface{}{"v": []interface{}{id}}})
	o := RunOn(g, ss, w.work, 20*time.Second)
	for _, r := range o.Rows {
		if x, ok := r.GetResult().(*gripql.QueryResult_Vertex); ok {
			out["trav"] = c16Dig(x.Vertex.Data.AsMap(), n)
		}
	}
	return out
}

// Exec16 runs one protocol op.
func (w *c16World) Exec16(op map[string]interface{}) (obs map[string]interface{}) {
	defer func() {
		if p := recover(); p != nil {
			obs = map[string]interface{}{"panic": fmt.Sprint(p)}
		}
	}()
	switch op["op"] {
	case "reset":
		return w.reset()
	case "keys":
		return c16Keys(op)
	case "valbits":
		return w.valbits(op)
	case "observe":
		ids, eids, adj, labels := c16unhexList(op["ids"]), c16unhexList(op["eids"]), c16unhexList(op["adj"]), c16unhexList(op["labels"])
		tids, tadj := c16unhexList(op["tids"]), c16unhexList(op["tadj"])
		gs := w.DB.ListGraphs()
		hs := []string{}
		byHex := map[string]string{}
		for _, g := range gs {
			hs = append(hs, c16hex(g))
			byHex[c16hex(g)] = g
		}
		sort.Strings(hs)
		names, per := []interface{}{}, []interface{}{}
		for _, h := range hs {
			names = append(names, h)
			per = append(per, w.graphObs(byHex[h], ids, eids, adj, labels, tids, tadj))
		}
		return map[string]interface{}{"obs": map[string]interface{}{"graphs": names, "g": per}}
	}
	// write ops: translate to the C03 form (plain strings) and run them through C03World.Exec
	c := map[string]interface{}{"op": op["op"], "g": c16unhex(op["g"])}
	switch op["op"] {
	case "addV":
		vs := []interface{}{}
		for _, j := range op["vs"].([]interface{}) {
			vs = append(vs, c16Elem(j.(map[string]interface{})))
		}
		c["vs"] = vs
	case "addE":
		es := []interface{}{}
		for _, j := range op["es"].([]interface{}) {
			es = append(es, c16Elem(j.(map[string]interface{})))
		}
		c["es"] = es
	case "bulk":
		xs := []interface{}{}
		for _, j := range op["xs"].([]interface{}) {
			m := j.(map[string]interface{})
			if v, ok := m["v"]; ok {
				xs = append(xs, map[string]interface{}{"v": c16Elem(v.(map[string]interface{}))})
			} else {
				xs = append(xs, map[string]interface{}{"e": c16Elem(m["e"].(map[string]interface{}))})
			}
		}
		c["xs"] = xs
	case "delV", "delE":
		c["id"] = c16unhex(op["id"])
	}
	return w.Exec(c)
}

// ---------- generators ----------

var c16Hostile = []string{
	"", "a", "b", "ab", "c", "a\x00b", "a\x00", "\x00", "\x00a", "b\x00c", "e1\x00a", "a\x00b\x00c", "L\x00", "a\x00\x00b",
	"a\x01b", "\x01", "\x02", "a b", "a|b", "a/b", "a.b", "a:b", "a,b", "label", "v", "e", "g", "s", "d", "f", "t", "i", "D",
	"__schema__", "a__schema__", "_gid", "_label", "_data", "-x", "é", "日本語", "😀", "é", "\x7f", "\n", "a\tb", "\u2028", "\u0085", " ",
	"\ufeff", "%00", "a\\x00b", "A", "L", "M", "aa", "a\u0000", "\u0080", "ÿ", "a.v.label", "v.label", "0", "null", "true",
}

// c16Quick is the part of the pool the quick tier puts in every position; delete positions use
// c16QuickDel (separator-carrying strings that spell another element's key, and plain neighbours).
var c16Quick = []string{"", "ab", "a\x00b", "a\x00", "b\x00c", "L\x00", "a\x01b", "a b", "a|b", "a.b",
	"label", "v", "__schema__", "_gid", "日本語", "😀", "\n", "a.v.label"}
var c16QuickDel = []string{"", "ab", "b", "e1", "a\x00b", "b\x00c", "e1\x00a", "b\x00"}

// c16Plain: property names and string values travel as plain JSON strings; the line-oriented
// comparison splits lines at U+0085, U+2028 and U+2029 (which JSON writers may leave unescaped), so
// these three never appear there (ids and labels, which travel as hex, do carry them).
func c16Plain(s string) string {
	if strings.ContainsAny(s, "\u0085\u2028\u2029") {
		return "nl"
	}
	return s
}

func c16OpV(g, gid, label string, data map[string]interface{}) map[string]interface{} {
	if data == nil {
		data = map[string]interface{}{}
	}
	return map[string]interface{}{"op": "addV", "g": c16hex(g), "vs": []interface{}{
		map[string]interface{}{"gid": c16hex(gid), "label": c16hex(label), "data": Tag(data)}}}
}

func c16OpE(g, gid, label, from, to string, data map[string]interface{}) map[string]interface{} {
	if data == nil {
		data = map[string]interface{}{}
	}
	return map[string]interface{}{"op": "addE", "g": c16hex(g), "es": []interface{}{
		map[string]interface{}{"gid": c16hex(gid), "label": c16hex(label), "from": c16hex(from), "to": c16hex(to), "data": Tag(data)}}}
}

func c16Op(name, g string, kv ...string) map[string]interface{} {
	m := map[string]interface{}{"op": name, "g": c16hex(g)}
	for i := 0; i+1 < len(kv); i += 2 {
		m[kv[i]] = c16hex(kv[i+1])
	}
	return m
}

// baseline: two graphs whose names are prefixes of one another, ids that are prefixes of one
// another, an edge whose id equals a vertex id, reserved one-letter words as ids.
func c16Baseline() []map[string]interface{} {
	x1 := map[string]interface{}{"x": 1.0}
	el := func(op map[string]interface{}) map[string]interface{} {
		if vs, ok := op["vs"]; ok {
			return map[string]interface{}{"v": vs.([]interface{})[0]}
		}
		return map[string]interface{}{"e": op["es"].([]interface{})[0]}
	}
	bulk := func(g string, ops ...map[string]interface{}) map[string]interface{} {
		xs := []interface{}{}
		for _, o := range ops {
			xs = append(xs, el(o))
		}
		return map[string]interface{}{"op": "bulk", "g": c16hex(g), "xs": xs}
	}
	return []map[string]interface{}{
		c16Op("addGraph", "a"), c16Op("addGraph", "ab"),
		bulk("a", c16OpV("a", "a", "L", x1), c16OpV("a", "b", "L", nil), c16OpV("a", "ab", "M", nil), c16OpV("a", "c", "M", x1),
			c16OpE("a", "b", "L", "b", "c", nil), c16OpE("a", "e1", "M", "a", "b", x1), c16OpE("a", "e1x", "L", "ab", "a", nil)),
		bulk("ab", c16OpV("ab", "a", "L", nil), c16OpV("ab", "b", "M", x1), c16OpE("ab", "e1", "L", "a", "b", nil)),
	}
}

var c16Time = map[string]time.Duration{}

type c16Case struct {
	ops  []map[string]interface{}
	used []string // hostile strings that must be looked up afterwards
}

func c16Observe(extra []string) map[string]interface{} {
	hexList := func(base []string, nulOK bool) []interface{} {
		set := map[string]bool{}
		for _, s := range base {
			set[s] = true
		}
		for _, h := range extra {
			set[h] = true
			for _, p := range strings.Split(h, "\x00") {
				set[p] = true
			}
		}
		all := []string{}
		for s := range set {
			if nulOK || !strings.Contains(s, "\x00") {
				all = append(all, s)
			}
		}
		sort.Strings(all)
		out := []interface{}{}
		for _, s := range all {
			out = append(out, c16hex(s))
		}
		return out
	}
	// lookups by exact key take every string; prefix-scanning reads (edge lookup, adjacency, label
	// index) only separator-free ones: the property speaks about identifiers a write call accepted
	return map[string]interface{}{"op": "observe",
		"ids":    hexList([]string{"a", "b", "ab", "c", "n1"}, true),
		"eids":   hexList([]string{"b", "e1", "e1x", "ne1"}, false),
		"adj":    hexList([]string{"a", "b", "ab", "c"}, false),
		"labels": hexList([]string{"L", "M"}, false),
		"tids":   hexList([]string{"a"}, true),
		"tadj":   hexList([]string{"b"}, false)}
}

// c16Position builds the case "hostile string h in position pos".
func c16Position(pos string, h string) []map[string]interface{} {
	x1 := map[string]interface{}{"x": 1.0}
	switch pos {
	case "graph":
		return []map[string]interface{}{c16Op("addGraph", h), c16OpV(h, "n1", "L", x1), c16OpE(h, "ne1", "L", "n1", "b", nil),
			c16Op("delGraph", h)}
	case "delgraph":
		return []map[string]interface{}{c16Op("delGraph", h)}
	case "vid":
		return []map[string]interface{}{c16OpV("a", h, "L", x1), c16OpE("a", "ne1", "L", h, "a", nil), c16Op("delV", "a", "id", h)}
	case "delv":
		return []map[string]interface{}{c16Op("delV", "a", "id", h)}
	case "dele":
		return []map[string]interface{}{c16Op("delE", "a", "id", h)}
	case "vlabel":
		return []map[string]interface{}{c16OpV("a", "n1", h, x1), c16OpV("ab", "n1", h, nil)}
	case "eid":
		return []map[string]interface{}{c16OpE("a", h, "L", "a", "c", x1), c16Op("delE", "a", "id", h)}
	case "elabel":
		return []map[string]interface{}{c16OpE("a", "ne1", h, "a", "c", x1)}
	case "from":
		return []map[string]interface{}{c16OpE("a", "ne1", "L", h, "c", x1), c16Op("delE", "a", "id", "ne1")}
	case "to":
		return []map[string]interface{}{c16OpE("a", "ne1", "L", "a", h, x1), c16Op("delV", "a", "id", "a")}
	case "pname":
		h = c16Plain(h)
		return []map[string]interface{}{c16OpV("a", "n1", "L", map[string]interface{}{h: 1.0, "y": "z"}),
			c16OpE("a", "ne1", "L", "a", "c", map[string]interface{}{h: map[string]interface{}{h: []interface{}{}}})}
	}
	panic("pos")
}

var c16Positions = []string{"graph", "delgraph", "vid", "delv", "dele", "vlabel", "eid", "elabel", "from", "to", "pname"}

func c16Values() []map[string]interface{} {
	big := math.Pow(2, 52)
	return []map[string]interface{}{
		{},
		{"e": map[string]interface{}{}, "l": []interface{}{}, "n": nil, "s": ""},
		{"nest": map[string]interface{}{"a": map[string]interface{}{"b": map[string]interface{}{"c": []interface{}{[]interface{}{[]interface{}{}}, map[string]interface{}{}, nil}}}}},
		{"nulls": []interface{}{nil, nil, map[string]interface{}{"n": nil}}},
		{"num": []interface{}{0.0, -1.0, 1.0 / 1024, -1.0 / 1024, big, -big, big + 1, 4503599627370495.5, 1e15}},
		{"str": []interface{}{"", "\x00", "a\x00b", " ", "😀", "label", "_gid", "\n", "\x7f"}},
		{"b": []interface{}{true, false}, "mixed": []interface{}{1.0, "1", true, nil, []interface{}{}, map[string]interface{}{}}},
		{"label": "label", "gid": "x", "v": map[string]interface{}{"label": "L"}},
		{"a": 1.0, "ab": 2.0, "A": 3.0, "é": 4.0, "日本語": map[string]interface{}{"😀": "😀"}},
	}
}

var c16Bits = []string{
	"0000000000000000", "8000000000000000", "3ff0000000000000", "7ff0000000000000", "fff0000000000000", "7ff8000000000000",
	"7ff8000000000001", "fff8000000000000", "7fefffffffffffff", "ffefffffffffffff", "0000000000000001", "8000000000000001",
	"000fffffffffffff", "0010000000000000", "4340000000000000", "4340000000000001", "433fffffffffffff", "c340000000000001",
	"43e0000000000000", "3fb999999999999a", "7ff0000000000001",
}

func (w *c16World) runCase(r *Run, ops []map[string]interface{}, used []string, key string) {
	emit := func(op map[string]interface{}) map[string]interface{} {
		t0 := time.Now()
		obs := w.Exec16(op)
		c16Time[opKind(op)] += time.Since(t0)
		r.Emit(op, obs)
		r.Count("op:" + opKind(op))
		if e, ok := obs["r"]; ok && e == "err" {
			r.Count("result:err")
		}
		if e, ok := obs["r"]; ok && e == "ok" {
			r.Count("result:ok")
		}
		return obs
	}
	emit(map[string]interface{}{"op": "reset"})
	for _, op := range c16Baseline() {
		emit(op)
	}
	obsOp := c16Observe(used)
	emit(obsOp)
	for _, op := range ops {
		emit(op)
		emit(obsOp)
	}
	r.NonTrivial(key)
	r.ops.Flush()
	r.impl.Flush()
}

func c16Gen(r *Run) {
	w := newC16World()
	defer w.destroy()
	r.Rule = "case = reset, baseline (2 graphs with prefix-related names and ids), then a short write history with a hostile string " +
		"in one position (graph name, delete arguments, vertex id, edge id, label, from, to, property name) or a hostile JSON value, " +
		"full observation (lookup, listings, adjacency, label index, traversals; all graphs) after every write; plus random histories " +
		"over the hostile pool, byte-level key/prefix/parse comparisons and float64 bit patterns; distinct = distinct (position, string) " +
		"cases + random histories + key tuples; all are non-trivial (each contains accepted baseline writes)"
	rnd := r.Rng
	// 1. every hostile string in every position
	for _, pos := range c16Positions {
		pool := c16Hostile
		if r.Tier != "thorough" {
			pool = c16Quick
			if pos == "delgraph" || pos == "delv" || pos == "dele" {
				pool = c16QuickDel
			}
		} else if pos == "delgraph" || pos == "delv" || pos == "dele" {
			pool = append(append([]string{}, c16Hostile...), c16QuickDel...)
		}
		for hi, h := range pool {
			w.runCase(r, c16Position(pos, h), []string{h}, fmt.Sprintf("pos:%s:%d", pos, hi))
			r.Count("position:" + pos)
			if strings.Contains(h, "\x00") {
				r.Count("hostile:nul")
			}
		}
	}
	r.AddSample(c16Position("vid", "a\x00b"))
	r.AddSample(c16Position("vlabel", "label"))
	// 2. JSON values
	for vi, d := range c16Values() {
		ops := []map[string]interface{}{c16OpV("a", "n1", "L", d), c16OpE("a", "ne1", "L", "a", "c", d), c16OpV("ab", "a", "L", d)}
		w.runCase(r, ops, nil, fmt.Sprintf("val:%d", vi))
		r.Count("values")
	}
	// 3. float64 bit patterns through the Struct round trip
	{
		r.Emit(map[string]interface{}{"op": "reset"}, w.Exec16(map[string]interface{}{"op": "reset"}))
		op := c16Op("addGraph", "a")
		r.Emit(op, w.Exec16(op))
		bits := []interface{}{}
		for _, b := range c16Bits {
			bits = append(bits, b)
		}
		n := 20
		if r.Tier == "thorough" {
			n = 400
		}
		for i := 0; i < n; i++ {
			bits = append(bits, fmt.Sprintf("%016x", rnd.Uint64()))
		}
		for i := 0; i < len(bits); i += 7 {
			j := i + 7
			if j > len(bits) {
				j = len(bits)
			}
			op := map[string]interface{}{"op": "valbits", "g": c16hex("a"), "id": c16hex(fmt.Sprintf("f%d", i)), "bits": bits[i:j]}
			r.Emit(op, w.Exec16(op))
			r.Count("valbits")
		}
		r.Dist["float_bit_patterns"] = len(bits)
	}
	// 4. byte level: key / prefix / parse functions on tuples from the pool
	nkeys, nhist, lhist := 300, 8, 8
	if r.Tier == "thorough" {
		nkeys, nhist, lhist = 6000, 200, 14
	}
	fields := []string{"g", "id", "eid", "s", "d", "l", "f", "t", "doc"}
	keyOp := func(vals []string) {
		op := map[string]interface{}{"op": "keys"}
		for i, f := range fields {
			op[f] = c16hex(vals[i])
		}
		r.Emit(op, w.Exec16(op))
		r.Count("op:keys")
	}
	for pi := range fields { // one hostile string at a time
		for _, h := range c16Hostile {
			vals := []string{"g1", "id1", "e1", "s1", "d1", "L", "g1.v.label", "L", "id1"}
			vals[pi] = h
			keyOp(vals)
		}
	}
	for i := 0; i < nkeys; i++ {
		vals := make([]string, len(fields))
		for j := range vals {
			vals[j] = Pick(rnd, c16Hostile)
			if rnd.Intn(5) == 0 {
				vals[j] = Pick(rnd, c16Hostile) + Pick(rnd, c16Hostile)
			}
		}
		keyOp(vals)
		r.NonTrivial(fmt.Sprintf("keys:%d:%d", r.Seed, i))
	}
	// 5. random histories over the pool (edge ids keep their endpoints inside a history)
	clean := []string{}
	for _, h := range c16Hostile {
		if h != "" {
			clean = append(clean, h)
		}
	}
	for hI := 0; hI < nhist; hI++ {
		pool := []string{}
		for k := 0; k < 6; k++ {
			pool = append(pool, Pick(rnd, clean))
		}
		pool = append(pool, "a", "b", "ab")
		endp := map[string][3]string{}
		ops := []map[string]interface{}{}
		for k := 0; k < lhist; k++ {
			g := Pick(rnd, []string{"a", "ab", pool[0]})
			switch rnd.Intn(10) {
			case 0:
				ops = append(ops, c16Op("addGraph", Pick(rnd, pool)))
			case 1:
				ops = append(ops, c16Op("delV", g, "id", Pick(rnd, pool)))
			case 2:
				ops = append(ops, c16Op("delE", g, "id", Pick(rnd, pool)))
			case 3, 4, 5:
				ops = append(ops, c16OpV(g, Pick(rnd, pool), Pick(rnd, pool), map[string]interface{}{"k": c16Plain(Pick(rnd, pool))}))
			default:
				eid := Pick(rnd, pool)
				ep, ok := endp[g+"\x01"+eid]
				if !ok {
					ep = [3]string{Pick(rnd, pool), Pick(rnd, pool), Pick(rnd, pool)}
					endp[g+"\x01"+eid] = ep
				}
				ops = append(ops, c16OpE(g, eid, ep[2], ep[0], ep[1], nil))
			}
		}
		w.runCase(r, ops, pool, fmt.Sprintf("rnd:%d:%d", r.Seed, hI))
		r.Count("random_histories")
	}
	r.Exhaustive = false
	for k, v := range c16Time {
		r.Notes = append(r.Notes, fmt.Sprintf("time %s: %v", k, v.Round(time.Millisecond)))
	}
}

func init() {
	Registry["C16"] = Prop{
		Gen: c16Gen,
		Replay: func(r *Run, ops []map[string]interface{}) {
			w := newC16World()
			defer w.destroy()
			for _, op := range ops {
				r.Emit(op, w.Exec16(op))
				r.ops.Flush()
				r.impl.Flush()
			}
		},
	}
}
