package hx

// C13 — stream combinators: jobstorage.MarshalStream / UnmarshalStream, gripper.ChannelMux,
// gdbi.LookupBatcher, gdbi.DualProcessor and engine/queue output exactly their input items, once
// each, in input order, and close their output exactly when the input is exhausted, whatever the
// latency / scheduling.  The harness runs the REAL combinators on generated inputs under latency
// patterns, worker counts and GOMAXPROCS settings and records what came out.
//
// Every op line is a complete, self-contained case.  Lists of ints travel as canonical greedy
// run-length SEGMENTS [[start,count],...].  The parent process never runs a combinator itself:
// ops are executed by a re-exec'ed worker (`-mode worker`) that appends one line per op to
// <out>/results.jsonl, so that a deadlock (timeout -> {"timeout":true}, worker exits) or a panic
// inside the combinators' own goroutines (worker dies -> {"panic":true}) costs one case only.

import (
	"bufio"
	"bytes"
	"context"
	"encoding/json"
	"fmt"
	"io"
	"math"
	"os"
	"os/exec"
	"path/filepath"
	"runtime"
	"strconv"
	"strings"
	"sync"
	"sync/atomic"
	"time"

	"github.com/bmeg/grip/engine/queue"
	"github.com/bmeg/grip/gdbi"
	"github.com/bmeg/grip/gripper"
	"github.com/bmeg/grip/jobstorage"
)

func init() { Registry["C13"] = Prop{Gen: C13Gen, Replay: C13Replay} }

// ---------- segments ----------

// segs is the canonical greedy run-length form of a list: extend the current segment while
// next == prev+1, otherwise start a new one.  Never nil.
func segs(xs []int) [][]int {
	out := make([][]int, 0)
	for i, x := range xs {
		if i > 0 && x == xs[i-1]+1 {
			out[len(out)-1][1]++
		} else {
			out = append(out, []int{x, 1})
		}
	}
	return out
}

func unsegs(ss [][]int) []int {
	n := 0
	for _, s := range ss {
		if s[1] > 0 {
			n += s[1]
		}
	}
	out := make([]int, 0, n)
	for _, s := range ss {
		for j := 0; j < s[1]; j++ {
			out = append(out, s[0]+j)
		}
	}
	return out
}

func c13SegLen(ss [][]int) int {
	n := 0
	for _, s := range ss {
		if s[1] > 0 {
			n += s[1]
		}
	}
	return n
}

// ---------- decoding op fields (ops always arrive through JSON, but accept native ints too) ----------

func c13Int(v interface{}) int {
	switch x := v.(type) {
	case float64:
		return int(x)
	case int:
		return x
	case int64:
		return int(x)
	case json.Number:
		n, _ := x.Int64()
		return int(n)
	}
	return 0
}

func c13Str(v interface{}) string {
	s, _ := v.(string)
	return s
}

func c13Ints(v interface{}) []int {
	switch x := v.(type) {
	case []int:
		return x
	case []interface{}:
		out := make([]int, len(x))
		for i := range x {
			out[i] = c13Int(x[i])
		}
		return out
	}
	return make([]int, 0)
}

func c13Segs(v interface{}) [][]int {
	switch x := v.(type) {
	case [][]int:
		return x
	case []interface{}:
		out := make([][]int, 0, len(x))
		for _, e := range x {
			p := c13Ints(e)
			if len(p) == 2 {
				out = append(out, p)
			}
		}
		return out
	}
	return make([][]int, 0)
}

// c13OpLen is the number of input items of a case (decides the timeout and the length bucket).
func c13OpLen(op map[string]interface{}) int {
	if c13Str(op["op"]) == "mux" {
		return len(c13Ints(op["pipes"]))
	}
	return c13SegLen(c13Segs(op["in"]))
}

func c13Timeout(op map[string]interface{}) time.Duration {
	// after several hangs in one run the remaining cases get a short leash (the run is failing
	// anyway; this keeps a hang-type defect from costing 20 s per case)
	if os.Getenv("C13_FAST_TIMEOUT") != "" {
		if c13OpLen(op) > 2000 {
			return 15 * time.Second
		}
		return 2500 * time.Millisecond
	}
	if ms, err := strconv.Atoi(os.Getenv("C13_TIMEOUT_MS")); err == nil && ms > 0 {
		return time.Duration(ms) * time.Millisecond // self-test / debugging only
	}
	if c13Str(op["lat"]) == "pingpong" {
		return 150 * time.Second // ~3 s of work; one element at a time through busy-waiting goroutines starves under load
	}
	if c13OpLen(op) > 20000 {
		return 60 * time.Second
	}
	return 20 * time.Second
}

// ---------- latency patterns ----------

var c13Lats = []string{"none", "slowcons", "slowprod", "slow0", "rand", "burst"}

// c13Lat injects latency at the producer, at the harness-owned workers/pipelines/stages and at
// the consumer.  It is stateless apart from the producer-only pause counter, so the three places
// can call it concurrently; "random" choices are a hash of (seed, place, worker, index).
type c13Lat struct {
	name   string
	seed   uint64
	hotN   int  // the first hotN items may be delayed ...
	stride int  // ... and afterwards every stride-th one (0: none): bounds the total delay of a case
	cold   bool // "rand": occasional Gosched on the other items too
	pauses int  // burst: pauses taken so far (producer goroutine only)
}

func c13NewLat(op map[string]interface{}) *c13Lat {
	l := &c13Lat{name: c13Str(op["lat"]), seed: uint64(c13Int(op["ls"])), hotN: 200, stride: 97, cold: true}
	if c13Str(op["op"]) == "queue" && c13Int(op["procs"]) == 1 {
		// engine/queue's output goroutine busy-waits on an empty queue; on a single P every yield of
		// another goroutine then costs a full preemption slice (~10-20 ms), so keep the delays few
		l.hotN, l.stride, l.cold = 12, 0, false
	}
	return l
}

func c13Mix(x uint64) uint64 {
	x += 0x9E3779B97F4A7C15
	x = (x ^ (x >> 30)) * 0xBF58476D1CE4E5B9
	x = (x ^ (x >> 27)) * 0x94D049BB133111EB
	return x ^ (x >> 31)
}

func (l *c13Lat) rnd(place, w, i int) uint64 {
	return c13Mix(c13Mix(l.seed*0x100000001B3+uint64(place)*1000003+uint64(w)*7919) + uint64(i))
}

func (l *c13Lat) hot(i int) bool { return i < l.hotN || (l.stride > 0 && i%l.stride == 0) }

// c13Nap delays the calling goroutine by about us microseconds.  One nap in eight really parks
// the goroutine (time.Sleep: at least 1-2 ms on hosts with a coarse timer); the others poll the
// clock and yield the processor in between, which is accurate to a few microseconds and still
// lets every other goroutine run.
func c13Nap(h uint64, us uint64) {
	d := time.Duration(us) * time.Microsecond
	if (h>>44)%8 == 0 {
		time.Sleep(d)
		return
	}
	for end := time.Now().Add(d); time.Now().Before(end); {
		runtime.Gosched()
	}
}

func (l *c13Lat) randDelay(place, w, i int) {
	h := l.rnd(place, w, i)
	if !l.hot(i) {
		if l.cold && h%8 == 0 {
			runtime.Gosched()
		}
		return
	}
	switch h % 5 {
	case 0:
	case 1:
		runtime.Gosched()
	case 2:
		c13Nap(h, 10+(h>>8)%60)
	case 3:
		c13Nap(h, 50+(h>>8)%150)
	case 4:
		runtime.Gosched()
		runtime.Gosched()
	}
}

// stallAt: the "stall<k>" pattern — the consumer takes its first item and then stalls for 30 ms
// while the producer sends k items, pauses for 4 ms and sends the rest: every buffer between them
// fills up, the combinator blocks on its output with its own backlog momentarily empty, and the
// backlog grows again (and the input is closed) before the consumer comes back.
func (l *c13Lat) stallAt() (int, bool) {
	if !strings.HasPrefix(l.name, "stall") {
		return 0, false
	}
	k, err := strconv.Atoi(l.name[len("stall"):])
	return k, err == nil
}

func (l *c13Lat) producerDelay(i int) {
	if k, ok := l.stallAt(); ok {
		if i == k {
			time.Sleep(4 * time.Millisecond)
		}
		return
	}
	switch l.name {
	case "slowprod":
		if l.hot(i) {
			h := l.rnd(0, 0, i)
			c13Nap(h, 50+h%150)
		}
	case "rand":
		l.randDelay(0, 0, i)
	case "burst":
		// bursts of geometric random length (mean ~12), then a real pause of 1-3 ms; at most 25 pauses
		h := l.rnd(0, 0, i)
		if i > 0 && h%12 == 0 && l.pauses < 25 && l.hotN > 0 {
			l.pauses++
			time.Sleep(time.Duration(1000+(h>>8)%2000) * time.Microsecond)
		}
	}
}

func (l *c13Lat) workerDelay(w, i int) {
	switch l.name {
	case "late0": // worker 0 answers its first request after 6.5 s (a plugin warming up), then at once
		if w == 0 && i == 0 {
			time.Sleep(6500 * time.Millisecond)
		}
	case "slow0":
		if w == 0 && l.hot(i) {
			h := l.rnd(1, w, i)
			c13Nap(h, 50+h%150)
		}
	case "rand":
		l.randDelay(1, w, i)
	}
}

func (l *c13Lat) consumerDelay(i int) {
	if _, ok := l.stallAt(); ok {
		if i == 0 {
			time.Sleep(30 * time.Millisecond)
		}
		return
	}
	switch l.name {
	case "slowcons":
		every := 1
		if l.seed%2 == 1 {
			every = 3
		}
		if l.hot(i) && i%every == 0 {
			h := l.rnd(2, 0, i)
			c13Nap(h, 50+h%150)
		}
	case "rand":
		l.randDelay(2, 0, i)
	}
}

// ---------- one case, in-process (worker side) ----------

// c13Ctx carries what the goroutines of one case share.
type c13Ctx struct {
	lat       *c13Lat
	sawClosed int32 // set by the consumer when it sees the output channel closed
	panicOnce sync.Once
	panicked  chan struct{}
}

// guard recovers a panic in one of the harness's own goroutines.
func (c *c13Ctx) guard() {
	if p := recover(); p != nil {
		fmt.Fprintf(os.Stderr, "C13: harness goroutine panic: %v\n", p)
		c.panicOnce.Do(func() { close(c.panicked) })
	}
}

func (c *c13Ctx) markClosed()     { atomic.StoreInt32(&c.sawClosed, 1) }
func (c *c13Ctx) closedYet() bool { return atomic.LoadInt32(&c.sawClosed) == 1 }

func c13Trav(v int, data map[string]interface{}) *gdbi.BaseTraveler {
	return &gdbi.BaseTraveler{Current: &gdbi.Vertex{ID: strconv.Itoa(v), Data: data}}
}

func c13BigData(b int) map[string]interface{} {
	if b <= 0 {
		return nil
	}
	return map[string]interface{}{"pad": string(bytes.Repeat([]byte{'x'}, b))}
}

func c13ID(s string) int {
	n, err := strconv.Atoi(s)
	if err != nil {
		return -1
	}
	return n
}

func c13CurID(t gdbi.Traveler) int {
	if t == nil {
		return -1
	}
	cur := t.GetCurrent()
	if cur == nil {
		return -1
	}
	return c13ID(cur.ID)
}

// c13Bad: the item value that stands for a record the serializer cannot encode (a traveler whose
// data holds NaN: json.Marshal fails) or decode (a truncated line).  The combinators forward an
// empty record IN ITS PLACE (a nil byte slice / an empty traveler): order and multiplicity of the
// stream are those of the input, which is what the op's "in" list says with this value at the
// position of the bad record.
const c13Bad = 999999999

func c13StreamObs(out []int, c *c13Ctx, early bool) map[string]interface{} {
	return map[string]interface{}{"out": segs(out), "closed": c.closedYet(), "early": early}
}

func c13Marshal(c *c13Ctx, op map[string]interface{}) map[string]interface{} {
	w := c13Int(op["w"])
	items := unsegs(c13Segs(op["in"]))
	big := c13BigData(c13Int(op["big"]))
	in := make(chan gdbi.Traveler, 10)
	outc := jobstorage.MarshalStream(in, w)
	out := make([]int, 0, len(items))
	done := make(chan struct{})
	go func() {
		defer c.guard()
		i := 0
		for b := range outc {
			c.lat.consumerDelay(i)
			t := &gdbi.BaseTraveler{}
			if err := json.Unmarshal(b, t); err != nil || t.Current == nil {
				if len(b) == 0 {
					out = append(out, c13Bad) // the empty record forwarded for an unencodable traveler
				} else {
					out = append(out, -1)
				}
			} else {
				out = append(out, c13ID(t.Current.ID))
			}
			i++
		}
		c.markClosed()
		close(done)
	}()
	for i, v := range items {
		c.lat.producerDelay(i)
		var d map[string]interface{}
		if big != nil && i%w == 0 {
			d = big
		}
		if v == c13Bad {
			d = map[string]interface{}{"x": math.NaN()}
		}
		in <- c13Trav(v, d)
	}
	early := c.closedYet()
	close(in)
	<-done
	return c13StreamObs(out, c, early)
}

func c13Unmarshal(c *c13Ctx, op map[string]interface{}) map[string]interface{} {
	w := c13Int(op["w"])
	items := unsegs(c13Segs(op["in"]))
	in := make(chan []byte, 10)
	outc := jobstorage.UnmarshalStream(in, w)
	out := make([]int, 0, len(items))
	done := make(chan struct{})
	go func() {
		defer c.guard()
		i := 0
		for t := range outc {
			c.lat.consumerDelay(i)
			if t != nil && t.GetCurrent() == nil {
				out = append(out, c13Bad) // the empty traveler forwarded for an undecodable line
			} else {
				out = append(out, c13CurID(t))
			}
			i++
		}
		c.markClosed()
		close(done)
	}()
	for i, v := range items {
		c.lat.producerDelay(i)
		b, err := json.Marshal(c13Trav(v, nil))
		if err != nil {
			panic(err)
		}
		if v == c13Bad {
			b = b[:len(b)/2] // a truncated line
		}
		in <- b
	}
	early := c.closedYet()
	close(in)
	<-done
	return c13StreamObs(out, c, early)
}

func c13Mux(c *c13Ctx, op map[string]interface{}) map[string]interface{} {
	k := c13Int(op["k"])
	base := c13Int(op["base"])
	pipes := c13Ints(op["pipes"])
	mux := gripper.NewChannelMux()
	for j := 0; j < k; j++ {
		in := make(chan interface{}, 10)
		out := make(chan interface{}, 10)
		go func(j int, in <-chan interface{}, out chan<- interface{}) {
			defer c.guard()
			defer close(out)
			i := 0
			for x := range in {
				c.lat.workerDelay(j, i)
				v, ok := x.(int)
				if !ok {
					v = -1
				}
				out <- [2]int{j, v}
				i++
			}
		}(j, in, out)
		if _, err := mux.AddPipeline(in, out); err != nil {
			panic(err)
		}
	}
	ps := make([]int, 0, len(pipes))
	vs := make([]int, 0, len(pipes))
	done := make(chan struct{})
	go func() {
		defer c.guard()
		i := 0
		for x := range mux.GetOutChannel() {
			c.lat.consumerDelay(i)
			if p, ok := x.([2]int); ok {
				ps = append(ps, p[0])
				vs = append(vs, p[1])
			} else {
				ps = append(ps, -1)
				vs = append(vs, -1)
			}
			i++
		}
		c.markClosed()
		close(done)
	}()
	for i, p := range pipes {
		c.lat.producerDelay(i)
		mux.Put(p, base+i)
	}
	early := c.closedYet()
	mux.Close()
	<-done
	return map[string]interface{}{"pipes": ps, "vals": segs(vs), "closed": c.closedYet(), "early": early}
}

func c13Batcher(c *c13Ctx, op map[string]interface{}) map[string]interface{} {
	bs := c13Int(op["bs"])
	items := unsegs(c13Segs(op["in"]))
	var req chan gdbi.ElementLookup
	var outc chan []gdbi.ElementLookup
	early := false
	prefilled := c13Str(op["mode"]) == "prefilled"
	if prefilled {
		req = make(chan gdbi.ElementLookup, len(items)+1)
		for _, v := range items {
			req <- gdbi.ElementLookup{ID: strconv.Itoa(v)}
		}
		early = c.closedYet()
		close(req)
		outc = gdbi.LookupBatcher(req, bs, time.Hour)
	} else {
		req = make(chan gdbi.ElementLookup, 10)
		outc = gdbi.LookupBatcher(req, bs, 200*time.Microsecond)
	}
	sizes := make([]int, 0)
	out := make([]int, 0, len(items))
	done := make(chan struct{})
	go func() {
		defer c.guard()
		i := 0
		for b := range outc {
			c.lat.consumerDelay(i)
			sizes = append(sizes, len(b))
			for _, e := range b {
				out = append(out, c13ID(e.ID))
			}
			i++
		}
		c.markClosed()
		close(done)
	}()
	if !prefilled {
		for i, v := range items {
			c.lat.producerDelay(i)
			req <- gdbi.ElementLookup{ID: strconv.Itoa(v)}
		}
		early = c.closedYet()
		close(req)
	}
	<-done
	return map[string]interface{}{"sizes": sizes, "out": segs(out), "closed": c.closedYet(), "early": early}
}

func c13Dual(c *c13Ctx, op map[string]interface{}) map[string]interface{} {
	items := unsegs(c13Segs(op["in"]))
	ks := c13Ints(op["ks"])
	sig := map[int]bool{}
	for _, i := range c13Ints(op["sig"]) {
		sig[i] = true
	}
	kOf := func(i int) int {
		if i >= 0 && i < len(ks) {
			return ks[i]
		}
		return 1
	}
	// a normal request carries its index in Ref.Count (Ref has no Signal, so it is not a signal)
	idx := func(req gdbi.ElementLookup) int {
		if req.Ref == nil {
			return -1
		}
		return int(req.Ref.GetCount())
	}
	loader := func(req gdbi.ElementLookup, load bool) chan interface{} {
		ch := make(chan interface{})
		i := idx(req)
		go func() {
			defer c.guard()
			defer close(ch)
			c.lat.workerDelay(0, i)
			for j := 0; j < kOf(i); j++ {
				ch <- j
			}
		}()
		return ch
	}
	deser := func(req gdbi.ElementLookup, data interface{}) gdbi.ElementLookup {
		c.lat.workerDelay(1, idx(req))
		d, ok := data.(int)
		if !ok {
			d = 7
		}
		req.ID = strconv.Itoa(c13ID(req.ID)*8 + d)
		return req
	}
	req := make(chan gdbi.ElementLookup, 10)
	outc := gdbi.DualProcessor(context.Background(), req, true, loader, deser)
	out := make([]int, 0, len(items))
	done := make(chan struct{})
	go func() {
		defer c.guard()
		i := 0
		for e := range outc {
			c.lat.consumerDelay(i)
			if e.IsSignal() {
				out = append(out, c13ID(e.ID)*8+7)
			} else {
				out = append(out, c13ID(e.ID))
			}
			i++
		}
		c.markClosed()
		close(done)
	}()
	for i, v := range items {
		c.lat.producerDelay(i)
		e := gdbi.ElementLookup{ID: strconv.Itoa(v)}
		if sig[i] {
			e.Ref = &gdbi.BaseTraveler{Signal: &gdbi.Signal{Dest: "c13", ID: i}}
		} else {
			e.Ref = &gdbi.BaseTraveler{Count: uint32(i)}
		}
		req <- e
	}
	early := c.closedYet()
	close(req)
	<-done
	return c13StreamObs(out, c, early)
}

func c13Queue(c *c13Ctx, op map[string]interface{}) map[string]interface{} {
	items := unsegs(c13Segs(op["in"]))
	q := queue.New()
	out := make([]int, 0, len(items))
	done := make(chan struct{})
	// "pingpong": item i+1 is sent only after item i has come out — one element at a time, each
	// arriving at an EMPTY queue whose output side has just looked (a notification lost in that
	// window leaves the element inside for ever: nothing else will arrive to flush it)
	pingpong := c.lat.name == "pingpong"
	var taken int64
	go func() {
		defer c.guard()
		i := 0
		for t := range q.GetOutput() {
			c.lat.consumerDelay(i)
			out = append(out, c13CurID(t))
			i++
			atomic.StoreInt64(&taken, int64(i))
		}
		c.markClosed()
		close(done)
	}()
	in := q.GetInput()
	for i, v := range items {
		c.lat.producerDelay(i)
		if pingpong {
			for atomic.LoadInt64(&taken) < int64(i) {
				runtime.Gosched()
			}
		}
		in <- c13Trav(v, nil)
	}
	early := c.closedYet()
	close(in)
	<-done
	return c13StreamObs(out, c, early)
}

var c13Cases = map[string]func(c *c13Ctx, op map[string]interface{}) map[string]interface{}{
	"marshal": c13Marshal, "unmarshal": c13Unmarshal, "mux": c13Mux,
	"batcher": c13Batcher, "dual": c13Dual, "queue": c13Queue,
}

// c13CopyOp is a shallow copy (so that "sizes" can be overwritten without touching the input).
func c13CopyOp(op map[string]interface{}) map[string]interface{} {
	out := make(map[string]interface{}, len(op)+1)
	for k, v := range op {
		out[k] = v
	}
	return out
}

// c13Fail is the (op, obs) pair of a case that did not complete.
func c13Fail(op map[string]interface{}, what string) (map[string]interface{}, map[string]interface{}) {
	o := c13CopyOp(op)
	if c13Str(o["op"]) == "batcher" {
		o["sizes"] = make([]int, 0)
	}
	return o, map[string]interface{}{what: true}
}

// c13RunCase executes one op in this process under a timeout.  A panic in one of the harness's
// own goroutines gives {"panic":true}; a hang gives {"timeout":true} (goroutines are leaked: the
// caller must exit the process afterwards).
func c13RunCase(op map[string]interface{}) (opOut map[string]interface{}, obs map[string]interface{}) {
	f, ok := c13Cases[c13Str(op["op"])]
	if !ok {
		return op, map[string]interface{}{"bad": "unknown op"}
	}
	// a combinator that has already hung many times in this run is not run again: the run has its
	// failing inputs, the rest would only cost a timeout each (lines are counted as skipped)
	if strings.Contains(","+os.Getenv("C13_SKIP_KINDS")+",", ","+c13Str(op["op"])+",") {
		return op, map[string]interface{}{"skip": true}
	}
	if p := c13Int(op["procs"]); p > 0 {
		runtime.GOMAXPROCS(p)
	}
	c := &c13Ctx{lat: c13NewLat(op), panicked: make(chan struct{})}
	res := make(chan map[string]interface{}, 1)
	go func() {
		defer c.guard()
		res <- f(c, op)
	}()
	// The timeout is measured in LIVE time: a watchdog tick every 50 ms adds at most 250 ms, so a
	// stretch during which this whole process was frozen (host stall, memory pressure, VM pause)
	// does not count.  {"timeout":true} therefore means: the process was demonstrably being
	// scheduled for the whole limit and the case still did not finish.
	limit := c13Timeout(op)
	tick := time.NewTicker(50 * time.Millisecond)
	defer tick.Stop()
	last := time.Now()
	var live time.Duration
	for {
		select {
		case o := <-res:
			opOut = c13CopyOp(op)
			if c13Str(op["op"]) == "batcher" {
				opOut["sizes"] = o["sizes"]
			}
			return opOut, o
		case <-c.panicked:
			return c13Fail(op, "panic")
		case <-tick.C:
			now := time.Now()
			gap := now.Sub(last)
			last = now
			if gap > 250*time.Millisecond {
				gap = 250 * time.Millisecond
			}
			live += gap
			if live >= limit {
				return c13Fail(op, "timeout")
			}
		}
	}
}

// c13Worker is `-mode worker`: run the ops one after another in this process and append one
// line per op to <r.Dir>/results.jsonl with a direct write(2) (no user-space buffering, so the
// line survives whatever happens to this process afterwards).
func c13Worker(r *Run, ops []map[string]interface{}) {
	f, err := os.OpenFile(filepath.Join(r.Dir, "results.jsonl"), os.O_CREATE|os.O_WRONLY|os.O_APPEND, 0o644)
	if err != nil {
		fmt.Fprintln(os.Stderr, "C13 worker:", err)
		os.Exit(2)
	}
	defer f.Close()
	orig := runtime.GOMAXPROCS(0)
	defer runtime.GOMAXPROCS(orig)
	// self-test of the isolation (first worker only): C13_SELFTEST_PANIC=1 crashes this process from
	// a foreign goroutine on the 3rd op, C13_SELFTEST_PANIC=hang makes the 3rd op hang
	selftest := os.Getenv("C13_SELFTEST_PANIC") == "1"
	selfhang := os.Getenv("C13_SELFTEST_PANIC") == "hang"
	timing := os.Getenv("C13_TIMING") != ""
	for i, op := range ops {
		if selftest && i == 2 {
			// what a defect inside a combinator's own goroutine looks like: nobody can recover it
			go func() { panic("C13_SELFTEST_PANIC: simulated crash in a foreign goroutine") }()
			time.Sleep(time.Second)
		}
		if selfhang && i == 2 {
			c13Cases["selftest-hang"] = func(c *c13Ctx, op map[string]interface{}) map[string]interface{} { select {} }
			hung := c13CopyOp(op)
			hung["op"] = "selftest-hang"
			op = hung
		}
		t0 := time.Now()
		opOut, obs := c13RunCase(op)
		if selfhang && i == 2 {
			opOut["op"] = ops[i]["op"]
		}
		if timing {
			fmt.Fprintf(os.Stderr, "C13-TIMING %s n=%d lat=%s procs=%d ms=%d\n", c13Str(op["op"]), c13OpLen(op),
				c13Str(op["lat"]), c13Int(op["procs"]), time.Since(t0).Milliseconds())
		}
		line, err := json.Marshal(map[string]interface{}{"op": opOut, "obs": obs})
		if err != nil {
			fmt.Fprintln(os.Stderr, "C13 worker:", err)
			os.Exit(2)
		}
		line = append(line, '\n')
		if _, err := f.Write(line); err != nil {
			fmt.Fprintln(os.Stderr, "C13 worker:", err)
			os.Exit(2)
		}
		r.Emit(opOut, obs)
		if _, to := obs["timeout"]; to {
			// leaked goroutines of the hung case may spin or hold channels: start afresh
			f.Close()
			os.Exit(3)
		}
	}
}

// ---------- isolation (parent side) ----------

var (
	c13Base    string // scratch directory of the parent
	c13Spawned int
)

func c13ReadResults(path string) (ops []map[string]interface{}, obs []map[string]interface{}) {
	f, err := os.Open(path)
	if err != nil {
		return nil, nil
	}
	defer f.Close()
	rd := bufio.NewReaderSize(f, 1<<20)
	for {
		line, err := rd.ReadBytes('\n')
		if len(line) > 0 && line[len(line)-1] == '\n' {
			var m struct {
				Op  map[string]interface{} `json:"op"`
				Obs map[string]interface{} `json:"obs"`
			}
			if json.Unmarshal(line, &m) != nil || m.Op == nil || m.Obs == nil {
				return // a torn line: everything from here on counts as not written
			}
			ops = append(ops, m.Op)
			obs = append(obs, m.Obs)
		}
		if err != nil {
			if err != io.EOF {
				fmt.Fprintln(os.Stderr, "C13:", err)
			}
			return
		}
	}
}

// c13Spawn runs ops in one fresh worker process and returns the lines it managed to write.
func c13Spawn(ops []map[string]interface{}) (opsOut []map[string]interface{}, obs []map[string]interface{}) {
	base := os.Getenv("VERIF_WORK")
	if base == "" {
		base = c13Base
	}
	if base == "" {
		base = "."
	}
	c13Spawned++
	dir, err := filepath.Abs(filepath.Join(base, fmt.Sprintf("c13w-%d-%d", os.Getpid(), c13Spawned)))
	if err != nil {
		panic(err)
	}
	os.RemoveAll(dir)
	if err := os.MkdirAll(dir, 0o755); err != nil {
		panic(err)
	}
	var buf bytes.Buffer
	budget := 30 * time.Second
	for _, op := range ops {
		b, err := json.Marshal(op)
		if err != nil {
			panic(err)
		}
		buf.Write(b)
		buf.WriteByte('\n')
		budget += c13Timeout(op)
	}
	opsFile := filepath.Join(dir, "in.ops")
	if err := os.WriteFile(opsFile, buf.Bytes(), 0o644); err != nil {
		panic(err)
	}
	exe, err := os.Executable()
	if err != nil {
		exe = os.Args[0]
	}
	outDir := filepath.Join(dir, "out")
	ctx, cancel := context.WithTimeout(context.Background(), budget)
	defer cancel()
	cmd := exec.CommandContext(ctx, exe, "C13", "-out", outDir, "-replay", opsFile, "-mode", "worker")
	cmd.Stdout = os.Stderr
	cmd.Stderr = os.Stderr
	env := make([]string, 0, len(os.Environ()))
	for _, e := range os.Environ() {
		// the self-test crash is injected into the first worker only
		if strings.HasPrefix(e, "C13_SELFTEST_PANIC=") && c13Spawned > 1 {
			continue
		}
		env = append(env, e)
	}
	if c13TimeoutsSeen >= 3 {
		env = append(env, "C13_FAST_TIMEOUT=1")
	}
	skip := []string{}
	for k, n := range c13TimeoutsByKind {
		if n >= 8 {
			skip = append(skip, k)
		}
	}
	if len(skip) > 0 {
		env = append(env, "C13_SKIP_KINDS="+strings.Join(skip, ","))
	}
	cmd.Env = env
	if err := cmd.Run(); err != nil {
		fmt.Fprintf(os.Stderr, "C13: worker %d ended: %v\n", c13Spawned, err)
	}
	opsOut, obs = c13ReadResults(filepath.Join(outDir, "results.jsonl"))
	if len(opsOut) > len(ops) {
		opsOut, obs = opsOut[:len(ops)], obs[:len(ops)]
	}
	if os.Getenv("C13_KEEP") == "" {
		os.RemoveAll(dir)
	}
	return
}

// c13RunIsolated executes the ops in worker processes.  If a worker stops early, the line it was
// working on (not written) is a crash -> {"panic":true}, unless the last line it wrote is a
// timeout (then it exited on purpose); the remaining ops go to a fresh worker.
// c13TimeoutsSeen counts the hangs observed so far in this harness run.
var c13TimeoutsSeen int
var c13TimeoutsByKind = map[string]int{}

func c13RunIsolated(ops []map[string]interface{}) (opsOut []map[string]interface{}, obs []map[string]interface{}) {
	opsOut = make([]map[string]interface{}, 0, len(ops))
	obs = make([]map[string]interface{}, 0, len(ops))
	rest := ops
	for len(rest) > 0 {
		o, b := c13Spawn(rest)
		opsOut = append(opsOut, o...)
		obs = append(obs, b...)
		rest = rest[len(o):]
		if len(rest) == 0 {
			break
		}
		deliberate := false
		if len(b) > 0 {
			_, deliberate = b[len(b)-1]["timeout"]
		}
		if deliberate {
			c13TimeoutsSeen++
			c13TimeoutsByKind[c13Str(o[len(o)-1]["op"])]++
		}
		if !deliberate {
			fo, fb := c13Fail(rest[0], "panic")
			opsOut = append(opsOut, fo)
			obs = append(obs, fb)
			rest = rest[1:]
		}
	}
	return
}

// C13Replay runs a given op list: in worker mode in-process, otherwise through workers.
func C13Replay(r *Run, ops []map[string]interface{}) {
	if r.Mode == "worker" {
		c13Worker(r, ops)
		return
	}
	c13Base = r.Dir
	opsOut, obs := c13RunIsolated(ops)
	for i := range opsOut {
		r.Emit(opsOut[i], obs[i])
	}
}

// ---------- generator ----------

func c13Bucket(n int) string {
	switch {
	case n == 0:
		return "0"
	case n == 1:
		return "1"
	case n < 10:
		return "2-9"
	case n < 100:
		return "10-99"
	case n < 1000:
		return "100-999"
	case n < 10000:
		return "1000-9999"
	}
	return "10000+"
}

// c13Deck deals the elements of a finite set in shuffled rounds: every element is used equally
// often, without any structural correlation with the loops that draw from it.
type c13Deck struct {
	r    *Run
	n    int
	perm []int
}

func (d *c13Deck) next() int {
	if len(d.perm) == 0 {
		d.perm = d.r.Rng.Perm(d.n)
	}
	x := d.perm[0]
	d.perm = d.perm[1:]
	return x
}

type c13Gen struct {
	r        *Run
	ops      []map[string]interface{}
	procs    []int
	combo    *c13Deck // (lat, procs) pairs
	pdeck    *c13Deck // procs alone
	timedLat *c13Deck
	samples  map[string]int
}

var c13TimedLats = []string{"burst", "burst", "burst", "rand", "rand", "slowprod", "slowprod", "none", "slowcons", "slow0"}

func (g *c13Gen) latProcs() (string, int) {
	c := g.combo.next()
	return c13Lats[c%len(c13Lats)], g.procs[c/len(c13Lats)]
}

// add finishes an op (common fields, counters) and queues it.
func (g *c13Gen) add(op map[string]interface{}, lat string, procs int, param string) {
	r := g.r
	op["lat"] = lat
	op["procs"] = procs
	op["ls"] = r.Rng.Intn(1 << 20)
	name := op["op"].(string)
	n := c13OpLen(op)
	r.Count(name)
	r.Count("lat:" + lat)
	r.Count("procs:" + strconv.Itoa(procs))
	r.Count("len:" + c13Bucket(n))
	if n >= 2 {
		r.NonTrivial(fmt.Sprintf("%s|%s|%d|%s|%d", name, param, n, lat, procs))
	}
	g.samples[name]++
	if g.samples[name] == 40 {
		r.AddSample(op)
	}
	g.ops = append(g.ops, op)
}

// input builds n items: mostly one run [base, base+n), sometimes small values with duplicates,
// sometimes a few runs (adjacent, overlapping or descending bases).
func (g *c13Gen) input(n int) [][]int {
	rng := g.r.Rng
	xs := make([]int, 0, n)
	mode := rng.Intn(10)
	switch {
	case n <= 3000 && mode < 2:
		for i := 0; i < n; i++ {
			xs = append(xs, rng.Intn(4))
		}
	case n >= 2 && mode == 2:
		left := n
		for left > 0 {
			m := 1 + rng.Intn(left)
			if left > 3 && m == left {
				m = left / 2
			}
			base := rng.Intn(1 << 20)
			for j := 0; j < m; j++ {
				xs = append(xs, base+j)
			}
			left -= m
		}
	default:
		base := rng.Intn(1 << 30)
		if rng.Intn(4) == 0 {
			base = rng.Intn(3)
		}
		for j := 0; j < n; j++ {
			xs = append(xs, base+j)
		}
	}
	return segs(xs)
}

// withBad replaces one to three items of the input by c13Bad (a record that cannot be encoded /
// decoded), in one case of three with more than w items after the first of them.
func (g *c13Gen) withBad(in [][]int, w int) [][]int {
	rng := g.r.Rng
	xs := unsegs(in)
	if len(xs) < 2 || rng.Intn(3) != 0 {
		return in
	}
	g.r.Count("bad-record")
	for k := 1 + rng.Intn(3); k > 0; k-- {
		xs[rng.Intn(len(xs))] = c13Bad
	}
	if len(xs) > 2*w+2 {
		xs[rng.Intn(len(xs)-2*w)] = c13Bad
	}
	return segs(xs)
}

func (g *c13Gen) marshal(w, n, big int, lat string, procs int) {
	g.r.Count("w:" + strconv.Itoa(w))
	g.add(map[string]interface{}{"op": "marshal", "w": w, "in": g.withBad(g.input(n), w), "big": big}, lat, procs, fmt.Sprintf("w%d/b%d", w, big))
}

func (g *c13Gen) unmarshal(w, n int, lat string, procs int) {
	g.r.Count("w:" + strconv.Itoa(w))
	g.add(map[string]interface{}{"op": "unmarshal", "w": w, "in": g.withBad(g.input(n), w)}, lat, procs, fmt.Sprintf("w%d", w))
}

// pipes: which pipeline each of the n inputs goes to.
func (g *c13Gen) pipes(k, n, pattern int) []int {
	rng := g.r.Rng
	ps := make([]int, n)
	switch pattern {
	case 0: // uniformly random
		for i := range ps {
			ps[i] = rng.Intn(k)
		}
	case 1: // everything through pipeline 0
	case 2: // round-robin
		for i := range ps {
			ps[i] = i % k
		}
	default: // long runs (longer than the per-pipeline buffers)
		for i := 0; i < n; {
			p := rng.Intn(k)
			m := 1 + rng.Intn(60)
			for j := 0; j < m && i < n; j++ {
				ps[i] = p
				i++
			}
		}
	}
	return ps
}

func (g *c13Gen) mux(k, n, pattern int, lat string, procs int) {
	g.r.Count("k:" + strconv.Itoa(k))
	g.r.Count(fmt.Sprintf("muxpattern:%d", pattern))
	g.add(map[string]interface{}{"op": "mux", "k": k, "base": g.r.Rng.Intn(1 << 30), "pipes": g.pipes(k, n, pattern)},
		lat, procs, fmt.Sprintf("k%d/p%d", k, pattern))
}

func (g *c13Gen) batcher(bs, n int, mode string, lat string, procs int) {
	g.r.Count("bs:" + strconv.Itoa(bs))
	g.r.Count("batcher:" + mode)
	g.add(map[string]interface{}{"op": "batcher", "bs": bs, "in": g.input(n), "mode": mode, "sizes": make([]int, 0)},
		lat, procs, fmt.Sprintf("bs%d/%s", bs, mode))
}

// dual variants: 0 = every request yields one value ("ks" absent), 1 = random 0..3 values,
// 2 = random 0..6 values and ~10% signals, 3 = ones with ~10% signals.
func (g *c13Gen) dual(n, variant int, lat string, procs int) {
	rng := g.r.Rng
	op := map[string]interface{}{"op": "dual", "in": g.input(n)}
	if variant == 1 || variant == 2 {
		top := 4
		if variant == 2 {
			top = 7
		}
		ks := make([]int, n)
		for i := range ks {
			ks[i] = rng.Intn(top)
		}
		if n > 0 && rng.Intn(3) == 0 {
			ks = ks[:rng.Intn(n+1)] // shorter than the input: the rest defaults to 1
		}
		op["ks"] = ks
	}
	sig := make([]int, 0)
	if variant >= 2 {
		for i := 0; i < n; i++ {
			if rng.Intn(10) == 0 {
				sig = append(sig, i)
			}
		}
	}
	op["sig"] = sig
	g.r.Count(fmt.Sprintf("dualvariant:%d", variant))
	g.add(op, lat, procs, fmt.Sprintf("v%d", variant))
}

func (g *c13Gen) queue(n int, lat string, procs int) {
	g.add(map[string]interface{}{"op": "queue", "in": g.input(n)}, lat, procs, "-")
}

func c13Uniq(xs []int, capAt int) []int {
	seen := map[int]bool{}
	out := make([]int, 0, len(xs))
	for _, x := range xs {
		if x > capAt {
			x = capAt
		}
		if x < 0 || seen[x] {
			continue
		}
		seen[x] = true
		out = append(out, x)
	}
	return out
}

// C13Gen builds the whole op list, runs it in worker processes (chunks of 200) and emits it.
func C13Gen(r *Run) {
	r.Rule = "case = one combinator run (op, worker count / pipelines / batch size, input, latency pattern, GOMAXPROCS); " +
		"non-trivial = input length >= 2, distinct by op|w,k,bs,variant|length|latency|procs; lengths cover 0, 1 and " +
		"one below / at / one above every buffer, batch and worker-count multiple in the code plus large inputs; " +
		"(latency, procs) pairs are dealt in shuffled rounds so every pair is used equally often"
	c13Base = r.Dir
	thorough := r.Tier == "thorough"
	g := &c13Gen{r: r, samples: map[string]int{}}
	g.procs = []int{1, 2, 4}
	if thorough {
		g.procs = []int{1, 2, 3, 4, 8}
	}
	g.combo = &c13Deck{r: r, n: len(c13Lats) * len(g.procs)}
	g.pdeck = &c13Deck{r: r, n: len(g.procs)}
	g.timedLat = &c13Deck{r: r, n: len(c13TimedLats)}
	rng := r.Rng

	ws := []int{1, 2, 3, 4, 5, 8}
	lens := []int{0, 1, 2, 3, 4, 5, 7, 8, 9, 10, 11, 19, 20, 21, 39, 40, 41, 49, 50, 51, 99, 100, 101, 249, 250, 251, 999, 1000, 1001}
	for _, w := range ws {
		lens = append(lens, w*10-1, w*10, w*10+1, w*10*2+1)
	}
	lens = c13Uniq(lens, 1001)

	// 1/2. serializer: every length x every worker count
	for _, w := range ws {
		for _, n := range lens {
			if thorough {
				for _, lat := range c13Lats {
					g.marshal(w, n, 0, lat, g.procs[g.pdeck.next()])
					g.marshal(w, n, 2000, lat, g.procs[g.pdeck.next()])
					g.unmarshal(w, n, lat, g.procs[g.pdeck.next()])
				}
			} else {
				lat, p := g.latProcs()
				g.marshal(w, n, 0, lat, p)
				lat, p = g.latProcs()
				g.marshal(w, n, 2000, lat, p)
				lat, p = g.latProcs()
				g.unmarshal(w, n, lat, p)
			}
		}
	}
	// 3. mux
	// one pipeline whose first answer comes seconds late, with requests queued behind it on the
	// same and on another pipeline: results are matched to requests by position only
	g.mux(2, 10, 2, "late0", 4)
	g.mux(3, 21, 2, "late0", 8)
	reps := 1
	if thorough {
		reps = 4
	}
	for _, k := range []int{1, 2, 3, 5} {
		for _, n := range lens {
			for rep := 0; rep < reps; rep++ {
				lat, p := g.latProcs()
				g.mux(k, n, 0, lat, p)
				if n >= 2 {
					lat, p = g.latProcs()
					g.mux(k, n, 1+rng.Intn(3), lat, p)
				}
			}
		}
	}
	// 4. batcher: lengths around the multiples of the batch size, both modes
	for _, bs := range []int{1, 2, 3, 5, 10, 50, 100, 1000} {
		for _, n := range c13Uniq([]int{0, 1, bs - 1, bs, bs + 1, 2*bs - 1, 2 * bs, 2*bs + 1, 3*bs + 2}, 2100) {
			for rep := 0; rep < reps; rep++ {
				lat, p := g.latProcs()
				g.batcher(bs, n, "prefilled", lat, p)
				g.batcher(bs, n, "timed", c13TimedLats[g.timedLat.next()], g.procs[g.pdeck.next()])
				g.batcher(bs, n, "timed", c13TimedLats[g.timedLat.next()], g.procs[g.pdeck.next()])
			}
		}
	}
	// 5. dual processor
	for _, n := range lens {
		for rep := 0; rep < reps; rep++ {
			for variant := 0; variant < 4; variant++ {
				lat, p := g.latProcs()
				g.dual(n, variant, lat, p)
			}
		}
	}
	// 6. queue
	for _, n := range append(append([]int{}, lens...), 1500, 2500) {
		for rep := 0; rep < reps; rep++ {
			lat, p := g.latProcs()
			g.queue(n, lat, p)
		}
	}
	// 6b. stalled consumer around the capacity of the buffers behind each combinator's output
	// (queue output 50, dual stage channel 100)
	for _, k := range []int{49, 50, 51, 52, 53, 54} {
		for _, p := range []int{2, 4} {
			g.queue(k+40, fmt.Sprintf("stall%d", k), p)
		}
	}
	for _, k := range []int{99, 100, 101, 102, 103} {
		g.dual(k+60, k%4, fmt.Sprintf("stall%d", k), 4)
	}
	// 6c. a backlog beyond the queue's first allocation (1000 slots) and its doublings, building up
	// AFTER the first element has been taken out (the pending list has moved on in its storage)
	for _, k := range []int{1100, 2100, 4200} {
		g.queue(k+300, fmt.Sprintf("stall%d", k), 4)
	}
	// 7. seeded random cases
	nrand := 150
	if thorough {
		nrand = 2500
	}
	for i := 0; i < nrand; i++ {
		// log-uniform length in 0..~4000
		n := 0
		if rng.Intn(20) > 0 {
			n = rng.Intn(1 << uint(1+rng.Intn(12)))
		}
		lat, p := g.latProcs()
		switch rng.Intn(6) {
		case 0:
			big := 0
			if rng.Intn(2) == 0 {
				big = 100 + rng.Intn(4000)
			}
			g.marshal(Pick(rng, ws), n, big, lat, p)
		case 1:
			g.unmarshal(Pick(rng, ws), n, lat, p)
		case 2:
			g.mux(1+rng.Intn(6), n, rng.Intn(4), lat, p)
		case 3:
			if n > 2100 {
				n = rng.Intn(2100)
			}
			mode := Pick(rng, []string{"prefilled", "timed", "timed"})
			if mode == "timed" {
				lat = c13TimedLats[g.timedLat.next()]
			}
			g.batcher(Pick(rng, []int{1, 2, 3, 4, 5, 7, 10, 16, 50, 100, 250, 1000}), n, mode, lat, p)
		case 4:
			g.dual(n, rng.Intn(4), lat, p)
		default:
			g.queue(n, lat, p)
		}
	}
	// 8. large inputs
	if thorough {
		for _, p := range g.procs {
			big := func() int { return 100000 + rng.Intn(100001) }
			g.marshal(Pick(rng, ws), big(), 0, Pick(rng, c13Lats), p)
			g.unmarshal(Pick(rng, ws), big(), Pick(rng, c13Lats), p)
			g.mux(Pick(rng, []int{1, 2, 3, 5}), big(), rng.Intn(4), Pick(rng, c13Lats), p)
			g.batcher(Pick(rng, []int{10, 100, 1000}), big(), "prefilled", Pick(rng, c13Lats), p)
			// timed mode polls an empty request channel with time.Sleep: ~1 ms per 10-20 items
			g.batcher(Pick(rng, []int{10, 100, 1000}), 40000+rng.Intn(40001), "timed", Pick(rng, c13TimedLats), p)
			g.dual(big(), rng.Intn(4), Pick(rng, c13Lats), p)
			g.queue(big(), Pick(rng, c13Lats), p)
			if p >= 4 {
				// several short cases rather than one long one: ~3 s each on a quiet machine, and the
				// machine may be loaded (the queue's output side busy-waits: a starved run crawls)
				for k := 0; k < 4; k++ {
					g.queue(30000, "pingpong", p)
				}
			}
		}
	} else {
		n := 20000
		for _, p := range []int{4, 8, 8, 16} {
			g.queue(30000, "pingpong", p) // ~3 s each on the unchanged tree (busy-waiting output side)
		}
		g.marshal(4, n, 0, "rand", 4)
		g.marshal(3, n, 0, "slowcons", 1)
		g.unmarshal(4, n, "rand", 2)
		g.unmarshal(5, n, "slowprod", 4)
		g.mux(3, n, 0, "slow0", 4)
		g.mux(5, n, 3, "rand", 2)
		g.batcher(100, n, "prefilled", "none", 2)
		g.batcher(1000, n, "timed", "burst", 4)
		g.dual(n, 0, "rand", 4)
		g.dual(n, 2, "slow0", 2)
		g.queue(n, "rand", 4)
		g.queue(n, "slowprod", 2)
	}

	// run: chunks of 200 ops per worker process, so that a crash costs little
	const chunk = 200
	for i := 0; i < len(g.ops); i += chunk {
		j := i + chunk
		if j > len(g.ops) {
			j = len(g.ops)
		}
		opsOut, obs := c13RunIsolated(g.ops[i:j])
		for x := range opsOut {
			r.Emit(opsOut[x], obs[x])
			if _, ok := obs[x]["timeout"]; ok {
				r.Count("obs:timeout")
			}
			if _, ok := obs[x]["panic"]; ok {
				r.Count("obs:panic")
			}
		}
	}
	r.Exhaustive = false
}
