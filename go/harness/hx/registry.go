package hx

// Prop is one property's harness: Gen generates operations and runs them on the real code;
// Replay runs a given operation list (a replay file, a corpus entry, a shrinking candidate).
type Prop struct {
	Gen    func(r *Run)
	Replay func(r *Run, ops []map[string]interface{})
}

// Registry maps property ids to harnesses; each cXX.go adds itself in init().
var Registry = map[string]Prop{}

// Stateless builds a Prop from a generator and a per-op executor.
func Stateless(gen func(r *Run), exec func(op map[string]interface{}) map[string]interface{}) Prop {
	return Prop{Gen: gen, Replay: func(r *Run, ops []map[string]interface{}) {
		for _, op := range ops {
			r.Emit(op, exec(op))
		}
	}}
}
