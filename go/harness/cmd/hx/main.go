// hx — correspondence harness: runs the real bmeg/grip code (module replaced by /repo) on
// generated or replayed operations and writes ops.jsonl / impl.jsonl / meta.json.
//
//	hx <property> -out DIR [-tier quick|thorough] [-seed N] [-replay ops.jsonl] [-mode M]
package main

import (
	"flag"
	"fmt"
	"os"

	"verif/harness/hx"
)

func main() {
	if len(os.Args) < 2 {
		fmt.Fprintln(os.Stderr, "usage: hx <property> -out DIR [-tier T] [-seed N] [-replay FILE] [-mode M]")
		os.Exit(2)
	}
	prop := os.Args[1]
	fs := flag.NewFlagSet("hx", flag.ExitOnError)
	out := fs.String("out", "", "output directory")
	tier := fs.String("tier", "quick", "quick|thorough")
	seed := fs.Int64("seed", 1, "PRNG seed")
	replay := fs.String("replay", "", "ops file to replay instead of generating")
	mode := fs.String("mode", "", "property-specific sub-mode")
	fs.Parse(os.Args[2:])
	p, ok := hx.Registry[prop]
	if !ok {
		fmt.Fprintln(os.Stderr, "unknown property", prop)
		os.Exit(2)
	}
	if *out == "" {
		fmt.Fprintln(os.Stderr, "-out required")
		os.Exit(2)
	}
	r, err := hx.NewRun(prop, *tier, *seed, *out)
	if err != nil {
		fmt.Fprintln(os.Stderr, err)
		os.Exit(2)
	}
	r.Mode = *mode
	if *replay != "" {
		ops, err := hx.ReadOps(*replay)
		if err != nil {
			fmt.Fprintln(os.Stderr, err)
			os.Exit(2)
		}
		p.Replay(r, ops)
	} else {
		p.Gen(r)
	}
	if err := r.Close(); err != nil {
		fmt.Fprintln(os.Stderr, err)
		os.Exit(2)
	}
}
