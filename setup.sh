#!/bin/sh
# Offline build of the verification framework from files on disk (MANIFEST.setup_cmd).
set -e
cd "$(dirname "$0")"
export GOFLAGS=-mod=mod GOPROXY=off GOSUMDB=off GOTOOLCHAIN=local
mkdir -p .work/bin evidence replay
# translator: regenerate lean/GripGen from /repo before the first Lean build
(cd tools/extract && go build -o ../../.work/bin/extract .)
./.work/bin/extract -repo "${VERIF_REPO:-/repo}" -out lean/GripGen -facts .work/facts.json || true
# Lean: models, generated tables, proofs, driver
python3 tools/gen_main.py
# a proof that does not build is reported by the property's own check (broken obligation), not here:
# setup only warms the build, every check rebuilds what it needs from /repo's working tree
(cd lean && lake build) || echo "setup: WARNING lake build reported failures (the affected checks will report them)"
(cd lean && lake build gripdriver) || echo "setup: WARNING gripdriver did not build (checks fall back to per-property drivers)"
# Go harness against /repo (also warms the Go build cache)
cp "${VERIF_REPO:-/repo}/go.sum" go/harness/go.sum
sed "s#@REPO@#${VERIF_REPO:-/repo}#" go/harness/go.mod.in > go/harness/go.mod
(cd go/harness && go build -tags verif -o ../../.work/bin/hx ./cmd/hx) || echo "setup: WARNING harness did not build against the repository tree"
echo setup ok
