#!/usr/bin/env python3
"""seed_prompt.py <PROP> <SEEDID> — prints the brief for a fresh seeding sub-agent (property text + scratch worktree only)."""
import json, sys, os, glob
ROOT = os.path.dirname(os.path.dirname(os.path.abspath(__file__)))
pid, sid = sys.argv[1], sys.argv[2]
prop = [json.loads(l) for l in open(os.path.join(ROOT, "properties.jsonl")) if l.strip()]
p = [x for x in prop if x["id"] == pid][0]
avoid = []
for d in sorted(glob.glob(os.path.join(ROOT, "seeded", pid + "-*"))):
    try:
        avoid.append(json.load(open(d + "/meta.json")).get("summary", "")[:160])
    except Exception:
        pass
wt = "/tmp/seed/" + sid
print(f"""You are given a scratch git worktree of the Go project bmeg/grip (a graph query server: GripQL traversals compiled into pipelines over key-value stores, MongoDB, Elasticsearch and SQL back ends) at {wt} (branch seed-{sid}). Work ONLY inside {wt} and write your results to {wt}-out/. Do not read or write /repo or /verif, and do not look for verification tooling anywhere: your work must be independent of it.

This is a robustness exercise for a verification effort: we need realistic regressions to test our checks against. Here is one semantic property the project is supposed to satisfy:

  id: {p['id']}
  title: {p['title']}
  statement: {p['statement']}
  quantifier: {p['quantifier']['text']}
  why the existing tests cannot settle it: {p['why_tests_cant']}
  code it is anchored in: {json.dumps(p['anchors'])}

YOUR TASK: make a change to the source code in {wt} that BREAKS this property, such that
  1. the project still compiles (`go build ./...`; the three "function main is undeclared" messages under endpoints/ are present on the unchanged tree too) and
  2. the existing test suite still passes exactly as before: `go test -mod=mod -vet=off -count=1 -timeout 25m ./...` (on the unchanged tree TestMatch1, TestGraphToJSON, TestSelectFields, TestBatchGraphValidation fail already, endpoints/graphql/test says [setup failed], and test/server's TestBasicAuthFail and kvgraph/test's TestNumField are load-dependent flakes; nothing else may fail), and
  3. the change looks like something a developer could plausibly commit (an optimisation, a refactoring, a clean-up, a "hardening" that goes wrong) — not sabotage with a comment saying so — and
  4. the breakage needs something SPECIFIC to manifest: a particular interleaving, a crash or fault at a particular point, a multi-step sequence of operations, an unusual input, or two cooperating sites that each look fine alone. NOT something that ordinary use would expose at once.

Also write a DEMONSTRATION: a Go test file (package of your choice inside the tree, name it demo_<something>_test.go) or a small program that FAILS with your change and PASSES without it, exercising the real code (no mocks of the code under test).

Environment (no network; set in every shell call): export GOFLAGS=-mod=mod GOPROXY=off GOSUMDB=off GOTOOLCHAIN=local . The machine is shared: while developing, run only the packages you touch (`go test ./engine/... -run X`), and run the full suite ONCE at the end (it takes several minutes). Do not use MongoDB/Elasticsearch/Postgres servers: none is available.

The change must be a different idea from these earlier ones for the same property: {json.dumps(avoid) if avoid else 'none yet'}.

DELIVERABLES in {wt}-out/ :
  - patch.diff : `git diff` of your source change ONLY (without the demonstration file), applying cleanly with `git apply` to the worktree's HEAD
  - the demonstration file (e.g. demo_x_test.go)
  - meta.json : {{"property": "{pid}", "summary": "<what was changed and why it breaks the property, 2-4 sentences>", "files": ["..."], "needs": "<what exactly is needed for the breakage to manifest>", "demo": {{"place_at": "<path of the demo file relative to the repo root>", "run": "cd <repo> && export GOFLAGS=-mod=mod GOPROXY=off GOSUMDB=off && go test -mod=mod -vet=off -count=1 -timeout 300s -run <TestName> ./<pkg>/"}}, "verified": {{"build": true/false, "suite_still_passes": true/false, "demo_fails_with_patch": true/false, "demo_passes_without_patch": true/false}}, "notes": "..."}}
Verify all four facts yourself before you finish (revert and re-apply your patch with `git diff > file`, `git apply -R file`, `git apply file`; do NOT use `git stash`: the stash is shared with other worktrees of this repository), leave the worktree with your change applied and the demo file in place, and reply with a short summary (what you changed, what is needed to trigger it, what you verified).""")
