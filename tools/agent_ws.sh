#!/bin/sh
# Creates an isolated workspace for building one property: a clone of /verif and a worktree of /repo.
#   tools/agent_ws.sh C05  ->  /var/tmp/vw/C05 (verif clone, branch C05), /var/tmp/vw/repo-C05 (grip worktree, branch agent-C05)
set -e
ID="$1"
mkdir -p /var/tmp/vw
rm -rf "/var/tmp/vw/$ID"
git clone -q /verif "/var/tmp/vw/$ID"
git -C "/var/tmp/vw/$ID" checkout -q -b "$ID"
git -C /repo worktree remove --force "/var/tmp/vw/repo-$ID" 2>/dev/null || true
git -C /repo branch -D "agent-$ID" 2>/dev/null || true
git -C /repo worktree add -q -b "agent-$ID" "/var/tmp/vw/repo-$ID" HEAD
echo "/var/tmp/vw/$ID /var/tmp/vw/repo-$ID"
