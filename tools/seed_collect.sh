#!/bin/sh
# collect a seeding agent's deliverables from /tmp/seed/<ID>-out into seeded/<ID>, remove its worktree
set -e
ID="$1"; cd "$(dirname "$0")/.."
mkdir -p "seeded/$ID"
cp /tmp/seed/$ID-out/* "seeded/$ID/"
git -C /repo worktree remove --force "/tmp/seed/$ID" 2>/dev/null || true
git -C /repo branch -D "seed-$ID" 2>/dev/null || true
rm -rf "/tmp/seed/$ID-out" "/tmp/seed/$ID"
git -C /repo worktree prune
ls "seeded/$ID"
