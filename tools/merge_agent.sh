#!/bin/bash
# Merge a builder agent's work:  tools/merge_agent.sh C05
#  - merges branch Cxx of /var/tmp/vw/Cxx into /verif (evidence conflicts: theirs; regenerated later anyway)
#  - cherry-picks the agent's grip commits (branch agent-Cxx beyond /repo main) onto /repo main,
#    rewrites the commit ids mentioned in findings/ and docs/notes/, records hook commits
#  - removes the agent's worktree and clone
set -e
ID="$1"
W="/var/tmp/vw/$ID"
cd /verif
if ! git diff --quiet || ! git diff --cached --quiet; then echo "verif tree dirty"; exit 1; fi
if [ -n "$(git -C /repo status --porcelain)" ]; then echo "/repo dirty"; exit 1; fi
git -C "$W" status --short | head -5
git pull -q --no-edit "$W" "$ID" || {
  for f in $(git status --porcelain | grep -E "^(UU|AA|DU|UD|AU|UA) " | cut -c4-); do
    case "$f" in
      evidence/*|MANIFEST.json) git checkout --theirs -- "$f"; git add "$f";;
      lean/Driver/Main.lean|.work-setup.log) git rm -q --cached "$f" 2>/dev/null || git rm -q "$f";;
      *) echo "CONFLICT in $f"; exit 1;;
    esac
  done
  git commit -q --no-edit
}
# grip commits
BASE=$(git -C /repo merge-base main "agent-$ID")
for c in $(git -C /repo rev-list --reverse "$BASE..agent-$ID"); do
  subj=$(git -C /repo log -1 --format=%s "$c")
  if git -C /repo cherry-pick "$c" >/dev/null 2>&1; then
    new=$(git -C /repo rev-parse --short HEAD)
    old7=$(git -C /repo rev-parse --short "$c")
    echo "picked $old7 -> $new  $subj"
    grep -rl "$old7" findings docs/notes props 2>/dev/null | xargs -r sed -i "s/$old7[0-9a-f]*/$new/g"
    case "$subj" in
      "verif hook:"*) echo "$new $subj" >> props/hook_commits.txt;;
    esac
  else
    echo "CHERRY-PICK FAILED for $c ($subj)"; git -C /repo cherry-pick --abort; exit 1
  fi
done
git add -A; git commit -q -m "Merge $ID from builder agent; grip commits cherry-picked" || true
git -C /repo worktree remove --force "/var/tmp/vw/repo-$ID" || true
git -C /repo branch -D "agent-$ID" || true
rm -rf "$W"
echo "merged $ID"
