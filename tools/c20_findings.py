#!/usr/bin/env python3
"""Regenerates findings/C20.jsonl and corpus/C20/kf-witnesses.ops from one harness + driver run.

  python3 tools/c20_findings.py            (after ./setup.sh or ./check C20; VERIF_REPO as for ./check)

One open finding per unsafe site of lean/GripGen/SqlSites.lean (id C20-<site id>), its witness is the
op line `witness_line` of corpus/C20/kf-witnesses.ops (the corpus file is replayed once per check run;
a finding is reported when the real code still behaves like the bug-mirroring MODEL on its line).
Maintainers run this by hand when lean/Grip/Model/C20Known.lean changes; ./check never writes these files.
"""
import json, os, subprocess, sys
ROOT = os.path.dirname(os.path.dirname(os.path.abspath(__file__)))
W = os.path.join(ROOT, ".work", "c20-findings")
os.makedirs(W, exist_ok=True)
env = dict(os.environ, VERIF_WORK=W)
subprocess.run([os.path.join(ROOT, ".work/bin/hx"), "C20", "-out", W, "-tier", "quick", "-seed", "1"], check=True, cwd=W, env=env,
               stdout=subprocess.DEVNULL, stderr=subprocess.DEVNULL)
with open(os.path.join(W, "ops.jsonl")) as i, open(os.path.join(W, "model.jsonl"), "w") as o:
    subprocess.run([os.path.join(ROOT, "lean/.lake/build/bin/gripdriver"), "C20"], stdin=i, stdout=o, check=True)
ops = [l.rstrip("\n") for l in open(os.path.join(W, "ops.jsonl"))]
model = [json.loads(l) for l in open(os.path.join(W, "model.jsonl"))]
facts = json.load(open(os.path.join(ROOT, ".work", "facts.json")))
sites = {s["id"]: s for s in facts["tables"]["SqlSites"]["sites"]}
best = {}
for o, m in zip(ops, model):
    kf = m.get("kf")
    if not kf:
        continue
    oj = json.loads(o)
    vals = list(oj["params"].values()) + [x for l in oj["lists"].values() for x in l]
    score = 0 if any(v.endswith("x' OR '1'='1") for v in vals) else (1 if any("'" in v for v in vals) else 2)
    if kf not in best or score < best[kf][0]:
        best[kf] = (score, o, oj, m)
lines, wit = [], []
for s in facts["tables"]["SqlSites"]["sites"]:
    kf = "C20-" + s["id"]
    if kf not in best:
        continue
    _, o, oj, m = best[kf]
    wit.append(o)
    tm = s["tmpl"].replace("\n", " ").replace("\t", "")
    what = "%s %s%s splices a client string into the statement text unescaped: %s  -- e.g. %s sends: %s" % (
        s["file"], s["fn"], (" > " + s["via"]) if s["via"] else "", tm,
        json.dumps(oj["params"] or oj["lists"], ensure_ascii=False), m["q"].replace("\n", " ").replace("\t", ""))
    lines.append(json.dumps({"property": "C20", "id": kf, "status": "open", "witness": "",
                             "witness_corpus": "corpus/C20/kf-witnesses.ops", "witness_line": len(wit),
                             "what": what, "mode": ""}, ensure_ascii=False))
os.makedirs(os.path.join(ROOT, "corpus", "C20"), exist_ok=True)
open(os.path.join(ROOT, "corpus", "C20", "kf-witnesses.ops"), "w").write("\n".join(wit) + "\n")
open(os.path.join(ROOT, "findings", "C20.jsonl"), "w").write("\n".join(lines) + "\n")
print("%d findings, %d witness lines" % (len(lines), len(wit)))
