#!/usr/bin/env python3
"""
seed.py — confirm a seeded breaking change and run the checks against it.

  tools/seed.py confirm seeded/<id>      scratch worktree: patch applies, builds, suite passes, demo fails with / passes without
  tools/seed.py run seeded/<id> [--tier quick]   apply to /repo, run ./check <property>, undo, record result
Results are written into seeded/<id>/meta.json under "confirmed" and "check_results".
"""
import sys, os, json, subprocess, shutil, time, re

ROOT = os.path.dirname(os.path.dirname(os.path.abspath(__file__)))
REPO = "/repo"
ENV = dict(os.environ, GOFLAGS="-mod=mod", GOPROXY="off", GOSUMDB="off", GOTOOLCHAIN="local")
# always-failing tests of the pinned tree, plus two load-dependent flakes that also fail on the unchanged tree
# (test/server start-up race; kvgraph/test TestNumField: RemoveAll of a still-open LevelDB directory)
KNOWN_FAIL = {"TestMatch1", "TestGraphToJSON", "TestSelectFields", "TestBatchGraphValidation", "TestBasicAuthFail", "TestNumField"}


def sh(cmd, cwd=None, timeout=None):
    p = subprocess.run(cmd, shell=True, cwd=cwd, env=ENV, stdout=subprocess.PIPE, stderr=subprocess.STDOUT, timeout=timeout)
    return p.returncode, p.stdout.decode(errors="replace")


def load_meta(d):
    p = os.path.join(d, "meta.json")
    return json.load(open(p)) if os.path.exists(p) else {}


def save_meta(d, m):
    json.dump(m, open(os.path.join(d, "meta.json"), "w"), indent=1)


def suite_failures(out):
    fails = set(re.findall(r"^\s*--- FAIL: (\w+)", out, re.M))
    pk = set(re.findall(r"^FAIL\s+(\S+)", out, re.M))
    return fails, pk


def confirm(d):
    m = load_meta(d)
    name = os.path.basename(d.rstrip("/"))
    wt = "/tmp/confirm-" + name
    sh("git -C %s worktree remove --force %s" % (REPO, wt))
    rc, out = sh("git -C %s worktree add -q --detach %s HEAD" % (REPO, wt))
    res = {"at": time.strftime("%Y-%m-%dT%H:%M:%SZ", time.gmtime())}
    try:
        demo = m.get("demo", {})
        place = (demo.get("place_at") or "").split(" ")[0] or None
        runcmd = demo.get("run")
        demo_src = [f for f in os.listdir(d) if f.startswith("demo")]
        rc, out = sh("git apply --check %s" % os.path.join(ROOT, d, "patch.diff"), cwd=wt)
        res["applies"] = rc == 0
        if rc != 0:
            res["error"] = out[-500:]
            return res
        sh("git apply %s" % os.path.join(ROOT, d, "patch.diff"), cwd=wt)
        rc, out = sh("go build ./... 2>&1 | grep -v 'function main is undeclared\\|^#' | head -20", cwd=wt, timeout=1200)
        res["builds"] = out.strip() == ""
        if not res["builds"]:
            res["build_output"] = out[-800:]
        rc, out = sh("go test -mod=mod -vet=off -count=1 -timeout 25m ./... 2>&1", cwd=wt, timeout=2400)
        fails, pk = suite_failures(out)
        new = sorted(f for f in fails if f not in KNOWN_FAIL)
        if new:  # retry flaky server tests once
            rc2, out2 = sh("go test -mod=mod -vet=off -count=1 ./test/server/ 2>&1", cwd=wt, timeout=600)
            f2, _ = suite_failures(out2)
            new = sorted(f for f in new if f in f2 or not f.startswith(("TestBasicAuth", "TestCasbin")))
        res["suite_new_failures"] = new
        res["suite_still_passes"] = not new
        if place and runcmd and demo_src:
            src = os.path.join(ROOT, d, os.path.basename(place)) if os.path.exists(os.path.join(ROOT, d, os.path.basename(place))) else os.path.join(ROOT, d, demo_src[0])
            dst = os.path.join(wt, place)
            os.makedirs(os.path.dirname(dst), exist_ok=True)
            if os.path.isdir(src):
                shutil.copytree(src, dst, dirs_exist_ok=True)
            else:
                shutil.copy(src, dst)
            cmd = runcmd.replace("/tmp/seed/%s" % m.get("property", ""), wt)
            cmd = re.sub(r"cd /tmp/seed/\S+", "cd " + wt, cmd)
            cmd = cmd.replace("<repo>", wt).replace("<REPO>", wt).replace("$REPO", wt)
            rc, out = sh(cmd, cwd=wt, timeout=900)
            res["demo_fails_with_patch"] = rc != 0
            res["demo_with_patch_tail"] = out[-400:]
            sh("git apply -R %s" % os.path.join(ROOT, d, "patch.diff"), cwd=wt)
            rc, out = sh(cmd, cwd=wt, timeout=900)
            res["demo_passes_without_patch"] = rc == 0
            if rc != 0:
                res["demo_without_patch_tail"] = out[-400:]
        else:
            res["demo"] = "no runnable demo described in meta.json"
    finally:
        sh("git -C %s worktree remove --force %s" % (REPO, wt))
        shutil.rmtree(wt, ignore_errors=True)
        sh("git -C %s worktree prune" % REPO)
    return res


def run(d, tier, props=None):
    m = load_meta(d)
    props = props or [m["property"]]
    rc, out = sh("git -C %s status --porcelain" % REPO)
    if out.strip():
        print("refusing: /repo has uncommitted changes:\n" + out)
        return None
    results = {}
    rc, out = sh("git -C %s apply %s" % (REPO, os.path.join(ROOT, d, "patch.diff")))
    if rc != 0:
        return {"error": "patch does not apply to /repo: " + out[-300:]}
    try:
        for p in props:
            t0 = time.time()
            rc, out = sh("./check %s --tier %s" % (p, tier), cwd=ROOT, timeout=7200)
            v = [l for l in out.splitlines() if l.startswith("VIOLATION")]
            rp = None
            if v:
                mm = re.search(r"replay=(\S+)", v[0])
                if mm and os.path.exists(os.path.join(ROOT, mm.group(1))):
                    r = json.load(open(os.path.join(ROOT, mm.group(1))))
                    rp = {"kind": r.get("kind"), "where": r.get("where"), "why": r.get("why"),
                          "theorem_or_correspondence": r.get("theorem_or_correspondence"),
                          "broken": [b.get("what") for b in r.get("broken", [])][:4], "n_ops": len(r.get("ops", []) or [])}
            results[p] = {"tier": tier, "exit": rc, "violation_lines": v, "caught": bool(v) and rc == 1, "replay": rp,
                          "wall_s": round(time.time() - t0, 1)}
            print(p, "caught" if results[p]["caught"] else "MISSED", v[:1])
    finally:
        sh("git -C %s checkout -- ." % REPO)
        sh("git -C %s clean -fdq" % REPO)
    return results


def run_iso(d, tier, props=None):
    """Like run, but in a private copy of /verif and a private worktree of /repo (several can run at once)."""
    m = load_meta(d)
    props = props or [m["property"]]
    name = os.path.basename(d.rstrip("/"))
    base = "/var/tmp/sr/" + name
    shutil.rmtree(base, ignore_errors=True)
    os.makedirs(base)
    vcopy, rcopy = base + "/verif", base + "/repo"
    sh("cp -a %s %s" % (ROOT, vcopy))
    sh("rm -rf %s/.work/C* %s/replay/*" % (vcopy, vcopy))
    # the copy is taken from a tree that may be mid-edit: run the committed machinery
    sh("git -C %s checkout -q -- ." % vcopy)
    sh("git -C %s worktree add -q --detach %s HEAD" % (REPO, rcopy))
    results = {}
    try:
        rc, out = sh("git apply %s" % os.path.join(ROOT, d, "patch.diff"), cwd=rcopy)
        if rc != 0:
            return {"error": "patch does not apply to /repo HEAD: " + out[-300:]}
        for p in props:
            t0 = time.time()
            rc, out = sh("VERIF_REPO=%s ./check %s --tier %s" % (rcopy, p, tier), cwd=vcopy, timeout=7200)
            v = [l for l in out.splitlines() if l.startswith("VIOLATION")]
            rp = None
            if v:
                mm = re.search(r"replay=(\S+)", v[0])
                if mm and os.path.exists(os.path.join(vcopy, mm.group(1))):
                    shutil.copy(os.path.join(vcopy, mm.group(1)), os.path.join(ROOT, d, "replay-%s.json" % p))
                    r = json.load(open(os.path.join(vcopy, mm.group(1))))
                    rp = {"kind": r.get("kind"), "where": r.get("where"), "why": r.get("why"),
                          "theorem_or_correspondence": r.get("theorem_or_correspondence"),
                          "broken": [b.get("what") for b in r.get("broken", [])][:4], "n_ops": len(r.get("ops", []) or [])}
            results[p] = {"tier": tier, "exit": rc, "violation_lines": v, "caught": bool(v) and rc == 1, "replay": rp,
                          "wall_s": round(time.time() - t0, 1), "repo_head": sh("git -C %s rev-parse --short HEAD" % REPO)[1].strip(),
                          "tail": out[-600:] if not v else ""}
            print(name, p, "caught" if results[p]["caught"] else "MISSED", v[:1], flush=True)
    finally:
        sh("git -C %s worktree remove --force %s" % (REPO, rcopy))
        shutil.rmtree(base, ignore_errors=True)
        sh("git -C %s worktree prune" % REPO)
    return results


if __name__ == "__main__":
    mode, d = sys.argv[1], sys.argv[2].rstrip("/")
    m = load_meta(d)
    if mode == "confirm":
        m["confirmed"] = confirm(d)
        print(json.dumps(m["confirmed"], indent=1))
    elif mode in ("run", "run-iso"):
        tier = "quick"
        props = None
        for i, a in enumerate(sys.argv):
            if a == "--tier":
                tier = sys.argv[i + 1]
            if a == "--props":
                props = sys.argv[i + 1].split(",")
        r = run_iso(d, tier, props) if mode == "run-iso" else run(d, tier, props)
        if r is not None:
            m.setdefault("check_results", {}).update(r)
    save_meta(d, m)
