#!/bin/sh
# Runs every check's quick (or $1) tier, $2 at a time; one line per property in .work/runall.txt
cd "$(dirname "$0")/.."
TIER=${1:-quick}; PAR=${2:-4}
mkdir -p .work/runall
: > .work/runall.txt
ls props | grep -o '^C[0-9][0-9]' | sort -u | xargs -P "$PAR" -I{} sh -c '
  s=$(date +%s); ./check {} --tier '"$TIER"' > .work/runall/{}.out 2> .work/runall/{}.err; rc=$?
  echo "{} rc=$rc $(( $(date +%s) - s ))s $(grep -c VIOLATION .work/runall/{}.out) violations" >> .work/runall.txt'
sort .work/runall.txt
