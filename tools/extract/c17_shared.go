// c17_shared.go — table SharedAccess (property C17).
//
// For the packages the property is anchored in, lists every syntactic read/write of
//   (A) a field of a long-lived shared struct (server.GripServer, jobstorage.FSResults/Job,
//       timestamp.Timestamp, kvgraph.KVGraph/KVInterfaceGDB, kvindex.KVIndex, queue.MemQueue) and
//   (B) a local variable of a function that is captured by a `go func(){…}` closure of that function
// together with: the function and goroutine ("thread") it occurs in, read/write, whether it goes
// through sync/atomic, the mutexes syntactically held (x.Lock()/RLock() … x.Unlock()/RUnlock(),
// `defer x.Unlock()` keeps the lock to the end), the kind of the location (plain, sync.Map, channel,
// sync primitive), the phase inside a goroutine-spawning function (before the first `go`, after a
// WaitGroup join, or in between) and whether the function is reachable from a concurrent entry
// point (a method of the gRPC Query/Edit/Job services — read from gripql_grpc.pb.go — or any `go`
// closure, or the part of a function after it has started goroutines).
//
// The analysis is purely syntactic and intra-procedural for locks (a lock held by a caller is NOT
// credited to the callee): it under-approximates protection, so it can report pairs that a
// happens-before argument shows harmless (those are listed, with the argument, in
// lean/Grip/Model/C17.lean) but it does not silently accept an unlocked access.
package main

import (
	"fmt"
	"go/ast"
	"go/parser"
	"go/token"
	"os"
	"path/filepath"
	"sort"
	"strings"
)

func init() { register(Table{Name: "SharedAccess", Gen: genSharedAccess}) }

type c17Pkg struct {
	dir   string   // directory relative to the repo
	name  string   // short name used in keys
	files []string // nil = all non-test .go files
}

var c17Pkgs = []c17Pkg{
	{"server", "server", nil},
	{"jobstorage", "jobstorage", []string{"storage.go"}},
	{"util", "util", []string{"insert.go"}},
	{"engine/queue", "queue", []string{"queue.go"}},
	{"timestamp", "timestamp", []string{"timestamp.go"}},
	{"kvgraph", "kvgraph", nil},
	{"kvindex", "kvindex", nil},
}

// tracked struct types: "pkg.Type"
var c17Types = []string{"server.GripServer", "jobstorage.FSResults", "jobstorage.Job", "timestamp.Timestamp",
	"kvgraph.KVGraph", "kvgraph.KVInterfaceGDB", "kvindex.KVIndex", "queue.MemQueue"}

// gRPC services whose methods are the concurrent entry points (the property: queries, edits,
// schema and job calls). The Configure service (plugins) is outside the property's quantifier.
var c17Services = []string{"QueryServer", "EditServer", "JobServer"}

type c17Access struct {
	Loc, Kind          string
	Shared             bool
	Fn                 string
	Thread             int
	Write, Atomic      bool
	Locks              []c17Lock
	Phase              int // 0 pre, 1 mid, 2 post (main thread of a goroutine-spawning function); 1 otherwise
	Multi              bool
	Conc               bool
	seg                string
}

type c17Lock struct {
	Name string
	Excl bool
}

type c17Func struct {
	pkg, key string
	recvType string
	decl     *ast.FuncDecl
	calls    map[string][]c17Call // segment -> calls
	hasGo    bool
}

type c17Call struct {
	pkgAlias string // "" for plain/ method calls
	name     string
	method   bool
	recv     string // tracked receiver type when known
}

type c17State struct {
	x       *Ctx
	fset    *token.FileSet
	structs map[string]map[string]ast.Expr // "pkg.Type" -> field -> type expr
	tracked map[string]bool
	funcs   map[string]*c17Func
	byName  map[string][]string // bare func/method name -> function keys
	pkgFns  map[string]map[string]string
	acc     []c17Access
}

func genSharedAccess(x *Ctx) (string, interface{}, error) {
	st := &c17State{x: x, fset: token.NewFileSet(), structs: map[string]map[string]ast.Expr{}, tracked: map[string]bool{},
		funcs: map[string]*c17Func{}, byName: map[string][]string{}, pkgFns: map[string]map[string]string{}}
	for _, t := range c17Types {
		st.tracked[t] = true
	}
	type pf struct {
		pkg  c17Pkg
		file *ast.File
	}
	var files []pf
	for _, p := range c17Pkgs {
		names := p.files
		if names == nil {
			ents, err := os.ReadDir(filepath.Join(x.Repo, p.dir))
			if err != nil {
				return "", nil, err
			}
			for _, e := range ents {
				n := e.Name()
				if strings.HasSuffix(n, ".go") && !strings.HasSuffix(n, "_test.go") && !strings.HasSuffix(n, "_verif.go") {
					names = append(names, n)
				}
			}
		}
		sort.Strings(names)
		for _, n := range names {
			rel := filepath.Join(p.dir, n)
			src, err := x.Read(rel)
			if err != nil {
				return "", nil, err
			}
			f, err := parser.ParseFile(st.fset, rel, src, parser.ParseComments)
			if err != nil {
				return "", nil, fmt.Errorf("%s: %v", rel, err)
			}
			files = append(files, pf{p, f})
		}
	}
	// pass 1: struct declarations and functions
	for _, f := range files {
		for _, d := range f.file.Decls {
			switch d := d.(type) {
			case *ast.GenDecl:
				for _, s := range d.Specs {
					ts, ok := s.(*ast.TypeSpec)
					if !ok {
						continue
					}
					stt, ok := ts.Type.(*ast.StructType)
					if !ok {
						continue
					}
					key := f.pkg.name + "." + ts.Name.Name
					if !st.tracked[key] {
						continue
					}
					fm := map[string]ast.Expr{}
					for _, fl := range stt.Fields.List {
						for _, n := range fl.Names {
							fm[n.Name] = fl.Type
						}
					}
					st.structs[key] = fm
				}
			case *ast.FuncDecl:
				if d.Body == nil {
					continue
				}
				fn := &c17Func{pkg: f.pkg.name, decl: d, calls: map[string][]c17Call{}}
				if d.Recv != nil && len(d.Recv.List) == 1 {
					fn.recvType = c17TypeName(d.Recv.List[0].Type)
					fn.key = f.pkg.name + "." + fn.recvType + "." + d.Name.Name
				} else {
					fn.key = f.pkg.name + "." + d.Name.Name
					if st.pkgFns[f.pkg.name] == nil {
						st.pkgFns[f.pkg.name] = map[string]string{}
					}
					st.pkgFns[f.pkg.name][d.Name.Name] = fn.key
				}
				st.funcs[fn.key] = fn
				st.byName[d.Name.Name] = append(st.byName[d.Name.Name], fn.key)
			}
		}
	}
	for _, t := range c17Types {
		if st.structs[t] == nil {
			return "", nil, fmt.Errorf("tracked struct %s not found", t)
		}
	}
	// handlers from the generated gRPC interfaces
	src, err := x.Read("gripql/gripql_grpc.pb.go")
	if err != nil {
		return "", nil, err
	}
	gf, err := parser.ParseFile(st.fset, "gripql/gripql_grpc.pb.go", src, 0)
	if err != nil {
		return "", nil, err
	}
	handlers := []string{}
	found := map[string]bool{}
	ast.Inspect(gf, func(n ast.Node) bool {
		ts, ok := n.(*ast.TypeSpec)
		if !ok {
			return true
		}
		it, ok := ts.Type.(*ast.InterfaceType)
		if !ok {
			return true
		}
		for _, s := range c17Services {
			if ts.Name.Name == s {
				found[s] = true
				for _, m := range it.Methods.List {
					for _, n := range m.Names {
						if ast.IsExported(n.Name) {
							handlers = append(handlers, "server.GripServer."+n.Name)
						}
					}
				}
			}
		}
		return true
	})
	for _, s := range c17Services {
		if !found[s] {
			return "", nil, fmt.Errorf("service interface %s not found in gripql_grpc.pb.go", s)
		}
	}
	sort.Strings(handlers)
	for _, h := range handlers {
		if st.funcs[h] == nil {
			return "", nil, fmt.Errorf("handler %s has no implementation on GripServer", h)
		}
	}
	// pass 2: accesses
	keys := make([]string, 0, len(st.funcs))
	for k := range st.funcs {
		keys = append(keys, k)
	}
	sort.Strings(keys)
	for _, k := range keys {
		st.analyse(st.funcs[k])
	}
	// reachability
	reach := map[string]bool{}
	var work []string
	add := func(k string) {
		if !reach[k] {
			reach[k] = true
			work = append(work, k)
		}
	}
	for _, h := range handlers {
		add(h)
	}
	rootSeg := func(fn *c17Func, seg string) bool { return seg == "go" || (seg == "rest" && fn.hasGo) }
	resolve := func(fn *c17Func, c c17Call) []string {
		if c.pkgAlias != "" {
			if m := st.pkgFns[c.pkgAlias]; m != nil {
				if k, ok := m[c.name]; ok {
					return []string{k}
				}
			}
			return nil
		}
		if !c.method {
			if k, ok := st.pkgFns[fn.pkg][c.name]; ok {
				return []string{k}
			}
			return nil
		}
		if c.recv != "" {
			if k := c.recv + "." + c.name; st.funcs[k] != nil {
				return []string{k}
			}
			return nil
		}
		// receiver of unknown static type (interfaces gdbi.GraphDB / GraphInterface / JobStorage …):
		// every tracked method of that name, except GripServer's own (those are only called on
		// the receiver, whose type is known, or by the gRPC runtime: they are roots already)
		var out []string
		for _, k := range st.byName[c.name] {
			if f := st.funcs[k]; f.recvType != "" && !(f.pkg == "server" && f.recvType == "GripServer") {
				out = append(out, k)
			}
		}
		return out
	}
	for _, k := range keys {
		fn := st.funcs[k]
		for seg, cs := range fn.calls {
			if rootSeg(fn, seg) {
				for _, c := range cs {
					for _, t := range resolve(fn, c) {
						add(t)
					}
				}
			}
		}
	}
	for len(work) > 0 {
		k := work[len(work)-1]
		work = work[:len(work)-1]
		fn := st.funcs[k]
		for _, cs := range fn.calls {
			for _, c := range cs {
				for _, t := range resolve(fn, c) {
					add(t)
				}
			}
		}
	}
	for i := range st.acc {
		a := &st.acc[i]
		fn := st.funcs[a.Fn]
		a.Conc = reach[a.Fn] || rootSeg(fn, a.seg)
	}
	// keep local (captured) variables only when some access to them is a write outside the
	// pre-phase; keep shared fields always
	wr := map[string]bool{}
	for _, a := range st.acc {
		if !a.Shared && a.Write && !(a.Thread == 0 && a.Phase == 0) {
			wr[a.Loc] = true
		}
	}
	var rows []c17Access
	seen := map[string]bool{}
	for _, a := range st.acc {
		if !a.Shared && !wr[a.Loc] {
			continue
		}
		sort.Slice(a.Locks, func(i, j int) bool { return a.Locks[i].Name < a.Locks[j].Name })
		id := fmt.Sprintf("%s|%s|%v|%s|%d|%v|%v|%v|%d|%v|%v", a.Loc, a.Kind, a.Shared, a.Fn, a.Thread, a.Write, a.Atomic, a.Locks, a.Phase, a.Multi, a.Conc)
		if seen[id] {
			continue
		}
		seen[id] = true
		rows = append(rows, a)
	}
	sort.SliceStable(rows, func(i, j int) bool {
		if rows[i].Loc != rows[j].Loc {
			return rows[i].Loc < rows[j].Loc
		}
		if rows[i].Fn != rows[j].Fn {
			return rows[i].Fn < rows[j].Fn
		}
		return rows[i].Thread < rows[j].Thread
	})
	// intern names
	intern := func(get func(a c17Access) []string) ([]string, map[string]int) {
		set := map[string]bool{}
		for _, a := range rows {
			for _, s := range get(a) {
				set[s] = true
			}
		}
		var xs []string
		for s := range set {
			xs = append(xs, s)
		}
		sort.Strings(xs)
		m := map[string]int{}
		for i, s := range xs {
			m[s] = i
		}
		return xs, m
	}
	locs, locID := intern(func(a c17Access) []string { return []string{a.Loc} })
	fns, fnID := intern(func(a c17Access) []string { return []string{a.Fn} })
	lks, lkID := intern(func(a c17Access) []string {
		var o []string
		for _, l := range a.Locks {
			o = append(o, l.Name)
		}
		return o
	})
	var b strings.Builder
	b.WriteString("-- GENERATED by tools/extract (c17_shared.go) from the repository's working tree; do not edit\n")
	b.WriteString("namespace GripGen.SharedAccess\n\n")
	b.WriteString("inductive LocKind where\n  | plain | syncMap | chan | sync\n  deriving DecidableEq, Repr\n\n")
	b.WriteString("/-- One syntactic access. `loc`, `fn`, lock ids index `locNames`, `fnNames`, `lockNames`.\n    `thread` 0 = the function body, k>0 = its k-th `go` closure. `phase` (thread 0 only):\n    0 before the first `go`, 1 in between, 2 after the WaitGroup join. -/\n")
	b.WriteString("structure Access where\n  loc : Nat\n  kind : LocKind\n  shared : Bool\n  fn : Nat\n  thread : Nat\n  write : Bool\n  atomic : Bool\n  locks : List (Nat × Bool)\n  phase : Nat\n  multi : Bool\n  conc : Bool\n  deriving DecidableEq, Repr\n\n")
	mangle := func(s string) string {
		return strings.NewReplacer(".", "_", "$", "_", "-", "_").Replace(s)
	}
	b.WriteString("/-! ids by name, for hand-written lists that refer to locations and functions -/\nnamespace L\n")
	for i, s := range locs {
		fmt.Fprintf(&b, "def %s : Nat := %d\n", mangle(s), i)
	}
	b.WriteString("end L\nnamespace F\n")
	for i, s := range fns {
		fmt.Fprintf(&b, "def %s : Nat := %d\n", mangle(s), i)
	}
	b.WriteString("end F\n\n")
	b.WriteString("def locNames : List String := " + leanStrList(locs) + "\n\n")
	b.WriteString("def fnNames : List String := " + leanStrList(fns) + "\n\n")
	b.WriteString("def lockNames : List String := " + leanStrList(lks) + "\n\n")
	b.WriteString("def handlers : List String := " + leanStrList(handlers) + "\n\n")
	b.WriteString("def accesses : List Access := [\n")
	for i, a := range rows {
		var ls []string
		for _, l := range a.Locks {
			ls = append(ls, fmt.Sprintf("(%d, %v)", lkID[l.Name], l.Excl))
		}
		fmt.Fprintf(&b, "  ⟨%d, .%s, %v, %d, %d, %v, %v, [%s], %d, %v, %v⟩", locID[a.Loc], a.Kind, a.Shared, fnID[a.Fn], a.Thread,
			a.Write, a.Atomic, strings.Join(ls, ", "), a.Phase, a.Multi, a.Conc)
		if i+1 < len(rows) {
			b.WriteString(",")
		}
		fmt.Fprintf(&b, "  -- %s %s#%d %s\n", a.Loc, a.Fn, a.Thread, map[bool]string{true: "W", false: "R"}[a.Write])
	}
	b.WriteString("]\n\nend GripGen.SharedAccess\n")
	facts := map[string]interface{}{"rows": len(rows), "locations": locs, "handlers": handlers}
	if len(rows) < 20 {
		return "", nil, fmt.Errorf("only %d accesses recognised: the shapes this table depends on have changed", len(rows))
	}
	return b.String(), facts, nil
}

func c17TypeName(e ast.Expr) string {
	switch t := e.(type) {
	case *ast.StarExpr:
		return c17TypeName(t.X)
	case *ast.Ident:
		return t.Name
	case *ast.SelectorExpr:
		if id, ok := t.X.(*ast.Ident); ok {
			return id.Name + "." + t.Sel.Name
		}
	}
	return ""
}

// trackedTypeOf maps a type expression (as written in package pkg) to a tracked "pkg.Type" or "".
func (st *c17State) trackedTypeOf(pkg string, e ast.Expr) string {
	n := c17TypeName(e)
	if n == "" {
		return ""
	}
	if !strings.Contains(n, ".") {
		n = pkg + "." + n
	}
	if st.tracked[n] {
		return n
	}
	return ""
}

func c17Kind(e ast.Expr) string {
	switch t := e.(type) {
	case *ast.ChanType:
		return "chan"
	case *ast.StarExpr:
		return c17Kind(t.X)
	case *ast.SelectorExpr:
		if id, ok := t.X.(*ast.Ident); ok && id.Name == "sync" {
			if t.Sel.Name == "Map" {
				return "syncMap"
			}
			return "sync"
		}
		if id, ok := t.X.(*ast.Ident); ok && id.Name == "atomic" {
			return "sync"
		}
	}
	return "plain"
}

// kind of a local variable from its initialiser
func c17KindOfInit(e ast.Expr) string {
	switch v := e.(type) {
	case *ast.CallExpr:
		if id, ok := v.Fun.(*ast.Ident); ok && id.Name == "make" && len(v.Args) > 0 {
			return c17Kind(v.Args[0])
		}
	case *ast.UnaryExpr:
		if cl, ok := v.X.(*ast.CompositeLit); ok {
			return c17Kind(cl.Type)
		}
	case *ast.CompositeLit:
		return c17Kind(v.Type)
	}
	return "plain"
}

type c17Walker struct {
	st      *c17State
	fn      *c17Func
	env     map[*ast.Object]string // ident object -> tracked type
	thread  int
	nthread int
	multi   bool
	held    map[string]bool
	closure *ast.FuncLit // innermost go closure (nil on thread 0)
	loops   int
	// phases of thread 0
	firstGo, joinPos token.Pos
	localKind        map[*ast.Object]string
	captured         map[*ast.Object]bool
}

func (st *c17State) analyse(fn *c17Func) {
	w := &c17Walker{st: st, fn: fn, env: map[*ast.Object]string{}, held: map[string]bool{}, localKind: map[*ast.Object]string{}, captured: map[*ast.Object]bool{}}
	d := fn.decl
	bind := func(fl *ast.FieldList) {
		if fl == nil {
			return
		}
		for _, f := range fl.List {
			t := st.trackedTypeOf(fn.pkg, f.Type)
			for _, n := range f.Names {
				if n.Obj != nil {
					if t != "" {
						w.env[n.Obj] = t
					}
					w.localKind[n.Obj] = c17Kind(f.Type)
				}
			}
		}
	}
	bind(d.Recv)
	bind(d.Type.Params)
	// pre-scan: go statements, join, captured variables, local types
	var goLits []*ast.FuncLit
	ast.Inspect(d.Body, func(n ast.Node) bool {
		switch s := n.(type) {
		case *ast.GoStmt:
			if fl, ok := s.Call.Fun.(*ast.FuncLit); ok {
				goLits = append(goLits, fl)
			}
			fn.hasGo = true
		case *ast.AssignStmt:
			if s.Tok == token.DEFINE {
				for i, l := range s.Lhs {
					id, ok := l.(*ast.Ident)
					if !ok || id.Obj == nil {
						continue
					}
					var rhs ast.Expr
					if len(s.Rhs) == len(s.Lhs) {
						rhs = s.Rhs[i]
					} else if len(s.Rhs) == 1 {
						rhs = s.Rhs[0]
					}
					if rhs == nil {
						continue
					}
					w.localKind[id.Obj] = c17KindOfInit(rhs)
					switch v := rhs.(type) {
					case *ast.UnaryExpr:
						if cl, ok := v.X.(*ast.CompositeLit); ok {
							if t := st.trackedTypeOf(fn.pkg, cl.Type); t != "" {
								w.env[id.Obj] = t
							}
						}
					case *ast.CompositeLit:
						if t := st.trackedTypeOf(fn.pkg, v.Type); t != "" {
							w.env[id.Obj] = t
						}
					case *ast.TypeAssertExpr:
						if v.Type != nil && i == 0 {
							if t := st.trackedTypeOf(fn.pkg, v.Type); t != "" {
								w.env[id.Obj] = t
							}
						}
					}
				}
			}
		case *ast.ValueSpec:
			for _, n := range s.Names {
				if n.Obj != nil && s.Type != nil {
					w.localKind[n.Obj] = c17Kind(s.Type)
					if t := st.trackedTypeOf(fn.pkg, s.Type); t != "" {
						w.env[n.Obj] = t
					}
				}
			}
		}
		return true
	})
	// top-level phases
	for _, s := range d.Body.List {
		hasGo := false
		ast.Inspect(s, func(n ast.Node) bool {
			if _, ok := n.(*ast.GoStmt); ok {
				hasGo = true
			}
			return true
		})
		if hasGo {
			if w.firstGo == token.NoPos {
				w.firstGo = s.Pos()
			}
			w.joinPos = token.NoPos
			continue
		}
		if es, ok := s.(*ast.ExprStmt); ok && w.firstGo != token.NoPos {
			if c, ok := es.X.(*ast.CallExpr); ok {
				if sel, ok := c.Fun.(*ast.SelectorExpr); ok && sel.Sel.Name == "Wait" {
					if id, ok := sel.X.(*ast.Ident); ok {
						// every go closure must signal Done on the same WaitGroup
						all := len(goLits) > 0
						for _, fl := range goLits {
							done := false
							ast.Inspect(fl, func(n ast.Node) bool {
								if c, ok := n.(*ast.CallExpr); ok {
									if s2, ok := c.Fun.(*ast.SelectorExpr); ok && s2.Sel.Name == "Done" {
										if id2, ok := s2.X.(*ast.Ident); ok && id2.Obj == id.Obj {
											done = true
										}
									}
								}
								return true
							})
							all = all && done
						}
						if all {
							w.joinPos = s.End()
						}
					}
				}
			}
		}
	}
	// captured variables: objects declared inside this function (outside the closure) used in a go closure
	for _, fl := range goLits {
		ast.Inspect(fl.Body, func(n ast.Node) bool {
			id, ok := n.(*ast.Ident)
			if !ok || id.Obj == nil || id.Obj.Kind != ast.Var {
				return true
			}
			p := id.Obj.Pos()
			if p >= d.Pos() && p < d.End() && !(p >= fl.Pos() && p < fl.End()) {
				w.captured[id.Obj] = true
			}
			return true
		})
	}
	w.block(d.Body.List)
}

func (w *c17Walker) seg(pos token.Pos) (string, int) {
	if w.thread != 0 {
		return "go", 1
	}
	if !w.fn.hasGo || w.firstGo == token.NoPos || pos < w.firstGo {
		if w.fn.hasGo {
			return "pre", 0
		}
		return "pre", 1
	}
	if w.joinPos != token.NoPos && pos >= w.joinPos {
		return "rest", 2
	}
	return "rest", 1
}

func (w *c17Walker) record(loc, kind string, shared bool, pos token.Pos, write, atomic bool) {
	seg, ph := w.seg(pos)
	var ls []c17Lock
	for n, ex := range w.held {
		ls = append(ls, c17Lock{n, ex})
	}
	w.st.acc = append(w.st.acc, c17Access{Loc: loc, Kind: kind, Shared: shared, Fn: w.fn.key, Thread: w.thread, Write: write,
		Atomic: atomic, Locks: ls, Phase: ph, Multi: w.multi, seg: seg})
}

func (w *c17Walker) copyHeld() map[string]bool {
	m := map[string]bool{}
	for k, v := range w.held {
		m[k] = v
	}
	return m
}

func (w *c17Walker) block(list []ast.Stmt) {
	for _, s := range list {
		w.stmt(s)
	}
}

// nested runs body with a copy of the lock set; afterwards only locks held both before and after remain.
func (w *c17Walker) nested(f func()) {
	before := w.copyHeld()
	f()
	after := w.held
	w.held = map[string]bool{}
	for k, v := range before {
		if v2, ok := after[k]; ok && v2 == v {
			w.held[k] = v
		}
	}
}

func (w *c17Walker) lockName(e ast.Expr) string {
	switch x := e.(type) {
	case *ast.Ident:
		return w.fn.key + "$" + x.Name
	case *ast.SelectorExpr:
		if t := w.typeOf(x.X); t != "" {
			return t + "." + x.Sel.Name
		}
		return w.fn.key + "$" + c17ExprString(x)
	}
	return w.fn.key + "$?"
}

func c17ExprString(e ast.Expr) string {
	switch x := e.(type) {
	case *ast.Ident:
		return x.Name
	case *ast.SelectorExpr:
		return c17ExprString(x.X) + "." + x.Sel.Name
	case *ast.StarExpr:
		return c17ExprString(x.X)
	}
	return "?"
}

// lockOp recognises x.Lock() / RLock() / Unlock() / RUnlock().
func (w *c17Walker) lockOp(e ast.Expr) (name, op string, ok bool) {
	c, isCall := e.(*ast.CallExpr)
	if !isCall || len(c.Args) != 0 {
		return
	}
	sel, isSel := c.Fun.(*ast.SelectorExpr)
	if !isSel {
		return
	}
	switch sel.Sel.Name {
	case "Lock", "RLock", "Unlock", "RUnlock":
		return w.lockName(sel.X), sel.Sel.Name, true
	}
	return
}

func (w *c17Walker) stmt(s ast.Stmt) {
	switch s := s.(type) {
	case nil:
	case *ast.ExprStmt:
		if name, op, ok := w.lockOp(s.X); ok {
			w.expr(s.X.(*ast.CallExpr).Fun.(*ast.SelectorExpr).X, false)
			switch op {
			case "Lock":
				w.held[name] = true
			case "RLock":
				w.held[name] = false
			default:
				delete(w.held, name)
			}
			return
		}
		w.expr(s.X, false)
	case *ast.DeferStmt:
		if _, op, ok := w.lockOp(s.Call); ok && (op == "Unlock" || op == "RUnlock") {
			return // released at function exit
		}
		w.expr(s.Call, false)
	case *ast.GoStmt:
		if fl, ok := s.Call.Fun.(*ast.FuncLit); ok {
			for _, a := range s.Call.Args {
				w.expr(a, false)
			}
			w.nthread++
			sub := *w
			sub.thread = w.nthread
			sub.multi = w.loops > 0 || w.multi
			sub.held = map[string]bool{}
			sub.closure = fl
			sub.loops = 0
			sub.block(fl.Body.List)
			w.nthread = sub.nthread
			return
		}
		// go f(x): the callee runs concurrently
		w.callEdge(s.Call, "go")
		for _, a := range s.Call.Args {
			w.expr(a, false)
		}
	case *ast.AssignStmt:
		for _, r := range s.Rhs {
			w.expr(r, false)
		}
		for _, l := range s.Lhs {
			if s.Tok == token.DEFINE {
				if id, ok := l.(*ast.Ident); ok {
					_ = id
					continue
				}
			}
			w.expr(l, true)
			if s.Tok != token.ASSIGN && s.Tok != token.DEFINE {
				w.expr(l, false)
			}
		}
	case *ast.IncDecStmt:
		w.expr(s.X, false)
		w.expr(s.X, true)
	case *ast.ReturnStmt:
		for _, r := range s.Results {
			w.expr(r, false)
		}
	case *ast.BlockStmt:
		w.nested(func() { w.block(s.List) })
	case *ast.IfStmt:
		w.nested(func() {
			w.stmt(s.Init)
			w.expr(s.Cond, false)
			w.nested(func() { w.block(s.Body.List) })
			if s.Else != nil {
				w.nested(func() { w.stmt(s.Else) })
			}
		})
	case *ast.ForStmt:
		w.loops++
		w.nested(func() {
			w.stmt(s.Init)
			if s.Cond != nil {
				w.expr(s.Cond, false)
			}
			w.stmt(s.Post)
			w.block(s.Body.List)
		})
		w.loops--
	case *ast.RangeStmt:
		w.expr(s.X, false)
		if s.Tok == token.ASSIGN {
			if s.Key != nil {
				w.expr(s.Key, true)
			}
			if s.Value != nil {
				w.expr(s.Value, true)
			}
		}
		w.loops++
		w.nested(func() { w.block(s.Body.List) })
		w.loops--
	case *ast.SwitchStmt:
		w.nested(func() {
			w.stmt(s.Init)
			if s.Tag != nil {
				w.expr(s.Tag, false)
			}
			for _, c := range s.Body.List {
				cc := c.(*ast.CaseClause)
				for _, e := range cc.List {
					w.expr(e, false)
				}
				w.nested(func() { w.block(cc.Body) })
			}
		})
	case *ast.TypeSwitchStmt:
		w.nested(func() {
			w.stmt(s.Init)
			w.stmt(s.Assign)
			for _, c := range s.Body.List {
				cc := c.(*ast.CaseClause)
				w.nested(func() { w.block(cc.Body) })
			}
		})
	case *ast.SelectStmt:
		for _, c := range s.Body.List {
			cc := c.(*ast.CommClause)
			w.nested(func() {
				w.stmt(cc.Comm)
				w.block(cc.Body)
			})
		}
	case *ast.SendStmt:
		w.expr(s.Chan, false)
		w.expr(s.Value, false)
	case *ast.DeclStmt:
		if gd, ok := s.Decl.(*ast.GenDecl); ok {
			for _, sp := range gd.Specs {
				if vs, ok := sp.(*ast.ValueSpec); ok {
					for _, v := range vs.Values {
						w.expr(v, false)
					}
				}
			}
		}
	case *ast.LabeledStmt:
		w.stmt(s.Stmt)
	case *ast.BranchStmt, *ast.EmptyStmt:
	default:
		panic(fmt.Sprintf("c17: statement shape %T not handled in %s", s, w.fn.key))
	}
}

// typeOf: tracked struct type of an expression, or "".
func (w *c17Walker) typeOf(e ast.Expr) string {
	switch x := e.(type) {
	case *ast.Ident:
		if x.Obj != nil {
			return w.env[x.Obj]
		}
	case *ast.ParenExpr:
		return w.typeOf(x.X)
	case *ast.StarExpr:
		return w.typeOf(x.X)
	case *ast.SelectorExpr:
		if t := w.typeOf(x.X); t != "" {
			if ft, ok := w.st.structs[t][x.Sel.Name]; ok {
				pkg := t[:strings.Index(t, ".")]
				return w.st.trackedTypeOf(pkg, ft)
			}
		}
	}
	return ""
}

func (w *c17Walker) callEdge(c *ast.CallExpr, segOverride string) {
	seg := segOverride
	if seg == "" {
		seg, _ = w.seg(c.Pos())
	}
	switch f := c.Fun.(type) {
	case *ast.Ident:
		w.fn.calls[seg] = append(w.fn.calls[seg], c17Call{name: f.Name})
	case *ast.SelectorExpr:
		if id, ok := f.X.(*ast.Ident); ok && id.Obj == nil {
			// package-qualified call (imported package names have no Obj)
			w.fn.calls[seg] = append(w.fn.calls[seg], c17Call{pkgAlias: id.Name, name: f.Sel.Name})
			return
		}
		w.fn.calls[seg] = append(w.fn.calls[seg], c17Call{name: f.Sel.Name, method: true, recv: w.typeOf(f.X)})
	}
}

var c17AtomicWrites = map[string]bool{"AddInt32": true, "AddInt64": true, "AddUint32": true, "AddUint64": true,
	"StoreInt32": true, "StoreInt64": true, "StoreUint32": true, "StoreUint64": true, "StorePointer": true,
	"CompareAndSwapInt32": true, "CompareAndSwapInt64": true, "SwapInt32": true, "SwapInt64": true}
var c17AtomicReads = map[string]bool{"LoadInt32": true, "LoadInt64": true, "LoadUint32": true, "LoadUint64": true, "LoadPointer": true}

// expr visits an expression; write = the expression is being assigned to.
func (w *c17Walker) expr(e ast.Expr, write bool) {
	w.exprA(e, write, false)
}

func (w *c17Walker) exprA(e ast.Expr, write, atomic bool) {
	switch x := e.(type) {
	case nil:
	case *ast.Ident:
		if x.Obj != nil && w.captured[x.Obj] {
			kind := w.localKind[x.Obj]
			if kind == "" {
				kind = "plain"
			}
			w.record(w.fn.key+"$"+x.Name, kind, false, x.Pos(), write, atomic)
		}
	case *ast.ParenExpr:
		w.exprA(x.X, write, atomic)
	case *ast.SelectorExpr:
		if t := w.typeOf(x.X); t != "" {
			if ft, ok := w.st.structs[t][x.Sel.Name]; ok {
				w.record(t+"."+x.Sel.Name, c17Kind(ft), true, x.Pos(), write, atomic)
				w.exprA(x.X, false, false)
				return
			}
		}
		// a field of a struct VALUE held in a tracked field (job.Status.State = …): writing the
		// sub-field writes the tracked field; through a pointer or unknown type it is a read
		if write && w.valueField(x.X) {
			w.exprA(x.X, true, atomic)
			return
		}
		w.exprA(x.X, false, false)
	case *ast.IndexExpr:
		w.exprA(x.X, write, atomic)
		w.exprA(x.Index, false, false)
	case *ast.SliceExpr:
		w.exprA(x.X, write, atomic)
		w.exprA(x.Low, false, false)
		w.exprA(x.High, false, false)
		w.exprA(x.Max, false, false)
	case *ast.StarExpr:
		w.exprA(x.X, false, false)
	case *ast.UnaryExpr:
		w.exprA(x.X, false, atomic)
	case *ast.BinaryExpr:
		w.exprA(x.X, false, false)
		w.exprA(x.Y, false, false)
	case *ast.KeyValueExpr:
		w.exprA(x.Value, false, false)
	case *ast.CompositeLit:
		for _, el := range x.Elts {
			w.exprA(el, false, false)
		}
	case *ast.TypeAssertExpr:
		w.exprA(x.X, false, false)
	case *ast.FuncLit:
		// runs on the current thread (callbacks such as sync.Map.Range, kv.View); locks are inherited
		w.nested(func() { w.block(x.Body.List) })
	case *ast.CallExpr:
		w.callEdge(x, "")
		if sel, ok := x.Fun.(*ast.SelectorExpr); ok {
			if id, ok := sel.X.(*ast.Ident); ok && id.Name == "atomic" && id.Obj == nil && len(x.Args) > 0 {
				if u, ok := x.Args[0].(*ast.UnaryExpr); ok && u.Op == token.AND {
					if c17AtomicWrites[sel.Sel.Name] {
						w.exprA(u.X, true, true)
					} else if c17AtomicReads[sel.Sel.Name] {
						w.exprA(u.X, false, true)
					} else {
						w.exprA(u.X, true, false)
					}
					for _, a := range x.Args[1:] {
						w.exprA(a, false, false)
					}
					return
				}
			}
			w.exprA(sel.X, false, false)
		} else if id, ok := x.Fun.(*ast.Ident); ok {
			if id.Name == "delete" && id.Obj == nil && len(x.Args) == 2 {
				w.exprA(x.Args[0], true, false)
				w.exprA(x.Args[1], false, false)
				return
			}
			if id.Name == "close" && id.Obj == nil && len(x.Args) == 1 {
				w.exprA(x.Args[0], false, false)
				return
			}
			w.exprA(x.Fun, false, false)
		} else {
			w.exprA(x.Fun, false, false)
		}
		for _, a := range x.Args {
			w.exprA(a, false, false)
		}
	case *ast.BasicLit, *ast.ArrayType, *ast.MapType, *ast.ChanType, *ast.FuncType, *ast.InterfaceType, *ast.StructType, *ast.Ellipsis:
	default:
		panic(fmt.Sprintf("c17: expression shape %T not handled in %s", e, w.fn.key))
	}
}

// valueField: e is `x.f` (or deeper) whose tracked field type is a struct value (not pointer/map/chan/slice).
func (w *c17Walker) valueField(e ast.Expr) bool {
	sel, ok := e.(*ast.SelectorExpr)
	if !ok {
		return false
	}
	if t := w.typeOf(sel.X); t != "" {
		if ft, ok := w.st.structs[t][sel.Sel.Name]; ok {
			switch ft.(type) {
			case *ast.Ident, *ast.SelectorExpr:
				return true
			}
			return false
		}
	}
	return w.valueField(sel.X)
}
