package main

// MongoFilter — the operator table of the MongoDB filter compiler, read from mongo/has_evaluator.go
// with go/ast: for every `case gripql.Condition_X:` of convertCondition's switch the emitted
// operator document (a rendering of the bson literal assigned to `expr`), the guard in front of it
// (`if _, ok := val.([]interface{}); !ok { return matchNone(…) }`), the two return statements that
// wrap `expr` under a negation, and for convertHasExpression's And/Or arms the three outcomes
// (no member / negated / plain).  The Lean side (Props.C14.filter_table_matches_source) renders the
// MODEL's opOf / convCond / junction in the same notation and proves the two equal by `decide`.
// An unrecognisable shape is an error (a broken obligation of C14).

import (
	"bytes"
	"fmt"
	"go/ast"
	"go/printer"
	"go/token"
	"strconv"
	"strings"
)

func init() { register(Table{Name: "MongoFilter", Gen: c14GenFilter}) }

// c14Render renders the literals convertCondition builds: bson.M{"$k": v}, []interface{}{v}, val.
func c14Render(e ast.Expr) (string, error) {
	switch v := e.(type) {
	case *ast.Ident:
		if v.Name == "val" || v.Name == "expr" || v.Name == "key" {
			return v.Name, nil
		}
	case *ast.BasicLit:
		if v.Kind == token.STRING {
			s, err := strconv.Unquote(v.Value)
			return s, err
		}
	case *ast.CompositeLit:
		switch t := v.Type.(type) {
		case *ast.SelectorExpr: // bson.M{…}
			if x, ok := t.X.(*ast.Ident); ok && x.Name == "bson" && t.Sel.Name == "M" {
				parts := []string{}
				for _, el := range v.Elts {
					kv, ok := el.(*ast.KeyValueExpr)
					if !ok {
						return "", fmt.Errorf("bson.M element without key")
					}
					k, err := c14Render(kv.Key)
					if err != nil {
						return "", err
					}
					x, err := c14Render(kv.Value)
					if err != nil {
						return "", err
					}
					parts = append(parts, k+": "+x)
				}
				return "{" + strings.Join(parts, ", ") + "}", nil
			}
		case *ast.ArrayType: // []interface{}{…} / []bson.M
			parts := []string{}
			for _, el := range v.Elts {
				x, err := c14Render(el)
				if err != nil {
					return "", err
				}
				parts = append(parts, x)
			}
			return "[" + strings.Join(parts, ", ") + "]", nil
		}
	}
	return "", fmt.Errorf("expression shape not recognised: %T", e)
}

// c14MatchNoneArg recognises `return matchNone(not)` / `return matchNone(!not)` / `output = matchNone(…)`.
func c14MatchNoneCall(e ast.Expr) (string, bool) {
	call, ok := e.(*ast.CallExpr)
	if !ok || len(call.Args) != 1 {
		return "", false
	}
	if id, ok := call.Fun.(*ast.Ident); !ok || id.Name != "matchNone" {
		return "", false
	}
	switch a := call.Args[0].(type) {
	case *ast.Ident:
		if a.Name == "not" {
			return "matchNone(not)", true
		}
	case *ast.UnaryExpr:
		if id, ok := a.X.(*ast.Ident); ok && a.Op == token.NOT && id.Name == "not" {
			return "matchNone(!not)", true
		}
	}
	return "", false
}

// c14ListGuard recognises `if _, ok := val.([]interface{}); !ok { return matchNone(…) }`.
func c14ListGuard(s ast.Stmt) (string, bool) {
	is, ok := s.(*ast.IfStmt)
	if !ok || is.Init == nil || is.Else != nil || len(is.Body.List) != 1 {
		return "", false
	}
	as, ok := is.Init.(*ast.AssignStmt)
	if !ok || len(as.Rhs) != 1 {
		return "", false
	}
	ta, ok := as.Rhs[0].(*ast.TypeAssertExpr)
	if !ok {
		return "", false
	}
	if id, ok := ta.X.(*ast.Ident); !ok || id.Name != "val" {
		return "", false
	}
	at, ok := ta.Type.(*ast.ArrayType)
	if !ok || at.Len != nil {
		return "", false
	}
	if it, ok := at.Elt.(*ast.InterfaceType); !ok || len(it.Methods.List) != 0 {
		return "", false
	}
	un, ok := is.Cond.(*ast.UnaryExpr)
	if !ok || un.Op != token.NOT {
		return "", false
	}
	if id, ok := un.X.(*ast.Ident); !ok || id.Name != "ok" {
		return "", false
	}
	ret, ok := is.Body.List[0].(*ast.ReturnStmt)
	if !ok || len(ret.Results) != 1 {
		return "", false
	}
	m, ok := c14MatchNoneCall(ret.Results[0])
	if !ok {
		return "", false
	}
	return "not a list: " + m, true
}

func c14CondName(e ast.Expr) (string, bool) {
	sel, ok := e.(*ast.SelectorExpr)
	if !ok {
		return "", false
	}
	if x, ok := sel.X.(*ast.Ident); !ok || x.Name != "gripql" {
		return "", false
	}
	if !strings.HasPrefix(sel.Sel.Name, "Condition_") {
		return "", false
	}
	return strings.TrimPrefix(sel.Sel.Name, "Condition_"), true
}

func c14GenFilter(x *Ctx) (string, interface{}, error) {
	f, err := c11Parse(x, "mongo/has_evaluator.go")
	if err != nil {
		return "", nil, err
	}
	var cc, che, cp *ast.FuncDecl
	for _, d := range f.Decls {
		if fd, ok := d.(*ast.FuncDecl); ok && fd.Body != nil {
			switch fd.Name.Name {
			case "convertCondition":
				cc = fd
			case "convertHasExpression":
				che = fd
			case "convertPath":
				cp = fd
			}
		}
	}
	if cc == nil || che == nil {
		return "", nil, fmt.Errorf("convertCondition / convertHasExpression not found")
	}
	// ---- convertCondition: the switch over cond.Condition and the tail
	type row struct{ Cond, Guard, Expr string }
	rows := []row{}
	var sw *ast.SwitchStmt
	tail := []string{}
	for _, s := range cc.Body.List {
		switch v := s.(type) {
		case *ast.SwitchStmt:
			if sw != nil {
				return "", nil, fmt.Errorf("convertCondition: more than one switch")
			}
			sw = v
		case *ast.IfStmt: // if not { return bson.M{key: bson.M{"$not": expr}} }
			if sw == nil {
				return "", nil, fmt.Errorf("convertCondition: if before the switch")
			}
			id, ok := v.Cond.(*ast.Ident)
			if !ok || id.Name != "not" || v.Else != nil || len(v.Body.List) != 1 {
				return "", nil, fmt.Errorf("convertCondition: tail `if` not recognised")
			}
			ret, ok := v.Body.List[0].(*ast.ReturnStmt)
			if !ok || len(ret.Results) != 1 {
				return "", nil, fmt.Errorf("convertCondition: tail `if` body not a return")
			}
			r, err := c14Render(ret.Results[0])
			if err != nil {
				return "", nil, err
			}
			tail = append(tail, "not: "+r)
		case *ast.ReturnStmt:
			if sw == nil || len(v.Results) != 1 {
				return "", nil, fmt.Errorf("convertCondition: return before the switch")
			}
			r, err := c14Render(v.Results[0])
			if err != nil {
				return "", nil, err
			}
			tail = append(tail, "plain: "+r)
		case *ast.DeclStmt, *ast.AssignStmt:
			// var key string / key = convertPath(cond.Key) / val = cond.Value.AsInterface() / expr := bson.M{}
		default:
			return "", nil, fmt.Errorf("convertCondition: statement %T not recognised", s)
		}
	}
	if sw == nil {
		return "", nil, fmt.Errorf("convertCondition: switch not found")
	}
	defaultSeen := false
	for _, c := range sw.Body.List {
		cl := c.(*ast.CaseClause)
		if cl.List == nil {
			defaultSeen = true
			for _, s := range cl.Body {
				if _, ok := s.(*ast.ExprStmt); !ok { // log.Error(…)
					return "", nil, fmt.Errorf("convertCondition: default arm does more than log")
				}
			}
			continue
		}
		if len(cl.List) != 1 {
			return "", nil, fmt.Errorf("convertCondition: case with several values")
		}
		name, ok := c14CondName(cl.List[0])
		if !ok {
			return "", nil, fmt.Errorf("convertCondition: case value not a gripql.Condition_*")
		}
		r := row{Cond: name}
		for _, s := range cl.Body {
			if g, ok := c14ListGuard(s); ok && r.Guard == "" && r.Expr == "" {
				r.Guard = g
				continue
			}
			as, ok := s.(*ast.AssignStmt)
			if !ok || len(as.Lhs) != 1 || len(as.Rhs) != 1 || r.Expr != "" {
				return "", nil, fmt.Errorf("convertCondition: case %s: statement not recognised", name)
			}
			if id, ok := as.Lhs[0].(*ast.Ident); !ok || id.Name != "expr" {
				return "", nil, fmt.Errorf("convertCondition: case %s: assignment not to expr", name)
			}
			e, err := c14Render(as.Rhs[0])
			if err != nil {
				return "", nil, fmt.Errorf("convertCondition: case %s: %v", name, err)
			}
			r.Expr = e
		}
		if r.Expr == "" {
			return "", nil, fmt.Errorf("convertCondition: case %s assigns no expr", name)
		}
		rows = append(rows, r)
	}
	if !defaultSeen {
		return "", nil, fmt.Errorf("convertCondition: no default arm")
	}
	// ---- convertHasExpression: the And / Or arms
	junction := map[string][]string{}
	var walk func(n ast.Node) bool
	walk = func(n ast.Node) bool {
		cl, ok := n.(*ast.CaseClause)
		if !ok || len(cl.List) != 1 {
			return true
		}
		st, ok := cl.List[0].(*ast.StarExpr)
		if !ok {
			return true
		}
		sel, ok := st.X.(*ast.SelectorExpr)
		if !ok || (sel.Sel.Name != "HasExpression_And" && sel.Sel.Name != "HasExpression_Or") {
			return true
		}
		which := strings.TrimPrefix(sel.Sel.Name, "HasExpression_")
		// the last statement: if len(xs) == 0 { output = matchNone(…) } else if not { output = bson.M{…} } else { output = bson.M{…} }
		if len(cl.Body) == 0 {
			return true
		}
		is, ok := cl.Body[len(cl.Body)-1].(*ast.IfStmt)
		if !ok {
			junction[which] = []string{"unrecognised"}
			return true
		}
		out := []string{}
		one := func(b *ast.BlockStmt) string {
			if len(b.List) != 1 {
				return "unrecognised"
			}
			as, ok := b.List[0].(*ast.AssignStmt)
			if !ok || len(as.Rhs) != 1 {
				return "unrecognised"
			}
			if m, ok := c14MatchNoneCall(as.Rhs[0]); ok {
				return m
			}
			if cl, ok := as.Rhs[0].(*ast.CompositeLit); ok && len(cl.Elts) == 1 {
				if kv, ok := cl.Elts[0].(*ast.KeyValueExpr); ok {
					if k, err := c14Render(kv.Key); err == nil {
						return k
					}
				}
			}
			return "unrecognised"
		}
		// condition 1: len(xs) == 0
		if be, ok := is.Cond.(*ast.BinaryExpr); !ok || be.Op != token.EQL {
			junction[which] = []string{"unrecognised"}
			return true
		}
		out = append(out, "empty: "+one(is.Body))
		is2, ok := is.Else.(*ast.IfStmt)
		if !ok {
			junction[which] = []string{"unrecognised"}
			return true
		}
		if id, ok := is2.Cond.(*ast.Ident); !ok || id.Name != "not" {
			junction[which] = []string{"unrecognised"}
			return true
		}
		out = append(out, "not: "+one(is2.Body))
		eb, ok := is2.Else.(*ast.BlockStmt)
		if !ok {
			junction[which] = []string{"unrecognised"}
			return true
		}
		out = append(out, "plain: "+one(eb))
		junction[which] = out
		return true
	}
	ast.Inspect(che.Body, walk)
	for _, w := range []string{"And", "Or"} {
		if len(junction[w]) != 3 {
			return "", nil, fmt.Errorf("convertHasExpression: %s arm not recognised (%v)", w, junction[w])
		}
		for _, s := range junction[w] {
			if strings.Contains(s, "unrecognised") {
				return "", nil, fmt.Errorf("convertHasExpression: %s arm: %v", w, junction[w])
			}
		}
	}
	// ---- convertPath: every statement, in order, in source notation (the function is short and
	// every statement of it matters: namespace taken from the ORIGINAL key, GetJSONPath, the "$."
	// prefix stripped, gid renamed to _id, and a key outside the current namespace addressed below
	// "marks.<namespace>.").  Props.C14.filter_path_matches_source compares with the MODEL's reading.
	if cp == nil {
		return "", nil, fmt.Errorf("convertPath not found")
	}
	pathStmts := []string{}
	for _, st := range cp.Body.List {
		var buf bytes.Buffer
		if err := printer.Fprint(&buf, token.NewFileSet(), st); err != nil {
			return "", nil, fmt.Errorf("convertPath: %v", err)
		}
		pathStmts = append(pathStmts, strings.Join(strings.Fields(buf.String()), " "))
	}
	keyUses := 0
	ast.Inspect(cc.Body, func(n ast.Node) bool {
		if call, ok := n.(*ast.CallExpr); ok {
			if id, ok := call.Fun.(*ast.Ident); ok && id.Name == "convertPath" {
				keyUses++
				if len(call.Args) != 1 {
					keyUses += 100
				} else if sel, ok := call.Args[0].(*ast.SelectorExpr); !ok || sel.Sel.Name != "Key" {
					keyUses += 100
				}
			}
		}
		return true
	})
	if keyUses != 1 {
		return "", nil, fmt.Errorf("convertCondition: the field name is not convertPath(cond.Key) exactly once")
	}
	out := "-- GENERATED by tools/extract (c14_filter.go) from mongo/has_evaluator.go; do not edit\n"
	out += "namespace GripGen.MongoFilter\n"
	out += "/-- convertCondition: (condition, guard in front of the operator, operator document) -/\n"
	out += "def ops : List (String × String × String) := [\n"
	for i, r := range rows {
		sep := ","
		if i == len(rows)-1 {
			sep = ""
		}
		out += fmt.Sprintf("  (%s, %s, %s)%s\n", strconv.Quote(r.Cond), strconv.Quote(r.Guard), strconv.Quote(r.Expr), sep)
	}
	out += "]\n"
	out += "/-- convertCondition: how the operator document is wrapped, negated and plain -/\n"
	out += "def wrap : List String := " + c11LeanStrings(tail) + "\n"
	out += "/-- convertHasExpression: the And and the Or arm (no member / negated / plain) -/\n"
	out += "def andArm : List String := " + c11LeanStrings(junction["And"]) + "\n"
	out += "def orArm : List String := " + c11LeanStrings(junction["Or"]) + "\n"
	out += "/-- convertPath: its statements in order -/\n"
	out += "def path : List String := " + c11LeanStrings(pathStmts) + "\n"
	out += "end GripGen.MongoFilter\n"
	facts := map[string]interface{}{"path": pathStmts, "ops": rows, "wrap": tail, "and": junction["And"], "or": junction["Or"]}
	return out, facts, nil
}
