package main

// BuffersC07 — what the C07 theorems are instantiated with, read from the Go source with go/ast:
// every channel capacity on the path of a traveler (pipeline.Run/Resume bufsize, the channels
// inside both/bothE and aggregate, the queryChan of every two-goroutine lookup processor and the
// backend function it calls, the channels inside kvgraph Get*Channel / Get*List and
// gdbi.DualProcessor), and the structural facts the termination/cancellation theorems assume:
//   - does both.Process forward its input in a goroutine of its own and drain the branch outputs
//     concurrently (bothFeedConcurrent / bothDrainConcurrent)?
//   - which processors can leave their input loop early (return / break) — a stage that stops
//     draining blocks its producer for ever;
//   - which processors never close their output;
//   - do Limit/Range cancel the context they hand upstream; do the kvgraph sources poll ctx.Done;
//   - is Manager.Cleanup reached on every path through pipeline.Run/Resume;
//   - does the histogram bucket loop stop when the float64 bucket can no longer advance.
// A shape that is no longer recognisable is an error (table replaced by `extractionFailed`).

import (
	"fmt"
	"go/ast"
	"go/parser"
	"go/token"
	"sort"
	"strconv"
	"strings"
)

func init() { register(Table{Name: "BuffersC07", Gen: genBuffersC07}) }

func c07Parse(x *Ctx, rel string) (*ast.File, error) {
	src, err := x.Read(rel)
	if err != nil {
		return nil, err
	}
	return parser.ParseFile(token.NewFileSet(), rel, src, 0)
}

func c07RecvName(fd *ast.FuncDecl) string {
	if fd.Recv == nil || len(fd.Recv.List) == 0 {
		return ""
	}
	t := fd.Recv.List[0].Type
	if s, ok := t.(*ast.StarExpr); ok {
		t = s.X
	}
	if id, ok := t.(*ast.Ident); ok {
		return id.Name
	}
	return ""
}

func c07Ident(e ast.Expr, name string) bool {
	id, ok := e.(*ast.Ident)
	return ok && id.Name == name
}

// c07ConstEnv: `name := <int literal>` assignments directly in a function body (bufsize := 5000).
func c07ConstEnv(n ast.Node) map[string]int {
	env := map[string]int{}
	ast.Inspect(n, func(m ast.Node) bool {
		if as, ok := m.(*ast.AssignStmt); ok && len(as.Lhs) == 1 && len(as.Rhs) == 1 {
			if id, ok := as.Lhs[0].(*ast.Ident); ok {
				if b, ok := as.Rhs[0].(*ast.BasicLit); ok && b.Kind == token.INT {
					v, _ := strconv.Atoi(b.Value)
					env[id.Name] = v
				}
			}
		}
		return true
	})
	return env
}

type c07Chan struct {
	name string // variable (or indexed variable) the channel is assigned to
	cap  int
}

// c07Chans lists make(chan T, cap) in source order with the assigned variable's name.
func c07Chans(n ast.Node, what string) ([]c07Chan, error) {
	env := c07ConstEnv(n)
	var out []c07Chan
	var err error
	ast.Inspect(n, func(m ast.Node) bool {
		as, ok := m.(*ast.AssignStmt)
		if !ok || len(as.Lhs) != 1 || len(as.Rhs) != 1 {
			return true
		}
		c, ok := as.Rhs[0].(*ast.CallExpr)
		if !ok || !c07Ident(c.Fun, "make") || len(c.Args) < 1 {
			return true
		}
		if _, isChan := c.Args[0].(*ast.ChanType); !isChan {
			return true
		}
		name := ""
		switch l := as.Lhs[0].(type) {
		case *ast.Ident:
			name = l.Name
		case *ast.IndexExpr:
			if id, ok := l.X.(*ast.Ident); ok {
				name = id.Name
			}
		}
		capv := 0
		if len(c.Args) == 2 {
			switch a := c.Args[1].(type) {
			case *ast.BasicLit:
				capv, _ = strconv.Atoi(a.Value)
			case *ast.Ident:
				v, ok := env[a.Name]
				if !ok {
					err = fmt.Errorf("%s: capacity %s of channel %s is not a literal", what, a.Name, name)
				}
				capv = v
			default:
				err = fmt.Errorf("%s: capacity of channel %s is not a literal", what, name)
			}
		}
		out = append(out, c07Chan{name, capv})
		return true
	})
	return out, err
}

// c07LoopExits: does the `for … range <chanName>` loop contain a return, or a break/goto that
// leaves it?  (Nested function literals are other goroutines: not followed.)
func c07LoopExits(body *ast.BlockStmt) bool {
	exits := false
	var walk func(n ast.Node, breakable int)
	walk = func(n ast.Node, depth int) {
		if n == nil || exits {
			return
		}
		switch s := n.(type) {
		case *ast.FuncLit:
			return
		case *ast.ReturnStmt:
			exits = true
			return
		case *ast.BranchStmt:
			if s.Tok == token.GOTO || (s.Tok == token.BREAK && (depth == 0 || s.Label != nil)) {
				exits = true
			}
			return
		case *ast.ForStmt:
			walk(s.Body, depth+1)
			return
		case *ast.RangeStmt:
			walk(s.Body, depth+1)
			return
		case *ast.SwitchStmt:
			walk(s.Body, depth+1)
			return
		case *ast.TypeSwitchStmt:
			walk(s.Body, depth+1)
			return
		case *ast.SelectStmt:
			walk(s.Body, depth+1)
			return
		}
		ast.Inspect(n, func(m ast.Node) bool {
			if m == nil || m == n {
				return true
			}
			walk(m, depth)
			return false
		})
	}
	walk(body, 0)
	return exits
}

// c07Ranges finds `for … := range <ident>` statements below n (not entering nothing special).
func c07Ranges(n ast.Node, over func(ast.Expr) bool) []*ast.RangeStmt {
	var out []*ast.RangeStmt
	ast.Inspect(n, func(m ast.Node) bool {
		if r, ok := m.(*ast.RangeStmt); ok && over(r.X) {
			out = append(out, r)
		}
		return true
	})
	return out
}

// c07FuncLitDepth: number of function literals enclosing target below root (-1: not found).
func c07FuncLitDepth(root ast.Node, target ast.Node) int {
	res := -1
	var walk func(n ast.Node, d int)
	walk = func(n ast.Node, d int) {
		ast.Inspect(n, func(m ast.Node) bool {
			if m == nil || res >= 0 {
				return false
			}
			if m == target {
				res = d
				return false
			}
			if fl, ok := m.(*ast.FuncLit); ok && m != n {
				walk(fl.Body, d+1)
				return false
			}
			return true
		})
	}
	walk(root, 0)
	return res
}

func c07CallsNamed(n ast.Node, sel string) []*ast.CallExpr {
	var out []*ast.CallExpr
	ast.Inspect(n, func(m ast.Node) bool {
		if c, ok := m.(*ast.CallExpr); ok {
			switch f := c.Fun.(type) {
			case *ast.SelectorExpr:
				if f.Sel.Name == sel {
					out = append(out, c)
				}
			case *ast.Ident:
				if f.Name == sel {
					out = append(out, c)
				}
			}
		}
		return true
	})
	return out
}

func leanNatList(xs []int) string {
	s := make([]string, len(xs))
	for i, v := range xs {
		s[i] = strconv.Itoa(v)
	}
	return "[" + strings.Join(s, ", ") + "]"
}


func genBuffersC07(x *Ctx) (string, interface{}, error) {
	facts := map[string]interface{}{}
	var b strings.Builder
	b.WriteString("-- GENERATED by tools/extract (c07_buffers.go) from engine/pipeline/pipes.go, engine/core/processors.go,\n")
	b.WriteString("-- kvgraph/graph.go, gdbi/processor.go; do not edit\n")
	b.WriteString("namespace GripGen.BuffersC07\n\n")

	// ---- pipeline.Run / Resume ----
	pipes, err := c07Parse(x, "engine/pipeline/pipes.go")
	if err != nil {
		return "", nil, err
	}
	for _, fn := range []string{"Run", "Resume"} {
		var fd *ast.FuncDecl
		for _, d := range pipes.Decls {
			if f, ok := d.(*ast.FuncDecl); ok && f.Name.Name == fn && f.Recv == nil {
				fd = f
			}
		}
		if fd == nil {
			return "", nil, fmt.Errorf("pipeline.%s not found", fn)
		}
		env := c07ConstEnv(fd)
		bs, ok := env["bufsize"]
		if !ok {
			return "", nil, fmt.Errorf("pipeline.%s: `bufsize := <literal>` not found", fn)
		}
		// Start(ctx, pipe, man, bufsize, …) must receive that variable
		starts := c07CallsNamed(fd, "Start")
		if len(starts) != 1 || len(starts[0].Args) < 4 || !c07Ident(starts[0].Args[3], "bufsize") {
			return "", nil, fmt.Errorf("pipeline.%s: call Start(ctx, pipe, man, bufsize, …) not recognised", fn)
		}
		chans, err := c07Chans(fd, "pipeline."+fn)
		if err != nil {
			return "", nil, err
		}
		if len(chans) != 1 || chans[0].name != "resch" {
			return "", nil, fmt.Errorf("pipeline.%s: expected exactly the result channel resch", fn)
		}
		// cleanup: man.Cleanup() after the range loop (or deferred) and no early exit from the loop
		loops := c07Ranges(fd, func(e ast.Expr) bool {
			c, ok := e.(*ast.CallExpr)
			return ok && c07Ident(c.Fun, "Start")
		})
		if len(loops) != 1 {
			return "", nil, fmt.Errorf("pipeline.%s: `for t := range Start(…)` not recognised", fn)
		}
		exits := c07LoopExits(loops[0].Body)
		cleanup := "missing"
		closeDeferred := false
		ast.Inspect(fd, func(m ast.Node) bool {
			if fl, ok := m.(*ast.FuncLit); ok {
				for i, st := range fl.Body.List {
					if ds, ok := st.(*ast.DeferStmt); ok {
						if sel, ok := ds.Call.Fun.(*ast.SelectorExpr); ok && sel.Sel.Name == "Cleanup" {
							cleanup = "deferred"
						}
						if c07Ident(ds.Call.Fun, "close") && len(ds.Call.Args) == 1 && c07Ident(ds.Call.Args[0], "resch") {
							closeDeferred = true
						}
					}
					if es, ok := st.(*ast.ExprStmt); ok && cleanup == "missing" {
						if c, ok := es.X.(*ast.CallExpr); ok {
							if sel, ok := c.Fun.(*ast.SelectorExpr); ok && sel.Sel.Name == "Cleanup" {
								// must come after the loop, at the top level of the goroutine body
								after := false
								for j := 0; j < i; j++ {
									if fl.Body.List[j] == ast.Stmt(loops[0]) {
										after = true
									}
								}
								if after {
									cleanup = "after-loop"
								}
							}
						}
					}
				}
			}
			return true
		})
		lc := strings.ToLower(fn)
		fmt.Fprintf(&b, "def %sBufsize : Nat := %d\n", lc, bs)
		fmt.Fprintf(&b, "def %sResultChan : Nat := %d\n", lc, chans[0].cap)
		fmt.Fprintf(&b, "/-- does the result loop of pipeline.%s contain a return/break? -/\ndef %sLoopExits : Bool := %s\n", fn, lc, leanBool(exits))
		fmt.Fprintf(&b, "/-- where Manager.Cleanup is called in pipeline.%s: \"after-loop\" | \"deferred\" | \"missing\" -/\ndef %sCleanup : String := %s\n", fn, lc, leanStr(cleanup))
		fmt.Fprintf(&b, "def %sCloseDeferred : Bool := %s\n\n", lc, leanBool(closeDeferred))
		facts[lc] = map[string]interface{}{"bufsize": bs, "resch": chans[0].cap, "loopExits": exits, "cleanup": cleanup, "closeDeferred": closeDeferred}
	}

	// ---- engine/core/processors.go ----
	procs, err := c07Parse(x, "engine/core/processors.go")
	if err != nil {
		return "", nil, err
	}
	type lookup struct {
		name, backend string
		cap           int
	}
	var lookups []lookup
	var earlyExit, noClose, allProcs []string
	limitCancels, rangeCancels := false, false
	var bothFd, aggFd *ast.FuncDecl
	for _, d := range procs.Decls {
		fd, ok := d.(*ast.FuncDecl)
		if !ok || fd.Name.Name != "Process" || fd.Body == nil {
			continue
		}
		name := c07RecvName(fd)
		allProcs = append(allProcs, name)
		if name == "both" {
			bothFd = fd
		}
		if name == "aggregate" {
			aggFd = fd
		}
		// closes its output?
		closes := false
		for _, c := range c07CallsNamed(fd, "close") {
			if len(c.Args) == 1 && c07Ident(c.Args[0], "out") {
				closes = true
			}
		}
		if !closes {
			noClose = append(noClose, name)
		}
		// every loop over a channel this processor must drain: in, queryChan, chanOut[i], aChans[..]
		for _, r := range c07Ranges(fd, func(e ast.Expr) bool {
			if c07Ident(e, "in") || c07Ident(e, "queryChan") {
				return true
			}
			if ix, ok := e.(*ast.IndexExpr); ok {
				return c07Ident(ix.X, "chanOut") || c07Ident(ix.X, "aChans")
			}
			if c, ok := e.(*ast.CallExpr); ok { // range l.db.GetXxx(ctx, queryChan, …)
				if sel, ok := c.Fun.(*ast.SelectorExpr); ok {
					return strings.HasPrefix(sel.Sel.Name, "Get")
				}
			}
			return false
		}) {
			if c07LoopExits(r.Body) {
				earlyExit = append(earlyExit, name)
				break
			}
		}
		if len(c07Ranges(fd, func(e ast.Expr) bool { return c07Ident(e, "in") })) != 1 {
			return "", nil, fmt.Errorf("%s.Process: expected exactly one `for t := range in`", name)
		}
		chans, err := c07Chans(fd, name+".Process")
		if err != nil {
			return "", nil, err
		}
		for _, ch := range chans {
			if ch.name == "queryChan" {
				backend := ""
				ast.Inspect(fd, func(m ast.Node) bool {
					if c, ok := m.(*ast.CallExpr); ok {
						if sel, ok := c.Fun.(*ast.SelectorExpr); ok && strings.HasPrefix(sel.Sel.Name, "Get") && strings.HasSuffix(sel.Sel.Name, "Channel") {
							for _, a := range c.Args {
								if c07Ident(a, "queryChan") {
									backend = sel.Sel.Name
								}
							}
						}
					}
					return true
				})
				if backend == "" {
					return "", nil, fmt.Errorf("%s.Process: queryChan is not passed to a db.Get*Channel call", name)
				}
				lookups = append(lookups, lookup{name, backend, ch.cap})
			}
		}
		if name == "Limit" || name == "Range" {
			// newCtx, cancel := context.WithCancel(ctx); … cancel() …; return newCtx
			hasWith := len(c07CallsNamed(fd, "WithCancel")) == 1
			hasCancel := len(c07CallsNamed(fd, "cancel")) >= 1
			retNew := false
			for _, st := range fd.Body.List {
				if r, ok := st.(*ast.ReturnStmt); ok && len(r.Results) == 1 && c07Ident(r.Results[0], "newCtx") {
					retNew = true
				}
			}
			ok := hasWith && hasCancel && retNew
			if name == "Limit" {
				limitCancels = ok
			} else {
				rangeCancels = ok
			}
		}
	}
	if bothFd == nil || aggFd == nil {
		return "", nil, fmt.Errorf("both.Process / aggregate.Process not found")
	}
	sort.Strings(earlyExit)
	sort.Strings(noClose)

	// both: chanIn / chanOut capacities, branch processor sets, concurrency structure
	bchans, err := c07Chans(bothFd, "both.Process")
	if err != nil {
		return "", nil, err
	}
	bIn, bOut := -1, -1
	for _, ch := range bchans {
		switch ch.name {
		case "chanIn":
			bIn = ch.cap
		case "chanOut":
			bOut = ch.cap
		}
	}
	if bIn < 0 || bOut < 0 {
		return "", nil, fmt.Errorf("both.Process: chanIn[i]/chanOut[i] = make(chan …, N) not recognised")
	}
	var branchSets [][]string
	ast.Inspect(bothFd, func(m ast.Node) bool {
		as, ok := m.(*ast.AssignStmt)
		if !ok || len(as.Lhs) != 1 || !c07Ident(as.Lhs[0], "procs") || len(as.Rhs) != 1 {
			return true
		}
		cl, ok := as.Rhs[0].(*ast.CompositeLit)
		if !ok {
			return true
		}
		var set []string
		for _, e := range cl.Elts {
			if u, ok := e.(*ast.UnaryExpr); ok {
				if c, ok := u.X.(*ast.CompositeLit); ok {
					if id, ok := c.Type.(*ast.Ident); ok {
						set = append(set, id.Name)
					}
				}
			}
		}
		branchSets = append(branchSets, set)
		return true
	})
	if len(branchSets) == 0 {
		return "", nil, fmt.Errorf("both.Process: `procs = []gdbi.Processor{…}` not recognised")
	}
	inLoops := c07Ranges(bothFd, func(e ast.Expr) bool { return c07Ident(e, "in") })
	feedDepth := c07FuncLitDepth(bothFd.Body, inLoops[0])
	feedConcurrent := feedDepth >= 2
	// every branch output other than the one the main goroutine forwards must be drained by a goroutine
	outLoops := c07Ranges(bothFd, func(e ast.Expr) bool {
		ix, ok := e.(*ast.IndexExpr)
		return ok && c07Ident(ix.X, "chanOut")
	})
	if len(outLoops) == 0 {
		return "", nil, fmt.Errorf("both.Process: `for c := range chanOut[i]` not recognised")
	}
	drainConcurrent := false
	for _, l := range outLoops {
		if c07FuncLitDepth(bothFd.Body, l) >= 2 {
			drainConcurrent = true
		}
	}
	fmt.Fprintf(&b, "def bothChanIn : Nat := %d\ndef bothChanOut : Nat := %d\n", bIn, bOut)
	fmt.Fprintf(&b, "/-- both.Process forwards its input from a goroutine of its own -/\ndef bothFeedConcurrent : Bool := %s\n", leanBool(feedConcurrent))
	fmt.Fprintf(&b, "/-- both.Process drains branch outputs in goroutines of their own while the first is forwarded -/\ndef bothDrainConcurrent : Bool := %s\n", leanBool(drainConcurrent))
	b.WriteString("def bothBranchSets : List (List String) := [")
	for i, s := range branchSets {
		if i > 0 {
			b.WriteString(", ")
		}
		b.WriteString(leanStrList(s))
	}
	b.WriteString("]\n\n")

	achans, err := c07Chans(aggFd, "aggregate.Process")
	if err != nil {
		return "", nil, err
	}
	aggCap := -1
	for _, ch := range achans {
		if ch.name == "aChans" {
			aggCap = ch.cap
		}
	}
	if aggCap < 0 {
		return "", nil, fmt.Errorf("aggregate.Process: aChans[..] = make(chan …, bufferSize) not recognised")
	}
	fmt.Fprintf(&b, "def aggBuffer : Nat := %d\n\n", aggCap)

	b.WriteString("/-- two-goroutine lookup processors: (processor, capacity of queryChan, backend function fed by it) -/\n")
	b.WriteString("def lookups : List (String × Nat × String) := [")
	for i, l := range lookups {
		if i > 0 {
			b.WriteString(", ")
		}
		fmt.Fprintf(&b, "(%s, %d, %s)", leanStr(l.name), l.cap, leanStr(l.backend))
	}
	b.WriteString("]\n")
	fmt.Fprintf(&b, "/-- processors whose loop over a channel they must drain contains return/break -/\ndef earlyExitProcessors : List String := %s\n", leanStrList(earlyExit))
	fmt.Fprintf(&b, "/-- processors that never close(out) -/\ndef processorsNotClosingOut : List String := %s\n", leanStrList(noClose))
	fmt.Fprintf(&b, "def processorCount : Nat := %d\n", len(allProcs))
	fmt.Fprintf(&b, "def limitCancels : Bool := %s\ndef rangeCancels : Bool := %s\n\n", leanBool(limitCancels), leanBool(rangeCancels))

	// ---- the histogram bucket loop: `for bucket := …; bucket <= max; bucket += i { … }` ----
	histLoops, guard := 0, false
	ast.Inspect(aggFd, func(m ast.Node) bool {
		fs, ok := m.(*ast.ForStmt)
		if !ok || fs.Init == nil {
			return true
		}
		as, ok := fs.Init.(*ast.AssignStmt)
		if !ok || len(as.Lhs) != 1 || !c07Ident(as.Lhs[0], "bucket") {
			return true
		}
		cond, ok := fs.Cond.(*ast.BinaryExpr)
		post, ok2 := fs.Post.(*ast.AssignStmt)
		if !ok || !ok2 || cond.Op != token.LEQ || !c07Ident(cond.X, "bucket") || post.Tok != token.ADD_ASSIGN || !c07Ident(post.Lhs[0], "bucket") {
			histLoops += 100
			return true
		}
		histLoops++
		// guard: `if bucket+i <= bucket { break }` directly in the loop body
		for _, st := range fs.Body.List {
			is, ok := st.(*ast.IfStmt)
			if !ok {
				continue
			}
			c, ok := is.Cond.(*ast.BinaryExpr)
			if !ok || (c.Op != token.LEQ && c.Op != token.EQL) || !c07Ident(c.Y, "bucket") {
				continue
			}
			sum, ok := c.X.(*ast.BinaryExpr)
			if !ok || sum.Op != token.ADD || !c07Ident(sum.X, "bucket") || !c07Ident(sum.Y, "i") {
				continue
			}
			for _, b := range is.Body.List {
				if br, ok := b.(*ast.BranchStmt); ok && br.Tok == token.BREAK {
					guard = true
				}
			}
		}
		return true
	})
	if histLoops != 1 {
		return "", nil, fmt.Errorf("aggregate.Process: histogram loop `for bucket := …; bucket <= max; bucket += i` not recognised (%d)", histLoops)
	}
	fmt.Fprintf(&b, "/-- the histogram bucket loop leaves when bucket+i <= bucket (the float64 cannot advance) -/\ndef histogramAdvanceGuard : Bool := %s\n\n", leanBool(guard))

	// ---- kvgraph/graph.go ----
	kvg, err := c07Parse(x, "kvgraph/graph.go")
	if err != nil {
		return "", nil, err
	}
	type backend struct {
		name string
		caps []int
	}
	var backends []backend
	srcCtx := map[string]bool{}
	backendEarly := []string{}
	for _, d := range kvg.Decls {
		fd, ok := d.(*ast.FuncDecl)
		if !ok || fd.Body == nil || fd.Recv == nil {
			continue
		}
		n := fd.Name.Name
		isChan := strings.HasPrefix(n, "Get") && strings.HasSuffix(n, "Channel")
		isList := n == "GetVertexList" || n == "GetEdgeList"
		if !isChan && !isList {
			continue
		}
		chans, err := c07Chans(fd, "kvgraph."+n)
		if err != nil {
			return "", nil, err
		}
		caps := []int{}
		for _, c := range chans {
			caps = append(caps, c.cap)
		}
		if len(caps) == 0 {
			return "", nil, fmt.Errorf("kvgraph.%s: no channel found", n)
		}
		backends = append(backends, backend{n, caps})
		if isList {
			// select { case <-ctx.Done(): return nil; default: } inside the scan loop
			found := false
			ast.Inspect(fd, func(m ast.Node) bool {
				if cc, ok := m.(*ast.CommClause); ok && cc.Comm != nil {
					if es, ok := cc.Comm.(*ast.ExprStmt); ok {
						if u, ok := es.X.(*ast.UnaryExpr); ok && u.Op == token.ARROW {
							if c, ok := u.X.(*ast.CallExpr); ok {
								if s, ok := c.Fun.(*ast.SelectorExpr); ok && s.Sel.Name == "Done" && c07Ident(s.X, "ctx") {
									for _, st := range cc.Body {
										if _, ok := st.(*ast.ReturnStmt); ok {
											found = true
										}
									}
								}
							}
						}
					}
				}
				return true
			})
			srcCtx[n] = found
		} else {
			// request loops must drain their input: no return/break inside `for req := range <chan>`
			for _, r := range c07Ranges(fd, func(e ast.Expr) bool {
				id, ok := e.(*ast.Ident)
				return ok && (id.Name == "reqChan" || id.Name == "ids" || id.Name == "data" || id.Name == "vertexChan")
			}) {
				if c07LoopExits(r.Body) {
					backendEarly = append(backendEarly, n)
					break
				}
			}
		}
	}
	sort.Slice(backends, func(i, j int) bool { return backends[i].name < backends[j].name })
	b.WriteString("/-- kvgraph: channels created inside each streaming function, in pipeline order -/\n")
	b.WriteString("def backendChans : List (String × List Nat) := [")
	for i, be := range backends {
		if i > 0 {
			b.WriteString(", ")
		}
		fmt.Fprintf(&b, "(%s, %s)", leanStr(be.name), leanNatList(be.caps))
	}
	b.WriteString("]\n")
	for _, n := range []string{"GetVertexList", "GetEdgeList"} {
		v, ok := srcCtx[n]
		if !ok {
			return "", nil, fmt.Errorf("kvgraph.%s not found", n)
		}
		fmt.Fprintf(&b, "/-- kvgraph.%s leaves its scan when ctx is done -/\ndef %sChecksCtx : Bool := %s\n", n, strings.ToLower(n[:1])+n[1:], leanBool(v))
	}
	sort.Strings(backendEarly)
	fmt.Fprintf(&b, "def backendEarlyExit : List String := %s\n\n", leanStrList(backendEarly))

	// ---- gdbi/processor.go ----
	gp, err := c07Parse(x, "gdbi/processor.go")
	if err != nil {
		return "", nil, err
	}
	for _, d := range gp.Decls {
		fd, ok := d.(*ast.FuncDecl)
		if !ok || fd.Body == nil || (fd.Name.Name != "DualProcessor" && fd.Name.Name != "LookupBatcher") {
			continue
		}
		chans, err := c07Chans(fd, "gdbi."+fd.Name.Name)
		if err != nil {
			return "", nil, err
		}
		caps := []int{}
		for _, c := range chans {
			caps = append(caps, c.cap)
		}
		fmt.Fprintf(&b, "def %sChans : List Nat := %s\n", strings.ToLower(fd.Name.Name[:1])+fd.Name.Name[1:], leanNatList(caps))
		facts[fd.Name.Name] = caps
	}
	b.WriteString("\ndef extractionFailed : Bool := false\n")
	b.WriteString("\nend GripGen.BuffersC07\n")

	facts["both"] = map[string]interface{}{"chanIn": bIn, "chanOut": bOut, "feedConcurrent": feedConcurrent, "drainConcurrent": drainConcurrent, "branchSets": branchSets}
	facts["aggBuffer"] = aggCap
	lk := map[string]interface{}{}
	for _, l := range lookups {
		lk[l.name] = map[string]interface{}{"cap": l.cap, "backend": l.backend}
	}
	facts["lookups"] = lk
	bk := map[string]interface{}{}
	for _, be := range backends {
		bk[be.name] = be.caps
	}
	facts["backends"] = bk
	facts["earlyExit"] = earlyExit
	facts["notClosingOut"] = noClose
	facts["histogramAdvanceGuard"] = guard
	return b.String(), facts, nil
}
