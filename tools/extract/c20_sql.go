// c20_sql.go — translator for property C20: every way psql/ and existing-sql/ build the text
// handed to database/sql (Exec/Query*/Prepare/Get/Select/NamedExec…), as a table of templates
// (lean/GripGen/SqlSites.lean).  go/ast only, no type information: the recognised shapes are
//
//   text      := "lit" | text + text | fmt.Sprintf("fmt", arg…) | strings.Join(list, "sep") | local variable
//   variable  := assignments before the use; one in an enclosing block replaces, one in a nested
//                block (if / case) adds a variant; an assignment mentioning the variable extends
//   argument  := parameter of the entry point (client) · receiver field / same-package lookup /
//                constant (server) · strings.SplitN / strings.Replace / [i] / .ID of those
//   list      := append(list, elem) / list[i] = elem
//   callee    := a same-package function containing sites is inlined into its caller
//   wrapper   := a same-package function whose body is `q + strings.Replace(All)(x, q, qq) + q`
//                (q = "'" → quoteLit, q = `"` → quoteIdent) or pq.QuoteLiteral / pq.QuoteIdentifier
//
// Anything else that reaches a database call fails the extraction loudly.
package main

import (
	"crypto/sha256"
	"encoding/hex"
	"fmt"
	"go/ast"
	"go/parser"
	"go/token"
	"os"
	"path/filepath"
	"sort"
	"strconv"
	"strings"
)

func init() { register(Table{Name: "SqlSites", Gen: genSqlSites}) }

// ---------- output structures ----------

type c20Expr struct {
	Op       string   `json:"op"` // param elem splitN replace opaque
	Name     string   `json:"name,omitempty"`
	E        *c20Expr `json:"e,omitempty"`
	A, B     string   `json:",omitempty"`
	N, Idx   int      `json:",omitempty"`
}

type c20Piece struct {
	Kind string     `json:"kind"` // lit srv cli list
	Lit  string     `json:"lit,omitempty"`
	Name string     `json:"name,omitempty"`
	Src  string     `json:"src,omitempty"`
	Wrap string     `json:"wrap,omitempty"`
	Expr *c20Expr   `json:"expr,omitempty"`
	Sep  string     `json:"sep,omitempty"`
	Elem []c20Piece `json:"elem,omitempty"`
}

type c20Site struct {
	ID     string     `json:"id"`
	Drv    string     `json:"drv"`
	File   string     `json:"file"`
	Fn     string     `json:"fn"`
	Via    string     `json:"via"`
	Call   string     `json:"call"`
	Tmpl   string     `json:"tmpl"`
	Pieces []c20Piece `json:"pieces"`
	Bound  []string   `json:"bound"`
	Line   int        `json:"line"`
}

var c20DBMethods = map[string]int{ // method → index of the SQL text argument (before ctx shift)
	"Exec": 0, "MustExec": 0, "Query": 0, "QueryRow": 0, "Queryx": 0, "QueryRowx": 0, "Prepare": 0, "Preparex": 0,
	"NamedExec": 0, "NamedQuery": 0, "PrepareNamed": 0, "Get": 1, "Select": 1,
	"ExecContext": 1, "MustExecContext": 1, "QueryContext": 1, "QueryRowContext": 1, "QueryxContext": 1, "QueryRowxContext": 1,
	"PrepareContext": 1, "PreparexContext": 1, "NamedExecContext": 1, "NamedQueryContext": 1, "PrepareNamedContext": 1,
	"GetContext": 2, "SelectContext": 2,
}

// receivers that are database handles (last path element) / known not to be
var c20Handles = map[string]bool{"db": true, "txn": true, "tx": true, "conn": true}
var c20NotHandles = map[string]bool{"ts": true}

// ---------- package model ----------

type c20Func struct {
	decl *ast.FuncDecl
	file string
	recv string // receiver type name ("" for functions)
	name string
}

type c20Pkg struct {
	dir, drv string
	fset     *token.FileSet
	funcs    []*c20Func
	byName   map[string][]*c20Func
	hasSites map[*c20Func]bool
	wrappers map[string]string // function name → quoteLit | quoteIdent
	inlined  map[*c20Func]bool
}

func (f *c20Func) full() string {
	if f.recv != "" {
		return f.recv + "." + f.name
	}
	return f.name
}

func c20LoadPkg(x *Ctx, dir, drv string) (*c20Pkg, error) {
	p := &c20Pkg{dir: dir, drv: drv, fset: token.NewFileSet(), byName: map[string][]*c20Func{}, hasSites: map[*c20Func]bool{},
		wrappers: map[string]string{}, inlined: map[*c20Func]bool{}}
	ents, err := os.ReadDir(filepath.Join(x.Repo, dir))
	if err != nil {
		return nil, err
	}
	for _, e := range ents {
		n := e.Name()
		if !strings.HasSuffix(n, ".go") || strings.HasSuffix(n, "_test.go") || strings.HasSuffix(n, "_verif.go") {
			continue
		}
		rel := filepath.Join(dir, n)
		src, err := x.Read(rel)
		if err != nil {
			return nil, err
		}
		f, err := parser.ParseFile(p.fset, rel, src, 0)
		if err != nil {
			return nil, err
		}
		for _, d := range f.Decls {
			fd, ok := d.(*ast.FuncDecl)
			if !ok || fd.Body == nil {
				continue
			}
			cf := &c20Func{decl: fd, file: rel, name: fd.Name.Name}
			if fd.Recv != nil && len(fd.Recv.List) == 1 {
				t := fd.Recv.List[0].Type
				if st, ok := t.(*ast.StarExpr); ok {
					t = st.X
				}
				if id, ok := t.(*ast.Ident); ok {
					cf.recv = id.Name
				}
			}
			p.funcs = append(p.funcs, cf)
			p.byName[cf.name] = append(p.byName[cf.name], cf)
		}
	}
	// quoting wrappers
	for _, f := range p.funcs {
		if w := c20WrapperKind(f.decl); w != "" {
			p.wrappers[f.name] = w
		}
	}
	// which functions contain database calls (directly)
	for _, f := range p.funcs {
		ast.Inspect(f.decl.Body, func(n ast.Node) bool {
			if ce, ok := n.(*ast.CallExpr); ok {
				if _, _, ok := c20IsDBCall(ce); ok {
					p.hasSites[f] = true
				}
			}
			return true
		})
	}
	// transitive closure over same-package calls
	for changed := true; changed; {
		changed = false
		for _, f := range p.funcs {
			if p.hasSites[f] {
				continue
			}
			ast.Inspect(f.decl.Body, func(n ast.Node) bool {
				if ce, ok := n.(*ast.CallExpr); ok {
					if g := p.callee(ce, f); g != nil && p.hasSites[g] && !p.hasSites[f] {
						p.hasSites[f] = true
						changed = true
					}
				}
				return true
			})
		}
	}
	return p, nil
}

// c20WrapperKind recognises  func f(s string) string { return q + strings.Replace[All](s, q, qq[, -1]) + q }.
func c20WrapperKind(fd *ast.FuncDecl) string {
	if fd.Type.Params == nil || len(fd.Type.Params.List) != 1 || len(fd.Type.Params.List[0].Names) != 1 || len(fd.Body.List) != 1 {
		return ""
	}
	pn := fd.Type.Params.List[0].Names[0].Name
	rs, ok := fd.Body.List[0].(*ast.ReturnStmt)
	if !ok || len(rs.Results) != 1 {
		return ""
	}
	var parts []ast.Expr
	var flat func(e ast.Expr)
	flat = func(e ast.Expr) {
		if pe, ok := e.(*ast.ParenExpr); ok {
			flat(pe.X)
			return
		}
		if be, ok := e.(*ast.BinaryExpr); ok && be.Op == token.ADD {
			flat(be.X)
			flat(be.Y)
			return
		}
		parts = append(parts, e)
	}
	flat(rs.Results[0])
	if len(parts) != 3 {
		return ""
	}
	q1, ok1 := c20StrLit(parts[0])
	q2, ok2 := c20StrLit(parts[2])
	ce, ok3 := parts[1].(*ast.CallExpr)
	if !ok1 || !ok2 || !ok3 || q1 != q2 || (q1 != "'" && q1 != `"`) {
		return ""
	}
	fn := c20CallName(ce)
	if !((fn == "strings.ReplaceAll" && len(ce.Args) == 3) || (fn == "strings.Replace" && len(ce.Args) == 4)) {
		return ""
	}
	if id, ok := ce.Args[0].(*ast.Ident); !ok || id.Name != pn {
		return ""
	}
	o, oka := c20StrLit(ce.Args[1])
	nw, okb := c20StrLit(ce.Args[2])
	if !oka || !okb || o != q1 || nw != q1+q1 {
		return ""
	}
	if fn == "strings.Replace" {
		if c20Text(ce.Args[3]) != "-1" {
			return ""
		}
	}
	if q1 == "'" {
		return "quoteLit"
	}
	return "quoteIdent"
}

func c20StrLit(e ast.Expr) (string, bool) {
	bl, ok := e.(*ast.BasicLit)
	if !ok || bl.Kind != token.STRING {
		return "", false
	}
	s, err := strconv.Unquote(bl.Value)
	if err != nil {
		return "", false
	}
	return s, true
}

func c20CallName(ce *ast.CallExpr) string {
	switch f := ce.Fun.(type) {
	case *ast.Ident:
		return f.Name
	case *ast.SelectorExpr:
		if id, ok := f.X.(*ast.Ident); ok {
			return id.Name + "." + f.Sel.Name
		}
		return "?." + f.Sel.Name
	}
	return ""
}

func c20Text(e ast.Expr) string {
	switch v := e.(type) {
	case *ast.Ident:
		return v.Name
	case *ast.BasicLit:
		return v.Value
	case *ast.SelectorExpr:
		return c20Text(v.X) + "." + v.Sel.Name
	case *ast.IndexExpr:
		return c20Text(v.X) + "[" + c20Text(v.Index) + "]"
	case *ast.CallExpr:
		as := []string{}
		for _, a := range v.Args {
			as = append(as, c20Text(a))
		}
		return c20Text(v.Fun) + "(" + strings.Join(as, ", ") + ")"
	case *ast.UnaryExpr:
		return v.Op.String() + c20Text(v.X)
	case *ast.BinaryExpr:
		return c20Text(v.X) + v.Op.String() + c20Text(v.Y)
	case *ast.StarExpr:
		return "*" + c20Text(v.X)
	case *ast.ParenExpr:
		return "(" + c20Text(v.X) + ")"
	}
	return fmt.Sprintf("<%T>", e)
}

// c20IsDBCall: is this a call of a database/sql(x) method on a handle? returns method, sql arg index.
func c20IsDBCall(ce *ast.CallExpr) (string, int, bool) {
	se, ok := ce.Fun.(*ast.SelectorExpr)
	if !ok {
		return "", 0, false
	}
	idx, ok := c20DBMethods[se.Sel.Name]
	if !ok {
		return "", 0, false
	}
	last := ""
	switch r := se.X.(type) {
	case *ast.Ident:
		last = r.Name
	case *ast.SelectorExpr:
		last = r.Sel.Name
	default:
		return "", 0, false
	}
	if c20NotHandles[last] {
		return "", 0, false
	}
	if !c20Handles[last] {
		return "", 0, false // prepared statements (stmt.Exec) and unknown receivers are looked at separately
	}
	if len(ce.Args) <= idx {
		return "", 0, false
	}
	return se.Sel.Name, idx, true
}

// callee resolves a same-package call (by name, receiver type when it is the caller's receiver, arity).
func (p *c20Pkg) callee(ce *ast.CallExpr, from *c20Func) *c20Func {
	var name string
	onRecv := false
	switch f := ce.Fun.(type) {
	case *ast.Ident:
		name = f.Name
	case *ast.SelectorExpr:
		name = f.Sel.Name
		if id, ok := f.X.(*ast.Ident); ok && from.decl.Recv != nil && len(from.decl.Recv.List[0].Names) == 1 && id.Name == from.decl.Recv.List[0].Names[0].Name {
			onRecv = true
		}
		if _, _, ok := c20IsDBCall(ce); ok {
			return nil
		}
	default:
		return nil
	}
	var cands []*c20Func
	for _, g := range p.byName[name] {
		np := 0
		if g.decl.Type.Params != nil {
			for _, f := range g.decl.Type.Params.List {
				if len(f.Names) == 0 {
					np++
				}
				np += len(f.Names)
			}
		}
		if np != len(ce.Args) {
			continue
		}
		if _, isIdent := ce.Fun.(*ast.Ident); isIdent != (g.recv == "") {
			continue
		}
		if onRecv && g.recv != from.recv {
			continue
		}
		cands = append(cands, g)
	}
	if len(cands) == 1 {
		return cands[0]
	}
	// prefer the candidate that has sites when ambiguous
	var withSites []*c20Func
	for _, g := range cands {
		if p.hasSites[g] {
			withSites = append(withSites, g)
		}
	}
	if len(withSites) == 1 {
		return withSites[0]
	}
	return nil
}

// ---------- per-function analysis ----------

type c20Assign struct {
	pos    token.Pos
	node   ast.Node
	define bool
	rhs    ast.Expr // nil for range/other
	scope  ast.Node
	// range information
	rangeOf   ast.Expr
	rangeKey  bool
	rangeSingle bool
	indexLHS  ast.Expr // batches[K] = … : K
	appendArg ast.Expr // X = append(X, E) or X[i] = E : E
}

type c20Fn struct {
	p       *c20Pkg
	f       *c20Func
	root    *c20Func
	parent  map[ast.Node]ast.Node
	assigns map[string][]*c20Assign
	params  map[string]string // name → "string" | "strlist" | "agg" | "other"
	recvVar string
	subst   map[string][]c20Piece // inlined callee: parameter → caller's pieces
	substV  map[string]*c20Val    // inlined callee: parameter → caller's value (non-text use)
	valid   map[string]bool
	depth   int
}

type c20Val struct {
	kind string // str list agg aggelem split srv none
	ex   *c20Expr
	src  string
	name string // list / param name
	sep  string
	n    int
}

func c20IsScope(n ast.Node) bool {
	switch n.(type) {
	case *ast.BlockStmt, *ast.CaseClause, *ast.CommClause:
		return true
	}
	return false
}

func (p *c20Pkg) newFn(f, root *c20Func, depth int) *c20Fn {
	c := &c20Fn{p: p, f: f, root: root, parent: map[ast.Node]ast.Node{}, assigns: map[string][]*c20Assign{}, params: map[string]string{},
		valid: map[string]bool{}, depth: depth}
	if f.decl.Recv != nil && len(f.decl.Recv.List) == 1 && len(f.decl.Recv.List[0].Names) == 1 {
		c.recvVar = f.decl.Recv.List[0].Names[0].Name
	}
	if f.decl.Type.Params != nil {
		for _, fl := range f.decl.Type.Params.List {
			t := c20Text(fl.Type)
			k := "other"
			switch {
			case t == "string":
				k = "string"
			case strings.HasPrefix(t, "<*ast.ArrayType>"):
				k = "agg"
			}
			if at, ok := fl.Type.(*ast.ArrayType); ok {
				if id, ok := at.Elt.(*ast.Ident); ok && id.Name == "string" {
					k = "strlist"
				} else {
					k = "agg"
				}
			}
			if _, ok := fl.Type.(*ast.ChanType); ok {
				k = "agg"
			}
			if t == "bool" || t == "context.Context" || strings.HasPrefix(t, "uint") || strings.HasPrefix(t, "int") {
				k = "other"
			}
			for _, n := range fl.Names {
				c.params[n.Name] = k
			}
		}
	}
	var stack []ast.Node
	ast.Inspect(f.decl.Body, func(n ast.Node) bool {
		if n == nil {
			stack = stack[:len(stack)-1]
			return true
		}
		if len(stack) > 0 {
			c.parent[n] = stack[len(stack)-1]
		} else {
			c.parent[n] = f.decl
		}
		stack = append(stack, n)
		return true
	})
	ast.Inspect(f.decl.Body, func(n ast.Node) bool {
		switch s := n.(type) {
		case *ast.AssignStmt:
			for i, l := range s.Lhs {
				var rhs ast.Expr
				if len(s.Rhs) == len(s.Lhs) {
					rhs = s.Rhs[i]
				} else if len(s.Rhs) == 1 {
					rhs = s.Rhs[0]
				}
				switch lv := l.(type) {
				case *ast.Ident:
					if lv.Name == "_" {
						continue
					}
					if rid, ok := rhs.(*ast.Ident); ok && rid.Name == lv.Name {
						continue // label := label
					}
					a := &c20Assign{pos: s.Pos(), node: s, define: s.Tok == token.DEFINE, rhs: rhs, scope: c.scopeOf(s)}
					if ce, ok := rhs.(*ast.CallExpr); ok && c20CallName(ce) == "append" && len(ce.Args) >= 2 {
						a.appendArg = ce.Args[1]
					}
					c.assigns[lv.Name] = append(c.assigns[lv.Name], a)
				case *ast.IndexExpr:
					if id, ok := lv.X.(*ast.Ident); ok {
						a := &c20Assign{pos: s.Pos(), node: s, rhs: nil, scope: c.scopeOf(s), indexLHS: lv.Index, appendArg: rhs}
						if ce, ok := rhs.(*ast.CallExpr); ok && c20CallName(ce) == "append" && len(ce.Args) >= 2 {
							a.appendArg = ce.Args[1]
						}
						c.assigns[id.Name] = append(c.assigns[id.Name], a)
					}
				}
			}
		case *ast.RangeStmt:
			if id, ok := s.Key.(*ast.Ident); ok && id.Name != "_" {
				c.assigns[id.Name] = append(c.assigns[id.Name], &c20Assign{pos: s.Pos(), node: s, define: true, scope: s.Body, rangeOf: s.X, rangeKey: true, rangeSingle: s.Value == nil})
			}
			if s.Value != nil {
				if id, ok := s.Value.(*ast.Ident); ok && id.Name != "_" {
					c.assigns[id.Name] = append(c.assigns[id.Name], &c20Assign{pos: s.Pos(), node: s, define: true, scope: s.Body, rangeOf: s.X})
				}
			}
		case *ast.DeclStmt:
			if gd, ok := s.Decl.(*ast.GenDecl); ok {
				for _, sp := range gd.Specs {
					if vs, ok := sp.(*ast.ValueSpec); ok {
						for i, nm := range vs.Names {
							var rhs ast.Expr
							if i < len(vs.Values) {
								rhs = vs.Values[i]
							}
							c.assigns[nm.Name] = append(c.assigns[nm.Name], &c20Assign{pos: s.Pos(), node: s, define: true, rhs: rhs, scope: c.scopeOf(s)})
						}
					}
				}
			}
		}
		return true
	})
	// parameters that pass gripql.ValidateGraphName followed by `if err != nil { return … }`
	ast.Inspect(f.decl.Body, func(n ast.Node) bool {
		bs, ok := n.(*ast.BlockStmt)
		if !ok {
			return true
		}
		for i, st := range bs.List {
			as, ok := st.(*ast.AssignStmt)
			if !ok || len(as.Rhs) != 1 || i+1 >= len(bs.List) {
				continue
			}
			ce, ok := as.Rhs[0].(*ast.CallExpr)
			if !ok || c20CallName(ce) != "gripql.ValidateGraphName" || len(ce.Args) != 1 {
				continue
			}
			id, ok := ce.Args[0].(*ast.Ident)
			if !ok {
				continue
			}
			ifs, ok := bs.List[i+1].(*ast.IfStmt)
			if !ok || c20Text(ifs.Cond) != "err!=nil" || len(ifs.Body.List) == 0 {
				continue
			}
			if _, ok := ifs.Body.List[len(ifs.Body.List)-1].(*ast.ReturnStmt); ok {
				c.valid[id.Name] = true
			}
		}
		return true
	})
	return c
}

func (c *c20Fn) scopeOf(n ast.Node) ast.Node {
	for x := c.parent[n]; x != nil; x = c.parent[x] {
		if c20IsScope(x) {
			return x
		}
		if x == ast.Node(c.f.decl) {
			break
		}
	}
	return c.f.decl.Body
}

func (c *c20Fn) encloses(scope ast.Node, n ast.Node) bool {
	for {
		w, ok := n.(*c20At)
		if !ok {
			break
		}
		n = w.use
	}
	for x := n; x != nil; x = c.parent[x] {
		if x == scope {
			return true
		}
		if x == ast.Node(c.f.decl) {
			break
		}
	}
	return false
}

// visible assignments to name before `at` (in source order) with their conditionality
func (c *c20Fn) visible(name string, at ast.Node) (out []*c20Assign, uncond []bool) {
	for _, a := range c.assigns[name] {
		if a.pos >= at.Pos() {
			continue
		}
		enc := c.encloses(a.scope, at)
		if !enc && a.define {
			continue
		}
		out = append(out, a)
		uncond = append(uncond, enc)
	}
	return
}

type c20Err struct{ msg string }

func (e *c20Err) Error() string { return e.msg }

func (c *c20Fn) errf(at ast.Node, format string, a ...interface{}) error {
	return &c20Err{fmt.Sprintf("%s: %s: ", c.p.fset.Position(at.Pos()), c.f.full()) + fmt.Sprintf(format, a...)}
}

func (c *c20Fn) isBuilderRHS(e ast.Expr) bool {
	switch v := e.(type) {
	case *ast.BasicLit:
		return v.Kind == token.STRING
	case *ast.BinaryExpr:
		return v.Op == token.ADD
	case *ast.ParenExpr:
		return c.isBuilderRHS(v.X)
	case *ast.CallExpr:
		n := c20CallName(v)
		return n == "fmt.Sprintf" || n == "strings.Join" || c.wrapperOf(v) != ""
	}
	return false
}

func (c *c20Fn) wrapperOf(ce *ast.CallExpr) string {
	n := c20CallName(ce)
	if len(ce.Args) != 1 {
		return ""
	}
	switch n {
	case "pq.QuoteLiteral":
		return "" // uses E'…' when the value has a backslash: not the plain doubling wrapper; treated as uninterpreted
	case "pq.QuoteIdentifier":
		return "quoteIdent"
	}
	if _, ok := ce.Fun.(*ast.Ident); ok {
		return c.p.wrappers[n]
	}
	return ""
}

func c20Product(a, b [][]c20Piece) [][]c20Piece {
	var out [][]c20Piece
	for _, x := range a {
		for _, y := range b {
			z := append(append([]c20Piece{}, x...), y...)
			out = append(out, z)
		}
	}
	return out
}

// resolve: the variants of the text an expression denotes.
func (c *c20Fn) resolve(e ast.Expr, at ast.Node, seen map[string]bool) ([][]c20Piece, error) {
	switch v := e.(type) {
	case *ast.ParenExpr:
		return c.resolve(v.X, at, seen)
	case *ast.BasicLit:
		if s, ok := c20StrLit(v); ok {
			return [][]c20Piece{{{Kind: "lit", Lit: s}}}, nil
		}
	case *ast.BinaryExpr:
		if v.Op == token.ADD {
			a, err := c.resolve(v.X, at, seen)
			if err != nil {
				return nil, err
			}
			b, err := c.resolve(v.Y, at, seen)
			if err != nil {
				return nil, err
			}
			return c20Product(a, b), nil
		}
	case *ast.CallExpr:
		switch c20CallName(v) {
		case "fmt.Sprintf":
			if len(v.Args) == 0 {
				return nil, c.errf(v, "Sprintf without format")
			}
			f, ok := c20StrLit(v.Args[0])
			if !ok {
				return nil, c.errf(v, "Sprintf with a non-constant format")
			}
			out := [][]c20Piece{{}}
			args := v.Args[1:]
			ai := 0
			lit := ""
			flush := func() {
				if lit != "" {
					out = c20Product(out, [][]c20Piece{{{Kind: "lit", Lit: lit}}})
					lit = ""
				}
			}
			for i := 0; i < len(f); i++ {
				if f[i] != '%' {
					lit += string(f[i])
					continue
				}
				if i+1 >= len(f) {
					return nil, c.errf(v, "format ends in %%")
				}
				i++
				switch f[i] {
				case '%':
					lit += "%"
				case 's', 'v', 'd':
					if ai >= len(args) {
						return nil, c.errf(v, "format has more verbs than arguments")
					}
					flush()
					var sub [][]c20Piece
					var err error
					if f[i] == 'd' {
						sub = [][]c20Piece{{{Kind: "srv", Name: c20Text(args[ai])}}}
					} else {
						sub, err = c.resolve(args[ai], at, seen)
					}
					if err != nil {
						return nil, err
					}
					out = c20Product(out, sub)
					ai++
				default:
					return nil, c.errf(v, "format verb %%%c is not modelled", f[i])
				}
			}
			flush()
			if ai != len(args) {
				return nil, c.errf(v, "format has fewer verbs than arguments")
			}
			return out, nil
		case "strings.Join":
			if len(v.Args) != 2 {
				break
			}
			sep, ok := c20StrLit(v.Args[1])
			if !ok {
				return nil, c.errf(v, "strings.Join with a non-constant separator")
			}
			lp, err := c.listPiece(v.Args[0], sep, at)
			if err != nil {
				return nil, err
			}
			return [][]c20Piece{{*lp}}, nil
		}
		if w := c.wrapperOf(v); w != "" {
			val, err := c.classify(v.Args[0], at, 0)
			if err != nil {
				return nil, err
			}
			if val.kind == "str" {
				return [][]c20Piece{{{Kind: "cli", Src: val.src, Wrap: w, Expr: val.ex}}}, nil
			}
			// quoting a server value: keep it a server value (text includes the quotes)
			return [][]c20Piece{{{Kind: "srv", Name: c20Text(v)}}}, nil
		}
	case *ast.Ident:
		if ps, ok := c.subst[v.Name]; ok {
			if _, shadow := c.assigns[v.Name]; !shadow {
				return [][]c20Piece{ps}, nil
			}
		}
		if vs, ok, err := c.builderVariants(v.Name, at, seen); err != nil {
			return nil, err
		} else if ok {
			return vs, nil
		}
	}
	// leaf
	val, err := c.classify(e, at, 0)
	if err != nil {
		return nil, err
	}
	switch val.kind {
	case "str":
		return [][]c20Piece{{{Kind: "cli", Src: val.src, Wrap: "raw", Expr: val.ex}}}, nil
	case "srv":
		return [][]c20Piece{{{Kind: "srv", Name: c20Text(e)}}}, nil
	case "pieces":
		return nil, c.errf(e, "internal: pieces value at leaf")
	}
	return nil, c.errf(e, "cannot tell where %s comes from (%s)", c20Text(e), val.kind)
}

// builderVariants: a local variable that is assigned text-building expressions.
func (c *c20Fn) builderVariants(name string, at ast.Node, seen map[string]bool) ([][]c20Piece, bool, error) {
	as, uncond := c.visible(name, at)
	any := false
	for _, a := range as {
		if a.rhs != nil && c.isBuilderRHS(a.rhs) {
			any = true
		}
	}
	if !any {
		return nil, false, nil
	}
	var variants [][]c20Piece
	for i, a := range as {
		if a.rhs == nil {
			continue
		}
		self := false
		ast.Inspect(a.rhs, func(n ast.Node) bool {
			if id, ok := n.(*ast.Ident); ok && id.Name == name {
				self = true
			}
			return true
		})
		var vs [][]c20Piece
		if self {
			// extension: evaluate with the variable bound to each variant so far
			for _, prev := range variants {
				sub := *c
				sub.subst = map[string][]c20Piece{}
				for k, v := range c.subst {
					sub.subst[k] = v
				}
				sub.subst[name] = prev
				saved := sub.assigns
				na := map[string][]*c20Assign{}
				for k, v := range saved {
					if k != name {
						na[k] = v
					}
				}
				sub.assigns = na
				r, err := sub.resolve(a.rhs, at, seen)
				if err != nil {
					return nil, true, err
				}
				vs = append(vs, r...)
			}
		} else {
			r, err := c.resolve(a.rhs, &c20At{a.pos, a.node, c}, seen)
			if err != nil {
				return nil, true, err
			}
			vs = r
		}
		if uncond[i] && !self {
			variants = vs
		} else if uncond[i] && self {
			variants = vs
		} else {
			variants = append(variants, vs...)
		}
	}
	// drop the empty text when there are other variants (q := "" placeholders)
	var out [][]c20Piece
	for _, v := range variants {
		if len(v) == 0 || (len(v) == 1 && v[0].Kind == "lit" && v[0].Lit == "") {
			continue
		}
		out = append(out, v)
	}
	if len(out) == 0 {
		out = variants
	}
	return out, true, nil
}

// c20At is a position inside the function used to evaluate an assignment's RHS "as of" the assignment.
type c20At struct {
	pos token.Pos
	use ast.Node
	c   *c20Fn
}

func (a *c20At) Pos() token.Pos { return a.pos }
func (a *c20At) End() token.Pos { return a.pos }

// listPiece: strings.Join(X, sep): the per-element template of X.
func (c *c20Fn) listPiece(x ast.Expr, sep string, at ast.Node) (*c20Piece, error) {
	id, ok := x.(*ast.Ident)
	if !ok {
		return nil, c.errf(x, "strings.Join over %s", c20Text(x))
	}
	if k, ok := c.params[id.Name]; ok && k == "strlist" && c.subst == nil {
		return &c20Piece{Kind: "list", Src: "client", Name: id.Name, Sep: sep,
			Elem: []c20Piece{{Kind: "cli", Src: "client", Wrap: "raw", Expr: &c20Expr{Op: "elem", Name: id.Name}}}}, nil
	}
	var elems []ast.Expr
	var poss []token.Pos
	var nodes []ast.Node
	for _, a := range c.assigns[id.Name] {
		if a.appendArg != nil {
			elems = append(elems, a.appendArg)
			poss = append(poss, a.pos)
			nodes = append(nodes, a.node)
		}
	}
	if len(elems) != 1 {
		return nil, c.errf(x, "list %s has %d element sources", id.Name, len(elems))
	}
	vs, err := c.resolve(elems[0], &c20At{poss[0] + 1, nodes[0], c}, map[string]bool{})
	if err != nil {
		return nil, err
	}
	if len(vs) != 1 {
		return nil, c.errf(x, "list %s element has %d variants", id.Name, len(vs))
	}
	lp := &c20Piece{Kind: "list", Sep: sep, Elem: vs[0]}
	for _, p := range vs[0] {
		switch p.Kind {
		case "cli":
			n := c20ListName(p.Expr)
			if n == "" {
				return nil, c.errf(x, "list %s element is client-derived but not per element", id.Name)
			}
			if lp.Name != "" && lp.Name != n {
				return nil, c.errf(x, "list %s mixes sources", id.Name)
			}
			lp.Name, lp.Src = n, p.Src
		case "list":
			return nil, c.errf(x, "nested list in %s", id.Name)
		}
	}
	if lp.Name == "" {
		return nil, c.errf(x, "list %s has no per-element client value", id.Name)
	}
	return lp, nil
}

func c20ListName(e *c20Expr) string {
	for e != nil {
		if e.Op == "elem" {
			return e.Name
		}
		e = e.E
	}
	return ""
}

// classify: where does a (non text-building) expression come from.
func (c *c20Fn) classify(e ast.Expr, at ast.Node, depth int) (*c20Val, error) {
	if depth > 12 {
		return nil, c.errf(e, "provenance of %s is too deep", c20Text(e))
	}
	srv := &c20Val{kind: "srv"}
	switch v := e.(type) {
	case *ast.ParenExpr:
		return c.classify(v.X, at, depth+1)
	case *ast.BasicLit, *ast.CompositeLit:
		return srv, nil
	case *ast.Ident:
		if v.Name == c.recvVar {
			return srv, nil
		}
		if v.Name == "nil" || v.Name == "true" || v.Name == "false" {
			return srv, nil
		}
		as, _ := c.visible(v.Name, at)
		if len(as) == 0 {
			if sv, ok := c.substV[v.Name]; ok {
				return sv, nil
			}
			if _, ok := c.subst[v.Name]; ok {
				return &c20Val{kind: "pieces", name: v.Name}, nil
			}
			if k, ok := c.params[v.Name]; ok {
				src := "client"
				if c.valid[v.Name] {
					src = "validated"
				}
				switch k {
				case "string":
					return &c20Val{kind: "str", src: src, ex: &c20Expr{Op: "param", Name: v.Name}}, nil
				case "strlist":
					return &c20Val{kind: "list", src: src, name: v.Name}, nil
				case "agg":
					return &c20Val{kind: "agg", src: src, name: v.Name}, nil
				}
				return srv, nil
			}
			return srv, nil // package-level name / constant
		}
		// last visible assignment decides; earlier index-assignments feed maps
		var res *c20Val
		for i := len(as) - 1; i >= 0; i-- {
			a := as[i]
			var r *c20Val
			var err error
			switch {
			case a.rangeOf != nil:
				r, err = c.classifyRange(a, depth)
			case a.rhs != nil:
				if ce, ok := a.rhs.(*ast.CallExpr); ok && c20CallName(ce) == "make" {
					continue
				}
				r, err = c.classify(a.rhs, &c20At{a.pos, a.node, c}, depth+1)
			case a.appendArg != nil:
				r, err = c.classify(a.appendArg, &c20At{a.pos, a.node, c}, depth+1)
				if err == nil && r.kind == "aggelem" {
					r = &c20Val{kind: "agg", src: r.src, name: r.name}
				}
			}
			if err != nil {
				return nil, err
			}
			if r != nil {
				res = r
				break
			}
		}
		if res == nil {
			return srv, nil
		}
		return res, nil
	case *ast.SelectorExpr:
		x, err := c.classify(v.X, at, depth+1)
		if err != nil {
			return nil, err
		}
		switch x.kind {
		case "aggelem":
			if v.Sel.Name == "ID" {
				return &c20Val{kind: "str", src: x.src, ex: &c20Expr{Op: "elem", Name: x.name}}, nil
			}
			return &c20Val{kind: "str", src: x.src, ex: &c20Expr{Op: "opaque", Name: c20Text(e)}}, nil
		case "agg", "str", "list", "split":
			return &c20Val{kind: "str", src: x.src, ex: &c20Expr{Op: "opaque", Name: c20Text(e)}}, nil
		}
		return srv, nil
	case *ast.IndexExpr:
		x, err := c.classify(v.X, at, depth+1)
		if err != nil {
			return nil, err
		}
		switch x.kind {
		case "split":
			bl, ok := v.Index.(*ast.BasicLit)
			if !ok {
				return &c20Val{kind: "str", src: x.src, ex: &c20Expr{Op: "opaque", Name: c20Text(e)}}, nil
			}
			idx, _ := strconv.Atoi(bl.Value)
			return &c20Val{kind: "str", src: x.src, ex: &c20Expr{Op: "splitN", E: x.ex, A: x.sep, N: x.n, Idx: idx}}, nil
		case "list":
			return &c20Val{kind: "str", src: x.src, ex: &c20Expr{Op: "elem", Name: x.name}}, nil
		case "agg", "aggelem":
			return &c20Val{kind: "aggelem", src: x.src, name: x.name}, nil
		case "str":
			return &c20Val{kind: "str", src: x.src, ex: &c20Expr{Op: "opaque", Name: c20Text(e)}}, nil
		}
		return srv, nil
	case *ast.CallExpr:
		n := c20CallName(v)
		switch n {
		case "strings.SplitN":
			if len(v.Args) == 3 {
				x, err := c.classify(v.Args[0], at, depth+1)
				if err != nil {
					return nil, err
				}
				sep, ok1 := c20StrLit(v.Args[1])
				cnt, err2 := strconv.Atoi(c20Text(v.Args[2]))
				if x.kind == "str" && ok1 && err2 == nil {
					return &c20Val{kind: "split", src: x.src, ex: x.ex, sep: sep, n: cnt}, nil
				}
				if x.kind == "str" {
					return &c20Val{kind: "str", src: x.src, ex: &c20Expr{Op: "opaque", Name: c20Text(e)}}, nil
				}
				return srv, nil
			}
		case "strings.Replace", "strings.ReplaceAll":
			x, err := c.classify(v.Args[0], at, depth+1)
			if err != nil {
				return nil, err
			}
			if x.kind != "str" {
				return x, nil
			}
			o, ok1 := c20StrLit(v.Args[1])
			nw, ok2 := c20StrLit(v.Args[2])
			all := n == "strings.ReplaceAll" || (len(v.Args) == 4 && c20Text(v.Args[3]) == "-1")
			if ok1 && ok2 && all {
				return &c20Val{kind: "str", src: x.src, ex: &c20Expr{Op: "replace", E: x.ex, A: o, B: nw}}, nil
			}
			return &c20Val{kind: "str", src: x.src, ex: &c20Expr{Op: "opaque", Name: c20Text(e)}}, nil
		case "make", "len", "new":
			return srv, nil
		}
		// same-package function or method: a server-side lookup …
		if g := c.p.callee(v, c.f); g != nil {
			if strings.HasPrefix(g.name, "List") && strings.HasSuffix(g.name, "Labels") {
				// … except label listings, which read back what clients stored
				return &c20Val{kind: "list", src: "stored", name: "labels:" + g.name}, nil
			}
			// … unless what it returns is computed from a parameter that receives a client value
			if src := c.returnsClientArg(g, v, at, depth); src != "" {
				return &c20Val{kind: "str", src: src, ex: &c20Expr{Op: "opaque", Name: c20Text(e)}}, nil
			}
			return srv, nil
		}
		if se, ok := v.Fun.(*ast.SelectorExpr); ok {
			// method on a receiver field (g.schema.GetVertexGid(table)): server-side lookup
			if r, err := c.classify(se.X, at, depth+1); err == nil && r.kind == "srv" {
				if _, isPkg := se.X.(*ast.Ident); !isPkg || se.X.(*ast.Ident).Name == c.recvVar {
					return srv, nil
				}
				if c.isLocalOrRecv(se.X.(*ast.Ident).Name) {
					return srv, nil
				}
			}
		}
		// any other call: client if any argument is
		for _, a := range v.Args {
			r, err := c.classify(a, at, depth+1)
			if err != nil {
				return nil, err
			}
			switch r.kind {
			case "str", "split":
				return &c20Val{kind: "str", src: r.src, ex: &c20Expr{Op: "opaque", Name: c20Text(e)}}, nil
			case "list", "agg":
				return &c20Val{kind: "agg", src: r.src, name: r.name}, nil
			case "aggelem":
				return &c20Val{kind: "str", src: r.src, ex: &c20Expr{Op: "opaque", Name: c20Text(e)}}, nil
			}
		}
		return srv, nil
	case *ast.UnaryExpr:
		return c.classify(v.X, at, depth+1)
	case *ast.TypeAssertExpr:
		return c.classify(v.X, at, depth+1)
	case *ast.FuncLit:
		return srv, nil
	case *ast.StarExpr:
		return c.classify(v.X, at, depth+1)
	}
	return nil, c.errf(e, "expression %s is not understood", c20Text(e))
}

// returnsClientArg: does callee g return something computed from a parameter bound to a client value?
func (c *c20Fn) returnsClientArg(g *c20Func, call *ast.CallExpr, at ast.Node, depth int) string {
	// parameters of g that receive client-derived arguments
	tainted := map[string]string{}
	i := 0
	if g.decl.Type.Params != nil {
		for _, fl := range g.decl.Type.Params.List {
			for _, nm := range fl.Names {
				if i < len(call.Args) {
					if r, err := c.classify(call.Args[i], at, depth+1); err == nil && r.kind != "srv" && r.kind != "none" {
						src := r.src
						if src == "" {
							src = "client"
						}
						tainted[nm.Name] = src
					}
				}
				i++
			}
		}
	}
	if len(tainted) == 0 {
		return ""
	}
	// propagate through assignments in g (to a fixed point), but not through comparisons
	mentions := func(e ast.Expr) string {
		found := ""
		ast.Inspect(e, func(n ast.Node) bool {
			if be, ok := n.(*ast.BinaryExpr); ok {
				switch be.Op {
				case token.EQL, token.NEQ, token.LSS, token.GTR, token.LEQ, token.GEQ:
					return false
				}
			}
			if id, ok := n.(*ast.Ident); ok {
				if s, ok := tainted[id.Name]; ok && found == "" {
					found = s
				}
			}
			return true
		})
		return found
	}
	for changed := true; changed; {
		changed = false
		ast.Inspect(g.decl.Body, func(n ast.Node) bool {
			if as, ok := n.(*ast.AssignStmt); ok {
				for i, l := range as.Lhs {
					id, ok := l.(*ast.Ident)
					if !ok || id.Name == "_" {
						continue
					}
					var rhs ast.Expr
					if len(as.Rhs) == len(as.Lhs) {
						rhs = as.Rhs[i]
					} else if len(as.Rhs) == 1 {
						rhs = as.Rhs[0]
					}
					if rhs == nil {
						continue
					}
					if _, done := tainted[id.Name]; done {
						continue
					}
					// a same-package lookup keyed by the value is not the value
					if ce, ok := rhs.(*ast.CallExpr); ok && c.p.callee(ce, g) != nil {
						continue
					}
					if ce, ok := rhs.(*ast.CallExpr); ok {
						if _, _, isDB := c20IsDBCall(ce); isDB {
							continue
						}
					}
					if s := mentions(rhs); s != "" {
						tainted[id.Name] = s
						changed = true
					}
				}
			}
			return true
		})
	}
	res := ""
	var resTypes []string
	if g.decl.Type.Results != nil {
		for _, fl := range g.decl.Type.Results.List {
			k := len(fl.Names)
			if k == 0 {
				k = 1
			}
			for j := 0; j < k; j++ {
				resTypes = append(resTypes, c20Text(fl.Type))
			}
		}
	}
	ast.Inspect(g.decl.Body, func(n ast.Node) bool {
		if _, ok := n.(*ast.FuncLit); ok {
			return false
		}
		if rs, ok := n.(*ast.ReturnStmt); ok {
			for ri, r := range rs.Results {
				// only string results carry a client string (struct results: field provenance is not tracked)
				if ri >= len(resTypes) || resTypes[ri] != "string" {
					continue
				}
				if s := mentions(r); s != "" && res == "" {
					res = s
				}
			}
		}
		return true
	})
	return res
}

func (c *c20Fn) isLocalOrRecv(name string) bool {
	if name == c.recvVar {
		return true
	}
	_, ok := c.assigns[name]
	return ok
}

func (c *c20Fn) classifyRange(a *c20Assign, depth int) (*c20Val, error) {
	at := &c20At{a.pos, a.node, c}
	x, err := c.classify(a.rangeOf, at, depth+1)
	if err != nil {
		return nil, err
	}
	if a.rangeKey && a.rangeSingle && (x.kind == "agg" || x.kind == "aggelem") {
		// `for v := range ch`: the single variable is the element unless it is an index name
		isIdx := false
		if rs, ok := a.node.(*ast.RangeStmt); ok {
			if id, ok := rs.Key.(*ast.Ident); ok {
				switch id.Name {
				case "i", "j", "k", "n", "idx", "index":
					isIdx = true
				}
			}
		}
		if !isIdx {
			return &c20Val{kind: "aggelem", src: x.src, name: x.name}, nil
		}
		return &c20Val{kind: "srv"}, nil
	}
	if a.rangeKey {
		// key of a local map: what the map is indexed with when it is filled
		if id, ok := a.rangeOf.(*ast.Ident); ok {
			for _, b := range c.assigns[id.Name] {
				if b.indexLHS != nil {
					k, err := c.classify(b.indexLHS, &c20At{b.pos, b.node, c}, depth+1)
					if err != nil {
						return nil, err
					}
					return k, nil
				}
			}
		}
		return &c20Val{kind: "srv"}, nil // slice index
	}
	switch x.kind {
	case "list":
		if x.src == "stored" {
			// for _, label := range vLabels: the harness supplies it as parameter `label`
			return &c20Val{kind: "str", src: "stored", ex: &c20Expr{Op: "param", Name: "label"}}, nil
		}
		return &c20Val{kind: "str", src: x.src, ex: &c20Expr{Op: "elem", Name: x.name}}, nil
	case "agg":
		return &c20Val{kind: "aggelem", src: x.src, name: x.name}, nil
	case "aggelem":
		return &c20Val{kind: "aggelem", src: x.src, name: x.name}, nil
	}
	return &c20Val{kind: "srv"}, nil
}

// ---------- sites of one entry point ----------

func (c *c20Fn) sites() ([]c20Site, error) {
	var out []c20Site
	var firstErr error
	prepared := map[string]int{} // statement variable → index in out
	ast.Inspect(c.f.decl.Body, func(n ast.Node) bool {
		ce, ok := n.(*ast.CallExpr)
		if !ok || firstErr != nil {
			return firstErr == nil
		}
		if m, idx, ok := c20IsDBCall(ce); ok {
			if idx > 0 && !(c20Text(ce.Args[0]) == "ctx" || strings.Contains(m, "Context") || m == "Get" || m == "Select") {
				idx = 0
			}
			vs, err := c.resolve(ce.Args[idx], ce, map[string]bool{})
			if err != nil {
				firstErr = err
				return false
			}
			var bound []string
			for _, a := range ce.Args[idx+1:] {
				bound = append(bound, c.boundClass(a, ce))
			}
			for _, v := range vs {
				s := c20Site{Drv: c.p.drv, File: c.f.file, Fn: c.root.full(), Call: m, Pieces: c20Merge(v), Bound: bound,
					Line: c.p.fset.Position(ce.Pos()).Line}
				if c.f != c.root {
					s.Via = c.f.full()
				}
				out = append(out, s)
			}
			// remember prepared statements: stmt, err := txn.Prepare(s)
			if strings.HasPrefix(m, "Prepare") {
				if as, ok := c.parent[ce].(*ast.AssignStmt); ok && len(as.Lhs) > 0 {
					if id, ok := as.Lhs[0].(*ast.Ident); ok {
						prepared[id.Name] = len(out) - len(vs)
					}
				}
			}
			return true
		}
		// executions of a prepared statement: bound parameters only
		if se, ok := ce.Fun.(*ast.SelectorExpr); ok {
			if id, ok := se.X.(*ast.Ident); ok {
				if at, ok := prepared[id.Name]; ok {
					if _, isDB := c20DBMethods[se.Sel.Name]; isDB {
						for _, a := range ce.Args {
							if c20Text(a) == "ctx" {
								continue
							}
							out[at].Bound = append(out[at].Bound, c.boundClass(a, ce))
						}
					}
					return true
				}
			}
			// a database method on something we do not know: refuse
			if _, isDB := c20DBMethods[se.Sel.Name]; isDB {
				last := ""
				switch r := se.X.(type) {
				case *ast.Ident:
					last = r.Name
				case *ast.SelectorExpr:
					last = r.Sel.Name
				}
				if !c20NotHandles[last] && !c20Handles[last] && last != "stmt" && last != "rows" && last != "row" && c.p.callee(ce, c.f) == nil && c20LooksLikeSQL(ce) {
					firstErr = c.errf(ce, "%s on unrecognised receiver %s", se.Sel.Name, c20Text(se.X))
					return false
				}
			}
		}
		// same-package callee with sites: inline
		if g := c.p.callee(ce, c.f); g != nil && c.p.hasSites[g] && g != c.f && c.depth < 4 {
			sub := c.p.newFn(g, c.root, c.depth+1)
			sub.subst = map[string][]c20Piece{}
			sub.substV = map[string]*c20Val{}
			i := 0
			for _, fl := range g.decl.Type.Params.List {
				for _, nm := range fl.Names {
					if i < len(ce.Args) && c20Text(fl.Type) == "string" {
						vs, err := c.resolve(ce.Args[i], ce, map[string]bool{})
						if err != nil {
							firstErr = err
							return false
						}
						if len(vs) != 1 {
							firstErr = c.errf(ce, "argument %s of inlined %s has %d variants", nm.Name, g.full(), len(vs))
							return false
						}
						sub.subst[nm.Name] = vs[0]
						if v, err := c.classify(ce.Args[i], ce, 0); err == nil && v.kind == "str" {
							sub.substV[nm.Name] = v
						}
					}
					delete(sub.params, nm.Name)
					i++
				}
			}
			c.p.inlined[g] = true
			ss, err := sub.sites()
			if err != nil {
				firstErr = err
				return false
			}
			out = append(out, ss...)
		}
		return true
	})
	return out, firstErr
}

func c20LooksLikeSQL(ce *ast.CallExpr) bool {
	for _, a := range ce.Args {
		found := false
		ast.Inspect(a, func(n ast.Node) bool {
			if bl, ok := n.(*ast.BasicLit); ok && bl.Kind == token.STRING {
				u := strings.ToUpper(bl.Value)
				for _, kw := range []string{"SELECT ", "INSERT ", "DELETE ", "UPDATE ", "CREATE ", "DROP "} {
					if strings.Contains(u, kw) {
						found = true
					}
				}
			}
			return true
		})
		if found {
			return true
		}
	}
	return false
}

func (c *c20Fn) boundClass(a ast.Expr, at ast.Node) string {
	v, err := c.classify(a, at, 0)
	if err != nil || v == nil {
		return "client"
	}
	switch v.kind {
	case "srv":
		return "server"
	}
	if v.src == "" {
		return "client"
	}
	return v.src
}

// c20Merge joins adjacent literals.
func c20Merge(ps []c20Piece) []c20Piece {
	var out []c20Piece
	for _, p := range ps {
		if p.Kind == "lit" && p.Lit == "" {
			continue
		}
		if p.Kind == "lit" && len(out) > 0 && out[len(out)-1].Kind == "lit" {
			out[len(out)-1].Lit += p.Lit
			continue
		}
		if p.Kind == "list" {
			p.Elem = c20Merge(p.Elem)
		}
		out = append(out, p)
	}
	return out
}

// ---------- rendering to Lean ----------

func c20ExprTmpl(e *c20Expr) string {
	switch e.Op {
	case "param":
		return e.Name
	case "elem":
		return e.Name + "[]"
	case "splitN":
		return fmt.Sprintf("split(%s,%q)[%d]", c20ExprTmpl(e.E), e.A, e.Idx)
	case "replace":
		return fmt.Sprintf("replace(%s,%q,%q)", c20ExprTmpl(e.E), e.A, e.B)
	}
	return "?" + e.Name
}

func c20Tmpl(ps []c20Piece) string {
	var b strings.Builder
	for _, p := range ps {
		switch p.Kind {
		case "lit":
			b.WriteString(p.Lit)
		case "srv":
			b.WriteString("{s:" + p.Name + "}")
		case "cli":
			tag := map[string]string{"raw": "c", "quoteLit": "q", "quoteIdent": "qi"}[p.Wrap]
			if p.Src != "client" {
				tag += ":" + p.Src
			}
			b.WriteString("{" + tag + ":" + c20ExprTmpl(p.Expr) + "}")
		case "list":
			b.WriteString("{[" + c20Tmpl(p.Elem) + "]" + p.Sep + "…}")
		}
	}
	return b.String()
}

func c20ExprLean(e *c20Expr) string {
	switch e.Op {
	case "param":
		return "(.param " + leanStr(e.Name) + ")"
	case "elem":
		return "(.elem " + leanStr(e.Name) + ")"
	case "splitN":
		return fmt.Sprintf("(.splitN %s %s %d %d)", c20ExprLean(e.E), leanStr(e.A), e.N, e.Idx)
	case "replace":
		return fmt.Sprintf("(.replace %s %s %s)", c20ExprLean(e.E), leanStr(e.A), leanStr(e.B))
	}
	return "(.opaque " + leanStr(e.Name) + ")"
}

func c20AtomLean(p c20Piece) string {
	switch p.Kind {
	case "lit":
		return ".lit " + leanStr(p.Lit)
	case "srv":
		return ".srv " + leanStr(p.Name)
	}
	return fmt.Sprintf(".cli .%s .%s %s", p.Src, p.Wrap, c20ExprLean(p.Expr))
}

func c20PieceLean(p c20Piece) string {
	if p.Kind == "list" {
		es := []string{}
		for _, e := range p.Elem {
			es = append(es, c20AtomLean(e))
		}
		return fmt.Sprintf(".list .%s %s %s [%s]", p.Src, leanStr(p.Name), leanStr(p.Sep), strings.Join(es, ", "))
	}
	return ".atom (" + c20AtomLean(p) + ")"
}

func genSqlSites(x *Ctx) (string, interface{}, error) {
	var all []c20Site
	for _, pk := range [][2]string{{"psql", "psql"}, {"existing-sql", "esql"}} {
		p, err := c20LoadPkg(x, pk[0], pk[1])
		if err != nil {
			return "", nil, err
		}
		var perFn = map[*c20Func][]c20Site{}
		// exported entry points first (callees get inlined), then whatever was not inlined
		order := append([]*c20Func{}, p.funcs...)
		sort.SliceStable(order, func(i, j int) bool {
			ei, ej := ast.IsExported(order[i].name), ast.IsExported(order[j].name)
			return ei && !ej
		})
		for _, f := range order {
			if !p.hasSites[f] {
				continue
			}
			if !ast.IsExported(f.name) && p.inlined[f] {
				continue
			}
			c := p.newFn(f, f, 0)
			ss, err := c.sites()
			if err != nil {
				return "", nil, err
			}
			perFn[f] = ss
		}
		for _, f := range p.funcs {
			all = append(all, perFn[f]...)
		}
	}
	// ids, de-duplication (same file, function, template = same site)
	seen := map[string]bool{}
	var sites []c20Site
	for _, s := range all {
		s.Tmpl = c20Tmpl(s.Pieces)
		key := s.File + "|" + s.Fn + "|" + s.Via + "|" + s.Tmpl + "|" + strings.Join(s.Bound, ",")
		h := sha256.Sum256([]byte(key))
		s.ID = hex.EncodeToString(h[:4])
		if seen[s.ID] {
			continue
		}
		seen[s.ID] = true
		if s.Bound == nil {
			s.Bound = []string{}
		}
		sites = append(sites, s)
	}
	if len(sites) == 0 {
		return "", nil, fmt.Errorf("no SQL sites found in psql/ and existing-sql/")
	}
	// gripql.validate's blacklist and forbidden prefixes
	black, prefixes, err := c20Validate(x)
	if err != nil {
		return "", nil, err
	}
	var b strings.Builder
	b.WriteString("-- GENERATED by tools/extract/c20_sql.go from psql/*.go, existing-sql/*.go, gripql/util.go; do not edit\n")
	b.WriteString("import Grip.Model.C20\nnamespace GripGen.SqlSites\nopen Grip.C20\n\n")
	b.WriteString("def extractionFailed : Bool := false\n\n")
	b.WriteString("/-- characters gripql.validate refuses (strings.ContainsAny) -/\ndef validateBlacklist : String := " + leanStr(black) + "\n")
	b.WriteString("/-- prefixes gripql.validate refuses (strings.HasPrefix) -/\ndef validatePrefixes : List String := " + leanStrList(prefixes) + "\n\n")
	b.WriteString("def sites : List Site := [\n")
	for i, s := range sites {
		ps := []string{}
		for _, p := range s.Pieces {
			ps = append(ps, c20PieceLean(p))
		}
		bs := []string{}
		for _, x := range s.Bound {
			if x == "server" {
				continue
			}
			bs = append(bs, "."+x)
		}
		fmt.Fprintf(&b, "  { id := %s, num := 0x%s, drv := %s, file := %s, fn := %s, via := %s, call := %s,\n    tmpl := %s,\n    pieces := [%s],\n    bound := [%s] }",
			leanStr(s.ID), s.ID, leanStr(s.Drv), leanStr(s.File), leanStr(s.Fn), leanStr(s.Via), leanStr(s.Call), leanStr(s.Tmpl),
			strings.Join(ps, ",\n      "), strings.Join(bs, ", "))
		if i+1 < len(sites) {
			b.WriteString(",")
		}
		b.WriteString("\n")
	}
	b.WriteString("]\n\nend GripGen.SqlSites\n")
	return b.String(), map[string]interface{}{"sites": sites, "validate_blacklist": black, "validate_prefixes": prefixes}, nil
}

func c20Validate(x *Ctx) (string, []string, error) {
	src, err := x.Read("gripql/util.go")
	if err != nil {
		return "", nil, err
	}
	fset := token.NewFileSet()
	f, err := parser.ParseFile(fset, "gripql/util.go", src, 0)
	if err != nil {
		return "", nil, err
	}
	black := ""
	var prefixes []string
	found := false
	for _, d := range f.Decls {
		fd, ok := d.(*ast.FuncDecl)
		if !ok || fd.Name.Name != "validate" || fd.Body == nil {
			continue
		}
		found = true
		nIf := 0
		for _, st := range fd.Body.List {
			ifs, ok := st.(*ast.IfStmt)
			if !ok {
				continue
			}
			nIf++
			ast.Inspect(ifs.Cond, func(n ast.Node) bool {
				if ce, ok := n.(*ast.CallExpr); ok {
					switch c20CallName(ce) {
					case "strings.ContainsAny":
						if s, ok := c20StrLit(ce.Args[1]); ok {
							black += s
						}
					case "strings.HasPrefix":
						if s, ok := c20StrLit(ce.Args[1]); ok {
							prefixes = append(prefixes, s)
						}
					case "strings.Contains":
						// a single refused character (e.g. the NUL key separator) extends the blacklist
						if s, ok := c20StrLit(ce.Args[1]); ok && len([]rune(s)) == 1 {
							black += s
						} else {
							nIf += 100
						}
					}
				}
				return true
			})
		}
		if nIf != 2 && nIf != 3 {
			return "", nil, fmt.Errorf("gripql.validate no longer has the shape (ContainsAny blacklist; HasPrefix list): %d if statements", nIf)
		}
	}
	if !found || black == "" {
		return "", nil, fmt.Errorf("gripql.validate: blacklist not found")
	}
	return black, prefixes, nil
}
