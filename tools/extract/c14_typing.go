package main

// C14 — typing tables of the two compilers (DESIGN.md §4.5, §5 C14).
//
//	GripGen/MongoTyping.lean     from mongo/compile.go        (*Compiler).Compile
//	GripGen/CoreTypingC14.lean   from engine/core/compile.go  StatementProcessor, Validate, Compile
//
// For every statement kind the Mongo compiler supports and every concrete last DataType the case
// body of the typing switch is *executed symbolically*: comparisons of the last-type variable with
// gdbi.* constants are evaluated, assignments to it and to the mark-type map are tracked, returns
// are classified (error / accepted), and the few argument conditions that guard a typing effect
// (`len(x) == 0`, `stmt.As == ""`, ValidateFieldName, reserved name, `switch len(Marks)`,
// `switch markTypes[…]`, duplicate-name lookup, unknown aggregation type) become decision nodes.
// Every other condition must not matter: both branches have to yield the same tree, otherwise the
// extraction fails loudly.  The result is a decision tree per (kind, last type).

import (
	"fmt"
	"go/ast"
	"go/parser"
	"go/token"
	"go/types"
	"sort"
	"strings"
)

var c14Kinds = []struct{ Go, Lean string }{
	{"V", "v"}, {"E", "e"}, {"In", "in_"}, {"InNull", "inNull"}, {"Out", "out"}, {"OutNull", "outNull"},
	{"Both", "both"}, {"InE", "inE"}, {"InENull", "inENull"}, {"OutE", "outE"}, {"OutENull", "outENull"},
	{"BothE", "bothE"}, {"Has", "has"}, {"HasLabel", "hasLabel"}, {"HasKey", "hasKey"}, {"HasId", "hasId"},
	{"Limit", "limit"}, {"Skip", "skip"}, {"Range", "range"}, {"Count", "count"}, {"Distinct", "distinct"},
	{"As", "as_"}, {"Select", "select"}, {"Render", "render"}, {"Path", "path"}, {"Unwind", "unwind"},
	{"Fields", "fields"}, {"Aggregate", "aggregate"},
}

var c14Types = []struct{ Go, Lean string }{
	{"NoData", "noData"}, {"VertexData", "vertex"}, {"EdgeData", "edge"}, {"CountData", "count"},
	{"AggregationData", "aggregation"}, {"SelectionData", "selection"}, {"RenderData", "render"}, {"PathData", "path"},
}

func c14LeanType(goName string) (string, bool) {
	for _, t := range c14Types {
		if t.Go == goName {
			return t.Lean, true
		}
	}
	return "", false
}

type c14Tree struct {
	// leaf
	Leaf   bool
	Reject bool
	T      string // resulting type (Lean name); "" = the type of the selected mark
	Mark   string // type stored under the mark name by `as`; "" = none
	// node
	Chk  string
	Then *c14Tree
	Else *c14Tree
}

func (t *c14Tree) equal(u *c14Tree) bool {
	if t.Leaf != u.Leaf {
		return false
	}
	if t.Leaf {
		if t.Reject || u.Reject {
			return t.Reject == u.Reject
		}
		return t.T == u.T && t.Mark == u.Mark
	}
	return t.Chk == u.Chk && t.Then.equal(u.Then) && t.Else.equal(u.Else)
}

func c14Ite(chk string, a, b *c14Tree) *c14Tree {
	if a.equal(b) {
		return a
	}
	return &c14Tree{Chk: chk, Then: a, Else: b}
}

func (t *c14Tree) lean() string {
	if t.Leaf {
		if t.Reject {
			return "(.leaf .reject)"
		}
		ty := "none"
		if t.T != "" {
			ty = "(some ." + t.T + ")"
		}
		mk := "none"
		if t.Mark != "" {
			mk = "(some ." + t.Mark + ")"
		}
		return "(.leaf (.ok " + ty + " " + mk + "))"
	}
	return "(.ite " + t.Chk + " " + t.Then.lean() + " " + t.Else.lean() + ")"
}

func (t *c14Tree) json() interface{} {
	if t.Leaf {
		if t.Reject {
			return "reject"
		}
		s := "ok:" + t.T
		if t.T == "" {
			s = "ok:<markType>"
		}
		if t.Mark != "" {
			s += " mark:" + t.Mark
		}
		return s
	}
	return map[string]interface{}{"if": t.Chk, "then": t.Then.json(), "else": t.Else.json()}
}

type c14State struct {
	cur  string // Lean type name; "" = type of the selected mark (symbolic)
	mark string
}

type c14Exec struct {
	fset      *token.FileSet
	lastType  string    // printed form of the last-type expression ("lastType" / "ps.LastType")
	markTypes string    // printed form of the mark-type map
	caseBody  []ast.Stmt // the case being executed (for the liveness of the duplicate-name map)
	err       error
}

func (x *c14Exec) fail(n ast.Node, format string, a ...interface{}) *c14Tree {
	if x.err == nil {
		x.err = fmt.Errorf("%s: %s", x.fset.Position(n.Pos()), fmt.Sprintf(format, a...))
	}
	return &c14Tree{Leaf: true, Reject: true}
}

func (x *c14Exec) str(e ast.Expr) string { return types.ExprString(e) }

func (x *c14Exec) isLast(e ast.Expr) bool { return x.str(e) == x.lastType }

func (x *c14Exec) isMarkIndex(e ast.Expr) bool {
	ix, ok := e.(*ast.IndexExpr)
	return ok && x.str(ix.X) == x.markTypes
}

func (x *c14Exec) mentions(n ast.Node) bool {
	found := false
	ast.Inspect(n, func(m ast.Node) bool {
		if e, ok := m.(ast.Expr); ok {
			s := x.str(e)
			if s == x.lastType || s == x.markTypes {
				found = true
			}
		}
		return !found
	})
	return found
}

func gdbiConst(e ast.Expr) (string, bool) {
	se, ok := e.(*ast.SelectorExpr)
	if !ok {
		return "", false
	}
	if id, ok := se.X.(*ast.Ident); !ok || id.Name != "gdbi" {
		return "", false
	}
	return c14LeanType(se.Sel.Name)
}

type c14Cont func(s c14State) *c14Tree

func (x *c14Exec) block(list []ast.Stmt, s c14State, k c14Cont) *c14Tree {
	if len(list) == 0 {
		return k(s)
	}
	return x.stmt(list[0], s, func(s2 c14State) *c14Tree { return x.block(list[1:], s2, k) })
}

// condition values
const (
	cFalse = iota
	cTrue
	cSym
	cUnknown
)

type c14Cond struct {
	kind int
	chk  string
	neg  bool
}

func (x *c14Exec) cond(e ast.Expr, s c14State, init ast.Stmt) c14Cond {
	switch c := e.(type) {
	case *ast.ParenExpr:
		return x.cond(c.X, s, init)
	case *ast.UnaryExpr:
		if c.Op == token.NOT {
			r := x.cond(c.X, s, init)
			switch r.kind {
			case cFalse:
				r.kind = cTrue
			case cTrue:
				r.kind = cFalse
			case cSym:
				r.neg = !r.neg
			}
			return r
		}
	case *ast.BinaryExpr:
		switch c.Op {
		case token.LAND, token.LOR:
			a, b := x.cond(c.X, s, init), x.cond(c.Y, s, init)
			dec, neu := cFalse, cTrue // && : false decides, true is neutral
			if c.Op == token.LOR {
				dec, neu = cTrue, cFalse
			}
			if a.kind == dec || b.kind == dec {
				return c14Cond{kind: dec}
			}
			if a.kind == neu {
				return b
			}
			if b.kind == neu {
				return a
			}
			// two argument checks combined: not a shape with a name; fine as long as nothing
			// typing-relevant depends on it (checked by the caller: both branches must agree)
			return c14Cond{kind: cUnknown}
		case token.EQL, token.NEQ:
			neg := c.Op == token.NEQ
			l, r := c.X, c.Y
			if x.isLast(r) {
				l, r = r, l
			}
			if x.isLast(l) {
				t, ok := gdbiConst(r)
				if !ok {
					x.fail(e, "last type compared with something that is not a gdbi constant: %s", x.str(e))
					return c14Cond{kind: cUnknown}
				}
				if s.cur == "" {
					x.fail(e, "last type tested after it was set from a mark")
					return c14Cond{kind: cUnknown}
				}
				if (s.cur == t) != neg {
					return c14Cond{kind: cTrue}
				}
				return c14Cond{kind: cFalse}
			}
			ls, rs := x.str(l), x.str(r)
			if strings.HasPrefix(ls, "len(") && rs == "0" {
				return c14Cond{kind: cSym, chk: ".emptyList", neg: neg}
			}
			if strings.HasSuffix(ls, ".As") && rs == `""` {
				return c14Cond{kind: cSym, chk: ".emptyName", neg: neg}
			}
			if strings.HasSuffix(ls, ".GetAggregation()") && rs == "nil" {
				// the type oneof of an aggregation is not set
				return c14Cond{kind: cSym, chk: ".unknownAgg", neg: neg}
			}
			if strings.HasSuffix(ls, ".As") && rs == "jsonpath.Current" {
				return c14Cond{kind: cSym, chk: ".reservedName", neg: neg}
			}
			if ls == "err" && rs == "nil" {
				if as, ok := init.(*ast.AssignStmt); ok && len(as.Rhs) == 1 {
					if call, ok := as.Rhs[0].(*ast.CallExpr); ok && x.str(call.Fun) == "gripql.ValidateFieldName" {
						return c14Cond{kind: cSym, chk: ".badName", neg: !neg}
					}
				}
			}
			return c14Cond{kind: cUnknown}
		case token.GTR:
			if strings.HasPrefix(x.str(c.X), "len(") && x.str(c.Y) == "0" {
				return c14Cond{kind: cSym, chk: ".emptyList", neg: true}
			}
			return c14Cond{kind: cUnknown}
		}
	case *ast.Ident:
		// `if _, ok := M[k]; ok`: live only when the case body ever stores into M
		if as, ok := init.(*ast.AssignStmt); ok && len(as.Lhs) == 2 && len(as.Rhs) == 1 && x.str(as.Lhs[1]) == c.Name {
			if ix, ok := as.Rhs[0].(*ast.IndexExpr); ok {
				m := x.str(ix.X)
				live := false
				for _, st := range x.caseBody {
					ast.Inspect(st, func(n ast.Node) bool {
						if a, ok := n.(*ast.AssignStmt); ok {
							for _, l := range a.Lhs {
								if lx, ok := l.(*ast.IndexExpr); ok && x.str(lx.X) == m {
									live = true
								}
							}
						}
						return true
					})
				}
				if !live {
					return c14Cond{kind: cFalse}
				}
				return c14Cond{kind: cSym, chk: ".dupAgg"}
			}
		}
	}
	return c14Cond{kind: cUnknown}
}

func (x *c14Exec) branch(n ast.Node, c c14Cond, thenT, elseT func() *c14Tree) *c14Tree {
	switch c.kind {
	case cTrue:
		return thenT()
	case cFalse:
		return elseT()
	case cSym:
		a, b := thenT(), elseT()
		if c.neg {
			a, b = b, a
		}
		return c14Ite(c.chk, a, b)
	}
	a, b := thenT(), elseT()
	if !a.equal(b) {
		return x.fail(n, "a condition the translator does not recognise guards a typing effect")
	}
	return a
}

func (x *c14Exec) stmt(st ast.Stmt, s c14State, k c14Cont) *c14Tree {
	if x.err != nil {
		return &c14Tree{Leaf: true, Reject: true}
	}
	switch n := st.(type) {
	case *ast.ReturnStmt:
		if len(n.Results) != 2 {
			return x.fail(n, "return with %d results is not a recognised shape", len(n.Results))
		}
		if id, ok := n.Results[1].(*ast.Ident); ok && id.Name == "nil" {
			return &c14Tree{Leaf: true, T: s.cur, Mark: s.mark}
		}
		return &c14Tree{Leaf: true, Reject: true}
	case *ast.AssignStmt:
		if len(n.Lhs) == 1 && len(n.Rhs) == 1 && x.isLast(n.Lhs[0]) {
			if t, ok := gdbiConst(n.Rhs[0]); ok {
				s.cur = t
				return k(s)
			}
			if x.isMarkIndex(n.Rhs[0]) {
				s.cur = ""
				return k(s)
			}
			if x.isLast(n.Rhs[0]) {
				return k(s)
			}
			return x.fail(n, "last type assigned from an unrecognised expression: %s", x.str(n.Rhs[0]))
		}
		if len(n.Lhs) == 1 && len(n.Rhs) == 1 && x.isMarkIndex(n.Lhs[0]) {
			if !x.isLast(n.Rhs[0]) || s.cur == "" {
				return x.fail(n, "mark type assigned from something other than the last type")
			}
			s.mark = s.cur
			return k(s)
		}
		for _, l := range n.Lhs {
			if x.mentions(l) {
				return x.fail(n, "unrecognised assignment involving the typing state")
			}
		}
		return k(s)
	case *ast.ExprStmt, *ast.DeclStmt, *ast.IncDecStmt, *ast.EmptyStmt:
		return k(s)
	case *ast.BranchStmt:
		return k(s)
	case *ast.BlockStmt:
		return x.block(n.List, s, k)
	case *ast.LabeledStmt:
		return x.stmt(n.Stmt, s, k)
	case *ast.IfStmt:
		c := x.cond(n.Cond, s, n.Init)
		return x.branch(n, c,
			func() *c14Tree { return x.block(n.Body.List, s, k) },
			func() *c14Tree {
				if n.Else == nil {
					return k(s)
				}
				return x.stmt(n.Else, s, k)
			})
	case *ast.RangeStmt:
		return x.block(n.Body.List, s, k)
	case *ast.ForStmt:
		return x.block(n.Body.List, s, k)
	case *ast.SwitchStmt:
		if n.Tag == nil {
			return x.fail(n, "tagless switch is not a recognised shape")
		}
		var deflt *ast.CaseClause
		var clauses []*ast.CaseClause
		for _, c := range n.Body.List {
			cc := c.(*ast.CaseClause)
			if cc.List == nil {
				deflt = cc
			} else {
				clauses = append(clauses, cc)
			}
		}
		runDefault := func() *c14Tree {
			if deflt == nil {
				return k(s)
			}
			return x.block(deflt.Body, s, k)
		}
		tag := x.str(n.Tag)
		switch {
		case x.isLast(n.Tag):
			if s.cur == "" {
				return x.fail(n, "switch on the last type after it was set from a mark")
			}
			for _, cc := range clauses {
				for _, e := range cc.List {
					t, ok := gdbiConst(e)
					if !ok {
						return x.fail(e, "case of a last-type switch is not a gdbi constant")
					}
					if t == s.cur {
						return x.block(cc.Body, s, k)
					}
				}
			}
			return runDefault()
		case strings.HasPrefix(tag, "len(") && strings.HasSuffix(tag, ".Marks)"):
			res := runDefault()
			var zero, one *c14Tree
			for _, cc := range clauses {
				for _, e := range cc.List {
					switch x.str(e) {
					case "0":
						zero = x.block(cc.Body, s, k)
					case "1":
						one = x.block(cc.Body, s, k)
					default:
						return x.fail(e, "switch len(Marks) has a case other than 0, 1, default")
					}
				}
			}
			if one != nil {
				res = c14Ite(".marks1", one, res)
			}
			if zero != nil {
				res = c14Ite(".marks0", zero, res)
			}
			return res
		case x.isMarkIndex(n.Tag):
			res := runDefault()
			for i := len(clauses) - 1; i >= 0; i-- {
				cc := clauses[i]
				body := x.block(cc.Body, s, k)
				for j := len(cc.List) - 1; j >= 0; j-- {
					t, ok := gdbiConst(cc.List[j])
					if !ok {
						return x.fail(cc.List[j], "case of a mark-type switch is not a gdbi constant")
					}
					res = c14Ite("(.markIs ."+t+")", body, res)
				}
			}
			return res
		default:
			res := runDefault()
			for _, cc := range clauses {
				if !x.block(cc.Body, s, k).equal(res) {
					return x.fail(cc, "a switch the translator does not recognise guards a typing effect")
				}
			}
			return res
		}
	case *ast.TypeSwitchStmt:
		var deflt *ast.CaseClause
		var named *c14Tree
		for _, c := range n.Body.List {
			cc := c.(*ast.CaseClause)
			if cc.List == nil {
				deflt = cc
				continue
			}
			t := x.block(cc.Body, s, k)
			if named == nil {
				named = t
			} else if !named.equal(t) {
				return x.fail(cc, "arms of an inner type switch differ in their typing effect")
			}
		}
		var d *c14Tree
		if deflt == nil {
			d = k(s)
		} else {
			d = x.block(deflt.Body, s, k)
		}
		if named == nil || named.equal(d) {
			return d
		}
		sel := c14Subject(n)
		if strings.HasSuffix(sel, ".Aggregation") {
			return c14Ite(".unknownAgg", d, named)
		}
		return x.fail(n, "an inner type switch the translator does not recognise guards a typing effect")
	}
	return x.fail(st, "statement form %T is not a recognised shape", st)
}

// c14Subject prints the expression a type switch switches on (`x` in `switch y := x.(type)`).
func c14Subject(t *ast.TypeSwitchStmt) string {
	var e ast.Expr
	switch a := t.Assign.(type) {
	case *ast.ExprStmt:
		e = a.X
	case *ast.AssignStmt:
		if len(a.Rhs) == 1 {
			e = a.Rhs[0]
		}
	}
	if ta, ok := e.(*ast.TypeAssertExpr); ok && ta.Type == nil {
		return types.ExprString(ta.X)
	}
	return ""
}

// c14Switch finds the typing switch: a TypeSwitchStmt over `gs.GetStatement().(type)`.
func c14Switch(body *ast.BlockStmt) (ts *ast.TypeSwitchStmt) {
	ast.Inspect(body, func(n ast.Node) bool {
		if t, ok := n.(*ast.TypeSwitchStmt); ok && ts == nil {
			if _, ok := t.Assign.(*ast.AssignStmt); ok && strings.HasSuffix(c14Subject(t), "GetStatement()") {
				ts = t
				return false
			}
		}
		return true
	})
	return
}

func c14FindFunc(f *ast.File, name, recv string) *ast.FuncDecl {
	for _, d := range f.Decls {
		fd, ok := d.(*ast.FuncDecl)
		if !ok || fd.Name.Name != name {
			continue
		}
		r := ""
		if fd.Recv != nil && len(fd.Recv.List) == 1 {
			r = types.ExprString(fd.Recv.List[0].Type)
		}
		if r == recv {
			return fd
		}
	}
	return nil
}

// c14ValidateCall: does `fn` run `<callee>(stmts, opts)` inside `if err := …; err != nil { return …, err }`
// before position `before` (0 = anywhere)?
func c14ValidateCall(fn *ast.FuncDecl, callee string, before token.Pos) bool {
	found := false
	for _, st := range fn.Body.List {
		is, ok := st.(*ast.IfStmt)
		if !ok || is.Init == nil {
			continue
		}
		if before != 0 && is.Pos() > before {
			continue
		}
		as, ok := is.Init.(*ast.AssignStmt)
		if !ok || len(as.Rhs) != 1 {
			continue
		}
		call, ok := as.Rhs[0].(*ast.CallExpr)
		if !ok || types.ExprString(call.Fun) != callee {
			continue
		}
		if types.ExprString(is.Cond) != "err != nil" {
			continue
		}
		for _, b := range is.Body.List {
			if r, ok := b.(*ast.ReturnStmt); ok && len(r.Results) == 2 {
				if id, ok := r.Results[1].(*ast.Ident); !ok || id.Name != "nil" {
					found = true
				}
			}
		}
	}
	return found
}

type c14Source struct {
	file, fn, recv      string
	lastType, markTypes string
}

func c14Gen(x *Ctx, module string, src c14Source, validate func(f *ast.File, fset *token.FileSet, sw *ast.TypeSwitchStmt) (bool, []string, error)) (string, interface{}, error) {
	b, err := x.Read(src.file)
	if err != nil {
		return "", nil, err
	}
	fset := token.NewFileSet()
	f, err := parser.ParseFile(fset, src.file, b, 0)
	if err != nil {
		return "", nil, err
	}
	fn := c14FindFunc(f, src.fn, src.recv)
	if fn == nil {
		return "", nil, fmt.Errorf("%s: function %s not found", src.file, src.fn)
	}
	sw := c14Switch(fn.Body)
	if sw == nil {
		return "", nil, fmt.Errorf("%s: typing switch over GetStatement().(type) not found in %s", src.file, src.fn)
	}
	bodies := map[string][]ast.Stmt{}
	var deflt []ast.Stmt
	haveDefault := false
	for _, c := range sw.Body.List {
		cc := c.(*ast.CaseClause)
		if cc.List == nil {
			deflt, haveDefault = cc.Body, true
			continue
		}
		for _, e := range cc.List {
			s := types.ExprString(e)
			const p = "*gripql.GraphStatement_"
			if strings.HasPrefix(s, p) {
				if _, dup := bodies[s[len(p):]]; dup {
					return "", nil, fmt.Errorf("%s: duplicate case %s", src.file, s)
				}
				bodies[s[len(p):]] = cc.Body
			}
		}
	}
	var out strings.Builder
	out.WriteString("-- GENERATED by tools/extract (c14_typing.go) from " + src.file + " on every check run; do not edit\n")
	out.WriteString("import Grip.Model.C14T\n\nnamespace GripGen." + module + "\nopen Grip.C14T\n\n")
	facts := map[string]interface{}{}
	for _, kd := range c14Kinds {
		body, ok := bodies[kd.Go]
		if !ok {
			if !haveDefault {
				return "", nil, fmt.Errorf("%s: no case for %s and no default", src.file, kd.Go)
			}
			body = deflt
		}
		out.WriteString("def t_" + kd.Lean + " : DT → Tree\n")
		kf := map[string]interface{}{}
		for _, ty := range c14Types {
			ex := &c14Exec{fset: fset, lastType: src.lastType, markTypes: src.markTypes, caseBody: body}
			t := ex.block(body, c14State{cur: ty.Lean}, func(s c14State) *c14Tree {
				return &c14Tree{Leaf: true, T: s.cur, Mark: s.mark}
			})
			if ex.err != nil {
				return "", nil, fmt.Errorf("case %s at %s: %v", kd.Go, ty.Go, ex.err)
			}
			out.WriteString("  | ." + ty.Lean + " => " + t.lean() + "\n")
			kf[ty.Lean] = t.json()
		}
		out.WriteString("\n")
		facts[kd.Lean] = kf
	}
	out.WriteString("def tree : Kind → DT → Tree\n")
	for _, kd := range c14Kinds {
		out.WriteString("  | ." + kd.Lean + " => t_" + kd.Lean + "\n")
	}
	vf, first, err := validate(f, fset, sw)
	if err != nil {
		return "", nil, err
	}
	sort.Strings(first)
	fl := make([]string, len(first))
	for i, k := range first {
		fl[i] = "." + k
	}
	out.WriteString(fmt.Sprintf("\ndef validatesFirst : Bool := %v\n", vf))
	out.WriteString("def firstKinds : List Kind := [" + strings.Join(fl, ", ") + "]\n")
	out.WriteString("\ndef table : Table := { tree := tree, validatesFirst := validatesFirst, firstKinds := firstKinds }\n")
	out.WriteString("\nend GripGen." + module + "\n")
	facts["validatesFirst"] = vf
	facts["firstKinds"] = first
	return out.String(), facts, nil
}

// c14FirstKinds reads core.Validate: the kinds its `i == 0` switch lets through unconditionally.
func c14FirstKinds(x *Ctx) ([]string, error) {
	const file = "engine/core/compile.go"
	b, err := x.Read(file)
	if err != nil {
		return nil, err
	}
	fset := token.NewFileSet()
	f, err := parser.ParseFile(fset, file, b, 0)
	if err != nil {
		return nil, err
	}
	fn := c14FindFunc(f, "Validate", "")
	if fn == nil {
		return nil, fmt.Errorf("%s: Validate not found", file)
	}
	sw := c14Switch(fn.Body)
	if sw == nil {
		// Validate's switch has no `stmt :=` binding
		ast.Inspect(fn.Body, func(n ast.Node) bool {
			if t, ok := n.(*ast.TypeSwitchStmt); ok && sw == nil {
				if strings.HasSuffix(c14Subject(t), "GetStatement()") {
					sw = t
				}
			}
			return true
		})
	}
	if sw == nil {
		return nil, fmt.Errorf("%s: Validate: switch over the first statement not found", file)
	}
	var kinds []string
	rejectsOthers := false
	for _, c := range sw.Body.List {
		cc := c.(*ast.CaseClause)
		if cc.List == nil {
			ast.Inspect(cc, func(n ast.Node) bool {
				if r, ok := n.(*ast.ReturnStmt); ok && len(r.Results) == 1 {
					if id, ok := r.Results[0].(*ast.Ident); !ok || id.Name != "nil" {
						rejectsOthers = true
					}
				}
				return true
			})
			continue
		}
		if len(cc.Body) != 0 {
			return nil, fmt.Errorf("%s: Validate: a named case has a body; shape not recognised", file)
		}
		for _, e := range cc.List {
			s := types.ExprString(e)
			const p = "*gripql.GraphStatement_"
			ok := false
			for _, kd := range c14Kinds {
				if s == p+kd.Go {
					kinds = append(kinds, kd.Lean)
					ok = true
				}
			}
			if !ok {
				return nil, fmt.Errorf("%s: Validate lets an unsupported kind start a traversal: %s", file, s)
			}
		}
	}
	if !rejectsOthers {
		return nil, fmt.Errorf("%s: Validate: default arm does not return an error", file)
	}
	// the switch must sit under `if i == 0`
	guarded := false
	ast.Inspect(fn.Body, func(n ast.Node) bool {
		if is, ok := n.(*ast.IfStmt); ok && types.ExprString(is.Cond) == "i == 0" {
			ast.Inspect(is.Body, func(m ast.Node) bool {
				if m == ast.Node(sw) {
					guarded = true
				}
				return true
			})
		}
		return true
	})
	if !guarded {
		return nil, fmt.Errorf("%s: Validate: the switch is not under `if i == 0`", file)
	}
	return kinds, nil
}

func init() {
	register(Table{Name: "MongoTyping", Gen: func(x *Ctx) (string, interface{}, error) {
		return c14Gen(x, "MongoTyping",
			c14Source{file: "mongo/compile.go", fn: "Compile", recv: "*Compiler", lastType: "lastType", markTypes: "markTypes"},
			func(f *ast.File, fset *token.FileSet, sw *ast.TypeSwitchStmt) (bool, []string, error) {
				fn := c14FindFunc(f, "Compile", "*Compiler")
				first, err := c14FirstKinds(x)
				if err != nil {
					return false, nil, err
				}
				return c14ValidateCall(fn, "core.Validate", sw.Pos()), first, nil
			})
	}})
	register(Table{Name: "CoreTypingC14", Gen: func(x *Ctx) (string, interface{}, error) {
		return c14Gen(x, "CoreTypingC14",
			c14Source{file: "engine/core/compile.go", fn: "StatementProcessor", recv: "", lastType: "ps.LastType", markTypes: "ps.MarkTypes"},
			func(f *ast.File, fset *token.FileSet, sw *ast.TypeSwitchStmt) (bool, []string, error) {
				fn := c14FindFunc(f, "Compile", "DefaultCompiler")
				if fn == nil {
					return false, nil, fmt.Errorf("engine/core/compile.go: DefaultCompiler.Compile not found")
				}
				first, err := c14FirstKinds(x)
				if err != nil {
					return false, nil, err
				}
				// the loop that calls StatementProcessor must come after the Validate call
				var loop token.Pos
				ast.Inspect(fn.Body, func(n ast.Node) bool {
					if c, ok := n.(*ast.CallExpr); ok && types.ExprString(c.Fun) == "StatementProcessor" && loop == 0 {
						loop = c.Pos()
					}
					return true
				})
				if loop == 0 {
					return false, nil, fmt.Errorf("engine/core/compile.go: Compile does not call StatementProcessor")
				}
				return c14ValidateCall(fn, "Validate", loop), first, nil
			})
	}})
}
