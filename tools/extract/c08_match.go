package main

// CoreMatch — engine/logic/match.go:MatchesCondition translated arm by arm (go/ast).
//
//   * the numeric arms (GT GTE LT LTE INSIDE OUTSIDE BETWEEN): the arm's final `return <comparison>`
//     becomes a Lean function over Int with the Go variable names as parameters (a real translation
//     of the Go boolean expression: > >= < <= && || ! and parentheses), and the statements in front
//     of it become a SHAPE string: which operands are cast (`toNumber`), in which order, that the
//     range argument is a slice of length 2, and that every failure returns false;
//   * EQ / NEQ: the returned expression as text;
//   * WITHIN / WITHOUT / CONTAINS: the arms of the type switch as a shape string.
//
// Props.C08.match_table_matches_source proves the MODEL (Grip.C08.matchesCond via cmp2 / range3)
// equal to the generated functions for ALL operands, and the shapes equal to the expected ones.
// An unrecognisable arm is an extraction error (a broken obligation of C08).

import (
	"fmt"
	"go/ast"
	"go/token"
	"strconv"
	"strings"
)

func init() { register(Table{Name: "CoreMatch", Gen: c08GenMatch}) }

// c08Bool translates a Go boolean expression over float64 variables into Lean (Int, Bool).
func c08Bool(e ast.Expr, vars map[string]bool) (string, error) {
	switch v := e.(type) {
	case *ast.ParenExpr:
		s, err := c08Bool(v.X, vars)
		return "(" + s + ")", err
	case *ast.UnaryExpr:
		if v.Op == token.NOT {
			s, err := c08Bool(v.X, vars)
			return "(!" + s + ")", err
		}
	case *ast.BinaryExpr:
		switch v.Op {
		case token.LAND, token.LOR:
			a, err := c08Bool(v.X, vars)
			if err != nil {
				return "", err
			}
			b, err := c08Bool(v.Y, vars)
			if err != nil {
				return "", err
			}
			op := "&&"
			if v.Op == token.LOR {
				op = "||"
			}
			return "(" + a + " " + op + " " + b + ")", nil
		case token.GTR, token.GEQ, token.LSS, token.LEQ:
			x, ok1 := v.X.(*ast.Ident)
			y, ok2 := v.Y.(*ast.Ident)
			if !ok1 || !ok2 {
				return "", fmt.Errorf("comparison of non-variables")
			}
			vars[x.Name], vars[y.Name] = true, true
			op := map[token.Token]string{token.GTR: ">", token.GEQ: "≥", token.LSS: "<", token.LEQ: "≤"}[v.Op]
			return "decide (" + x.Name + " " + op + " " + y.Name + ")", nil
		}
	}
	return "", fmt.Errorf("boolean expression not recognised: %T", e)
}

func c08Text(e ast.Expr) string {
	switch v := e.(type) {
	case *ast.Ident:
		return v.Name
	case *ast.BasicLit:
		return v.Value
	case *ast.IndexExpr:
		return c08Text(v.X) + "[" + c08Text(v.Index) + "]"
	case *ast.SelectorExpr:
		return c08Text(v.X) + "." + v.Sel.Name
	case *ast.CallExpr:
		as := []string{}
		for _, a := range v.Args {
			as = append(as, c08Text(a))
		}
		return c08Text(v.Fun) + "(" + strings.Join(as, ", ") + ")"
	case *ast.UnaryExpr:
		return v.Op.String() + c08Text(v.X)
	case *ast.BinaryExpr:
		return c08Text(v.X) + " " + v.Op.String() + " " + c08Text(v.Y)
	case *ast.ParenExpr:
		return "(" + c08Text(v.X) + ")"
	case *ast.ArrayType:
		return "[]" + c08Text(v.Elt)
	case *ast.InterfaceType:
		return "interface{}"
	}
	return fmt.Sprintf("<%T>", e)
}

// c08ReturnsFalse: the block logs (any number of expression statements) and returns false.
func c08ReturnsFalse(b *ast.BlockStmt) bool {
	if len(b.List) == 0 {
		return false
	}
	for _, s := range b.List[:len(b.List)-1] {
		if _, ok := s.(*ast.ExprStmt); !ok {
			return false
		}
	}
	ret, ok := b.List[len(b.List)-1].(*ast.ReturnStmt)
	if !ok || len(ret.Results) != 1 {
		return false
	}
	id, ok := ret.Results[0].(*ast.Ident)
	return ok && id.Name == "false"
}

// c08NumericArm: shape of the statements in front of the final return.
func c08NumericArm(body []ast.Stmt) (shape string, fn string, params []string, err error) {
	parts := []string{}
	n := len(body)
	if n == 0 {
		return "", "", nil, fmt.Errorf("empty arm")
	}
	for i := 0; i < n-1; i++ {
		switch s := body[i].(type) {
		case *ast.AssignStmt: // X, err := toNumber(Y) | vals, err := cast.ToSliceE(condVal)
			if len(s.Lhs) != 2 || len(s.Rhs) != 1 {
				return "", "", nil, fmt.Errorf("assignment shape")
			}
			call, ok := s.Rhs[0].(*ast.CallExpr)
			if !ok || len(call.Args) != 1 {
				return "", "", nil, fmt.Errorf("assignment is not a call")
			}
			if e, ok := s.Lhs[1].(*ast.Ident); !ok || e.Name != "err" {
				return "", "", nil, fmt.Errorf("second result is not err")
			}
			parts = append(parts, c08Text(s.Lhs[0])+"="+c08Text(call.Fun)+"("+c08Text(call.Args[0])+")")
			// the next statement must be `if err != nil { …; return false }`
			if i+1 >= n-1 {
				return "", "", nil, fmt.Errorf("cast without error check")
			}
			is, ok := body[i+1].(*ast.IfStmt)
			if !ok || c08Text(is.Cond) != "err != nil" || is.Else != nil || !c08ReturnsFalse(is.Body) {
				return "", "", nil, fmt.Errorf("cast of %s: error branch does not return false", c08Text(s.Lhs[0]))
			}
			i++
		case *ast.IfStmt: // if len(vals) != 2 { …; return false }
			if is := s; is.Init == nil && is.Else == nil && c08ReturnsFalse(is.Body) {
				parts = append(parts, "require !("+c08Text(is.Cond)+")")
			} else {
				return "", "", nil, fmt.Errorf("if statement not recognised")
			}
		default:
			return "", "", nil, fmt.Errorf("statement %T not recognised", s)
		}
	}
	ret, ok := body[n-1].(*ast.ReturnStmt)
	if !ok || len(ret.Results) != 1 {
		return "", "", nil, fmt.Errorf("arm does not end in a return")
	}
	vars := map[string]bool{}
	fn, err = c08Bool(ret.Results[0], vars)
	if err != nil {
		return "", "", nil, err
	}
	// parameters in the order of their casts
	for _, p := range parts {
		if k := strings.Index(p, "="); k > 0 && !strings.HasPrefix(p, "require") {
			name := p[:k]
			if vars[name] {
				params = append(params, name)
				delete(vars, name)
			}
		}
	}
	if len(vars) != 0 {
		return "", "", nil, fmt.Errorf("comparison uses a variable that was not cast")
	}
	return strings.Join(parts, "; "), fn, params, nil
}

// c08TypeSwitchArm: WITHIN / WITHOUT / CONTAINS.
func c08TypeSwitchArm(body []ast.Stmt) (string, error) {
	parts := []string{}
	for _, s := range body {
		switch v := s.(type) {
		case *ast.AssignStmt:
			parts = append(parts, c08Text(v.Lhs[0])+":="+c08Text(v.Rhs[0]))
		case *ast.TypeSwitchStmt:
			subj := ""
			if as, ok := v.Assign.(*ast.AssignStmt); ok {
				if ta, ok := as.Rhs[0].(*ast.TypeAssertExpr); ok {
					subj = c08Text(ta.X)
				}
			}
			arms := []string{}
			for _, c := range v.Body.List {
				cl := c.(*ast.CaseClause)
				name := "default"
				if cl.List != nil {
					name = c08Text(cl.List[0])
				}
				what := []string{}
				for _, st := range cl.Body {
					switch b := st.(type) {
					case *ast.RangeStmt:
						inner := "?"
						if len(b.Body.List) == 1 {
							if is, ok := b.Body.List[0].(*ast.IfStmt); ok && len(is.Body.List) == 1 {
								if as, ok := is.Body.List[0].(*ast.AssignStmt); ok {
									inner = "if " + c08Text(is.Cond) + " { " + c08Text(as.Lhs[0]) + " = " + c08Text(as.Rhs[0]) + " }"
								}
							}
						}
						what = append(what, "for "+c08Text(b.Value)+" in "+c08Text(b.X)+" { "+inner+" }")
					case *ast.AssignStmt:
						what = append(what, c08Text(b.Lhs[0])+" = "+c08Text(b.Rhs[0]))
					case *ast.ExprStmt:
						what = append(what, "log")
					default:
						return "", fmt.Errorf("type switch arm: statement %T", st)
					}
				}
				arms = append(arms, name+": "+strings.Join(what, ", "))
			}
			parts = append(parts, "switch "+subj+" { "+strings.Join(arms, " | ")+" }")
		case *ast.ReturnStmt:
			parts = append(parts, "return "+c08Text(v.Results[0]))
		default:
			return "", fmt.Errorf("statement %T not recognised", s)
		}
	}
	return strings.Join(parts, "; "), nil
}

func c08GenMatch(x *Ctx) (string, interface{}, error) {
	f, err := c11Parse(x, "engine/logic/match.go")
	if err != nil {
		return "", nil, err
	}
	var fd *ast.FuncDecl
	for _, d := range f.Decls {
		if g, ok := d.(*ast.FuncDecl); ok && g.Name.Name == "MatchesCondition" {
			fd = g
		}
	}
	if fd == nil || fd.Body == nil {
		return "", nil, fmt.Errorf("MatchesCondition not found")
	}
	var sw *ast.SwitchStmt
	for _, s := range fd.Body.List {
		if v, ok := s.(*ast.SwitchStmt); ok {
			if sw != nil {
				return "", nil, fmt.Errorf("MatchesCondition: more than one switch")
			}
			sw = v
		}
	}
	if sw == nil || c08Text(sw.Tag) != "cond.Condition" {
		return "", nil, fmt.Errorf("MatchesCondition: switch cond.Condition not found")
	}
	out := "-- GENERATED by tools/extract (c08_match.go) from engine/logic/match.go; do not edit\n"
	out += "namespace GripGen.CoreMatch\n"
	shapes := [][2]string{}
	facts := map[string]interface{}{}
	defaultFalse := false
	for _, c := range sw.Body.List {
		cl := c.(*ast.CaseClause)
		if cl.List == nil {
			defaultFalse = len(cl.Body) == 1 && c08Text(cl.Body[0].(*ast.ReturnStmt).Results[0]) == "false"
			continue
		}
		if len(cl.List) != 1 {
			return "", nil, fmt.Errorf("case with several values")
		}
		name, ok := c14CondName(cl.List[0])
		if !ok {
			return "", nil, fmt.Errorf("case value not a gripql.Condition_*")
		}
		switch name {
		case "EQ", "NEQ":
			if len(cl.Body) != 1 {
				return "", nil, fmt.Errorf("%s: more than a return", name)
			}
			ret, ok := cl.Body[0].(*ast.ReturnStmt)
			if !ok {
				return "", nil, fmt.Errorf("%s: not a return", name)
			}
			shapes = append(shapes, [2]string{name, "return " + c08Text(ret.Results[0])})
		case "GT", "GTE", "LT", "LTE", "INSIDE", "OUTSIDE", "BETWEEN":
			shape, fn, params, err := c08NumericArm(cl.Body)
			if err != nil {
				return "", nil, fmt.Errorf("%s: %v", name, err)
			}
			shapes = append(shapes, [2]string{name, shape})
			out += fmt.Sprintf("/-- `case gripql.Condition_%s:` … the final return -/\n", name)
			out += fmt.Sprintf("def %s (%s : Int) : Bool := %s\n", name, strings.Join(params, " "), fn)
			facts[name] = fn
		case "WITHIN", "WITHOUT", "CONTAINS":
			shape, err := c08TypeSwitchArm(cl.Body)
			if err != nil {
				return "", nil, fmt.Errorf("%s: %v", name, err)
			}
			shapes = append(shapes, [2]string{name, shape})
		default:
			return "", nil, fmt.Errorf("unexpected condition %s", name)
		}
	}
	if !defaultFalse {
		return "", nil, fmt.Errorf("MatchesCondition: default arm is not `return false`")
	}
	out += "/-- what each arm does before / instead of the comparison -/\n"
	out += "def shapes : List (String × String) := [\n"
	for i, s := range shapes {
		sep := ","
		if i == len(shapes)-1 {
			sep = ""
		}
		out += fmt.Sprintf("  (%s, %s)%s\n", strconv.Quote(s[0]), strconv.Quote(s[1]), sep)
	}
	out += "]\n"
	out += "end GripGen.CoreMatch\n"
	facts["shapes"] = shapes
	return out, facts, nil
}
