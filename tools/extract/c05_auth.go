// c05_auth.go — translator for property C05 (every exposed RPC is mediated).
//
// Regenerates lean/GripGen/AuthTables.lean (a value of Grip.C05.Tables, see
// lean/Grip/Model/C05Tables.lean) from
//
//	gripql/gripql_grpc.pb.go   the grpc.ServiceDesc literals: every method, its kind, its request type
//	gripql/gripql.pb.go        which message types carry a `Graph string` field
//	accounts/interface.go      MethodMap
//	accounts/util.go           unaryAuthInterceptor, streamAuthInterceptor (as statement lists per path),
//	                           getUnaryRequestGraph (cases)
//	accounts/bulk_write_filter.go  BulkWriteFilter.RecvMsg
//	gripql/gripql.pb.dgw.go    the direct (in-process gateway) client shims
//	server/server.go           Serve: interceptor chain of grpc.NewServer, options of every direct client
//
// go/ast only.  A statement the translator does not recognise is emitted as Stmt.opaque and listed
// under `unrecognised` (which breaks theorem extraction_clean) instead of being dropped.
package main

import (
	"bytes"
	"fmt"
	"go/ast"
	"go/parser"
	"go/printer"
	"go/token"
	"sort"
	"strconv"
	"strings"
)

func init() { register(Table{Name: "AuthTables", Gen: genAuthTables}) }

type c05 struct {
	x     *Ctx
	fset  *token.FileSet
	notes []string
}

func (c *c05) note(f string, a ...interface{}) { c.notes = append(c.notes, fmt.Sprintf(f, a...)) }

func (c *c05) parse(rel string) (*ast.File, error) {
	b, err := c.x.Read(rel)
	if err != nil {
		return nil, err
	}
	return parser.ParseFile(c.fset, rel, b, 0)
}

func (c *c05) src(n ast.Node) string {
	var b bytes.Buffer
	printer.Fprint(&b, c.fset, n)
	return strings.Join(strings.Fields(b.String()), " ")
}

func strLit(e ast.Expr) (string, bool) {
	if bl, ok := e.(*ast.BasicLit); ok && bl.Kind == token.STRING {
		s, err := strconv.Unquote(bl.Value)
		return s, err == nil
	}
	return "", false
}

func funcDecl(f *ast.File, name string) *ast.FuncDecl {
	for _, d := range f.Decls {
		if fd, ok := d.(*ast.FuncDecl); ok && fd.Name.Name == name && fd.Recv == nil {
			return fd
		}
	}
	return nil
}

func recvType(fd *ast.FuncDecl) string {
	if fd.Recv == nil || len(fd.Recv.List) == 0 {
		return ""
	}
	t := fd.Recv.List[0].Type
	if s, ok := t.(*ast.StarExpr); ok {
		t = s.X
	}
	if ix, ok := t.(*ast.IndexExpr); ok {
		t = ix.X
	}
	if id, ok := t.(*ast.Ident); ok {
		return id.Name
	}
	return ""
}

func method(f *ast.File, recv, name string) *ast.FuncDecl {
	for _, d := range f.Decls {
		if fd, ok := d.(*ast.FuncDecl); ok && fd.Name.Name == name && recvType(fd) == recv {
			return fd
		}
	}
	return nil
}

// firstNew returns T of the first `new(T)` in a body.
func firstNew(n ast.Node) string {
	out := ""
	ast.Inspect(n, func(x ast.Node) bool {
		if out != "" {
			return false
		}
		if ce, ok := x.(*ast.CallExpr); ok {
			if id, ok := ce.Fun.(*ast.Ident); ok && id.Name == "new" && len(ce.Args) == 1 {
				if t, ok := ce.Args[0].(*ast.Ident); ok {
					out = t.Name
				}
			}
		}
		return true
	})
	return out
}

// ---------------------------------------------------------------- descriptors

type mdesc struct{ Service, Name, Full, Kind, Req, Client, Handler string }

func (c *c05) descriptors(f *ast.File) []mdesc {
	var out []mdesc
	for _, d := range f.Decls {
		gd, ok := d.(*ast.GenDecl)
		if !ok || gd.Tok != token.VAR {
			continue
		}
		for _, sp := range gd.Specs {
			vs := sp.(*ast.ValueSpec)
			if len(vs.Values) != 1 {
				continue
			}
			cl, ok := vs.Values[0].(*ast.CompositeLit)
			if !ok || c.src(cl.Type) != "grpc.ServiceDesc" {
				continue
			}
			svc := ""
			for _, el := range cl.Elts {
				kv := el.(*ast.KeyValueExpr)
				if c.src(kv.Key) == "ServiceName" {
					svc, _ = strLit(kv.Value)
				}
			}
			if svc == "" {
				c.note("descriptor %s: no ServiceName", vs.Names[0].Name)
				continue
			}
			for _, el := range cl.Elts {
				kv := el.(*ast.KeyValueExpr)
				key := c.src(kv.Key)
				if key != "Methods" && key != "Streams" {
					continue
				}
				list, ok := kv.Value.(*ast.CompositeLit)
				if !ok {
					c.note("descriptor %s: %s is not a literal", svc, key)
					continue
				}
				for _, me := range list.Elts {
					ml, ok := me.(*ast.CompositeLit)
					if !ok {
						c.note("descriptor %s: odd element in %s", svc, key)
						continue
					}
					m := mdesc{Service: svc, Kind: "unary", Client: strings.TrimSuffix(vs.Names[0].Name, "_ServiceDesc") + "DirectClient"}
					handler := ""
					ss, cs := false, false
					for _, fe := range ml.Elts {
						fkv := fe.(*ast.KeyValueExpr)
						switch c.src(fkv.Key) {
						case "MethodName", "StreamName":
							m.Name, _ = strLit(fkv.Value)
						case "Handler":
							handler = c.src(fkv.Value)
						case "ServerStreams":
							ss = c.src(fkv.Value) == "true"
						case "ClientStreams":
							cs = c.src(fkv.Value) == "true"
						}
					}
					if key == "Streams" {
						switch {
						case ss && cs:
							m.Kind = "bidi"
						case ss:
							m.Kind = "serverStream"
						case cs:
							m.Kind = "clientStream"
						default:
							m.Kind = "bidi"
							c.note("descriptor %s/%s: stream with neither direction", svc, m.Name)
						}
					}
					m.Full = "/" + svc + "/" + m.Name
					m.Handler = handler
					if hd := funcDecl(f, handler); hd != nil {
						m.Req = firstNew(hd.Body)
						if m.Req == "" {
							// client stream: handler wraps the stream in &<x>Server{stream}; its Recv() news the element
							ast.Inspect(hd.Body, func(x ast.Node) bool {
								if l, ok := x.(*ast.CompositeLit); ok && m.Req == "" {
									if id, ok := l.Type.(*ast.Ident); ok {
										if rd := method(f, id.Name, "Recv"); rd != nil {
											m.Req = firstNew(rd.Body)
										}
									}
								}
								return true
							})
						}
					}
					if m.Req == "" {
						c.note("descriptor %s: request type of handler %s not found", m.Full, handler)
					}
					out = append(out, m)
				}
			}
		}
	}
	if len(out) == 0 {
		c.note("no grpc.ServiceDesc literal found")
	}
	return out
}

// message types with a `Graph string` field
func (c *c05) msgGraph(f *ast.File) [][2]string {
	var out [][2]string
	for _, d := range f.Decls {
		gd, ok := d.(*ast.GenDecl)
		if !ok || gd.Tok != token.TYPE {
			continue
		}
		for _, sp := range gd.Specs {
			ts := sp.(*ast.TypeSpec)
			st, ok := ts.Type.(*ast.StructType)
			if !ok {
				continue
			}
			isMsg, has := false, "false"
			for _, fl := range st.Fields.List {
				for _, n := range fl.Names {
					if n.Name == "state" && c.src(fl.Type) == "protoimpl.MessageState" {
						isMsg = true
					}
					if n.Name == "Graph" && c.src(fl.Type) == "string" {
						has = "true"
					}
				}
			}
			if isMsg {
				out = append(out, [2]string{ts.Name.Name, has})
			}
		}
	}
	sort.Slice(out, func(i, j int) bool { return out[i][0] < out[j][0] })
	return out
}

// ---------------------------------------------------------------- MethodMap

var opIdent = map[string]string{"Query": ".query", "Write": ".write", "Read": ".read", "Exec": ".exec",
	"Admin": ".admin", "QueryRepeat": ".queryRepeat"}

func leanOp(id string) string {
	if o, ok := opIdent[id]; ok {
		return o
	}
	return "(.other " + leanStr(id) + ")"
}

func (c *c05) methodMap(f *ast.File) [][2]string {
	var out [][2]string
	found := false
	for _, d := range f.Decls {
		gd, ok := d.(*ast.GenDecl)
		if !ok || gd.Tok != token.VAR {
			continue
		}
		for _, sp := range gd.Specs {
			vs := sp.(*ast.ValueSpec)
			if len(vs.Names) != 1 || vs.Names[0].Name != "MethodMap" || len(vs.Values) != 1 {
				continue
			}
			cl, ok := vs.Values[0].(*ast.CompositeLit)
			if !ok {
				c.note("MethodMap is not a composite literal")
				continue
			}
			found = true
			for _, el := range cl.Elts {
				kv, ok := el.(*ast.KeyValueExpr)
				if !ok {
					c.note("MethodMap: odd element")
					continue
				}
				k, ok1 := strLit(kv.Key)
				id, ok2 := kv.Value.(*ast.Ident)
				if !ok1 || !ok2 {
					c.note("MethodMap: entry %s not of the form \"name\": Const", c.src(kv))
					continue
				}
				out = append(out, [2]string{k, leanOp(id.Name)})
			}
		}
	}
	if !found {
		c.note("accounts.MethodMap not found")
	}
	return out
}

// ---------------------------------------------------------------- interceptor bodies → Stmt lists

func isErrNotNil(e ast.Expr) bool {
	be, ok := e.(*ast.BinaryExpr)
	if !ok || be.Op != token.NEQ {
		return false
	}
	x, ok1 := be.X.(*ast.Ident)
	y, ok2 := be.Y.(*ast.Ident)
	return ok1 && ok2 && x.Name == "err" && y.Name == "nil"
}

// statusCode of `return [nil,] status.Error(codes.X, …)`; "" if the statement is not of that form.
func (c *c05) statusReturn(s ast.Stmt) string {
	rs, ok := s.(*ast.ReturnStmt)
	if !ok || len(rs.Results) == 0 {
		return ""
	}
	last := rs.Results[len(rs.Results)-1]
	ce, ok := last.(*ast.CallExpr)
	if !ok || c.src(ce.Fun) != "status.Error" || len(ce.Args) < 1 {
		return ""
	}
	for _, r := range rs.Results[:len(rs.Results)-1] {
		if c.src(r) != "nil" {
			return ""
		}
	}
	a := c.src(ce.Args[0])
	if strings.HasPrefix(a, "codes.") {
		return strings.TrimPrefix(a, "codes.")
	}
	return ""
}

// guardCode: next statement is `if err != nil { return <status code> }` (no else) → code.
func (c *c05) guardCode(next ast.Stmt) string {
	is, ok := next.(*ast.IfStmt)
	if !ok || is.Init != nil || is.Else != nil || !isErrNotNil(is.Cond) || len(is.Body.List) != 1 {
		return ""
	}
	return c.statusReturn(is.Body.List[0])
}

func callOf(s ast.Stmt) (*ast.CallExpr, *ast.AssignStmt) {
	switch x := s.(type) {
	case *ast.AssignStmt:
		if len(x.Rhs) == 1 {
			if ce, ok := x.Rhs[0].(*ast.CallExpr); ok {
				return ce, x
			}
		}
	case *ast.ExprStmt:
		if ce, ok := x.X.(*ast.CallExpr); ok {
			return ce, nil
		}
	case *ast.ReturnStmt:
		if len(x.Results) == 1 {
			if ce, ok := x.Results[0].(*ast.CallExpr); ok {
				return ce, nil
			}
		}
	}
	return nil, nil
}

type walker struct {
	c       *c05
	wrapTy  map[string]string // variable ↦ message type of NewStreamOutWrapper[gripql.T]
	where   string
}

func (w *walker) graphExpr(e ast.Expr) string {
	if id, ok := e.(*ast.Ident); ok && id.Name == "graph" {
		return ".var"
	}
	if s, ok := strLit(e); ok {
		return "(.const " + leanStr(s) + ")"
	}
	// w.Request.F
	if sel, ok := e.(*ast.SelectorExpr); ok {
		if in, ok := sel.X.(*ast.SelectorExpr); ok && in.Sel.Name == "Request" {
			if id, ok := in.X.(*ast.Ident); ok {
				if ty, ok := w.wrapTy[id.Name]; ok {
					return "(.field " + leanStr(ty) + " " + leanStr(sel.Sel.Name) + ")"
				}
			}
		}
	}
	w.c.note("%s: graph argument %s not recognised", w.where, w.c.src(e))
	return "(.opaque " + leanStr(w.c.src(e)) + ")"
}

func (w *walker) opExpr(e ast.Expr) string {
	if id, ok := e.(*ast.Ident); ok {
		if id.Name == "op" {
			return ".var"
		}
		return "(.lit " + leanOp(id.Name) + ")"
	}
	w.c.note("%s: operation argument %s not recognised", w.where, w.c.src(e))
	return "(.lit (.other " + leanStr(w.c.src(e)) + "))"
}

func (w *walker) handlerArg(args []ast.Expr) string {
	if len(args) != 2 {
		return "(.opaque " + leanStr("arity") + ")"
	}
	a := args[1]
	if id, ok := a.(*ast.Ident); ok {
		if id.Name == "req" || id.Name == "ss" {
			// the first argument must be the untouched ctx / srv
			return ".raw"
		}
		if _, ok := w.wrapTy[id.Name]; ok {
			return ".wrapped"
		}
	}
	if ue, ok := a.(*ast.UnaryExpr); ok && ue.Op == token.AND {
		if cl, ok := ue.X.(*ast.CompositeLit); ok && w.c.src(cl.Type) == "BulkWriteFilter" {
			if w.c.src(cl) == "BulkWriteFilter{ss, user, access}" {
				return ".bulkFilter"
			}
		}
	}
	w.c.note("%s: handler argument %s not recognised", w.where, w.c.src(a))
	return "(.opaque " + leanStr(w.c.src(a)) + ")"
}

// terminates: the statement list ends with a return.
func terminates(l []ast.Stmt) bool {
	if len(l) == 0 {
		return false
	}
	_, ok := l[len(l)-1].(*ast.ReturnStmt)
	return ok
}

// walk turns a statement list into Lean Stmt terms.  `rest` is what follows the enclosing block
// (used when an if-ok body is left through its else path).
func (w *walker) walk(l []ast.Stmt) []string {
	var out []string
	for i := 0; i < len(l); i++ {
		s := l[i]
		var next ast.Stmt
		if i+1 < len(l) {
			next = l[i+1]
		}
		// prelude of both interceptors: metadata copy
		if as, ok := s.(*ast.AssignStmt); ok && len(as.Rhs) == 1 {
			r := w.c.src(as.Rhs[0])
			if strings.HasPrefix(r, "metadata.FromIncomingContext(") || r == "MetaData{}" {
				continue
			}
		}
		if rs, ok := s.(*ast.RangeStmt); ok && w.c.src(rs.X) == "md" {
			continue
		}
		if code := w.c.statusReturn(s); code != "" {
			out = append(out, "(.fail "+leanStr(code)+")")
			continue
		}
		// if op, ok := MethodMap[info.FullMethod]; ok { … }  followed by the not-found return
		if is, ok := s.(*ast.IfStmt); ok && is.Init != nil && is.Else == nil && w.c.src(is.Cond) == "ok" &&
			w.c.src(is.Init) == "op, ok := MethodMap[info.FullMethod]" {
			code := ""
			if next != nil && i+2 == len(l) {
				code = w.c.statusReturn(next)
			}
			if code != "" && terminates(is.Body.List) {
				out = append(out, "(.lookupOp "+leanStr(code)+")")
				out = append(out, w.walk(is.Body.List)...)
				return out
			}
		}
		ce, as := callOf(s)
		if ce != nil {
			fun := w.c.src(ce.Fun)
			switch {
			case fun == "auth.Validate" && as != nil && w.c.src(as.Lhs[0]) == "user" && len(ce.Args) == 1 && w.c.src(ce.Args[0]) == "metaData":
				if code := w.c.guardCode(next); code != "" {
					out = append(out, "(.validate "+leanStr(code)+")")
					i++
				} else {
					out = append(out, ".validateIgnored")
					w.c.note("%s: result of auth.Validate not checked", w.where)
				}
				continue
			case fun == "getUnaryRequestGraph" && as != nil && w.c.src(as.Lhs[0]) == "graph" && w.c.src(ce) == "getUnaryRequestGraph(req, info)":
				if code := w.c.guardCode(next); code != "" {
					out = append(out, "(.getGraph "+leanStr(code)+")")
					i++
					continue
				}
			case fun == "access.Enforce" && len(ce.Args) == 3 && w.c.src(ce.Args[0]) == "user":
				g, o := w.graphExpr(ce.Args[1]), w.opExpr(ce.Args[2])
				code := ""
				if as != nil && len(as.Lhs) == 1 && w.c.src(as.Lhs[0]) == "err" {
					code = w.c.guardCode(next)
				}
				if code != "" {
					out = append(out, "(.enforce "+g+" "+o+" "+leanStr(code)+")")
					i++
				} else {
					out = append(out, "(.enforceIgnored "+g+" "+o+")")
				}
				continue
			case fun == "handler":
				if _, isRet := s.(*ast.ReturnStmt); isRet && len(ce.Args) == 2 &&
					(w.c.src(ce.Args[0]) == "ctx" || w.c.src(ce.Args[0]) == "srv") {
					out = append(out, "(.handler "+w.handlerArg(ce.Args)+")")
					continue
				}
			case strings.HasPrefix(fun, "log.") || strings.HasPrefix(fun, "fmt.Print"):
				if _, isExpr := s.(*ast.ExprStmt); isExpr {
					continue
				}
			}
			// w, err := NewStreamOutWrapper[gripql.T](ss)
			if ix, ok := ce.Fun.(*ast.IndexExpr); ok && w.c.src(ix.X) == "NewStreamOutWrapper" && as != nil &&
				len(as.Lhs) == 2 && len(ce.Args) == 1 && w.c.src(ce.Args[0]) == "ss" {
				ty := strings.TrimPrefix(w.c.src(ix.Index), "gripql.")
				if code := w.c.guardCode(next); code != "" {
					w.wrapTy[w.c.src(as.Lhs[0])] = ty
					out = append(out, "(.wrap "+leanStr(ty)+" "+leanStr(code)+")")
					i++
					continue
				}
			}
		}
		w.c.note("%s: statement not recognised: %s", w.where, trunc(w.c.src(s)))
		out = append(out, "(.opaque "+leanStr(trunc(w.c.src(s)))+")")
	}
	return out
}

func trunc(s string) string {
	if len(s) > 120 {
		return s[:120] + "…"
	}
	return s
}

// closureBody: `func f(...) T { return func(...) {...} }` → the inner body.
func closureBody(fd *ast.FuncDecl) *ast.BlockStmt {
	if fd == nil || fd.Body == nil || len(fd.Body.List) != 1 {
		return nil
	}
	rs, ok := fd.Body.List[0].(*ast.ReturnStmt)
	if !ok || len(rs.Results) != 1 {
		return nil
	}
	fl, ok := rs.Results[0].(*ast.FuncLit)
	if !ok {
		return nil
	}
	return fl.Body
}

type armT struct {
	Name string
	Prog []string
}

type streamT struct {
	Prefix, ServerDefault, ClientDefault, NeitherDefault []string
	ServerArms, ClientArms                              []armT
}

func (c *c05) newWalker(where string) *walker {
	return &walker{c: c, wrapTy: map[string]string{}, where: where}
}

// armsOf reads a dispatch on info.FullMethod: a switch, or an if / else-if chain of ==-tests.
// Returns the arms and the default path (what runs when no arm matches), given the statements
// that follow the dispatch in its block.
func (c *c05) armsOf(where string, l []ast.Stmt) (arms []armT, def []string) {
	// leading statements that are not the dispatch belong to every path: not expected
	for i, s := range l {
		switch x := s.(type) {
		case *ast.SwitchStmt:
			if x.Init == nil && x.Tag != nil && c.src(x.Tag) == "info.FullMethod" {
				after := l[i+1:]
				var defBody []ast.Stmt
				hasDefault := false
				for _, cc := range x.Body.List {
					cl := cc.(*ast.CaseClause)
					body := cl.Body
					if !terminates(body) {
						body = append(append([]ast.Stmt{}, body...), after...)
					}
					if cl.List == nil {
						hasDefault = true
						defBody = body
						continue
					}
					for _, e := range cl.List {
						n, ok := strLit(e)
						if !ok {
							c.note("%s: case label %s is not a string literal", where, c.src(e))
							continue
						}
						arms = append(arms, armT{n, c.newWalker(where + " arm " + n).walk(body)})
					}
				}
				if !hasDefault {
					defBody = after
				}
				def = c.newWalker(where + " default").walk(defBody)
				if i > 0 {
					c.note("%s: statements before the dispatch", where)
				}
				return
			}
		case *ast.IfStmt:
			if _, ok := c.fullMethodEq(x.Cond); ok && x.Init == nil {
				after := l[i+1:]
				cur := x
				for {
					n, _ := c.fullMethodEq(cur.Cond)
					body := cur.Body.List
					if !terminates(body) {
						body = append(append([]ast.Stmt{}, body...), after...)
					}
					arms = append(arms, armT{n, c.newWalker(where + " arm " + n).walk(body)})
					switch e := cur.Else.(type) {
					case nil:
						def = c.newWalker(where + " default").walk(after)
						return
					case *ast.BlockStmt:
						body := e.List
						if !terminates(body) {
							body = append(append([]ast.Stmt{}, body...), after...)
						}
						def = c.newWalker(where + " default").walk(body)
						return
					case *ast.IfStmt:
						if _, ok := c.fullMethodEq(e.Cond); ok && e.Init == nil {
							cur = e
							continue
						}
						c.note("%s: else-if is not a FullMethod test", where)
						def = []string{"(.opaque " + leanStr(trunc(c.src(e))) + ")"}
						return
					}
				}
			}
		}
	}
	// no dispatch at all: one path for every method
	def = c.newWalker(where + " (no dispatch)").walk(l)
	return
}

func (c *c05) fullMethodEq(e ast.Expr) (string, bool) {
	be, ok := e.(*ast.BinaryExpr)
	if !ok || be.Op != token.EQL || c.src(be.X) != "info.FullMethod" {
		return "", false
	}
	return strLit(be.Y)
}

func (c *c05) streamInterceptor(f *ast.File) streamT {
	var st streamT
	body := closureBody(funcDecl(f, "streamAuthInterceptor"))
	if body == nil {
		c.note("streamAuthInterceptor: not of the form `return func(...) {...}`")
		return st
	}
	idx := -1
	for i, s := range body.List {
		if is, ok := s.(*ast.IfStmt); ok && c.src(is.Cond) == "info.IsServerStream" {
			idx = i
		}
	}
	if idx < 0 {
		c.note("streamAuthInterceptor: no `if info.IsServerStream`")
		st.Prefix = c.newWalker("stream").walk(body.List)
		return st
	}
	st.Prefix = c.newWalker("stream prefix").walk(body.List[:idx])
	after := body.List[idx+1:]
	st.NeitherDefault = c.newWalker("stream tail").walk(after)
	is := body.List[idx].(*ast.IfStmt)
	sb := is.Body.List
	if !terminates(sb) {
		sb = append(append([]ast.Stmt{}, sb...), after...)
	}
	st.ServerArms, st.ServerDefault = c.armsOf("stream/server", sb)
	switch e := is.Else.(type) {
	case nil:
		// no client-stream branch: client streams take the tail
		st.ClientDefault = st.NeitherDefault
	case *ast.IfStmt:
		if c.src(e.Cond) == "info.IsClientStream" && e.Init == nil {
			cb := e.Body.List
			if !terminates(cb) {
				cb = append(append([]ast.Stmt{}, cb...), after...)
			}
			st.ClientArms, st.ClientDefault = c.armsOf("stream/client", cb)
			if e.Else != nil {
				if eb, ok := e.Else.(*ast.BlockStmt); ok {
					nb := eb.List
					if !terminates(nb) {
						nb = append(append([]ast.Stmt{}, nb...), after...)
					}
					st.NeitherDefault = c.newWalker("stream else").walk(nb)
				} else {
					c.note("streamAuthInterceptor: unexpected else-if chain")
				}
			}
		} else {
			c.note("streamAuthInterceptor: else branch is not `if info.IsClientStream`")
		}
	default:
		c.note("streamAuthInterceptor: plain else after IsServerStream")
	}
	return st
}

type ucase struct {
	Methods []string
	Src     string
}

func (c *c05) unaryCases(f *ast.File) (cases []ucase, defaultFails bool) {
	fd := funcDecl(f, "getUnaryRequestGraph")
	if fd == nil {
		c.note("getUnaryRequestGraph not found")
		return
	}
	if len(fd.Body.List) != 2 {
		c.note("getUnaryRequestGraph: expected `switch` + `return`")
	}
	for i, s := range fd.Body.List {
		sw, ok := s.(*ast.SwitchStmt)
		if !ok {
			if rs, ok := s.(*ast.ReturnStmt); ok && i == len(fd.Body.List)-1 && len(rs.Results) == 2 &&
				strings.HasPrefix(c.src(rs.Results[1]), "fmt.Errorf(") {
				defaultFails = true
			} else {
				c.note("getUnaryRequestGraph: statement not recognised: %s", trunc(c.src(s)))
			}
			continue
		}
		if sw.Tag == nil || c.src(sw.Tag) != "info.FullMethod" {
			c.note("getUnaryRequestGraph: switch tag is not info.FullMethod")
			continue
		}
		for _, cc := range sw.Body.List {
			cl := cc.(*ast.CaseClause)
			if cl.List == nil {
				c.note("getUnaryRequestGraph: default clause")
				continue
			}
			u := ucase{}
			for _, e := range cl.List {
				n, ok := strLit(e)
				if !ok {
					c.note("getUnaryRequestGraph: label %s", c.src(e))
				}
				u.Methods = append(u.Methods, n)
			}
			u.Src = "(.opaque " + leanStr(trunc(c.src(cl))) + ")"
			switch len(cl.Body) {
			case 1:
				if rs, ok := cl.Body[0].(*ast.ReturnStmt); ok && len(rs.Results) == 2 && c.src(rs.Results[1]) == "nil" {
					if g, ok := strLit(rs.Results[0]); ok {
						u.Src = "(.const " + leanStr(g) + ")"
					}
				}
			case 2:
				as, ok1 := cl.Body[0].(*ast.AssignStmt)
				rs, ok2 := cl.Body[1].(*ast.ReturnStmt)
				if ok1 && ok2 && len(as.Lhs) == 1 && len(as.Rhs) == 1 && len(rs.Results) == 2 && c.src(rs.Results[1]) == "nil" {
					v := c.src(as.Lhs[0])
					if ta, ok := as.Rhs[0].(*ast.TypeAssertExpr); ok && c.src(ta.X) == "req" {
						ty := c.src(ta.Type)
						if sel, ok := rs.Results[0].(*ast.SelectorExpr); ok && c.src(sel.X) == v && strings.HasPrefix(ty, "*gripql.") {
							u.Src = "(.field " + leanStr(strings.TrimPrefix(ty, "*gripql.")) + " " + leanStr(sel.Sel.Name) + ")"
						}
					}
				}
			}
			if strings.HasPrefix(u.Src, "(.opaque") {
				c.note("getUnaryRequestGraph: case %v not recognised", u.Methods)
			}
			cases = append(cases, u)
		}
	}
	return
}

// ---------------------------------------------------------------- BulkWriteFilter.RecvMsg

func (c *c05) bulkFilter(f *ast.File) string {
	fd := method(f, "BulkWriteFilter", "RecvMsg")
	bad := func(why string) string {
		c.note("BulkWriteFilter.RecvMsg: %s", why)
		return "{ elemType := \"\", graph := .opaque " + leanStr(why) + ", op := .lit (.other \"?\"), userFromFilter := false, deliver := .other " + leanStr(why) + " }"
	}
	if fd == nil {
		return bad("method not found")
	}
	if len(fd.Body.List) != 1 {
		return bad("body is not a single loop")
	}
	loop, ok := fd.Body.List[0].(*ast.ForStmt)
	if !ok || loop.Cond != nil || loop.Init != nil || loop.Post != nil {
		return bad("body is not `for { … }`")
	}
	l := loop.Body.List
	// var ge gripql.T ; err := bw.SS.RecvMsg(&ge) ; if err != nil { return err } ; err = bw.Access.Enforce(bw.User, ge.Graph, Write) ; if err == nil {…} else {…}
	if len(l) != 5 {
		return bad("loop body has " + strconv.Itoa(len(l)) + " statements, expected 5")
	}
	elem := ""
	if ds, ok := l[0].(*ast.DeclStmt); ok {
		s := c.src(ds)
		if strings.HasPrefix(s, "var ge gripql.") {
			elem = strings.TrimPrefix(s, "var ge gripql.")
		}
	}
	if elem == "" {
		return bad("element declaration not recognised")
	}
	if c.src(l[1]) != "err := bw.SS.RecvMsg(&ge)" {
		return bad("receive statement not recognised")
	}
	if is, ok := l[2].(*ast.IfStmt); !ok || !isErrNotNil(is.Cond) || len(is.Body.List) != 1 || c.src(is.Body.List[0]) != "return err" || is.Else != nil {
		return bad("receive error check not recognised")
	}
	ce, as := callOf(l[3])
	if ce == nil || as == nil || c.src(as.Lhs[0]) != "err" || c.src(ce.Fun) != "bw.Access.Enforce" || len(ce.Args) != 3 {
		return bad("Enforce call not recognised")
	}
	userOK := "false"
	if c.src(ce.Args[0]) == "bw.User" {
		userOK = "true"
	}
	g := "(.opaque " + leanStr(c.src(ce.Args[1])) + ")"
	if sel, ok := ce.Args[1].(*ast.SelectorExpr); ok && c.src(sel.X) == "ge" {
		g = "(.field " + leanStr(elem) + " " + leanStr(sel.Sel.Name) + ")"
	}
	op := "(.lit (.other " + leanStr(c.src(ce.Args[2])) + "))"
	if id, ok := ce.Args[2].(*ast.Ident); ok {
		op = "(.lit " + leanOp(id.Name) + ")"
	}
	deliver := "(.other " + leanStr(trunc(c.src(l[4]))) + ")"
	if is, ok := l[4].(*ast.IfStmt); ok && is.Init == nil && c.src(is.Cond) == "err == nil" {
		body := []string{}
		for _, s := range is.Body.List {
			body = append(body, c.src(s))
		}
		okBody := strings.Join(body, " ; ") == "mPtr := m.(*gripql."+elem+") ; *mPtr = ge ; return nil"
		okElse := true
		if is.Else != nil {
			eb, isBlock := is.Else.(*ast.BlockStmt)
			okElse = isBlock
			if isBlock {
				for _, s := range eb.List {
					if ce2, _ := callOf(s); ce2 == nil || !strings.HasPrefix(c.src(ce2.Fun), "log.") {
						okElse = false
					}
					if _, isRet := s.(*ast.ReturnStmt); isRet {
						okElse = false
					}
				}
			}
		}
		if okBody && okElse {
			deliver = ".whenAllowed"
		}
	}
	if deliver != ".whenAllowed" {
		c.note("BulkWriteFilter.RecvMsg: delivery condition not recognised")
	}
	return "{ elemType := " + leanStr(elem) + ", graph := " + g + ", op := " + op + ", userFromFilter := " + userOK + ", deliver := " + deliver + " }"
}

// ---------------------------------------------------------------- direct clients (gateway)

type gwm struct {
	Client, Name, Full, Handler          string
	ViaUnary, ViaStream, SrvStr, CliStr, Drops bool
}

func (c *c05) gateway(f *ast.File) []gwm {
	var out []gwm
	for _, d := range f.Decls {
		fd, ok := d.(*ast.FuncDecl)
		if !ok || fd.Recv == nil {
			continue
		}
		rt := recvType(fd)
		if !strings.HasSuffix(rt, "DirectClient") || strings.HasPrefix(fd.Name.Name, "set") {
			continue
		}
		g := gwm{Client: rt, Name: fd.Name.Name}
		ast.Inspect(fd.Body, func(n ast.Node) bool {
			switch x := n.(type) {
			case *ast.GoStmt:
				if c.src(x.Call.Fun) == "shim.streamServerInt" {
					g.Drops = true
				}
			case *ast.CompositeLit:
				t := c.src(x.Type)
				if t == "grpc.UnaryServerInfo" || t == "grpc.StreamServerInfo" {
					for _, el := range x.Elts {
						kv, ok := el.(*ast.KeyValueExpr)
						if !ok {
							continue
						}
						switch c.src(kv.Key) {
						case "FullMethod":
							g.Full, _ = strLit(kv.Value)
						case "IsServerStream":
							g.SrvStr = c.src(kv.Value) == "true"
						case "IsClientStream":
							g.CliStr = c.src(kv.Value) == "true"
						}
					}
				}
			case *ast.CallExpr:
				switch c.src(x.Fun) {
				case "shim.unaryServerInt":
					g.ViaUnary = true
				case "shim.streamServerInt":
					g.ViaStream = true
					if len(x.Args) == 4 {
						g.Handler = c.src(x.Args[3])
					}
				}
			}
			return true
		})
		out = append(out, g)
	}
	if len(out) == 0 {
		c.note("no direct client shims found in gripql.pb.dgw.go")
	}
	return out
}

// ---------------------------------------------------------------- server.Serve

type dclient struct{ Ctor, Impl, Unary, Stream string }

type serveT struct {
	AuthUnary, AuthStream, UnaryOptVar, StreamOptVar string
	UnaryChain, StreamChain, NewServerArgs           []string
	NewServerCalls                                   int
	Registered                                       [][2]string
	Clients                                          []dclient
}

func (c *c05) serve(f *ast.File) serveT {
	var sv serveT
	var fd *ast.FuncDecl
	for _, d := range f.Decls {
		if x, ok := d.(*ast.FuncDecl); ok && x.Name.Name == "Serve" && recvType(x) == "GripServer" {
			fd = x
		}
	}
	if fd == nil {
		c.note("GripServer.Serve not found")
		return sv
	}
	ast.Inspect(fd.Body, func(n ast.Node) bool {
		switch x := n.(type) {
		case *ast.AssignStmt:
			if len(x.Lhs) == 1 && len(x.Rhs) == 1 {
				lhs := c.src(x.Lhs[0])
				if ce, ok := x.Rhs[0].(*ast.CallExpr); ok {
					fun := c.src(ce.Fun)
					switch {
					case strings.HasSuffix(fun, ".Accounts.UnaryInterceptor") && len(ce.Args) == 0:
						if sv.AuthUnary != "" {
							c.note("Serve: two unary auth interceptor variables")
						}
						sv.AuthUnary = lhs
					case strings.HasSuffix(fun, ".Accounts.StreamInterceptor") && len(ce.Args) == 0:
						if sv.AuthStream != "" {
							c.note("Serve: two stream auth interceptor variables")
						}
						sv.AuthStream = lhs
					case fun == "grpc.UnaryInterceptor" && len(ce.Args) == 1:
						if in, ok := ce.Args[0].(*ast.CallExpr); ok && c.src(in.Fun) == "grpc_middleware.ChainUnaryServer" {
							sv.UnaryOptVar = lhs
							for _, a := range in.Args {
								sv.UnaryChain = append(sv.UnaryChain, c.src(a))
							}
						} else {
							sv.UnaryOptVar = lhs
							sv.UnaryChain = []string{c.src(ce.Args[0])}
						}
					case fun == "grpc.StreamInterceptor" && len(ce.Args) == 1:
						if in, ok := ce.Args[0].(*ast.CallExpr); ok && c.src(in.Fun) == "grpc_middleware.ChainStreamServer" {
							sv.StreamOptVar = lhs
							for _, a := range in.Args {
								sv.StreamChain = append(sv.StreamChain, c.src(a))
							}
						} else {
							sv.StreamOptVar = lhs
							sv.StreamChain = []string{c.src(ce.Args[0])}
						}
					}
				}
			}
		case *ast.CallExpr:
			fun := c.src(x.Fun)
			switch {
			case fun == "grpc.NewServer":
				sv.NewServerCalls++
				for _, a := range x.Args {
					sv.NewServerArgs = append(sv.NewServerArgs, c.src(a))
				}
			case strings.HasPrefix(fun, "gripql.Register") && strings.HasSuffix(fun, "Server") && len(x.Args) == 2:
				svc := strings.TrimSuffix(strings.TrimPrefix(fun, "gripql.Register"), "Server")
				sv.Registered = append(sv.Registered, [2]string{svc, c.src(x.Args[0]) + " ← " + c.src(x.Args[1])})
			case strings.HasPrefix(fun, "gripql.New") && strings.HasSuffix(fun, "DirectClient"):
				dc := dclient{Ctor: strings.TrimPrefix(fun, "gripql.")}
				if len(x.Args) > 0 {
					dc.Impl = c.src(x.Args[0])
				}
				for _, a := range x.Args[1:] {
					if oc, ok := a.(*ast.CallExpr); ok && len(oc.Args) == 1 {
						switch c.src(oc.Fun) {
						case "gripql.DirectUnaryInterceptor":
							dc.Unary = c.src(oc.Args[0])
							continue
						case "gripql.DirectStreamInterceptor":
							dc.Stream = c.src(oc.Args[0])
							continue
						}
					}
					c.note("Serve: option %s of %s not recognised", c.src(a), dc.Ctor)
				}
				sv.Clients = append(sv.Clients, dc)
			}
		}
		return true
	})
	if sv.AuthUnary == "" || sv.AuthStream == "" {
		c.note("Serve: auth interceptor variables not found")
	}
	return sv
}

// ---------------------------------------------------------------- output

func leanList(items []string, indent string) string {
	if len(items) == 0 {
		return "[]"
	}
	return "[\n" + indent + "  " + strings.Join(items, ",\n"+indent+"  ") + "\n" + indent + "]"
}

func leanOpt(s string) string {
	if s == "" {
		return "none"
	}
	return "(some " + leanStr(s) + ")"
}

func leanBool(b bool) string {
	if b {
		return "true"
	}
	return "false"
}

func armsLean(arms []armT) string {
	var xs []string
	for _, a := range arms {
		xs = append(xs, "("+leanStr(a.Name)+", ["+strings.Join(a.Prog, ", ")+"])")
	}
	return leanList(xs, "  ")
}

func genAuthTables(x *Ctx) (string, interface{}, error) {
	c := &c05{x: x, fset: token.NewFileSet()}
	files := map[string]*ast.File{}
	for _, rel := range []string{"gripql/gripql_grpc.pb.go", "gripql/gripql.pb.go", "accounts/interface.go",
		"accounts/util.go", "accounts/bulk_write_filter.go", "gripql/gripql.pb.dgw.go", "server/server.go"} {
		f, err := c.parse(rel)
		if err != nil {
			return "", nil, fmt.Errorf("%s: %v", rel, err)
		}
		files[rel] = f
	}
	// the other anchored files are hashed so that the evidence records them
	for _, rel := range []string{"accounts/basic.go", "accounts/casbin.go", "accounts/proxy.go", "accounts/null.go",
		"accounts/stream_out_wrapper.go"} {
		x.Read(rel)
	}
	descs := c.descriptors(files["gripql/gripql_grpc.pb.go"])
	msgs := c.msgGraph(files["gripql/gripql.pb.go"])
	mm := c.methodMap(files["accounts/interface.go"])
	util := files["accounts/util.go"]
	var unaryProg []string
	if body := closureBody(funcDecl(util, "unaryAuthInterceptor")); body != nil {
		unaryProg = c.newWalker("unary").walk(body.List)
	} else {
		c.note("unaryAuthInterceptor: not of the form `return func(...) {...}`")
	}
	ucases, defFails := c.unaryCases(util)
	st := c.streamInterceptor(util)
	bulk := c.bulkFilter(files["accounts/bulk_write_filter.go"])
	gw := c.gateway(files["gripql/gripql.pb.dgw.go"])
	sv := c.serve(files["server/server.go"])

	var b strings.Builder
	b.WriteString("-- GENERATED by tools/extract/c05_auth.go from the grip tree on every check run; do not edit\n")
	b.WriteString("import Grip.Model.C05Tables\n\nnamespace GripGen.AuthTables\nopen Grip.C05\n\n")
	var ms []string
	for _, m := range descs {
		ms = append(ms, fmt.Sprintf("{ service := %s, name := %s, full := %s, kind := .%s, reqType := %s, client := %s, handler := %s }",
			leanStr(m.Service), leanStr(m.Name), leanStr(m.Full), m.Kind, leanStr(m.Req), leanStr(m.Client), leanStr(m.Handler)))
	}
	b.WriteString("def methods : List MethodDesc := " + leanList(ms, "") + "\n\n")
	var mml []string
	for _, e := range mm {
		mml = append(mml, "("+leanStr(e[0])+", "+e[1]+")")
	}
	b.WriteString("def methodMap : List (String × Op) := " + leanList(mml, "") + "\n\n")
	var mgl []string
	for _, e := range msgs {
		mgl = append(mgl, "("+leanStr(e[0])+", "+e[1]+")")
	}
	b.WriteString("def msgHasGraph : List (String × Bool) := " + leanList(mgl, "") + "\n\n")
	b.WriteString("def unaryProg : List Stmt := " + leanList(unaryProg, "") + "\n\n")
	var ucl []string
	for _, u := range ucases {
		ucl = append(ucl, "{ methods := "+leanStrList(u.Methods)+", src := "+u.Src+" }")
	}
	b.WriteString("def unaryCases : List UnaryCase := " + leanList(ucl, "") + "\n\n")
	b.WriteString("def streamPrefix : List Stmt := " + leanList(st.Prefix, "") + "\n\n")
	b.WriteString("def serverArms : List (String × List Stmt) := " + armsLean(st.ServerArms) + "\n\n")
	b.WriteString("def serverDefault : List Stmt := " + leanList(st.ServerDefault, "") + "\n\n")
	b.WriteString("def clientArms : List (String × List Stmt) := " + armsLean(st.ClientArms) + "\n\n")
	b.WriteString("def clientDefault : List Stmt := " + leanList(st.ClientDefault, "") + "\n\n")
	b.WriteString("def neitherDefault : List Stmt := " + leanList(st.NeitherDefault, "") + "\n\n")
	b.WriteString("def bulk : BulkFilter := " + bulk + "\n\n")
	var gwl []string
	for _, g := range gw {
		gwl = append(gwl, fmt.Sprintf("{ client := %s, name := %s, full := %s, viaUnary := %s, viaStream := %s, isServerStream := %s, isClientStream := %s, handler := %s, dropsError := %s }",
			leanStr(g.Client), leanStr(g.Name), leanStr(g.Full), leanBool(g.ViaUnary), leanBool(g.ViaStream), leanBool(g.SrvStr), leanBool(g.CliStr), leanStr(g.Handler), leanBool(g.Drops)))
	}
	b.WriteString("def gateway : List GwMethod := " + leanList(gwl, "") + "\n\n")
	var regl, dcl []string
	for _, r := range sv.Registered {
		regl = append(regl, "("+leanStr(r[0])+", "+leanStr(r[1])+")")
	}
	for _, d := range sv.Clients {
		dcl = append(dcl, "{ ctor := "+leanStr(d.Ctor)+", impl := "+leanStr(d.Impl)+", unaryOpt := "+leanOpt(d.Unary)+", streamOpt := "+leanOpt(d.Stream)+" }")
	}
	b.WriteString("def serve : ServeWiring := {\n")
	b.WriteString("  authUnaryVar := " + leanStr(sv.AuthUnary) + ", authStreamVar := " + leanStr(sv.AuthStream) + ",\n")
	b.WriteString("  unaryChain := " + leanStrList(sv.UnaryChain) + ",\n  streamChain := " + leanStrList(sv.StreamChain) + ",\n")
	b.WriteString("  unaryOptVar := " + leanStr(sv.UnaryOptVar) + ", streamOptVar := " + leanStr(sv.StreamOptVar) + ",\n")
	b.WriteString("  newServerCalls := " + strconv.Itoa(sv.NewServerCalls) + ",\n  newServerArgs := " + leanStrList(sv.NewServerArgs) + ",\n")
	b.WriteString("  registered := " + leanList(regl, "  ") + ",\n  directClients := " + leanList(dcl, "  ") + " }\n\n")
	var nl []string
	for _, n := range c.notes {
		nl = append(nl, leanStr(n))
	}
	b.WriteString("def unrecognised : List String := " + leanList(nl, "") + "\n\n")
	b.WriteString("def tables : Tables := {\n  methods := methods, methodMap := methodMap, msgHasGraph := msgHasGraph,\n" +
		"  unaryProg := unaryProg, unaryCases := unaryCases, unaryCasesDefaultFails := " + leanBool(defFails) + ",\n" +
		"  streamPrefix := streamPrefix, serverArms := serverArms, serverDefault := serverDefault,\n" +
		"  clientArms := clientArms, clientDefault := clientDefault, neitherDefault := neitherDefault,\n" +
		"  bulk := bulk, gateway := gateway, serve := serve, unrecognised := unrecognised }\n\n")
	b.WriteString("end GripGen.AuthTables\n")

	facts := map[string]interface{}{
		"methods": descs, "methodMap": mm, "unaryProg": unaryProg, "unaryCases": ucases, "stream": st,
		"gateway": gw, "serve": sv, "unrecognised": c.notes,
	}
	return b.String(), facts, nil
}
