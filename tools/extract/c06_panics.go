package main

// C06 — GripGen.PanicSites: the inventory of operations that can panic in the anchored sources.
//
// Per function of each anchored file (stdlib go/ast only, no type information):
//   assert   x.(T) outside a comma-ok assignment and outside a type switch
//   index    xs[i] (every index expression except string-literal keys); map reads cannot panic,
//            but without types the hand table has to say so for each of them
//   close    close(ch)
//   send     ch <- v            (server/api.go only: the BulkAdd element stream)
//   deref    selector on the result of GetCurrent()/GetMark()/GetAggregation(), directly or through
//            a variable assigned from such a call (one site per variable and function); the same
//            for variables assigned from the `.Vertex` / `.Edge` fields of a request element
//   div      `/` and `%` (integer division by zero panics; float division does not)
// Key = file|function|kind|expression text[#n] — stable under edits elsewhere in the file.

import (
	"bytes"
	"fmt"
	"go/ast"
	"go/parser"
	"go/printer"
	"go/token"
	"sort"
	"strings"
)

func init() { register(Table{Name: "PanicSites", Gen: genC06PanicSites}) }

var c06Files = []string{
	"engine/core/optimize.go", "engine/core/compile.go", "engine/core/processors.go",
	"engine/pipeline/pipes.go", "engine/pipeline/state.go", "engine/logic/match.go",
	"jsonpath/jsonpath.go", "gdbi/traveler.go", "server/api.go",
}

type c06Site struct{ File, Func, Kind, Expr, Key string }

func c06Src(fset *token.FileSet, n ast.Node) string {
	var b bytes.Buffer
	printer.Fprint(&b, fset, n)
	return strings.Join(strings.Fields(b.String()), " ")
}

func c06IsNilCall(e ast.Expr) (string, bool) {
	c, ok := e.(*ast.CallExpr)
	if !ok {
		return "", false
	}
	s, ok := c.Fun.(*ast.SelectorExpr)
	if !ok {
		return "", false
	}
	switch s.Sel.Name {
	case "GetCurrent", "GetMark", "GetAggregation":
		return s.Sel.Name, true
	}
	return "", false
}

func c06IsElemField(e ast.Expr) bool {
	s, ok := e.(*ast.SelectorExpr)
	return ok && (s.Sel.Name == "Vertex" || s.Sel.Name == "Edge")
}

func c06FuncName(fd *ast.FuncDecl) string {
	if fd.Recv != nil && len(fd.Recv.List) > 0 {
		t := fd.Recv.List[0].Type
		if st, ok := t.(*ast.StarExpr); ok {
			t = st.X
		}
		if id, ok := t.(*ast.Ident); ok {
			return id.Name + "." + fd.Name.Name
		}
	}
	return fd.Name.Name
}

func c06Scan(fset *token.FileSet, rel string, fd *ast.FuncDecl) []c06Site {
	fn := c06FuncName(fd)
	var out []c06Site
	add := func(kind, expr string) {
		out = append(out, c06Site{File: rel, Func: fn, Kind: kind, Expr: expr})
	}
	okAsserts := map[*ast.TypeAssertExpr]bool{}
	nilVars := map[string]string{} // variable → origin
	seenVar := map[string]bool{}
	ast.Inspect(fd.Body, func(n ast.Node) bool {
		switch x := n.(type) {
		case *ast.AssignStmt:
			if len(x.Lhs) == 2 && len(x.Rhs) == 1 {
				if ta, ok := x.Rhs[0].(*ast.TypeAssertExpr); ok {
					okAsserts[ta] = true
				}
			}
			if len(x.Lhs) == len(x.Rhs) {
				for i := range x.Lhs {
					id, ok := x.Lhs[i].(*ast.Ident)
					if !ok {
						continue
					}
					if name, ok := c06IsNilCall(x.Rhs[i]); ok {
						nilVars[id.Name] = name + "()"
					} else if c06IsElemField(x.Rhs[i]) {
						nilVars[id.Name] = c06Src(fset, x.Rhs[i])
					}
				}
			}
		case *ast.ValueSpec:
			if len(x.Names) == 2 && len(x.Values) == 1 {
				if ta, ok := x.Values[0].(*ast.TypeAssertExpr); ok {
					okAsserts[ta] = true
				}
			}
		}
		return true
	})
	ast.Inspect(fd.Body, func(n ast.Node) bool {
		switch x := n.(type) {
		case *ast.TypeAssertExpr:
			if x.Type != nil && !okAsserts[x] {
				add("assert", c06Src(fset, x))
			}
		case *ast.IndexExpr:
			if bl, ok := x.Index.(*ast.BasicLit); ok && bl.Kind == token.STRING {
				return true
			}
			add("index", c06Src(fset, x))
		case *ast.CallExpr:
			if id, ok := x.Fun.(*ast.Ident); ok && id.Name == "close" && len(x.Args) == 1 {
				add("close", c06Src(fset, x.Args[0]))
			}
		case *ast.SendStmt:
			if rel == "server/api.go" {
				add("send", c06Src(fset, x.Chan))
			}
		case *ast.SelectorExpr:
			if name, ok := c06IsNilCall(x.X); ok {
				add("deref", name+"()."+x.Sel.Name)
			} else if id, ok := x.X.(*ast.Ident); ok {
				if origin, ok := nilVars[id.Name]; ok && !seenVar[id.Name] {
					seenVar[id.Name] = true
					add("deref", id.Name+" := "+origin)
				}
			}
		case *ast.BinaryExpr:
			if x.Op == token.QUO || x.Op == token.REM {
				add("div", c06Src(fset, x))
			}
		}
		return true
	})
	return out
}

func genC06PanicSites(x *Ctx) (string, interface{}, error) {
	var sites []c06Site
	for _, rel := range c06Files {
		src, err := x.Read(rel)
		if err != nil {
			return "", nil, err
		}
		fset := token.NewFileSet()
		f, err := parser.ParseFile(fset, rel, src, 0)
		if err != nil {
			return "", nil, err
		}
		nfuncs := 0
		for _, d := range f.Decls {
			fd, ok := d.(*ast.FuncDecl)
			if !ok || fd.Body == nil {
				continue
			}
			nfuncs++
			sites = append(sites, c06Scan(fset, rel, fd)...)
		}
		if nfuncs == 0 {
			return "", nil, fmt.Errorf("%s: no function found (file moved or emptied?)", rel)
		}
	}
	// stable keys: identical (file, func, kind, expr) get an ordinal
	count := map[string]int{}
	for i := range sites {
		k := sites[i].File + "|" + sites[i].Func + "|" + sites[i].Kind + "|" + sites[i].Expr
		count[k]++
		if count[k] > 1 {
			k = fmt.Sprintf("%s#%d", k, count[k])
		}
		sites[i].Key = k
	}
	sort.SliceStable(sites, func(i, j int) bool { return sites[i].Key < sites[j].Key })
	var b strings.Builder
	b.WriteString("-- GENERATED by tools/extract (c06_panics.go) from " + strings.Join(c06Files, ", ") + "; do not edit\n")
	b.WriteString("namespace GripGen.PanicSites\n")
	b.WriteString("structure Site where\n  file : String\n  func : String\n  kind : String\n  expr : String\n  key : String\n  deriving Repr, DecidableEq\n")
	b.WriteString("def sites : List Site := [\n")
	for i, s := range sites {
		sep := ","
		if i == len(sites)-1 {
			sep = ""
		}
		fmt.Fprintf(&b, "  ⟨%s, %s, %s, %s, %s⟩%s\n", leanStr(s.File), leanStr(s.Func), leanStr(s.Kind), leanStr(s.Expr), leanStr(s.Key), sep)
	}
	b.WriteString("]\nend GripGen.PanicSites\n")
	facts := map[string]interface{}{"count": len(sites)}
	return b.String(), facts, nil
}
